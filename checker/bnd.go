package main

// BND — bounds and panic-site obligations of input-facing functions.
//
// Obligations: every indexing / slicing / computed-size allocation, explicit panic, unchecked type assertion
// and integer division in the functions reachable from the parse entry points. Discharge, in this order:
//   P  the Go compiler's prove pass removed the bounds check (the site is absent from
//      `go build -gcflags=-d=ssa/check_bce/debug=1`, which lists every check it could NOT remove);
//   F  length facts: a lower bound on len(S) established for this very slice value by a dominating
//      comparison, by quicvarint.Parse's contract on its error-free edge, by construction (make, s[a:b]),
//      matched against what the operation needs;
//   X  a frozen exception with its reason.
// What is left is a violation naming the expression.

import (
	"bufio"
	"bytes"
	"fmt"
	"go/token"
	"go/types"
	"os"
	"os/exec"
	"path/filepath"
	"regexp"
	"sort"
	"strconv"
	"strings"

	"golang.org/x/tools/go/ssa"
)

type bndSite struct {
	Fn    *ssa.Function
	Instr ssa.Instruction
	Kind  string // index | slice | make | panic | assert | div
	Expr  string
	OK    bool
	How   string // P | F | X | ""
	Why   string
}

// compilerUnproven runs the compiler on the given package patterns of the repository and returns the positions
// ("file:line:col", file relative to the repository) of the bounds checks it could not remove.
func compilerUnproven(repo string, goarch string, pkgs []string) (map[string]string, error) {
	args := append([]string{"build", "-gcflags=-d=ssa/check_bce/debug=1"}, pkgs...)
	cmd := exec.Command("go", args...)
	cmd.Dir = repo
	env := os.Environ()
	env = append(env, "GOFLAGS=-mod=mod", "GOPROXY=off", "GOTOOLCHAIN=local", "GOWORK=off")
	if goarch != "" {
		env = append(env, "GOARCH="+goarch)
	}
	if gProg != nil && gProg.GOOS != "" {
		env = append(env, "GOOS="+gProg.GOOS)
	}
	cmd.Env = env
	var out bytes.Buffer
	cmd.Stdout = &out
	cmd.Stderr = &out
	err := cmd.Run()
	res := map[string]string{}
	re := regexp.MustCompile(`^(.+\.go):(\d+):(\d+): Found (IsInBounds|IsSliceInBounds)`)
	sc := bufio.NewScanner(&out)
	sc.Buffer(make([]byte, 1<<20), 1<<24)
	n := 0
	for sc.Scan() {
		line := sc.Text()
		m := re.FindStringSubmatch(line)
		if m == nil {
			continue
		}
		n++
		file := m[1]
		if filepath.IsAbs(file) {
			if rel, e := filepath.Rel(repo, file); e == nil {
				file = rel
			}
		}
		file = strings.TrimPrefix(file, "./")
		res[file+":"+m[2]+":"+m[3]] = m[4]
	}
	if err != nil && n == 0 {
		return nil, fmt.Errorf("go build for the bounds-check listing failed: %v: %s", err, short(out.String()))
	}
	return res, nil
}

func (p *Prog) posKey(pos token.Pos) string {
	if !pos.IsValid() {
		return ""
	}
	ps := p.SSA.Fset.Position(pos)
	file := ps.Filename
	if rel, err := filepath.Rel(p.RepoDir, file); err == nil {
		file = rel
	}
	return file + ":" + strconv.Itoa(ps.Line) + ":" + strconv.Itoa(ps.Column)
}

// ---- length facts ----

// lenFact: len(S) >= Base + K (Base nil: a constant bound). Base may itself be a sum of values; see linTerms.
type lenFact struct {
	Base ssa.Value
	K    int64
}

// linTerms flattens a sum of values into its addends (constants are split off by decompose first).
func linTerms(v ssa.Value, out []ssa.Value) []ssa.Value {
	if v == nil {
		return out
	}
	v = stripConv(v)
	if b, ok := v.(*ssa.BinOp); ok && b.Op == token.ADD {
		if _, isK := constInt64Of(b.X); !isK {
			if _, isK2 := constInt64Of(b.Y); !isK2 {
				return linTerms(b.Y, linTerms(b.X, out))
			}
		}
	}
	return append(out, v)
}

// linConst: the constant part of a sum (all constant addends, at any depth).
func linSplit(v ssa.Value) ([]ssa.Value, int64) {
	var terms []ssa.Value
	var k int64
	var walk func(v ssa.Value)
	walk = func(v ssa.Value) {
		v = stripConv(v)
		if c, ok := constInt64Of(v); ok {
			k += c
			return
		}
		if b, ok := v.(*ssa.BinOp); ok {
			if b.Op == token.ADD {
				walk(b.X)
				walk(b.Y)
				return
			}
			if b.Op == token.SUB {
				if c, ok := constInt64Of(b.Y); ok {
					walk(b.X)
					k -= c
					return
				}
			}
		}
		terms = append(terms, v)
	}
	if v != nil {
		walk(v)
	}
	return terms, k
}

// linCovers: fact (fv + fk) >= need (nv + nk), i.e. every addend of the need is an addend of the fact, the fact's
// remaining addends are non-negative, and fk >= nk.
func linCovers(fv ssa.Value, fk int64, nv ssa.Value, nk int64, at *ssa.BasicBlock) bool {
	ft, fc := linSplit(fv)
	nt, nc := linSplit(nv)
	fk += fc
	nk += nc
	used := make([]bool, len(ft))
	for _, n := range nt {
		found := false
		for i, f := range ft {
			if !used[i] && sameValuePure(f, n) {
				used[i] = true
				found = true
				break
			}
		}
		if !found {
			return false
		}
	}
	slack := fk - nk
	for i, f := range ft {
		if used[i] {
			continue
		}
		if k, ok := equalsConstAt(f, at); ok {
			slack += k
			continue
		}
		if !nonNeg(f, at, map[ssa.Value]bool{}) {
			return false
		}
	}
	return slack >= 0
}

// equalsConstAt: a dominating edge establishes v == K.
func equalsConstAt(v ssa.Value, at *ssa.BasicBlock) (int64, bool) {
	for d := at; d != nil && d.Idom() != nil; d = d.Idom() {
		id := d.Idom()
		ifi, ok := id.Instrs[len(id.Instrs)-1].(*ssa.If)
		if !ok || len(d.Preds) != 1 || id.Succs[0] != d {
			continue
		}
		bo, ok := ifi.Cond.(*ssa.BinOp)
		if !ok || bo.Op != token.EQL {
			continue
		}
		if sameValue(stripConv(bo.X), stripConv(v)) {
			if k, ok := constInt64Of(bo.Y); ok {
				return k, true
			}
		}
	}
	return 0, false
}

// sameValuePure: sameValue, or two calls of the same side-effect-free accessor on the same receiver,
// or the same arithmetic over such values.
func sameValuePure(a, b ssa.Value) bool {
	a, b = stripConv(a), stripConv(b)
	if sameValue(a, b) {
		return true
	}
	ca, ok1 := a.(*ssa.Call)
	cb, ok2 := b.(*ssa.Call)
	if ok1 && ok2 {
		fa, fb := ca.Call.StaticCallee(), cb.Call.StaticCallee()
		if fa == nil || fa != fb || !pureGetter(fa) || len(ca.Call.Args) != len(cb.Call.Args) {
			return false
		}
		for i := range ca.Call.Args {
			if !sameValuePure(ca.Call.Args[i], cb.Call.Args[i]) && !sameAddr(ca.Call.Args[i], cb.Call.Args[i]) {
				return false
			}
		}
		return true
	}
	ba, ok1 := a.(*ssa.BinOp)
	bb, ok2 := b.(*ssa.BinOp)
	if ok1 && ok2 && ba.Op == bb.Op {
		return sameValuePure(ba.X, bb.X) && sameValuePure(ba.Y, bb.Y)
	}
	return false
}

// sameAddr: two addresses of the same field of the same base (e.g. &h.Header).
func sameAddr(a, b ssa.Value) bool {
	fa, ok1 := a.(*ssa.FieldAddr)
	fb, ok2 := b.(*ssa.FieldAddr)
	if ok1 && ok2 {
		return fa.Field == fb.Field && (fa.X == fb.X || sameValuePure(fa.X, fb.X) || sameAddr(fa.X, fb.X))
	}
	return a == b
}

// pureGetter: a single-block function without calls or stores that returns a value computed from its receiver/arguments.
func pureGetter(f *ssa.Function) bool {
	if f == nil || len(f.Blocks) != 1 {
		return false
	}
	for _, in := range f.Blocks[0].Instrs {
		switch in.(type) {
		case *ssa.Store, *ssa.Call, *ssa.Go, *ssa.Defer, *ssa.MapUpdate, *ssa.Send:
			return false
		}
	}
	return true
}

// decompose splits an integer expression into (base value, constant offset).
func decompose(v ssa.Value) (ssa.Value, int64) {
	v = stripConv(v)
	if k, ok := v.(*ssa.Const); ok && k.Value != nil {
		if i, ok := constInt64(k); ok {
			return nil, i
		}
	}
	if b, ok := v.(*ssa.BinOp); ok {
		if b.Op == token.ADD {
			if k, ok := constInt64Of(b.Y); ok {
				base, c := decompose(b.X)
				return base, c + k
			}
			if k, ok := constInt64Of(b.X); ok {
				base, c := decompose(b.Y)
				return base, c + k
			}
		}
		if b.Op == token.SUB {
			if k, ok := constInt64Of(b.Y); ok {
				base, c := decompose(b.X)
				return base, c - k
			}
		}
	}
	return v, 0
}

func constInt64(k *ssa.Const) (int64, bool) {
	if k.Value == nil {
		return 0, false
	}
	if u, ok := constU64(k); ok && u <= 1<<62 {
		return int64(u), true
	}
	return 0, false
}

func constInt64Of(v ssa.Value) (int64, bool) {
	k, ok := stripConv(v).(*ssa.Const)
	if !ok {
		return 0, false
	}
	return constInt64(k)
}

// isLenOf: v is len(S) (through conversions) for the slice value S.
func isLenOf(v ssa.Value, S ssa.Value) bool {
	if cl, ok := stripConv(v).(*ssa.Call); ok && builtinName(&cl.Call) == "len" {
		return sameSlice(cl.Call.Args[0], S)
	}
	// a value that equals len(S) by construction: S = T[lo : lo+n]  ⇒  len(S) == n
	if n := lenAlias(S); n != nil && sameValuePure(stripConv(v), n) {
		return true
	}
	return false
}

// lenAlias: for S = T[lo : lo+n] (the sum may be written in any order) the value n, which equals len(S).
func lenAlias(S ssa.Value) ssa.Value {
	sl, ok := S.(*ssa.Slice)
	if !ok || sl.High == nil {
		return nil
	}
	ht, hk := linSplit(sl.High)
	var lt []ssa.Value
	var lk int64
	if sl.Low != nil {
		lt, lk = linSplit(sl.Low)
	}
	if hk != lk {
		return nil
	}
	used := make([]bool, len(ht))
	for _, l := range lt {
		found := false
		for i, h := range ht {
			if !used[i] && sameValuePure(h, l) {
				used[i], found = true, true
				break
			}
		}
		if !found {
			return nil
		}
	}
	var rest []ssa.Value
	for i, h := range ht {
		if !used[i] {
			rest = append(rest, h)
		}
	}
	if len(rest) != 1 {
		return nil
	}
	return rest[0]
}

func sameSlice(a, b ssa.Value) bool {
	return a == b || sameValue(a, b)
}

// factsAt collects lower bounds on len(S) that hold at block `at`.
func factsAt(S ssa.Value, at *ssa.BasicBlock, depth int) []lenFact {
	var out []lenFact
	if depth > 4 || S == nil {
		return out
	}
	// by contract (checked at every call site by bndParamContracts)
	if prm, ok := S.(*ssa.Parameter); ok {
		if c, ok := paramContracts[funcName(prm.Parent())]; ok && c.slice == prm.Name() {
			for _, q := range prm.Parent().Params {
				if q.Name() == c.atLeast {
					out = append(out, lenFact{q, 0})
				}
			}
		}
	}
	// by construction
	switch x := S.(type) {
	case *ssa.MakeSlice:
		b, k := decompose(x.Len)
		out = append(out, lenFact{b, k})
	case *ssa.Slice:
		// arrays: the length of an array slice with constant bounds
		if arr, ok := derefType(x.X.Type()).Underlying().(*types.Array); ok {
			lo, hi := int64(0), arr.Len()
			okc := true
			if x.Low != nil {
				if k, ok := constInt64Of(x.Low); ok {
					lo = k
				} else {
					okc = false
				}
			}
			if x.High != nil {
				if k, ok := constInt64Of(x.High); ok {
					hi = k
				} else {
					okc = false
				}
			}
			if okc {
				out = append(out, lenFact{nil, hi - lo})
			}
		} else {
			lo := int64(0)
			loConst := true
			if x.Low != nil {
				if k, ok := constInt64Of(x.Low); ok {
					lo = k
				} else {
					loConst = false
				}
			}
			if x.High != nil && loConst {
				b, k := decompose(x.High)
				out = append(out, lenFact{b, k - lo})
			} else if x.High == nil && loConst {
				for _, f := range factsAt(x.X, x.Block(), depth+1) {
					out = append(out, lenFact{f.Base, f.K - lo})
				}
			} else if x.High == nil && !loConst {
				// len(T[l:]) = len(T) - l: with len(T) >= l + c  ⇒  >= c
				// subtract the addends of the low bound from the addends of the fact
				lt, lk := linSplit(x.Low)
				for _, f := range append(factsAt(x.X, x.Block(), depth+1), parseFacts(x.X, x.Block())...) {
					ft, fc := linSplit(f.Base)
					used := make([]bool, len(ft))
					all := true
					for _, l := range lt {
						found := false
						for i, t := range ft {
							if !used[i] && sameValuePure(t, l) {
								used[i], found = true, true
								break
							}
						}
						if !found {
							all = false
						}
					}
					if !all {
						continue
					}
					var rest []ssa.Value
					for i, t := range ft {
						if !used[i] {
							rest = append(rest, t)
						}
					}
					switch len(rest) {
					case 0:
						out = append(out, lenFact{nil, f.K + fc - lk})
					case 1:
						out = append(out, lenFact{rest[0], f.K + fc - lk})
					}
				}
			}
		}
	}
	if arr, ok := derefType(S.Type()).Underlying().(*types.Array); ok {
		out = append(out, lenFact{nil, arr.Len()})
	}
	// dominating comparisons
	for d := at; d != nil; d = d.Idom() {
		id := d.Idom()
		if id == nil {
			break
		}
		ifi, ok := id.Instrs[len(id.Instrs)-1].(*ssa.If)
		if !ok {
			continue
		}
		for s := 0; s < 2; s++ {
			if id.Succs[s] != d || len(d.Preds) != 1 {
				continue
			}
			out = append(out, factsFromCond(ifi.Cond, s == 0, S)...)
		}
	}
	return out
}

// factsFromCond: what the condition (taken with the given polarity) says about len(S).
func factsFromCond(cond ssa.Value, pol bool, S ssa.Value) []lenFact {
	for {
		u, ok := cond.(*ssa.UnOp)
		if !ok || u.Op != token.NOT {
			break
		}
		cond = u.X
		pol = !pol
	}
	var out []lenFact
	b, ok := cond.(*ssa.BinOp)
	if !ok {
		// err == nil edge of quicvarint.Parse(S) is handled by the caller through parseFacts
		return out
	}
	op := b.Op
	if !pol {
		op = negOp(op)
	}
	x, y := b.X, b.Y
	lenSide := func(v ssa.Value) (int64, bool) {
		// len(S) + c
		if isLenOf(v, S) {
			return 0, true
		}
		if bo, ok := stripConv(v).(*ssa.BinOp); ok {
			if c, isK := constInt64Of(bo.Y); isK && isLenOf(bo.X, S) {
				if bo.Op == token.SUB {
					return -c, true
				}
				if bo.Op == token.ADD {
					return c, true
				}
			}
		}
		return 0, false
	}
	cx, okx := lenSide(x)
	cy, oky := lenSide(y)
	if oky && !okx {
		x, y = y, x
		cx, okx = cy, true
		op = swapOp(op)
	}
	if !okx {
		return out
	}
	base, k := decompose(y)
	k -= cx // len(S) + cx OP base + k   ⇒   len(S) OP base + (k - cx)
	switch op {
	case token.GEQ:
		out = append(out, lenFact{base, k})
	case token.GTR:
		out = append(out, lenFact{base, k + 1})
	case token.EQL:
		out = append(out, lenFact{base, k})
	case token.NEQ:
		if base == nil && k == 0 {
			out = append(out, lenFact{nil, 1})
		}
	}
	return out
}

// parseFacts: S was the argument of a quicvarint.Parse call whose error-free edge dominates `at`:
// len(S) >= n (the returned length) and n >= 1.
func parseFacts(S ssa.Value, at *ssa.BasicBlock) []lenFact {
	var out []lenFact
	refs := S.Referrers()
	if refs == nil {
		return out
	}
	for _, r := range *refs {
		cl, ok := r.(*ssa.Call)
		if !ok {
			continue
		}
		o := calleeObj(&cl.Call)
		if o == nil || o.Pkg() == nil || len(cl.Call.Args) == 0 || cl.Call.Args[0] != S {
			continue
		}
		nIdx, isLP := lengthParsers[o.Pkg().Name()+"."+o.Name()]
		if !isLP || !InRepo(o.Pkg().Path()) {
			continue
		}
		errIdx := o.Type().(*types.Signature).Results().Len() - 1
		var n, errV ssa.Value
		if cl.Referrers() != nil {
			for _, rr := range *cl.Referrers() {
				if ex, ok := rr.(*ssa.Extract); ok {
					if ex.Index == nIdx {
						n = ex
					}
					if ex.Index == errIdx {
						errV = ex
					}
				}
			}
		}
		if n == nil || errV == nil {
			continue
		}
		if dominatedByEdge(at, Rel{Op: token.EQL, X: func(v ssa.Value) bool { return v == errV }, Y: IsNil()}, false) {
			out = append(out, lenFact{n, 0})
		}
	}
	return out
}

// nonNeg: v cannot be negative.
func nonNeg(v ssa.Value, at *ssa.BasicBlock, seen map[ssa.Value]bool) bool {
	if v == nil {
		return true
	}
	if seen[v] {
		return true
	}
	seen[v] = true
	if k, ok := v.(*ssa.Const); ok {
		i, ok := constInt64(k)
		return ok && i >= 0
	}
	if bt, ok := v.Type().Underlying().(*types.Basic); ok && bt.Info()&types.IsUnsigned != 0 {
		return true
	}
	switch x := v.(type) {
	case *ssa.Convert:
		if bt, ok := x.X.Type().Underlying().(*types.Basic); ok && bt.Info()&types.IsUnsigned != 0 {
			// widening or same-width conversion of an unsigned value that is known to fit is non-negative;
			// uint8/uint16/uint32 → int always fits on the supported platforms
			switch bt.Kind() {
			case types.Uint8, types.Uint16:
				return true
			}
			// a wider unsigned value: non-negative if it is bounded by a length (dominating comparison) — accepted
			// when the operand takes part in a dominating comparison with a len()
			return dominatedByLenCmp(x.X, at)
		}
		return nonNeg(x.X, at, seen)
	case *ssa.ChangeType:
		return nonNeg(x.X, at, seen)
	case *ssa.Call:
		if b := builtinName(&x.Call); b == "len" || b == "cap" || b == "min" && allNonNeg(x.Call.Args, at, seen) || b == "max" && anyNonNeg(x.Call.Args, at, seen) {
			return true
		}
		if sc := x.Call.StaticCallee(); sc != nil {
			if _, ok := trustedNonNegCalls[funcName(sc)]; ok {
				return true
			}
		}
	case *ssa.Extract:
		if cl, ok := x.Tuple.(*ssa.Call); ok {
			if o := calleeObj(&cl.Call); o != nil && o.Pkg() != nil && InRepo(o.Pkg().Path()) {
				if idx, ok := lengthParsers[o.Pkg().Name()+"."+o.Name()]; ok && idx == x.Index {
					return true
				}
			}
		}
	case *ssa.Parameter:
		if _, ok := trustedNonNegParams[funcName(x.Parent())+"."+x.Name()]; ok {
			return true
		}
	case *ssa.UnOp:
		if f, _ := loadedField(x); f != nil {
			if _, ok := trustedNonNegFields[f.Name()]; ok && f.Pkg() != nil && InRepo(f.Pkg().Path()) {
				return true
			}
		}
	case *ssa.BinOp:
		switch x.Op {
		case token.ADD, token.MUL, token.QUO, token.REM, token.SHR, token.AND:
			return nonNeg(x.X, at, seen) && nonNeg(x.Y, at, seen)
		case token.SUB:
			// a - b with a dominating b <= a
			if dominatedByEdge(at, Rel{Op: token.LEQ, X: Same(x.Y), Y: Same(x.X)}, false) || dominatedByEdge(at, Rel{Op: token.GEQ, X: Same(x.X), Y: Same(x.Y)}, false) {
				return true
			}
		}
	case *ssa.Phi:
		for _, e := range x.Edges {
			if !nonNeg(e, at, seen) {
				return false
			}
		}
		return true
	}
	// a dominating v >= 0 / v > k
	if dominatedByEdge(at, Rel{Op: token.GEQ, X: Same(v), Y: ConstI(0)}, false) || dominatedByEdge(at, Rel{Op: token.GTR, X: Same(v), Y: func(y ssa.Value) bool { k, ok := constInt64Of(y); return ok && k >= -1 }}, false) {
		return true
	}
	return false
}

func allNonNeg(vs []ssa.Value, at *ssa.BasicBlock, seen map[ssa.Value]bool) bool {
	for _, v := range vs {
		if !nonNeg(v, at, seen) {
			return false
		}
	}
	return true
}

func anyNonNeg(vs []ssa.Value, at *ssa.BasicBlock, seen map[ssa.Value]bool) bool {
	for _, v := range vs {
		if nonNeg(v, at, seen) {
			return true
		}
	}
	return false
}

// trustedNonNegCalls: accessors returning byte counts that are sums of consumed lengths.
var trustedNonNegCalls = map[string]string{
	"(*internal/wire.Header).ParsedLen":         "1 + the number of bytes parseLongHeader consumed",
	"(*internal/wire.ExtendedHeader).ParsedLen": "Header.ParsedLen() + the packet number length",
	"(internal/protocol.ConnectionID).Len":      "length of a connection ID (0..20)",
}

// trustedNonNegFields: struct fields that only ever hold values decoded from QUIC varints (0..2^62-1).
var trustedNonNegFields = map[string]string{
	"Length":            "wire.Header.Length = ByteCount(varint)",
	"shortHdrConnIDLen": "packetUnpacker.shortHdrConnIDLen: the endpoint's own connection-ID length (0..20), passed to newPacketUnpacker once",
}

// trustedNonNegParams: integer parameters that are the endpoint's own configuration, not wire input.
var trustedNonNegParams = map[string]string{
	"internal/wire.ParseShortHeader.connIDLen":          "the endpoint's own connection-ID length (0..20, fixed at Transport.init)",
	"internal/wire.ParseConnectionID.shortHeaderConnIDLen": "the endpoint's own connection-ID length (0..20, fixed at Transport.init)",
}

// dominatedByLenCmp: some dominating edge compares v (≤ / <) with a len().
func dominatedByLenCmp(v ssa.Value, at *ssa.BasicBlock) bool {
	isLen := func(y ssa.Value) bool {
		cl, ok := stripConv(y).(*ssa.Call)
		return ok && builtinName(&cl.Call) == "len"
	}
	return dominatedByEdge(at, Rel{Op: token.LEQ, X: Same(v), Y: isLen}, false) || dominatedByEdge(at, Rel{Op: token.LSS, X: Same(v), Y: isLen}, false)
}

// paramContracts: len(<slice parameter>) >= <integer parameter> on entry; every call site is checked.
type paramContract struct{ slice, atLeast string }

var paramContracts = map[string]paramContract{
	"internal/wire.readPacketNumber": {"data", "pnLen"},
}

// lengthParsers: functions that return (…, n, …, err) with n <= len(input) on the error-free edge.
// quicvarint.Parse: C08.3 checks its per-prefix length table and len guards; ParseArbitraryLenConnectionIDs
// returns startLen - len(rest) + srcConnIDLen after checking len(rest) >= srcConnIDLen.
var lengthParsers = map[string]int{"quicvarint.Parse": 1, "wire.ParseArbitraryLenConnectionIDs": 0}

// needs: is len(S) >= base + k established at `at`?
func lenAtLeast(S ssa.Value, base ssa.Value, k int64, at *ssa.BasicBlock) (bool, string) {
	facts := append(factsAt(S, at, 0), parseFacts(S, at)...)
	for _, f := range facts {
		if linCovers(f.Base, f.K, base, k, at) {
			return true, fmt.Sprintf("len >= %s%+d", valName(f.Base), f.K)
		}
	}
	if base == nil && k <= 0 {
		return true, "trivial"
	}
	// one step of transitivity: len >= F and a dominating comparison establishes need <= F
	for _, f := range facts {
		if f.Base == nil {
			continue
		}
		if leAt(base, k, f.Base, f.K, at) {
			return true, fmt.Sprintf("len >= %s%+d and a dominating comparison bounds the need by it", valName(f.Base), f.K)
		}
	}
	return false, fmt.Sprintf("no bound len >= %s%+d among %d facts", valName(base), k, len(facts))
}

// leAt: a dominating edge of `at` establishes  (av + ak) <= (bv + bk)  for linear sums av, bv.
func leAt(av ssa.Value, ak int64, bv ssa.Value, bk int64, at *ssa.BasicBlock) bool {
	at0, ac := linSplit(av)
	bt0, bc := linSplit(bv)
	ak += ac
	bk += bc
	sameTerms := func(x, y []ssa.Value) bool {
		if len(x) != len(y) {
			return false
		}
		used := make([]bool, len(y))
		for _, a := range x {
			found := false
			for i, b := range y {
				if !used[i] && sameValuePure(a, b) {
					used[i], found = true, true
					break
				}
			}
			if !found {
				return false
			}
		}
		return true
	}
	for d := at; d != nil && d.Idom() != nil; d = d.Idom() {
		id := d.Idom()
		ifi, ok := id.Instrs[len(id.Instrs)-1].(*ssa.If)
		if !ok {
			continue
		}
		for s := 0; s < 2; s++ {
			if id.Succs[s] != d || len(d.Preds) != 1 {
				continue
			}
			cond := ifi.Cond
			pol := s == 0
			for {
				u, ok := cond.(*ssa.UnOp)
				if !ok || u.Op != token.NOT {
					break
				}
				cond = u.X
				pol = !pol
			}
			b, ok := cond.(*ssa.BinOp)
			if !ok || !isCmp(b.Op) {
				continue
			}
			op := b.Op
			if !pol {
				op = negOp(op)
			}
			x, y := b.X, b.Y
			// normalise to  x <= y + slack
			var slack int64
			switch op {
			case token.LEQ:
			case token.LSS:
				slack = -1
			case token.GEQ:
				x, y = y, x
			case token.GTR:
				x, y = y, x
				slack = -1
			case token.EQL:
			default:
				continue
			}
			xt, xk := linSplit(x)
			yt, yk := linSplit(y)
			// established: xt + xk <= yt + yk + slack. Wanted: at0 + ak <= bt0 + bk.
			if sameTerms(xt, at0) && sameTerms(yt, bt0) {
				// at0 <= bt0 + (yk + slack - xk)  ⇒  at0 + ak <= bt0 + (yk + slack - xk + ak)
				if yk+slack-xk+ak <= bk {
					return true
				}
			}
		}
	}
	return false
}

func valName(v ssa.Value) string {
	if v == nil {
		return ""
	}
	return v.Name()
}

// ---- obligations ----

// callersEstablish: every static call site of fn passes, as argument argIdx, a slice with len >= base(arg)+k.
// baseParam < 0: constant need; otherwise the need is the integer argument at that index.
func (p *Prog) callersEstablish(fn *ssa.Function, argIdx, baseParam int, k int64, depth int) (bool, string) {
	obj := funcObj(fn)
	if obj == nil || depth > 2 {
		return false, "callers not enumerable"
	}
	sites := p.CallSites(obj)
	n := 0
	for _, cs := range sites {
		ci, ok := cs.Instr.(ssa.CallInstruction)
		if !ok || cs.Kind == "value" {
			return false, "used as a function value at " + p.InstrPos(cs.Instr)
		}
		args := ci.Common().Args
		if ci.Common().IsInvoke() {
			return false, "called through an interface at " + p.InstrPos(cs.Instr)
		}
		if argIdx >= len(args) {
			return false, "argument not found"
		}
		n++
		var base ssa.Value
		if baseParam >= 0 {
			base = args[baseParam]
		}
		ok2, _ := lenAtLeast(args[argIdx], base, k, cs.Instr.Block())
		if !ok2 {
			// the caller may itself receive the slice as a parameter with the same obligation
			if prm, isP := args[argIdx].(*ssa.Parameter); isP && baseParam < 0 {
				idx := -1
				for i, q := range prm.Parent().Params {
					if q == prm {
						idx = i
					}
				}
				if ok3, _ := p.callersEstablish(prm.Parent(), idx, -1, k, depth+1); idx >= 0 && ok3 {
					continue
				}
			}
			return false, "not established at " + p.InstrPos(cs.Instr) + " in " + funcName(cs.Fn)
		}
	}
	if n == 0 {
		return false, "no call site"
	}
	return true, fmt.Sprintf("established at all %d call sites", n)
}

func (p *Prog) bndSites(fns []*ssa.Function, unproven map[string]string, exceptions map[string]string) []bndSite {
	var out []bndSite
	for _, f := range fns {
		perFn := map[string]int{}
		eachInstr(f, func(in ssa.Instruction) {
			site := bndSite{Fn: f, Instr: in}
			switch x := in.(type) {
			case *ssa.IndexAddr:
				if _, isMapOrOther := x.X.Type().Underlying().(*types.Map); isMapOrOther {
					return
				}
				// a constant index into an array of known size is decided by the type checker
				if arr, ok := derefType(x.X.Type()).Underlying().(*types.Array); ok {
					if k, ok := constInt64Of(x.Index); ok && k >= 0 && k < arr.Len() {
						return
					}
				}
				site.Kind, site.Expr = "index", "index of "+x.X.Name()
				if _, unp := unproven[p.posKey(x.Pos())]; !unp && x.Pos().IsValid() {
					site.OK, site.How, site.Why = true, "P", "bounds check removed by the compiler's prove pass"
					break
				}
				b, k := decompose(x.Index)
				okLen, why := lenAtLeast(x.X, b, k+1, x.Block())
				okNN := nonNeg(x.Index, x.Block(), map[ssa.Value]bool{})
				if !okLen && b == nil {
					if prm, isP := x.X.(*ssa.Parameter); isP {
						for i, q := range f.Params {
							if q == prm {
								if ok2, why2 := p.callersEstablish(f, i, -1, k+1, 0); ok2 {
									okLen, why = true, "caller contract len >= "+strconv.FormatInt(k+1, 10)+": "+why2
								} else {
									why += "; callers: " + why2
								}
							}
						}
					}
				}
				site.OK, site.How, site.Why = okLen && okNN, "F", why
				if !okNN {
					site.Why += "; index not shown non-negative"
				}
			case *ssa.Index:
				site.Kind, site.Expr = "index", "index of array value "+x.X.Name()
				if _, unp := unproven[p.posKey(x.Pos())]; !unp && x.Pos().IsValid() {
					site.OK, site.How, site.Why = true, "P", "bounds check removed by the compiler's prove pass"
					break
				}
				site.OK = false
				site.Why = "array value indexed with an unproven index"
			case *ssa.Lookup:
				if _, isStr := x.X.Type().Underlying().(*types.Basic); !isStr {
					return
				}
				site.Kind, site.Expr = "index", "index of string "+x.X.Name()
				if _, unp := unproven[p.posKey(x.Pos())]; !unp && x.Pos().IsValid() {
					site.OK, site.How, site.Why = true, "P", "bounds check removed by the compiler's prove pass"
					break
				}
				b, k := decompose(x.Index)
				okLen, why := lenAtLeast(x.X, b, k+1, x.Block())
				site.OK, site.How, site.Why = okLen && nonNeg(x.Index, x.Block(), map[ssa.Value]bool{}), "F", why
			case *ssa.Slice:
				if x.Low == nil && x.High == nil && x.Max == nil {
					return
				}
				site.Kind, site.Expr = "slice", "slice of "+x.X.Name()
				if _, unp := unproven[p.posKey(x.Pos())]; !unp && x.Pos().IsValid() {
					site.OK, site.How, site.Why = true, "P", "bounds check removed by the compiler's prove pass"
					break
				}
				okAll, whys := true, []string{}
				if x.High != nil {
					b, k := decompose(x.High)
					ok, why := lenAtLeast(x.X, b, k, x.Block())
					if !ok {
						// s[:n] only needs n <= cap(s)
						isCap := func(v ssa.Value) bool {
							cl, isCl := stripConv(v).(*ssa.Call)
							return isCl && builtinName(&cl.Call) == "cap" && sameSlice(cl.Call.Args[0], x.X)
						}
						if dominatedByEdge(x.Block(), Rel{Op: token.LEQ, X: Same(x.High), Y: isCap}, false) || dominatedByEdge(x.Block(), Rel{Op: token.LSS, X: Same(x.High), Y: isCap}, false) {
							ok, why = true, "high <= cap established by a dominating comparison"
						}
					}
					okAll = okAll && ok && nonNeg(x.High, x.Block(), map[ssa.Value]bool{})
					whys = append(whys, "high: "+why)
					if x.Low != nil {
						// low <= high
						lb, lk := decompose(x.Low)
						hb, hk := decompose(x.High)
						le := false
						switch {
						case lb == nil && hb == nil:
							le = lk <= hk
						case lb != nil && hb != nil && sameValue(lb, hb):
							le = lk <= hk
						case lb == nil && hb != nil:
							le = lk <= hk && nonNeg(hb, x.Block(), map[ssa.Value]bool{}) || dominatedByEdge(x.Block(), Rel{Op: token.GEQ, X: Same(x.High), Y: Same(x.Low)}, false)
						default:
							// high = low + nonneg
							if hbo, ok := stripConv(x.High).(*ssa.BinOp); ok && hbo.Op == token.ADD {
								if sameValue(hbo.X, x.Low) && nonNeg(hbo.Y, x.Block(), map[ssa.Value]bool{}) || sameValue(hbo.Y, x.Low) && nonNeg(hbo.X, x.Block(), map[ssa.Value]bool{}) {
									le = true
								}
							}
							if dominatedByEdge(x.Block(), Rel{Op: token.LEQ, X: Same(x.Low), Y: Same(x.High)}, false) {
								le = true
							}
							// high = low + (non-negative addends) as linear sums (no CSE in go/ssa: `p+4` twice are two values)
							if !le {
								ht, hc := linSplit(x.High)
								lt, lc := linSplit(x.Low)
								used := make([]bool, len(ht))
								all := true
								for _, l := range lt {
									found := false
									for i, h := range ht {
										if !used[i] && sameValuePure(h, l) {
											used[i], found = true, true
											break
										}
									}
									if !found {
										all = false
									}
								}
								if all && hc >= lc {
									rest := true
									for i, h := range ht {
										if !used[i] && !nonNeg(h, x.Block(), map[ssa.Value]bool{}) {
											rest = false
										}
									}
									le = rest
								}
							}
						}
						okAll = okAll && le && nonNeg(x.Low, x.Block(), map[ssa.Value]bool{})
						if !le {
							whys = append(whys, "low <= high not shown")
						}
					}
				} else if x.Low != nil {
					b, k := decompose(x.Low)
					ok, why := lenAtLeast(x.X, b, k, x.Block())
					okAll = okAll && ok && nonNeg(x.Low, x.Block(), map[ssa.Value]bool{})
					whys = append(whys, "low: "+why)
				}
				if x.Max != nil {
					okAll = false
					whys = append(whys, "3-index slice not handled")
				}
				site.OK, site.How, site.Why = okAll, "F", strings.Join(whys, "; ")
			case *ssa.MakeSlice:
				if _, isK := stripConv(x.Len).(*ssa.Const); isK {
					return
				}
				site.Kind, site.Expr = "make", "make with computed length "+x.Len.Name()
				nn := nonNeg(x.Len, x.Block(), map[ssa.Value]bool{})
				// bounded: the length is compared (≤ / <) with a len() or a constant on a dominating edge, or is a len()/min() itself
				bounded := boundedLen(x.Len, x.Block(), 0)
				site.OK, site.How = nn && bounded, "F"
				site.Why = fmt.Sprintf("non-negative: %v; bounded by a length or constant: %v", nn, bounded)
			case *ssa.Panic:
				site.Kind, site.Expr = "panic", "explicit panic"
				site.OK = false
				site.Why = "reachable explicit panic"
				if exhaustedSwitch(x.Block()) {
					site.OK, site.How, site.Why = true, "F", "unreachable: every value of the switched expression (a byte shifted right) has a case that does not fall through to here"
				}
			case *ssa.TypeAssert:
				if x.CommaOk {
					return
				}
				site.Kind, site.Expr = "assert", "type assertion to "+x.AssertedType.String()
				site.OK = false
				site.Why = "unchecked type assertion"
			case *ssa.BinOp:
				if x.Op != token.QUO && x.Op != token.REM {
					return
				}
				if bt, ok := x.X.Type().Underlying().(*types.Basic); !ok || bt.Info()&types.IsInteger == 0 {
					return
				}
				if k, ok := constInt64Of(x.Y); ok && k != 0 {
					return
				}
				site.Kind, site.Expr = "div", "integer division by "+x.Y.Name()
				site.OK = dominatedByEdge(x.Block(), Rel{Op: token.NEQ, X: Same(x.Y), Y: ConstI(0)}, false) || dominatedByEdge(x.Block(), Rel{Op: token.GTR, X: Same(x.Y), Y: ConstI(0)}, false)
				site.How, site.Why = "F", "divisor compared with zero on a dominating edge"
			default:
				return
			}
			descr := site.Kind + bndDescr(in)
			perFn[descr]++
			key := fmt.Sprintf("%s#%s#%d", funcName(f), descr, perFn[descr])
			if !site.OK {
				if why, ok := exceptions[key]; ok {
					site.OK, site.How, site.Why = true, "X", "exception: "+why
				}
			}
			site.Expr = key + " (" + site.Expr + ")"
			out = append(out, site)
		})
	}
	sort.SliceStable(out, func(i, j int) bool { return out[i].Expr < out[j].Expr })
	return out
}

func isLenLike(v ssa.Value) bool {
	// a byte- or 16-bit-sized count is bounded by its type
	for x := v; ; {
		if bt, ok := x.Type().Underlying().(*types.Basic); ok && (bt.Kind() == types.Uint8 || bt.Kind() == types.Uint16) {
			return true
		}
		c, ok := x.(*ssa.Convert)
		if !ok {
			break
		}
		x = c.X
	}
	v = stripConv(v)
	if cl, ok := v.(*ssa.Call); ok {
		b := builtinName(&cl.Call)
		return b == "len" || b == "min"
	}
	if b, ok := v.(*ssa.BinOp); ok && (b.Op == token.SUB || b.Op == token.QUO) {
		return isLenLike(b.X)
	}
	return false
}

// boundedLen: an allocation size that is compared with a length / constant on a dominating edge, is a length itself,
// or a φ of such values (each judged where it flows in).
func boundedLen(v ssa.Value, at *ssa.BasicBlock, depth int) bool {
	if depth > 4 {
		return false
	}
	if isLenLike(v) || dominatedByLenCmp(v, at) || dominatedByLenCmp(stripConv(v), at) {
		return true
	}
	isK := func(y ssa.Value) bool { _, ok := constInt64Of(y); return ok }
	if dominatedByEdge(at, Rel{Op: token.LEQ, X: Same(v), Y: isK}, false) || dominatedByEdge(at, Rel{Op: token.LSS, X: Same(v), Y: isK}, false) {
		return true
	}
	if p, ok := stripConv(v).(*ssa.Phi); ok {
		for i, e := range p.Edges {
			pred := p.Block().Preds[i]
			if boundedLen(e, pred, depth+1) {
				continue
			}
			// the φ edge itself may be the bounded branch of the predecessor's comparison
			okEdge := false
			if ifi, isIf := pred.Instrs[len(pred.Instrs)-1].(*ssa.If); isIf {
				isLen := func(y ssa.Value) bool {
					cl, ok := stripConv(y).(*ssa.Call)
					return ok && builtinName(&cl.Call) == "len"
				}
				for sidx := 0; sidx < 2; sidx++ {
					if pred.Succs[sidx] == p.Block() && (EdgeImplies(ifi, sidx, Rel{Op: token.LEQ, X: Same(e), Y: isLen}, false) || EdgeImplies(ifi, sidx, Rel{Op: token.LSS, X: Same(e), Y: isLen}, false)) {
						okEdge = true
					}
				}
			}
			if !okEdge {
				return false
			}
		}
		return len(p.Edges) > 0
	}
	return false
}

// reachStatic: functions reachable from the roots through static calls within the given packages.
func (p *Prog) reachStatic(roots []*ssa.Function, inPkg func(string) bool) []*ssa.Function {
	seen := map[*ssa.Function]bool{}
	var out []*ssa.Function
	var walk func(f *ssa.Function)
	walk = func(f *ssa.Function) {
		if f == nil || seen[f] || f.Blocks == nil || !inPkg(funcPkgPath(f)) {
			return
		}
		seen[f] = true
		out = append(out, f)
		eachInstr(f, func(in ssa.Instruction) {
			if ci, ok := in.(ssa.CallInstruction); ok {
				if sc := ci.Common().StaticCallee(); sc != nil {
					walk(sc)
				}
			}
			if mc, ok := in.(*ssa.MakeClosure); ok {
				if fn, ok := mc.Fn.(*ssa.Function); ok {
					walk(fn)
				}
			}
		})
	}
	for _, r := range roots {
		walk(r)
	}
	sort.Slice(out, func(i, j int) bool { return out[i].String() < out[j].String() })
	return out
}

// bndWireRoots: the parse entry points of the wire codecs.
func bndWireRoots(p *Prog) ([]*ssa.Function, []string) {
	specs := [][3]string{
		{"internal/wire", "FrameParser", "ParseType"}, {"internal/wire", "FrameParser", "ParseStreamFrame"}, {"internal/wire", "FrameParser", "ParseAckFrame"},
		{"internal/wire", "FrameParser", "ParseDatagramFrame"}, {"internal/wire", "FrameParser", "ParseLessCommonFrame"},
		{"internal/wire", "", "ParseConnectionID"}, {"internal/wire", "", "ParseArbitraryLenConnectionIDs"}, {"internal/wire", "", "ParseVersion"},
		{"internal/wire", "", "IsVersionNegotiationPacket"}, {"internal/wire", "", "Is0RTTPacket"}, {"internal/wire", "", "IsLongHeaderPacket"}, {"internal/wire", "", "IsPotentialQUICPacket"},
		{"internal/wire", "", "ParsePacket"}, {"internal/wire", "Header", "ParseExtended"}, {"internal/wire", "", "ParseShortHeader"},
		{"internal/wire", "", "ParseVersionNegotiationPacket"},
		{"internal/wire", "TransportParameters", "Unmarshal"}, {"internal/wire", "TransportParameters", "UnmarshalFromSessionTicket"},
		{"quicvarint", "", "Parse"}, {"quicvarint", "", "Read"},
	}
	var roots []*ssa.Function
	var missing []string
	for _, s := range specs {
		f, err := p.Func1(s[0], s[1], s[2])
		if err != nil {
			missing = append(missing, strings.Join(s[:], "."))
			continue
		}
		roots = append(roots, f)
	}
	return roots, missing
}

// exhaustedSwitch: the block is entered only after x != 0, x != 1, …, x != max for x = (uint8 value) >> k,
// whose range is 0..max.
func exhaustedSwitch(b *ssa.BasicBlock) bool {
	excluded := map[int64]bool{}
	var subject ssa.Value
	for d := b; d != nil && d.Idom() != nil; d = d.Idom() {
		id := d.Idom()
		ifi, ok := id.Instrs[len(id.Instrs)-1].(*ssa.If)
		if !ok || len(d.Preds) != 1 {
			continue
		}
		bo, ok := ifi.Cond.(*ssa.BinOp)
		if !ok || bo.Op != token.EQL || id.Succs[1] != d {
			continue
		}
		k, ok := constInt64Of(bo.Y)
		if !ok {
			continue
		}
		if subject == nil {
			subject = bo.X
		}
		if bo.X != subject {
			continue
		}
		excluded[k] = true
	}
	if subject == nil {
		return false
	}
	sh, ok := stripConv(subject).(*ssa.BinOp)
	if !ok || sh.Op != token.SHR {
		return false
	}
	bt, ok := sh.X.Type().Underlying().(*types.Basic)
	if !ok || bt.Kind() != types.Uint8 {
		return false
	}
	k, ok := constInt64Of(sh.Y)
	if !ok || k < 0 || k > 7 {
		return false
	}
	max := int64(255 >> uint(k))
	for v := int64(0); v <= max; v++ {
		if !excluded[v] {
			return false
		}
	}
	return true
}

// bndDescr renders the constant part of an index/slice expression, so that obligation keys survive unrelated edits.
func bndDescr(in ssa.Instruction) string {
	r := func(v ssa.Value) string {
		if v == nil {
			return ""
		}
		if k, ok := constInt64Of(v); ok {
			return strconv.FormatInt(k, 10)
		}
		return "v"
	}
	switch x := in.(type) {
	case *ssa.IndexAddr:
		return "[" + r(x.Index) + "]"
	case *ssa.Index:
		return "[" + r(x.Index) + "]"
	case *ssa.Lookup:
		return "[" + r(x.Index) + "]"
	case *ssa.Slice:
		return "[" + r(x.Low) + ":" + r(x.High) + "]"
	}
	return ""
}
