package main

// SIB — sibling implementations must agree. An effect summary is computed for each of
// two functions implementing the same slot (an override and the method it shadows, a
// cloned type's method and its original); the summaries must be equal modulo explicit
// allow tables.

import (
	"fmt"
	"go/constant"
	"go/token"
	"go/types"
	"sort"
	"strings"

	"golang.org/x/tools/go/ssa"
)

type sibOpts struct {
	// Prune: edges that are not followed (partial evaluation, e.g. QUICSpec != nil).
	Prune func(ifi *ssa.If, succ int) bool
	// Rename maps type names of the variant to the base's (uCryptoSetup → cryptoSetup).
	Rename map[string]string
	// Inline: depth to which calls of same-receiver unexported methods are inlined.
	Inline int
	// Self: functions whose (recursive) calls are reported as "self".
	Self map[*types.Func]bool
	// CalleeRename maps a variant's callee name to the base's.
	CalleeRename map[string]string
	// Guards: label every effect with the branch conditions (and polarities) that dominate it. For near-copy
	// siblings: a negated test, a changed comparison operator or a dropped guard changes the labels.
	Guards bool
	// GuardSkip: conditions that are not part of the label (e.g. tests of a field the variant does not need).
	GuardSkip func(cond ssa.Value) bool
}

type effSet map[string]bool

func (o *sibOpts) typeName(t types.Type) string {
	n := namedOf(t)
	if n == nil {
		return types.TypeString(t, func(p *types.Package) string { return p.Name() })
	}
	name := n.Obj().Name()
	if r, ok := o.Rename[name]; ok {
		name = r
	}
	pk := ""
	if n.Obj().Pkg() != nil {
		pk = n.Obj().Pkg().Name() + "."
	}
	return pk + name
}

func (o *sibOpts) calleeName(c *ssa.CallCommon) string {
	if c.IsInvoke() {
		return "iface " + o.typeName(c.Value.Type()) + "." + c.Method.Name()
	}
	if b := builtinName(c); b != "" {
		return "builtin " + b
	}
	if obj := calleeObj(c); obj != nil {
		if o.Self[obj] {
			return "self"
		}
		sig := obj.Type().(*types.Signature)
		if sig.Recv() != nil {
			return o.typeName(sig.Recv().Type()) + "." + obj.Name()
		}
		pk := ""
		if obj.Pkg() != nil {
			pk = obj.Pkg().Name() + "."
		}
		if r, ok := o.CalleeRename[pk+obj.Name()]; ok {
			return r
		}
		return pk + obj.Name()
	}
	return "fn:" + o.valDesc(c.Value)
}

// valDesc: a short origin description of a value.
func (o *sibOpts) valDesc(v ssa.Value) string {
	v = stripConv(v)
	switch x := v.(type) {
	case *ssa.Parameter:
		return "param " + x.Name()
	case *ssa.Const:
		if x.Value == nil {
			return "nil"
		}
		if x.Value.Kind() == constant.String {
			return "conststr"
		}
		return "const " + x.Value.ExactString()
	case *ssa.MakeClosure:
		return "closure"
	case *ssa.Function:
		return "func " + x.Name()
	case *ssa.FreeVar:
		return "freevar " + x.Name()
	case *ssa.Call:
		return "result " + o.calleeName(&x.Call)
	case *ssa.Extract:
		if cl, ok := x.Tuple.(*ssa.Call); ok {
			return fmt.Sprintf("result%d %s", x.Index, o.calleeName(&cl.Call))
		}
	case *ssa.Alloc:
		return "local"
	case *ssa.Phi:
		return "phi"
	case *ssa.Global:
		return "global " + x.Name()
	}
	if f, _ := loadedField(v); f != nil {
		return "field " + f.Name()
	}
	if u, ok := v.(*ssa.UnOp); ok && u.Op == token.MUL {
		if al, ok := u.X.(*ssa.Alloc); ok {
			// spilled param cell
			if al.Comment != "" {
				return "var " + al.Comment
			}
		}
		if g, ok := u.X.(*ssa.Global); ok {
			return "global " + g.Name()
		}
	}
	return "value"
}

func paramsIn(v ssa.Value, depth int, out map[string]bool) {
	if v == nil || depth > 5 {
		return
	}
	v = stripConv(v)
	switch x := v.(type) {
	case *ssa.Parameter:
		out[x.Name()] = true
	case *ssa.BinOp:
		paramsIn(x.X, depth+1, out)
		paramsIn(x.Y, depth+1, out)
	case *ssa.UnOp:
		if x.Op == token.MUL {
			if al, ok := x.X.(*ssa.Alloc); ok && al.Comment != "" && isParamCell(al, al.Comment) {
				out[al.Comment] = true
				return
			}
		}
		paramsIn(x.X, depth+1, out)
	case *ssa.Phi:
		for _, e := range x.Edges {
			paramsIn(e, depth+1, out)
		}
	}
}

// summarize computes the effect set of fn.
func summarize(fn *ssa.Function, o *sibOpts, depth int, rename map[string]string, seen map[*ssa.Function]bool) effSet {
	out := effSet{}
	if fn == nil || len(fn.Blocks) == 0 || seen[fn] {
		return out
	}
	seen[fn] = true
	defer delete(seen, fn)
	pname := func(n string) string {
		if rename != nil {
			if r, ok := rename[n]; ok {
				return r
			}
			return "~"
		}
		return n
	}
	recvName := ""
	if len(fn.Params) > 0 && fn.Signature.Recv() != nil {
		recvName = fn.Params[0].Name()
	}
	// reachable blocks under pruning
	reach := map[*ssa.BasicBlock]bool{}
	var walk func(b *ssa.BasicBlock)
	walk = func(b *ssa.BasicBlock) {
		if reach[b] {
			return
		}
		reach[b] = true
		if len(b.Instrs) == 0 {
			return
		}
		if ifi, ok := b.Instrs[len(b.Instrs)-1].(*ssa.If); ok && o.Prune != nil {
			for s, su := range b.Succs {
				if !o.Prune(ifi, s) {
					walk(su)
				}
			}
			return
		}
		for _, su := range b.Succs {
			walk(su)
		}
	}
	walk(fn.Blocks[0])
	curCtx := ""
	add := func(s string) { out[curCtx+s] = true }
	for _, b := range fn.Blocks {
		if !reach[b] {
			continue
		}
		curCtx = ""
		if depth == o.Inline && rename == nil {
			curCtx = paramContext(b, recvName)
		}
		if o.Guards {
			curCtx += o.guardContext(b)
		}
		for _, in := range b.Instrs {
			switch x := in.(type) {
			case ssa.CallInstruction:
				c := x.Common()
				name := o.calleeName(c)
				if strings.HasPrefix(name, "builtin ") {
					switch name {
					case "builtin close", "builtin delete", "builtin panic":
					default:
						continue
					}
				}
				prefix := "call "
				switch in.(type) {
				case *ssa.Go:
					prefix = "go "
				case *ssa.Defer:
					prefix = "defer "
				}
				add(prefix + name)
				args := c.Args
				hasRecv := !c.IsInvoke() && c.StaticCallee() != nil && c.StaticCallee().Signature.Recv() != nil
				if hasRecv && len(args) > 0 {
					args = args[1:]
				}
				for i, a := range args {
					ps := map[string]bool{}
					paramsIn(a, 0, ps)
					for p := range ps {
						if p != recvName {
							add(fmt.Sprintf("arg %s -> %s#%d", pname(p), name, i))
						}
					}
					av := stripConv(a)
					if ph, ok := av.(*ssa.Phi); ok {
						// under partial evaluation only the edges from reachable predecessors count
						var live []ssa.Value
						for k, e := range ph.Edges {
							if reach[ph.Block().Preds[k]] && !prunedEdge(o, ph.Block().Preds[k], ph.Block()) {
								live = append(live, e)
							}
						}
						if len(live) == 1 {
							av = stripConv(live[0])
						}
					}
					if k, ok := av.(*ssa.Const); ok && k.Value != nil && k.Value.Kind() != constant.String {
						add(fmt.Sprintf("argconst %s#%d = %s", name, i, k.Value.ExactString()))
					}
				}
				// inline same-receiver unexported helpers
				if depth > 0 && !c.IsInvoke() {
					if callee := c.StaticCallee(); callee != nil && callee.Signature.Recv() != nil && len(c.Args) > 0 {
						obj := funcObj(callee)
						if obj != nil && !obj.Exported() && !o.Self[obj] && sameReceiverFamily(fn, callee) {
							rn := map[string]string{}
							for i, p := range callee.Params {
								if i == 0 {
									continue
								}
								if i < len(c.Args) {
									ps := map[string]bool{}
									paramsIn(c.Args[i], 0, ps)
									if len(ps) == 1 {
										for k := range ps {
											rn[p.Name()] = pname(k)
										}
									}
								}
							}
							for e := range summarize(callee, o, depth-1, rn, seen) {
								add(e)
							}
							_ = rn
						}
					}
				}
				// closures passed: summarise too (go func(){...}())
				if mc, ok := c.Value.(*ssa.MakeClosure); ok {
					if cf, ok := mc.Fn.(*ssa.Function); ok {
						for e := range summarize(cf, o, depth, nil, seen) {
							add("in-closure " + e)
						}
					}
				}
			case *ssa.Alloc:
				if x.Comment == "complit" {
					if n := namedOf(x.Type()); n != nil {
						add("new " + o.typeName(x.Type()))
					}
				}
			case *ssa.Store:
				if f := fieldOfAddress(x.Addr); f != nil {
					// skip initialisation of fresh composite literals
					if fa, ok := x.Addr.(*ssa.FieldAddr); ok {
						if al, ok := fa.X.(*ssa.Alloc); ok && al.Comment == "complit" {
							ps := map[string]bool{}
							paramsIn(x.Val, 0, ps)
							for p := range ps {
								if p != recvName {
									add("init-from " + pname(p) + " -> " + f.Name())
								}
							}
							continue
						}
					}
					add("store " + f.Name())
					ps := map[string]bool{}
					paramsIn(x.Val, 0, ps)
					for p := range ps {
						if p != recvName {
							add("store-from " + pname(p) + " -> " + f.Name())
						}
					}
				}
			case *ssa.MapUpdate:
				if f, _ := loadedField(x.Map); f != nil {
					add("mapput " + f.Name())
				}
			case *ssa.Select:
				var cs []string
				for _, st := range x.States {
					d := "recv "
					if st.Dir == types.SendOnly {
						d = "send "
					}
					cs = append(cs, d+o.valDesc(st.Chan))
				}
				sort.Strings(cs)
				add(fmt.Sprintf("select blocking=%v [%s]", x.Blocking, strings.Join(cs, ", ")))
			case *ssa.Send:
				add("send " + o.valDesc(x.Chan))
			case *ssa.If:
				ps := map[string]bool{}
				paramsIn(x.Cond, 0, ps)
				for p := range ps {
					if p != recvName {
						add("branch " + pname(p))
					}
				}
			case *ssa.Return:
				for _, r := range retResults(x) {
					if _, code, ok := errLiteral(r); ok && code != nil {
						add("ret-errcode " + code.ExactString())
					}
				}
				if o.Guards {
					var ds []string
					for _, r := range retResults(x) {
						ds = append(ds, o.valDesc(r))
					}
					add("return " + strings.Join(ds, ", "))
				}
			case *ssa.Panic:
				add("panic")
			}
		}
	}
	return out
}

// guardContext: the canonical descriptions of the branch conditions that dominate block b, with polarity.
func (o *sibOpts) guardContext(b *ssa.BasicBlock) string {
	var gs []string
	for d := b; d != nil && d.Idom() != nil; d = d.Idom() {
		id := d.Idom()
		if len(id.Instrs) == 0 {
			continue
		}
		// the edge id→d decides entry into d when every other predecessor of d is a back edge (dominated by d)
		fromIdom, others := 0, true
		for _, p := range d.Preds {
			if p == id {
				fromIdom++
			} else if !d.Dominates(p) {
				others = false
			}
		}
		if fromIdom != 1 || !others {
			continue
		}
		ifi, ok := id.Instrs[len(id.Instrs)-1].(*ssa.If)
		if !ok || len(id.Succs) != 2 || id.Succs[0] == id.Succs[1] {
			continue
		}
		cond, pol := ifi.Cond, id.Succs[0] == d
		for {
			u, ok := cond.(*ssa.UnOp)
			if !ok || u.Op != token.NOT {
				break
			}
			cond, pol = u.X, !pol
		}
		if o.GuardSkip != nil && o.GuardSkip(cond) {
			continue
		}
		desc := ""
		if bo, ok := cond.(*ssa.BinOp); ok && isCmp(bo.Op) {
			x, y, op := o.valDesc(bo.X), o.valDesc(bo.Y), bo.Op
			// canonical operand order and operator: only ==, <, <= remain
			switch op {
			case token.NEQ:
				op, pol = token.EQL, !pol
			case token.GEQ:
				op, pol = token.LSS, !pol
			case token.GTR:
				op, pol = token.LEQ, !pol
			}
			if op == token.EQL && x > y {
				x, y = y, x
			}
			desc = "(" + x + " " + op.String() + " " + y + ")"
		} else {
			desc = "(" + o.valDesc(cond) + ")"
		}
		if pol {
			gs = append(gs, desc+"=T")
		} else {
			gs = append(gs, desc+"=F")
		}
	}
	if len(gs) == 0 {
		return ""
	}
	sort.Strings(gs)
	return "[" + strings.Join(gs, " ") + "] "
}

// stripLabels removes every leading [context] label of an effect string.
func stripLabels(e string) string {
	for strings.HasPrefix(e, "[") {
		n := stripGuard(e)
		if n == e {
			break
		}
		e = n
	}
	return e
}

// stripGuard removes the first leading [label] of an effect string.
func stripGuard(e string) string {
	if strings.HasPrefix(e, "[") {
		// the label ends at the first "] " that closes the outermost bracket
		depth := 0
		for i, r := range e {
			switch r {
			case '[':
				depth++
			case ']':
				depth--
				if depth == 0 {
					return strings.TrimPrefix(e[i+1:], " ")
				}
			}
		}
	}
	return e
}

func sameReceiverFamily(a, b *ssa.Function) bool {
	ra, rb := namedOf(a.Signature.Recv().Type()), namedOf(b.Signature.Recv().Type())
	if ra == nil || rb == nil {
		return false
	}
	if ra.Obj() == rb.Obj() {
		return true
	}
	// b's receiver is embedded in a's receiver
	if st, ok := ra.Underlying().(*types.Struct); ok {
		for i := 0; i < st.NumFields(); i++ {
			if st.Field(i).Embedded() {
				if n := namedOf(st.Field(i).Type()); n != nil && n.Obj() == rb.Obj() {
					return true
				}
			}
		}
	}
	return false
}

// sibCompare records obligations for base vs variant.
func (c *Ctx) sibCompare(rule, pair string, base, variant *ssa.Function, o *sibOpts, allowMissing, allowExtra map[string]string, checkExtra bool) {
	c.FuncsSet[funcName(base)] = true
	c.FuncsSet[funcName(variant)] = true
	eb := summarize(base, o, o.Inline, nil, map[*ssa.Function]bool{})
	ev := summarize(variant, o, o.Inline, nil, map[*ssa.Function]bool{})
	c.Count("sib effects compared", len(eb)+len(ev))
	var miss, extra []string
	for e := range eb {
		if !ev[e] {
			if qlogOnly(e) {
				continue
			}
			if _, ok := allowMissing[e]; ok {
				continue
			}
			if allowedByPrefix(e, allowMissing) {
				continue
			}
			miss = append(miss, e)
		}
	}
	if checkExtra {
		for e := range ev {
			if !eb[e] {
				if _, ok := allowExtra[e]; ok {
					continue
				}
				if allowedByPrefix(e, allowExtra) {
					continue
				}
				extra = append(extra, e)
			}
		}
	}
	sort.Strings(miss)
	sort.Strings(extra)
	for _, e := range miss {
		c.Bad(rule, "sib:"+pair+":missing:"+e, c.P.Pos(variant.Pos()), fmt.Sprintf("%s has effect %q that %s lacks — the variant drifted from the implementation it shadows", funcName(base), e, funcName(variant)))
	}
	for _, e := range extra {
		c.Bad(rule, "sib:"+pair+":extra:"+e, c.P.Pos(variant.Pos()), fmt.Sprintf("%s has effect %q that %s does not have", funcName(variant), e, funcName(base)))
	}
	if len(miss) == 0 && len(extra) == 0 {
		c.OK(rule, "sib:"+pair, c.P.Pos(variant.Pos()), fmt.Sprintf("effect summaries agree (%d base effects, %d variant effects, %d allowed differences)", len(eb), len(ev), len(allowMissing)+len(allowExtra)))
	}
}

// allowedByPrefix: table keys ending in '*' are prefixes.
func allowedByPrefix(e string, tbl map[string]string) bool {
	if _, ok := tbl["*"]; ok {
		return true
	}
	// allow tables are written without the parameter / guard context
	if strings.HasPrefix(e, "[") {
		e = stripLabels(e)
		if _, ok := tbl[e]; ok {
			return true
		}
	}
	for k := range tbl {
		if strings.HasSuffix(k, "*") && strings.HasPrefix(e, strings.TrimSuffix(k, "*")) {
			return true
		}
	}
	return false
}

// prunedEdge: the edge from → to is not followed under the options' partial evaluation.
func prunedEdge(o *sibOpts, from, to *ssa.BasicBlock) bool {
	if o.Prune == nil || len(from.Instrs) == 0 {
		return false
	}
	ifi, ok := from.Instrs[len(from.Instrs)-1].(*ssa.If)
	if !ok {
		return false
	}
	for s, su := range from.Succs {
		if su == to && !o.Prune(ifi, s) {
			return false
		}
	}
	return true
}

// qlogOnly: effects that only feed qlog events (the design compares modulo these).
func qlogOnly(e string) bool {
	e = stripLabels(e)
	for _, p := range []string{"new qlog.", "call iface qlogwriter.Recorder.", "call handshake.encLevelToKeyType", "argconst handshake.encLevelToKeyType", "call quic.Conn.qlog", "call iface qlogwriter.Trace.", "call quic.startedConnectionEvent"} {
		if strings.HasPrefix(e, p) {
			return true
		}
	}
	return strings.Contains(e, "-> handshake.encLevelToKeyType#")
}

// paramContext: the parameter-vs-constant facts established by the edges dominating b
// ("[encLevel==4] "), so that effects of different cases of a switch on a parameter are
// kept apart.
func paramContext(b *ssa.BasicBlock, recvName string) string {
	var facts []string
	for d := b; d != nil && d.Idom() != nil; d = d.Idom() {
		id := d.Idom()
		ifi, ok := id.Instrs[len(id.Instrs)-1].(*ssa.If)
		if !ok || len(d.Preds) != 1 {
			continue
		}
		for s := 0; s < 2; s++ {
			if id.Succs[s] != d {
				continue
			}
			cond := ifi.Cond
			pol := s == 0
			for {
				if u, ok := cond.(*ssa.UnOp); ok && u.Op == token.NOT {
					cond, pol = u.X, !pol
					continue
				}
				break
			}
			if p, ok := stripConv(cond).(*ssa.Parameter); ok && p.Name() != recvName {
				if pol {
					facts = append(facts, p.Name())
				} else {
					facts = append(facts, "!"+p.Name())
				}
				continue
			}
			bo, ok := cond.(*ssa.BinOp)
			if !ok || (bo.Op != token.EQL && bo.Op != token.NEQ) {
				continue
			}
			p, okP := stripConv(bo.X).(*ssa.Parameter)
			k, okK := stripConv(bo.Y).(*ssa.Const)
			if !okP || !okK || k.Value == nil || p.Name() == recvName {
				continue
			}
			eq := (bo.Op == token.EQL) == pol
			op := "=="
			if !eq {
				op = "!="
			}
			facts = append(facts, p.Name()+op+k.Value.ExactString())
		}
	}
	if len(facts) == 0 {
		return ""
	}
	sort.Strings(facts)
	return "[" + strings.Join(facts, ",") + "] "
}
