package main

import (
	"bytes"
	"encoding/hex"
	"fmt"
	"go/ast"
	"go/constant"
	"go/token"
	"go/types"

	"golang.org/x/tools/go/ssa"
)

func init() { register("C05", runC05) }

// Reference constants transcribed from RFC 9001 §5.2, §5.8 and RFC 9369 §3.3.
var ref = struct {
	saltV1, saltV2                 string
	retryKeyV1, retryKeyV2         string
	retryNonceV1, retryNonceV2     string
	keyV1, keyV2, ivV1, ivV2       string
	hpV1, hpV2, kuV1, kuV2         string
	clientIn, serverIn, tls13Label string
}{
	saltV1:       "38762cf7f55934b34d179ae6a4c80cadccbb7f0a",
	saltV2:       "0dede3def700a6db819381be6e269dcbf9bd2ed9",
	retryKeyV1:   "be0c690b9f66575a1d766b54e368c84e",
	retryKeyV2:   "8fb4b01b56ac48e260fbcbcead7ccc92",
	retryNonceV1: "461599d35d632bf2239825bb",
	retryNonceV2: "d86969bc2d7c6d9990efb04a",
	keyV1:        "quic key", keyV2: "quicv2 key", ivV1: "quic iv", ivV2: "quicv2 iv",
	hpV1: "quic hp", hpV2: "quicv2 hp", kuV1: "quic ku", kuV2: "quicv2 ku",
	clientIn: "client in", serverIn: "server in", tls13Label: "tls13 ",
}

func runC05(c *Ctx) {
	c.Clause("C05.1 salts, HKDF labels (key/iv/hp/ku, client in/server in, tls13), Retry keys and nonces equal the RFC 9001 / RFC 9369 values and the v2 set is selected exactly on version == Version2")
	c.Clause("C05.2 every successful unpack passes opener.Open with err == nil; AEAD failures map to ErrDecryptionFailed; frames are handled only from unpacked data")
	c.Clause("C05.3 header-protection sample geometry [pnOffset+4 : pnOffset+4+16] agrees between packer and both unpackers")
	c.Clause("C05.4 rollKeys only after a successful open with the next key past the 'updated too quickly' guard, or from KeyPhase past shouldInitiateKeyUpdate→updateAllowed (handshake confirmed ∧ (phase 0 ∨ current phase acknowledged))")
	c.Clause("C05.5 packet-number generators only increase; each packed packet pops exactly the peeked number")
	c.Clause("C05.6 every createAEAD call passes the version field of its owner; C05.7 both unpackers restore the saved bytes behind the packet number for every length other than 4")
	c.Clause("C05.11 both header protectors derive an hp key of suite.KeyLen bytes")
	c.Clause("C05.10 both unpackers parse the protected header fields only after DecryptHeader (the repository's stated precondition of ParseShortHeader)")
	c.Clause("C05.9 the unpacker's indexing and slicing of a received packet (sample, packet-number bytes, AEAD input) is in bounds: compiler-proven, length fact from the 'packet too small' guards, or one of 8 frozen exceptions (cross-call header lengths, packet-number length 1..4)")
	c.Clause("C05.8 rollKeys re-initialises every …WithCurrentKey field; GetRetryIntegrityTag resets the shared buffer before releasing its mutex")
	c.Clause("C05.12 the 0-RTT opener is dropped only once the handshake completion time is set (both crypto setups); C05.13 every caller of encryptPacket checks payload ≥ 4 - packet-number length first (header-protection sample inside the packet)")
	c.NotCovered("seal/open equality and AEAD correctness")
	c.NotCovered("DecodePacketNumber arithmetic and reordering windows")

	c.rule("C05.1", func() { c05Constants(c) })
	c.rule("C05.2", func() { c05Unpack(c) })
	c.rule("C05.3", func() { c05Sample(c) })
	c.rule("C05.3", func() { c05Mask(c) })
	c.rule("C05.4", func() { c05KeyUpdate(c) })
	c.rule("C05.5", func() { c05PacketNumbers(c) })
	c.rule("C05.6", func() { c05AEADVersion(c) })
	c.rule("C05.7", func() { c05RestorePNBytes(c) })
	c.rule("C05.8", func() { c05PhaseStateAndRetryBuf(c) })
	c.rule("C05.9", func() { c05UnpackerBounds(c) })
	c.rule("C05.10", func() { c05ParseAfterUnprotect(c) })
	c.rule("C05.11", func() { c05HPKeyLength(c) })
	c.rule("C05.12", func() { c05ZeroRTTKeysKeptUntilHandshakeComplete(c) })
	c.rule("C05.13", func() { c05SampleInsidePacket(c) })
}

// globalBytes evaluates a package-level `[]byte{...}` / `[N]byte{...}` variable initialiser.
func (c *Ctx) globalBytes(pkg, name string) []byte {
	pk := c.P.Pkgs[pkgPathOf(pkg)]
	if pk == nil {
		panic(anchorErr{fmt.Errorf("unresolved anchor: package %s", pkg)})
	}
	for _, f := range pk.Syntax {
		for _, d := range f.Decls {
			gd, ok := d.(*ast.GenDecl)
			if !ok || gd.Tok != token.VAR {
				continue
			}
			for _, sp := range gd.Specs {
				vs := sp.(*ast.ValueSpec)
				for i, n := range vs.Names {
					if n.Name != name || i >= len(vs.Values) {
						continue
					}
					cl, ok := vs.Values[i].(*ast.CompositeLit)
					if !ok {
						panic(anchorErr{fmt.Errorf("unresolved anchor: %s.%s is not a composite literal", pkg, name)})
					}
					var out []byte
					for _, e := range cl.Elts {
						tv := pk.TypesInfo.Types[e]
						if tv.Value == nil {
							panic(anchorErr{fmt.Errorf("non-constant element in %s.%s", pkg, name)})
						}
						v, _ := constant.Uint64Val(constant.ToInt(tv.Value))
						out = append(out, byte(v))
					}
					return out
				}
			}
		}
	}
	panic(anchorErr{fmt.Errorf("unresolved anchor: var %s.%s", pkg, name)})
}

// arrayLitBytes reconstructs a constant byte-array literal from SSA (a local array
// filled by constant element stores, or a constant zero value).
func arrayLitBytes(v ssa.Value) ([]byte, bool) {
	v = stripConv(v)
	u, ok := v.(*ssa.UnOp)
	if !ok || u.Op != token.MUL {
		return nil, false
	}
	al, ok := u.X.(*ssa.Alloc)
	if !ok || al.Referrers() == nil {
		return nil, false
	}
	arr, ok := al.Type().Underlying().(*types.Pointer).Elem().Underlying().(*types.Array)
	if !ok {
		return nil, false
	}
	out := make([]byte, arr.Len())
	for _, r := range *al.Referrers() {
		ia, ok := r.(*ssa.IndexAddr)
		if !ok {
			continue
		}
		k, ok := ia.Index.(*ssa.Const)
		if !ok || ia.Referrers() == nil {
			return nil, false
		}
		idx, _ := constant.Int64Val(k.Value)
		for _, rr := range *ia.Referrers() {
			if st, ok := rr.(*ssa.Store); ok {
				kv, ok := st.Val.(*ssa.Const)
				if !ok {
					return nil, false
				}
				b, _ := constant.Uint64Val(constant.ToInt(kv.Value))
				out[idx] = byte(b)
			}
		}
	}
	return out, true
}

func constString(v ssa.Value) (string, bool) {
	k, ok := stripConv(v).(*ssa.Const)
	if !ok || k.Value == nil || k.Value.Kind() != constant.String {
		return "", false
	}
	return constant.StringVal(k.Value), true
}

// selectedStrings: v is either a constant string or a φ of two constants selected by
// an edge establishing rel; returns (value when rel holds, value otherwise).
func selectedStrings(v ssa.Value, rel Rel) (onTrue, onFalse string, ok bool) {
	if s, isK := constString(v); isK {
		return s, s, true
	}
	ph, isPhi := v.(*ssa.Phi)
	if !isPhi || len(ph.Edges) != 2 {
		return "", "", false
	}
	for i := 0; i < 2; i++ {
		s, isK := constString(ph.Edges[i])
		if !isK {
			return "", "", false
		}
		pred := ph.Block().Preds[i]
		// the predecessor is the block taken on the rel edge, or the branching block itself
		if blockOnEdge(pred, rel) {
			onTrue = s
		} else {
			onFalse = s
		}
	}
	return onTrue, onFalse, onTrue != "" && onFalse != ""
}

// blockOnEdge: b is entered only through an edge establishing r.
func blockOnEdge(b *ssa.BasicBlock, r Rel) bool {
	if len(b.Preds) != 1 {
		return false
	}
	p := b.Preds[0]
	ifi, ok := p.Instrs[len(p.Instrs)-1].(*ssa.If)
	if !ok {
		return false
	}
	for s := 0; s < 2; s++ {
		if p.Succs[s] == b && EdgeImplies(ifi, s, r, false) {
			return true
		}
	}
	return false
}

func c05Constants(c *Ctx) {
	const R = "C05.1"
	eqHex := func(name string, got []byte, want string) {
		w, _ := hex.DecodeString(want)
		c.Check(bytes.Equal(got, w), R, "const:"+name, "-", fmt.Sprintf("%s = %x, reference %s", name, got, want))
	}
	eqHex("quicSaltV1 (RFC 9001 §5.2)", c.globalBytes(hsk, "quicSaltV1"), ref.saltV1)
	eqHex("quicSaltV2 (RFC 9369 §3.3.1)", c.globalBytes(hsk, "quicSaltV2"), ref.saltV2)
	eqHex("retryNonceV1 (RFC 9001 §5.8)", c.globalBytes(hsk, "retryNonceV1"), ref.retryNonceV1)
	eqHex("retryNonceV2 (RFC 9369 §3.3.3)", c.globalBytes(hsk, "retryNonceV2"), ref.retryNonceV2)
	for _, kv := range [][2]string{{"hkdfLabelKeyV1", ref.keyV1}, {"hkdfLabelKeyV2", ref.keyV2}, {"hkdfLabelIVV1", ref.ivV1}, {"hkdfLabelIVV2", ref.ivV2}} {
		o := c.konst(hsk, kv[0])
		c.Check(constant.StringVal(o.(*types.Const).Val()) == kv[1], R, "const:"+kv[0], "-", "HKDF label "+kv[1])
	}
	v2 := c.konst("internal/protocol", "Version2")
	isV2 := func(param string) Rel { return Rel{Op: token.EQL, X: ParamV(param), Y: ConstOf(v2)} }
	c.Check(constInt(v2) == 0x6b3343cf, R, "const:Version2==0x6b3343cf", "-", "RFC 9369 version number")
	v1 := c.konst("internal/protocol", "Version1")
	c.Check(constInt(v1) == 1, R, "const:Version1==1", "-", "RFC 9000 version number")

	// getSalt
	gs := c.fn(hsk, "", "getSalt")
	nS := 0
	eachInstr(gs, func(i ssa.Instruction) {
		r, ok := i.(*ssa.Return)
		if !ok {
			return
		}
		u, ok := retResults(r)[0].(*ssa.UnOp)
		var g *ssa.Global
		if ok {
			g, _ = u.X.(*ssa.Global)
		}
		if g == nil {
			c.Bad(R, "select:getSalt returns a salt variable", c.P.InstrPos(i), "unrecognised return in getSalt")
			return
		}
		nS++
		onV2 := dominatedByEdge(r.Block(), isV2("v"), false)
		switch g.Name() {
		case "quicSaltV2":
			c.Check(onV2, R, "select:v2 salt only for Version2", c.P.InstrPos(i), "the v2 salt is returned only on the v == Version2 edge")
		case "quicSaltV1":
			c.Check(!onV2, R, "select:v1 salt otherwise", c.P.InstrPos(i), "the v1 salt is returned on the other edge")
		default:
			c.Bad(R, "select:getSalt returns "+g.Name(), c.P.InstrPos(i), "unknown salt")
		}
	})
	c.Floor(R, "salt returns", nS, 2)
	// the initial secret is extracted with getSalt(v) as salt and the connection ID as secret
	cs := c.fn(hsk, "", "computeSecrets")
	getSalt := c.obj(hsk, "", "getSalt")
	expand := c.obj(hsk, "", "hkdfExpandLabel")
	nx := 0
	eachInstr(cs, func(i ssa.Instruction) {
		cl, ok := i.(*ssa.Call)
		if !ok {
			return
		}
		o := calleeObj(&cl.Call)
		if o != nil && o.Name() == "Extract" && o.Pkg().Path() == "golang.org/x/crypto/hkdf" {
			nx++
			c.Check(CallTo(getSalt, -1, ParamV("v"))(cl.Call.Args[2]), R, "shape:initial secret salted with getSalt(v)", c.P.InstrPos(i), "HKDF-Extract(salt=version salt, IKM=connection ID)")
		}
	})
	c.Floor(R, "hkdf.Extract in computeSecrets", nx, 1)
	labels := map[string]bool{}
	for _, in := range findInstrs(cs, CallsTo(expand)) {
		if s, ok := constString(in.(ssa.CallInstruction).Common().Args[3]); ok {
			labels[s] = true
		}
	}
	c.Check(labels[ref.clientIn] && labels[ref.serverIn] && len(labels) == 2, R, "const:client in / server in", c.P.Pos(cs.Pos()), "initial secrets use the RFC 9001 labels")
	// results bound to the right names: clientSecret from "client in"
	eachInstr(cs, func(i ssa.Instruction) {
		r, ok := i.(*ssa.Return)
		if !ok {
			return
		}
		res := retResults(r)
		lab := func(v ssa.Value) string {
			cl, ok := v.(*ssa.Call)
			if !ok {
				return ""
			}
			s, _ := constString(cl.Call.Args[3])
			return s
		}
		c.Check(lab(res[0]) == ref.clientIn && lab(res[1]) == ref.serverIn, R, "shape:computeSecrets returns (client, server)", c.P.InstrPos(i), "result order matches the labels")
	})

	// key / iv labels in computeInitialKeyAndIV and createAEAD
	for _, name := range []string{"computeInitialKeyAndIV", "createAEAD"} {
		f := c.fn(hsk, "", name)
		seen := 0
		for _, in := range findInstrs(f, CallsTo(expand)) {
			arg := in.(ssa.CallInstruction).Common().Args[3]
			t, fl, ok := selectedStrings(arg, isV2("v"))
			if !c.Check(ok, R, "select:"+name+" label is version-selected", c.P.InstrPos(in), "label is chosen by v == Version2") {
				continue
			}
			seen++
			okPair := (t == ref.keyV2 && fl == ref.keyV1) || (t == ref.ivV2 && fl == ref.ivV1)
			c.Check(okPair, R, fmt.Sprintf("select:%s label %q/%q", name, fl, t), c.P.InstrPos(in), "v1 label on the v1 edge, v2 label on the v2 edge")
		}
		c.Floor(R, "expand calls in "+name, seen, 2)
	}
	// header protection label
	hp := c.fn(hsk, "", "hkdfHeaderProtectionLabel")
	nh := 0
	eachInstr(hp, func(i ssa.Instruction) {
		r, ok := i.(*ssa.Return)
		if !ok {
			return
		}
		s, ok := constString(retResults(r)[0])
		nh++
		onV2 := dominatedByEdge(r.Block(), isV2("v"), false)
		c.Check(ok && ((onV2 && s == ref.hpV2) || (!onV2 && s == ref.hpV1)), R, "select:hp label "+s, c.P.InstrPos(i), "quic hp / quicv2 hp by version")
	})
	c.Floor(R, "hp label returns", nh, 2)
	// key update label
	ku := c.fn(hsk, "updatableAEAD", "getNextTrafficSecret")
	ver := c.fld(hsk, "updatableAEAD", "version")
	nk := 0
	for _, in := range findInstrs(ku, CallsTo(expand)) {
		nk++
		arg := in.(ssa.CallInstruction).Common().Args[3]
		t, fl, ok := selectedStrings(arg, Rel{Op: token.EQL, X: Load(ver), Y: ConstOf(v2)})
		c.Check(ok && t == ref.kuV2 && fl == ref.kuV1, R, "select:key-update label quic ku / quicv2 ku by version", c.P.InstrPos(in),
			fmt.Sprintf("RFC 9369 §3.3.2 changes the key-update label to %q for QUIC v2; found v1-edge %q, v2-edge %q", ref.kuV2, fl, t))
	}
	c.Floor(R, "expand calls in getNextTrafficSecret", nk, 1)
	// tls13 prefix
	he := c.fn(hsk, "", "hkdfExpandLabel")
	found := false
	eachInstr(he, func(i ssa.Instruction) {
		for _, op := range i.Operands(nil) {
			if *op == nil {
				continue
			}
			if s, ok := constString(*op); ok && s == ref.tls13Label {
				found = true
			}
		}
	})
	c.Check(found, R, "const:tls13 label prefix", c.P.Pos(he.Pos()), "HKDF-Expand-Label prefix of RFC 8446")

	// Retry keys / nonces by version
	rt := c.fn(hsk, "", "GetRetryIntegrityTag")
	initAEAD := c.obj(hsk, "", "initAEAD")
	nKeys := 0
	for _, in := range findInstrs(rt, CallsTo(initAEAD)) {
		b, ok := arrayLitBytes(in.(ssa.CallInstruction).Common().Args[0])
		if !c.Check(ok, R, "const:Retry key literal", c.P.InstrPos(in), "the Retry key is a constant array") {
			continue
		}
		nKeys++
		onV2 := dominatedByEdge(in.Block(), isV2("version"), false)
		want := ref.retryKeyV1
		if onV2 {
			want = ref.retryKeyV2
		}
		w, _ := hex.DecodeString(want)
		c.Check(bytes.Equal(b, w), R, fmt.Sprintf("const:Retry key (v2 edge=%v)", onV2), c.P.InstrPos(in), fmt.Sprintf("key %x, reference %s", b, want))
	}
	c.Floor(R, "Retry key literals", nKeys, 2)
	nSeal := 0
	eachInstr(rt, func(i ssa.Instruction) {
		cl, ok := i.(*ssa.Call)
		if !ok || !cl.Call.IsInvoke() || cl.Call.Method.Name() != "Seal" {
			return
		}
		nSeal++
		onV2 := dominatedByEdge(cl.Block(), isV2("version"), false)
		// receiver: load of the global AEAD; nonce: slice of the global nonce
		recvG := globalOf(cl.Call.Value)
		nonceG := ""
		if sl, ok := cl.Call.Args[1].(*ssa.Slice); ok {
			if g, ok := sl.X.(*ssa.Global); ok {
				nonceG = g.Name()
			}
		}
		if onV2 {
			c.Check(recvG == "retryAEADv2" && nonceG == "retryNonceV2", R, "select:v2 Retry AEAD+nonce on the v2 edge", c.P.InstrPos(i), "v2 key with v2 nonce")
		} else {
			c.Check(recvG == "retryAEADv1" && nonceG == "retryNonceV1", R, "select:v1 Retry AEAD+nonce otherwise", c.P.InstrPos(i), "v1 key with v1 nonce")
		}
	})
	c.Floor(R, "Retry Seal calls", nSeal, 2)
	// each AEAD variable is initialised from the key literal on its own edge
	for _, w := range []struct{ g, edge string }{{"retryAEADv1", "v1"}, {"retryAEADv2", "v2"}} {
		n := 0
		eachInstr(rt, func(i ssa.Instruction) {
			st, ok := i.(*ssa.Store)
			if !ok {
				return
			}
			if g, ok := st.Addr.(*ssa.Global); ok && g.Name() == w.g {
				n++
				onV2 := dominatedByEdge(st.Block(), isV2("version"), false)
				c.Check(onV2 == (w.edge == "v2") && CallTo(initAEAD, -1)(st.Val), R, "select:"+w.g+" initialised on its edge", c.P.InstrPos(i), "each Retry AEAD is built from its own key")
			}
		})
		c.Floor(R, "initialisations of "+w.g, n, 1)
	}
}

func globalOf(v ssa.Value) string {
	if u, ok := v.(*ssa.UnOp); ok {
		if g, ok := u.X.(*ssa.Global); ok {
			return g.Name()
		}
	}
	return ""
}

func c05Unpack(c *Ctx) {
	const R = "C05.2"
	dfail, err := c.P.Object(hsk, "ErrDecryptionFailed")
	if err != nil {
		panic(anchorErr{err})
	}
	isDecFail := func(v ssa.Value) bool {
		u, ok := stripConv(v).(*ssa.UnOp)
		if !ok {
			return false
		}
		g, ok := u.X.(*ssa.Global)
		return ok && g.Object() == dfail
	}
	lhOpen := c.obj(hsk, "LongHeaderOpener", "Open")
	shOpen := c.obj(hsk, "ShortHeaderOpener", "Open")
	for _, spec := range []struct {
		name string
		open *types.Func
		idx  int // index of the decrypted payload in the results
		eidx int
	}{{"unpackLongHeaderPacket", lhOpen, 1, 2}, {"unpackShortHeaderPacket", shOpen, 3, 4}} {
		f := c.fn("", "packetUnpacker", spec.name)
		hasPayload := func(i ssa.Instruction) bool {
			r, ok := i.(*ssa.Return)
			return ok && !IsNil()(retResults(r)[spec.idx])
		}
		c.Floor(R, "payload returns in "+spec.name, countInstr(f, hasPayload), 1)
		c.cut(R, "guard:payload only after Open succeeded@"+spec.name, &Cut{Fn: f, Target: hasPayload,
			Edge: EdgeRel(Rel{Op: token.EQL, X: CallTo(spec.open, 1), Y: IsNil()}, false)}, "decrypted data leaves the unpacker only on the err == nil edge of opener.Open")
		// and the payload returned is Open's result
		eachInstr(f, func(i ssa.Instruction) {
			if hasPayload(i) {
				c.Check(CallTo(spec.open, 0)(retResults(i.(*ssa.Return))[spec.idx]), R, "origin:payload is Open's output@"+spec.name, c.P.InstrPos(i), "the plaintext handed on is the AEAD's output")
			}
		})
		// associated data = header bytes data[:hdrLen], ciphertext = data[hdrLen:]
		for _, in := range findInstrs(f, CallsTo(spec.open)) {
			args := in.(ssa.CallInstruction).Common().Args
			ad := args[len(args)-1]
			src := args[1]
			sa, ok1 := ad.(*ssa.Slice)
			ss, ok2 := src.(*ssa.Slice)
			ok := ok1 && ok2 && sa.Low == nil && sa.High != nil && ss.Low != nil && ss.High == nil && sa.High == ss.Low && ParamV("data")(sa.X) && ParamV("data")(ss.X)
			c.Check(ok, R, "shape:Open(ciphertext=data[h:], ad=data[:h])@"+spec.name, c.P.InstrPos(in), "the whole header is authenticated and the rest is the ciphertext")
		}
	}
	// Unpack{Long,Short}Header return a packet only when the inner unpack returned no error
	ulh := c.fn("", "packetUnpacker", "UnpackLongHeader")
	inner := c.obj("", "packetUnpacker", "unpackLongHeaderPacket")
	c.cut(R, "guard:UnpackLongHeader success ⇒ inner success", &Cut{Fn: ulh, Target: func(i ssa.Instruction) bool {
		r, ok := i.(*ssa.Return)
		return ok && !IsNil()(retResults(r)[0])
	}, Edge: EdgeRel(Rel{Op: token.EQL, X: CallTo(inner, 2), Y: IsNil()}, false)}, "an unpacked packet is returned only if decryption succeeded")
	ush := c.fn("", "packetUnpacker", "UnpackShortHeader")
	innerS := c.obj("", "packetUnpacker", "unpackShortHeaderPacket")
	c.cut(R, "guard:UnpackShortHeader success ⇒ inner success", &Cut{Fn: ush, Target: ReturnsMaybeNilErr(4),
		Edge: EdgeRel(Rel{Op: token.EQL, X: CallTo(innerS, 4), Y: IsNil()}, false)}, "a short-header packet is returned only if decryption succeeded")
	// openers map every AEAD failure to ErrDecryptionFailed
	lo := c.fn(hsk, "longHeaderOpener", "Open")
	eachInstr(lo, func(i ssa.Instruction) {
		r, ok := i.(*ssa.Return)
		if !ok {
			return
		}
		e := retResults(r)[1]
		// err is φ(nil-path: the aead error which is nil, fail-path: ErrDecryptionFailed)
		ok = onlyFrom(e, func(v ssa.Value) bool {
			if isDecFail(v) || IsNil()(v) {
				return true
			}
			// the aead's own error, only on the == nil edge
			if ex, isEx := v.(*ssa.Extract); isEx && ex.Index == 1 {
				return true
			}
			return false
		}, 0)
		c.Check(ok, R, "map:longHeaderOpener errors", c.P.InstrPos(i), "the only error a long-header opener reports is ErrDecryptionFailed")
	})
	// on the err != nil edge the error is replaced
	nRepl := 0
	for _, b := range lo.Blocks {
		ifi, ok := b.Instrs[len(b.Instrs)-1].(*ssa.If)
		if !ok {
			continue
		}
		for s := 0; s < 2; s++ {
			if EdgeImplies(ifi, s, Rel{Op: token.NEQ, X: Any(), Y: IsNil()}, false) {
				nRepl++
			}
		}
	}
	c.Floor(R, "error test in longHeaderOpener.Open", nRepl, 1)
	ua := c.fn(hsk, "updatableAEAD", "open")
	nOpen := 0
	eachInstr(ua, func(i ssa.Instruction) {
		cl, ok := i.(*ssa.Call)
		if !ok || !cl.Call.IsInvoke() || cl.Call.Method.Name() != "Open" {
			return
		}
		nOpen++
		// on this call's err != nil edge every return carries ErrDecryptionFailed
		var errV ssa.Value
		if cl.Referrers() != nil {
			for _, r := range *cl.Referrers() {
				if ex, ok := r.(*ssa.Extract); ok && ex.Index == 1 {
					errV = ex
				}
			}
		}
		if errV == nil {
			c.Bad(R, "map:updatableAEAD.open error checked", c.P.InstrPos(i), "AEAD error is not examined")
			return
		}
		sb := edgeSuccs(ua, Rel{Op: token.NEQ, X: func(v ssa.Value) bool { return v == errV }, Y: IsNil()})
		c.Check(len(sb) >= 1, R, "map:updatableAEAD.open tests the AEAD error", c.P.InstrPos(i), "each AEAD Open result is tested")
		w := (&Cut{Fn: ua, StartBlocks: sb, Target: func(x ssa.Instruction) bool {
			r, ok := x.(*ssa.Return)
			if !ok {
				return false
			}
			e := retResults(r)[1]
			if blockPassesThroughNilEdge(r.Block(), errV) {
				return false
			}
			failRel := Rel{Op: token.NEQ, X: func(v ssa.Value) bool { return v == errV }, Y: IsNil()}
			if ph, isPhi := e.(*ssa.Phi); isPhi {
				// edges arriving from the failure side must carry ErrDecryptionFailed;
				// the edge from the success side may carry the (nil) AEAD error
				for k, x := range ph.Edges {
					pred := ph.Block().Preds[k]
					fromFail := dominatedByEdge(pred, failRel, false) || blockOnEdge(pred, failRel)
					if fromFail && !isDecFail(x) {
						return true
					}
					if !fromFail && !(x == errV || IsNil()(x) || isDecFail(x)) {
						return true
					}
				}
				return false
			}
			return !onlyFrom(e, func(v ssa.Value) bool { return isDecFail(v) }, 0)
		}}).Run()
		c.Check(w == nil, R, fmt.Sprintf("map:AEAD failure → ErrDecryptionFailed #%d", nOpen), c.P.InstrPos(i), "an authentication failure is reported as ErrDecryptionFailed, never as data")
	})
	c.Floor(R, "AEAD Open calls in updatableAEAD.open", nOpen, 3)
}

// blockPassesThroughNilEdge: b is dominated by an edge establishing v == nil (so it is not on the failure side).
func blockPassesThroughNilEdge(b *ssa.BasicBlock, v ssa.Value) bool {
	return dominatedByEdge(b, Rel{Op: token.EQL, X: func(x ssa.Value) bool { return x == v }, Y: IsNil()}, false)
}

func c05Sample(c *Ctx) {
	const R = "C05.3"
	// sample slice: X[ o+4 : o+4+16 ] where the pn bytes slice starts at o
	checkSample := func(fn *ssa.Function, method string, what string) {
		n := 0
		eachInstr(fn, func(i ssa.Instruction) {
			ci, ok := i.(ssa.CallInstruction)
			if !ok || !ci.Common().IsInvoke() || ci.Common().Method.Name() != method {
				return
			}
			n++
			args := ci.Common().Args
			sample, ok1 := args[0].(*ssa.Slice)
			pnb, ok2 := args[2].(*ssa.Slice)
			if !c.Check(ok1 && ok2 && sample.Low != nil && sample.High != nil && pnb.Low != nil, R, "shape:"+what+" sample/pn slices", c.P.InstrPos(i), "sample and packet-number bytes are slices of the packet") {
				return
			}
			o := pnb.Low
			lowOK := BinV(token.ADD, Same(o), ConstI(4))(sample.Low)
			highOK := BinV(token.ADD, BinV(token.ADD, Same(o), ConstI(4)), ConstI(16))(sample.High)
			c.Check(lowOK && highOK && sample.X == pnb.X, R, "geometry:"+what+" sample=[pn_offset+4 : pn_offset+4+16]", c.P.InstrPos(i), "RFC 9001 §5.4.2 sample position relative to the packet number offset")
			// first byte pointer is &X[0]
			ia, ok := args[1].(*ssa.IndexAddr)
			c.Check(ok && ia.X == pnb.X && ConstI(0)(ia.Index), R, "geometry:"+what+" first byte=&packet[0]", c.P.InstrPos(i), "the mask is applied to the first byte of the packet")
		})
		c.Floor(R, what+" "+method+" calls", n, 1)
	}
	checkSample(c.fn("", "packetPacker", "encryptPacket"), "EncryptHeader", "packer")
	checkSample(c.fn("", "packetUnpacker", "unpackShortHeader"), "DecryptHeader", "short-header unpacker")
	checkSample(c.fn("", "", "unpackLongHeader"), "DecryptHeader", "long-header unpacker")
	// minimum size guard before the sample is taken: len(data) >= hdrLen+4+16
	for _, spec := range [][2]string{{"packetUnpacker", "unpackShortHeader"}, {"", "unpackLongHeader"}} {
		f := c.fn("", spec[0], spec[1])
		c.cut(R, "guard:packet long enough for the sample@"+spec[1], &Cut{Fn: f, Target: func(i ssa.Instruction) bool {
			ci, ok := i.(ssa.CallInstruction)
			return ok && ci.Common().IsInvoke() && ci.Common().Method.Name() == "DecryptHeader"
		}, Edge: EdgeRel(Rel{Op: token.GEQ, X: LenOf(ParamV("data")), Y: BinV(token.ADD, BinV(token.ADD, Any(), ConstI(4)), ConstI(16))}, false)},
			"the header is only unprotected when 4+16 bytes follow the packet number offset")
	}
}

// c05Mask: how the header-protection mask is applied (RFC 9001 §5.4.1) and, for ChaCha20, that the
// 5-byte mask buffer is completely re-initialised for every packet.
func c05Mask(c *Ctx) {
	const R = "C05.3"
	for _, spec := range [][2]string{{"aesHeaderProtector", "apply"}, {"chachaHeaderProtector", "apply"}} {
		// apply and the same-receiver helpers it calls (the mask application may live in a helper)
		root := c.fn(hsk, spec[0], spec[1])
		helpers := c.P.reachStatic([]*ssa.Function{root}, func(pk string) bool { return pk == modPath+"/"+hsk })
		var fs []*ssa.Function
		for _, h := range helpers {
			if h.Signature.Recv() != nil {
				if n := namedOf(h.Signature.Recv().Type()); n != nil && n.Obj().Name() == spec[0] {
					fs = append(fs, h)
				}
			}
		}
		eachInstr := func(_ *ssa.Function, fn func(ssa.Instruction)) {
			for _, h := range fs {
				for _, b := range h.Blocks {
					for _, in := range b.Instrs {
						fn(in)
					}
				}
			}
		}
		f := root
		isLong := c.fld(hsk, spec[0], "isLongHeader")
		mask := c.fld(hsk, spec[0], "mask")
		n := 0
		eachInstr(f, func(i ssa.Instruction) {
			bo, ok := i.(*ssa.BinOp)
			if !ok || bo.Op != token.AND {
				return
			}
			k, ok := bo.Y.(*ssa.Const)
			if !ok {
				return
			}
			// mask[0] & K
			u, ok := bo.X.(*ssa.UnOp)
			if !ok {
				return
			}
			ia, ok := u.X.(*ssa.IndexAddr)
			if !ok || fieldOfAddress(ia) != mask || !ConstI(0)(ia.Index) {
				return
			}
			n++
			v, _ := constant.Int64Val(k.Value)
			long := dominatedByEdge(bo.Block(), BoolTrue(Load(isLong)), false)
			want := int64(0x1f)
			if long {
				want = 0x0f
			}
			c.Check(v == want, R, fmt.Sprintf("mask:%s first byte masked with %#x (long=%v)", spec[0], want, long), c.P.InstrPos(i), "RFC 9001 §5.4.1: 4 bits of a long header's first byte, 5 bits of a short header's")
		})
		c.Floor(R, "first-byte mask sites in "+spec[0], n, 2)
		// packet number bytes use mask[i+1]
		nIdx := 0
		eachInstr(f, func(i ssa.Instruction) {
			ia, ok := i.(*ssa.IndexAddr)
			if !ok || fieldOfAddress(ia) != mask || ConstI(0)(ia.Index) {
				return
			}
			// only mask bytes that are XORed into the header (not the stores that initialise the buffer)
			xored := false
			if ia.Referrers() != nil {
				for _, r := range *ia.Referrers() {
					if ld, ok := r.(*ssa.UnOp); ok && ld.Op == token.MUL && ld.Referrers() != nil {
						for _, r2 := range *ld.Referrers() {
							if bo, ok := r2.(*ssa.BinOp); ok && bo.Op == token.XOR {
								xored = true
							}
						}
					}
				}
			}
			if !xored {
				return
			}
			nIdx++
			c.Check(BinV(token.ADD, Any(), ConstI(1))(ia.Index), R, "mask:"+spec[0]+" packet number byte i uses mask[i+1]", c.P.InstrPos(i), "mask[0] is for the first byte, mask[1..4] for the packet number")
		})
		c.Floor(R, "packet-number mask sites in "+spec[0], nIdx, 1)
	}
	// ChaCha20: the keystream is XORed into the mask buffer, so the buffer must be all zero first
	ap := c.fn(hsk, "chachaHeaderProtector", "apply")
	mask := c.fld(hsk, "chachaHeaderProtector", "mask")
	arrLen := int64(0)
	if a, ok := mask.Type().Underlying().(*types.Array); ok {
		arrLen = a.Len()
	}
	c.Check(arrLen == 5, R, "mask:chacha mask is 5 bytes", "-", "one byte for the first byte, four for the packet number")
	zeroStores := findInstrs(ap, func(i ssa.Instruction) bool {
		st, ok := i.(*ssa.Store)
		if !ok {
			return false
		}
		ia, ok := st.Addr.(*ssa.IndexAddr)
		return ok && fieldOfAddress(ia) == mask && ConstI(0)(st.Val)
	})
	c.Floor(R, "mask zeroing store", len(zeroStores), 1)
	for _, in := range zeroStores {
		idx := in.(*ssa.Store).Addr.(*ssa.IndexAddr).Index
		// loop index φ compared with the array length
		okBound := false
		if ph, ok := idx.(*ssa.Phi); ok && ph.Referrers() != nil {
			startsAt0 := false
			for _, e := range ph.Edges {
				if ConstI(0)(e) {
					startsAt0 = true
				}
			}
			for _, r := range *ph.Referrers() {
				if bo, ok := r.(*ssa.BinOp); ok && bo.Op == token.LSS && bo.X == ssa.Value(ph) && ConstI(arrLen)(bo.Y) {
					okBound = startsAt0
				}
			}
		}
		c.Check(okBound, R, "mask:chacha mask cleared over its whole length before use", c.P.InstrPos(in), "XORKeyStream(mask, mask) yields the keystream only if all 5 bytes are zero; a byte left over from the previous packet corrupts the 4th packet-number byte")
	}
	xks := func(i ssa.Instruction) bool {
		cl, ok := i.(*ssa.Call)
		if !ok {
			return false
		}
		o := calleeObj(&cl.Call)
		return o != nil && o.Name() == "XORKeyStream"
	}
	// the clearing loop comes first: its header dominates the keystream call
	for _, x := range findInstrs(ap, xks) {
		okDom := false
		for _, z := range zeroStores {
			// loop header = the block whose If compares the index φ; it dominates the body
			for d := z.Block(); d != nil; d = d.Idom() {
				if dominatedByBlock(x.Block(), d) && d != ap.Blocks[0] {
					okDom = true
				}
			}
		}
		c.Check(okDom, R, "order:mask clearing loop precedes the keystream generation", c.P.InstrPos(x), "clear, then XOR")
	}
	// counter = first 4 sample bytes (little endian), nonce = the remaining 12
	eachInstr(ap, func(i ssa.Instruction) {
		cl, ok := i.(*ssa.Call)
		if !ok {
			return
		}
		o := calleeObj(&cl.Call)
		if o == nil {
			return
		}
		switch o.Name() {
		case "NewUnauthenticatedCipher":
			sl, ok := cl.Call.Args[1].(*ssa.Slice)
			c.Check(ok && ParamV("sample")(sl.X) && sl.Low != nil && ConstI(4)(sl.Low) && sl.High == nil, R, "shape:chacha nonce = sample[4:]", c.P.InstrPos(i), "RFC 9001 §5.4.4")
		case "Uint32":
			sl, ok := cl.Call.Args[len(cl.Call.Args)-1].(*ssa.Slice)
			c.Check(ok && ParamV("sample")(sl.X) && sl.Low == nil && sl.High != nil && ConstI(4)(sl.High), R, "shape:chacha counter = LE32(sample[:4])", c.P.InstrPos(i), "RFC 9001 §5.4.4")
		}
	})
}

func c05KeyUpdate(c *Ctx) {
	const R = "C05.4"
	roll := c.obj(hsk, "updatableAEAD", "rollKeys")
	c.checkCallers(R, roll, c.set([3]string{hsk, "updatableAEAD", "open"}, [3]string{hsk, "updatableAEAD", "KeyPhase"}), 2)
	op := c.fn(hsk, "updatableAEAD", "open")
	next := c.fld(hsk, "updatableAEAD", "nextRcvAEAD")
	keyPhase := c.fld(hsk, "updatableAEAD", "keyPhase")
	fswck := c.fld(hsk, "updatableAEAD", "firstSentWithCurrentKey")
	invalid := c.konst("internal/protocol", "InvalidPacketNumber")
	kue := c.konst("internal/qerr", "KeyUpdateError")
	nextOpen := func(v ssa.Value) bool {
		ex, ok := v.(*ssa.Extract)
		if !ok || ex.Index != 1 {
			return false
		}
		cl, ok := ex.Tuple.(*ssa.Call)
		return ok && cl.Call.IsInvoke() && cl.Call.Method.Name() == "Open" && Load(next)(cl.Call.Value)
	}
	c.cut(R, "guard:remote update only after the next key opened the packet", &Cut{Fn: op, Target: CallsTo(roll),
		Edge: EdgeRel(Rel{Op: token.EQL, X: nextOpen, Y: IsNil()}, false)}, "keys roll only on the err == nil edge of nextRcvAEAD.Open")
	c.cut(R, "guard:remote update only for a differing key phase bit", &Cut{Fn: op, Target: CallsTo(roll),
		Edge: EdgeRel(Rel{Op: token.NEQ, X: ParamV("kp"), Y: Any()}, false)}, "keys roll only when the packet's key phase differs")
	// too-quickly guard: keyPhase > 0 && firstSentWithCurrentKey == Invalid → KEY_UPDATE_ERROR, before rollKeys
	c.cut(R, "guard:update not accepted before we sent with the current keys", &Cut{Fn: op, Target: CallsTo(roll),
		Edge: OrEdge(EdgeRel(Rel{Op: token.LEQ, X: Load(keyPhase), Y: ConstI(0)}, false), EdgeRel(Rel{Op: token.NEQ, X: Load(fswck), Y: ConstOf(invalid)}, false))},
		"a second update is refused until a packet was sent with the current phase")
	c.Floor(R, "KEY_UPDATE_ERROR exits in open", countInstr(op, ReturnsErrCode(kue)), 1)
	kp := c.fn(hsk, "updatableAEAD", "KeyPhase")
	siku := c.obj(hsk, "updatableAEAD", "shouldInitiateKeyUpdate")
	c.cut(R, "guard:local update only if shouldInitiateKeyUpdate", &Cut{Fn: kp, Target: CallsTo(roll), Edge: EdgeRel(BoolTrue(CallTo(siku, -1)), false)}, "local updates are gated")
	sf := c.fn(hsk, "updatableAEAD", "shouldInitiateKeyUpdate")
	ua := c.obj(hsk, "updatableAEAD", "updateAllowed")
	c.cut(R, "guard:initiate only if updateAllowed", &Cut{Fn: sf, Target: func(i ssa.Instruction) bool {
		r, ok := i.(*ssa.Return)
		return ok && !isConstBool(retResults(r)[0], false)
	}, Edge: EdgeRel(BoolTrue(CallTo(ua, -1)), false)}, "a `true` decision requires updateAllowed()")
	uaf := c.fn(hsk, "updatableAEAD", "updateAllowed")
	hc := c.fld(hsk, "updatableAEAD", "handshakeConfirmed")
	la := c.fld(hsk, "updatableAEAD", "largestAcked")
	notFalse := func(i ssa.Instruction) bool {
		r, ok := i.(*ssa.Return)
		return ok && !isConstBool(retResults(r)[0], false)
	}
	// the boolean expression is lowered to φ: require structure through edges
	c.cut(R, "guard:no update before handshake confirmation", &Cut{Fn: uaf, Target: notFalse, Edge: EdgeRel(BoolTrue(Load(hc)), false)}, "updates need a confirmed handshake")
	// the returned φ: true only from the keyPhase == 0 edge, otherwise largestAcked >= firstSentWithCurrentKey
	okShape := false
	eachInstr(uaf, func(i ssa.Instruction) {
		r, ok := i.(*ssa.Return)
		if !ok || isConstBool(retResults(r)[0], false) {
			return
		}
		hasAck := false
		allOK := true
		var walk func(v ssa.Value, pred *ssa.BasicBlock, d int)
		walk = func(e ssa.Value, pred *ssa.BasicBlock, d int) {
			if ph, ok := e.(*ssa.Phi); ok && d < 6 {
				for k, x := range ph.Edges {
					walk(x, ph.Block().Preds[k], d+1)
				}
				return
			}
			switch {
			case isConstBool(e, true):
				// must come from the keyPhase == 0 edge
				ifi, isIf := pred.Instrs[len(pred.Instrs)-1].(*ssa.If)
				if !(isIf && EdgeImplies(ifi, 0, Rel{Op: token.EQL, X: Load(keyPhase), Y: ConstI(0)}, false)) {
					allOK = false
				}
			case isConstBool(e, false):
			case BinV(token.GEQ, Load(la), Load(fswck))(e):
				hasAck = true
			default:
				allOK = false
			}
		}
		walk(retResults(r)[0], r.Block(), 0)
		okShape = allOK && hasAck
	})
	c.Check(okShape, R, "shape:updateAllowed = phase 0 ∨ largestAcked ≥ firstSentWithCurrentKey", c.P.Pos(uaf.Pos()), "later updates need an acknowledgement for the current phase")
	// key phase only advances in rollKeys
	ws := c.checkWriters(R, keyPhase, c.set([3]string{hsk, "updatableAEAD", "rollKeys"}), 1)
	rf := c.fn(hsk, "updatableAEAD", "rollKeys")
	for _, w := range ws[funcObj(rf)] {
		c.Check(BinV(token.ADD, Load(keyPhase), ConstI(1))(w.Val), R, "shape:keyPhase++", c.P.InstrPos(w.Instr), "one generation at a time")
	}
}

func c05PacketNumbers(c *Ctx) {
	const R = "C05.5"
	for _, T := range []string{"sequentialPacketNumberGenerator", "skippingPacketNumberGenerator"} {
		next := c.fld(ah, T, "next")
		ctor := "newSequentialPacketNumberGenerator"
		if T[1] == 'k' {
			ctor = "newSkippingPacketNumberGenerator"
		}
		ws := c.checkWriters(R, next, c.set([3]string{ah, "", ctor}, [3]string{ah, T, "Pop"}), 2)
		pop := c.fn(ah, T, "Pop")
		for _, w := range ws[funcObj(pop)] {
			ok := BinV(token.ADD, Load(next), ConstI(1))(w.Val) || BinV(token.ADD, Load(next), ConstI(2))(w.Val)
			c.Check(ok, R, "shape:"+T+".next only increases", c.P.InstrPos(w.Instr), "packet numbers are never reused")
		}
	}
	// the reference for packet-number recovery only moves forward
	for _, spec := range [][2]string{{"updatableAEAD", "Open"}, {"longHeaderOpener", "Open"}} {
		hr := c.fld(hsk, spec[0], "highestRcvdPN")
		f := c.fn(hsk, spec[0], spec[1])
		ws := c.checkWriters(R, hr, c.set([3]string{hsk, spec[0], spec[1]}), 1)
		for _, w := range ws[funcObj(f)] {
			c.Check(MinMaxOf("max", Load(hr), ParamV("pn"))(w.Val), R, "shape:"+spec[0]+".highestRcvdPN=max(highestRcvdPN, pn)", c.P.InstrPos(w.Instr),
				"a late (reordered) packet must not move the packet-number decoding window backwards")
			site := w.Instr
			c.cut(R, "guard:"+spec[0]+".highestRcvdPN advanced only by authenticated packets", &Cut{Fn: f, Target: func(i ssa.Instruction) bool { return i == site },
				Edge: EdgeRel(Rel{Op: token.EQL, X: Any(), Y: IsNil()}, false)}, "only a successfully opened packet updates the reference")
		}
	}
	// packers: PopPacketNumber result compared with the header's packet number
	popI := c.obj("", "packetNumberManager", "PopPacketNumber")
	n := 0
	for _, f := range c.P.ScopeFuncs() {
		if funcPkgPath(f) != modPath {
			continue
		}
		eachInstr(f, func(i ssa.Instruction) {
			if !CallsTo(popI)(i) {
				return
			}
			cl, ok := i.(*ssa.Call)
			if !ok {
				return
			}
			n++
			c.FuncsSet[funcName(f)] = true
			// the popped value must be compared (==/!=) with something, and the mismatch edge must not reach a normal return
			used := false
			if cl.Referrers() != nil {
				for _, r := range *cl.Referrers() {
					if b, ok := r.(*ssa.BinOp); ok && (b.Op == token.NEQ || b.Op == token.EQL) {
						used = true
					}
				}
			}
			c.Check(used, R, "pair:popped number checked against the peeked one@"+funcName(rootFn(f)), c.P.InstrPos(i), "Peek and Pop must agree for every packed packet")
		})
	}
	c.Floor(R, "PopPacketNumber call sites in packers", n, 3)
}

// stringArrayVar evaluates a package-level `[...]string{...}` / `[]string{...}` variable initialiser.
func (c *Ctx) stringArrayVar(pkg, name string) []string {
	pk := c.P.Pkgs[pkgPathOf(pkg)]
	if pk == nil {
		panic(anchorErr{fmt.Errorf("unresolved anchor: package %s", pkg)})
	}
	for _, f := range pk.Syntax {
		for _, d := range f.Decls {
			gd, ok := d.(*ast.GenDecl)
			if !ok || gd.Tok != token.VAR {
				continue
			}
			for _, sp := range gd.Specs {
				vs := sp.(*ast.ValueSpec)
				for i, n := range vs.Names {
					if n.Name != name || i >= len(vs.Values) {
						continue
					}
					cl, ok := vs.Values[i].(*ast.CompositeLit)
					if !ok {
						panic(anchorErr{fmt.Errorf("unresolved anchor: %s.%s is not a composite literal", pkg, name)})
					}
					var out []string
					for _, e := range cl.Elts {
						tv := pk.TypesInfo.Types[e]
						if tv.Value == nil || tv.Value.Kind() != constant.String {
							panic(anchorErr{fmt.Errorf("non-constant element in %s.%s", pkg, name)})
						}
						out = append(out, constant.StringVal(tv.Value))
					}
					return out
				}
			}
		}
	}
	panic(anchorErr{fmt.Errorf("unresolved anchor: var %s.%s", pkg, name)})
}
