package main

import (
	"fmt"
	"go/token"
	"go/types"

	"golang.org/x/tools/go/ssa"
)

func init() { register("C02", runC02) }

func runC02(c *Ctx) {
	c.Clause("C02.1 a UTransport without a spec behaves like a plain Transport: with every QUICSpec != nil edge pruned, UTransport.dial/doDial have exactly the effects of Transport.dial/doDial (callees, argument origins, lock/select/go structure)")
	c.Clause("C02.3 overrides have not drifted from what they shadow: uPacketPacker.PackCoalescedPacket/PackPTOProbePacket vs packetPacker's, every uCryptoSetup method vs cryptoSetup's, uSentPacketHandler.PeekPacketNumber vs sentPacketHandler's (effects of the base must be present in the override unless listed with a reason)")
	c.Clause("C02.4 spec-derived values cannot panic the dial: type assertions on spec transport parameters are comma-ok")
	c.Clause("C02.5 ClientHello scrambling is disabled before the spec packer is built")
	c.NotCovered("that any particular fingerprint completes a handshake; behaviour under loss")
	c.NotCovered("re-use of one spec value across dials (per-dial state written into the shared spec): see known finding")

	c.rule("C02.1", func() { c02Transport(c) })
	c.rule("C02.2", func() { c02SharedSpec(c) })
	c.rule("C02.3", func() { c02Overrides(c) })
	c.rule("C02.3", func() { c02Constructor(c) })
	c.rule("C02.4", func() { c02Assertions(c) })
	c.rule("C02.5", func() { c02Scrambling(c) })
}

var uRename = map[string]string{
	"UTransport": "Transport", "uPacketPacker": "packetPacker", "uCryptoSetup": "cryptoSetup",
	"uSentPacketHandler": "sentPacketHandler", "UQUICConn": "QUICConn", "UConn": "Conn",
}

func c02Transport(c *Ctx) {
	const R = "C02.1"
	spec := c.fld("", "UTransport", "QUICSpec")
	prune := func(ifi *ssa.If, s int) bool {
		// do not follow edges on which QUICSpec != nil
		return EdgeImplies(ifi, s, Rel{Op: token.NEQ, X: Load(spec), Y: IsNil()}, false)
	}
	for _, m := range []string{"dial", "doDial"} {
		base := c.fn("", "Transport", m)
		u := c.fn("", "UTransport", m)
		self := map[*types.Func]bool{funcObj(base): true, funcObj(u): true}
		o := &sibOpts{Prune: prune, Rename: uRename, Inline: 0, Self: self}
		c.sibCompare(R, "Transport."+m+"≡UTransport."+m+"|QUICSpec==nil", base, u, o, map[string]string{}, map[string]string{}, true)
	}
	// the nil-spec branch exists: newClientConnection is called under QUICSpec == nil
	dd := c.fn("", "UTransport", "doDial")
	ncc, err := c.P.Object("", "newClientConnection")
	if err != nil {
		panic(anchorErr{err})
	}
	n := 0
	eachInstr(dd, func(i ssa.Instruction) {
		cl, ok := i.(*ssa.Call)
		if !ok {
			return
		}
		if u, ok := cl.Call.Value.(*ssa.UnOp); ok {
			if g, ok := u.X.(*ssa.Global); ok && g.Object() == ncc {
				n++
				c.Check(dominatedByEdge(cl.Block(), Rel{Op: token.EQL, X: Load(spec), Y: IsNil()}, false), R, "guard:newClientConnection only without a spec", c.P.InstrPos(i), "the plain constructor is used exactly when no spec is set")
			}
		}
	})
	c.Floor(R, "newClientConnection call in UTransport.doDial", n, 1)
}

// guardOnlyDifferences: effects the override has as well, but under other branch conditions than the base, with the reason.
var guardOnlyDifferences = map[string]map[string]string{
	"uPacketPacker.PackPTOProbePacket": func() map[string]string {
		why := "an Initial probe packet of a spec client is padded by appendInitialPacket (exact-size / UDP-minimum padding from the spec) instead of initialPaddingLen; the base's padding computation is reached on the non-spec paths only"
		m := map[string]string{}
		for _, e := range []string{"call quic.packetPacker.initialPaddingLen", "arg maxPacketSize -> quic.packetPacker.initialPaddingLen*", "arg ~ -> *", "branch maxPacketSize", "branch ~", "return *", "call ackhandl*", "arg ~ -> ackhandler*"} {
			m[e] = why
		}
		return m
	}(),
}

type sibPair struct {
	basePkg, baseRecv, uPkg, uRecv, method string
	inline                                 int
	allowMissing                           map[string]string
}

func c02Overrides(c *Ctx) {
	const R = "C02.3"
	pairs := []sibPair{
		{"", "packetPacker", "", "uPacketPacker", "PackPTOProbePacket", 1, map[string]string{}},
		{"", "packetPacker", "", "uPacketPacker", "PackCoalescedPacket", 0, map[string]string{}},
		{ah, "sentPacketHandler", ah, "uSentPacketHandler", "PeekPacketNumber", 0, map[string]string{}},
	}
	for _, p := range pairs {
		base := c.fn(p.basePkg, p.baseRecv, p.method)
		u := c.fn(p.uPkg, p.uRecv, p.method)
		o := &sibOpts{Rename: uRename, Inline: p.inline, Self: map[*types.Func]bool{}}
		c.sibCompare(R, p.baseRecv+"."+p.method+"⊑"+p.uRecv+"."+p.method, base, u, o, p.allowMissing, nil, false)
		// second pass: the same effects under the same branch conditions; differences of the guard only are listed
		og := &sibOpts{Rename: uRename, Inline: p.inline, Self: map[*types.Func]bool{}, Guards: true}
		if p.method == "PackCoalescedPacket" {
			// the override's own flag "this datagram's Initial packet is built from the spec": under it nothing is
			// coalesced (decided by C13.12); it is not part of the conditions shared with the base
			og.GuardSkip = func(cond ssa.Value) bool {
				// (a boolean local of the override that is assigned on several paths: a φ carrying a variable's
				// name; short-circuit temporaries are not named)
				ph, ok := cond.(*ssa.Phi)
				return ok && ph.Parent() == u && token.IsIdentifier(ph.Comment)
			}
		}
		ag := map[string]string{}
		for k, v := range p.allowMissing {
			ag[k] = v
		}
		for k, v := range guardOnlyDifferences[p.uRecv+"."+p.method] {
			ag[k] = v
		}
		c.sibCompare(R, p.baseRecv+"."+p.method+"⊑"+p.uRecv+"."+p.method+" (same guards)", base, u, og, ag, nil, false)
	}
	// every method of uCryptoSetup that shadows a cryptoSetup method
	cs := c.named(hsk, "cryptoSetup")
	us := c.named(hsk, "uCryptoSetup")
	csN, usN := cs.Type().(*types.Named), us.Type().(*types.Named)
	common := 0
	allow := cryptoSetupAllow()
	for i := 0; i < usN.NumMethods(); i++ {
		um := usN.Method(i)
		var bm *types.Func
		for j := 0; j < csN.NumMethods(); j++ {
			if csN.Method(j).Name() == um.Name() {
				bm = csN.Method(j)
			}
		}
		if bm == nil {
			continue
		}
		common++
		bf, uf := c.P.SSA.FuncValue(bm), c.P.SSA.FuncValue(um)
		if bf == nil || uf == nil || bf.Blocks == nil || uf.Blocks == nil {
			continue
		}
		persp := c.fld(hsk, "cryptoSetup", "perspective")
		upersp := c.fld(hsk, "uCryptoSetup", "perspective")
		o := &sibOpts{Rename: uRename, Inline: 0, Self: map[*types.Func]bool{},
			// the u-variant is client-only: prune the base's server-only edges
			Prune: func(ifi *ssa.If, s int) bool { return serverOnlyEdge(c, ifi, s) },
			// near-copies: effects are compared with the branch conditions that guard them, in both directions
			Guards: true,
			GuardSkip: func(cond ssa.Value) bool {
				// tests of the perspective (the clone is client-only and may have dropped them) and of the optional recorders
				found := false
				var walk func(v ssa.Value, d int)
				walk = func(v ssa.Value, d int) {
					if v == nil || d > 4 || found {
						return
					}
					if fl, _ := loadedField(stripConv(v)); fl != nil && (fl == persp || fl == upersp || fl.Name() == "qlogger" || fl.Name() == "logger") {
						found = true
						return
					}
					switch x := stripConv(v).(type) {
					case *ssa.BinOp:
						walk(x.X, d+1)
						walk(x.Y, d+1)
					case *ssa.UnOp:
						walk(x.X, d+1)
					case *ssa.Call:
						// a method called ON the recorder / logger (h.logger.Debug()); arguments are not looked into
						if x.Call.IsInvoke() {
							walk(x.Call.Value, d+1)
						}
					}
				}
				walk(cond, 0)
				return found
			}}
		am := allow[um.Name()]
		if am == nil {
			am = map[string]string{}
		}
		c.sibCompare(R, "cryptoSetup."+um.Name()+"⊑uCryptoSetup."+um.Name(), bf, uf, o, am, cryptoSetupAllowExtra()[um.Name()], true)
	}
	c.Floor(R, "uCryptoSetup methods shadowing cryptoSetup methods", common, 30)
}

func serverOnlyEdge(c *Ctx, ifi *ssa.If, s int) bool {
	persp, err := c.P.Field(hsk, "cryptoSetup", "perspective")
	if err != nil {
		return false
	}
	srv, err := c.P.Object("internal/protocol", "PerspectiveServer")
	if err != nil {
		return false
	}
	cli, _ := c.P.Object("internal/protocol", "PerspectiveClient")
	if EdgeImplies(ifi, s, Rel{Op: token.EQL, X: Load(persp), Y: ConstOf(srv)}, false) {
		return true
	}
	if cli != nil && EdgeImplies(ifi, s, Rel{Op: token.NEQ, X: Load(persp), Y: ConstOf(cli)}, false) {
		return true
	}
	// the clone carries the same tests on its own field
	if up, err := c.P.Field(hsk, "uCryptoSetup", "perspective"); err == nil {
		if EdgeImplies(ifi, s, Rel{Op: token.EQL, X: Load(up), Y: ConstOf(srv)}, false) {
			return true
		}
		if cli != nil && EdgeImplies(ifi, s, Rel{Op: token.NEQ, X: Load(up), Y: ConstOf(cli)}, false) {
			return true
		}
	}
	return false
}

// cryptoSetupAllow: effects of cryptoSetup methods that uCryptoSetup legitimately lacks,
// each with the reason (confirmed by reading both files).
func cryptoSetupAllow() map[string]map[string]string {
	qk := "only computes the key type of a qlog event (the clone emits no qlog events)"
	return map[string]map[string]string{
		"setReadKey":  {"call protocol.FromTLSEncryptionLevel": qk, "arg el -> protocol.FromTLSEncryptionLevel#0": qk, "call protocol.Perspective.Opposite": qk},
		"setWriteKey": {"call protocol.FromTLSEncryptionLevel": qk, "arg el -> protocol.FromTLSEncryptionLevel#0": qk, "call protocol.Perspective.Opposite": qk},
		// server only: a client never issues session tickets (DESIGN §3 C02.3)
		"GetSessionTicket":    {"*": "server only"},
		"handleSessionTicket": {"*": "server only"},
	}
}

// cryptoSetupAllowExtra: effects of uCryptoSetup methods that cryptoSetup does not have, with the reason.
func cryptoSetupAllowExtra() map[string]map[string]string {
	return map[string]map[string]string{
		"GetSessionTicket":    {"*": "server only: a client never issues session tickets; the clone keeps an older, stricter variant that is never reached"},
		"handleSessionTicket": {"*": "server only"},
	}
}

func c02Assertions(c *Ctx) {
	const R = "C02.4"
	f := c.fn("internal/wire", "TransportParameters", "PopulateFromUQUIC")
	n := 0
	eachInstr(f, func(i ssa.Instruction) {
		ta, ok := i.(*ssa.TypeAssert)
		if !ok {
			return
		}
		n++
		c.Check(ta.CommaOk, R, "assert:comma-ok type assertion on spec parameter#"+itoa(n), c.P.InstrPos(i),
			"a spec may carry a raw/fake parameter under a standard ID; a single-value type assertion would panic the dial instead of returning an error or skipping it")
	})
	c.Floor(R, "type assertions in PopulateFromUQUIC", n, 5)
}

func itoa(n int) string {
	if n == 0 {
		return "0"
	}
	s := ""
	for n > 0 {
		s = string(rune('0'+n%10)) + s
		n /= 10
	}
	return s
}

// funcVar returns the function literal a package-level func variable is initialised with.
func (c *Ctx) funcVar(pkg, name string) *ssa.Function {
	g, err := c.P.Object(pkg, name)
	if err != nil {
		panic(anchorErr{err})
	}
	var fn *ssa.Function
	sp := c.P.SSAPkg[pkgPathOf(pkg)]
	for _, m := range sp.Members {
		if f, ok := m.(*ssa.Function); ok && f.Name() == "init" {
			for _, a := range f.AnonFuncs {
				eachInstr(f, func(i ssa.Instruction) {
					if st, ok := i.(*ssa.Store); ok {
						if gl, ok := st.Addr.(*ssa.Global); ok && gl.Object() == g && st.Val == ssa.Value(a) {
							fn = a
						}
					}
				})
			}
		}
	}
	if fn == nil {
		panic(anchorErr{fmt.Errorf("unresolved anchor: function literal assigned to %s.%s", pkg, name)})
	}
	c.FuncsSet["quic."+name] = true
	return fn
}

func c02Scrambling(c *Ctx) {
	const R = "C02.5"
	fn := c.funcVar("", "newUClientConnection")
	ds := c.obj("", "initialCryptoStream", "DisableScrambling")
	nup := c.obj("", "", "newUPacketPacker")
	preSetup := c.obj("", "Conn", "preSetup")
	c.cut(R, "order:DisableScrambling before the spec packer exists", &Cut{Fn: fn, Target: CallsTo(nup), Barrier: CallsTo(ds)}, "the re-framing path cannot reassemble scrambled CRYPTO frames")
	c.cut(R, "order:DisableScrambling after preSetup created the stream", &Cut{Fn: fn, Target: CallsTo(ds), Barrier: CallsTo(preSetup)}, "the initial stream exists when scrambling is disabled")
	c.Floor(R, "DisableScrambling calls", countInstr(fn, CallsTo(ds)), 1)
}

// c02SharedSpec: per-dial values must not be written into memory owned by the shared spec.
func c02SharedSpec(c *Ctx) {
	const R = "C02.2"
	pf := c.fn("internal/wire", "TransportParameters", "PopulateFromUQUIC")
	n := 0
	eachInstr(pf, func(i ssa.Instruction) {
		st, ok := i.(*ssa.Store)
		if !ok {
			return
		}
		ia, ok := st.Addr.(*ssa.IndexAddr)
		if !ok || !ParamV("quicparams")(ia.X) {
			return
		}
		n++
		c.Bad(R, "shared-spec:PopulateFromUQUIC writes into the spec's parameter slice", c.P.InstrPos(i),
			"the slice belongs to the QUICSpec shared by every dial; storing this connection's source connection ID into it makes the next dial with the same spec advertise a stale initial_source_connection_id")
	})
	if n == 0 {
		c.OK(R, "shared-spec:PopulateFromUQUIC writes into the spec's parameter slice", c.P.Pos(pf.Pos()), "no store into the caller's slice")
	}
	fn := c.funcVar("", "newUClientConnection")
	ncs := c.obj(hsk, "", "NewUCryptoSetupClient")
	chs := c.fld("", "QUICSpec", "ClientHelloSpec")
	calls := findInstrs(fn, CallsTo(ncs))
	c.Floor(R, "NewUCryptoSetupClient calls", len(calls), 1)
	for _, in := range calls {
		args := in.(ssa.CallInstruction).Common().Args
		last := args[len(args)-1]
		c.Check(!Load(chs)(last), R, "shared-spec:ClientHelloSpec handed to uTLS without a per-dial copy", c.P.InstrPos(in),
			"utls.ApplyPreset shallow-copies the spec and then memoises per-connection state in the shared extension objects (marshalled transport parameters, key shares, SNI), so a second dial with the same QUICSpec value sends the first dial's values and fails the handshake")
	}
}

// c02Constructor: without a ClientHelloSpec the spec constructor builds the connection like newClientConnection.
func c02Constructor(c *Ctx) {
	const R = "C02.3"
	base := c.funcVar("", "newClientConnection")
	u := c.funcVar("", "newUClientConnection")
	chs := c.fld("", "QUICSpec", "ClientHelloSpec")
	o := &sibOpts{Rename: uRename, Inline: 0, Self: map[*types.Func]bool{},
		CalleeRename: map[string]string{"handshake.NewUCryptoSetupClient": "handshake.NewCryptoSetupClient", "ackhandler.NewUAckHandler": "ackhandler.NewSentPacketHandler"},
		Prune: func(ifi *ssa.If, s int) bool {
			return EdgeImplies(ifi, s, Rel{Op: token.NEQ, X: Load(chs), Y: IsNil()}, false)
		}}
	c.sibCompare(R, "newClientConnection⊑newUClientConnection|ClientHelloSpec==nil", base, u, o, constructorAllow(), nil, false)
}

func constructorAllow() map[string]string {
	return map[string]string{
		"call utils.RTTStats.SetInitialRTT":   "drift recorded in DESIGN (H3): the spec constructor does not restore the RTT hint stored with a NEW_TOKEN token; affects only the initial RTT estimate, not whether the handshake completes",
		"call iface quic.sendConn.LocalAddr":  "argument of the qlog connection-started event only",
		"call iface quic.sendConn.RemoteAddr": "argument of the qlog connection-started event only",
	}
}
