package main

// WAIT — every blocking wait can be woken by the shutdown path.

import (
	"fmt"
	"go/token"
	"go/types"
	"sort"
	"strings"

	"golang.org/x/tools/go/ssa"
)

type waitSite struct {
	Fn      *ssa.Function
	Instr   ssa.Instruction
	Kind    string   // select | recv | send | waitgroup | cond
	Classes []string // channel classes waited on
}

// chanClass describes where a channel value comes from.
func chanClass(v ssa.Value, depth int) string {
	if depth > 6 || v == nil {
		return "?"
	}
	v = stripConv(v)
	switch x := v.(type) {
	case *ssa.Call:
		if x.Call.IsInvoke() && x.Call.Method.Name() == "Done" {
			return "ctx.Done(" + chanClass(x.Call.Value, depth+1) + ")"
		}
		if o := calleeObj(&x.Call); o != nil {
			// accessor methods returning a channel field: follow into simple getters
			if fn := x.Call.StaticCallee(); fn != nil && len(fn.Blocks) == 1 {
				for _, in := range fn.Blocks[0].Instrs {
					if r, ok := in.(*ssa.Return); ok && len(r.Results) == 1 {
						return chanClass(r.Results[0], depth+1)
					}
				}
			}
			return "call:" + o.Name()
		}
		if b := builtinName(&x.Call); b != "" {
			return "builtin:" + b
		}
		return "call:?"
	case *ssa.Parameter:
		return "param:" + x.Name()
	case *ssa.FreeVar:
		return "freevar:" + x.Name()
	case *ssa.MakeChan:
		return "local-make"
	case *ssa.Phi:
		var parts []string
		seen := map[string]bool{}
		for _, e := range x.Edges {
			c := chanClass(e, depth+1)
			if !seen[c] {
				seen[c] = true
				parts = append(parts, c)
			}
		}
		sort.Strings(parts)
		return "phi(" + strings.Join(parts, "|") + ")"
	case *ssa.Const:
		return "nil"
	case *ssa.Extract:
		return "extract:" + chanClass(x.Tuple, depth+1)
	case *ssa.Lookup:
		return "mapelem:" + chanClass(x.X, depth+1)
	}
	if f, base := loadedField(v); f != nil {
		owner := ""
		if base != nil {
			if n := namedOf(base.Type()); n != nil {
				owner = n.Obj().Name() + "."
			}
		}
		if f.Name() == "C" && owner == "Timer." {
			return "timer.C"
		}
		return "field:" + owner + f.Name()
	}
	if u, ok := v.(*ssa.UnOp); ok && u.Op == token.MUL {
		if al, ok := u.X.(*ssa.Alloc); ok {
			// local variable cell: union of stored values
			var parts []string
			seen := map[string]bool{}
			if al.Referrers() != nil {
				for _, r := range *al.Referrers() {
					if st, ok := r.(*ssa.Store); ok && st.Addr == al {
						c := chanClass(st.Val, depth+1)
						if !seen[c] {
							seen[c] = true
							parts = append(parts, c)
						}
					}
				}
			}
			sort.Strings(parts)
			return "var(" + strings.Join(parts, "|") + ")"
		}
		if ia, ok := u.X.(*ssa.IndexAddr); ok {
			return "elem:" + chanClass(ia.X, depth+1)
		}
		if fv, ok := u.X.(*ssa.FreeVar); ok {
			return "freevar:" + fv.Name()
		}
	}
	return fmt.Sprintf("?%T", v)
}

// waitSites enumerates blocking sites in the given packages.
func (p *Prog) waitSites(pkgFilter func(string) bool) []waitSite {
	var out []waitSite
	for _, f := range p.ScopeFuncs() {
		if !pkgFilter(funcPkgPath(f)) {
			continue
		}
		eachInstr(f, func(in ssa.Instruction) {
			switch x := in.(type) {
			case *ssa.Select:
				if !x.Blocking {
					return
				}
				ws := waitSite{Fn: f, Instr: in, Kind: "select"}
				for _, st := range x.States {
					d := "<-"
					if st.Dir == types.SendOnly {
						d = "->"
					}
					ws.Classes = append(ws.Classes, d+chanClass(st.Chan, 0))
				}
				out = append(out, ws)
			case *ssa.UnOp:
				if x.Op == token.ARROW {
					out = append(out, waitSite{Fn: f, Instr: in, Kind: "recv", Classes: []string{"<-" + chanClass(x.X, 0)}})
				}
			case *ssa.Send:
				out = append(out, waitSite{Fn: f, Instr: in, Kind: "send", Classes: []string{"->" + chanClass(x.Chan, 0)}})
			case *ssa.Call:
				if o := calleeObj(&x.Call); o != nil && o.Pkg() != nil && o.Pkg().Path() == "sync" {
					sig := o.Type().(*types.Signature)
					if sig.Recv() != nil && o.Name() == "Wait" {
						kind := "waitgroup"
						if typeIs(sig.Recv().Type(), "sync", "Cond") {
							kind = "cond"
						}
						cls := "?"
						if len(x.Call.Args) > 0 {
							if fa, ok := x.Call.Args[0].(*ssa.FieldAddr); ok {
								cls = "field:" + fieldOfAddr(fa).Name()
							} else {
								cls = chanClass(x.Call.Args[0], 0)
							}
						}
						out = append(out, waitSite{Fn: f, Instr: in, Kind: kind, Classes: []string{cls}})
					}
				}
			}
		})
	}
	sort.SliceStable(out, func(i, j int) bool {
		if out[i].Fn.String() != out[j].Fn.String() {
			return out[i].Fn.String() < out[j].Fn.String()
		}
		return out[i].Instr.Pos() < out[j].Instr.Pos()
	})
	return out
}

// ---- signalers and shutdown reachability ----

// chanKey normalises a class string to the container it denotes (a field name, or "").
func classField(cls string) string {
	cls = strings.TrimPrefix(strings.TrimPrefix(cls, "<-"), "->")
	for _, pre := range []string{"elem:", "mapelem:"} {
		cls = strings.TrimPrefix(cls, pre)
	}
	if strings.HasPrefix(cls, "ctx.Done(field:") {
		return "ctx:" + strings.TrimSuffix(strings.TrimPrefix(cls, "ctx.Done(field:"), ")")
	}
	if strings.HasPrefix(cls, "field:") {
		return strings.TrimPrefix(cls, "field:")
	}
	return ""
}

// signalSites: functions that close / send on a channel loaded from a struct field (or an element of a slice field),
// keyed "Owner.field".
func (p *Prog) signalSites() map[string][]*ssa.Function {
	out := map[string][]*ssa.Function{}
	add := func(v ssa.Value, f *ssa.Function) {
		cls := chanClass(v, 0)
		k := classField(cls)
		if k == "" && strings.HasPrefix(cls, "var(") {
			// range variable over a slice field: for _, c := range m.openQueue { close(c) }
			k = ""
		}
		if k != "" {
			out[k] = append(out[k], f)
		}
	}
	for _, f := range p.ScopeFuncs() {
		eachInstr(f, func(in ssa.Instruction) {
			switch x := in.(type) {
			case *ssa.Call:
				if builtinName(&x.Call) == "close" {
					add(x.Call.Args[0], f)
					// close(c) where c ranges over a slice field
					if u, ok := x.Call.Args[0].(*ssa.UnOp); ok {
						if ia, ok := u.X.(*ssa.IndexAddr); ok {
							if fl, base := loadedField(ia.X); fl != nil {
								owner := ""
								if n := namedOf(base.Type()); n != nil {
									owner = n.Obj().Name() + "."
								}
								out[owner+fl.Name()] = append(out[owner+fl.Name()], f)
							}
						}
					}
				}
			case *ssa.Send:
				add(x.Chan, f)
			case *ssa.Select:
				for _, st := range x.States {
					if st.Dir == types.SendOnly {
						add(st.Chan, f)
					}
				}
			}
		})
	}
	return out
}

// cancelSites: functions calling a context cancel function stored in the given field name.
func (p *Prog) cancelSites(cancelField *types.Var) []*ssa.Function {
	var out []*ssa.Function
	for _, f := range p.ScopeFuncs() {
		n := 0
		eachInstr(f, func(in ssa.Instruction) {
			if callsFieldFunc(cancelField)(in) {
				n++
			}
		})
		if n > 0 {
			out = append(out, f)
		}
	}
	return out
}

// reachFrom computes the functions reachable from roots through static calls, closures,
// interface invokes (by method name and implementation) and function values stored in
// struct fields (callbacks).
func (p *Prog) reachFrom(roots []*ssa.Function, rootInstrs []ssa.Instruction) map[*ssa.Function]bool {
	// function-typed fields: which functions are ever stored into them
	fieldFuncs := map[*types.Var][]*ssa.Function{}
	for _, f := range p.ScopeFuncs() {
		eachInstr(f, func(in ssa.Instruction) {
			st, ok := in.(*ssa.Store)
			if !ok {
				return
			}
			fld := fieldOfAddress(st.Addr)
			if fld == nil {
				return
			}
			if _, isSig := fld.Type().Underlying().(*types.Signature); !isSig {
				return
			}
			for _, fn := range funcsOfValue(st.Val) {
				fieldFuncs[fld] = append(fieldFuncs[fld], fn)
			}
		})
	}
	// methods by name for invoke resolution
	byName := map[string][]*ssa.Function{}
	for _, f := range p.ScopeFuncs() {
		if f.Signature.Recv() != nil && f.Parent() == nil {
			byName[f.Name()] = append(byName[f.Name()], f)
		}
	}
	seen := map[*ssa.Function]bool{}
	var work []*ssa.Function
	push := func(f *ssa.Function) {
		if f != nil && !seen[f] && f.Blocks != nil && InRepo(funcPkgPath(f)) {
			seen[f] = true
			work = append(work, f)
		}
	}
	visitInstr := func(in ssa.Instruction) {
		if ci, ok := in.(ssa.CallInstruction); ok {
			c := ci.Common()
			if c.IsInvoke() {
				// only interfaces declared in this module: an invoke on io.Reader, error, context.Context …
				// says nothing about which of the module's methods runs
				if n := namedOf(c.Value.Type()); n == nil || n.Obj().Pkg() == nil || !InRepo(n.Obj().Pkg().Path()) {
					// not resolved
				} else if it, ok := c.Value.Type().Underlying().(*types.Interface); ok {
					for _, m := range byName[c.Method.Name()] {
						if implementsLoose(m.Signature.Recv().Type(), it) {
							push(m)
						}
					}
				}
			} else if sc := c.StaticCallee(); sc != nil {
				push(sc)
				if sc.Synthetic != "" {
					if t := boundTarget(sc); t != nil {
						push(p.SSA.FuncValue(t))
					}
				}
			} else {
				// call of a function value: from a field, a closure, a parameter
				for _, fn := range funcsOfValue(c.Value) {
					push(fn)
				}
				if fl, _ := loadedField(c.Value); fl != nil {
					for _, fn := range fieldFuncs[fl] {
						push(fn)
					}
				}
			}
			for _, a := range c.Args {
				for _, fn := range funcsOfValue(a) {
					push(fn) // callbacks handed over (time.AfterFunc, sync.Once.Do, …)
				}
			}
		}
		if mc, ok := in.(*ssa.MakeClosure); ok {
			if fn, ok := mc.Fn.(*ssa.Function); ok {
				push(fn)
			}
		}
	}
	for _, r := range roots {
		push(r)
	}
	for _, in := range rootInstrs {
		visitInstr(in)
	}
	for len(work) > 0 {
		f := work[len(work)-1]
		work = work[:len(work)-1]
		eachInstr(f, visitInstr)
	}
	return seen
}

func funcsOfValue(v ssa.Value) []*ssa.Function {
	return funcsOfValue1(v, map[ssa.Value]bool{})
}

func funcsOfValue1(v ssa.Value, seen map[ssa.Value]bool) []*ssa.Function {
	v = stripConv(v)
	if seen[v] {
		return nil
	}
	seen[v] = true
	switch x := v.(type) {
	case *ssa.Function:
		return []*ssa.Function{x}
	case *ssa.MakeClosure:
		if fn, ok := x.Fn.(*ssa.Function); ok {
			return []*ssa.Function{fn}
		}
	case *ssa.Phi:
		var out []*ssa.Function
		for _, e := range x.Edges {
			out = append(out, funcsOfValue1(e, seen)...)
		}
		return out
	}
	return nil
}
