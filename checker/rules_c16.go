package main

import (
	"go/token"
	"go/types"

	"golang.org/x/tools/go/ssa"
)

func init() { register("C16", runC16) }

func runC16(c *Ctx) {
	c.Clause("C16.1 own IDs: issueNewConnID only inside the loop bounded by min(peer limit, MaxIssuedConnectionIDs) or as one-for-one replacement after a retirement; Retire's two PROTOCOL_VIOLATION guards precede its effects")
	c.Clause("C16.3 every removal of a peer-issued ID (reordered frame, Retire Prior To on queue and path-probing IDs, rotation, path retirement) is accompanied by RETIRE_CONNECTION_ID carrying that entry's sequence number")
	c.Clause("C16.4 stateless-reset tokens: added with each ID that becomes active/probing, removed with each that stops; Close removes active and all probing tokens")
	c.Clause("C16.5 RemoveAll / ReplaceWithClosed / AddConnRunner cover the same ID collections; handleCloseError reaches exactly one of RemoveAll/ReplaceWithClosed on every path and closes the ID manager; ReplaceWithClosed schedules deletion of every ID it inserted")
	c.Clause("C16.6 peer limit: NEW_CONNECTION_ID beyond MaxActiveConnectionIDs stored IDs is CONNECTION_ID_LIMIT_ERROR; frames while using zero-length IDs are PROTOCOL_VIOLATION")
	c.Clause("C16.7 the server-side generator is given the routed client destination connection ID; Retire removes the ID from the active set on every path")
	c.Clause("C16.10 every path that leaves a path manager (client Path.Close, server SwitchToPath) has its connection ID retired")
	c.Clause("C16.8 the routing table, reset-token table and server slot are accessed under the transport mutex; C16.9 registering a dialed connection does not replace the routing entry of a live one")
	c.NotCovered("routed set = live set over histories; expiry timing")
	c.NotCovered("acceptance of every ID within the limit this endpoint advertised for spec-driven clients (decided under C12)")

	c.rule("C16.1", func() { c16Generator(c) })
	c.rule("C16.3", func() { c16Retire(c) })
	c.rule("C16.4", func() { c16Tokens(c) })
	c.rule("C16.5", func() { c16Close(c) })
	c.rule("C16.6", func() { c16Limit(c) })
	c.rule("C16.7", func() { c16RoutedIDTracked(c) })
	c.rule("C16.8", func() { c16Guarded(c) })
	c.rule("C16.9", func() { c16NoRoutingEntryReplaced(c) })
	c.rule("C16.10", func() { c16PathsGiveTheirConnIDBack(c) })
}

// allocFieldVal: for a composite literal allocation, the value stored into the field.
func allocFieldVal(al *ssa.Alloc, f *types.Var) ssa.Value {
	if al.Referrers() == nil {
		return nil
	}
	for _, r := range *al.Referrers() {
		fa, ok := r.(*ssa.FieldAddr)
		if !ok || fieldOfAddr(fa) != f || fa.Referrers() == nil {
			continue
		}
		for _, rr := range *fa.Referrers() {
			if st, ok := rr.(*ssa.Store); ok && st.Addr == fa {
				return st.Val
			}
		}
	}
	return nil
}

// frameArg: the call's argument (index i after receiver) is (an interface wrapping) a
// composite literal of the named type; returns the allocation.
func frameLit(v ssa.Value, tn *types.TypeName) *ssa.Alloc {
	v = stripConv(v)
	if mi, ok := v.(*ssa.MakeInterface); ok {
		v = mi.X
	}
	al, ok := v.(*ssa.Alloc)
	if !ok || namedOf(al.Type()) == nil || namedOf(al.Type()).Obj() != tn {
		return nil
	}
	return al
}

func c16Generator(c *Ctx) {
	const R = "C16.1"
	G := "connIDGenerator"
	issue := c.obj("", G, "issueNewConnID")
	c.checkCallers(R, issue, c.set([3]string{"", G, "SetMaxActiveConnIDs"}, [3]string{"", G, "Retire"}), 2)
	sm := c.fn("", G, "SetMaxActiveConnIDs")
	active := c.fld("", G, "activeSrcConnIDs")
	maxIssued := c.konst("internal/protocol", "MaxIssuedConnectionIDs")
	bound := MinMaxOf("min", ParamV("limit"), ConstOf(maxIssued))
	for _, in := range findInstrs(sm, CallsTo(issue)) {
		site := in
		var counter ssa.Value
		c.cut(R, "guard:issue only while i < min(limit, MaxIssuedConnectionIDs)", &Cut{Fn: sm, Target: func(i ssa.Instruction) bool { return i == site },
			Edge: func(ifi *ssa.If, s int) bool {
				if !EdgeImplies(ifi, s, Rel{Op: token.LSS, X: func(v ssa.Value) bool { counter = v; return true }, Y: bound}, false) {
					return false
				}
				return true
			}}, "new IDs are issued only while the count is below both the peer's limit and the local cap")
		// counter starts at the number of active IDs and increases by one per issued ID
		ph, ok := counter.(*ssa.Phi)
		okInit := false
		if ok {
			for _, e := range ph.Edges {
				if LenOf(Load(active))(e) {
					okInit = true
				}
			}
		}
		c.Check(okInit, R, "shape:loop counter starts at len(activeSrcConnIDs)", c.P.InstrPos(in), "IDs already issued count against the limit")
	}
	c.Check(constInt(maxIssued) >= 2, R, "const:MaxIssuedConnectionIDs>=2", "-", "cap is sane")
	// zero-length IDs: nothing issued
	cidLen := c.obj("", "ConnectionIDGenerator", "ConnectionIDLen")
	c.cut(R, "guard:no issuing with zero-length IDs", &Cut{Fn: sm, Target: CallsTo(issue), Edge: EdgeRel(Rel{Op: token.NEQ, X: CallTo(cidLen, -1), Y: ConstI(0)}, false)}, "zero-length connection IDs are never replaced")

	rt := c.fn("", G, "Retire")
	highestSeq := c.fld("", G, "highestSeq")
	pv := c.konst("internal/qerr", "ProtocolViolation")
	qfr := c.obj("", G, "queueConnIDForRetiring")
	isDelete := func(i ssa.Instruction) bool {
		cl, ok := i.(*ssa.Call)
		return ok && builtinName(&cl.Call) == "delete" && Load(active)(cl.Call.Args[0])
	}
	effects := OrIP(CallsTo(qfr, issue), isDelete)
	c.passAll(R, "Retire effects", rt, effects, []namedEdge{
		{"seq was issued", EdgeRel(Rel{Op: token.LEQ, X: ParamV("seq"), Y: Load(highestSeq)}, false)},
		{"not the ID the packet was sent to", EdgeRel(Rel{Op: token.NEQ, X: Any(), Y: ParamV("sentWithDestConnID")}, false)},
	}, "a RETIRE_CONNECTION_ID takes effect only when valid")
	c.Floor(R, "PROTOCOL_VIOLATION exits in Retire", countInstr(rt, ReturnsErrCode(pv)), 2)
	c.cut(R, "pair:replacement only after the retired ID was deleted", &Cut{Fn: rt, Target: CallsTo(issue), Barrier: isDelete}, "one-for-one replacement")
	c.cut(R, "guard:no replacement for sequence number 0", &Cut{Fn: rt, Target: CallsTo(issue), Edge: EdgeRel(Rel{Op: token.NEQ, X: ParamV("seq"), Y: ConstI(0)}, false)}, "the handshake connection ID is not replaced")
	c.cut(R, "pair:retired ID scheduled for removal before deletion", &Cut{Fn: rt, Target: isDelete, Barrier: CallsTo(qfr)}, "a retired ID keeps routing until its expiry and is then removed")

	// issueNewConnID: registers the ID for routing and announces it with consecutive sequence numbers
	in := c.fn("", G, "issueNewConnID")
	addCID := c.obj("", "connRunners", "AddConnectionID")
	qcf := c.fld("", G, "queueControlFrame")
	ncid := c.named("internal/wire", "NewConnectionIDFrame")
	seqF := c.fld("internal/wire", "NewConnectionIDFrame", "SequenceNumber")
	c.cut(R, "pair:issued ID is routed", &Cut{Fn: in, Target: ReturnsMaybeNilErr(0), Barrier: CallsTo(addCID)}, "packets for a newly issued ID reach the connection")
	c.cut(R, "pair:issued ID is announced", &Cut{Fn: in, Target: ReturnsMaybeNilErr(0), Barrier: callsFieldFunc(qcf)}, "NEW_CONNECTION_ID is queued")
	ws := c.checkWriters(R, highestSeq, c.set([3]string{"", G, "issueNewConnID"}), 1)
	for _, w := range ws[funcObj(in)] {
		c.Check(BinV(token.ADD, Load(highestSeq), ConstI(1))(w.Val), R, "shape:highestSeq++", c.P.InstrPos(w.Instr), "sequence numbers are consecutive")
	}
	for _, i := range findInstrs(in, callsFieldFunc(qcf)) {
		al := frameLit(i.(ssa.CallInstruction).Common().Args[0], ncid)
		okv := al != nil && BinV(token.ADD, Load(highestSeq), ConstI(1))(allocFieldVal(al, seqF))
		c.Check(okv, R, "shape:NEW_CONNECTION_ID.SequenceNumber=highestSeq+1", c.P.InstrPos(i), "the announced sequence number is the next one")
	}
}

func c16Retire(c *Ctx) {
	const R = "C16.3"
	M := "connIDManager"
	qcf := c.fld("", M, "queueControlFrame")
	retire := c.named("internal/wire", "RetireConnectionIDFrame")
	rseq := c.fld("internal/wire", "RetireConnectionIDFrame", "SequenceNumber")
	eseq := c.fld("", "newConnID", "SequenceNumber")
	fseq := c.fld("internal/wire", "NewConnectionIDFrame", "SequenceNumber")
	rpt := c.fld("internal/wire", "NewConnectionIDFrame", "RetirePriorTo")
	pathProbing := c.fld("", M, "pathProbing")
	queue := c.fld("", M, "queue")
	actSeq := c.fld("", M, "activeSequenceNumber")
	actCID := c.fld("", M, "activeConnectionID")

	retireWith := func(seqPat VP) IP {
		return func(i ssa.Instruction) bool {
			if !callsFieldFunc(qcf)(i) {
				return false
			}
			al := frameLit(i.(ssa.CallInstruction).Common().Args[0], retire)
			if al == nil {
				return false
			}
			v := allocFieldVal(al, rseq)
			return v != nil && seqPat(v)
		}
	}
	entrySeq := Load(eseq)
	// who may write the containers
	c.checkWriters(R, queue, c.set([3]string{"", "", "newConnIDManager"}, [3]string{"", M, "add"}, [3]string{"", M, "addConnectionID"}, [3]string{"", M, "updateConnectionID"}, [3]string{"", M, "GetConnIDForPath"}), 5)
	c.checkWriters(R, pathProbing, c.set([3]string{"", M, "add"}, [3]string{"", M, "GetConnIDForPath"}, [3]string{"", M, "RetireConnIDForPath"}), 3)
	c.checkWriters(R, actSeq, c.set([3]string{"", M, "updateConnectionID"}), 1)
	c.checkWriters(R, actCID, c.set([3]string{"", "", "newConnIDManager"}, [3]string{"", M, "updateConnectionID"}, [3]string{"", M, "ChangeInitialConnID"}), 3)

	// (a) path-probing IDs
	isDelPP := func(i ssa.Instruction) bool {
		cl, ok := i.(*ssa.Call)
		return ok && builtinName(&cl.Call) == "delete" && Load(pathProbing)(cl.Call.Args[0])
	}
	nd := 0
	for _, name := range []string{"add", "RetireConnIDForPath"} {
		f := c.fn("", M, name)
		for _, in := range findInstrs(f, isDelPP) {
			nd++
			site := in
			c.cut(R, "pair:path-probing ID removed ⇒ RETIRE_CONNECTION_ID(entry)@"+name, &Cut{Fn: f, Target: func(i ssa.Instruction) bool { return i == site }, Barrier: retireWith(entrySeq)},
				"an ID taken out of path probing is reported with its own sequence number")
		}
	}
	c.Floor(R, "path-probing removals", nd, 2)
	add := c.fn("", M, "add")
	// path-probing IDs are retired for ANY Retire Prior To above their sequence number, also one that
	// does not exceed highestRetired (rotation advances highestRetired past parked probing IDs)
	hrF := c.fld("", M, "highestRetired")
	for _, in := range findInstrs(add, isDelPP) {
		site := in
		w := (&Cut{Fn: add, Target: func(i ssa.Instruction) bool { return i == site }, Edge: EdgeRel(Rel{Op: token.GTR, X: Load(rpt), Y: Load(hrF)}, false)}).Run()
		c.Check(w != nil, R, "reach:path-probing retirement not gated by RetirePriorTo > highestRetired", c.P.InstrPos(in),
			"the path-probing loop must be reachable without passing the `RetirePriorTo > highestRetired` edge")
	}
	// (b) queue entries below Retire Prior To
	// (evaluated over add and the private helpers called only from it)
	nEdges := 0
	for _, g := range c.region(add) {
		g := g
		sb := edgeSuccs(g, Rel{Op: token.LSS, X: entrySeq, Y: Load(rpt)})
		nEdges += len(sb)
		if len(sb) == 0 {
			continue
		}
		suffix := ""
		if g != add {
			suffix = "@" + g.Name()
		}
		c.cut(R, "pair:entry below Retire Prior To ⇒ RETIRE_CONNECTION_ID(entry)"+suffix, &Cut{Fn: g, StartBlocks: sb, Target: OrIP(isReturn, StoresTo(queue), isDelPP), Barrier: retireWith(entrySeq)},
			"every entry dropped because of Retire Prior To is reported before anything else happens")
	}
	// the pathProbing loop has the same comparison; both lead to retire calls
	c.Floor(R, "entry.SequenceNumber < RetirePriorTo edges", nEdges, 2)
	// the rebuilt queue keeps only entries >= RetirePriorTo: append to the new queue only on that edge
	nAppend := 0
	eachRegionInstr := func(_ *ssa.Function, fn func(ssa.Instruction)) {
		for _, g := range c.region(add) {
			eachInstr(g, fn)
		}
	}
	eachRegionInstr(add, func(i ssa.Instruction) {
		cl, ok := i.(*ssa.Call)
		if !ok || builtinName(&cl.Call) != "append" {
			return
		}
		if _, isSlice := cl.Type().Underlying().(*types.Slice); !isSlice {
			return
		}
		if n := namedOf(cl.Type().Underlying().(*types.Slice).Elem()); n == nil || n.Obj().Name() != "newConnID" {
			return
		}
		nAppend++
		c.cut(R, "guard:kept entries are >= Retire Prior To", &Cut{Fn: i.Parent(), Target: func(x ssa.Instruction) bool { return x == i },
			Edge: EdgeRel(Rel{Op: token.GEQ, X: entrySeq, Y: Load(rpt)}, false)}, "only entries at or above Retire Prior To stay queued")
	})
	c.Floor(R, "appends to the rebuilt queue", nAppend, 1)
	// (c) rotation
	upd := c.fn("", M, "updateConnectionID")
	for _, in := range findInstrs(upd, StoresTo(actSeq, actCID)) {
		site := in
		c.cut(R, "pair:active ID replaced ⇒ RETIRE_CONNECTION_ID(active)", &Cut{Fn: upd, Target: func(i ssa.Instruction) bool { return i == site }, Barrier: retireWith(Load(actSeq))},
			"the replaced active ID is reported with its sequence number, read before it is overwritten")
	}
	c.Floor(R, "active-ID stores in updateConnectionID", countInstr(upd, StoresTo(actSeq, actCID)), 2)
	// (d) reordered / already retired frame: the ID is not stored, so it is retired immediately
	addCID := c.obj("", M, "addConnectionID")
	c.cut(R, "pair:frame not stored ⇒ retired immediately or duplicate of active", &Cut{Fn: add, Target: ReturnsMaybeNilErr(0),
		Barrier: OrIP(CallsTo(addCID), retireWith(Load(fseq))),
		Edge:    EdgeRel(Rel{Op: token.EQL, X: Load(fseq), Y: Load(actSeq)}, false)},
		"a NEW_CONNECTION_ID frame either gets stored, is the active ID again, or is answered with RETIRE_CONNECTION_ID for its sequence number")
	hr := c.fld("", M, "highestRetired")
	hp := c.fld("", M, "highestProbingID")
	// the reordering test mentions all three thresholds
	nt := 0
	for _, b := range add.Blocks {
		ifi, ok := b.Instrs[len(b.Instrs)-1].(*ssa.If)
		if !ok {
			continue
		}
		if EdgeImplies(ifi, 0, Rel{Op: token.LSS, X: Load(fseq), Y: MinMaxOf("max", Load(actSeq), Load(hp))}, false) {
			nt++
		}
		if EdgeImplies(ifi, 0, Rel{Op: token.LSS, X: Load(fseq), Y: Load(hr)}, false) {
			nt++
		}
	}
	c.Floor(R, "reordering tests (active/probing, highestRetired)", nt, 2)
	// highestRetired monotone
	hws := c.checkWriters(R, hr, c.set([3]string{"", M, "add"}, [3]string{"", M, "updateConnectionID"}), 2)
	for _, w := range hws[funcObj(add)] {
		site := w.Instr
		c.Check(Load(rpt)(w.Val), R, "shape:highestRetired=RetirePriorTo", c.P.InstrPos(site), "threshold as received")
		c.cut(R, "guard:highestRetired monotone", &Cut{Fn: add, Target: func(i ssa.Instruction) bool { return i == site },
			Edge: EdgeRel(Rel{Op: token.GTR, X: Load(rpt), Y: Load(hr)}, false)}, "Retire Prior To only moves up")
	}
	for _, w := range hws[funcObj(upd)] {
		c.Check(MinMaxOf("max", Load(hr), Load(actSeq))(w.Val), R, "shape:highestRetired=max(highestRetired,active)", c.P.InstrPos(w.Instr), "monotone")
	}
	// active retired when below Retire Prior To
	updObj := c.obj("", M, "updateConnectionID")
	c.cut(R, "pair:active below Retire Prior To ⇒ rotated", &Cut{Fn: add, Start: CallsTo(addCID), Target: ReturnsMaybeNilErr(0), Barrier: CallsTo(updObj),
		Edge: OrEdge(EdgeRel(Rel{Op: token.GEQ, X: Load(actSeq), Y: Load(rpt)}, false), EdgeRel(Rel{Op: token.NEQ, X: CallTo(addCID, -1), Y: IsNil()}, false))},
		"if the active ID is below Retire Prior To it is replaced (and thereby reported)")
}

func c16Tokens(c *Ctx) {
	const R = "C16.4"
	M := "connIDManager"
	addTok := c.fld("", M, "addStatelessResetToken")
	rmTok := c.fld("", M, "removeStatelessResetToken")
	pathProbing := c.fld("", M, "pathProbing")
	ast := c.fld("", M, "activeStatelessResetToken")
	tokF := c.fld("", "newConnID", "StatelessResetToken")
	isDelPP := func(i ssa.Instruction) bool {
		cl, ok := i.(*ssa.Call)
		return ok && builtinName(&cl.Call) == "delete" && Load(pathProbing)(cl.Call.Args[0])
	}
	isPutPP := func(i ssa.Instruction) bool {
		mu, ok := i.(*ssa.MapUpdate)
		return ok && Load(pathProbing)(mu.Map)
	}
	rmEntry := func(i ssa.Instruction) bool {
		return callsFieldFunc(rmTok)(i) && Load(tokF)(i.(ssa.CallInstruction).Common().Args[0])
	}
	addEntry := func(i ssa.Instruction) bool {
		return callsFieldFunc(addTok)(i) && Load(tokF)(i.(ssa.CallInstruction).Common().Args[0])
	}
	derefActive := func(v ssa.Value) bool {
		u, ok := stripConv(v).(*ssa.UnOp)
		return ok && u.Op == token.MUL && Load(ast)(u.X)
	}
	for _, name := range []string{"add", "RetireConnIDForPath"} {
		f := c.fn("", M, name)
		for _, in := range findInstrs(f, isDelPP) {
			site := in
			c.cut(R, "pair:probing ID removed ⇒ its reset token removed@"+name, &Cut{Fn: f, Target: func(i ssa.Instruction) bool { return i == site }, Barrier: rmEntry}, "tokens are registered exactly for IDs in use")
		}
	}
	g := c.fn("", M, "GetConnIDForPath")
	c.Floor(R, "path-probing inserts", countInstr(g, isPutPP), 1)
	c.cut(R, "pair:probing ID taken ⇒ its reset token added", &Cut{Fn: g, Start: isPutPP, Target: isReturn, Barrier: addEntry}, "a stateless reset for the probing ID is recognised")
	upd := c.fn("", M, "updateConnectionID")
	stores := findInstrs(upd, StoresTo(ast))
	c.Floor(R, "active token stores in updateConnectionID", len(stores), 1)
	for _, in := range stores {
		site := in
		c.cut(R, "pair:old active token removed before replacement", &Cut{Fn: upd, Target: func(i ssa.Instruction) bool { return i == site },
			Barrier: func(i ssa.Instruction) bool { return callsFieldFunc(rmTok)(i) && derefActive(i.(ssa.CallInstruction).Common().Args[0]) },
			Edge:    EdgeRel(Rel{Op: token.EQL, X: Load(ast), Y: IsNil()}, false)}, "the token of the replaced ID stops being recognised")
		c.cut(R, "pair:new active token added", &Cut{Fn: upd, Start: func(i ssa.Instruction) bool { return i == site }, Target: isReturn,
			Barrier: func(i ssa.Instruction) bool { return callsFieldFunc(addTok)(i) && derefActive(i.(ssa.CallInstruction).Common().Args[0]) }}, "the token of the new active ID is recognised")
	}
	sst := c.fn("", M, "SetStatelessResetToken")
	c.cut(R, "pair:handshake token stored ⇒ added", &Cut{Fn: sst, Start: StoresTo(ast), Target: isReturn, Barrier: callsFieldFunc(addTok)}, "the transport-parameter token is registered")
	c.checkWriters(R, ast, c.set([3]string{"", M, "updateConnectionID"}, [3]string{"", M, "SetStatelessResetToken"}), 2)
	cl := c.fn("", M, "Close")
	c.cut(R, "pair:Close removes the active token", &Cut{Fn: cl, Target: isReturn,
		Barrier: func(i ssa.Instruction) bool { return callsFieldFunc(rmTok)(i) && derefActive(i.(ssa.CallInstruction).Common().Args[0]) },
		Edge:    EdgeRel(Rel{Op: token.EQL, X: Load(ast), Y: IsNil()}, false)}, "no token outlives the connection")
	c.Floor(R, "probing-token removals in Close", countInstr(cl, rmEntry), 1)
	// removal functions are called nowhere else than the enumerated owners
	for _, fld := range []*types.Var{addTok, rmTok} {
		allowed := map[string]bool{"add": true, "RetireConnIDForPath": true, "GetConnIDForPath": true, "updateConnectionID": true, "SetStatelessResetToken": true, "Close": true}
		n := 0
		for _, f := range c.P.ScopeFuncs() {
			eachInstr(f, func(i ssa.Instruction) {
				if callsFieldFunc(fld)(i) {
					n++
					c.Check(allowed[rootFn(f).Name()], R, "site:"+fld.Name()+"@"+funcName(rootFn(f)), c.P.InstrPos(i), "token registration changes only where IDs change state")
				}
			})
		}
		c.Floor(R, "call sites of "+fld.Name(), n, 3)
	}
}

func c16Close(c *Ctx) {
	const R = "C16.5"
	G := "connIDGenerator"
	icd := c.fld("", G, "initialClientDestConnID")
	active := c.fld("", G, "activeSrcConnIDs")
	toRetire := c.fld("", G, "connIDsToRetire")
	// the whole collection is traversed: a range over the loaded map, a loop bounded by
	// len(<loaded slice>), or (pointer field) a nil test followed by a dereference
	reads := func(f *ssa.Function, fld *types.Var) bool {
		found := false
		eachInstr(f, func(i ssa.Instruction) {
			switch x := i.(type) {
			case *ssa.Range:
				if Load(fld)(x.X) {
					found = true
				}
			case *ssa.Call:
				if builtinName(&x.Call) == "len" && Load(fld)(x.Call.Args[0]) {
					// used as a loop bound (compared with the range index)
					if x.Referrers() != nil {
						for _, r := range *x.Referrers() {
							if b, ok := r.(*ssa.BinOp); ok && b.Op == token.LSS {
								found = true
							}
						}
					}
				}
			case *ssa.UnOp:
				if x.Op == token.MUL {
					if _, isPtr := fld.Type().Underlying().(*types.Pointer); isPtr && Load(fld)(x.X) {
						found = true
					}
				}
			}
		})
		return found
	}
	for _, spec := range []struct {
		name   string
		fields []*types.Var
	}{{"RemoveAll", []*types.Var{icd, active, toRetire}}, {"ReplaceWithClosed", []*types.Var{icd, active, toRetire}}, {"AddConnRunner", []*types.Var{icd, active}}} {
		f := c.fn("", G, spec.name)
		for _, fld := range spec.fields {
			c.Check(reads(f, fld), R, "cover:"+spec.name+" covers "+fld.Name(), c.P.Pos(f.Pos()), "every collection of routed IDs is handled when the connection leaves / joins a transport")
		}
	}
	// RemoveRetiredConnIDs removes what it drops from the list
	rr := c.fn("", G, "RemoveRetiredConnIDs")
	rmCID := c.obj("", "connRunners", "RemoveConnectionID")
	for _, in := range findInstrs(rr, StoresTo(toRetire)) {
		site := in
		c.cut(R, "pair:expired ID dropped from list ⇒ removed from routing", &Cut{Fn: rr, Target: func(i ssa.Instruction) bool { return i == site }, Barrier: CallsTo(rmCID)}, "an expired retired ID stops routing")
	}
	c.Floor(R, "list shrink sites in RemoveRetiredConnIDs", countInstr(rr, StoresTo(toRetire)), 1)

	h := c.fn("", "Conn", "handleCloseError")
	removeAll := c.obj("", G, "RemoveAll")
	replace := c.obj("", G, "ReplaceWithClosed")
	mclose := c.obj("", "connIDManager", "Close")
	c.cut(R, "pair:every close path releases or replaces the routed IDs", &Cut{Fn: h, Target: isReturn, Barrier: CallsTo(removeAll, replace)}, "no exit of handleCloseError leaves live routing entries")
	// not both: from a RemoveAll/ReplaceWithClosed call no other such call is reachable
	c.cut(R, "once:only one of RemoveAll/ReplaceWithClosed", &Cut{Fn: h, Start: CallsTo(removeAll, replace), Target: CallsTo(removeAll, replace)}, "routing entries are released exactly once")
	c.Check(deferredBefore(h, CallsTo(removeAll, replace), CallsTo(mclose)), R, "order:connIDManager.Close deferred before routing release", c.P.Pos(h.Pos()),
		"the ID manager is closed (tokens removed) on every exit, after the CONNECTION_CLOSE was sent")
	c.checkCallers(R, c.obj("", "Conn", "handleCloseError"), c.set([3]string{"", "Conn", "run"}), 1)
	// remote close → ReplaceWithClosed(nil); local close with packet
	send := c.obj("", "Conn", "sendConnectionClose")
	for _, in := range findInstrs(h, CallsTo(replace)) {
		a := in.(ssa.CallInstruction).Common().Args[1]
		ok := IsNil()(a) || CallTo(send, 0)(a)
		c.Check(ok, R, "shape:ReplaceWithClosed(nil | sendConnectionClose())", c.P.InstrPos(in), "the stand-in retransmits exactly the CONNECTION_CLOSE that was sent, or absorbs packets after a remote close")
	}
	// packetHandlerMap.ReplaceWithClosed: the delayed function deletes every id it inserted
	pr := c.fn("", "packetHandlerMap", "ReplaceWithClosed")
	handlers := c.fld("", "Transport", "handlers")
	nIns := countInstr(pr, func(i ssa.Instruction) bool { mu, ok := i.(*ssa.MapUpdate); return ok && Load(handlers)(mu.Map) })
	c.Floor(R, "handler inserts in ReplaceWithClosed", nIns, 1)
	nDel := 0
	var afterFuncArg *ssa.Function
	eachInstr(pr, func(i ssa.Instruction) {
		cl, ok := i.(*ssa.Call)
		if !ok {
			return
		}
		if o := calleeObj(&cl.Call); o != nil && o.Pkg() != nil && o.Pkg().Path() == "time" && o.Name() == "AfterFunc" {
			if mc, ok := cl.Call.Args[1].(*ssa.MakeClosure); ok {
				afterFuncArg, _ = mc.Fn.(*ssa.Function)
			}
		}
	})
	if afterFuncArg != nil {
		c.FuncsSet[funcName(afterFuncArg)] = true
		nDel = countInstr(afterFuncArg, func(i ssa.Instruction) bool {
			cl, ok := i.(*ssa.Call)
			return ok && builtinName(&cl.Call) == "delete" && Load(handlers)(cl.Call.Args[0])
		})
	}
	c.Check(afterFuncArg != nil && nDel >= 1, R, "pair:closed stand-ins are deleted after expiry", c.P.Pos(pr.Pos()), "time.AfterFunc deletes the handlers that were inserted")
	c.cut(R, "pair:insert ⇒ deletion scheduled", &Cut{Fn: pr, Target: isReturn, Barrier: func(i ssa.Instruction) bool {
		cl, ok := i.(*ssa.Call)
		if !ok {
			return false
		}
		o := calleeObj(&cl.Call)
		return o != nil && o.Pkg() != nil && o.Pkg().Path() == "time" && o.Name() == "AfterFunc"
	}}, "every exit has scheduled the deletion")
}

func c16Limit(c *Ctx) {
	const R = "C16.6"
	M := "connIDManager"
	add := c.fn("", M, "Add")
	queue := c.fld("", M, "queue")
	maxActive := c.konst("internal/protocol", "MaxActiveConnectionIDs")
	limErr := c.konst("internal/qerr", "ConnectionIDLimitError")
	pv := c.konst("internal/qerr", "ProtocolViolation")
	// the limit is the advertised one (accessor connectionIDLimit: stored limit, or MaxActiveConnectionIDs by default)
	limitFn := c.fn("", M, "connectionIDLimit")
	hasDefault := false
	eachInstr(limitFn, func(in ssa.Instruction) {
		if r, ok := in.(*ssa.Return); ok && ConstOf(maxActive)(retResults(r)[0]) {
			hasDefault = true
		}
	})
	c.Check(hasDefault, R, "shape:connectionIDLimit defaults to MaxActiveConnectionIDs", c.P.Pos(limitFn.Pos()), "without an advertised limit the default applies")
	isLimit := func(v ssa.Value) bool {
		return ConstOf(maxActive)(v) || CallTo(c.obj("", M, "connectionIDLimit"), -1)(v)
	}
	c.cut(R, "guard:too many stored IDs → CONNECTION_ID_LIMIT_ERROR", &Cut{Fn: add, Target: ReturnsMaybeNilErr(0),
		Edge: EdgeRel(Rel{Op: token.LSS, X: LenOf(Load(queue)), Y: isLimit}, false)}, "success requires len(queue) < the advertised active_connection_id_limit")
	c.Floor(R, "CONNECTION_ID_LIMIT_ERROR exits", countInstr(add, ReturnsErrCode(limErr)), 1)
	ad := c.fn("", M, "add")
	actCID := c.fld("", M, "activeConnectionID")
	lenM := c.obj("internal/protocol", "ConnectionID", "Len")
	c.cut(R, "guard:NEW_CONNECTION_ID with zero-length IDs → PROTOCOL_VIOLATION", &Cut{Fn: ad, Target: ReturnOtherThan(ReturnsErrCode(pv)),
		Edge: EdgeRel(Rel{Op: token.NEQ, X: CallTo(lenM, -1), Y: ConstI(0)}, false)}, "with the non-zero-length edge removed only PROTOCOL_VIOLATION remains")
	_ = actCID
	c.checkCallers(R, c.obj("", M, "add"), c.set([3]string{"", M, "Add"}), 1)
}
