package main

// CUT — must-pass-through as a graph cut over a function's SSA control-flow graph at
// instruction granularity.

import (
	"fmt"
	"go/token"
	"go/types"
	"strings"

	"golang.org/x/tools/go/ssa"
)

// Cut describes one query: starting at function entry (Start==nil) or right after
// every instruction matching Start, can an instruction matching Target be reached
// without passing a Barrier instruction or a barrier edge?
type Cut struct {
	Fn      *ssa.Function
	// StartBlocks: paths start at the beginning of these blocks (e.g. the successor of a
	// particular branch edge) instead of the function entry.
	StartBlocks []*ssa.BasicBlock
	Start       func(in ssa.Instruction) bool
	Target  func(in ssa.Instruction) bool
	Barrier func(in ssa.Instruction) bool
	Edge    func(ifi *ssa.If, succ int) bool // true: this edge satisfies (is removed)
	// DeferBarrier: a `defer` of a call matching Barrier counts as passing the barrier
	// (only sound for queries whose targets are function exits).
	DeferBarrier bool
}

type pt struct {
	b *ssa.BasicBlock
	i int
}

// Witness is a violating path.
type Witness struct {
	Target ssa.Instruction
	Blocks []int
}

func (w *Witness) String(p *Prog) string {
	if w == nil {
		return ""
	}
	var bs []string
	for _, b := range w.Blocks {
		bs = append(bs, fmt.Sprint(b))
	}
	return fmt.Sprintf("reaches %s at %s via blocks [%s]", instrString(w.Target), p.InstrPos(w.Target), strings.Join(bs, "→"))
}

func instrString(in ssa.Instruction) string {
	s := in.String()
	if len(s) > 90 {
		s = s[:90] + "…"
	}
	return s
}

// Run returns nil when every path is cut, or a witness path.
func (q *Cut) Run() *Witness {
	type node struct {
		p    pt
		prev int
	}
	var nodes []node
	helperMemo := map[*ssa.Function]bool{}
	seen := map[pt]bool{}
	push := func(p pt, prev int) {
		if seen[p] {
			return
		}
		seen[p] = true
		nodes = append(nodes, node{p, prev})
	}
	if len(q.Fn.Blocks) == 0 {
		return nil
	}
	if len(q.StartBlocks) > 0 {
		for _, b := range q.StartBlocks {
			push(pt{b, 0}, -1)
		}
	} else if q.Start == nil {
		push(pt{q.Fn.Blocks[0], 0}, -1)
	} else {
		for _, b := range q.Fn.Blocks {
			for i, in := range b.Instrs {
				if q.Start(in) {
					push(pt{b, i + 1}, -1)
				}
			}
		}
	}
	for h := 0; h < len(nodes); h++ {
		n := nodes[h]
		b, i := n.p.b, n.p.i
		stopped := false
		for ; i < len(b.Instrs); i++ {
			in := b.Instrs[i]
			if q.Barrier != nil {
				if q.Barrier(in) {
					stopped = true
					break
				}
				// a private helper of this function that passes the barrier on every path counts as the barrier
				// (extract-method must not hide a guard or an effect)
				if cl, ok := in.(*ssa.Call); ok && helperPassesBarrier(q, cl, helperMemo) {
					stopped = true
					break
				}
				if q.DeferBarrier {
					if d, ok := in.(*ssa.Defer); ok && deferMatches(d, q.Barrier) {
						stopped = true
						break
					}
				}
			}
			if q.Target != nil && q.Target(in) {
				// build witness
				w := &Witness{Target: in}
				for k := h; k >= 0; k = nodes[k].prev {
					w.Blocks = append([]int{nodes[k].p.b.Index}, w.Blocks...)
				}
				return w
			}
		}
		if stopped {
			continue
		}
		// successors
		if len(b.Instrs) == 0 {
			continue
		}
		last := b.Instrs[len(b.Instrs)-1]
		if ifi, ok := last.(*ssa.If); ok {
			for s, succ := range b.Succs {
				if q.Edge != nil && q.Edge(ifi, s) {
					continue
				}
				push(pt{succ, 0}, h)
			}
		} else {
			for _, succ := range b.Succs {
				push(pt{succ, 0}, h)
			}
		}
	}
	return nil
}

// deferMatches: does the deferred call (directly, or inside a deferred closure on all
// its paths — approximated by "contains") match the barrier predicate?
func deferMatches(d *ssa.Defer, barrier func(ssa.Instruction) bool) bool {
	if barrier(d) {
		return true
	}
	if mc, ok := d.Call.Value.(*ssa.MakeClosure); ok {
		if fn, ok := mc.Fn.(*ssa.Function); ok {
			// the closure must pass the barrier on every path to its return
			q := &Cut{Fn: fn, Target: isReturn, Barrier: barrier}
			return q.Run() == nil
		}
	}
	return false
}

func isReturn(in ssa.Instruction) bool {
	_, ok := in.(*ssa.Return)
	return ok
}

// ---- instruction predicates ----

type IP = func(in ssa.Instruction) bool

// CallsTo: the instruction is a call/defer/go of fn (static, or interface method).
func CallsTo(fns ...*types.Func) IP {
	return func(in ssa.Instruction) bool {
		ci, ok := in.(ssa.CallInstruction)
		if !ok {
			return false
		}
		o := calleeObj(ci.Common())
		if o == nil {
			return false
		}
		for _, f := range fns {
			if o == f.Origin() {
				return true
			}
		}
		return false
	}
}

// CallsToPlain: like CallsTo but only plain calls (not defer/go).
func CallsToPlain(fns ...*types.Func) IP {
	m := CallsTo(fns...)
	return func(in ssa.Instruction) bool {
		if _, ok := in.(*ssa.Call); !ok {
			return false
		}
		return m(in)
	}
}

// CallsToArgs: call of fn with argument patterns (receiver excluded).
func CallsToArgs(fn *types.Func, args ...VP) IP {
	m := CallsTo(fn)
	return func(in ssa.Instruction) bool {
		if !m(in) {
			return false
		}
		return matchArgs(in.(ssa.CallInstruction).Common(), args)
	}
}

// StoresTo: a store through the address of the given field (direct field store).
func StoresTo(fields ...*types.Var) IP {
	return func(in ssa.Instruction) bool {
		f := storedField(in)
		if f == nil {
			return false
		}
		for _, g := range fields {
			if f == g.Origin() {
				return true
			}
		}
		return false
	}
}

// storedField returns the struct field written by the instruction: Store to a
// FieldAddr, Store to an element of an array/slice-typed field (IndexAddr over the field
// address or the loaded slice), MapUpdate on a map loaded from a field.
func storedField(in ssa.Instruction) *types.Var {
	switch x := in.(type) {
	case *ssa.Store:
		return fieldOfAddress(x.Addr)
	case *ssa.MapUpdate:
		if f, _ := loadedField(x.Map); f != nil {
			return f
		}
	}
	return nil
}

func fieldOfAddress(a ssa.Value) *types.Var {
	switch x := a.(type) {
	case *ssa.FieldAddr:
		return fieldOfAddr(x)
	case *ssa.IndexAddr:
		// element of array field (address) or of slice loaded from field
		if fa, ok := x.X.(*ssa.FieldAddr); ok {
			return fieldOfAddr(fa)
		}
		if f, _ := loadedField(x.X); f != nil {
			return f
		}
	}
	return nil
}

func OrIP(ps ...IP) IP {
	return func(in ssa.Instruction) bool {
		for _, p := range ps {
			if p != nil && p(in) {
				return true
			}
		}
		return false
	}
}

// EdgeRel builds an edge predicate: the edge establishes r (or its negation).
func EdgeRel(r Rel, neg bool) func(*ssa.If, int) bool {
	return func(ifi *ssa.If, s int) bool { return EdgeImplies(ifi, s, r, neg) }
}

func OrEdge(es ...func(*ssa.If, int) bool) func(*ssa.If, int) bool {
	return func(ifi *ssa.If, s int) bool {
		for _, e := range es {
			if e != nil && e(ifi, s) {
				return true
			}
		}
		return false
	}
}

// ---- return classification ----

// ReturnsMaybeNilErr: a return whose error result (index k; -1 = last) is not
// provably non-nil.
func ReturnsMaybeNilErr(k int) IP {
	return func(in ssa.Instruction) bool {
		r, ok := in.(*ssa.Return)
		if !ok || len(r.Results) == 0 {
			return false
		}
		idx := k
		if idx < 0 {
			idx = len(r.Results) - 1
		}
		if idx >= len(r.Results) {
			return false
		}
		return !provablyNonNil(retResults(r)[idx], r.Block(), map[ssa.Value]bool{})
	}
}

// provablyNonNil: v cannot be nil when control is in block b.
func provablyNonNil(v ssa.Value, b *ssa.BasicBlock, seen map[ssa.Value]bool) bool {
	if seen[v] {
		return true
	}
	seen[v] = true
	switch x := v.(type) {
	case *ssa.Const:
		return x.Value != nil
	case *ssa.MakeInterface, *ssa.Alloc, *ssa.MakeClosure, *ssa.MakeMap, *ssa.MakeSlice, *ssa.MakeChan, *ssa.FieldAddr, *ssa.IndexAddr, *ssa.Function:
		return true
	case *ssa.ChangeInterface:
		return provablyNonNil(x.X, b, seen)
	case *ssa.ChangeType:
		return provablyNonNil(x.X, b, seen)
	case *ssa.Phi:
		for i, e := range x.Edges {
			pb := x.Block().Preds[i]
			if !provablyNonNil(e, pb, seen) {
				return false
			}
		}
		return true
	case *ssa.Call:
		// known constructors of non-nil errors
		if o := calleeObj(&x.Call); o != nil && o.Pkg() != nil {
			full := o.Pkg().Path() + "." + o.Name()
			switch full {
			case "errors.New", "fmt.Errorf":
				return true
			}
		}
	}
	// dominating nil test on the same value
	return dominatedByNonNilEdge(v, b)
}

// dominatedByNonNilEdge: some dominator of b ends in `if v != nil` (or == nil) and b is
// only reachable through the non-nil successor.
func dominatedByNonNilEdge(v ssa.Value, b *ssa.BasicBlock) bool {
	for d := b; d != nil; d = d.Idom() {
		id := d.Idom()
		if id == nil {
			break
		}
		ifi, ok := id.Instrs[len(id.Instrs)-1].(*ssa.If)
		if !ok {
			continue
		}
		for s := 0; s < 2; s++ {
			if id.Succs[s] == d && len(d.Preds) == 1 {
				if EdgeImplies(ifi, s, Rel{Op: token.NEQ, X: func(x ssa.Value) bool { return x == v || sameValue(x, v) }, Y: IsNil()}, false) {
					return true
				}
			}
		}
	}
	return false
}

// ---- convenience wrappers ----

// MustPassBefore checks in fn: every path from entry to a Target passes a barrier
// (instruction or edge). Returns witness or nil.
func MustPassBefore(fn *ssa.Function, target IP, barrier IP, edge func(*ssa.If, int) bool) *Witness {
	return (&Cut{Fn: fn, Target: target, Barrier: barrier, Edge: edge}).Run()
}

// MustFollow checks in fn: after every instruction matching start, every path to a
// function exit passes barrier (deferred barrier calls registered after start count; a
// defer registered before start is handled by the caller through hasDeferOf).
func MustFollow(fn *ssa.Function, start IP, barrier IP, edge func(*ssa.If, int) bool) *Witness {
	return (&Cut{Fn: fn, Start: start, Target: isReturn, Barrier: barrier, Edge: edge, DeferBarrier: true}).Run()
}

// hasDeferOnAllPaths: every path from entry to any instruction matching `at` passes a
// defer of a call matching barrier.
func deferredBefore(fn *ssa.Function, at IP, barrier IP) bool {
	q := &Cut{Fn: fn, Target: at, Barrier: func(in ssa.Instruction) bool {
		d, ok := in.(*ssa.Defer)
		return ok && deferMatches(d, barrier)
	}}
	return q.Run() == nil
}

func countInstr(fn *ssa.Function, p IP) int {
	n := 0
	eachInstr(fn, func(in ssa.Instruction) {
		if p(in) {
			n++
		}
	})
	return n
}

func findInstrs(fn *ssa.Function, p IP) []ssa.Instruction {
	var out []ssa.Instruction
	eachInstr(fn, func(in ssa.Instruction) {
		if p(in) {
			out = append(out, in)
		}
	})
	return out
}

// edgeSuccs returns the successor blocks of all branch edges establishing r.
func edgeSuccs(fn *ssa.Function, r Rel) []*ssa.BasicBlock {
	var out []*ssa.BasicBlock
	for _, b := range fn.Blocks {
		if len(b.Instrs) == 0 {
			continue
		}
		ifi, ok := b.Instrs[len(b.Instrs)-1].(*ssa.If)
		if !ok {
			continue
		}
		for s := 0; s < 2; s++ {
			if EdgeImplies(ifi, s, r, false) {
				out = append(out, b.Succs[s])
			}
		}
	}
	return out
}

// helperPassesBarrier: cl calls an unexported function of the same package whose every call site lies in q.Fn's
// root function, and every path through that helper passes the barrier.
func helperPassesBarrier(q *Cut, cl *ssa.Call, memo map[*ssa.Function]bool) bool {
	g := cl.Call.StaticCallee()
	if g == nil || g.Blocks == nil || gProg == nil || g == q.Fn {
		return false
	}
	if v, ok := memo[g]; ok {
		return v
	}
	memo[g] = false
	obj := funcObj(g)
	root := rootFn(q.Fn)
	if obj == nil || obj.Exported() || g.Parent() != nil || funcPkgPath(g) != funcPkgPath(root) {
		return false
	}
	for _, cs := range gProg.CallSites(obj) {
		if cs.Kind == "value" || cs.Kind == "invoke" || rootFn(cs.Fn) != root {
			return false
		}
	}
	has := false
	eachInstr(g, func(in ssa.Instruction) {
		if q.Barrier(in) {
			has = true
		}
	})
	if !has {
		return false
	}
	sub := &Cut{Fn: g, Target: isReturn, Barrier: q.Barrier}
	ok := sub.Run() == nil
	memo[g] = ok
	return ok
}
