package main

// CUT — must-pass-through as a graph cut over a function's SSA control-flow graph at
// instruction granularity.

import (
	"os"
	"fmt"
	"go/constant"
	"go/token"
	"go/types"
	"sort"
	"strings"

	"golang.org/x/tools/go/ssa"
)

// Cut describes one query: starting at function entry (Start==nil) or right after
// every instruction matching Start, can an instruction matching Target be reached
// without passing a Barrier instruction or a barrier edge?
type Cut struct {
	Fn      *ssa.Function
	// StartBlocks: paths start at the beginning of these blocks (e.g. the successor of a
	// particular branch edge) instead of the function entry.
	StartBlocks []*ssa.BasicBlock
	Start       func(in ssa.Instruction) bool
	Target  func(in ssa.Instruction) bool
	Barrier func(in ssa.Instruction) bool
	Edge    func(ifi *ssa.If, succ int) bool // true: this edge satisfies (is removed)
	// DeferBarrier: a `defer` of a call matching Barrier counts as passing the barrier
	// (only sound for queries whose targets are function exits).
	DeferBarrier bool
	// NoInline: analyse Fn alone; by default private helpers called only from Fn's root are followed as if inlined.
	NoInline bool
	// TrackFlags: the search remembers, per path, the value of boolean φ-nodes whose incoming value on the taken edge
	// is a constant (the `found := false; for … { found = true }; if !found` idiom) and prunes branches on such a flag
	// that the path cannot take. Flags with a non-constant incoming value are unknown (both branches are followed).
	TrackFlags bool
}

type pt struct {
	b *ssa.BasicBlock
	i int
}

// Witness is a violating path.
type Witness struct {
	Target ssa.Instruction
	Blocks []int
}

func (w *Witness) String(p *Prog) string {
	if w == nil {
		return ""
	}
	var bs []string
	for _, b := range w.Blocks {
		bs = append(bs, fmt.Sprint(b))
	}
	return fmt.Sprintf("reaches %s at %s via blocks [%s]", instrString(w.Target), p.InstrPos(w.Target), strings.Join(bs, "→"))
}

func instrString(in ssa.Instruction) string {
	s := in.String()
	if len(s) > 90 {
		s = s[:90] + "…"
	}
	return s
}

// frame is one inlined call: where to continue in the caller, and (once the helper returned) what it returned.
type frame struct {
	call ssa.Instruction // the call instruction in the caller
	up   *frame          // caller's frame (nil: the analysed function itself)
}

// retInfo records, per inlined call on the current path, the values its taken Return returned. It keeps the latest
// Return per call instruction only, and values are interned (see internRet) so that states can be compared.
type retInfo struct {
	call    ssa.Instruction
	ret     *ssa.Return
	results []ssa.Value
	up      *retInfo
}

func (r *retInfo) lookup(call ssa.Value) []ssa.Value {
	for x := r; x != nil; x = x.up {
		if v, ok := x.call.(ssa.Value); ok && v == call {
			return x.results
		}
	}
	return nil
}

// inlineable: cl is a plain call of an unexported function of the same package whose every call site lies in
// (the region of) the analysed function's root. Such private helpers are analysed as if inlined, so that
// extract-method refactorings do not hide guards, effects or exits.
func inlineable(root *ssa.Function, cl *ssa.Call, memo map[*ssa.Function]bool) *ssa.Function {
	g := cl.Call.StaticCallee()
	if g == nil || g.Blocks == nil || gProg == nil || g == root {
		return nil
	}
	if v, ok := memo[g]; ok {
		if v {
			return g
		}
		return nil
	}
	memo[g] = false
	obj := funcObj(g)
	if obj == nil || obj.Exported() || g.Parent() != nil || funcPkgPath(g) != funcPkgPath(root) {
		return nil
	}
	sites := gProg.CallSites(obj)
	if len(sites) == 0 {
		return nil
	}
	for _, cs := range sites {
		if cs.Kind != "call" && cs.Kind != "" {
			return nil
		}
		if _, isCall := cs.Instr.(*ssa.Call); !isCall {
			return nil
		}
		r := rootFn(cs.Fn)
		if r == root {
			continue
		}
		// one level of nesting: the caller is itself such a helper of root
		ro := funcObj(r)
		if ro == nil || ro.Exported() || funcPkgPath(r) != funcPkgPath(root) {
			return nil
		}
		for _, cs2 := range gProg.CallSites(ro) {
			if rootFn(cs2.Fn) != root {
				return nil
			}
		}
	}
	memo[g] = true
	return g
}

// Run returns nil when every path is cut, or a witness path.
func (q *Cut) Run() *Witness {
	type state struct {
		p   pt
		fr  *frame
		ret *retInfo
		env string // TrackFlags: canonical encoding of the known boolean φ values on this path
	}
	type key struct {
		p   pt
		fr  *frame
		ret *retInfo
		env string
	}
	// interned return contexts: (call, return, up-without-that-call) → canonical object
	type rkey struct {
		call ssa.Instruction
		ret  *ssa.Return
		up   *retInfo
	}
	interned := map[rkey]*retInfo{}
	var without func(r *retInfo, call ssa.Instruction) *retInfo
	var internRet func(call ssa.Instruction, rt *ssa.Return, up *retInfo) *retInfo
	without = func(r *retInfo, call ssa.Instruction) *retInfo {
		if r == nil {
			return nil
		}
		if r.call == call {
			return without(r.up, call)
		}
		return internRet(r.call, r.ret, without(r.up, call))
	}
	internRet = func(call ssa.Instruction, rt *ssa.Return, up *retInfo) *retInfo {
		k := rkey{call, rt, up}
		if x, ok := interned[k]; ok {
			return x
		}
		x := &retInfo{call: call, ret: rt, results: retResults0(rt), up: up}
		interned[k] = x
		return x
	}
	type node struct {
		st   state
		prev int
	}
	var nodes []node
	inlMemo := map[*ssa.Function]bool{}
	frames := map[[2]any]*frame{} // (call, up) → frame: canonical frames so that `seen` works
	getFrame := func(call ssa.Instruction, up *frame) *frame {
		k := [2]any{call, up}
		if f, ok := frames[k]; ok {
			return f
		}
		f := &frame{call: call, up: up}
		frames[k] = f
		return f
	}
	seen := map[key]bool{}
	push := func(st state, prev int) {
		k := key{st.p, st.fr, st.ret, st.env}
		if seen[k] {
			return
		}
		seen[k] = true
		nodes = append(nodes, node{st, prev})
	}
	if len(q.Fn.Blocks) == 0 {
		return nil
	}
	root := rootFn(q.Fn)
	if len(q.StartBlocks) > 0 {
		// a start block may lie in a private helper (extract-method): then the path continues in the function at
		// every call site of the helper
		placed := map[*ssa.BasicBlock]bool{}
		var addBlockStarts func(fn *ssa.Function, fr *frame, depth int)
		addBlockStarts = func(fn *ssa.Function, fr *frame, depth int) {
			for _, b := range q.StartBlocks {
				if b.Parent() == fn {
					placed[b] = true
					push(state{p: pt{b, 0}, fr: fr, env: q.domEnv(b)}, -1)
				}
			}
			if q.NoInline || depth >= 2 {
				return
			}
			for _, b := range fn.Blocks {
				for _, in := range b.Instrs {
					if cl, ok := in.(*ssa.Call); ok {
						if g := inlineable(root, cl, inlMemo); g != nil {
							addBlockStarts(g, getFrame(in, fr), depth+1)
						}
					}
				}
			}
		}
		addBlockStarts(q.Fn, nil, 0)
		for _, b := range q.StartBlocks {
			if !placed[b] {
				push(state{p: pt{b, 0}}, -1)
			}
		}
	} else if q.Start == nil {
		push(state{p: pt{q.Fn.Blocks[0], 0}}, -1)
	} else {
		// start points may lie in the function itself or in a private helper it calls (then the path starts inside
		// the helper and returns into the function at every call site of the helper)
		var addStarts func(fn *ssa.Function, fr *frame, depth int)
		addStarts = func(fn *ssa.Function, fr *frame, depth int) {
			for _, b := range fn.Blocks {
				for i, in := range b.Instrs {
					if q.Start(in) {
						if os.Getenv("UQ_DEBUG_ENV") != "" {
							fmt.Fprintf(os.Stderr, "DEBUG start %s block %d env=%q\n", fn.Name(), b.Index, q.domEnv(b))
						}
						push(state{p: pt{b, i + 1}, fr: fr, env: q.domEnv(b)}, -1)
					}
					if cl, ok := in.(*ssa.Call); ok && !q.NoInline && depth < 2 {
						if g := inlineable(root, cl, inlMemo); g != nil {
							addStarts(g, getFrame(in, fr), depth+1)
						}
					}
				}
			}
		}
		addStarts(q.Fn, nil, 0)
	}
	depthOf := func(fr *frame) int {
		n := 0
		for x := fr; x != nil; x = x.up {
			n++
		}
		return n
	}
	for h := 0; h < len(nodes); h++ {
		n := nodes[h]
		b, i := n.st.p.b, n.st.p.i
		fr, ret := n.st.fr, n.st.ret
		stopped := false
		for ; i < len(b.Instrs); i++ {
			in := b.Instrs[i]
			// the return of an inlined helper is not an exit of the analysed function: continue in the caller
			if r, isRet := in.(*ssa.Return); isRet && fr != nil {
				// only the most recent helper return is remembered: results are tested right after the call
				ri := internRet(fr.call, r, nil)
				cb := fr.call.Block()
				for k, x := range cb.Instrs {
					if x == fr.call {
						push(state{p: pt{cb, k + 1}, fr: fr.up, ret: ri, env: n.st.env}, h)
					}
				}
				stopped = true
				break
			}
			cutRetCtx = ret
			if q.Barrier != nil {
				if q.Barrier(in) {
					cutRetCtx = nil
					stopped = true
					break
				}
				if q.DeferBarrier && fr == nil {
					if d, ok := in.(*ssa.Defer); ok && deferMatches(d, q.Barrier) {
						stopped = true
						break
					}
				}
			}
			hit := q.Target != nil && q.Target(in)
			cutRetCtx = nil
			if hit {
				// build witness
				w := &Witness{Target: in}
				for k := h; k >= 0; k = nodes[k].prev {
					w.Blocks = append([]int{nodes[k].st.p.b.Index}, w.Blocks...)
				}
				return w
			}
			// descend into a private helper
			if cl, ok := in.(*ssa.Call); ok && !q.NoInline && depthOf(fr) < 2 {
				if g := inlineable(root, cl, inlMemo); g != nil {
					push(state{p: pt{g.Blocks[0], 0}, fr: getFrame(in, fr), ret: ret, env: n.st.env}, h)
					stopped = true
					break
				}
			}
		}
		if stopped {
			continue
		}
		// successors
		if len(b.Instrs) == 0 {
			continue
		}
		last := b.Instrs[len(b.Instrs)-1]
		if ifi, ok := last.(*ssa.If); ok {
			for s, succ := range b.Succs {
				if q.Edge != nil && q.Edge(ifi, s) {
					continue
				}
				// correlation with what an inlined helper returned on this path: `if err != nil` right after the call
				if infeasibleAfterReturn(ifi, s, ret, n.st.env) {
					continue
				}
				if q.TrackFlags && flagInfeasible(ifi, s, n.st.env) {
					continue
				}
				push(state{p: pt{succ, 0}, fr: fr, ret: ret, env: q.flagEnv(n.st.env, b, succ)}, h)
			}
		} else {
			for _, succ := range b.Succs {
				push(state{p: pt{succ, 0}, fr: fr, ret: ret, env: q.flagEnv(n.st.env, b, succ)}, h)
			}
		}
	}
	return nil
}

// flagEnv computes the flag environment after taking the edge from → to: boolean φ-nodes of `to` get the constant
// (or the already known flag) that flows in along this edge; everything else is kept.
func (q *Cut) flagEnv(env string, from, to *ssa.BasicBlock) string {
	if !q.TrackFlags {
		return ""
	}
	idx := -1
	for i, p := range to.Preds {
		if p == from {
			if idx >= 0 {
				idx = -2 // two edges from the same predecessor: ambiguous
				break
			}
			idx = i
		}
	}
	m := parseFlagEnv(env)
	upd := map[string]int{}
	for _, in := range to.Instrs {
		ph, ok := in.(*ssa.Phi)
		if !ok {
			break
		}
		if b, isB := ph.Type().Underlying().(*types.Basic); !isB || b.Kind() != types.Bool {
			continue
		}
		name := flagName(ph)
		v := 0
		if idx >= 0 && idx < len(ph.Edges) {
			switch e := ph.Edges[idx].(type) {
			case *ssa.Const:
				if e.Value != nil {
					if constant.BoolVal(e.Value) {
						v = 1
					} else {
						v = -1
					}
				}
			case *ssa.Phi:
				v = m[flagName(e)]
			}
		}
		upd[name] = v
	}
	for k, v := range upd {
		if v == 0 {
			delete(m, k)
		} else {
			m[k] = v
		}
	}
	// the branch condition just decided: a later branch on the very same SSA value takes the same edge
	if len(from.Instrs) > 0 {
		if ifi, ok := from.Instrs[len(from.Instrs)-1].(*ssa.If); ok && len(from.Succs) == 2 && from.Succs[0] != from.Succs[1] {
			cond, pol := ifi.Cond, from.Succs[0] == to
			for {
				u, ok := cond.(*ssa.UnOp)
				if !ok || u.Op != token.NOT {
					break
				}
				cond, pol = u.X, !pol
			}
			if ph, isPhi := cond.(*ssa.Phi); isPhi {
				// a branch on a boolean φ decides it until the φ's block is entered again (handled above, on entry)
				if ph.Block() != to {
					if pol {
						m[flagName(ph)] = 1
					} else {
						m[flagName(ph)] = -1
					}
				}
			} else if repeatedCond(cond) {
				if pol {
					m[condName(cond)] = 1
				} else {
					m[condName(cond)] = -1
				}
			}
		}
	}
	// values defined in the block being entered are recomputed: forget what was known about their previous instance
	prefix := fmt.Sprintf("v.%s.%d.", to.Parent().Name(), to.Index)
	for k := range m {
		if strings.HasPrefix(k, prefix) {
			delete(m, k)
		}
	}
	return formatFlagEnv(m)
}

// domEnv: what the branches that dominate block b (single-predecessor edges on its dominator chain) say about
// repeated conditions — the knowledge a path starting inside b already has.
func (q *Cut) domEnv(b *ssa.BasicBlock) string {
	if !q.TrackFlags {
		return ""
	}
	m := map[string]int{}
	for d := b; d != nil && d.Idom() != nil; d = d.Idom() {
		id := d.Idom()
		if len(d.Preds) != 1 || d.Preds[0] != id || len(id.Instrs) == 0 {
			continue
		}
		ifi, ok := id.Instrs[len(id.Instrs)-1].(*ssa.If)
		if !ok || len(id.Succs) != 2 || id.Succs[0] == id.Succs[1] {
			continue
		}
		cond, pol := ifi.Cond, id.Succs[0] == d
		for {
			u, ok := cond.(*ssa.UnOp)
			if !ok || u.Op != token.NOT {
				break
			}
			cond, pol = u.X, !pol
		}
		key := condName(cond)
		if ph, isPhi := cond.(*ssa.Phi); isPhi {
			// a boolean φ that a dominating branch tested: its value is fixed until the φ's block is entered again
			// (the search drops a flag when it re-enters the defining block)
			key = flagName(ph)
		} else if !repeatedCond(cond) {
			continue
		}
		if _, seen := m[key]; seen {
			continue
		}
		if pol {
			m[key] = 1
		} else {
			m[key] = -1
		}
	}
	return formatFlagEnv(m)
}

// condName names a branch condition value by its defining function, block and register.
func condName(v ssa.Value) string {
	in, ok := v.(ssa.Instruction)
	if !ok || in.Block() == nil {
		return "v.?.0." + v.Name()
	}
	return fmt.Sprintf("v.%s.%d.%s", in.Parent().Name(), in.Block().Index, v.Name())
}

var repeatedCondMemo = map[ssa.Value]bool{}

// repeatedCond: the value is the (possibly negated) condition of at least two branches.
func repeatedCond(v ssa.Value) bool {
	if r, ok := repeatedCondMemo[v]; ok {
		return r
	}
	n := 0
	var count func(x ssa.Value, d int)
	count = func(x ssa.Value, d int) {
		rs := x.Referrers()
		if rs == nil || d > 2 {
			return
		}
		for _, r := range *rs {
			switch y := r.(type) {
			case *ssa.If:
				n++
			case *ssa.UnOp:
				if y.Op == token.NOT {
					count(y, d+1)
				}
			}
		}
	}
	count(v, 0)
	repeatedCondMemo[v] = n >= 2
	return n >= 2
}

func flagName(ph *ssa.Phi) string {
	return fmt.Sprintf("%s.%d.%s", ph.Parent().Name(), ph.Block().Index, ph.Name())
}

func parseFlagEnv(env string) map[string]int {
	m := map[string]int{}
	for _, kv := range strings.Split(env, ";") {
		if kv == "" {
			continue
		}
		if strings.HasSuffix(kv, "=T") {
			m[kv[:len(kv)-2]] = 1
		} else if strings.HasSuffix(kv, "=F") {
			m[kv[:len(kv)-2]] = -1
		}
	}
	return m
}

func formatFlagEnv(m map[string]int) string {
	keys := make([]string, 0, len(m))
	for k := range m {
		keys = append(keys, k)
	}
	sort.Strings(keys)
	var sb strings.Builder
	for _, k := range keys {
		sb.WriteString(k)
		if m[k] > 0 {
			sb.WriteString("=T;")
		} else {
			sb.WriteString("=F;")
		}
	}
	return sb.String()
}

// flagInfeasible: the branch tests a tracked flag (or its negation) whose value on this path excludes the edge.
func flagInfeasible(ifi *ssa.If, succ int, env string) bool {
	if env == "" {
		return false
	}
	cond := ifi.Cond
	neg := false
	for {
		if u, ok := cond.(*ssa.UnOp); ok && u.Op == token.NOT {
			neg = !neg
			cond = u.X
			continue
		}
		break
	}
	var v int
	if ph, ok := cond.(*ssa.Phi); ok {
		v = parseFlagEnv(env)[flagName(ph)]
	} else {
		v = parseFlagEnv(env)[condName(cond)]
	}
	if v == 0 {
		return false
	}
	val := v > 0
	if neg {
		val = !val
	}
	// succ 0 is taken when the condition is true
	return (succ == 0) != val
}

// infeasibleAfterReturn: the branch tests a result of an inlined helper against nil / a boolean, and the Return taken
// on this path returned a value for which this edge cannot be taken.
func infeasibleAfterReturn(ifi *ssa.If, succ int, ret *retInfo, env string) bool {
	if ret == nil {
		return false
	}
	cond := ifi.Cond
	pol := succ == 0
	for {
		u, ok := cond.(*ssa.UnOp)
		if !ok || u.Op != token.NOT {
			break
		}
		cond = u.X
		pol = !pol
	}
	resultOf := func(v ssa.Value) (ssa.Value, bool) {
		switch x := v.(type) {
		case *ssa.Call:
			if rs := ret.lookup(x); len(rs) == 1 {
				return rs[0], true
			}
		case *ssa.Extract:
			if cl, ok := x.Tuple.(*ssa.Call); ok {
				if rs := ret.lookup(cl); rs != nil && x.Index < len(rs) {
					return rs[x.Index], true
				}
			}
		}
		return nil, false
	}
	if b, ok := cond.(*ssa.BinOp); ok && (b.Op == token.NEQ || b.Op == token.EQL) {
		var rv ssa.Value
		var have bool
		if k, isK := b.Y.(*ssa.Const); isK && k.Value == nil {
			rv, have = resultOf(b.X)
		}
		if !have {
			return false
		}
		isNil := false
		if k, isK := rv.(*ssa.Const); isK && k.Value == nil {
			isNil = true
		} else if !provablyNonNil(rv, nil, map[ssa.Value]bool{}) {
			return false // unknown
		}
		// edge says: (rv != nil) == pol   for NEQ;  (rv == nil) == pol for EQL
		truth := !isNil
		if b.Op == token.EQL {
			truth = isNil
		}
		return truth != pol
	}
	// boolean result tested directly
	if rv, have := resultOf(cond); have {
		if k, isK := rv.(*ssa.Const); isK && k.Value != nil {
			if isConstBool(rv, true) {
				return !pol
			}
			if isConstBool(rv, false) {
				return pol
			}
		}
		// the helper returned a flag whose value on this path is known (TrackFlags)
		if ph, isPhi := rv.(*ssa.Phi); isPhi && env != "" {
			if v := parseFlagEnv(env)[flagName(ph)]; v != 0 {
				return (v > 0) != pol
			}
		}
	}
	return false
}

// deferMatches: does the deferred call (directly, or inside a deferred closure on all
// its paths — approximated by "contains") match the barrier predicate?
func deferMatches(d *ssa.Defer, barrier func(ssa.Instruction) bool) bool {
	if barrier(d) {
		return true
	}
	if mc, ok := d.Call.Value.(*ssa.MakeClosure); ok {
		if fn, ok := mc.Fn.(*ssa.Function); ok {
			// the closure must pass the barrier on every path to its return
			q := &Cut{Fn: fn, Target: isReturn, Barrier: barrier}
			return q.Run() == nil
		}
	}
	return false
}

func isReturn(in ssa.Instruction) bool {
	_, ok := in.(*ssa.Return)
	return ok
}

// ---- instruction predicates ----

type IP = func(in ssa.Instruction) bool

// CallsTo: the instruction is a call/defer/go of fn (static, or interface method).
func CallsTo(fns ...*types.Func) IP {
	return func(in ssa.Instruction) bool {
		ci, ok := in.(ssa.CallInstruction)
		if !ok {
			return false
		}
		o := calleeObj(ci.Common())
		if o == nil {
			return false
		}
		for _, f := range fns {
			if o == f.Origin() {
				return true
			}
		}
		return false
	}
}

// CallsToPlain: like CallsTo but only plain calls (not defer/go).
func CallsToPlain(fns ...*types.Func) IP {
	m := CallsTo(fns...)
	return func(in ssa.Instruction) bool {
		if _, ok := in.(*ssa.Call); !ok {
			return false
		}
		return m(in)
	}
}

// CallsToArgs: call of fn with argument patterns (receiver excluded).
func CallsToArgs(fn *types.Func, args ...VP) IP {
	m := CallsTo(fn)
	return func(in ssa.Instruction) bool {
		if !m(in) {
			return false
		}
		return matchArgs(in.(ssa.CallInstruction).Common(), args)
	}
}

// StoresTo: a store through the address of the given field (direct field store).
func StoresTo(fields ...*types.Var) IP {
	return func(in ssa.Instruction) bool {
		f := storedField(in)
		if f == nil {
			return false
		}
		for _, g := range fields {
			if f == g.Origin() {
				return true
			}
		}
		return false
	}
}

// storedField returns the struct field written by the instruction: Store to a
// FieldAddr, Store to an element of an array/slice-typed field (IndexAddr over the field
// address or the loaded slice), MapUpdate on a map loaded from a field.
func storedField(in ssa.Instruction) *types.Var {
	switch x := in.(type) {
	case *ssa.Store:
		return fieldOfAddress(x.Addr)
	case *ssa.MapUpdate:
		if f, _ := loadedField(x.Map); f != nil {
			return f
		}
	}
	return nil
}

func fieldOfAddress(a ssa.Value) *types.Var {
	switch x := a.(type) {
	case *ssa.FieldAddr:
		return fieldOfAddr(x)
	case *ssa.IndexAddr:
		// element of array field (address) or of slice loaded from field
		if fa, ok := x.X.(*ssa.FieldAddr); ok {
			return fieldOfAddr(fa)
		}
		if f, _ := loadedField(x.X); f != nil {
			return f
		}
	}
	return nil
}

func OrIP(ps ...IP) IP {
	return func(in ssa.Instruction) bool {
		for _, p := range ps {
			if p != nil && p(in) {
				return true
			}
		}
		return false
	}
}

// EdgeRel builds an edge predicate: the edge establishes r (or its negation).
func EdgeRel(r Rel, neg bool) func(*ssa.If, int) bool {
	return func(ifi *ssa.If, s int) bool { return EdgeImplies(ifi, s, r, neg) }
}

func OrEdge(es ...func(*ssa.If, int) bool) func(*ssa.If, int) bool {
	return func(ifi *ssa.If, s int) bool {
		for _, e := range es {
			if e != nil && e(ifi, s) {
				return true
			}
		}
		return false
	}
}

// ---- return classification ----

// ReturnsMaybeNilErr: a return whose error result (index k; -1 = last) is not
// provably non-nil.
func ReturnsMaybeNilErr(k int) IP {
	return func(in ssa.Instruction) bool {
		r, ok := in.(*ssa.Return)
		if !ok || len(r.Results) == 0 {
			return false
		}
		idx := k
		if idx < 0 {
			idx = len(r.Results) - 1
		}
		if idx >= len(r.Results) {
			return false
		}
		return !provablyNonNil(retResults(r)[idx], r.Block(), map[ssa.Value]bool{})
	}
}

// provablyNonNil: v cannot be nil when control is in block b.
func provablyNonNil(v ssa.Value, b *ssa.BasicBlock, seen map[ssa.Value]bool) bool {
	if seen[v] {
		return true
	}
	seen[v] = true
	switch x := v.(type) {
	case *ssa.Const:
		return x.Value != nil
	case *ssa.MakeInterface, *ssa.Alloc, *ssa.MakeClosure, *ssa.MakeMap, *ssa.MakeSlice, *ssa.MakeChan, *ssa.FieldAddr, *ssa.IndexAddr, *ssa.Function:
		return true
	case *ssa.ChangeInterface:
		return provablyNonNil(x.X, b, seen)
	case *ssa.ChangeType:
		return provablyNonNil(x.X, b, seen)
	case *ssa.Phi:
		for i, e := range x.Edges {
			pb := x.Block().Preds[i]
			if !provablyNonNil(e, pb, seen) {
				return false
			}
		}
		return true
	case *ssa.Call:
		// known constructors of non-nil errors
		if o := calleeObj(&x.Call); o != nil && o.Pkg() != nil {
			full := o.Pkg().Path() + "." + o.Name()
			switch full {
			case "errors.New", "fmt.Errorf":
				return true
			}
		}
	}
	// dominating nil test on the same value
	return dominatedByNonNilEdge(v, b)
}

// dominatedByNonNilEdge: some dominator of b ends in `if v != nil` (or == nil) and b is
// only reachable through the non-nil successor.
func dominatedByNonNilEdge(v ssa.Value, b *ssa.BasicBlock) bool {
	for d := b; d != nil; d = d.Idom() {
		id := d.Idom()
		if id == nil {
			break
		}
		ifi, ok := id.Instrs[len(id.Instrs)-1].(*ssa.If)
		if !ok {
			continue
		}
		for s := 0; s < 2; s++ {
			if id.Succs[s] == d && len(d.Preds) == 1 {
				if EdgeImplies(ifi, s, Rel{Op: token.NEQ, X: func(x ssa.Value) bool { return x == v || sameValue(x, v) }, Y: IsNil()}, false) {
					return true
				}
			}
		}
	}
	return false
}

// ---- convenience wrappers ----

// MustPassBefore checks in fn: every path from entry to a Target passes a barrier
// (instruction or edge). Returns witness or nil.
func MustPassBefore(fn *ssa.Function, target IP, barrier IP, edge func(*ssa.If, int) bool) *Witness {
	return (&Cut{Fn: fn, Target: target, Barrier: barrier, Edge: edge}).Run()
}

// MustFollow checks in fn: after every instruction matching start, every path to a
// function exit passes barrier (deferred barrier calls registered after start count; a
// defer registered before start is handled by the caller through hasDeferOf).
func MustFollow(fn *ssa.Function, start IP, barrier IP, edge func(*ssa.If, int) bool) *Witness {
	return (&Cut{Fn: fn, Start: start, Target: isReturn, Barrier: barrier, Edge: edge, DeferBarrier: true}).Run()
}

// hasDeferOnAllPaths: every path from entry to any instruction matching `at` passes a
// defer of a call matching barrier.
func deferredBefore(fn *ssa.Function, at IP, barrier IP) bool {
	q := &Cut{Fn: fn, Target: at, Barrier: func(in ssa.Instruction) bool {
		d, ok := in.(*ssa.Defer)
		return ok && deferMatches(d, barrier)
	}}
	return q.Run() == nil
}

// countInstr / findInstrs look at fn and at the private helpers that are called only from it (see inlineable):
// a construct that an extract-method refactoring moved into such a helper still counts.
func countInstr(fn *ssa.Function, p IP) int {
	return len(findInstrs(fn, p))
}

func findInstrs(fn *ssa.Function, p IP) []ssa.Instruction {
	var out []ssa.Instruction
	for _, g := range helperRegion(fn) {
		eachInstr(g, func(in ssa.Instruction) {
			if p(in) {
				out = append(out, in)
			}
		})
	}
	return out
}

// findInstrsLocal: fn only (for rules that iterate over all functions themselves).
func findInstrsLocal(fn *ssa.Function, p IP) []ssa.Instruction {
	var out []ssa.Instruction
	eachInstr(fn, func(in ssa.Instruction) {
		if p(in) {
			out = append(out, in)
		}
	})
	return out
}

var regionCache = map[*ssa.Function][]*ssa.Function{}

// helperRegion: fn plus the helpers Cut would inline into it (two levels).
func helperRegion(fn *ssa.Function) []*ssa.Function {
	if r, ok := regionCache[fn]; ok {
		return r
	}
	out := []*ssa.Function{fn}
	root := rootFn(fn)
	memo := map[*ssa.Function]bool{}
	seen := map[*ssa.Function]bool{fn: true}
	for i := 0; i < len(out) && i < 8; i++ {
		eachInstr(out[i], func(in ssa.Instruction) {
			if cl, ok := in.(*ssa.Call); ok {
				if g := inlineable(root, cl, memo); g != nil && !seen[g] {
					seen[g] = true
					out = append(out, g)
				}
			}
		})
	}
	regionCache[fn] = out
	return out
}

// edgeSuccs returns the successor blocks of all branch edges establishing r.
func edgeSuccs(fn *ssa.Function, r Rel) []*ssa.BasicBlock {
	var out []*ssa.BasicBlock
	for _, b := range fn.Blocks {
		if len(b.Instrs) == 0 {
			continue
		}
		ifi, ok := b.Instrs[len(b.Instrs)-1].(*ssa.If)
		if !ok {
			continue
		}
		for s := 0; s < 2; s++ {
			if EdgeImplies(ifi, s, r, false) {
				out = append(out, b.Succs[s])
			}
		}
	}
	return out
}

