package main

import (
	"flag"
	"fmt"
	"os"
	"path/filepath"
	"runtime/debug"
	"sort"
	"strconv"
	"time"
)

// propFn runs all rule instances of a property and returns the explanation text.
type propFn func(c *Ctx)

var registry = map[string]propFn{}

var evidenceDirOverride string

func register(id string, f propFn) { registry[id] = f }

func main() {
	prop := flag.String("property", "", "property id (C01..C20)")
	tier := flag.String("tier", "", "quick|thorough (default: $VERIF_TIER or quick)")
	repo := flag.String("repo", "/repo", "repository under analysis")
	verif := flag.String("verif", "", "verification directory (default: parent of the binary's dir)")
	explain := flag.String("explain", "", "print a violations file in readable form")
	goarch := flag.String("goarch", "", "GOARCH to analyse for")
	goos := flag.String("goos", "", "GOOS to analyse for")
	list := flag.Bool("list", false, "list registered properties")
	explore := flag.String("explore", "", "diagnostic listing (not a check)")
	evdir := flag.String("evidence-dir", "", "write evidence here instead of <verif>/evidence (used by the mutation self-tests)")
	flag.Parse()

	if *list {
		var ids []string
		for id := range registry {
			ids = append(ids, id)
		}
		sort.Strings(ids)
		for _, id := range ids {
			fmt.Println(id)
		}
		return
	}
	if *explore != "" {
		p, err := LoadProgram(LoadOpts{RepoDir: *repo, GOARCH: *goarch, GOOS: *goos})
		if err != nil {
			fmt.Println(err)
			os.Exit(2)
		}
		f, ok := explorations[*explore]
		if !ok {
			fmt.Println("unknown exploration")
			os.Exit(2)
		}
		f(p)
		return
	}
	if *explain != "" {
		b, err := os.ReadFile(*explain)
		if err != nil {
			fmt.Println(err)
			os.Exit(2)
		}
		os.Stdout.Write(b)
		return
	}
	if *tier == "" {
		*tier = os.Getenv("VERIF_TIER")
	}
	if *tier != "thorough" {
		*tier = "quick"
	}
	if *verif == "" {
		exe, _ := os.Executable()
		*verif = filepath.Dir(filepath.Dir(exe))
		if _, err := os.Stat(filepath.Join(*verif, "properties.jsonl")); err != nil {
			*verif = "/verif"
		}
	}
	evidenceDirOverride = *evdir
	gVerifDir = *verif
	seed, _ := strconv.Atoi(os.Getenv("VERIF_SEED"))
	if *prop == "all" {
		// self-test convenience: one load, every registered property
		start := time.Now()
		p, err := LoadProgram(LoadOpts{RepoDir: *repo, GOARCH: *goarch, GOOS: *goos})
		if err != nil {
			fmt.Printf("LOAD FAILURE: %v\n", err)
			os.Exit(1)
		}
		var ids []string
		for id := range registry {
			ids = append(ids, id)
		}
		sort.Strings(ids)
		rc := 0
		for _, id := range ids {
			c := NewCtx(p, id, *tier)
			func() {
				defer func() {
					if r := recover(); r != nil {
						c.Bad(id+".panic", "checker", "-", fmt.Sprintf("checker panic: %v\n%s", r, debug.Stack()))
					}
				}()
				registry[id](c)
				errDiscipline(c)
				exhDiscipline(c)
			}()
			if r := c.Finish(*verif, start, seed, buildExplanation(c)); r != 0 {
				rc = 1
			}
		}
		os.Exit(rc)
	}
	f, ok := registry[*prop]
	if !ok {
		fmt.Printf("unknown property %q\n", *prop)
		os.Exit(2)
	}
	start := time.Now()
	p, err := LoadProgram(LoadOpts{RepoDir: *repo, GOARCH: *goarch, GOOS: *goos})
	if err != nil {
		// a tree that does not load/type-check is reported as a violation of the
		// check's precondition: exit 1 with a VIOLATION line, as nothing can be decided
		fmt.Printf("LOAD FAILURE: %v\n", err)
		c := NewCtx(&Prog{RepoDir: *repo}, *prop, *tier)
		c.Bad(*prop+".load", "program", "-", "the repository does not load/type-check: "+err.Error())
		os.Exit(c.Finish(*verif, start, seed, "load failure"))
	}
	c := NewCtx(p, *prop, *tier)
	func() {
		defer func() {
			if r := recover(); r != nil {
				c.Bad(*prop+".panic", "checker", "-", fmt.Sprintf("checker panic: %v\n%s", r, debug.Stack()))
			}
		}()
		f(c)
		errDiscipline(c)
		exhDiscipline(c)
	}()
	expl := buildExplanation(c)
	os.Exit(c.Finish(*verif, start, seed, expl))
}

func buildExplanation(c *Ctx) string {
	s := "Static analysis (go/types + go/ssa over /repo's current source; nothing executed). Decides structural necessary conditions of the property, not the behaviour itself. Clauses decided: "
	for i, cl := range c.Clauses {
		if i > 0 {
			s += "; "
		}
		s += cl
	}
	s += ". NOT decided: "
	for i, cl := range c.NotCov {
		if i > 0 {
			s += "; "
		}
		s += cl
	}
	return s + "."
}
