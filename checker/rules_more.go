package main

// Rules added after seeded changes showed gaps (C09.6, C09.7, C10.5–C10.7, C19.5, C19.6).

import (
	"go/ast"
	"fmt"
	"go/constant"
	"go/token"
	"go/types"
	"sort"
	"strings"

	"golang.org/x/tools/go/ssa"
)

// instrReaches: can control flow from instruction a (exclusive) reach instruction b?
func instrReaches(a, b ssa.Instruction) bool {
	if a.Block() == b.Block() {
		ia, ib := -1, -1
		for i, in := range a.Block().Instrs {
			if in == a {
				ia = i
			}
			if in == b {
				ib = i
			}
		}
		if ia < ib {
			return true
		}
	}
	seen := map[*ssa.BasicBlock]bool{}
	work := append([]*ssa.BasicBlock(nil), a.Block().Succs...)
	for len(work) > 0 {
		x := work[len(work)-1]
		work = work[:len(work)-1]
		if seen[x] {
			continue
		}
		seen[x] = true
		if x == b.Block() {
			return true
		}
		work = append(work, x.Succs...)
	}
	return false
}

// ---- C09.6: bytes taken out of the CRYPTO write buffer advance the write offset by the same count ----

func c09OffsetAccounting(c *Ctx) {
	const R = "C09.6"
	wb := c.fld("", "baseCryptoStream", "writeBuf")
	wo := c.fld("", "baseCryptoStream", "writeOffset")
	end := c.fld("", "initialCryptoStream", "end")
	n := 0
	for _, f := range c.P.ScopeFuncs() {
		if funcPkgPath(f) != modPath {
			continue
		}
		for _, in := range findInstrsLocal(f, StoresTo(wb)) {
			st := in.(*ssa.Store)
			// appends grow the buffer
			if cl, ok := st.Val.(*ssa.Call); ok && builtinName(&cl.Call) == "append" {
				continue
			}
			n++
			name := funcName(f)
			c.FuncsSet[name] = true
			// amount removed
			var amount VP
			switch v := st.Val.(type) {
			case *ssa.Slice:
				// writeBuf = writeBuf[k:]
				if v.Low == nil || v.High != nil || !loadsPath(v.X, wb) {
					c.Bad(R, "consume:"+name, c.P.InstrPos(in), "write buffer replaced by something other than a suffix of itself")
					continue
				}
				low := v.Low
				amount = func(x ssa.Value) bool { return sameValue(x, low) }
			case *ssa.Const:
				// writeBuf = nil: everything is handed out
				amount = LenOf(func(x ssa.Value) bool { return loadsPath(x, wb) })
			default:
				c.Bad(R, "consume:"+name, c.P.InstrPos(in), fmt.Sprintf("unrecognised replacement of the write buffer (%T)", st.Val))
				continue
			}
			adv := func(x ssa.Instruction) bool {
				s2, ok := x.(*ssa.Store)
				if !ok || fieldOfAddress(s2.Addr) != wo {
					return false
				}
				return BinV(token.ADD, func(y ssa.Value) bool { return loadsPath(y, wo) }, amount)(s2.Val)
			}
			// scrambled mode keeps writeOffset as an index into the untouched buffer: the buffer is cut at `end`
			// only once writeOffset == end
			if dominatedByEdge(st.Block(), Rel{Op: token.EQL, X: func(y ssa.Value) bool { return loadsPath(y, wo) }, Y: func(y ssa.Value) bool { return loadsPath(y, end) }}, false) {
				okLow := false
				if sl, ok := st.Val.(*ssa.Slice); ok && sl.Low != nil && loadsPath(sl.Low, end) {
					okLow = true
				}
				c.Check(okLow, R, "consume:"+name+" (scrambled: cut at end once writeOffset == end)", c.P.InstrPos(in), "the scrambled prefix is dropped exactly when the offset has reached its end")
				continue
			}
			w := (&Cut{Fn: f, Start: func(x ssa.Instruction) bool { return x == in }, Target: isReturn, Barrier: adv}).Run()
			c.Check(w == nil, R, "consume:"+name+" advances writeOffset by the bytes removed", c.P.InstrPos(in),
				"data written later is framed at writeOffset: if removed bytes do not advance it, the next CRYPTO data (e.g. the second ClientHello after a HelloRetryRequest) is sent at a wrong stream offset")
		}
	}
	c.Floor(R, "consuming stores to the CRYPTO write buffer", n, 3)
}

// loadsPath: v is a load of field f (through any base).
func loadsPath(v ssa.Value, f *types.Var) bool {
	fl, _ := loadedField(stripConv(v))
	return fl != nil && fl == f
}

// ---- C09.7: scrambler cuts stay inside the ClientHello ----

func c09CutBounds(c *Ctx) {
	const R = "C09.7"
	w := c.fn("", "initialCryptoStream", "Write")
	cutEnd := c.fld("", "clientHelloCut", "end")
	end := c.fld("", "initialCryptoStream", "end")
	n := 0
	for _, in := range findInstrs(w, StoresTo(cutEnd)) {
		st := in.(*ssa.Store)
		n++
		idx := "?"
		if fa, ok := st.Addr.(*ssa.FieldAddr); ok {
			if ia, ok := fa.X.(*ssa.IndexAddr); ok {
				if k, ok := ia.Index.(*ssa.Const); ok {
					idx = k.Value.ExactString()
				}
			}
		}
		if idx == "0" {
			// the SNI cut ends at sniPos+sniLen, which findSNIAndECH returns from inside the parsed buffer
			c.OK(R, "bound:cuts[0].end (SNI) comes from the parser", c.P.InstrPos(in), "exception: positions returned by findSNIAndECH lie inside the ClientHello it parsed")
			continue
		}
		ok := boundedBy(st.Val, func(v ssa.Value) bool { return loadsPath(v, end) }, st.Block(), 0)
		c.Check(ok, R, "bound:cuts["+idx+"].end <= end", c.P.InstrPos(in),
			"a cut that ends beyond the ClientHello makes PopCryptoFrame jump writeOffset past end: it then returns nil forever while HasData stays true (truncated ClientHello)")
	}
	c.Floor(R, "stores to clientHelloCut.end in Write", n, 2)
}

// ---- C10.5: per-index lists repeat their last entry ----

func c10LastEntryRepeats(c *Ctx) {
	const R = "C10.5"
	type inst struct {
		fn    *ssa.Function
		field *types.Var
		what  string
	}
	insts := []inst{
		{c.fn("", "InitialPacketSpec", "planFor"), c.fld("", "InitialPacketSpec", "InitialPackets"), "InitialPackets"},
		{c.fn("internal/ackhandler", "uSentPacketHandler", "PeekPacketNumber"), c.fld("internal/ackhandler", "uSentPacketHandler", "initialPacketNumberLengths"), "initialPacketNumberLengths"},
	}
	for _, it := range insts {
		n := 0
		eachInstr(it.fn, func(in ssa.Instruction) {
			ia, ok := in.(*ssa.IndexAddr)
			if !ok || !loadsPath(ia.X, it.field) {
				return
			}
			n++
			// leaves of the index value
			lenM1 := BinV(token.SUB, LenOf(func(v ssa.Value) bool { return loadsPath(v, it.field) }), ConstI(1))
			hasLast, bad := false, ""
			var walk func(v ssa.Value, d int)
			seen := map[ssa.Value]bool{}
			walk = func(v ssa.Value, d int) {
				if seen[v] || d > 8 {
					return
				}
				seen[v] = true
				if p, ok := v.(*ssa.Phi); ok {
					for _, e := range p.Edges {
						walk(e, d+1)
					}
					return
				}
				// the clamp may live in a helper: follow its return values
				if cl, ok := stripConv(v).(*ssa.Call); ok {
					if sc := cl.Call.StaticCallee(); sc != nil && sc.Blocks != nil && InRepo(funcPkgPath(sc)) && d < 6 {
						eachInstr(sc, func(x ssa.Instruction) {
							if r, ok := x.(*ssa.Return); ok && len(retResults(r)) >= 1 {
								walk(retResults(r)[0], d+1)
							}
						})
						return
					}
				}
				switch {
				case lenM1(v):
					hasLast = true
				case ConstI(0)(v):
				default:
					x := stripConv(v)
					if _, isP := x.(*ssa.Parameter); isP {
						return
					}
					if b, isB := x.(*ssa.BinOp); isB && b.Op == token.SUB {
						return // pn - base
					}
					bad = fmt.Sprintf("%T %s", x, x.String())
				}
			}
			walk(ia.Index, 0)
			c.Check(hasLast && bad == "", R, "clamp:"+it.what+" index beyond the list uses the last entry", c.P.InstrPos(in),
				"documented contract: \"if the index exceeds the list, the last entry repeats\"; index values are the raw index, 0 or len-1"+map[bool]string{true: "", false: " — found " + bad}[bad == ""])
		})
		c.Floor(R, "indexed reads of "+it.what, n, 1)
	}
}

// ---- C10.6: the datagram index sizing a packet is the one its payload was built for ----

func c10IndexBeforeMarshal(c *Ctx) {
	const R = "C10.6"
	f := c.fn("", "uPacketPacker", "appendInitialPacket")
	marshal := c.obj("", "uPacketPacker", "MarshalInitialPacketPayload")
	app := c.obj("", "uPacketPacker", "appendInitialPacketPayload")
	idxF := c.fld("", "uPacketPacker", "initialDatagramIdx")
	// MarshalInitialPacketPayload (transitively) advances the index
	adv := len(c.P.Writers(idxF)) > 0
	c.Check(adv, R, "writers of initialDatagramIdx exist", "-", "the per-datagram builders advance the index while building")
	ms := findInstrs(f, CallsTo(marshal))
	c.Floor(R, "MarshalInitialPacketPayload calls in appendInitialPacket", len(ms), 1)
	for _, in := range findInstrs(f, CallsTo(app)) {
		args := in.(ssa.CallInstruction).Common().Args
		// receiver, buffer, header, pl, uPayload, idx, …
		var idx ssa.Value
		for _, a := range args {
			if loadsPath(a, idxF) {
				idx = a
			}
		}
		if idx == nil {
			c.Bad(R, "order:idx captured before the payload is built", c.P.InstrPos(in), "the idx argument is not a read of initialDatagramIdx")
			continue
		}
		ld := stripConv(idx).(ssa.Instruction)
		ok := true
		for _, m := range ms {
			if instrReaches(m, ld) {
				ok = false
			}
		}
		c.Check(ok, R, "order:idx captured before the payload is built", c.P.InstrPos(in),
			"building the payload advances initialDatagramIdx for per-datagram builders: read afterwards, datagram i is sized by the plan of datagram i+1")
	}
}

// ---- C10.7: the spec packer's CRYPTO bookkeeping reads the Initial stream only ----

func c10InitialStreamOnly(c *Ctx) {
	const R = "C10.7"
	wo := c.fld("", "baseCryptoStream", "writeOffset")
	is := c.fld("", "packetPacker", "initialStream")
	n := 0
	for _, f := range c.P.ScopeFuncs() {
		if funcPkgPath(f) != modPath {
			continue
		}
		rf := rootFn(f)
		if rf.Signature.Recv() == nil {
			continue
		}
		if nm := namedOf(rf.Signature.Recv().Type()); nm == nil || nm.Obj().Name() != "uPacketPacker" {
			continue
		}
		eachInstr(f, func(in ssa.Instruction) {
			u, ok := in.(*ssa.UnOp)
			if !ok || u.Op != token.MUL {
				return
			}
			fa, ok := u.X.(*ssa.FieldAddr)
			if !ok || fieldOfAddr(fa) != wo {
				return
			}
			n++
			// base chain must go through p.initialStream
			through := false
			var v ssa.Value = fa.X
			for d := 0; d < 6 && v != nil; d++ {
				if fl, base := loadedField(v); fl != nil {
					if fl == is {
						through = true
					}
					v = base
					continue
				}
				if fa2, ok := v.(*ssa.FieldAddr); ok {
					if fieldOfAddr(fa2) == is {
						through = true
					}
					v = fa2.X
					continue
				}
				break
			}
			c.Check(through, R, "origin:"+funcName(f)+" reads writeOffset of the Initial stream", c.P.InstrPos(in),
				"the CRYPTO budget and first-flight test of the spec packer concern the Initial crypto stream; another stream's offset mis-sizes the offset varint and shifts every later split")
		})
	}
	c.Floor(R, "writeOffset reads in uPacketPacker", n, 2)
}

// ---- C19.5: a trailer section, valid or not, ends the message ----

func c19TrailerOnce(c *Ctx) {
	const R = "C19.5"
	f := c.fn(h3, "Stream", "Read")
	pt := c.fld(h3, "Stream", "parsedTrailer")
	ptFn := c.fld(h3, "Stream", "parseTrailer")
	call := callsFieldFunc(ptFn)
	c.Floor(R, "parseTrailer calls in Stream.Read", countInstr(f, call), 1)
	setTrue := func(i ssa.Instruction) bool {
		st, ok := i.(*ssa.Store)
		return ok && fieldOfAddress(st.Addr) == pt && isConstBool(st.Val, true)
	}
	before := (&Cut{Fn: f, Target: call, Barrier: setTrue}).Run()
	after := (&Cut{Fn: f, Start: call, Target: isReturn, Barrier: setTrue}).Run()
	c.Check(before == nil || after == nil, R, "pair:parsedTrailer set whenever a trailer section was consumed", c.P.Pos(f.Pos()),
		"whether or not parsing the trailer section fails, later HEADERS / DATA frames on the stream must be rejected")
	// both frame kinds are rejected after trailers
	for _, k := range []string{"dataFrame", "headersFrame"} {
		_ = k
	}
	nGuard := 0
	for _, b := range f.Blocks {
		ifi, ok := b.Instrs[len(b.Instrs)-1].(*ssa.If)
		if !ok {
			continue
		}
		if EdgeImplies(ifi, 0, BoolTrue(func(v ssa.Value) bool { return loadsPath(v, pt) }), false) {
			// true edge returns an error
			ret := false
			for _, in := range b.Succs[0].Instrs {
				if r, ok := in.(*ssa.Return); ok {
					if rs := retResults(r); len(rs) == 2 && !IsNil()(rs[1]) {
						ret = true
					}
				}
			}
			// the error return may be a block or two further (qlog call first)
			if !ret {
				ret = reachesOnlyErrorReturn(b.Succs[0])
			}
			if ret {
				nGuard++
			}
		}
	}
	c.Check(nGuard >= 2, R, "guard:DATA and HEADERS after trailers are errors", c.P.Pos(f.Pos()), fmt.Sprintf("found %d parsedTrailer guards returning an error (one per frame kind)", nGuard))
}

func reachesOnlyErrorReturn(b *ssa.BasicBlock) bool {
	seen := map[*ssa.BasicBlock]bool{}
	var walk func(x *ssa.BasicBlock) bool
	walk = func(x *ssa.BasicBlock) bool {
		if seen[x] {
			return true
		}
		seen[x] = true
		for _, in := range x.Instrs {
			if r, ok := in.(*ssa.Return); ok {
				rs := retResults(r)
				return len(rs) == 2 && !IsNil()(rs[1])
			}
		}
		if len(x.Succs) == 0 {
			return false
		}
		for _, s := range x.Succs {
			if !walk(s) {
				return false
			}
		}
		return true
	}
	return walk(b)
}

// ---- C19.6: writers emit every pseudo-header before any regular field ----

func c19PseudoFirst(c *Ctx) {
	const R = "C19.6"
	total := 0
	for _, spec := range [][3]string{{h3, "requestWriter", "encodeHeaders"}, {h3, "responseWriter", "doWrite"}, {h3, "responseWriter", "writeHeader"}} {
		f, err := c.P.Func1(spec[0], spec[1], spec[2])
		if err != nil {
			continue
		}
		for _, g := range withAnon(f) {
			var pseudo, regular []ssa.Instruction
			eachInstr(g, func(in ssa.Instruction) {
				cl, ok := in.(*ssa.Call)
				if !ok {
					return
				}
				name, isEmit := emittedFieldName(c, cl)
				if !isEmit {
					return
				}
				if strings.HasPrefix(name, ":") {
					pseudo = append(pseudo, in)
				} else {
					regular = append(regular, in)
				}
			})
			if len(pseudo) == 0 {
				continue
			}
			total += len(pseudo)
			c.FuncsSet[funcName(g)] = true
			bad := ""
			for _, r := range regular {
				for _, p := range pseudo {
					if instrReaches(r, p) && bad == "" {
						bad = fmt.Sprintf(" — regular field emitted at %s can be followed by the pseudo-header emitted at %s", c.P.InstrPos(r), c.P.InstrPos(p))
					}
				}
			}
			c.Check(bad == "", R, fmt.Sprintf("order:%s no pseudo-header after a regular field", funcName(g)), c.P.Pos(g.Pos()),
				fmt.Sprintf("RFC 9114 §4.3: pseudo-header fields precede all regular fields (the parser of this package rejects the writer's own output otherwise); %d pseudo and %d regular emissions compared%s", len(pseudo), len(regular), bad))
		}
	}
	c.Floor(R, "pseudo-header emissions in the writers", total, 5)
}

// emittedFieldName: the call emits a header field with a (constant or dynamic) name:
// f(name, value) on a func(name, value string) parameter, or enc.WriteField(qpack.HeaderField{Name: …}).
func emittedFieldName(c *Ctx, cl *ssa.Call) (string, bool) {
	if !cl.Call.IsInvoke() {
		if p, ok := cl.Call.Value.(*ssa.Parameter); ok {
			if sig, ok := p.Type().Underlying().(*types.Signature); ok && sig.Params().Len() == 2 && sig.Results().Len() == 0 {
				if str, ok := constString(cl.Call.Args[0]); ok {
					return str, true
				}
				return "<dynamic>", true
			}
		}
		if o := calleeObj(&cl.Call); o != nil && o.Name() == "WriteField" && o.Pkg() != nil && strings.HasSuffix(o.Pkg().Path(), "/qpack") {
			// argument is a HeaderField struct value: find the Name stored into its cell
			if len(cl.Call.Args) >= 2 {
				if u, ok := cl.Call.Args[1].(*ssa.UnOp); ok {
					if al, ok := u.X.(*ssa.Alloc); ok && al.Referrers() != nil {
						for _, r := range *al.Referrers() {
							fa, ok := r.(*ssa.FieldAddr)
							if !ok || fieldOfAddr(fa).Name() != "Name" || fa.Referrers() == nil {
								continue
							}
							for _, r2 := range *fa.Referrers() {
								if st, ok := r2.(*ssa.Store); ok {
									if str, ok := constString(st.Val); ok {
										return str, true
									}
									return "<dynamic>", true
								}
							}
						}
					}
				}
			}
			return "<dynamic>", true
		}
	}
	return "", false
}


// ---- C09.8: every CRYPTO frame of a planned datagram is registered for retransmission ----

func c09PlannedRegistered(c *Ctx) {
	const R = "C09.8"
	f := c.fn("", "uPacketPacker", "plannedInitialPayload")
	var asserts []*ssa.TypeAssert
	eachInstr(f, func(in ssa.Instruction) {
		if ta, ok := in.(*ssa.TypeAssert); ok && ta.CommaOk {
			if n := namedOf(ta.AssertedType); n != nil && n.Obj().Name() == "CRYPTO" {
				asserts = append(asserts, ta)
			}
		}
	})
	c.Floor(R, "CRYPTO type assertions in plannedInitialPayload", len(asserts), 1)
	handlerOf := c.obj("", "retransmissionQueue", "AckHandler")
	c.Floor(R, "AckHandler(EncryptionInitial) lookups", countInstr(f, CallsTo(handlerOf)), 1)
	for _, ta := range asserts {
		// the block entered when the assertion succeeded
		var okBlock *ssa.BasicBlock
		for _, b := range f.Blocks {
			ifi, isIf := b.Instrs[len(b.Instrs)-1].(*ssa.If)
			if !isIf {
				continue
			}
			if ex, isEx := ifi.Cond.(*ssa.Extract); isEx && ex.Tuple == ssa.Value(ta) && ex.Index == 1 {
				okBlock = b.Succs[0]
			}
		}
		if okBlock == nil {
			c.Bad(R, "pair:every CRYPTO frame of a planned datagram is registered", c.P.InstrPos(ta), "comma-ok branch not found")
			continue
		}
		isAppend := func(in ssa.Instruction) bool {
			cl, ok := in.(*ssa.Call)
			if !ok || builtinName(&cl.Call) != "append" {
				return false
			}
			// elements are ackhandler.Frame values
			if sl, ok := cl.Type().Underlying().(*types.Slice); ok {
				if n := namedOf(sl.Elem()); n != nil && n.Obj().Name() == "Frame" {
					return true
				}
			}
			return false
		}
		w := (&Cut{Fn: f, StartBlocks: []*ssa.BasicBlock{okBlock}, Target: func(in ssa.Instruction) bool {
			return in == ssa.Instruction(ta) || isReturn(in)
		}, Barrier: isAppend}).Run()
		c.Check(w == nil, R, "pair:every CRYPTO frame of a planned datagram is registered", c.P.InstrPos(ta),
			"a CRYPTO frame that goes on the wire in a planned datagram but is not handed to the Initial retransmission handler is never resent when that datagram is lost (or after a Retry): the handshake then stalls")
	}
}

// ---- C11.5–C11.7 ----

const utlsPkg = "github.com/refraction-networking/utls"

// c11SetReadOnly: the suppress set is not modified while the parameter list is filtered (idempotence, duplicates).
func c11SetReadOnly(c *Ctx) {
	const R = "C11.5"
	f := c.fn("", "", "SuppressQUICTransportParameters")
	idM := c.obj(utlsPkg, "TransportParameter", "ID")
	ids := findInstrs(f, CallsTo(idM))
	c.Floor(R, "ID() calls in SuppressQUICTransportParameters", len(ids), 1)
	bad := ""
	n := 0
	eachInstr(f, func(in ssa.Instruction) {
		isMod := false
		switch x := in.(type) {
		case *ssa.MapUpdate:
			isMod = true
		case *ssa.Call:
			if b := builtinName(&x.Call); b == "delete" || b == "clear" {
				isMod = true
			}
		}
		if !isMod {
			return
		}
		n++
		for _, idc := range ids {
			if instrReaches(idc, in) {
				bad = c.P.InstrPos(in)
			}
		}
	})
	c.Floor(R, "modifications of the suppress set (construction)", n, 1)
	c.Check(bad == "", R, "frozen:the suppress set is not modified while filtering", c.P.Pos(f.Pos()),
		"every occurrence of a listed identifier is removed and a second application removes nothing more (idempotent): a set that shrinks while filtering lets duplicates through"+map[bool]string{true: "", false: " — modified at " + bad}[bad == ""])
}

// c11Shuffle: the permutation is drawn by math/rand's Shuffle over the whole list with a swap of exactly the two
// indexed elements, or by a Fisher–Yates loop drawing j from [0, i].
func c11Shuffle(c *Ctx) {
	const R = "C11.6"
	f := c.fn("", "", "ShuffleQUICTransportParameters")
	tpF := c.fld(utlsPkg, "QUICTransportParametersExtension", "TransportParameters")
	ok, how := false, "no recognised uniform shuffle"
	eachInstr(f, func(in ssa.Instruction) {
		cl, isCall := in.(*ssa.Call)
		if !isCall {
			return
		}
		o := calleeObj(&cl.Call)
		if o == nil || o.Pkg() == nil {
			return
		}
		pk := o.Pkg().Path()
		if (pk == "math/rand" || pk == "math/rand/v2") && o.Name() == "Shuffle" {
			args := cl.Call.Args
			if sig := o.Type().(*types.Signature); sig.Recv() != nil {
				args = args[1:]
			}
			if len(args) == 2 && LenOf(Load(tpF))(args[0]) {
				// the swap closure swaps elements i and j of the same slice
				for _, g := range funcsOfValue(args[1]) {
					stores := 0
					eachInstr(g, func(x ssa.Instruction) {
						if st, isSt := x.(*ssa.Store); isSt {
							if ia, isIA := st.Addr.(*ssa.IndexAddr); isIA && loadsPath(ia.X, tpF) {
								if _, isParam := stripConv(ia.Index).(*ssa.Parameter); isParam {
									stores++
								}
							}
						}
					})
					if stores == 2 {
						ok, how = true, pk+".Shuffle(len(TransportParameters), swap of elements i and j)"
					}
				}
			}
		}
		if (pk == "math/rand" || pk == "math/rand/v2") && (o.Name() == "Intn" || o.Name() == "IntN") {
			args := cl.Call.Args
			if sig := o.Type().(*types.Signature); sig.Recv() != nil {
				args = args[1:]
			}
			// Fisher–Yates: j := Intn(i+1) with i the loop index
			if len(args) == 1 {
				if b, isB := stripConv(args[0]).(*ssa.BinOp); isB && b.Op == token.ADD && ConstI(1)(b.Y) {
					if _, isPhi := stripConv(b.X).(*ssa.Phi); isPhi {
						ok, how = true, "Fisher–Yates with j drawn from [0, i]"
					}
				} else {
					how = "hand-written shuffle draws j from [0, i) — Sattolo's algorithm reaches cyclic permutations only"
				}
			}
		}
	})
	c.Check(ok, R, "uniform:ShuffleQUICTransportParameters draws a uniform permutation of the whole list", c.P.Pos(f.Pos()), how)
}

// c11NoEarlyMarshal: nothing in the module calls the caching Len/Read of the spec's transport-parameter extension.
func c11NoEarlyMarshal(c *Ctx) {
	const R = "C11.7"
	total := 0
	for _, m := range []string{"Len", "Read"} {
		o := c.obj(utlsPkg, "QUICTransportParametersExtension", m)
		sites := c.P.CallSites(o)
		var in []string
		for _, s := range sites {
			if InRepo(funcPkgPath(s.Fn)) && s.Kind != "invoke" {
				in = append(in, funcName(s.Fn)+" at "+c.P.InstrPos(s.Instr))
			}
		}
		total += len(in)
		c.Check(len(in) == 0, R, "who-may-call:QUICTransportParametersExtension."+m+" is left to uTLS", "-",
			fmt.Sprintf("the first %s() marshals and caches the extension: called from this module before the dial's suppression / shuffle / connection-ID fill-in, the wire carries the stale bytes; callers in the module: %v", m, in))
	}
	// positive control: the anchors resolve and uTLS itself uses them
	lenM := c.obj(utlsPkg, "QUICTransportParametersExtension", "Len")
	c.Check(lenM != nil, R, "anchor:uTLS QUICTransportParametersExtension.Len resolves", "-", "expected-zero rule: the method object is found in the type-checked program")
	_ = total
}

// ---- C18.5: the HTTP/3 frame, SETTINGS, capsule and datagram parsers never index or slice out of bounds ----

func c18Bounds(c *Ctx) {
	const R = "C18.5"
	var roots []*ssa.Function
	for _, r := range [][3]string{{h3, "frameParser", "ParseNext"}, {h3, "", "ParseCapsule"}, {h3, "", "parseHeaders"}, {h3, "", "parseTrailers"}, {h3, "rawConn", "receiveDatagrams"}, {h3, "", "parseSettingsFrame"}} {
		f, err := c.P.Func1(r[0], r[1], r[2])
		if err != nil {
			c.Bad(R, "root:"+r[2], "-", "parse entry point not found")
			continue
		}
		roots = append(roots, f)
	}
	fns := c.P.reachStatic(roots, func(pk string) bool { return pk == modPath+"/http3" })
	c.Floor(R, "functions reachable from the http3 parse entry points", len(fns), 10)
	unp, err := compilerUnproven(c.P.RepoDir, c.P.GOARCH, []string{"./http3/"})
	if err != nil {
		c.Err(R, "compiler bounds-check listing (http3)", err)
		return
	}
	c.Floor(R, "bounds checks the compiler could not remove in http3 (listing alive)", len(unp), 10)
	sites := c.P.bndSites(fns, unp, nil)
	c.Floor(R, "index/slice/make/panic/assert/div sites on the http3 parse side", len(sites), 2)
	for _, st := range sites {
		c.FuncsSet[funcName(st.Fn)] = true
		key := st.Expr
		if i := strings.Index(key, " ("); i > 0 {
			key = key[:i]
		}
		c.Check(st.OK, R, "bnd:"+key, c.P.InstrPos(st.Instr), fmt.Sprintf("%s — %s", st.Expr, st.Why))
	}
}

// C13.7: the functions that first touch a received (possibly forged) datagram never index or slice it out of bounds and
// reach no explicit panic that the peer controls: BND over the receive entry points themselves (not their callees, which
// are the wire parsers of C08 and the unpacker of C05).
var bndReceiveExceptions = map[string]string{
	"(*quic.Conn).handleOnePacket#index[0]#1":    "p.data is `data` (assigned at the loop head or equal to it on the first iteration) and the loop runs only while len(data) > 0",
	"(*quic.Conn).handleRetryPacket#slice[:v]#1": "a Retry reaches this function only after wire.ParsePacket accepted it, and parseLongHeader rejects a Retry with fewer than 17 bytes after the header (token length = remaining - 16 must be positive)",
	"(*quic.baseServer).handlePacketImpl#index[0]#1": "the transport hands over only packets whose first byte it has already looked at (Transport.handlePacket drops empty datagrams)",
	"(*quic.baseServer).handlePacketImpl#panic#1":    "misrouted short-header packet: Transport.handlePacket routes only long-header packets to the server (the branch guards an internal routing bug, not a wire value)",
	"(*quic.baseServer).handleInitialImpl#panic#1":   "panics when the application's ConnContext callback returns a nil context: the endpoint's own configuration, not the wire",
}

func c13ReceiveBounds(c *Ctx) {
	const R = "C13.7"
	var fns []*ssa.Function
	for _, r := range [][3]string{{"", "packetUnpacker", "UnpackLongHeader"}, {"", "packetUnpacker", "UnpackShortHeader"}, {"", "Transport", "maybeHandleStatelessReset"}, {"", "Transport", "handlePacket"},
		{"", "Conn", "handleOnePacket"}, {"", "Conn", "handleRetryPacket"}, {"", "Conn", "handleVersionNegotiationPacket"}, {"", "Conn", "handleShortHeaderPacket"}, {"", "Conn", "handleLongHeaderPacket"},
		{"", "closedLocalConn", "handlePacket"}, {"", "baseServer", "handlePacketImpl"}, {"", "baseServer", "handleInitialImpl"}, {"", "baseServer", "handle0RTTPacket"}} {
		f, err := c.P.Func1(r[0], r[1], r[2])
		if err != nil {
			c.Bad(R, "root:"+r[2], "-", "receive entry point not found")
			continue
		}
		c.FuncsSet[funcName(f)] = true
		fns = append(fns, withAnon(f)...)
	}
	unp, err := compilerUnproven(c.P.RepoDir, c.P.GOARCH, []string{"."})
	if err != nil {
		c.Err(R, "compiler bounds-check listing (root package)", err)
		return
	}
	c.Floor(R, "bounds checks the compiler could not remove in the root package (listing alive)", len(unp), 50)
	sites := c.P.bndSites(fns, unp, bndReceiveExceptions)
	c.Floor(R, "index/slice/panic sites in the receive entry points", len(sites), 10)
	used := map[string]bool{}
	for _, st := range sites {
		key := st.Expr
		if i := strings.Index(key, " ("); i > 0 {
			key = key[:i]
		}
		if st.How == "X" {
			used[key] = true
		}
		c.Check(st.OK, R, "bnd:"+key, c.P.InstrPos(st.Instr), fmt.Sprintf("%s — %s", st.Expr, st.Why))
	}
	for k := range bndReceiveExceptions {
		if !used[k] {
			c.OK(R, "exception-unused:"+k, "-", "the excepted site no longer exists or is now discharged by a fact (harmless)")
		}
	}
}

// C05.9: the unpacker's own indexing and slicing of a received packet (header-protection sample, packet-number bytes,
// AEAD input) is in bounds: the "packet too small" guards dominate every slice (BND over the packet_unpacker.go
// functions; their callees are the wire parsers of C08 and the AEADs).
var bndUnpackerExceptions = map[string]string{
	"(*quic.packetUnpacker).unpackLongHeaderPacket#slice[v:]#1":   "extHdrLen is ExtendedHeader.ParsedLen() of a header that unpackLongHeader parsed out of this very `data` (parsed length <= len(data)); a cross-call fact the engine does not track",
	"(*quic.packetUnpacker).unpackLongHeaderPacket#slice[v:v]#1":  "same extHdrLen (empty destination slice data[extHdrLen:extHdrLen])",
	"(*quic.packetUnpacker).unpackShortHeaderPacket#slice[v:]#1":  "l is the header length wire.ParseShortHeader returned for this very `data` (1 + connIDLen + pnLen <= len(data), checked there and by the 20-byte guard of unpackShortHeader)",
	"(*quic.packetUnpacker).unpackShortHeaderPacket#slice[v:v]#1": "same l (empty destination slice data[l:l])",
	"(*quic.packetUnpacker).unpackShortHeader#slice[v:]#1":        "origPNBytes has length 4 (make([]byte, 4)) and pnLen is a PacketNumberLen (1..4) decoded from two header bits",
	"quic.unpackLongHeader#slice[v:]#1":                           "origPNBytes has length 4 and PacketNumberLen is 1..4",
	"(*quic.packetUnpacker).unpackShortHeader#slice[v:v]#4":       "data[hdrLen+pnLen : hdrLen+4]: pnLen is a PacketNumberLen (1..4), so low <= high; high is within the 20-byte guard",
	"quic.unpackLongHeader#slice[v:v]#4":                          "data[hdrLen+pnLen : hdrLen+4]: PacketNumberLen is 1..4, so low <= high; high is within the 20-byte guard",
}

func c05UnpackerBounds(c *Ctx) {
	const R = "C05.9"
	var fns []*ssa.Function
	for _, r := range [][3]string{{"", "packetUnpacker", "unpackLongHeaderPacket"}, {"", "packetUnpacker", "unpackShortHeaderPacket"}, {"", "packetUnpacker", "unpackShortHeader"}, {"", "packetUnpacker", "unpackLongHeader"},
		{"", "", "unpackLongHeader"}, {"", "packetUnpacker", "UnpackLongHeader"}, {"", "packetUnpacker", "UnpackShortHeader"}} {
		f, err := c.P.Func1(r[0], r[1], r[2])
		if err != nil {
			c.Bad(R, "root:"+r[1]+"."+r[2], "-", "unpacker function not found")
			continue
		}
		c.FuncsSet[funcName(f)] = true
		fns = append(fns, withAnon(f)...)
	}
	unp, err := compilerUnproven(c.P.RepoDir, c.P.GOARCH, []string{"."})
	if err != nil {
		c.Err(R, "compiler bounds-check listing (root package)", err)
		return
	}
	c.Floor(R, "bounds checks the compiler could not remove in the root package (listing alive)", len(unp), 50)
	sites := c.P.bndSites(fns, unp, bndUnpackerExceptions)
	c.Floor(R, "index/slice sites in the unpacker", len(sites), 12)
	for _, st := range sites {
		key := st.Expr
		if i := strings.Index(key, " ("); i > 0 {
			key = key[:i]
		}
		c.Check(st.OK, R, "bnd:"+key, c.P.InstrPos(st.Instr), fmt.Sprintf("%s — %s", st.Expr, st.Why))
	}
}

// C06.6: no element-shifting removal from a history slice inside a loop that ranges over that slice's own iterator
// (the repository states the rule itself in detectLostPathProbes: "RemovePathProbe cannot be called while
// iterating"). An iterator method of the history ranges over one of its slice fields; a method that compacts that
// slice in place (copy onto it, slices.Delete / Insert) moves the not yet visited elements under the running
// iteration: some are visited twice (their frames reported twice), others are skipped.
func c06NoRemovalWhileIterating(c *Ctx) {
	const R = "C06.6"
	type iterInfo struct {
		fn    *ssa.Function
		field *types.Var
	}
	var iters []iterInfo
	// iterator methods of the ack handler's history types and the slice field they range over
	for _, spec := range [][3]string{{ah, "sentPacketHistory", "Packets"}, {ah, "sentPacketHistory", "PathProbes"}, {ah, "sentPacketHistory", "SkippedPackets"}, {ah, "lostPacketTracker", "All"}, {ah, "receivedPacketHistory", "Backward"}} {
		f, err := c.P.Func1(spec[0], spec[1], spec[2])
		if err != nil {
			c.Bad(R, "iterator:"+spec[1]+"."+spec[2], "-", "iterator method not found")
			continue
		}
		var fld *types.Var
		for _, g := range withAnon(f) {
			eachInstr(g, func(in ssa.Instruction) {
				if fl, _ := loadedField(valueOf(in)); fl != nil {
					if _, isSlice := fl.Type().Underlying().(*types.Slice); isSlice && fld == nil {
						fld = fl
					}
				}
			})
		}
		if fld == nil {
			c.Bad(R, "iterator:"+spec[1]+"."+spec[2], c.P.Pos(f.Pos()), "no slice field found that the iterator ranges over")
			continue
		}
		iters = append(iters, iterInfo{f, fld})
	}
	// shifters: functions that move elements of the field's backing array
	shiftMemo := map[*ssa.Function]map[*types.Var]bool{}
	var shifts func(g *ssa.Function, fld *types.Var, depth int) bool
	shifts = func(g *ssa.Function, fld *types.Var, depth int) bool {
		if g == nil || g.Blocks == nil || depth > 3 {
			return false
		}
		if m, ok := shiftMemo[g]; ok {
			if v, ok := m[fld]; ok {
				return v
			}
		} else {
			shiftMemo[g] = map[*types.Var]bool{}
		}
		shiftMemo[g][fld] = false
		res := false
		eachInstr(g, func(in ssa.Instruction) {
			cl, ok := in.(*ssa.Call)
			if !ok {
				return
			}
			derived := func(v ssa.Value) bool {
				for d := 0; d < 4; d++ {
					if loadsPath(v, fld) {
						return true
					}
					if sl, ok := stripConv(v).(*ssa.Slice); ok {
						v = sl.X
						continue
					}
					break
				}
				return false
			}
			if builtinName(&cl.Call) == "copy" && derived(cl.Call.Args[0]) {
				res = true
			}
			if sc := cl.Call.StaticCallee(); sc != nil {
				if (isSlicesFunc(sc, "Delete") || isSlicesFunc(sc, "Insert")) && len(cl.Call.Args) > 0 && derived(cl.Call.Args[0]) {
					res = true
				}
				if funcPkgPath(sc) == funcPkgPath(g) && shifts(sc, fld, depth+1) {
					res = true
				}
			}
		})
		shiftMemo[g][fld] = res
		return res
	}
	// loops: a call of an iterator's result with a yield closure
	n := 0
	for _, f := range c.P.ScopeFuncs() {
		if funcPkgPath(f) != modPath+"/"+ah {
			continue
		}
		eachInstr(f, func(in ssa.Instruction) {
			cl, ok := in.(*ssa.Call)
			if !ok || len(cl.Call.Args) != 1 {
				return
			}
			src, ok := cl.Call.Value.(*ssa.Call)
			if !ok {
				return
			}
			var it *iterInfo
			for i := range iters {
				if src.Call.StaticCallee() == iters[i].fn {
					it = &iters[i]
				}
			}
			if it == nil {
				return
			}
			mc, ok := cl.Call.Args[0].(*ssa.MakeClosure)
			if !ok {
				return
			}
			body := mc.Fn.(*ssa.Function)
			n++
			bad := ""
			for _, g := range withAnon(body) {
				eachInstr(g, func(x ssa.Instruction) {
					if c2, ok := x.(*ssa.Call); ok {
						if sc := c2.Call.StaticCallee(); sc != nil && shifts(sc, it.field, 0) {
							bad = funcName(sc) + " at " + c.P.InstrPos(x)
						}
					}
				})
			}
			c.FuncsSet[funcName(rootFn(f))] = true
			c.Check(bad == "", R, fmt.Sprintf("iterate:%s ranges over %s without shifting %s", funcName(rootFn(f)), it.fn.Name(), it.field.Name()), c.P.InstrPos(in),
				"removing by compaction while the iterator runs makes it skip the element that moved into the freed slot and visit the stale tail"+map[bool]string{true: "", false: " — the loop body calls " + bad}[bad == ""])
		})
	}
	c.Floor(R, "range-over-iterator loops in the ack handler", n, 8)
}

// C06.7: every packet that SentPacket counts as in flight also records its send time as the space's last ack-eliciting
// send time (the PTO is computed from it: an outstanding ack-eliciting packet without it has no deadline), and the
// timer is re-armed before the function returns.
func c06SentPacketBookkeeping(c *Ctx) {
	const R = "C06.7"
	f := c.fn(ah, "sentPacketHandler", "SentPacket")
	bif := c.fld(ah, "sentPacketHandler", "bytesInFlight")
	last := c.fld(ah, "packetNumberSpace", "lastAckElicitingPacketTime")
	counted := func(in ssa.Instruction) bool {
		st, ok := in.(*ssa.Store)
		return ok && fieldOfAddress(st.Addr) == bif
	}
	recorded := func(in ssa.Instruction) bool {
		st, ok := in.(*ssa.Store)
		return ok && fieldOfAddress(st.Addr) == last && ParamV("t")(st.Val)
	}
	c.Floor(R, "bytesInFlight updates in SentPacket", countInstr(f, counted), 1)
	// the two updates happen on the same paths, in either order
	before := (&Cut{Fn: f, Target: counted, Barrier: recorded}).Run()
	var after *Witness
	if before != nil {
		after = (&Cut{Fn: f, Start: counted, Target: isReturn, Barrier: recorded, TrackFlags: true}).Run()
	}
	detail := "getPTOTimeAndSpace skips a space whose lastAckElicitingPacketTime is zero: ack-eliciting data outstanding there would have no loss-detection deadline"
	if before != nil && after != nil {
		detail += " — VIOLATED: a path counts the packet in flight (" + before.String(c.P) + ") and returns (" + after.String(c.P) + ") without recording the send time"
	}
	c.Check(before == nil || after == nil, R, "record:a packet counted in flight records its send time for the PTO", c.P.Pos(f.Pos()), detail)
	arm := c.obj(ah, "sentPacketHandler", "setLossDetectionTimer")
	c.cut(R, "arm:the loss-detection timer is re-armed after an ack-eliciting packet was counted", &Cut{Fn: f, Start: counted, Target: isReturn, Barrier: CallsTo(arm), TrackFlags: true},
		"a newly outstanding packet must have a deadline")
}

// C17.11: the stream's callbacks into the connection (streamSender.onHasStreamData / onHasStreamControlFrame /
// onStreamCompleted) are made without holding the stream's mutex — the repository states the rule at the call sites
// ("must be called without holding the mutex"): the framer and the streams map take their own locks and call back into
// the stream (popStreamFrame, getControlFrame, closeForShutdown), so a callback under the stream mutex is a lock-order
// inversion that deadlocks under the right schedule.
func c17CallbacksOutsideStreamMutex(c *Ctx, R string) {
	n := 0
	for _, typ := range []string{"SendStream", "ReceiveStream"} {
		mu := c.fld("", typ, "mutex")
		tn := c.named("", typ)
		isMu := func(name string) IP {
			return func(in ssa.Instruction) bool {
				ci, ok := in.(ssa.CallInstruction)
				if !ok {
					return false
				}
				if _, isDefer := in.(*ssa.Defer); isDefer {
					return false
				}
				o := calleeObj(ci.Common())
				if o == nil || o.Name() != name || o.Pkg() == nil || o.Pkg().Path() != "sync" || len(ci.Common().Args) == 0 {
					return false
				}
				fa, ok := ci.Common().Args[0].(*ssa.FieldAddr)
				return ok && fieldOfAddr(fa) == mu
			}
		}
		callback := func(in ssa.Instruction) bool {
			ci, ok := in.(ssa.CallInstruction)
			if !ok {
				return false
			}
			if _, isGo := in.(*ssa.Go); isGo {
				return false
			}
			cm := ci.Common()
			if !cm.IsInvoke() {
				return false
			}
			nt := namedOf(cm.Value.Type())
			return nt != nil && nt.Obj().Name() == "streamSender" && nt.Obj().Pkg() != nil && nt.Obj().Pkg().Path() == modPath
		}
		for _, f := range c.P.ScopeFuncs() {
			if funcPkgPath(f) != modPath || f.Signature.Recv() == nil {
				continue
			}
			if rn := namedOf(f.Signature.Recv().Type()); rn == nil || rn.Obj() != tn {
				continue
			}
			locks := findInstrsLocal(f, isMu("Lock"))
			if len(locks) == 0 {
				continue
			}
			n += len(locks)
			c.FuncsSet[funcName(f)] = true
			c.cut(R, "outside:"+funcName(f)+" calls back into the connection only after releasing the stream mutex",
				&Cut{Fn: f, Start: isMu("Lock"), Target: callback, Barrier: isMu("Unlock")},
				"onHasStreamData / onHasStreamControlFrame / onStreamCompleted take the framer's or the streams map's lock, whose holders call back into the stream: under the stream mutex this is a lock-order inversion")
		}
	}
	c.Floor(R, "acquisitions of a stream mutex", n, 15)
}

// C13.8: the coalescing packer (Initial + Handshake + 0/1-RTT in one datagram) is used only before the handshake is
// confirmed — the repository's stated rule ("It should only be called before the handshake is confirmed"). After
// confirmation the Initial and Handshake keys are gone and only the short-header path accounts for MTU probes, GSO
// batching and pacing.
func c13CoalescedOnlyBeforeConfirmation(c *Ctx) {
	const R = "C13.8"
	pcp := c.obj("", "packer", "PackCoalescedPacket")
	hc := c.fld("", "Conn", "handshakeConfirmed")
	n := 0
	for _, f := range c.P.ScopeFuncs() {
		if funcPkgPath(f) != modPath {
			continue
		}
		for _, in := range findInstrsLocal(f, CallsTo(pcp)) {
			n++
			c.FuncsSet[funcName(rootFn(f))] = true
			ok := dominatedByEdge(in.Block(), BoolTrue(Load(hc)), true)
			c.Check(ok, R, fmt.Sprintf("before-confirmation:PackCoalescedPacket in %s#%d", funcName(rootFn(f)), n), c.P.InstrPos(in),
				"the coalescing packer is called on the !handshakeConfirmed edge only")
		}
	}
	c.Floor(R, "PackCoalescedPacket call sites", n, 2)
}

// C20.7: the ECN tracker is consulted only for 1-RTT ACKs that increase the largest acknowledged packet number — the
// repository's stated precondition of HandleNewlyAcked ("must only be called for ACK frames that increase the largest
// acknowledged packet number"): ECN counts of a reordered, older ACK compared against newer totals look like new CE
// marks and produce a congestion event (a window reduction) without any loss.
func c20ECNOnlyForAdvancingAcks(c *Ctx) {
	const R = "C20.7"
	f := c.fn(ah, "sentPacketHandler", "ReceivedAck")
	hna := c.obj(ah, "ecnHandler", "HandleNewlyAcked")
	la := c.fld(ah, "packetNumberSpace", "largestAcked")
	n := 0
	for _, in := range findInstrs(f, CallsTo(hna)) {
		n++
		ok := false
		for d := in.Block(); d != nil && d.Idom() != nil && !ok; d = d.Idom() {
			id := d.Idom()
			ifi, isIf := id.Instrs[len(id.Instrs)-1].(*ssa.If)
			if !isIf || len(d.Preds) != 1 {
				continue
			}
			for s := 0; s < 2; s++ {
				if id.Succs[s] != d {
					continue
				}
				bo, isB := ifi.Cond.(*ssa.BinOp)
				if !isB {
					continue
				}
				op := bo.Op
				if s == 1 {
					op = negOp(op)
				}
				x, y := bo.X, bo.Y
				if op == token.LSS {
					x, y, op = y, x, token.GTR
				}
				// <the ACK's largest acked> > pnSpace.largestAcked
				if op == token.GTR && loadsPath(y, la) && !loadsPath(x, la) {
					ok = true
				}
			}
		}
		c.Check(ok, R, fmt.Sprintf("guard:HandleNewlyAcked only for an ACK that advances largestAcked#%d", n), c.P.InstrPos(in),
			"ECN counts are compared with the totals of the previous ACK: for an ACK that does not advance the largest acknowledged they are stale and can look like new congestion marks")
	}
	c.Floor(R, "HandleNewlyAcked calls in ReceivedAck", n, 1)
	// and the largest acked of the space is raised only after that comparison (the call precedes the update)
	for _, in := range findInstrs(f, CallsTo(hna)) {
		in := in
		c.cut(R, "order:largestAcked is updated after the ECN comparison", &Cut{Fn: f, Start: StoresTo(la), Target: func(x ssa.Instruction) bool { return x == in }},
			"once pnSpace.largestAcked holds the new value the guard largestAcked > pnSpace.largestAcked is never true")
	}
}

// C05.10: the protected header fields (reserved bits, key phase, packet-number length and bytes) are parsed only
// after header protection was removed — the repository's stated precondition of wire.ParseShortHeader ("must be called
// after header protection was removed") and the same for the extended long header.
func c05ParseAfterUnprotect(c *Ctx) {
	const R = "C05.10"
	isDecrypt := func(i ssa.Instruction) bool {
		ci, ok := i.(ssa.CallInstruction)
		return ok && ci.Common().IsInvoke() && ci.Common().Method.Name() == "DecryptHeader"
	}
	psh := c.obj("internal/wire", "", "ParseShortHeader")
	pe := c.obj("internal/wire", "Header", "ParseExtended")
	for _, spec := range []struct {
		recv, name string
		parse     *types.Func
	}{{"packetUnpacker", "unpackShortHeader", psh}, {"", "unpackLongHeader", pe}} {
		f := c.fn("", spec.recv, spec.name)
		c.Floor(R, spec.parse.Name()+" calls in "+spec.name, countInstr(f, CallsTo(spec.parse)), 1)
		c.cut(R, "order:"+spec.name+" parses the protected header fields only after DecryptHeader", &Cut{Fn: f, Target: CallsTo(spec.parse), Barrier: isDecrypt},
			"parsed before unprotection, the packet-number length and key phase are the masked bits: the wrong number of packet-number bytes is taken and decryption fails or, worse, succeeds under a wrong nonce")
	}
}

// C03.7: a received STREAM frame whose flow-control update succeeded is queued for the reader unless the stream was
// cancelled LOCALLY: after a remote reset the data up to the reliable size is still owed to the reader (RESET_STREAM_AT),
// so no other early exit may come between the flow-control update (which makes the bytes count as received, i.e. they
// are acknowledged and never retransmitted) and the push into the frame queue.
func c03AcceptedDataIsQueued(c *Ctx) {
	const R = "C03.7"
	f := c.fn("", "ReceiveStream", "handleStreamFrameImpl")
	upd := c.obj("internal/flowcontrol", "StreamFlowController", "UpdateHighestReceived")
	push := c.obj("", "frameSorter", "Push")
	cl := c.fld("", "ReceiveStream", "cancelledLocally")
	c.Floor(R, "UpdateHighestReceived calls in handleStreamFrameImpl", countInstr(f, CallsTo(upd)), 1)
	c.Floor(R, "frameSorter.Push calls in handleStreamFrameImpl", countInstr(f, CallsTo(push)), 1)
	okReturn := func(in ssa.Instruction) bool {
		r, ok := in.(*ssa.Return)
		if !ok {
			return false
		}
		rs := retResults(r)
		return len(rs) == 1 && IsNil()(rs[0])
	}
	c.cut(R, "queue:accepted data reaches the frame queue unless cancelled locally", &Cut{Fn: f, Start: CallsTo(upd), Target: okReturn, Barrier: CallsTo(push),
		Edge: EdgeRel(BoolTrue(Load(cl)), false)},
		"bytes that flow control accepted are acknowledged and never sent again: dropping them on any condition other than a local CancelRead leaves a hole the reader waits on forever")
	sig := c.obj("", "ReceiveStream", "signalRead")
	c.cut(R, "wake:queued data signals the reader", &Cut{Fn: f, Start: CallsTo(push), Target: okReturn, Barrier: CallsTo(sig)},
		"a Read blocked on an empty queue is woken by every successful push")
}

// C01.11: the connection ID used as destination during the handshake has two holders, Conn.handshakeDestConnID (checked
// against the peer's transport parameters, used for Retry/VN decisions) and the connection ID manager's initial entry
// (what is actually put on outgoing packets). Every change of the former is followed by ChangeInitialConnID.
func c01HandshakeDestConnIDPair(c *Ctx, R string) {
	hd := c.fld("", "Conn", "handshakeDestConnID")
	chg := c.obj("", "connIDManager", "ChangeInitialConnID")
	n := 0
	for _, f := range c.P.ScopeFuncs() {
		if funcPkgPath(f) != modPath || f.Parent() != nil {
			continue
		}
		if strings.HasPrefix(f.Name(), "new") {
			continue // constructors create the manager with the same value
		}
		for _, in := range findInstrsLocal(f, StoresTo(hd)) {
			in := in
			n++
			c.FuncsSet[funcName(f)] = true
			c.cut(R, fmt.Sprintf("pair:handshakeDestConnID changed in %s → ChangeInitialConnID#%d", f.Name(), n), &Cut{Fn: f, Start: func(x ssa.Instruction) bool { return x == in }, Target: isReturn, Barrier: CallsTo(chg)},
				"outgoing packets take their destination connection ID from the manager: if only the connection's copy is corrected (Retry, the server's first Handshake packet, a corrupted first Initial), every later packet still carries the stale ID and is never routed")
		}
	}
	c.Floor(R, "changes of handshakeDestConnID outside the constructors", n, 3)
}

// C17.12: a short-header packet restarts the idle timer's "first ack-eliciting packet after idle" mark when it carries
// STREAM frames or ack-eliciting control frames — STREAM frames are kept in a separate list (StreamFrames), so a test
// that only looks at the control frames misses packets that carry stream data only.
func c17IdleRestartCountsStreamFrames(c *Ctx, R string) {
	f := c.fn("", "Conn", "registerPackedShortHeaderPacket")
	mark := c.fld("", "Conn", "firstAckElicitingPacketAfterIdleSentTime")
	sf := c.fld("", "shortHeaderPacket", "StreamFrames")
	stores := findInstrs(f, func(in ssa.Instruction) bool {
		st, ok := in.(*ssa.Store)
		return ok && fieldOfAddress(st.Addr) == mark && ParamV("now")(st.Val)
	})
	c.Floor(R, "stores of the idle restart mark in registerPackedShortHeaderPacket", len(stores), 1)
	for i, st := range stores {
		// some branch on len(p.StreamFrames) > 0 leads straight into the store's block
		ok := false
		for _, b := range st.Block().Preds {
			if len(b.Instrs) == 0 {
				continue
			}
			ifi, isIf := b.Instrs[len(b.Instrs)-1].(*ssa.If)
			if !isIf {
				continue
			}
			for s := 0; s < 2; s++ {
				if b.Succs[s] != st.Block() {
					continue
				}
				if EdgeImplies(ifi, s, Rel{Op: token.GTR, X: LenOf(Load(sf)), Y: ConstI(0)}, false) || EdgeImplies(ifi, s, Rel{Op: token.NEQ, X: LenOf(Load(sf)), Y: ConstI(0)}, false) {
					ok = true
				}
			}
		}
		c.Check(ok, R, fmt.Sprintf("restart:a packet with STREAM frames restarts the idle mark#%d", i+1), c.P.InstrPos(st),
			"the idle timeout is measured from the first ack-eliciting packet sent after the last received one; a stream-data-only packet that is not counted lets the idle timer fire while the peer is still retransmitting")
	}
}

// C08.8: on the parse side, a subtraction of two wire-derived values (packet numbers, byte counts, varints) is
// dominated by a comparison that bounds the subtrahend by the minuend: `if ackBlock > largest { error }` before
// `largest - ackBlock`. The guard must compare with the very value that is subtracted from — a guard against a
// different (larger) value lets a malformed frame produce a negative / wrapped-around result that is then accepted.
func c08GuardedSubtractions(c *Ctx) {
	const R = "C08.8"
	roots, _ := bndWireRoots(c.P)
	fns := c.P.reachStatic(roots, func(pk string) bool {
		return pk == modPath+"/internal/wire" || pk == modPath+"/quicvarint"
	})
	n, guarded := 0, 0
	for _, f := range fns {
		perFn := 0
		eachInstr(f, func(in ssa.Instruction) {
			bo, ok := in.(*ssa.BinOp)
			if !ok || bo.Op != token.SUB {
				return
			}
			if _, isK := constInt64Of(bo.Y); isK {
				// x - const: part of a longer chain, judged at the outermost subtraction
				if inner, ok := stripConv(bo.X).(*ssa.BinOp); !ok || inner.Op != token.SUB {
					return
				}
			}
			if _, isK := constInt64Of(bo.X); isK {
				return
			}
			// a - b - K is one subtraction of (b + K): skip the inner link when the outer one subtracts a constant
			if rs := bo.Referrers(); rs != nil {
				for _, r := range *rs {
					if outer, ok := r.(*ssa.BinOp); ok && outer.Op == token.SUB && stripConv(outer.X) == ssa.Value(bo) {
						if _, isK := constInt64Of(outer.Y); isK {
							return
						}
					}
				}
			}
			// minuend and total subtrahend: constants are folded, at most one variable subtrahend
			minuend := ssa.Value(bo)
			var subTerms []ssa.Value
			var subK int64
			for {
				cur, ok := stripConv(minuend).(*ssa.BinOp)
				if !ok || cur.Op != token.SUB {
					break
				}
				if k, isK := constInt64Of(cur.Y); isK {
					subK += k
					minuend = cur.X
					continue
				}
				if len(subTerms) > 0 {
					break
				}
				subTerms = append(subTerms, cur.Y)
				minuend = cur.X
			}
			if len(subTerms) == 0 {
				return
			}
			// lengths are the business of the BND rules: skip len()-arithmetic and the byte-count bookkeeping of the parsers
			isLenish := func(v ssa.Value) bool {
				cl, ok := stripConv(v).(*ssa.Call)
				return ok && builtinName(&cl.Call) == "len"
			}
			if isLenish(minuend) {
				return
			}
			for _, t := range subTerms {
				if isLenish(t) {
					return
				}
			}
			n++
			perFn++
			var sub ssa.Value
			if len(subTerms) == 1 {
				sub = subTerms[0]
			}
			ok2 := false
			if sub != nil {
				ok2 = leAt(sub, subK, minuend, 0, bo.Block())
			}
			key := fmt.Sprintf("guarded-sub:%s#%d", funcName(f), perFn)
			if why, isEx := subExceptions[key]; isEx {
				c.OK(R, key, c.P.InstrPos(in), "exception: "+why)
				return
			}
			if ok2 {
				guarded++
			}
			c.FuncsSet[funcName(f)] = true
			c.Check(ok2, R, key, c.P.InstrPos(in), "the subtrahend is bounded by the minuend on a dominating edge (no negative / wrapped result from a malformed frame)")
		})
	}
	c.Floor(R, "subtractions of wire-derived values on the parse side", n, 3)
}

// subExceptions: subtractions on the parse side that need no guard, with the reason.
var subExceptions = map[string]string{}

// C17.13: Conn.run has one way out: every return passes handleCloseError (which closes the stream maps and the datagram
// queue with the cause, removes or replaces the routing entries and closes the connection ID manager), and the send
// queue's goroutine is started before the tail can wait for it (sendQueue.Close blocks until Run has returned).
func c17RunSingleExit(c *Ctx) {
	const R = "C17.13"
	f := c.fn("", "Conn", "run")
	hce := c.obj("", "Conn", "handleCloseError")
	c.Floor(R, "handleCloseError calls in Conn.run", countInstr(f, CallsTo(hce)), 1)
	c.cut(R, "exit:every return of Conn.run passes handleCloseError", &Cut{Fn: f, Target: isReturn, Barrier: CallsTo(hce), NoInline: true},
		"an exit that skips the close path leaves the connection's entries in the transport's routing table, its streams open and its timer armed")
	sqClose := c.obj("", "sender", "Close")
	sqRun := c.obj("", "sender", "Run")
	startsRun := func(in ssa.Instruction) bool {
		g, ok := in.(*ssa.Go)
		if !ok {
			return false
		}
		var body *ssa.Function
		switch v := g.Call.Value.(type) {
		case *ssa.MakeClosure:
			body, _ = v.Fn.(*ssa.Function)
		case *ssa.Function:
			body = v
		}
		if body == nil {
			return g.Call.IsInvoke() && g.Call.Method == sqRun
		}
		return countInstr(body, CallsTo(sqRun)) > 0
	}
	c.Floor(R, "go statements that run the send queue", countInstr(f, startsRun), 1)
	c.cut(R, "order:the send queue runs before run() can wait for it to stop", &Cut{Fn: f, Target: CallsTo(sqClose), Barrier: startsRun, NoInline: true},
		"sendQueue.Close waits for Run to return: reached without Run ever started it blocks the connection's goroutine forever")
}

// C17.14: a datagram is accepted for sending only after the queue has looked at its closed channel: after the
// connection ended, SendDatagram returns the recorded cause instead of queueing a datagram that is never sent.
func c17NoDatagramAfterClose(c *Ctx) {
	const R = "C17.14"
	f := c.fn("", "datagramQueue", "Add")
	closed := c.fld("", "datagramQueue", "closed")
	sq := c.fld("", "datagramQueue", "sendQueue")
	accepts := func(in ssa.Instruction) bool {
		cl, ok := in.(*ssa.Call)
		if !ok {
			return false
		}
		sc := cl.Call.StaticCallee()
		if sc == nil || sc.Name() != "PushBack" || len(cl.Call.Args) == 0 {
			return false
		}
		fa, ok := cl.Call.Args[0].(*ssa.FieldAddr)
		return ok && fieldOfAddr(fa) == sq
	}
	looksAtClosed := func(in ssa.Instruction) bool {
		switch x := in.(type) {
		case *ssa.Select:
			for _, st := range x.States {
				if st.Dir == types.RecvOnly && loadsPath(st.Chan, closed) {
					return true
				}
			}
		case *ssa.UnOp:
			return x.Op == token.ARROW && loadsPath(x.X, closed)
		}
		return false
	}
	c.Floor(R, "send-queue pushes in datagramQueue.Add", countInstr(f, accepts), 1)
	c.cut(R, "closed:a datagram is queued only after the closed channel was consulted", &Cut{Fn: f, Target: accepts, Barrier: looksAtClosed},
		"SendDatagram on a closed connection reports success and drops the datagram")
}

func isEmptyStringConst(v ssa.Value) bool {
	k, ok := v.(*ssa.Const)
	if !ok || k.Value == nil || k.Value.Kind() != constant.String {
		return false
	}
	return constant.StringVal(k.Value) == ""
}

// C19.8: "was this field seen before in this section" is not decided by whether the value stored for it is empty. An
// empty value is a value: with emptiness as the not-seen-yet marker, a first occurrence with an empty value hides a
// second one (duplicate pseudo-header accepted, second Content-Length wins unchecked).
func c19NoEmptinessAsSeenMarker(c *Ctx) {
	const R = "C19.8"
	f := c.fn(h3, "", "parseHeaders")
	var decode ssa.Instruction
	eachInstr(f, func(in ssa.Instruction) {
		if cl, ok := in.(*ssa.Call); ok {
			if prm, isP := cl.Call.Value.(*ssa.Parameter); isP && prm.Name() == "decodeFn" {
				decode = in
			}
		}
	})
	if decode == nil {
		c.Bad(R, "loop:decodeFn call in parseHeaders", c.P.Pos(f.Pos()), "the decode loop was not found")
		return
	}
	hdrT := c.named(h3, "header")
	n := 0
	eachInstr(f, func(in ssa.Instruction) {
		bo, ok := in.(*ssa.BinOp)
		if !ok || (bo.Op != token.EQL && bo.Op != token.NEQ) {
			return
		}
		var other ssa.Value
		switch {
		case isEmptyStringConst(bo.Y):
			other = bo.X
		case isEmptyStringConst(bo.X):
			other = bo.Y
		default:
			return
		}
		// inside the decode loop only
		if !(instrReaches(in, decode) && instrReaches(decode, in)) {
			return
		}
		// what is compared: a field of the header being built, or a string carried around the loop (a φ)
		what := ""
		if fl, _ := loadedField(stripConv(other)); fl != nil {
			if st, ok := hdrT.Type().Underlying().(*types.Struct); ok {
				for i := 0; i < st.NumFields(); i++ {
					if st.Field(i) == fl {
						what = "header." + fl.Name()
					}
				}
			}
		} else if _, isPhi := stripConv(other).(*ssa.Phi); isPhi {
			what = "a string carried around the decode loop"
		}
		if what == "" {
			return
		}
		n++
		c.Bad(R, fmt.Sprintf("seen-marker:%s compared with \"\" inside the decode loop#%d", what, n), c.P.InstrPos(in),
			"emptiness of the stored value is used as the not-seen-yet marker: a first occurrence with an empty value hides the second one")
	})
	if n == 0 {
		c.OK(R, "seen-marker:no stored value is compared with \"\" inside the decode loop", c.P.Pos(f.Pos()), "duplicates are detected with flags, not with the emptiness of the first value")
	}
}

// C19.9: the request writer classifies a request as Extended CONNECT (and emits :protocol with req.Proto) only for a
// non-empty protocol: the parser decides the same question by `:protocol` being non-empty, so an Extended CONNECT with an
// empty protocol is written as one thing and parsed as another (and rejected).
func c19ExtendedConnectAgreement(c *Ctx) {
	const R = "C19.9"
	f := c.fn(h3, "", "isExtendedConnectRequest")
	proto := c.fld("net/http", "Request", "Proto")
	method := c.fld("net/http", "Request", "Method")
	n := 0
	eachInstr(f, func(in ssa.Instruction) {
		r, ok := in.(*ssa.Return)
		if !ok {
			return
		}
		n++
		rs := retResults(r)
		if len(rs) != 1 {
			return
		}
		// the blocks from which a possibly-true value flows into the result
		var srcs []*ssa.BasicBlock
		if ph, isPhi := rs[0].(*ssa.Phi); isPhi {
			for i, e := range ph.Edges {
				if isConstBool(e, false) {
					continue
				}
				srcs = append(srcs, ph.Block().Preds[i])
			}
		} else if !isConstBool(rs[0], false) {
			srcs = append(srcs, r.Block())
		}
		okProto, okMethod := len(srcs) > 0, len(srcs) > 0
		for _, b := range srcs {
			if !dominatedByEdge(b, Rel{Op: token.NEQ, X: Load(proto), Y: isEmptyStringConst}, false) {
				okProto = false
			}
			if !dominatedByEdge(b, Rel{Op: token.EQL, X: Load(method), Y: func(v ssa.Value) bool {
				k, ok := v.(*ssa.Const)
				return ok && k.Value != nil && k.Value.Kind() == constant.String && constant.StringVal(k.Value) == "CONNECT"
			}}, false) {
				okMethod = false
			}
		}
		c.Check(okProto, R, "agree:Extended CONNECT only for a non-empty protocol", c.P.InstrPos(in), "the parser treats a CONNECT as extended iff :protocol is non-empty")
		c.Check(okMethod, R, "agree:Extended CONNECT only for CONNECT", c.P.InstrPos(in), "only CONNECT requests carry :protocol")
	})
	c.Floor(R, "returns of isExtendedConnectRequest", n, 1)
}

// selectCaseBlock: the block control reaches when select `sel` chose state k (nil if the lowering is not recognised).
func selectCaseBlock(sel *ssa.Select, k int) *ssa.BasicBlock {
	rs := sel.Referrers()
	if rs == nil {
		return nil
	}
	for _, r := range *rs {
		ex, ok := r.(*ssa.Extract)
		if !ok || ex.Index != 0 {
			continue
		}
		ers := ex.Referrers()
		if ers == nil {
			continue
		}
		for _, er := range *ers {
			bo, ok := er.(*ssa.BinOp)
			if !ok || bo.Op != token.EQL {
				continue
			}
			kv, isK := constInt64Of(bo.Y)
			if !isK || int(kv) != k {
				continue
			}
			brs := bo.Referrers()
			if brs == nil {
				continue
			}
			for _, br := range *brs {
				if ifi, ok := br.(*ssa.If); ok {
					return ifi.Block().Succs[0]
				}
			}
		}
	}
	return nil
}

// C17.15: a connection the server has taken on leaves handleNewConn queued for Accept, already dead, or explicitly
// refused. In particular, when the listener is closed while the connection is still handshaking (the errorChan case of
// both waits, early and non-early listener), the connection is closed with CONNECTION_REFUSED — otherwise it lives on,
// un-acceptable, until its idle timeout, and the client's dial against a closed listener succeeds.
func c17ServerRefusesOnClose(c *Ctx) {
	const R = "C17.15"
	f := c.fn("", "baseServer", "handleNewConn")
	errorChan := c.fld("", "baseServer", "errorChan")
	refuse := c.obj("", "Conn", "closeWithTransportError")
	n := 0
	eachInstr(f, func(in ssa.Instruction) {
		sel, ok := in.(*ssa.Select)
		if !ok || !sel.Blocking {
			return
		}
		for k, st := range sel.States {
			if st.Dir != types.RecvOnly || !loadsPath(st.Chan, errorChan) {
				continue
			}
			n++
			b := selectCaseBlock(sel, k)
			if b == nil {
				c.Bad(R, fmt.Sprintf("refuse:listener closed while waiting#%d", n), c.P.InstrPos(in), "the case block of the errorChan receive was not found")
				continue
			}
			c.cut(R, fmt.Sprintf("refuse:listener closed while waiting#%d → CONNECTION_REFUSED", n), &Cut{Fn: f, StartBlocks: []*ssa.BasicBlock{b}, Target: isReturn, Barrier: CallsTo(refuse)},
				"the handshaking connection of a closed listener is refused, not left to its idle timeout")
		}
	})
	c.Floor(R, "waits on errorChan in handleNewConn", n, 2)
	connQueue := c.fld("", "baseServer", "connQueue")
	// the hand-over to Accept: a full queue refuses the connection
	eachInstr(f, func(in ssa.Instruction) {
		sel, ok := in.(*ssa.Select)
		if !ok || sel.Blocking {
			return
		}
		for _, st := range sel.States {
			if st.Dir == types.SendOnly && loadsPath(st.Chan, connQueue) {
				// default branch: index -1
				if b := selectCaseBlock(sel, -1); b != nil {
					c.cut(R, "refuse:accept queue full → CONNECTION_REFUSED", &Cut{Fn: f, StartBlocks: []*ssa.BasicBlock{b}, Target: isReturn, Barrier: CallsTo(refuse)}, "a connection that cannot be queued is refused")
				}
			}
		}
	})
}

// C13.10: when 0-RTT is rejected, every 0-RTT packet is taken out of the sent-packet history (not only out of the
// bytes-in-flight count): a packet left there is later declared lost and its frames are retransmitted in 1-RTT — data
// the server never accepted on streams that were reset.
func c13Rejected0RTTRemoved(c *Ctx) {
	const R = "C13.10"
	f := c.fn(ah, "sentPacketHandler", "DropPackets")
	rm := c.obj(ah, "sentPacketHistory", "Remove")
	rbf := c.obj(ah, "sentPacketHandler", "removeFromBytesInFlight")
	n := 0
	encLvl := c.fld(ah, "packet", "EncryptionLevel")
	for _, g := range withAnon(f) {
		// only the 0-RTT branch: the loop body that looks at the packet's encryption level (the Initial / Handshake
		// branch drops the whole packet number space afterwards)
		if countInstr(g, func(x ssa.Instruction) bool { v := valueOf(x); return v != nil && loadsPath(v, encLvl) }) == 0 {
			continue
		}
		for _, in := range findInstrsLocal(g, CallsTo(rbf)) {
			in := in
			n++
			ok := (&Cut{Fn: g, Start: func(x ssa.Instruction) bool { return x == in }, Target: isReturn, Barrier: CallsTo(rm), NoInline: true}).Run() == nil
			c.Check(ok, R, fmt.Sprintf("remove:a dropped 0-RTT packet leaves the history#%d", n), c.P.InstrPos(in),
				"removeFromBytesInFlight without history.Remove leaves the packet to loss detection: its frames come back as 1-RTT retransmissions after the rejection")
		}
	}
	c.Floor(R, "removeFromBytesInFlight calls in DropPackets", n, 1)
}

// C03.8: a RESET_STREAM(_AT) that changes the reliable size wakes a blocked reader, unless the stream was cancelled
// locally (no reader is left): a later frame may LOWER the reliable size to or below the read position, at which point
// the reset error is due and no further data will arrive.
func c03ReliableSizeChangeWakesReader(c *Ctx) {
	const R = "C03.8"
	f := c.fn("", "ReceiveStream", "handleResetStreamFrameImpl")
	rs := c.fld("", "ReceiveStream", "reliableSize")
	cl := c.fld("", "ReceiveStream", "cancelledLocally")
	sig := c.obj("", "ReceiveStream", "signalRead")
	stores := findInstrs(f, StoresTo(rs))
	c.Floor(R, "stores of reliableSize in handleResetStreamFrameImpl", len(stores), 1)
	for i, st := range stores {
		st := st
		c.cut(R, fmt.Sprintf("wake:a changed reliable size signals the reader#%d", i+1), &Cut{Fn: f, Start: func(x ssa.Instruction) bool { return x == st }, Target: isReturn, Barrier: CallsTo(sig),
			Edge: EdgeRel(BoolTrue(Load(cl)), false)},
			"a Read blocked below the old reliable size re-checks only when it is woken; without the signal it waits for bytes the sender no longer owes")
	}
}

// C15.7: AcceptStream hands the wake-up on. newStreamChan holds at most one token; a caller that takes a stream while
// the next one is already open must put the token back, or a second blocked AcceptStream sleeps although its stream
// is in the map.
func c15AcceptPassesWakeupOn(c *Ctx) {
	const R = "C15.7"
	ch := c.fld("", "incomingStreamsMap", "newStreamChan")
	next := c.fld("", "incomingStreamsMap", "nextStreamToAccept")
	streams := c.fld("", "incomingStreamsMap", "streams")
	n := 0
	for _, f := range c.fns("", "incomingStreamsMap", "AcceptStream") {
		stores := findInstrs(f, func(in ssa.Instruction) bool {
			st, ok := in.(*ssa.Store)
			return ok && fieldOfAddress(st.Addr) == next
		})
		for _, st := range stores {
			st := st
			n++
			lookupOK := func(v ssa.Value) bool {
				ex, ok := v.(*ssa.Extract)
				if !ok || ex.Index != 1 {
					return false
				}
				lk, ok := ex.Tuple.(*ssa.Lookup)
				return ok && lk.CommaOk && loadsPath(lk.X, streams)
			}
			c.cut(R, fmt.Sprintf("pass-on:%s re-signals when the next stream is already open", funcName(f)), &Cut{Fn: f, Start: func(x ssa.Instruction) bool { return x == st }, Target: isReturn, Barrier: sendsOn(ch),
				Edge: EdgeRel(BoolTrue(lookupOK), true)},
				"two streams opened while two AcceptStream calls are between Unlock and select leave one token: the caller that takes it must pass it on")
		}
	}
	c.Floor(R, "advances of nextStreamToAccept in AcceptStream", n, 2)
}

// C18.10: a body that ends before its declared Content-Length is an error, on the receiving and on the sending side:
// body.Read turns an early io.EOF into io.ErrUnexpectedEOF, sendRequestBody refuses a body whose length differs from
// Request.ContentLength in either direction. (A DATA frame cut short by a clean FIN without a Content-Length is NOT
// covered: the repository's own pinned test TestHTTPDeadlines/write_deadline expects a clean EOF there.)
func c18ShortBodies(c *Ctx) {
	const R = "C18.10"
	isUnexpectedEOF := func(v ssa.Value) bool {
		u, ok := stripConv(v).(*ssa.UnOp)
		if !ok || u.Op != token.MUL {
			return false
		}
		g, ok := u.X.(*ssa.Global)
		return ok && g.Name() == "ErrUnexpectedEOF" && g.Pkg != nil && g.Pkg.Pkg.Path() == "io"
	}
	isEOF := func(v ssa.Value) bool {
		u, ok := stripConv(v).(*ssa.UnOp)
		if !ok || u.Op != token.MUL {
			return false
		}
		g, ok := u.X.(*ssa.Global)
		return ok && g.Name() == "EOF" && g.Pkg != nil && g.Pkg.Pkg.Path() == "io"
	}
	for _, spec := range []struct {
		recv, name, field, what string
	}{{"body", "Read", "remainingContentLength", "declared Content-Length"}} {
		f := c.fn(h3, spec.recv, spec.name)
		rem := c.fld(h3, spec.recv, spec.field)
		found := false
		for _, g := range helperRegion(f) {
			eachInstr(g, func(in ssa.Instruction) {
				r, ok := in.(*ssa.Return)
				if !ok {
					return
				}
				rs := retResults(r)
				if len(rs) != 2 || !isUnexpectedEOF(rs[1]) {
					return
				}
				// on the err == io.EOF edge, with something still outstanding
				if dominatedByEdge(r.Block(), Rel{Op: token.EQL, X: Any(), Y: isEOF}, false) &&
					(dominatedByEdge(r.Block(), Rel{Op: token.GTR, X: Load(rem), Y: ConstI(0)}, false) || dominatedByEdge(r.Block(), Rel{Op: token.NEQ, X: Load(rem), Y: ConstI(0)}, false)) &&
					!dependsOnReadCount(r.Block()) {
					found = true
				}
			})
		}
		c.Check(found, R, "short:"+spec.recv+"."+spec.name+" turns an early EOF into io.ErrUnexpectedEOF", c.P.Pos(f.Pos()),
			"the stream ended before the "+spec.what+" was received: reported as an error, not as a clean end of the body")
	}
	// sender
	f := c.fn(h3, "ClientConn", "sendRequestBody")
	cw := c.obj(h3, "RequestStream", "CancelWrite")
	okNE := false
	for _, in := range findInstrs(f, CallsTo(cw)) {
		notConst := func(v ssa.Value) bool { _, isK := stripConv(v).(*ssa.Const); return !isK }
		if dominatedByEdge(in.Block(), Rel{Op: token.NEQ, X: notConst, Y: ParamV("contentLength")}, false) {
			okNE = true
		}
	}
	c.Check(okNE, R, "short:sendRequestBody cancels the request when the body length differs from ContentLength", c.P.Pos(f.Pos()),
		"a body shorter than Request.ContentLength is refused like a longer one (net/http: ContentLength=N with Body length M)")
}

// C19.10: the request writer sends a method for every request net/http accepts: an empty Request.Method means GET and
// is written as GET, never as an empty :method (which the parser rejects).
func c19EmptyMethodIsGET(c *Ctx) {
	const R = "C19.10"
	f := c.fn(h3, "requestWriter", "encodeHeaders")
	method := c.fld("net/http", "Request", "Method")
	n := 0
	for _, g := range withAnon(f) {
		eachInstr(g, func(in ssa.Instruction) {
			cl, ok := in.(*ssa.Call)
			if !ok || len(cl.Call.Args) != 2 {
				return
			}
			if s, isS := constString(cl.Call.Args[0]); !isS || s != ":method" {
				return
			}
			n++
			v := cl.Call.Args[1]
			// free variables of the closure: look at what the enclosing function bound
			if fv, isFV := v.(*ssa.FreeVar); isFV {
				v = freeVarBinding(g, fv)
			}
			ok2 := false
			if v != nil {
				if u, isU := v.(*ssa.UnOp); isU && u.Op == token.MUL {
					// a local variable cell: some store into it is the constant "GET"
					if al, isAl := u.X.(*ssa.Alloc); isAl && al.Referrers() != nil {
						for _, r := range *al.Referrers() {
							if st, isSt := r.(*ssa.Store); isSt {
								if s, isS := constString(st.Val); isS && s == "GET" {
									ok2 = true
								}
							}
						}
					}
				}
				if ph, isPhi := v.(*ssa.Phi); isPhi {
					for _, e := range ph.Edges {
						if s, isS := constString(e); isS && s == "GET" {
							ok2 = true
						}
					}
				}
				if !ok2 && loadsPath(v, method) {
					ok2 = dominatedByEdge(in.Block(), Rel{Op: token.NEQ, X: Load(method), Y: isEmptyStringConst}, false)
				}
			}
			c.Check(ok2, R, fmt.Sprintf("method:the :method written is GET for an empty Request.Method#%d", n), c.P.InstrPos(in),
				"net/http documents the empty method as GET; written verbatim the request is rejected by every HTTP/3 server")
		})
	}
	c.Floor(R, ":method writes in encodeHeaders", n, 1)
}

// freeVarBinding: the value the enclosing function bound to closure g's free variable fv (nil if not found).
func freeVarBinding(g *ssa.Function, fv *ssa.FreeVar) ssa.Value {
	idx := -1
	for i, x := range g.FreeVars {
		if x == fv {
			idx = i
		}
	}
	p := g.Parent()
	if idx < 0 || p == nil {
		return nil
	}
	var out ssa.Value
	eachInstr(p, func(in ssa.Instruction) {
		if mc, ok := in.(*ssa.MakeClosure); ok && mc.Fn == ssa.Value(g) && idx < len(mc.Bindings) {
			out = mc.Bindings[idx]
		}
	})
	return out
}

// C10.10: a spec's connection-ID lengths are honoured whenever they are set: the branch that uses
// InitialPacketSpec.DestConnIDLength (resp. SrcConnIDLength) for generating the ID is taken for every non-zero value —
// the test compares the field with the constant 0 only (a narrower test silently replaces short lengths by a random
// one). And the frame budget a planned flight is validated against is the packet size minus the long header AND minus
// the AEAD overhead.
func c10SpecLengthsAndBudget(c *Ctx) {
	const R = "C10.10"
	dd := c.fn("", "UTransport", "doDial")
	dcl := c.fld("", "InitialPacketSpec", "DestConnIDLength")
	// a package-level function variable (replaceable in tests): calls load it from the global
	callsGen := func(in ssa.Instruction) bool {
		cl, ok := in.(*ssa.Call)
		if !ok {
			return false
		}
		u, ok := cl.Call.Value.(*ssa.UnOp)
		if !ok || u.Op != token.MUL {
			return false
		}
		g, ok := u.X.(*ssa.Global)
		return ok && g.Name() == "generateConnectionIDForInitialWithLength"
	}
	n := 0
	for _, in := range findInstrs(dd, callsGen) {
		n++
		// the dominating test of DestConnIDLength is `> 0` / `!= 0`
		ok := dominatedByEdge(in.Block(), Rel{Op: token.GTR, X: Load(dcl), Y: ConstI(0)}, false) || dominatedByEdge(in.Block(), Rel{Op: token.NEQ, X: Load(dcl), Y: ConstI(0)}, false)
		// and no other comparison of the field guards it
		other := false
		for d := in.Block(); d != nil && d.Idom() != nil; d = d.Idom() {
			id := d.Idom()
			ifi, isIf := id.Instrs[len(id.Instrs)-1].(*ssa.If)
			if !isIf {
				continue
			}
			bo, isB := ifi.Cond.(*ssa.BinOp)
			if !isB || !isCmp(bo.Op) {
				continue
			}
			for _, pr := range [][2]ssa.Value{{bo.X, bo.Y}, {bo.Y, bo.X}} {
				if Load(dcl)(pr[0]) && !ConstI(0)(pr[1]) {
					other = true
				}
			}
		}
		c.Check(ok && !other, R, fmt.Sprintf("honour:every non-zero DestConnIDLength is used for the Initial's destination connection ID#%d", n), c.P.InstrPos(in),
			"the spec's length is used on the `!= 0` edge and under no narrower test")
	}
	c.Floor(R, "generateConnectionIDForInitialWithLength calls in UTransport.doDial", n, 1)
	// budget = packetSize - header - AEAD overhead
	fb := c.fn("", "uPacketPacker", "initialFrameBudget")
	overhead := c.obj("", "sealer", "Overhead")
	getLen := c.obj("internal/wire", "ExtendedHeader", "GetLength")
	okBudget := false
	eachInstr(fb, func(in ssa.Instruction) {
		r, isR := in.(*ssa.Return)
		if !isR {
			return
		}
		// the returned value is computed from both subtrahends
		hasOv, hasHdr := false, false
		seen := map[ssa.Value]bool{}
		var walk func(v ssa.Value, d int, neg bool)
		walk = func(v ssa.Value, d int, neg bool) {
			if v == nil || d > 10 || seen[v] {
				return
			}
			seen[v] = true
			switch x := stripConv(v).(type) {
			case *ssa.BinOp:
				if x.Op == token.SUB {
					walk(x.X, d+1, neg)
					walk(x.Y, d+1, !neg)
				} else if x.Op == token.ADD {
					walk(x.X, d+1, neg)
					walk(x.Y, d+1, neg)
				}
			case *ssa.Call:
				if neg && CallTo(overhead, -1)(x) {
					hasOv = true
				}
				if neg && CallTo(getLen, -1)(x) {
					hasHdr = true
				}
				if builtinName(&x.Call) != "" {
					for _, a := range x.Call.Args {
						walk(a, d+1, neg)
					}
				}
			case *ssa.Phi:
				for _, e := range x.Edges {
					walk(e, d+1, neg)
				}
			}
		}
		for _, rv := range retResults(r) {
			walk(rv, 0, false)
		}
		if hasOv && hasHdr {
			okBudget = true
		}
	})
	c.Check(okBudget, R, "budget:frame budget = packet size − long header − AEAD overhead", c.P.Pos(fb.Pos()),
		"validateInitialFlight holds every planned payload against this budget: without the 16-byte tag a payload up to 16 bytes too large is accepted and the Initial leaves larger than the spec's packet size")
}

// C05.11: the header-protection key has the cipher suite's key length (16 bytes for AES-128 and ChaCha20's... 32 for
// AES-256 / ChaCha20): both header protectors expand the "hp" label to suite.KeyLen bytes.
func c05HPKeyLength(c *Ctx) {
	const R = "C05.11"
	exp := c.obj(hsk, "", "hkdfExpandLabel")
	keyLen := c.fld(hsk, "cipherSuite", "KeyLen")
	for _, name := range []string{"newAESHeaderProtector", "newChaChaHeaderProtector"} {
		f := c.fn(hsk, "", name)
		calls := findInstrs(f, CallsTo(exp))
		c.Floor(R, "hkdfExpandLabel calls in "+name, len(calls), 1)
		for i, in := range calls {
			args := in.(ssa.CallInstruction).Common().Args
			ok := len(args) == 5 && (loadsPath(args[4], keyLen) || func() bool {
				// suite is passed by value: Field of the parameter
				fl, base := loadedField(stripConv(args[4]))
				_ = base
				return fl == keyLen
			}())
			c.Check(ok, R, fmt.Sprintf("len:%s derives an hp key of suite.KeyLen bytes#%d", name, i+1), c.P.InstrPos(in),
				"RFC 9001 §5.4: the header protection key has the length of the AEAD key; a fixed 16 silently turns AES-256 header protection into AES-128 (symmetric between two such endpoints, wrong towards everyone else)")
		}
	}
}

// C09.15: the base offset handed to a per-datagram builder is the LOWEST offset of the CRYPTO frames being re-framed
// (the scan keeps a candidate only if it is lower than the current one), and QUICCryptoRange.resolve rejects a range
// whose resolved end lies before its resolved start (both resolved values, not the raw offset).
func c09BaseOffsetAndRange(c *Ctx) {
	const R = "C09.15"
	f := c.fn("", "uPacketPacker", "MarshalInitialPacketPayload")
	bfd := c.obj("", "QUICFrameBuilderEx", "BuildForDatagram")
	n := 0
	for _, in := range findInstrs(f, CallsTo(bfd)) {
		args := in.(ssa.CallInstruction).Common().Args
		if len(args) < 3 {
			continue
		}
		n++
		base := args[len(args)-1]
		// follow φs to the loop-carried minimum: some φ in the closure has an incoming value that is taken on the
		// `candidate < φ` edge
		okMin := false
		seen := map[ssa.Value]bool{}
		var walk func(v ssa.Value, d int)
		walk = func(v ssa.Value, d int) {
			if v == nil || d > 8 || seen[v] {
				return
			}
			seen[v] = true
			ph, ok := v.(*ssa.Phi)
			if !ok {
				return
			}
			for k, e := range ph.Edges {
				if _, isK := e.(*ssa.Const); !isK && e != ssa.Value(ph) {
					if _, isPhi := e.(*ssa.Phi); !isPhi {
						pred := ph.Block().Preds[k]
						isThisPhi := func(x ssa.Value) bool { _, p := x.(*ssa.Phi); return p }
						if dominatedByEdge(pred, Rel{Op: token.LSS, X: Same(e), Y: isThisPhi}, false) || blockIsEdgeSucc(pred, Rel{Op: token.LSS, X: Same(e), Y: isThisPhi}) {
							okMin = true
						}
					}
				}
				walk(e, d+1)
			}
		}
		walk(base, 0)
		c.Check(okMin, R, fmt.Sprintf("min:the base offset is the lowest CRYPTO frame offset#%d", n), c.P.InstrPos(in),
			"after a loss the retransmitted Initial is built from several CRYPTO frames: with any other offset than the lowest as base every re-framed CRYPTO frame is shifted")
	}
	c.Floor(R, "BuildForDatagram calls in MarshalInitialPacketPayload", n, 1)
	// resolve: end < start is an error, with both values as resolved
	rf := c.fn("", "QUICCryptoRange", "resolve")
	okCmp := false
	eachInstr(rf, func(in ssa.Instruction) {
		bo, ok := in.(*ssa.BinOp)
		if !ok || (bo.Op != token.LSS && bo.Op != token.GTR) {
			return
		}
		// neither side is the raw field r.Offset / r.Length, a parameter or a constant: both are computed values (φ / sums)
		computed := func(v ssa.Value) bool {
			switch x := stripConv(v).(type) {
			case *ssa.Phi:
				return true
			case *ssa.BinOp:
				return x.Op == token.ADD
			}
			return false
		}
		if computed(bo.X) && computed(bo.Y) {
			okCmp = true
		}
	})
	c.Check(okCmp, R, "range:resolve compares the resolved end with the resolved start", c.P.Pos(rf.Pos()),
		"an end-relative range with inverted ends must be rejected here: downstream its negative length becomes a 2^64-ish CRYPTO frame length (panic in quicvarint.Append)")
}

// blockIsEdgeSucc: b is the direct successor of a branch edge that implies r.
func blockIsEdgeSucc(b *ssa.BasicBlock, r Rel) bool {
	for _, p := range b.Preds {
		if len(p.Instrs) == 0 {
			continue
		}
		if ifi, ok := p.Instrs[len(p.Instrs)-1].(*ssa.If); ok {
			for s := 0; s < 2; s++ {
				if p.Succs[s] == b && EdgeImplies(ifi, s, r, false) {
					return true
				}
			}
		}
	}
	return false
}

// C20.8: the pacer converts exactly the elapsed time since the last send into new budget: the argument of
// timeScaledBandwidth is that difference itself, not a value raised by max(…) or a constant floor.
func c20PacerElapsedTime(c *Ctx) {
	const R = "C20.8"
	f := c.fn(cong, "pacer", "Budget")
	tsb := c.obj(cong, "pacer", "timeScaledBandwidth")
	n := 0
	for _, in := range findInstrs(f, CallsTo(tsb)) {
		n++
		args := in.(ssa.CallInstruction).Common().Args
		arg := args[len(args)-1]
		raised := false
		seen := map[ssa.Value]bool{}
		var walk func(v ssa.Value, d int)
		walk = func(v ssa.Value, d int) {
			if v == nil || d > 8 || seen[v] {
				return
			}
			seen[v] = true
			switch x := stripConv(v).(type) {
			case *ssa.Call:
				if b := builtinName(&x.Call); b == "max" {
					raised = true
				}
				for _, a := range x.Call.Args {
					walk(a, d+1)
				}
			case *ssa.BinOp:
				if x.Op == token.ADD {
					raised = true
				}
				walk(x.X, d+1)
				walk(x.Y, d+1)
			case *ssa.Phi:
				for _, e := range x.Edges {
					if _, isK := e.(*ssa.Const); isK {
						raised = true
					}
					walk(e, d+1)
				}
			}
		}
		walk(arg, 0)
		c.Check(!raised, R, fmt.Sprintf("elapsed:timeScaledBandwidth gets the elapsed time unmodified#%d", n), c.P.InstrPos(in),
			"any floor on the elapsed time credits bandwidth for time that did not pass, again after every send: over an interval the pacer authorises more than one burst plus 1.25 × bandwidth × time")
	}
	c.Floor(R, "timeScaledBandwidth calls in pacer.Budget", n, 1)
}

// C16.9: registering a new client connection never replaces the routing entry of a live one. The dial path stores
// handlers[srcConnID] = conn; that is safe when the source connection ID is fresh and non-empty, or when the store is
// guarded by a lookup. With a spec that asks for zero-length source connection IDs on a multi-use transport every
// connection has the same (empty) key.
func c16NoRoutingEntryReplaced(c *Ctx) {
	const R = "C16.9"
	handlers := c.fld("", "Transport", "handlers")
	n := 0
	for _, spec := range [][2]string{{"Transport", "doDial"}, {"UTransport", "doDial"}} {
		f := c.fn("", spec[0], spec[1])
		eachInstr(f, func(in ssa.Instruction) {
			mu, ok := in.(*ssa.MapUpdate)
			if !ok || !loadsPath(mu.Map, handlers) {
				return
			}
			n++
			// guarded by a comma-ok lookup of the same map on its not-present edge
			guarded := false
			for d := in.Block(); d != nil && d.Idom() != nil && !guarded; d = d.Idom() {
				id := d.Idom()
				ifi, isIf := id.Instrs[len(id.Instrs)-1].(*ssa.If)
				if !isIf || len(d.Preds) != 1 {
					continue
				}
				ex, isEx := condCore(ifi.Cond).(*ssa.Extract)
				if !isEx || ex.Index != 1 {
					continue
				}
				if lk, isLk := ex.Tuple.(*ssa.Lookup); isLk && lk.CommaOk && loadsPath(lk.X, handlers) {
					guarded = true
				}
			}
			// or the key cannot be empty / repeated: the generator is the transport's own, of a length fixed ≥ 4 at init
			// (base Transport only: a zero length is chosen only for single-use transports)
			key := fmt.Sprintf("no-replace:%s.%s registers the connection without replacing a live entry", spec[0], spec[1])
			if !guarded && spec[0] == "Transport" {
				c.OK(R, key, c.P.InstrPos(in), "exception: the plain transport generates fresh random source connection IDs of its configured length (≥ 4 bytes unless the transport is single-use, i.e. has exactly one connection)")
				return
			}
			c.Check(guarded, R, key, c.P.InstrPos(in),
				"a spec with SrcConnIDLength 0 (all built-in Chrome specs) installs an empty-ID generator on a multi-use transport: the second Dial overwrites handlers[\"\"] and the first connection stops receiving packets")
		})
	}
	c.Floor(R, "routing-table registrations on the dial paths", n, 2)
}

// C18.11: both roles keep reading the peer's control stream after its SETTINGS frame: rawConn.handleControlStream hands
// the stream to controlStrHandler, so every rawConn is created with one (or handleControlStream reads on by itself).
// Otherwise a second SETTINGS, DATA / HEADERS on the control stream or its closure go unanswered instead of
// H3_FRAME_UNEXPECTED / H3_CLOSED_CRITICAL_STREAM.
func c18ControlStreamReadOn(c *Ctx) {
	const R = "C18.11"
	nrc := c.obj(h3, "", "newRawConn")
	n := 0
	for _, f := range c.P.ScopeFuncs() {
		if funcPkgPath(f) != modPath+"/"+h3 {
			continue
		}
		for _, in := range findInstrsLocal(f, CallsTo(nrc)) {
			n++
			args := in.(ssa.CallInstruction).Common().Args
			// controlStrHandler is the fourth parameter
			ok := len(args) >= 4 && !IsNil()(args[3])
			c.FuncsSet[funcName(rootFn(f))] = true
			c.Check(ok, R, "control:"+funcName(rootFn(f))+" reads the peer's control stream beyond SETTINGS", c.P.InstrPos(in),
				"with a nil controlStrHandler nobody reads the control stream after the first frame: forbidden frames and the closure of the critical stream are never answered")
		}
	}
	c.Floor(R, "newRawConn call sites", n, 2)
}

// C16.10: a path that leaves a path manager gives its connection ID back. GetConnIDForPath takes a peer-issued ID out
// of the queue for the path (and registers its reset token); the only way back is retireConnID(pathID), which queues
// RETIRE_CONNECTION_ID. Every removal from the managers' path collections is paired with it — for every path, not only
// for those with an outstanding challenge, and including the path that is switched to (the connection keeps using the
// active ID).
func c16PathsGiveTheirConnIDBack(c *Ctx) {
	const R = "C16.10"
	callsField := func(name string) IP {
		return func(in ssa.Instruction) bool {
			cl, ok := in.(*ssa.Call)
			if !ok || cl.Call.IsInvoke() {
				return false
			}
			fl, _ := loadedField(stripConv(cl.Call.Value))
			return fl != nil && fl.Name() == name
		}
	}
	retire := callsField("retireConnID")
	n := 0
	// outgoing: delete(pm.paths, id)
	outPaths := c.fld("", "pathManagerOutgoing", "paths")
	for _, f := range c.P.ScopeFuncs() {
		if funcPkgPath(f) != modPath || f.Signature.Recv() == nil {
			continue
		}
		if rn := namedOf(f.Signature.Recv().Type()); rn == nil || rn.Obj().Name() != "pathManagerOutgoing" {
			continue
		}
		for _, in := range findInstrsLocal(f, func(x ssa.Instruction) bool {
			cl, ok := x.(*ssa.Call)
			return ok && builtinName(&cl.Call) == "delete" && loadsPath(cl.Call.Args[0], outPaths)
		}) {
			in := in
			n++
			c.FuncsSet[funcName(f)] = true
			c.cut(R, "retire:"+funcName(f)+" retires the path's connection ID before forgetting the path", &Cut{Fn: f, Target: func(x ssa.Instruction) bool { return x == in }, Barrier: retire},
				"a validated path has no outstanding challenge but still holds a connection ID: closing it without retireConnID leaks the ID and leaves its reset token registered")
		}
	}
	// incoming: SwitchToPath retires on every iteration of its loop
	sw := c.fn("", "pathManager", "SwitchToPath")
	inPaths := c.fld("", "pathManager", "paths")
	var starts []*ssa.BasicBlock
	eachInstr(sw, func(in ssa.Instruction) {
		// the loop body: the block that loads an element of pm.paths
		if ia, ok := in.(*ssa.IndexAddr); ok && loadsPath(ia.X, inPaths) {
			starts = append(starts, in.Block())
		}
		if ix, ok := in.(*ssa.Index); ok && loadsPath(ix.X, inPaths) {
			starts = append(starts, in.Block())
		}
	})
	latch := func(in ssa.Instruction) bool {
		bo, ok := in.(*ssa.BinOp)
		if !ok || bo.Op != token.ADD {
			return false
		}
		ph, ok := bo.X.(*ssa.Phi)
		return ok && strings.Contains(ph.Comment, "rangeindex")
	}
	c.Floor(R, "loop bodies over pm.paths in SwitchToPath", len(starts), 1)
	if len(starts) > 0 {
		n++
		c.cut(R, "retire:pathManager.SwitchToPath retires the connection ID of every path it forgets", &Cut{Fn: sw, StartBlocks: starts, Target: OrIP(latch, isReturn), Barrier: retire},
			"all paths are forgotten after a switch (pm.paths is cleared) and the connection goes on with the active connection ID: the ID taken for the path switched to must be retired like the others, or every migration leaks one of the peer's IDs")
	}
	c.Floor(R, "path removals checked", n, 2)
}

// C07.8: forgetting received packets raises the duplicate threshold. The history forgets in two places — DeleteBelow
// (the peer acknowledged our ACK) and the DoS defence that prunes the oldest ranges beyond MaxNumAckRanges. Both must
// leave deletedBelow at or above what was dropped, or IsPotentiallyDuplicate answers "new" for a packet that was
// already processed and its frames are handled a second time.
func c07ForgettingRaisesThreshold(c *Ctx) {
	const R = "C07.8"
	ranges := c.fld(ah, "receivedPacketHistory", "ranges")
	db := c.fld(ah, "receivedPacketHistory", "deletedBelow")
	n := 0
	for _, name := range []string{"ReceivedPacket", "DeleteBelow"} {
		f := c.fn(ah, "receivedPacketHistory", name)
		dels := findInstrs(f, func(in ssa.Instruction) bool {
			st, ok := in.(*ssa.Store)
			if !ok || fieldOfAddress(st.Addr) != ranges {
				return false
			}
			cl, ok := stripConv(st.Val).(*ssa.Call)
			if !ok {
				return false
			}
			// removal from the FRONT (slices.Delete(ranges, 0, k)): the merge of two adjacent ranges deletes in the middle
			// and forgets nothing
			return isSlicesFunc(cl.Call.StaticCallee(), "Delete") && len(cl.Call.Args) == 3 && ConstI(0)(cl.Call.Args[1])
		})
		for _, in := range dels {
			in := in
			n++
			// a store of deletedBelow on every path through the removal, before or after it
			before := (&Cut{Fn: f, Target: func(x ssa.Instruction) bool { return x == in }, Barrier: StoresTo(db)}).Run()
			var after *Witness
			if before != nil {
				after = (&Cut{Fn: f, Start: func(x ssa.Instruction) bool { return x == in }, Target: isReturn, Barrier: StoresTo(db)}).Run()
			}
			c.Check(before == nil || after == nil, R, fmt.Sprintf("forget:%s raises deletedBelow when it drops ranges#%d", name, n), c.P.InstrPos(in),
				"ranges dropped without raising the threshold make already processed packets look new: their frames are handled twice and they are acknowledged again")
		}
	}
	c.Floor(R, "removals from the front of the received ranges", n, 2)
}

// isSlicesFunc: sc is (an instantiation of) a function of package slices whose name starts with prefix.
func isSlicesFunc(sc *ssa.Function, prefix string) bool {
	if sc == nil {
		return false
	}
	g := sc
	if o := sc.Origin(); o != nil {
		g = o
	}
	return g.Pkg != nil && g.Pkg.Pkg.Path() == "slices" && strings.HasPrefix(g.Name(), prefix)
}

// C04.6: a MAX_STREAM_DATA / MAX_DATA frame is built only for a non-zero window update. GetWindowUpdate returns 0 for
// "nothing to announce" (in particular once the final offset of the stream is known); wrapped into a frame
// unconditionally that is a limit of 0, lower than what was advertised before. The connection-level caller tests
// `offset > 0`; the stream-level one must agree.
func c04NoZeroWindowUpdateFrame(c *Ctx) {
	const R = "C04.6"
	type site struct {
		fn    *ssa.Function
		field *types.Var
		what  string
	}
	gwS := c.obj("internal/flowcontrol", "StreamFlowController", "GetWindowUpdate")
	gwC := c.obj("internal/flowcontrol", "ConnectionFlowController", "GetWindowUpdate")
	msd := c.fld("internal/wire", "MaxStreamDataFrame", "MaximumStreamData")
	md := c.fld("internal/wire", "MaxDataFrame", "MaximumData")
	n := 0
	for _, f := range c.P.ScopeFuncs() {
		if funcPkgPath(f) != modPath {
			continue
		}
		for _, in := range findInstrsLocal(f, StoresTo(msd, md)) {
			st := in.(*ssa.Store)
			isUpd := func(v ssa.Value) bool { return CallTo(gwS, -1)(v) || CallTo(gwC, -1)(v) }
			if !isUpd(stripConv(st.Val)) {
				continue
			}
			n++
			c.FuncsSet[funcName(rootFn(f))] = true
			ok := dominatedByEdge(st.Block(), Rel{Op: token.GTR, X: isUpd, Y: ConstI(0)}, false) || dominatedByEdge(st.Block(), Rel{Op: token.NEQ, X: isUpd, Y: ConstI(0)}, false)
			c.Check(ok, R, fmt.Sprintf("nonzero:%s announces a window update only when there is one#%d", funcName(rootFn(f)), n), c.P.InstrPos(in),
				"GetWindowUpdate() == 0 means no update: a frame with that value advertises a limit of 0")
		}
	}
	c.Floor(R, "window-update frames built from GetWindowUpdate", n, 2)
}

// C07.9: an ACK that the packer took out of the received-packet tracker is put on the wire. GetAckFrame clears the
// tracker's "new ACK pending" state, so an ACK frame that is dequeued into payload.ack and then not serialised is lost
// until the peer retransmits. The spec packer re-serialises Initial payloads itself (MarshalInitialPacketPayload): it
// must read payload.ack like the stock serialiser (appendPacketPayload) does.
func c07DequeuedAckIsSerialised(c *Ctx) {
	const R = "C07.9"
	ack := c.fld("", "payload", "ack")
	for _, spec := range []struct{ recv, name string }{{"packetPacker", "appendPacketPayload"}, {"uPacketPacker", "MarshalInitialPacketPayload"}} {
		f := c.fn("", spec.recv, spec.name)
		reads := 0
		for _, g := range helperRegion(f) {
			eachInstr(g, func(in ssa.Instruction) {
				switch x := in.(type) {
				case *ssa.Field:
					if fieldOfField(x) == ack {
						reads++
					}
				case *ssa.FieldAddr:
					if fieldOfAddr(x) == ack {
						reads++
					}
				}
			})
		}
		c.Check(reads > 0, R, "serialise:"+spec.recv+"."+spec.name+" writes the payload's ACK frame", c.P.Pos(f.Pos()),
			"an Initial packet that carries frames AND an ACK is serialised from payload.frames only: the ACK is dequeued from the tracker (hasNewAck cleared) and never sent")
	}
}

// C04.7: the final size a sender announces in RESET_STREAM / RESET_STREAM_AT counts against the peer's flow-control
// limits like stream data does: it is the write offset (bytes the flow controller admitted), not a size that includes
// data Write only buffered.
func c04ResetFinalSizeWithinCredit(c *Ctx) {
	const R = "C04.7"
	fs := c.fld("internal/wire", "ResetStreamFrame", "FinalSize")
	wo := c.fld("", "SendStream", "writeOffset")
	n := 0
	for _, f := range c.P.ScopeFuncs() {
		if funcPkgPath(f) != modPath || f.Signature.Recv() == nil {
			continue
		}
		if rn := namedOf(f.Signature.Recv().Type()); rn == nil || rn.Obj().Name() != "SendStream" {
			continue
		}
		for _, in := range findInstrsLocal(f, StoresTo(fs)) {
			n++
			c.FuncsSet[funcName(f)] = true
			v := stripConv(in.(*ssa.Store).Val)
			c.Check(loadsPath(v, wo), R, fmt.Sprintf("credit:%s announces the write offset as final size#%d", funcName(f), n), c.P.InstrPos(in),
				"writeOffset only advances by what the stream and connection flow controllers admitted; a final size taken from elsewhere (the reliable size includes data still buffered in nextFrame) can exceed the peer's limits and is answered with FLOW_CONTROL_ERROR")
		}
	}
	c.Floor(R, "RESET_STREAM frames built by the send stream", n, 2)
}

// valueOf: the instruction as a value (nil if it is not one).
func valueOf(in ssa.Instruction) ssa.Value {
	v, _ := in.(ssa.Value)
	return v
}

// C09.14: the scrambler's ClientHello parser (sni.go) never indexes or slices out of bounds: every index/slice site
// reachable from findSNIAndECH is compiler-proven or follows from a length fact (BND engine).
func c09SNIParserBounds(c *Ctx) {
	const R = "C09.14"
	root, err := c.P.Func1("", "", "findSNIAndECH")
	if err != nil {
		c.Bad(R, "root:findSNIAndECH", "-", "parser entry point not found")
		return
	}
	c.FuncsSet[funcName(root)] = true
	fns := c.P.reachStatic([]*ssa.Function{root}, func(pk string) bool { return pk == modPath })
	unp, err := compilerUnproven(c.P.RepoDir, c.P.GOARCH, []string{"."})
	if err != nil {
		c.Err(R, "compiler bounds-check listing (root package)", err)
		return
	}
	c.Floor(R, "bounds checks the compiler could not remove in the root package (listing alive)", len(unp), 50)
	sites := c.P.bndSites(fns, unp, nil)
	c.Floor(R, "index/slice sites in the ClientHello parser", len(sites), 8)
	for _, st := range sites {
		c.FuncsSet[funcName(st.Fn)] = true
		key := st.Expr
		if i := strings.Index(key, " ("); i > 0 {
			key = key[:i]
		}
		c.Check(st.OK, R, "bnd:"+key, c.P.InstrPos(st.Instr), fmt.Sprintf("%s — %s", st.Expr, st.Why))
	}
}

// ---- C01.7: stream and framer state is only touched with the owner's mutex held ----

// guardedFields: fields that today are accessed under their struct's mutex at every site outside the constructors
// (discovered with `uqcheck -explore lock`, confirmed by reading, frozen here).
var guardedFields = map[string][]string{
	"SendStream":    {"cancellationFlagged", "completed", "dataForWriting", "deadline", "finSent", "finishedWriting", "nextFrame", "numOutstandingFrames", "queuedResetStreamFrame", "reliableSize", "resetErr", "retransmissionQueue", "shutdownErr", "writeOffset"},
	"ReceiveStream": {"cancelErr", "cancelledLocally", "cancelledRemotely", "closeForShutdownErr", "completed", "currentFrame", "currentFrameDone", "currentFrameIsLast", "deadline", "errorRead", "queuedMaxStreamData", "queuedStopSending", "readPos", "readPosInFrame", "reliableSize"},
	"framer":        {"controlFrames", "pathResponses"},
	"datagramQueue": {"rcvQueue"},
}

func c01Guarded(c *Ctx) {
	guardedRule(c, "C01.7", "", guardedFields, 250, "API calls and the run loop touch this state concurrently")
}

// guardedFieldsC15: the stream maps are used by the application (Open/Accept) and the run loop (frames) concurrently.
var guardedFieldsC15 = map[string][]string{
	"outgoingStreamsMap": {"blockedSent", "closeErr", "openQueue", "maxStream", "nextStream", "streams"},
	"incomingStreamsMap": {"streams", "nextStreamToAccept", "nextStreamToOpen", "maxNumStreams"},
	"streamsMap":         {"reset"},
}

func c15Guarded(c *Ctx) {
	guardedRule(c, "C15.6", "", guardedFieldsC15, 100, "OpenStream / AcceptStream callers and the run loop's frame handlers touch the maps concurrently")
}

// guardedFieldsC16: the routing table is shared by the receive loop, every connection's run loop and Close.
var guardedFieldsC16 = map[string][]string{
	"Transport": {"handlers", "resetTokens", "server"},
}

func c16Guarded(c *Ctx) {
	guardedRule(c, "C16.8", "", guardedFieldsC16, 25, "the receive loop, every connection and Close use the routing table concurrently")
}

// guardedFieldsC18: http3 state shared between request goroutines.
var guardedFieldsC18 = map[string][]string{
	"Server":              {"altSvcHeader", "closed", "listeners"},
	"Transport":           {"clients", "closed"},
	"stateTrackingStream": {"queue", "recvErr", "sendErr"},
	"rawConn":             {"streams"},
	"ClientConn":          {"lastStreamID", "maxStreamID"},
}

func c18Guarded(c *Ctx) {
	guardedRule(c, "C18.7", "http3", guardedFieldsC18, 50, "request goroutines, the control-stream reader and Close run concurrently")
}

// guardedRule: every access (outside constructors and init bodies) to the listed fields happens with a mutex of the
// owning struct held (LOCK engine).
func guardedRule(c *Ctx, R, pkg string, table map[string][]string, floor int, why string) {
	full := modPath
	if pkg != "" {
		full = modPath + "/" + pkg
	}
	acc := c.P.lockAnalysis(func(pk string) bool { return pk == full })
	want := map[*types.Var]string{}
	mutexes := map[*types.Var][]*types.Var{}
	for typ, fields := range table {
		tn := c.named(pkg, typ)
		st, ok := tn.Type().Underlying().(*types.Struct)
		if !ok {
			c.Bad(R, "struct:"+typ, "-", "not a struct")
			continue
		}
		var mus []*types.Var
		for i := 0; i < st.NumFields(); i++ {
			if typeIs(st.Field(i).Type(), "sync", "Mutex") || typeIs(st.Field(i).Type(), "sync", "RWMutex") {
				mus = append(mus, st.Field(i).Origin())
			}
		}
		if len(mus) == 0 {
			c.Bad(R, "mutex:"+typ, "-", "no mutex field found")
			continue
		}
		for _, f := range fields {
			v := c.fld(pkg, typ, f)
			want[v] = typ + "." + f
			mutexes[v] = mus
		}
	}
	n := map[string]int{}
	bad := map[string][]string{}
	for _, a := range acc {
		key, ok := want[a.Field]
		if !ok {
			continue
		}
		root := rootFn(a.Fn)
		if strings.HasPrefix(root.Name(), "new") || strings.HasPrefix(root.Name(), "init") {
			continue // construction: the object is not shared yet
		}
		n[key]++
		held := false
		for _, m := range mutexes[a.Field] {
			if a.Held[m] {
				held = true
			}
		}
		if !held {
			w := "read"
			if a.Write {
				w = "write"
			}
			bad[key] = append(bad[key], fmt.Sprintf("%s in %s at %s", w, funcName(a.Fn), c.P.InstrPos(a.Instr)))
		}
	}
	total := 0
	for _, key := range sortedKeys(wantKeys(want)) {
		total += n[key]
		c.Check(len(bad[key]) == 0 && n[key] > 0, R, "guarded:"+key, "-", fmt.Sprintf("%d accesses outside the constructors, all with the owner's mutex held (%s)%s", n[key], why, map[bool]string{true: "", false: " — without the mutex: " + strings.Join(bad[key], "; ")}[len(bad[key]) == 0]))
	}
	c.Floor(R, "accesses to guarded fields", total, floor)
}

func wantKeys(m map[*types.Var]string) map[string]bool {
	out := map[string]bool{}
	for _, v := range m {
		out[v] = true
	}
	return out
}

// ======== rules added after the second round of seeded changes ========

// C01.8: a send stream that handed out a retransmission still reports that it has more data, unless the answer
// is computed from everything that can still be pending (buffered frame, unsent data).
func c01HasMoreAfterRetransmission(c *Ctx) {
	const R = "C01.8"
	f := c.fn("", "SendStream", "popNewOrRetransmittedStreamFrame")
	mgr := c.obj("", "SendStream", "maybeGetRetransmission")
	nextFrame := c.fld("", "SendStream", "nextFrame")
	dfw := c.fld("", "SendStream", "dataForWriting")
	n := 0
	eachInstr(f, func(in ssa.Instruction) {
		r, ok := in.(*ssa.Return)
		if !ok {
			return
		}
		rs := retResults(r)
		if len(rs) != 3 || !phiClosureHas(rs[0], CallTo(mgr, 0)) {
			return
		}
		// only the return that hands out the retransmission frame itself
		if IsNil()(rs[0]) {
			return
		}
		n++
		if isConstBool(rs[2], true) {
			c.OK(R, "more:a retransmission is handed out with hasMoreData == true", c.P.InstrPos(in), "the stream stays in the framer's active set (a spurious extra call is harmless)")
			return
		}
		atoms := map[string]bool{}
		termKey(rs[2], 0, atoms)
		_, a := atoms[nextFrame.Name()]
		_, b := atoms[dfw.Name()]
		c.Check(a && b, R, "more:a retransmission is handed out with hasMoreData == true", c.P.InstrPos(in),
			fmt.Sprintf("hasMoreData is computed from %v: it must be true, or cover the buffered next frame and the unsent data; otherwise the framer drops a stream that still holds bytes and the tail is never sent", sortedSet(atoms)))
	})
	c.Floor(R, "returns handing out a retransmission", n, 1)
}

// C03.6: a remotely reset stream never ends in io.EOF: the frame popped from the queue is marked last only when the
// stream was not cancelled remotely.
func c03LastFrameNotAfterReset(c *Ctx) {
	const R = "C03.6"
	f := c.fn("", "ReceiveStream", "dequeueNextFrame")
	last := c.fld("", "ReceiveStream", "currentFrameIsLast")
	cr := c.fld("", "ReceiveStream", "cancelledRemotely")
	stores := findInstrs(f, StoresTo(last))
	c.Floor(R, "stores of currentFrameIsLast in dequeueNextFrame", len(stores), 1)
	for _, in := range stores {
		v := in.(*ssa.Store).Val
		ok, bad := true, ""
		var walk func(v ssa.Value, d int)
		seen := map[ssa.Value]bool{}
		walk = func(v ssa.Value, d int) {
			if seen[v] || d > 6 {
				return
			}
			seen[v] = true
			if p, isPhi := v.(*ssa.Phi); isPhi {
				for _, e := range p.Edges {
					walk(e, d+1)
				}
				return
			}
			if isConstBool(v, false) {
				return
			}
			// !cancelledRemotely
			if u, isU := v.(*ssa.UnOp); isU && u.Op == token.NOT && Load(cr)(u.X) {
				return
			}
			// or a value computed under a dominating !cancelledRemotely edge
			if dominatedByEdge(in.Block(), BoolTrue(Load(cr)), true) {
				return
			}
			ok, bad = false, v.String()
		}
		walk(v, 0)
		c.Check(ok, R, "last:currentFrameIsLast is false whenever the stream was reset by the peer", c.P.InstrPos(in),
			"readImpl returns io.EOF once the last frame is drained; after a RESET_STREAM(_AT) the reader must get the reset error instead"+map[bool]string{true: "", false: " — found leaf " + bad}[ok])
	}
}

// C04.5 (addition): once reading moved the read position, an effective remote cancellation abandons the flow
// controller before readImpl can return.
func c04AbandonInReadLoop(c *Ctx) {
	const R = "C04.5"
	ri := c.fn("", "ReceiveStream", "readImpl")
	readPos := c.fld("", "ReceiveStream", "readPos")
	abI := c.obj(fc, "StreamFlowController", "Abandon")
	irce := c.obj("", "ReceiveStream", "isRemoteCancellationEffective")
	stores := findInstrs(ri, StoresTo(readPos))
	c.Floor(R, "read position advances in readImpl", len(stores), 1)
	for _, st := range stores {
		st := st
		c.cut(R, "abandon-when-cancellation-becomes-effective", &Cut{Fn: ri, Start: func(i ssa.Instruction) bool { return i == st }, Target: isReturn,
			Barrier: CallsTo(abI), Edge: EdgeRel(BoolTrue(CallTo(irce, -1)), true)},
			"after the read position advanced, every return passes either the `cancellation not effective` edge or Abandon(): a reader whose buffer does not end exactly at the reliable size must still return the unread bytes as connection credit")
	}
}

// C06.5: the sent-packet history is positional (packets[i] is packet firstPacketNumber+i): a skipped number gets a
// placeholder exactly when the history is non-empty, the same quantity that decides when firstPacketNumber is re-based.
func c06PositionalHistory(c *Ctx) {
	const R = "C06.5"
	pk := "internal/ackhandler"
	sk := c.fn(pk, "sentPacketHistory", "SkippedPacket")
	chk := c.fn(pk, "sentPacketHistory", "checkSequentialPacketNumberUse")
	packets := c.fld(pk, "sentPacketHistory", "packets")
	first := c.fld(pk, "sentPacketHistory", "firstPacketNumber")
	lenPk := LenOf(Load(packets))
	// re-base of firstPacketNumber only when the history is empty
	for _, st := range findInstrs(chk, StoresTo(first)) {
		c.Check(dominatedByEdge(st.Block(), Rel{Op: token.EQL, X: lenPk, Y: ConstI(0)}, false), R, "rebase:firstPacketNumber is re-based only when the history is empty", c.P.InstrPos(st), "positions are relative to the first stored packet")
	}
	c.Floor(R, "re-base sites", len(findInstrs(chk, StoresTo(first))), 1)
	// placeholder for a skipped number exactly when the history is non-empty
	n := 0
	eachInstr(sk, func(in ssa.Instruction) {
		st, ok := in.(*ssa.Store)
		if !ok || fieldOfAddress(st.Addr) != packets {
			return
		}
		n++
		okG := dominatedByEdge(st.Block(), Rel{Op: token.GTR, X: lenPk, Y: ConstI(0)}, false) || dominatedByEdge(st.Block(), Rel{Op: token.NEQ, X: lenPk, Y: ConstI(0)}, false)
		c.Check(okG, R, "placeholder:a skipped packet number is stored as nil iff the history is non-empty", c.P.InstrPos(in),
			"with a non-empty history and no placeholder every later packet is filed one number too low: an ACK for N then acknowledges the frames of N+1")
	})
	c.Floor(R, "placeholder appends in SkippedPacket", n, 1)
	// and when the history is empty nothing is appended: the guard is the only path to the store (checked above by dominance)
}

// C05.6: every AEAD of the 1-RTT key schedule is created for the connection's own version.
func c05AEADVersion(c *Ctx) {
	const R = "C05.6"
	create := c.obj(hsk, "", "createAEAD")
	n := 0
	for _, cs := range c.P.CallSites(create) {
		ci, ok := cs.Instr.(ssa.CallInstruction)
		if !ok || len(ci.Common().Args) != 3 {
			continue
		}
		n++
		v := ci.Common().Args[2]
		f, _ := loadedField(stripConv(v))
		c.Check(f != nil && f.Name() == "version", R, "version:createAEAD is called with the owner's version@"+funcName(rootFn(cs.Fn)), c.P.InstrPos(cs.Instr),
			"key and IV labels differ between QUIC v1 and v2 (RFC 9369): an AEAD created for another version derives keys no RFC-conformant peer has")
	}
	c.Floor(R, "createAEAD call sites", n, 10)
}

// C05.7: both unpackers restore the bytes behind a short packet number for every length other than 4.
func c05RestorePNBytes(c *Ctx) {
	const R = "C05.7"
	len4 := c.konst("internal/protocol", "PacketNumberLen4")
	for _, spec := range [][2]string{{"packetUnpacker", "unpackShortHeader"}, {"", "unpackLongHeader"}} {
		f := c.fn("", spec[0], spec[1])
		n := 0
		eachInstr(f, func(in ssa.Instruction) {
			cl, ok := in.(*ssa.Call)
			if !ok || builtinName(&cl.Call) != "copy" {
				return
			}
			// the restoring copy: its source is a slice of the saved bytes with a non-constant low bound
			src, ok := cl.Call.Args[1].(*ssa.Slice)
			if !ok || src.Low == nil {
				return
			}
			if _, isK := constInt64Of(src.Low); isK {
				return
			}
			// the source is the locally saved copy (make([]byte, 4)), not the packet
			root := src.X
			for {
				if sl, ok := root.(*ssa.Slice); ok {
					root = sl.X
					continue
				}
				break
			}
			switch root.(type) {
			case *ssa.MakeSlice, *ssa.Alloc:
			default:
				return
			}
			n++
			okG := dominatedByEdge(cl.Block(), Rel{Op: token.NEQ, X: Any(), Y: ConstOf(len4)}, false)
			c.Check(okG, R, "restore:"+spec[1]+" puts back the saved bytes whenever the packet number is shorter than 4 bytes", c.P.InstrPos(in),
				"header protection is removed assuming a 4-byte packet number; for 1-, 2- and 3-byte numbers the bytes behind it are payload and must be restored, or the AEAD rejects a valid packet")
		})
		c.Floor(R, "restoring copies in "+spec[1], n, 1)
	}
}

// C08.7: the parser's reused ACK frame is reset before every parse.
func c08AckFrameReset(c *Ctx) {
	const R = "C08.7"
	f := c.fn(wirePkg, "FrameParser", "ParseAckFrame")
	reset := c.obj(wirePkg, "AckFrame", "Reset")
	parse := c.obj(wirePkg, "", "parseAckFrame")
	c.Floor(R, "parseAckFrame calls in ParseAckFrame", countInstr(f, CallsTo(parse)), 1)
	c.cut(R, "reset:the reused AckFrame is Reset() before it is parsed into", &Cut{Fn: f, Target: CallsTo(parse), Barrier: CallsTo(reset)},
		"parseAckFrame writes the ECN counts only for type 0x03: without the reset a plain ACK inherits the counts of the previous frame (the result depends on history)")
	// Reset clears every field of the frame
	rf := c.fn(wirePkg, "AckFrame", "Reset")
	st := c.named(wirePkg, "AckFrame").Type().Underlying().(*types.Struct)
	cleared := map[string]bool{}
	eachInstr(rf, func(in ssa.Instruction) {
		if fl := storedField(in); fl != nil {
			cleared[fl.Name()] = true
		}
	})
	for i := 0; i < st.NumFields(); i++ {
		c.Check(cleared[st.Field(i).Name()], R, "reset:AckFrame.Reset clears "+st.Field(i).Name(), c.P.Pos(rf.Pos()), "every field of the reused frame is re-initialised")
	}
}

// C07.6: the ACK that is sent because the alarm expired is decided on the alarm that was armed (and that
// GetAlarmTimeout reports to the connection's timer), not on a recomputed time.
func c07AlarmAgreement(c *Ctx) {
	const R = "C07.6"
	pk := "internal/ackhandler"
	g := c.fn(pk, "appDataReceivedPacketTracker", "GetAckFrame")
	alarm := c.fld(pk, "appDataReceivedPacketTracker", "ackAlarm")
	after := c.obj("internal/monotime", "Time", "After")
	n := 0
	eachInstr(g, func(in ssa.Instruction) {
		cl, ok := in.(*ssa.Call)
		if !ok || calleeObj(&cl.Call) != after {
			return
		}
		n++
		okA := Load(alarm)(cl.Call.Args[0]) && ParamV("now")(cl.Call.Args[1])
		c.Check(okA, R, "alarm:GetAckFrame tests the armed alarm against now", c.P.InstrPos(in),
			"the run-loop timer is set from GetAlarmTimeout() == ackAlarm; when it fires GetAckFrame must see that same alarm as expired, or an ack-eliciting packet is not acknowledged within max_ack_delay")
	})
	c.Floor(R, "alarm comparisons in GetAckFrame", n, 1)
	gt := c.fn(pk, "appDataReceivedPacketTracker", "GetAlarmTimeout")
	okG := false
	eachInstr(gt, func(in ssa.Instruction) {
		if r, ok := in.(*ssa.Return); ok && Load(alarm)(retResults(r)[0]) {
			okG = true
		}
	})
	c.Check(okG, R, "alarm:GetAlarmTimeout reports ackAlarm", c.P.Pos(gt.Pos()), "the timer and the expiry test use the same field")
}

// C09.9: a randomly split range has at least one byte per frame: the frame count is clamped to the range's length.
func c09SplitClamp(c *Ctx) {
	const R = "C09.9"
	f := c.fn("", "", "splitRange")
	length := BinV(token.SUB, ParamV("end"), ParamV("start"))
	n := 0
	eachInstr(f, func(in ssa.Instruction) {
		ms, ok := in.(*ssa.MakeSlice)
		if !ok {
			return
		}
		n++
		// the capacity is the number of frames
		c.Check(boundedBy(ms.Cap, length, ms.Block(), 0), R, "clamp:number of frames <= number of bytes in the range", c.P.InstrPos(in),
			"each frame needs at least one byte: an unclamped count makes the remaining-length draw non-positive (panic in crypto/rand) or produces CRYPTO frames outside the assigned range")
	})
	c.Floor(R, "frame list allocations in splitRange", n, 1)
}

// C10.8: the synthesized token is never shorter than its fixed prefix; the minimum-UDP-size padding applies only to
// datagrams whose size the plan does not pin.
func c10TokenAndPadding(c *Ctx) {
	const R = "C10.8"
	ctl := c.fld("", "InitialPacketSpec", "ClientTokenLength")
	ctp := c.fld("", "InitialPacketSpec", "ClientTokenPrefix")
	// wherever the spec's token length is read (outside UpdateConfig's presence test), it is max'ed with the prefix length
	nUse, nOK := 0, 0
	for _, g := range c.P.ScopeFuncs() {
		if funcPkgPath(g) != modPath {
			continue
		}
		eachInstr(g, func(in ssa.Instruction) {
			u, isU := in.(*ssa.UnOp)
			if !isU || !Load(ctl)(u) || u.Referrers() == nil {
				return
			}
			for _, r := range *u.Referrers() {
				switch x := r.(type) {
				case *ssa.BinOp:
					// comparisons (is a token configured at all?) are not size uses
					if isCmp(x.Op) {
						continue
					}
					nUse++
				case *ssa.Call:
					nUse++
					if MinMaxOf("max", Load(ctl), LenOf(Load(ctp)))(x) {
						nOK++
					}
				default:
					if _, isIf := r.(*ssa.If); !isIf {
						nUse++
					}
				}
			}
		})
	}
	c.Check(nUse >= 1 && nUse == nOK, R, "shape:token size = max(ClientTokenLength, len(ClientTokenPrefix))", "-",
		fmt.Sprintf("a token shorter than its prefix would be the truncated prefix: fixed bytes, identical on every dial (%d size uses of ClientTokenLength, %d inside max(·, len(prefix)))", nUse, nOK))
	f := c.fn("", "uPacketPacker", "appendInitialPacketPayload")
	minSize := c.fld("", "QUICSpec", "UDPDatagramMinSize")
	psz := c.fld("", "InitialPacketPlan", "PacketSize")
	// every read of UDPDatagramMinSize that sizes padding sits under PacketSize == 0
	n := 0
	eachInstr(f, func(in ssa.Instruction) {
		u, isU := in.(*ssa.UnOp)
		if !isU || !Load(minSize)(u) {
			return
		}
		n++
		okG := dominatedByEdge(u.Block(), Rel{Op: token.EQL, X: Load(psz), Y: ConstI(0)}, false)
		c.Check(okG, R, "guard:minimum-UDP-size padding only when the plan does not pin the packet size", c.P.InstrPos(in),
			"InitialPacketPlan.PacketSize is an exact size; padding such a datagram up to UDPDatagramMinSize changes the size the spec asked for")
	})
	c.Floor(R, "uses of UDPDatagramMinSize in appendInitialPacketPayload", n, 1)
}

// C11.8: PopulateFromUQUIC writes into the spec's parameter list only the placeholder it recognised: the store into
// the list is reached only past the successful type assertion and the empty-value test.
func c11PlaceholderOnly(c *Ctx) {
	const R = "C11.8"
	f := c.fn("internal/wire", "TransportParameters", "PopulateFromUQUIC")
	n := 0
	eachInstr(f, func(in ssa.Instruction) {
		st, ok := in.(*ssa.Store)
		if !ok {
			return
		}
		ia, ok := st.Addr.(*ssa.IndexAddr)
		if !ok || !ParamV("quicparams")(ia.X) {
			return
		}
		n++
		// dominated by the comma-ok true edge of an assertion to tls.InitialSourceConnectionID
		okAssert := false
		for d := st.Block(); d != nil && d.Idom() != nil; d = d.Idom() {
			id := d.Idom()
			ifi, isIf := id.Instrs[len(id.Instrs)-1].(*ssa.If)
			if !isIf || len(d.Preds) != 1 || id.Succs[0] != d {
				continue
			}
			if ex, isEx := ifi.Cond.(*ssa.Extract); isEx && ex.Index == 1 {
				if ta, isTA := ex.Tuple.(*ssa.TypeAssert); isTA && ta.CommaOk {
					if nm := namedOf(ta.AssertedType); nm != nil && nm.Obj().Name() == "InitialSourceConnectionID" {
						okAssert = true
					}
				}
			}
		}
		okEmpty := dominatedByEdge(st.Block(), Rel{Op: token.GTR, X: LenOf(Any()), Y: ConstI(0)}, true) || dominatedByEdge(st.Block(), Rel{Op: token.EQL, X: LenOf(Any()), Y: ConstI(0)}, false)
		c.Check(okAssert && okEmpty, R, "write:only the empty InitialSourceConnectionID placeholder is filled in", c.P.InstrPos(in),
			"every other parameter of the list — raw/fake ones with the same ID included — must reach the wire exactly as the spec gives it")
	})
	c.Floor(R, "stores into the spec's parameter list", n, 1)
}

// ---- C17.8 (W2): no lost wake-up — a method that changes state a blocked Read/Write re-checks signals it ----

func c17NoLostWakeup(c *Ctx) {
	const R = "C17.8"
	type side struct {
		typ, signal string
		waiters     []string // functions that wait (and re-check the predicate under the mutex)
		// fields the waiter itself writes (or that only matter to the owner goroutine) are excluded automatically
	}
	for _, sd := range []side{
		{"ReceiveStream", "signalRead", []string{"readImpl", "peekImpl"}},
		{"SendStream", "signalWrite", []string{"write"}},
	} {
		tn := c.named("", sd.typ)
		st := tn.Type().Underlying().(*types.Struct)
		sig := c.obj("", sd.typ, sd.signal)
		// P: fields of the stream that the waiters' branch conditions read (the wait predicate re-checked after a wake-up)
		P := map[*types.Var]bool{}
		waiterFns := map[*ssa.Function]bool{}
		isOwn := func(fl *types.Var) bool {
			for i := 0; i < st.NumFields(); i++ {
				if st.Field(i).Origin() == fl {
					return true
				}
			}
			return false
		}
		for _, w := range sd.waiters {
			f := c.fn("", sd.typ, w)
			for _, g := range c.P.reachStatic([]*ssa.Function{f}, func(pk string) bool { return pk == modPath }) {
				if g.Signature.Recv() != nil {
					if n := namedOf(g.Signature.Recv().Type()); n != nil && n.Obj() == tn {
						waiterFns[g] = true
					}
				}
			}
			var collect func(v ssa.Value, d int)
			seen := map[ssa.Value]bool{}
			collect = func(v ssa.Value, d int) {
				if v == nil || d > 6 || seen[v] {
					return
				}
				seen[v] = true
				if fl, _ := loadedField(stripConv(v)); fl != nil && isOwn(fl) {
					P[fl] = true
					return
				}
				switch x := stripConv(v).(type) {
				case *ssa.BinOp:
					collect(x.X, d+1)
					collect(x.Y, d+1)
				case *ssa.UnOp:
					collect(x.X, d+1)
				case *ssa.Phi:
					for _, e := range x.Edges {
						collect(e, d+1)
					}
				case *ssa.Call:
					// a predicate helper on the same receiver: the fields it returns from
					if sc := x.Call.StaticCallee(); sc != nil && waiterFns[sc] && len(sc.Blocks) <= 4 {
						eachInstr(sc, func(in ssa.Instruction) {
							if r, ok := in.(*ssa.Return); ok {
								for _, rv := range retResults(r) {
									collect(rv, d+1)
								}
							}
						})
					}
					for _, a := range x.Call.Args {
						collect(a, d+1)
					}
				}
			}
			for _, b := range f.Blocks {
				if ifi, ok := b.Instrs[len(b.Instrs)-1].(*ssa.If); ok {
					collect(ifi.Cond, 0)
				}
			}
		}
		c.Floor(R, "predicate fields of "+sd.typ, len(P), 5)
		// writers of P outside the waiters and the constructors
		n := 0
		for fl := range P {
			if typeIs(fl.Type(), "sync", "Mutex") {
				continue
			}
			for _, w := range c.P.Writers(fl) {
				f := rootFn(w.Fn)
				if waiterFns[w.Fn] || waiterFns[f] || strings.HasPrefix(f.Name(), "new") {
					continue
				}
				if f.Signature.Recv() == nil {
					continue
				}
				n++
				key := fmt.Sprintf("wake:%s.%s written in %s", sd.typ, fl.Name(), f.Name())
				if why, ok := wakeExceptions[sd.typ+"."+fl.Name()+"@"+f.Name()]; ok {
					c.OK(R, key, c.P.InstrPos(w.Instr), "exception: "+why)
					continue
				}
				// the signal follows the store on every path in this function, or in each direct caller after the call
				wit := (&Cut{Fn: w.Fn, Start: func(i ssa.Instruction) bool { return i == w.Instr }, Target: isReturn, Barrier: CallsTo(sig), DeferBarrier: true}).Run()
				ok := wit == nil
				if !ok {
					// wrapper pattern: fooImpl stores, its (private, same-receiver) callers signal after the call — up to 3 levels
					var after func(fn *ssa.Function, depth int) bool
					after = func(fn *ssa.Function, depth int) bool {
						obj := funcObj(fn)
						if obj == nil || depth > 3 {
							return false
						}
						sites := c.P.CallSites(obj)
						if len(sites) == 0 {
							return false
						}
						for _, cs := range sites {
							cs := cs
							if cs.Kind == "value" {
								return false
							}
							if (&Cut{Fn: cs.Fn, Start: func(i ssa.Instruction) bool { return i == cs.Instr }, Target: isReturn, Barrier: CallsTo(sig), DeferBarrier: true}).Run() == nil {
								continue
							}
							if waiterFns[cs.Fn] || waiterFns[rootFn(cs.Fn)] {
								continue // the waiter itself re-checks
							}
							if !after(rootFn(cs.Fn), depth+1) {
								return false
							}
						}
						return true
					}
					ok = after(f, 0)
				}
				c.Check(ok, R, key, c.P.InstrPos(w.Instr), "a blocked "+map[string]string{"ReceiveStream": "Read", "SendStream": "Write"}[sd.typ]+" re-checks this field only when it is woken: the writer must call "+sd.signal+"() on every path after the store")
			}
		}
		c.Floor(R, "writes of predicate fields of "+sd.typ+" outside the waiter", n, 5)
	}
}

// sendsOn: a (blocking or non-blocking) send on the channel held in the given field.
func sendsOn(ch *types.Var) IP {
	return func(in ssa.Instruction) bool {
		switch x := in.(type) {
		case *ssa.Send:
			return loadsPath(x.Chan, ch)
		case *ssa.Select:
			for _, st := range x.States {
				if st.Dir == types.SendOnly && loadsPath(st.Chan, ch) {
					return true
				}
			}
		}
		return false
	}
}

// C17.10: the datagram queue wakes its waiters. A Receive blocked on `rcvd` is woken by every datagram that is queued;
// an Add blocked on `sent` is woken by every Pop; CloseWithError records the error before it closes `closed` (a woken
// waiter returns closeErr) and closes it on every path.
func c17DatagramQueueWakeups(c *Ctx) { datagramQueueWakeups(c, "C17.10") }

func datagramQueueWakeups(c *Ctx, R string) {
	rcvQueue := c.fld("", "datagramQueue", "rcvQueue")
	rcvd := c.fld("", "datagramQueue", "rcvd")
	sent := c.fld("", "datagramQueue", "sent")
	closed := c.fld("", "datagramQueue", "closed")
	closeErr := c.fld("", "datagramQueue", "closeErr")
	h := c.fn("", "datagramQueue", "HandleDatagramFrame")
	n := 0
	for _, in := range findInstrs(h, StoresTo(rcvQueue)) {
		in := in
		if cl, ok := in.(*ssa.Store).Val.(*ssa.Call); !ok || builtinName(&cl.Call) != "append" {
			continue
		}
		n++
		c.cut(R, "wake:a queued datagram signals rcvd", &Cut{Fn: h, Start: func(x ssa.Instruction) bool { return x == in }, Target: isReturn, Barrier: sendsOn(rcvd)},
			"a Receive that found the queue empty waits on rcvd: a datagram queued without the signal is delivered only with the next one (or never)")
	}
	c.Floor(R, "receive-queue appends in HandleDatagramFrame", n, 1)
	pop := c.fn("", "datagramQueue", "Pop")
	c.cut(R, "wake:Pop signals sent", &Cut{Fn: pop, Target: isReturn, Barrier: sendsOn(sent)},
		"an Add blocked on a full send queue waits on sent: a Pop without the signal leaves it blocked although there is room")
	cw := c.fn("", "datagramQueue", "CloseWithError")
	isClose := func(in ssa.Instruction) bool {
		cl, ok := in.(*ssa.Call)
		return ok && builtinName(&cl.Call) == "close" && loadsPath(cl.Call.Args[0], closed)
	}
	c.cut(R, "close:closed is closed on every path", &Cut{Fn: cw, Target: isReturn, Barrier: isClose}, "blocked Add / Receive calls are released by the closed channel")
	c.cut(R, "close:closeErr recorded before closed is closed", &Cut{Fn: cw, Target: isClose, Barrier: StoresTo(closeErr)}, "a waiter woken by the closed channel returns closeErr: it must already hold the error")
	// the waiters listen on closed
	for _, wn := range []string{"Add", "Receive"} {
		f := c.fn("", "datagramQueue", wn)
		k := 0
		eachInstr(f, func(in ssa.Instruction) {
			sel, ok := in.(*ssa.Select)
			if !ok || !sel.Blocking {
				return
			}
			k++
			has := false
			for _, st := range sel.States {
				if st.Dir == types.RecvOnly && loadsPath(st.Chan, closed) {
					has = true
				}
			}
			c.Check(has, R, fmt.Sprintf("wait:%s#%d also waits on closed", wn, k), c.P.InstrPos(in), "a blocked call must be released when the connection closes")
		})
		c.Floor(R, "blocking selects in datagramQueue."+wn, k, 1)
	}
}

// wakeExceptions: writes of a predicate field that need no wake-up, with the reason.
var wakeExceptions = map[string]string{
	"ReceiveStream.finalOffset@handleStreamFrameImpl":      "set from a FIN frame; the same call then queues the frame and signals (Push → signalRead); the paths without a signal are the error return and the locally-cancelled stream, whose reader already returned",
	"ReceiveStream.finalOffset@handleResetStreamFrameImpl": "the reset path signals when it records the remote cancellation; duplicate resets and resets after a local CancelRead change nothing a blocked Read waits for",
	"ReceiveStream.reliableSize@handleResetStreamFrameImpl": "the only path from this store to a return without signalRead is the locally cancelled stream (no reader is left); the lowered-reliable-size path, which used to return unsignalled, was a genuine lost wake-up: repaired in 261dc1b and decided by C03.8",
	// (ReceiveStream.cancelledLocally@cancelReadImpl used to be listed here with the reason "the early returns are the
	// cases where … the peer reset the stream (Read is not blocked any more)". That is wrong with RESET_STREAM_AT: a reader
	// can still wait for the reliable part. The exception froze a genuine lost wake-up, found by the second audit of C03
	// (findings/audit/C03-r2-1) and repaired; the obligation is decided by the rule again.)
	"SendStream.finishedWriting@Close":                     "documented contract: Close must not be called concurrently with Write, so no Write is blocked",
	"SendStream.nextFrame@popNewStreamFrame":               "signals exactly when the buffered frame was popped completely (then a blocked Write may buffer again); a partially popped frame leaves a remainder and the packer is called again (onHasStreamData), which pops it and signals",
	"SendStream.dataForWriting@getDataForWriting":          "signals when all data was taken or when the remainder became bufferable (canBufferStreamFrame); otherwise the writer's condition is still false and the packer will be back (hasMoreData)",
}

// C13.6: after a Retry every ack-eliciting 0-RTT packet sent so far is queued for retransmission, unconditionally.
func c13RetryRequeues0RTT(c *Ctx) {
	const R = "C13.6"
	f := c.fn(ah, "sentPacketHandler", "ResetForRetry")
	packets := c.obj(ah, "sentPacketHistory", "Packets")
	appData := c.fld(ah, "sentPacketHandler", "appDataPackets")
	isAppPackets := func(in ssa.Instruction) bool {
		ci, ok := in.(ssa.CallInstruction)
		if !ok || !CallsTo(packets)(in) || len(ci.Common().Args) == 0 {
			return false
		}
		// receiver path goes through appDataPackets
		v := ci.Common().Args[0]
		for d := 0; d < 5 && v != nil; d++ {
			if fl, base := loadedField(v); fl != nil {
				if fl == appData {
					return true
				}
				v = base
				continue
			}
			if fa, ok := v.(*ssa.FieldAddr); ok {
				if fieldOfAddr(fa) == appData {
					return true
				}
				v = fa.X
				continue
			}
			break
		}
		return false
	}
	c.Floor(R, "iterations over the 0-RTT packet history in ResetForRetry", countInstr(f, isAppPackets), 1)
	c.cut(R, "pair:Retry ⇒ outstanding 0-RTT packets are requeued on every path", &Cut{Fn: f, Target: isReturn, Barrier: isAppPackets},
		"the server dropped all 0-RTT packets when it sent the Retry; whether or not a PTO fired before the Retry arrived, they must be retransmitted (the history is reset right after)")
}

// C16.7: the connection-ID generator of a server connection tracks the ID under which the connection is routed;
// retiring an ID always removes it from the active set.
func c16RoutedIDTracked(c *Ctx) {
	const R = "C16.7"
	ctor := c.funcVar("", "newConnection")
	ncg := c.obj("", "", "newConnIDGenerator")
	n := 0
	for _, in := range findInstrsLocal(ctor, CallsTo(ncg)) {
		n++
		args := in.(ssa.CallInstruction).Common().Args
		ok := len(args) >= 3 && isParamCell(args[2], "clientDestConnID")
		c.Check(ok, R, "origin:newConnection hands the routed client destination connection ID to the generator", c.P.InstrPos(in),
			"the server routes the connection under the DCID of the client's current Initial (after a Retry that is the Retry SCID, not the original DCID); the generator must retire and release exactly that ID")
	}
	c.Floor(R, "newConnIDGenerator calls in newConnection", n, 1)
	ret := c.fn("", "connIDGenerator", "Retire")
	q := c.obj("", "connIDGenerator", "queueConnIDForRetiring")
	active := c.fld("", "connIDGenerator", "activeSrcConnIDs")
	isDel := func(in ssa.Instruction) bool {
		cl, ok := in.(*ssa.Call)
		return ok && builtinName(&cl.Call) == "delete" && Load(active)(cl.Call.Args[0])
	}
	c.Floor(R, "queueConnIDForRetiring calls in Retire", countInstr(ret, CallsTo(q)), 1)
	c.cut(R, "pair:a retired connection ID leaves the active set", &Cut{Fn: ret, Start: CallsTo(q), Target: isReturn, Barrier: isDel},
		"an ID queued for removal that stays in activeSrcConnIDs is routed again by AddConnRunner / ReplaceWithClosed after its retirement period")
}

// C19.7: the response writer drops "Trailer:"-prefixed keys before lower-casing (the prefix is spelled with a capital T).
func c19TrailerPrefixBeforeLower(c *Ctx) {
	const R = "C19.7"
	f := c.fn(h3, "responseWriter", "writeHeader")
	hasPrefix := c.obj("strings", "", "HasPrefix")
	toLower := c.obj("strings", "", "ToLower")
	n := 0
	for _, in := range findInstrs(f, CallsTo(hasPrefix)) {
		args := in.(ssa.CallInstruction).Common().Args
		pfx, isK := constString(args[1])
		if !isK || pfx != "Trailer:" {
			continue
		}
		n++
		lowered := false
		if cl, ok := stripConv(args[0]).(*ssa.Call); ok && calleeObj(&cl.Call) == toLower {
			lowered = true
		}
		c.Check(!lowered, R, "filter:the Trailer: prefix test sees the key as the handler set it", c.P.InstrPos(in),
			"http.TrailerPrefix is \"Trailer:\" with a capital T: tested on the lower-cased name it never matches, and a field named trailer:x (invalid) is written into the header section")
	}
	c.Floor(R, "Trailer: prefix tests in writeHeader", n, 1)
}

// C20.5: growth is allowed below a full window only in slow start; a larger datagram size re-pins a window that
// sat at the minimum, judged against the OLD minimum.
func c20AppLimitedAndMTU(c *Ctx) {
	const R = "C20.5"
	cg := "internal/congestion"
	f := c.fn(cg, "cubicSender", "isCwndLimited")
	iss := c.obj(cg, "cubicSender", "InSlowStart")
	// the comparison bytesInFlight > cwnd/2 is evaluated only past InSlowStart()==true
	n := 0
	eachInstr(f, func(in ssa.Instruction) {
		bo, ok := in.(*ssa.BinOp)
		if !ok || bo.Op != token.GTR || !ParamV("bytesInFlight")(bo.X) {
			return
		}
		if q, ok := stripConv(bo.Y).(*ssa.BinOp); !ok || q.Op != token.QUO {
			return
		}
		n++
		c.Check(dominatedByEdge(bo.Block(), BoolTrue(CallTo(iss, -1)), false), R, "guard:the half-window shortcut applies in slow start only", c.P.InstrPos(in),
			"in congestion avoidance an application-limited sender (more than half, but not the whole window in flight) must not grow the window")
	})
	c.Floor(R, "half-window comparisons in isCwndLimited", n, 1)
	// SetMaxDatagramSize: once the new size is stored, every path to the return leaves the window at or above the
	// two-packet minimum computed from the NEW size
	s := c.fn(cg, "cubicSender", "SetMaxDatagramSize")
	mds := c.fld(cg, "cubicSender", "maxDatagramSize")
	minW := c.obj(cg, "cubicSender", "minCongestionWindow")
	cw := c.fld(cg, "cubicSender", "congestionWindow")
	sizeStores := findInstrsLocal(s, StoresTo(mds))
	c.Floor(R, "stores of maxDatagramSize in SetMaxDatagramSize", len(sizeStores), 1)
	// minCongestionWindow() evaluated after the store of the new size
	newMin := func(v ssa.Value) bool {
		cl, ok := stripConv(v).(*ssa.Call)
		if !ok || !CallTo(minW, -1)(cl) {
			return false
		}
		for _, st := range sizeStores {
			if !instrReaches(st, cl) || instrReaches(cl, st) {
				return false
			}
		}
		return true
	}
	loadCw := func(v ssa.Value) bool { return loadsPath(v, cw) }
	reclamp := func(in ssa.Instruction) bool {
		st, ok := in.(*ssa.Store)
		if !ok || fieldOfAddress(st.Addr) != cw {
			return false
		}
		if newMin(st.Val) {
			return true
		}
		if cl, ok := stripConv(st.Val).(*ssa.Call); ok && builtinName(&cl.Call) == "max" && len(cl.Call.Args) == 2 {
			a, b := cl.Call.Args[0], cl.Call.Args[1]
			return (loadCw(a) && newMin(b)) || (loadCw(b) && newMin(a))
		}
		return false
	}
	for _, st := range sizeStores {
		st := st
		c.cut(R, "post:the window is at least the new two-packet minimum after an MTU increase", &Cut{Fn: s, Start: func(x ssa.Instruction) bool { return x == st }, Target: isReturn, Barrier: reclamp,
			Edge: EdgeRel(Rel{Op: token.GEQ, X: loadCw, Y: newMin}, false)},
			"minCongestionWindow() is 2 × maxDatagramSize: a window between the old and the new minimum must be raised, or it stays below two full-size packets")
	}
}

// C11.9: in every built-in spec the presence of each frame type in the Initial flight is the same on every dial: a
// randomised PING count has a lower bound of at least one, or can only be zero. The reference fingerprinter hashes the
// set of frame types of the client's Initial packets, so a frame type that is present on some dials only makes the
// fingerprint identifier differ between dials of the same built-in spec.
func c11FramePresenceDeterministic(c *Ctx) {
	const R = "C11.9"
	f := c.fn("", "", "QUICID2Spec")
	qid := c.named("", "QUICID")
	tn := c.named("", "QUICRandomFrames")
	minF := c.fld("", "QUICRandomFrames", "MinPING")
	maxF := c.fld("", "QUICRandomFrames", "MaxPING")
	caseOf := func(b *ssa.BasicBlock) string {
		for d := b; d != nil && d.Idom() != nil; d = d.Idom() {
			id := d.Idom()
			ifi, ok := id.Instrs[len(id.Instrs)-1].(*ssa.If)
			if !ok || id.Succs[0] != d {
				continue
			}
			bo, ok := ifi.Cond.(*ssa.BinOp)
			if !ok || bo.Op != token.EQL {
				continue
			}
			for _, x := range []ssa.Value{bo.X, bo.Y} {
				if u, ok := x.(*ssa.UnOp); ok && u.Op == token.MUL {
					if g, ok := u.X.(*ssa.Global); ok && types.Identical(g.Type().(*types.Pointer).Elem(), qid.Type()) {
						return g.Name()
					}
				}
			}
		}
		return "?"
	}
	n := 0
	perCase := map[string]int{}
	for _, g := range withAnon(f) {
		for _, b := range g.Blocks {
			for _, in := range b.Instrs {
				al, ok := in.(*ssa.Alloc)
				if !ok || !types.Identical(al.Type().(*types.Pointer).Elem(), tn.Type()) {
					continue
				}
				n++
				lo, hi := int64(0), int64(0)
				exact := true
				if rs := al.Referrers(); rs != nil {
					for _, r := range *rs {
						fa, ok := r.(*ssa.FieldAddr)
						if !ok {
							continue
						}
						fld := fieldOfAddress(fa)
						if fld != minF && fld != maxF {
							continue
						}
						if frs := fa.Referrers(); frs != nil {
							for _, fr := range *frs {
								st, ok := fr.(*ssa.Store)
								if !ok || st.Addr != ssa.Value(fa) {
									continue
								}
								k, isK := stripConv(st.Val).(*ssa.Const)
								if !isK || k.Value == nil {
									exact = false
									continue
								}
								v, _ := constant.Int64Val(k.Value)
								if fld == minF {
									lo = v
								} else {
									hi = v
								}
							}
						}
					}
				}
				name := caseOf(b)
				perCase[name]++
				key := fmt.Sprintf("presence:PING in the %s spec#%d", name, perCase[name])
				// the count is drawn from [Min, Max) when Max > Min, and is Min otherwise
				det := exact && (lo >= 1 || hi <= 1)
				c.Check(det, R, key, c.P.InstrPos(in), fmt.Sprintf("MinPING=%d MaxPING=%d: the PING frame type is %s", lo, hi,
					map[bool]string{true: "present on every dial or on none", false: "present on some dials and absent on others (count 0 is drawn with probability 1/(Max-Min)): the reference fingerprinter's identifier, which hashes the set of frame types, differs between dials"}[det]))
			}
		}
	}
	c.Floor(R, "QUICRandomFrames literals in QUICID2Spec", n, 4)
}

// C20.6: probe credit (numProbesToSend), which lets SendMode bypass the congestion window, is granted only by the
// loss-detection timeout and is cancelled by every ACK that was processed, unconditionally.
func c20ProbeCredit(c *Ctx) {
	const R = "C20.6"
	np := c.fld(ah, "sentPacketHandler", "numProbesToSend")
	c.checkWriters(R, np, c.set([3]string{ah, "sentPacketHandler", "DropPackets"}, [3]string{ah, "sentPacketHandler", "SentPacket"},
		[3]string{ah, "sentPacketHandler", "ReceivedAck"}, [3]string{ah, "sentPacketHandler", "OnLossDetectionTimeout"}), 5)
	ra := c.fn(ah, "sentPacketHandler", "ReceivedAck")
	dlp := c.obj(ah, "sentPacketHandler", "detectLostPackets")
	reset := func(in ssa.Instruction) bool {
		st, ok := in.(*ssa.Store)
		if !ok || fieldOfAddress(st.Addr) != np {
			return false
		}
		k, isK := st.Val.(*ssa.Const)
		if !isK || k.Value == nil {
			return false
		}
		n, exact := constant.Int64Val(k.Value)
		return exact && n == 0
	}
	c.Floor(R, "detectLostPackets calls in ReceivedAck", countInstr(ra, CallsTo(dlp)), 1)
	c.cut(R, "reset:an ACK that was processed cancels leftover probe credit", &Cut{Fn: ra, Start: CallsTo(dlp), Target: isReturn, Barrier: reset},
		"SendMode returns the PTO modes while numProbesToSend > 0 without asking the congestion controller: credit that survives an ACK releases ack-eliciting data beyond the window with no PTO pending")
}

// C18.8: responseWriter.Write counts every byte it accepts (numWritten) and compares the count with a declared
// Content-Length before it reports the bytes as written, on every path (HEAD included: the count becomes the
// Content-Length of a HEAD response).
func c18WriteAccounting(c *Ctx) {
	const R = "C18.8"
	f := c.fn(h3, "responseWriter", "Write")
	nw := c.fld(h3, "responseWriter", "numWritten")
	cl := c.fld(h3, "responseWriter", "contentLen")
	accepts := func(in ssa.Instruction) bool {
		r, ok := in.(*ssa.Return)
		if !ok {
			return false
		}
		rs := retResults(r)
		if len(rs) != 2 {
			return false
		}
		if k, isK := rs[0].(*ssa.Const); isK && k.Value != nil {
			if n, exact := constant.Int64Val(k.Value); exact && n == 0 {
				return false
			}
		}
		return true
	}
	count := func(in ssa.Instruction) bool {
		st, ok := in.(*ssa.Store)
		if !ok || fieldOfAddress(st.Addr) != nw {
			return false
		}
		return BinV(token.ADD, func(v ssa.Value) bool { return loadsPath(v, nw) }, func(v ssa.Value) bool { return LenOf(ParamV("p"))(stripConv(v)) })(st.Val)
	}
	compare := func(in ssa.Instruction) bool {
		b, ok := in.(*ssa.BinOp)
		if !ok {
			return false
		}
		switch b.Op {
		case token.GTR, token.LSS, token.GEQ, token.LEQ:
		default:
			return false
		}
		return (loadsPath(b.X, nw) && loadsPath(b.Y, cl)) || (loadsPath(b.X, cl) && loadsPath(b.Y, nw))
	}
	c.Floor(R, "accepting returns of responseWriter.Write", countInstr(f, accepts), 2)
	c.cut(R, "count:bytes are accepted only after numWritten += len(p)", &Cut{Fn: f, Target: accepts, Barrier: count},
		"numWritten is what the server turns into the Content-Length of an unflushed (in particular HEAD) response and what is held against a declared Content-Length")
	c.cut(R, "limit:bytes are accepted only after the Content-Length comparison", &Cut{Fn: f, Target: accepts, Barrier: compare,
		Edge: EdgeRel(Rel{Op: token.EQL, X: func(v ssa.Value) bool { return loadsPath(v, cl) }, Y: ConstI(0)}, false)},
		"a handler cannot write more than the Content-Length it declared")
}

// C18.9: repeated field names in a decoded header / trailer section accumulate (Header.Add), none replaces another.
func c18FieldsAccumulate(c *Ctx) {
	const R = "C18.9"
	addM := c.obj("net/http", "Header", "Add")
	setM := c.obj("net/http", "Header", "Set")
	for _, name := range []string{"parseHeaders", "parseTrailers"} {
		f := c.fn(h3, "", name)
		c.Floor(R, "Header.Add in "+name, countInstr(f, CallsTo(addM)), 1)
		// Set with a constant key (the Content-Length normalisation) is not a decoded field
		bad := 0
		for _, in := range findInstrs(f, CallsTo(setM)) {
			args := in.(ssa.CallInstruction).Common().Args
			if len(args) < 2 {
				bad++
				continue
			}
			if _, isK := args[1].(*ssa.Const); !isK {
				bad++
			}
		}
		c.Check(bad == 0, R, "accumulate:"+name+" never replaces a decoded field", c.P.Pos(f.Pos()), "a field name that occurs twice in the section keeps both values (Header.Set only with a constant key)")
	}
}

// C18.6: the request body is only ever read through the cancelingReader (which resets the stream when the body
// source fails): the raw body parameter is used for Close and as the wrapped reader, nothing else.
func c18BodyThroughCancelingReader(c *Ctx) {
	const R = "C18.6"
	f := c.fn(h3, "ClientConn", "sendRequestBody")
	var body *ssa.Parameter
	for _, p := range f.Params {
		if p.Name() == "body" {
			body = p
		}
	}
	if body == nil || body.Referrers() == nil {
		c.Bad(R, "origin:request body read through the cancelingReader", c.P.Pos(f.Pos()), "parameter body not found")
		return
	}
	n, bad := 0, ""
	var visit func(v ssa.Value, d int)
	visit = func(v ssa.Value, d int) {
		if v.Referrers() == nil || d > 3 {
			return
		}
		for _, r := range *v.Referrers() {
			switch x := r.(type) {
			case *ssa.Defer:
				// defer body.Close()
				if x.Call.IsInvoke() && x.Call.Method.Name() == "Close" {
					continue
				}
				bad = "deferred use other than Close at " + c.P.InstrPos(r)
			case *ssa.Store:
				// stored into the cancelingReader literal's r field
				if fa, ok := x.Addr.(*ssa.FieldAddr); ok && fieldOfAddr(fa).Name() == "r" {
					if nm := namedOf(derefType(fa.X.Type())); nm != nil && nm.Obj().Name() == "cancelingReader" {
						n++
						continue
					}
				}
				bad = "stored somewhere else at " + c.P.InstrPos(r)
			case *ssa.ChangeInterface:
				visit(x, d+1)
			case *ssa.MakeInterface:
				visit(x, d+1)
			case *ssa.DebugRef:
			default:
				if ci, ok := r.(ssa.CallInstruction); ok && ci.Common().IsInvoke() && ci.Common().Method.Name() == "Close" {
					continue
				}
				bad = fmt.Sprintf("%T at %s", r, c.P.InstrPos(r))
			}
		}
	}
	visit(body, 0)
	c.Check(n >= 1 && bad == "", R, "origin:request body read through the cancelingReader", c.P.Pos(f.Pos()),
		"a body source that fails mid-stream must cancel the request stream (H3_REQUEST_CANCELLED); read directly, the failure ends the stream with a clean FIN and the server sees a truncated body as complete"+map[bool]string{true: "", false: " — body is used: " + bad}[bad == ""])
}

// ---- C17.9: every mutex acquired is released on every path ----

// lockHandOffs: functions that return with a mutex still held on purpose, with the reason.
var lockHandOffs = map[string]string{
	"(*quic.ReceiveStream).readImpl/mutex": "called by Read with the mutex held (checked: every call site holds it); releases it only around the wait for data and re-acquires it before returning to Read, which unlocks",
}

func c17LockPairing(c *Ctx) {
	const R = "C17.9"
	inScope := func(pk string) bool {
		return pk == modPath || pk == modPath+"/http3" || strings.HasPrefix(pk, modPath+"/internal/flowcontrol") || strings.HasPrefix(pk, modPath+"/internal/ackhandler") || strings.HasPrefix(pk, modPath+"/internal/handshake") || strings.HasPrefix(pk, modPath+"/internal/utils")
	}
	nLock, nFn := 0, 0
	for _, f := range c.P.ScopeFuncs() {
		if !inScope(funcPkgPath(f)) {
			continue
		}
		// locks by mutex field
		by := map[*types.Var][]ssa.Instruction{}
		eachInstr(f, func(in ssa.Instruction) {
			if _, isDefer := in.(*ssa.Defer); isDefer {
				return
			}
			if fld, op := mutexOp(in); fld != nil && op == "lock" {
				by[fld] = append(by[fld], in)
			}
		})
		if len(by) == 0 {
			continue
		}
		nFn++
		for fld, locks := range by {
			fld := fld
			nLock += len(locks)
			isUnlock := func(in ssa.Instruction) bool {
				g, op := mutexOp(in)
				return g == fld && op == "unlock"
			}
			key := fmt.Sprintf("pair:%s releases %s on every path", funcName(f), fld.Name())
			if why, ok := lockHandOffs[funcName(f)+"/"+fld.Name()]; ok {
				// the hand-off is only sound if every caller holds the mutex at the call and releases it afterwards
				held := true
				if obj := funcObj(f); obj != nil {
					sites := c.P.CallSites(obj)
					if len(sites) == 0 {
						held = false
					}
					for _, cs := range sites {
						li := locksIn(cs.Fn, lockSet{})
						if !li.At[cs.Instr][fld] {
							held = false
						}
						cs := cs
						if (&Cut{Fn: cs.Fn, Start: func(i ssa.Instruction) bool { return i == cs.Instr }, Target: isReturn, Barrier: isUnlock, DeferBarrier: true, NoInline: true}).Run() != nil && !deferredUnlockBefore(cs.Fn, cs.Instr, fld) {
							held = false
						}
					}
				}
				c.Check(held, R, key, c.P.Pos(f.Pos()), "exception (lock hand-off): "+why)
				continue
			}
			// per acquisition: released on every path after it, or covered by a deferred Unlock registered earlier
			var w *Witness
			for _, l := range locks {
				l := l
				if deferredUnlockBefore(f, l, fld) {
					continue
				}
				if wl := (&Cut{Fn: f, Start: func(i ssa.Instruction) bool { return i == l }, Target: isReturn, Barrier: isUnlock, DeferBarrier: true, NoInline: true}).Run(); wl != nil {
					w = wl
				}
			}
			detail := "a mutex that is still held when the function returns blocks every later caller: API calls, the run loop and teardown hang"
			if w != nil {
				detail += " — " + w.String(c.P)
			}
			c.FuncsSet[funcName(f)] = true
			c.Check(w == nil, R, key, c.P.Pos(f.Pos()), detail)
		}
	}
	c.Floor(R, "mutex acquisitions checked", nLock, 150)
	c.Floor(R, "functions acquiring a mutex", nFn, 100)
}

// deferredUnlockBefore: a `defer m.Unlock()` of the same mutex is registered on every path before instruction at
// (it dominates it).
func deferredUnlockBefore(f *ssa.Function, at ssa.Instruction, fld *types.Var) bool {
	found := false
	eachInstr(f, func(in ssa.Instruction) {
		d, ok := in.(*ssa.Defer)
		if !ok {
			return
		}
		g, op := mutexOp(d)
		if g != fld || op != "unlock" {
			return
		}
		if d.Block() == at.Block() {
			for _, x := range d.Block().Instrs {
				if x == ssa.Instruction(d) {
					found = true
					return
				}
				if x == at {
					return
				}
			}
		}
		if dominatedByBlock(at.Block(), d.Block()) && d.Block() != at.Block() {
			found = true
		}
	})
	return found
}

// ======== rules added after the third round (weakest properties) ========

// C05.8: a key roll re-initialises every per-key-phase field; the Retry tag buffer is reset before its mutex is released.
func c05PhaseStateAndRetryBuf(c *Ctx) {
	const R = "C05.8"
	rk := c.fn(hsk, "updatableAEAD", "rollKeys")
	st := c.named(hsk, "updatableAEAD").Type().Underlying().(*types.Struct)
	stored := map[string]bool{}
	eachInstr(rk, func(in ssa.Instruction) {
		if fl := storedField(in); fl != nil {
			stored[fl.Name()] = true
		}
	})
	n := 0
	for i := 0; i < st.NumFields(); i++ {
		name := st.Field(i).Name()
		if !strings.HasSuffix(name, "WithCurrentKey") {
			continue
		}
		n++
		c.Check(stored[name], R, "reset:rollKeys re-initialises "+name, c.P.Pos(rk.Pos()), "per-key-phase state carried over a key update breaks the RFC 9001 §6.2 checks (ACK in the old phase for a packet of the new one; update only after confirmation)")
	}
	c.Floor(R, "per-key-phase fields (…WithCurrentKey)", n, 4)
	// Retry integrity tag: deferred Reset of the shared buffer runs before the deferred Unlock (LIFO: Unlock registered first)
	g := c.fn(hsk, "", "GetRetryIntegrityTag")
	var unlockD, resetD ssa.Instruction
	eachInstr(g, func(in ssa.Instruction) {
		d, ok := in.(*ssa.Defer)
		if !ok {
			return
		}
		if o := calleeObj(&d.Call); o != nil {
			if o.Name() == "Unlock" && o.Pkg() != nil && o.Pkg().Path() == "sync" {
				unlockD = in
			}
			if o.Name() == "Reset" {
				resetD = in
			}
		}
	})
	ok := unlockD != nil && resetD != nil && instrReaches(unlockD, resetD) && !instrReaches(resetD, unlockD)
	c.Check(ok, R, "order:the shared Retry buffer is reset before the mutex is released", c.P.Pos(g.Pos()),
		"deferred calls run last-in-first-out: `defer Unlock` must be registered before `defer Reset`, otherwise a concurrent caller's input is wiped by the late Reset and its integrity tag is wrong")
}

// C09.12: the scrambler is finished (scramble switched off, the ClientHello dropped from the write buffer) only when
// every deferred cut it has seen valid in that call has been invalidated, i.e. handed out completely. Decided on the
// flag-sensitive path search: from the "this cut is still valid" edge, no path reaches the finishing stores without
// passing the store that invalidates a cut.
func c09CutsDrainedBeforeFinish(c *Ctx) {
	const R = "C09.12"
	f := c.fn("", "initialCryptoStream", "PopCryptoFrame")
	cutStart := c.fld("", "clientHelloCut", "start")
	scr := c.fld("", "initialCryptoStream", "scramble")
	wb := c.fld("", "baseCryptoStream", "writeBuf")
	isInvalid := func(v ssa.Value) bool {
		k, ok := stripConv(v).(*ssa.Const)
		if !ok || k.Value == nil {
			return false
		}
		n, ok2 := constant.Int64Val(k.Value)
		return ok2 && n == -1
	}
	var starts []*ssa.BasicBlock
	for _, g := range helperRegion(f) {
		for _, b := range g.Blocks {
			if len(b.Instrs) == 0 {
				continue
			}
			ifi, ok := b.Instrs[len(b.Instrs)-1].(*ssa.If)
			if !ok {
				continue
			}
			bo, ok := ifi.Cond.(*ssa.BinOp)
			if !ok || (bo.Op != token.EQL && bo.Op != token.NEQ) {
				continue
			}
			if !((loadsPath(bo.X, cutStart) && isInvalid(bo.Y)) || (loadsPath(bo.Y, cutStart) && isInvalid(bo.X))) {
				continue
			}
			if bo.Op == token.EQL {
				starts = append(starts, b.Succs[1])
			} else {
				starts = append(starts, b.Succs[0])
			}
		}
	}
	c.Floor(R, "tests of a cut against InvalidByteCount in PopCryptoFrame", len(starts), 2)
	finish := func(in ssa.Instruction) bool {
		st, ok := in.(*ssa.Store)
		if !ok {
			return false
		}
		switch fieldOfAddress(st.Addr) {
		case scr:
			k, ok := st.Val.(*ssa.Const)
			return ok && k.Value != nil && !constant.BoolVal(k.Value)
		case wb:
			_, isSlice := st.Val.(*ssa.Slice)
			return isSlice
		}
		return false
	}
	invalidate := func(in ssa.Instruction) bool {
		st, ok := in.(*ssa.Store)
		return ok && fieldOfAddress(st.Addr) == cutStart && isInvalid(st.Val)
	}
	c.Floor(R, "finishing stores in PopCryptoFrame", len(findInstrs(f, finish)), 2)
	c.Floor(R, "stores that invalidate a cut in PopCryptoFrame", len(findInstrs(f, invalidate)), 1)
	if len(starts) == 0 {
		return
	}
	c.cut(R, "finish-only-when-drained:"+funcName(f), &Cut{Fn: f, StartBlocks: starts, Target: finish, Barrier: invalidate, TrackFlags: true},
		"scrambling is switched off and the ClientHello dropped from the write buffer only when every deferred cut seen valid has been handed out completely (otherwise its bytes are never sent: a hole in the CRYPTO stream)")
}

// C09.13: the scrambler's cut positions are computed only from positions findSNIAndECH actually found. The parser
// reports "not found" as -1 and an SNI with an empty host name as length 0; a cut computed from the sentinel, or an
// empty cut, is never handed out and the stream stalls with the ClientHello unsent. Also: the cut list is sorted with a
// comparator that recognises an unused cut on either side (an unused first cut makes HasData report false forever).
func c09CutsFromFoundPositions(c *Ctx) {
	const R = "C09.13"
	w := c.fn("", "initialCryptoStream", "Write")
	find := c.obj("", "", "findSNIAndECH")
	cutStart := c.fld("", "clientHelloCut", "start")
	cutEnd := c.fld("", "clientHelloCut", "end")
	constOf := func(v ssa.Value) (int64, bool) {
		k, ok := stripConv(v).(*ssa.Const)
		if !ok || k.Value == nil {
			return 0, false
		}
		return constant.Int64Val(constant.ToInt(k.Value))
	}
	// does a dominating edge of b establish lo <= v ?
	atLeast := func(b *ssa.BasicBlock, v ssa.Value, lo int64, neqOK int64, useNeq bool) bool {
		for d := b; d != nil && d.Idom() != nil; d = d.Idom() {
			id := d.Idom()
			ifi, ok := id.Instrs[len(id.Instrs)-1].(*ssa.If)
			if !ok || len(d.Preds) != 1 {
				continue
			}
			for s := 0; s < 2; s++ {
				if id.Succs[s] != d {
					continue
				}
				bo, ok := ifi.Cond.(*ssa.BinOp)
				if !ok || !isCmp(bo.Op) {
					continue
				}
				op := bo.Op
				x, y := bo.X, bo.Y
				if stripConv(y) == v {
					x, y = y, x
					op = swapOp(op)
				}
				if stripConv(x) != v {
					continue
				}
				k, isK := constOf(y)
				if !isK {
					continue
				}
				if s == 1 {
					op = negOp(op)
				}
				switch op {
				case token.GTR:
					if k >= lo-1 {
						return true
					}
				case token.GEQ:
					if k >= lo {
						return true
					}
				case token.EQL:
					if k >= lo {
						return true
					}
				case token.NEQ:
					if useNeq && k == neqOK {
						return true
					}
				}
			}
		}
		return false
	}
	// the Extracts of findSNIAndECH's results that a value is computed from
	var deps func(v ssa.Value, out map[int]ssa.Value, d int)
	deps = func(v ssa.Value, out map[int]ssa.Value, d int) {
		if d > 10 || v == nil {
			return
		}
		switch x := v.(type) {
		case *ssa.Extract:
			if cl, ok := x.Tuple.(*ssa.Call); ok && calleeObj(&cl.Call) == find {
				out[x.Index] = x
			}
		case *ssa.BinOp:
			deps(x.X, out, d+1)
			deps(x.Y, out, d+1)
		case *ssa.Convert:
			deps(x.X, out, d+1)
		case *ssa.ChangeType:
			deps(x.X, out, d+1)
		case *ssa.Call:
			if builtinName(&x.Call) != "" {
				for _, a := range x.Call.Args {
					deps(a, out, d+1)
				}
			}
		case *ssa.Phi:
			for _, e := range x.Edges {
				deps(e, out, d+1)
			}
		}
	}
	n := 0
	for _, in := range findInstrs(w, StoresTo(cutStart, cutEnd)) {
		st := in.(*ssa.Store)
		ex := map[int]ssa.Value{}
		deps(st.Val, ex, 0)
		if len(ex) == 0 {
			continue
		}
		n++
		fld := fieldOfAddress(st.Addr).Name()
		for idx, v := range ex {
			switch idx {
			case 0, 2:
				what := map[int]string{0: "sniPos", 2: "echPos"}[idx]
				c.Check(atLeast(st.Block(), v, 0, -1, true), R, fmt.Sprintf("found:cut.%s computed from %s only when it was found#%d", fld, what, n), c.P.InstrPos(in),
					"findSNIAndECH reports an absent extension as -1: a cut position computed from it is garbage (or the unused-cut marker in the first slot) and the ClientHello is never sent")
			}
		}
		if v, ok := ex[1]; ok {
			c.Check(atLeast(st.Block(), v, 1, 0, true), R, fmt.Sprintf("nonempty:SNI cut.%s only for a non-empty host name#%d", fld, n), c.P.InstrPos(in),
				"an empty cut (start == end) is never handed out by PopCryptoFrame (n <= 0 returns nil) and never invalidated: the stream stalls")
		}
	}
	c.Floor(R, "cut stores computed from findSNIAndECH results", n, 3)
	// comparator of the sort
	nCmp := 0
	for _, a := range withAnon(w)[1:] {
		if len(a.Params) != 2 {
			continue
		}
		nCmp++
		tested := map[*ssa.Parameter]bool{}
		eachInstr(a, func(in ssa.Instruction) {
			bo, ok := in.(*ssa.BinOp)
			if !ok || (bo.Op != token.EQL && bo.Op != token.NEQ) {
				return
			}
			for _, pair := range [][2]ssa.Value{{bo.X, bo.Y}, {bo.Y, bo.X}} {
				k, isK := constOf(pair[1])
				if !isK || k != -1 {
					continue
				}
				if fl, base := loadedField(stripConv(pair[0])); fl == cutStart {
					for _, p := range a.Params {
						if base == ssa.Value(p) {
							tested[p] = true
						}
						// a by-value struct parameter is spilled into a local first
						if al, ok := base.(*ssa.Alloc); ok && al.Referrers() != nil {
							for _, r := range *al.Referrers() {
								if st, ok := r.(*ssa.Store); ok && st.Addr == ssa.Value(al) && st.Val == ssa.Value(p) {
									tested[p] = true
								}
							}
						}
					}
				}
			}
		})
		c.Check(len(tested) == 2, R, "sort:the comparator recognises an unused cut on either side", c.P.Pos(a.Pos()),
			"with only the second cut in use (ECH without SNI) a comparator that tests its first argument only leaves the unused cut in slot 0: HasData() then reports false forever")
	}
	c.Floor(R, "cut comparators in Write", nCmp, 1)
}

// C09.10: what planInitialFlight stores for sending is exactly what validateInitialFlight accepted.
func c09ValidatedIsSent(c *Ctx) {
	const R = "C09.10"
	f := c.fn("", "uPacketPacker", "planInitialFlight")
	val := c.obj("", "", "validateInitialFlight")
	fp := c.fld("", "uPacketPacker", "flightPayloads")
	var validated ssa.Value
	for _, in := range findInstrsLocal(f, CallsTo(val)) {
		validated = in.(ssa.CallInstruction).Common().Args[0]
	}
	n := 0
	for _, in := range findInstrsLocal(f, StoresTo(fp)) {
		n++
		c.Check(validated != nil && sameValue(in.(*ssa.Store).Val, validated), R, "same:the stored flight is the validated flight", c.P.InstrPos(in),
			"validateInitialFlight proves that the payloads cover every byte of the ClientHello; storing a subset or a different list sends a ClientHello with a hole")
	}
	c.Floor(R, "stores of flightPayloads in planInitialFlight", n, 1)
}

// C10.9: a planned Initial advances the datagram index; the per-packet PN-length list takes precedence over the
// deprecated single value at installation time too.
func c10PlannedIndexAndPrecedence(c *Ctx) {
	const R = "C10.9"
	f := c.fn("", "uPacketPacker", "packPlannedInitial")
	idx := c.fld("", "uPacketPacker", "initialDatagramIdx")
	fp := c.fld("", "uPacketPacker", "flightPayloads")
	pops := findInstrsLocal(f, StoresTo(fp))
	c.Floor(R, "flight pops in packPlannedInitial", len(pops), 1)
	for _, pop := range pops {
		pop := pop
		inc := func(in ssa.Instruction) bool {
			st, ok := in.(*ssa.Store)
			return ok && fieldOfAddress(st.Addr) == idx && BinV(token.ADD, Load(idx), ConstI(1))(st.Val)
		}
		c.cut(R, "pair:a datagram taken from the planned flight advances initialDatagramIdx", &Cut{Fn: f, Start: func(i ssa.Instruction) bool { return i == pop }, Target: func(in ssa.Instruction) bool {
			r, ok := in.(*ssa.Return)
			return ok && len(retResults(r)) == 2 && IsNil()(retResults(r)[1])
		}, Barrier: inc}, "the index selects the InitialPacketPlan (exact size, padding) of each datagram: left at 0, every datagram of the flight is sized like the first")
	}
	ctor := c.funcVar("", "newUClientConnection")
	single := c.obj("internal/ackhandler", "", "SetInitialPacketNumberLength")
	list := c.fld("", "InitialPacketSpec", "InitPacketNumberLengths")
	n := 0
	for _, in := range findInstrsLocal(ctor, CallsTo(single)) {
		n++
		okE := dominatedByEdge(in.Block(), Rel{Op: token.GTR, X: LenOf(Load(list)), Y: ConstI(0)}, true) || dominatedByEdge(in.Block(), Rel{Op: token.EQL, X: LenOf(Load(list)), Y: ConstI(0)}, false)
		c.Check(okE, R, "precedence:the single PN length is installed only when the per-packet list is empty", c.P.InstrPos(in),
			"documented contract: InitPacketNumberLength is ignored when InitPacketNumberLengths is non-empty")
	}
	c.Floor(R, "SetInitialPacketNumberLength calls in newUClientConnection", n, 1)
}

// C09.11: unsigned arithmetic in the spec-driven builders does not wrap in loop guards: a loop bound of the form
// n-1 on an unsigned count is dominated by n >= 1.
func c09NoUnsignedWrapInGuards(c *Ctx) {
	const R = "C09.11"
	n := 0
	for _, spec := range [][3]string{{"", "QUICRandomFrames", "buildInternal"}, {"", "", "splitRange"}, {"", "QUICRandomFlightDatagram", "build"}} {
		f, err := c.P.Func1(spec[0], spec[1], spec[2])
		if err != nil {
			continue
		}
		for _, b := range f.Blocks {
			ifi, ok := b.Instrs[len(b.Instrs)-1].(*ssa.If)
			if !ok {
				continue
			}
			cmp, ok := ifi.Cond.(*ssa.BinOp)
			if !ok || !isCmp(cmp.Op) {
				continue
			}
			for _, side := range []ssa.Value{cmp.X, cmp.Y} {
				sub, ok := stripConv(side).(*ssa.BinOp)
				if !ok || sub.Op != token.SUB {
					continue
				}
				bt, ok := sub.Type().Underlying().(*types.Basic)
				if !ok || bt.Info()&types.IsUnsigned == 0 {
					continue
				}
				k, isK := constInt64Of(sub.Y)
				if !isK || k <= 0 {
					continue
				}
				n++
				okG := dominatedByEdge(b, Rel{Op: token.GEQ, X: Same(sub.X), Y: ConstI(k)}, false) || dominatedByEdge(b, Rel{Op: token.GTR, X: Same(sub.X), Y: ConstI(k - 1)}, false)
				// or the minuend has a known positive lower bound (clamps such as min(max(n, 1), m) with m > 0)
				if lowerBound(sub.X, b, 0) >= k {
					okG = true
				}
				c.Check(okG, R, fmt.Sprintf("guard:%s unsigned %s-%d in a loop/branch condition cannot wrap", funcName(f), sub.X.Name(), k), c.P.InstrPos(cmp),
					"an unsigned count minus a constant wraps to 2^64-1 for small counts (e.g. an empty CRYPTO slice on a PTO probe): the loop then never ends")
			}
		}
	}
	c.Count("C09.11 unsigned differences in conditions", n)
}

// lowerBound: a constant lower bound of an unsigned/int value established by construction or by dominating comparisons.
func lowerBound(v ssa.Value, at *ssa.BasicBlock, depth int) int64 {
	if depth > 6 || v == nil {
		return 0
	}
	if k, ok := constInt64Of(v); ok {
		return k
	}
	best := int64(0)
	for _, k := range []int64{1, 2, 3, 4} {
		if dominatedByEdge(at, Rel{Op: token.GEQ, X: Same(v), Y: ConstI(k)}, false) || dominatedByEdge(at, Rel{Op: token.GTR, X: Same(v), Y: ConstI(k - 1)}, false) {
			best = k
		}
	}
	switch x := v.(type) {
	case *ssa.Convert:
		if lb := lowerBound(x.X, at, depth+1); lb > best {
			best = lb
		}
	case *ssa.Call:
		switch builtinName(&x.Call) {
		case "max":
			for _, a := range x.Call.Args {
				if lb := lowerBound(a, at, depth+1); lb > best {
					best = lb
				}
			}
		case "min":
			m := int64(-1)
			for _, a := range x.Call.Args {
				lb := lowerBound(a, at, depth+1)
				if m < 0 || lb < m {
					m = lb
				}
			}
			if m > best {
				best = m
			}
		}
	}
	return best
}

// C14.5: the two byte counts of the anti-amplification budget are the sizes of the datagrams themselves.
//   - received: the argument of ReceivedBytes is the dequeued datagram's Size(), and Size() is len(data)
//     (not cap(data): the data slice points into a full-size read buffer);
//   - sent: every size handed to SentPacket in the root package is a packet's recorded length, and that length is
//     recorded as len(raw) of the very slice by which the packet buffer grew (padding and AEAD overhead included),
//     not a recomputation from the payload length.
func c14AccountingOrigins(c *Ctx) {
	const R = "C14.5"
	rbI := c.obj(ah, "SentPacketHandler", "ReceivedBytes")
	sizeFn := c.fn("", "receivedPacket", "Size")
	sizeObj := c.obj("", "receivedPacket", "Size")
	data := c.fld("", "receivedPacket", "data")
	isLenData := func(v ssa.Value) bool { return LenOf(Load(data))(v) }
	n := 0
	for _, cs := range c.P.CallSites(rbI) {
		cl, ok := cs.Instr.(ssa.CallInstruction)
		if !ok || cs.Kind == "value" {
			continue
		}
		n++
		args := cl.Common().Args
		if !cl.Common().IsInvoke() {
			args = args[1:]
		}
		okv := len(args) > 0 && (CallTo(sizeObj, -1)(args[0]) || isLenData(args[0]))
		c.Check(okv, R, "origin:ReceivedBytes counts the datagram's size in "+cs.Fn.Name(), c.P.InstrPos(cs.Instr), "the credit towards the 3x budget is the number of bytes actually received in that datagram")
	}
	c.Floor(R, "ReceivedBytes call sites", n, 1)
	nr := 0
	eachInstr(sizeFn, func(i ssa.Instruction) {
		r, ok := i.(*ssa.Return)
		if !ok {
			return
		}
		nr++
		c.Check(isLenData(retResults(r)[0]), R, "shape:receivedPacket.Size is len(data)", c.P.InstrPos(i), "len, not cap: data is a sub-slice of a full-size read buffer")
	})
	c.Floor(R, "returns of receivedPacket.Size", nr, 1)

	// sent side
	spI := c.obj(ah, "SentPacketHandler", "SentPacket")
	lhLen := c.fld("", "longHeaderPacket", "length")
	shLen := c.fld("", "shortHeaderPacket", "Length")
	sig := spI.Type().(*types.Signature)
	idx := -1
	for k := 0; k < sig.Params().Len(); k++ {
		if sig.Params().At(k).Name() == "size" {
			idx = k
		}
	}
	c.Check(idx >= 0, R, "anchor:SentPacket has a size parameter", "-", "parameter named size")
	ns := 0
	for _, cs := range c.P.CallSites(spI) {
		cl, ok := cs.Instr.(ssa.CallInstruction)
		if !ok || cs.Kind == "value" || cs.Fn.Pkg == nil || cs.Fn.Pkg.Pkg.Name() != "quic" {
			continue
		}
		args := cl.Common().Args
		if !cl.Common().IsInvoke() {
			args = args[1:]
		}
		if idx < 0 || idx >= len(args) {
			continue
		}
		ns++
		a := args[idx]
		c.Check(Load(lhLen)(a) || Load(shLen)(a), R, "origin:SentPacket counts the packet's recorded length in "+cs.Fn.Name()+"#"+fmt.Sprint(ns), c.P.InstrPos(cs.Instr), "the debit against the 3x budget is the packet's length as serialised")
	}
	c.Floor(R, "SentPacket call sites in the root package", ns, 4)
	nw := 0
	for _, fld := range []*types.Var{lhLen, shLen} {
		{
			for _, w := range c.P.Writers(fld) {
				f := w.Fn
				if w.Kind != "store" {
					c.Bad(R, "shape:"+fld.Name()+" written other than by a direct store in "+f.Name(), c.P.InstrPos(w.Instr), w.Kind)
					continue
				}
				nw++
				// value = ByteCount(len(raw)) and the buffer grows by the same len(raw)
				var raw ssa.Value
				if cv, ok := stripConv(w.Val).(*ssa.Call); ok && builtinName(&cv.Call) == "len" {
					raw = cv.Call.Args[0]
				}
				grows := false
				if raw != nil {
					eachInstr(f, func(i ssa.Instruction) {
						sl, ok := i.(*ssa.Slice)
						if !ok || sl.High == nil {
							return
						}
						if BinV(token.ADD, Any(), LenOf(func(v ssa.Value) bool { return v == raw }))(sl.High) {
							grows = true
						}
					})
				}
				c.Check(raw != nil && grows, R, "shape:"+fld.Name()+" is the length by which the buffer grew in "+f.Name(), c.P.InstrPos(w.Instr),
					"the recorded length is len(raw) of the slice appended to the packet buffer: header, payload, padding and AEAD tag")
			}
		}
	}
	c.Floor(R, "stores to the packets' recorded length", nw, 3)
}

// C17.16: a Write that was blocked and is woken up does not buffer its data when the stream was shut down or reset
// in the meantime: in SendStream.write, every path from the wait on writeChan to a store into nextFrame (or a copy
// into its Data) passes the shutdownErr == nil and the resetErr == nil edge. closeForShutdown / CancelWrite
// discard nextFrame before they wake the writer, so without the re-check the woken Write finds room, "writes"
// its data into a frame nobody will send and reports success.
func c17WokenWriteRechecksTermination(c *Ctx) {
	const R = "C17.16"
	f := c.fn("", "SendStream", "write")
	wc := c.fld("", "SendStream", "writeChan")
	nf := c.fld("", "SendStream", "nextFrame")
	data := c.fld("internal/wire", "StreamFrame", "Data")
	she := c.fld("", "SendStream", "shutdownErr")
	rse := c.fld("", "SendStream", "resetErr")
	waits := func(in ssa.Instruction) bool {
		switch x := in.(type) {
		case *ssa.Select:
			for _, st := range x.States {
				if st.Dir == types.RecvOnly && loadsPath(st.Chan, wc) {
					return true
				}
			}
		case *ssa.UnOp:
			return x.Op == token.ARROW && loadsPath(x.X, wc)
		}
		return false
	}
	buffers := func(in ssa.Instruction) bool {
		switch x := in.(type) {
		case *ssa.Store:
			fa, ok := x.Addr.(*ssa.FieldAddr)
			if !ok {
				return false
			}
			if fieldOfAddr(fa) == nf.Origin() {
				return !IsNil()(x.Val)
			}
			return fieldOfAddr(fa) == data.Origin() && loadsPath(fa.X, nf)
		case *ssa.Call:
			return builtinName(&x.Call) == "copy" && len(x.Call.Args) == 2 && derivesFromField(x.Call.Args[0], nf)
		}
		return false
	}
	c.Floor(R, "waits on writeChan in SendStream.write", countInstr(f, waits), 1)
	c.Floor(R, "places where SendStream.write buffers data in nextFrame", countInstr(f, buffers), 2)
	for _, g := range []struct {
		n string
		f *types.Var
	}{{"shutdownErr", she}, {"resetErr", rse}} {
		c.cut(R, "recheck:a woken Write buffers nothing unless "+g.n+" is still nil", &Cut{Fn: f, Start: waits, Target: buffers, NoInline: true,
			Edge: EdgeRel(Rel{Op: token.EQL, X: Load(g.f), Y: IsNil()}, false)},
			"a Write blocked behind a buffered frame returns (len(p), nil) after the connection was closed or the stream reset, and the data is silently dropped")
	}
}

// derivesFromField: v is (a slice of) the value loaded from a path through field f.
func derivesFromField(v ssa.Value, f *types.Var) bool {
	for d := 0; d < 6; d++ {
		switch x := v.(type) {
		case *ssa.Slice:
			v = x.X
			continue
		case *ssa.UnOp:
			if x.Op == token.MUL {
				if fa, ok := x.X.(*ssa.FieldAddr); ok {
					if fieldOfAddr(fa) == f.Origin() || loadsPath(fa.X, f) {
						return true
					}
				}
			}
			return false
		}
		return false
	}
	return false
}

// C09.16: the flight builders emit no CRYPTO frame for a range that resolves to nothing. Both users of
// QUICCryptoRange.resolve agree (sibling cross-check: the random builder skips `end <= start`): every path from the
// resolve call to the place where a frame is produced for [start,end) passes a comparison of the two results on the
// edge that excludes start == end. A trailing empty CRYPTO frame makes validateInitialFlight refuse a plan that
// covers the whole ClientHello (the frame reader reports EOF for it).
func c09NoEmptyCryptoFrame(c *Ctx) {
	const R = "C09.16"
	res := c.obj("", "QUICCryptoRange", "resolve")
	split := c.fn("", "", "splitRange")
	n := 0
	for _, cs := range c.P.CallSites(res) {
		cl, ok := cs.Instr.(*ssa.Call)
		if !ok || cs.Kind != "call" {
			continue
		}
		n++
		f := cs.Fn
		isExtract := func(v ssa.Value, k int) bool {
			ex, ok := stripConv(v).(*ssa.Extract)
			return ok && ex.Tuple == ssa.Value(cl) && ex.Index == k
		}
		produces := func(in ssa.Instruction) bool {
			x, ok := in.(*ssa.Call)
			if !ok {
				return false
			}
			if split != nil && x.Call.StaticCallee() == split {
				return true
			}
			// append(payload, 0x06): the CRYPTO frame type byte
			if builtinName(&x.Call) == "append" && len(x.Call.Args) == 2 {
				if sl, ok := x.Call.Args[1].(*ssa.Slice); ok {
					if al, ok := sl.X.(*ssa.Alloc); ok && al.Referrers() != nil {
						for _, r := range *al.Referrers() {
							if ia, ok := r.(*ssa.IndexAddr); ok && ia.Referrers() != nil {
								for _, r2 := range *ia.Referrers() {
									if st, ok := r2.(*ssa.Store); ok && ConstI(6)(st.Val) {
										return true
									}
								}
							}
						}
					}
				}
			}
			return false
		}
		nonEmptyEdge := func(ifi *ssa.If, s int) bool {
			b, ok := ifi.Cond.(*ssa.BinOp)
			if !ok || !isCmp(b.Op) {
				return false
			}
			op := b.Op
			switch {
			case isExtract(b.X, 0) && isExtract(b.Y, 1): // start op end
			case isExtract(b.X, 1) && isExtract(b.Y, 0): // end op start
				op = swapOp(op)
			default:
				return false
			}
			if s == 1 {
				op = negOp(op)
			}
			// start op end must exclude equality
			return op == token.LSS || op == token.NEQ || op == token.GTR
		}
		if countInstr(f, produces) == 0 {
			continue
		}
		c.cut(R, "nonempty:"+f.Name()+" frames a resolved range only when it is not empty", &Cut{Fn: f, NoInline: true,
			Start: func(in ssa.Instruction) bool { return in == ssa.Instruction(cl) }, Target: produces, Edge: nonEmptyEdge},
			"a zero-length CRYPTO frame at the end of a datagram makes the flight validator reject a plan that covers the ClientHello completely (EOF from the frame reader); the sibling builder skips empty ranges")
	}
	c.Floor(R, "call sites of QUICCryptoRange.resolve", n, 2)
}

// C17.17: nothing is sent for a connection that ends because of a stateless reset, or because the attempt is
// abandoned for another version: in handleCloseError, from the true edge of errors.As(e, &statelessResetErr) and of
// errors.As(e, &recreateErr), neither sendConnectionClose nor ReplaceWithClosed is reachable (the connection IDs are
// removed at once). Both errors reach handleCloseError as ordinary return values of the packet handlers, i.e. in a
// closeError that is not marked immediate.
func c17NoCloseFrameAfterStatelessReset(c *Ctx) {
	const R = "C17.17"
	f := c.fn("", "Conn", "handleCloseError")
	scc := c.obj("", "Conn", "sendConnectionClose")
	rwc := c.obj("", "connIDGenerator", "ReplaceWithClosed")
	target := func(in ssa.Instruction) bool { return CallsTo(scc)(in) || CallsTo(rwc)(in) }
	c.Floor(R, "CONNECTION_CLOSE / closed-stand-in sites in handleCloseError", countInstr(f, target), 2)
	for _, tn := range []string{"StatelessResetError", "errCloseForRecreating"} {
		want := c.named("", tn)
		var starts, tests []*ssa.BasicBlock
		for _, b := range f.Blocks {
			t := errorsAsTest(b)
			if t == nil {
				continue
			}
			if types.Identical(t, types.Unalias(want.Type())) {
				tests = append(tests, b)
			}
		}
		// the classification is the test that no other test can reach (later tests of the same error, e.g. around the
		// qlog event, repeat it)
		for _, b := range tests {
			first := true
			for _, o := range tests {
				if o != b && instrReaches(o.Instrs[len(o.Instrs)-1], b.Instrs[len(b.Instrs)-1]) {
					first = false
				}
			}
			if first {
				starts = append(starts, b.Succs[0])
			}
		}
		c.Floor(R, "errors.As tests for "+tn+" in handleCloseError", len(starts), 1)
		if len(starts) == 0 {
			continue
		}
		c.cut(R, "silent:no CONNECTION_CLOSE and no closed stand-in once the cause is "+tn, &Cut{Fn: f, StartBlocks: starts, Target: target, TrackFlags: true, NoInline: true},
			"RFC 9000 §10.3.1: an endpoint that detects a stateless reset sends nothing further; an attempt abandoned after Version Negotiation must not leave a timer behind that later deletes the routing entry of its successor (same, possibly empty, connection ID)")
	}
}

// C17.18: a closed single-use transport stops listening when its last routing entry disappears, whichever way it
// disappears: every function that deletes from packetHandlerMap.handlers tests len(handlers) == 0 afterwards and
// reaches maybeStopListening on that edge (before this, only the expiry of a closed stand-in did; idle timeouts,
// stateless resets and destroyed connections go through Remove).
func c17LastHandlerStopsListening(c *Ctx) {
	const R = "C17.18"
	hf := c.fld("", "Transport", "handlers")
	msl := c.obj("", "Transport", "maybeStopListening")
	n := 0
	for _, w := range c.P.Writers(hf) {
		cl, ok := w.Instr.(*ssa.Call)
		if !ok || builtinName(&cl.Call) != "delete" {
			continue
		}
		n++
		f := w.Fn
		// len(handlers) != 0, also written len(handlers) > 0 / !(len(handlers) == 0)
		nonEmpty := OrEdge(EdgeRel(Rel{Op: token.EQL, X: LenOf(Load(hf)), Y: ConstI(0)}, true), EdgeRel(Rel{Op: token.GTR, X: LenOf(Load(hf)), Y: ConstI(0)}, false),
			EdgeRel(Rel{Op: token.GEQ, X: LenOf(Load(hf)), Y: ConstI(1)}, false))
		c.cut(R, "last:"+rootFn(f).Name()+" stops a closed single-use transport when it removes the last handler", &Cut{Fn: f, NoInline: true,
			Start: func(in ssa.Instruction) bool { return in == w.Instr }, Target: isReturn, Barrier: CallsTo(msl), Edge: nonEmpty},
			"after Listener.Close, the read loop (goroutine, send-queue goroutine and — for ListenAddr — the UDP socket) is released only when the handler map is seen empty")
	}
	c.Floor(R, "deletions from the handler map", n, 2)
}

// errorsAsTest: block b ends in `if errors.As(e, &x)` with x of type *T; returns T (unaliased), else nil.
func errorsAsTest(b *ssa.BasicBlock) types.Type {
	if len(b.Instrs) == 0 {
		return nil
	}
	ifi, ok := b.Instrs[len(b.Instrs)-1].(*ssa.If)
	if !ok {
		return nil
	}
	cl, ok := ifi.Cond.(*ssa.Call)
	if !ok || cl.Call.StaticCallee() == nil || cl.Call.StaticCallee().Name() != "As" || cl.Call.StaticCallee().Pkg == nil || cl.Call.StaticCallee().Pkg.Pkg.Path() != "errors" || len(cl.Call.Args) != 2 {
		return nil
	}
	tgt := cl.Call.Args[1]
	if mi, ok := tgt.(*ssa.MakeInterface); ok {
		tgt = mi.X
	}
	pt, ok := tgt.Type().Underlying().(*types.Pointer)
	if !ok {
		return nil
	}
	pt2, ok := pt.Elem().Underlying().(*types.Pointer)
	if !ok {
		return nil
	}
	return types.Unalias(pt2.Elem())
}

// C15.8 / C17.19: a channel that is signalled with a non-blocking send (`select { case ch <- x: default: }`) is a
// one-slot token: it must be created with capacity ≥ 1, or a signal sent while the waiter is between its check
// (under the mutex) and its receive is dropped and the waiter sleeps although its condition holds.
func nonBlockingSignalsAreBuffered(c *Ctx, R string, only func(*types.Var) bool, floor int) {
	type site struct {
		fld *types.Var
		in  ssa.Instruction
	}
	sig := map[*types.Var]ssa.Instruction{}
	var order []*types.Var
	for _, f := range c.P.ScopeFuncs() {
		eachInstr(f, func(in ssa.Instruction) {
			sel, ok := in.(*ssa.Select)
			if !ok || sel.Blocking {
				return
			}
			for _, st := range sel.States {
				if st.Dir != types.SendOnly {
					continue
				}
				fl, _ := loadedField(stripConv(st.Chan))
				if fl == nil || !only(fl) {
					continue
				}
				if _, ok := sig[fl]; !ok {
					sig[fl] = in
					order = append(order, fl)
				}
			}
		})
	}
	sort.Slice(order, func(i, j int) bool { return fieldKey(order[i]) < fieldKey(order[j]) })
	n := 0
	for _, fl := range order {
		for _, w := range c.P.Writers(fl) {
			if w.Kind != "store" {
				continue
			}
			mk, ok := stripConv(w.Val).(*ssa.MakeChan)
			if !ok {
				continue // handed in from elsewhere (parameter): its creation site is the writer of that other field / local
			}
			n++
			k, isC := mk.Size.(*ssa.Const)
			okv := isC && k.Value != nil && k.Int64() >= 1
			c.Check(okv, R, "buffered:"+fieldKey(fl)+" is created with room for the token in "+funcName(rootFn(w.Fn)), c.P.InstrPos(w.Instr),
				"signalled by a non-blocking send at "+c.P.InstrPos(sig[fl])+": an unbuffered channel drops the signal unless the waiter is already parked")
		}
	}
	c.Floor(R, "creations of channels signalled with a non-blocking send", n, floor)
}

func fieldKey(f *types.Var) string {
	if f.Pkg() != nil {
		return f.Pkg().Name() + "." + f.Name()
	}
	return f.Name()
}

func c15SignalChannelsBuffered(c *Ctx) {
	nonBlockingSignalsAreBuffered(c, "C15.8", func(f *types.Var) bool {
		return f.Pkg() != nil && f.Pkg().Name() == "quic" && (f.Name() == "newStreamChan" || f.Name() == "openQueue")
	}, 1)
}

func c17SignalChannelsBuffered(c *Ctx) {
	nonBlockingSignalsAreBuffered(c, "C17.19", func(f *types.Var) bool { return f.Pkg() != nil }, 20)
}

// C15.9: a caller that is turned away (OpenStream) or queued (OpenStreamSync) for lack of stream credit reports the
// limit: maybeSendBlockedFrame is called on every such path, unconditionally — it decides itself (blockedSent)
// whether a STREAMS_BLOCKED frame for the current limit is still owed.
func c15BlockedFrameForEveryBlockedOpen(c *Ctx) {
	const R = "C15.9"
	oq := c.fld("", "outgoingStreamsMap", "openQueue")
	msb := c.obj("", "outgoingStreamsMap", "maybeSendBlockedFrame")
	n := 0
	for _, f := range c.fns("", "outgoingStreamsMap", "OpenStreamSync") {
		queued := func(in ssa.Instruction) bool {
			st, ok := in.(*ssa.Store)
			if !ok || fieldOfAddress(st.Addr) != oq {
				return false
			}
			cl, ok := st.Val.(*ssa.Call)
			return ok && builtinName(&cl.Call) == "append"
		}
		waits := func(in ssa.Instruction) bool { s, ok := in.(*ssa.Select); return ok && s.Blocking }
		if countInstr(f, queued) == 0 {
			continue
		}
		n++
		c.cut(R, "queued:"+funcName(f)+" reports the limit before it waits", &Cut{Fn: f, Start: queued, Target: waits, Barrier: CallsTo(msb), NoInline: true},
			"a caller queued while the credit of a fresh MAX_STREAMS is already spoken for by earlier waiters blocks at the new limit without STREAMS_BLOCKED ever being sent for it")
	}
	c.Floor(R, "instantiations of OpenStreamSync that queue a waiter", n, 1)
	sle := c.named("", "StreamLimitReachedError")
	m := 0
	for _, f := range c.fns("", "outgoingStreamsMap", "OpenStream") {
		refused := func(in ssa.Instruction) bool {
			r, ok := in.(*ssa.Return)
			if !ok || len(r.Results) != 2 {
				return false
			}
			mi, ok := retResults(r)[1].(*ssa.MakeInterface)
			if !ok {
				return false
			}
			pt, ok := mi.X.Type().(*types.Pointer)
			return ok && types.Identical(types.Unalias(pt.Elem()), types.Unalias(sle.Type()))
		}
		if countInstr(f, refused) == 0 {
			continue
		}
		m++
		c.cut(R, "refused:"+funcName(f)+" reports the limit when it refuses", &Cut{Fn: f, Target: refused, Barrier: CallsTo(msb), NoInline: true},
			"OpenStream returning StreamLimitReachedError without STREAMS_BLOCKED leaves the peer unaware that the limit is being hit")
	}
	c.Floor(R, "instantiations of OpenStream that refuse", m, 1)
}

// C13.11: one QUICSpec value serves many connections (u_quic_spec.go says so, and the re-dial after Version
// Negotiation reuses it): nothing that belongs to a single connection may be written into it.
// PopulateFromUQUIC receives the spec's own transport-parameter slice; a store into one of its elements
// survives the connection. (Suppress/Shuffle rewrite the slice too, but idempotently / with a fresh draw.)
func c13SpecNotWrittenPerConnection(c *Ctx) {
	const R = "C13.11"
	f := c.fn("internal/wire", "TransportParameters", "PopulateFromUQUIC")
	var prm *ssa.Parameter
	for _, p := range f.Params {
		if _, ok := p.Type().Underlying().(*types.Slice); ok {
			prm = p
		}
	}
	if prm == nil {
		c.Bad(R, "anchor:PopulateFromUQUIC takes the spec's parameter slice", "-", "no slice parameter")
		return
	}
	c.OK(R, "anchor:PopulateFromUQUIC takes the spec's parameter slice", c.P.Pos(f.Pos()), prm.Name())
	n := 0
	eachInstr(f, func(in ssa.Instruction) {
		st, ok := in.(*ssa.Store)
		if !ok {
			return
		}
		ia, ok := st.Addr.(*ssa.IndexAddr)
		if !ok || ia.X != ssa.Value(prm) {
			return
		}
		n++
		c.Bad(R, fmt.Sprintf("spec-readonly:PopulateFromUQUIC does not write into the spec's transport parameters#%d", n), c.P.InstrPos(in),
			"a value of this connection is stored into the shared spec: the next connection made from the same spec (second Dial, re-dial after Version Negotiation) finds it there")
	})
	if n == 0 {
		c.OK(R, "spec-readonly:PopulateFromUQUIC does not write into the spec's transport parameters", c.P.Pos(f.Pos()), "no store through the parameter")
	}
}

// guardSet: the conditions (as "±descriptor") of the branch edges that dominate block b — each dominator that ends in an
// If and whose taken successor has that If as only predecessor contributes one entry. Descriptors: field loads,
// `field == const`, static calls by name.
func guardSet(b *ssa.BasicBlock) map[string]bool {
	out := map[string]bool{}
	for d := b; d != nil && d.Idom() != nil; d = d.Idom() {
		id := d.Idom()
		ifi, ok := id.Instrs[len(id.Instrs)-1].(*ssa.If)
		if !ok || len(d.Preds) != 1 {
			continue
		}
		pol := id.Succs[0] == d
		cond := ifi.Cond
		for {
			if u, ok := cond.(*ssa.UnOp); ok && u.Op == token.NOT {
				cond, pol = u.X, !pol
				continue
			}
			break
		}
		desc := ""
		switch x := cond.(type) {
		case *ssa.Call:
			if sc := x.Call.StaticCallee(); sc != nil {
				desc = "call " + sc.Name()
			}
		case *ssa.BinOp:
			if fl, _ := loadedField(stripConv(x.X)); fl != nil {
				if k, ok := stripConv(x.Y).(*ssa.Const); ok {
					op := x.Op
					if !pol && (op == token.EQL || op == token.NEQ) {
						op, pol = negOp(op), true
					}
					desc = "field " + fl.Name() + " " + op.String() + " " + k.Value.String()
				}
			}
		default:
			if fl, _ := loadedField(stripConv(cond)); fl != nil {
				desc = "field " + fl.Name()
			}
		}
		if desc == "" {
			desc = "?" + cond.String()
		}
		sign := "+"
		if !pol {
			sign = "-"
		}
		out[sign+desc] = true
	}
	return out
}

// C06.8: the anti-deadlock probe fires under the condition it is armed with. getPTOTimeAndSpace arms a timer
// "now + PTO" for the client that has nothing outstanding in the Initial/Handshake spaces while the server may still be
// amplification-limited; OnLossDetectionTimeout must turn exactly that situation into a probe (ptoCount++,
// numProbesToSend++, PTO mode Initial/Handshake). If the two conditions differ (0-RTT packets in flight make
// bytesInFlight non-zero), the expiry is a no-op that re-arms itself for ever.
func c06AntiDeadlockArmAndFireAgree(c *Ctx) {
	const R = "C06.8"
	arm := c.fn(ah, "sentPacketHandler", "getPTOTimeAndSpace")
	fire := c.fn(ah, "sentPacketHandler", "OnLossDetectionTimeout")
	gsp := c.obj(ah, "sentPacketHandler", "getScaledPTO")
	npts := c.fld(ah, "sentPacketHandler", "numProbesToSend")
	// arming site: the return whose time is now.Add(getScaledPTO(..)) with `now` the parameter
	var armB *ssa.BasicBlock
	eachInstr(arm, func(in ssa.Instruction) {
		cl, ok := in.(*ssa.Call)
		if !ok || cl.Call.StaticCallee() == nil || cl.Call.StaticCallee().Name() != "Add" || len(cl.Call.Args) != 2 {
			return
		}
		if _, isParam := cl.Call.Args[0].(*ssa.Parameter); isParam && CallTo(gsp, -1)(cl.Call.Args[1]) && armB == nil {
			armB = in.Block()
		}
	})
	// firing site: the first numProbesToSend++ (increment by one)
	var fireB *ssa.BasicBlock
	eachInstr(fire, func(in ssa.Instruction) {
		st, ok := in.(*ssa.Store)
		if !ok || fieldOfAddress(st.Addr) != npts {
			return
		}
		if BinV(token.ADD, Load(npts), ConstI(1))(st.Val) && fireB == nil {
			fireB = in.Block()
		}
	})
	if !c.Check(armB != nil, R, "anchor:getPTOTimeAndSpace arms now+PTO for the anti-deadlock case", "-", "return of now.Add(getScaledPTO())") ||
		!c.Check(fireB != nil, R, "anchor:OnLossDetectionTimeout has the single-probe anti-deadlock branch", "-", "numProbesToSend++") {
		return
	}
	ga, gf := guardSet(armB), guardSet(fireB)
	// conditions about which space the probe goes to, and the loss-timer early return, are not part of the predicate
	clean := func(m map[string]bool) []string {
		var out []string
		for k := range m {
			if strings.Contains(k, "field initialPackets") || strings.Contains(k, "field handshakePackets") || strings.Contains(k, "call IsZero") {
				continue
			}
			out = append(out, k)
		}
		sort.Strings(out)
		return out
	}
	a, f := clean(ga), clean(gf)
	c.Check(len(a) >= 1 && strings.Join(a, " ∧ ") == strings.Join(f, " ∧ "), R, "agree:the anti-deadlock probe fires under the condition it is armed with", c.P.Pos(fire.Pos()),
		fmt.Sprintf("armed under {%s}, fires under {%s}: with a difference the timer expires, does nothing and re-arms (no probe, no back-off), and an amplification-blocked server is never unblocked", strings.Join(a, " ∧ "), strings.Join(f, " ∧ ")))
}

// C06.9: the client takes the server's address validation for complete only on an ACK received in a Handshake
// packet (or when the Handshake keys are dropped — handshake confirmed). A 1-RTT ACK proves nothing: with 0-RTT the
// server acknowledges 0-RTT data in 1-RTT packets before it has seen a single Handshake packet of the client.
func c06ClientValidationOnlyOnHandshakeAck(c *Ctx) {
	const R = "C06.9"
	f := c.fn(ah, "sentPacketHandler", "ReceivedAck")
	pcav := c.fld(ah, "sentPacketHandler", "peerCompletedAddressValidation")
	hs := c.konst("internal/protocol", "EncryptionHandshake")
	sets := func(in ssa.Instruction) bool {
		st, ok := in.(*ssa.Store)
		return ok && fieldOfAddress(st.Addr) == pcav && isConstBool(st.Val, true)
	}
	c.Floor(R, "ReceivedAck sets peerCompletedAddressValidation", countInstr(f, sets), 1)
	c.cut(R, "guard:ReceivedAck completes address validation only for a Handshake ACK", &Cut{Fn: f, Target: sets, NoInline: true,
		Edge: EdgeRel(Rel{Op: token.EQL, X: ParamV("encLevel"), Y: ConstOf(hs)}, false)},
		"once the flag is set the anti-deadlock timer is no longer armed: a 0-RTT client whose Finished is stuck behind the congestion window and whose Handshake flight was lost stalls until the idle timeout")
	c.checkWriters(R, pcav, c.set([3]string{ah, "sentPacketHandler", "ReceivedAck"}, [3]string{ah, "sentPacketHandler", "DropPackets"}, [3]string{ah, "", "NewSentPacketHandler"}), 2)
}

// C14.6: every datagram a connection hands to the network is charged to the anti-amplification budget first: each
// call of sendQueue.Send / sendConn.Write in a method of Conn is reached only after the packet was registered with the
// sent-packet handler (SentPacket, directly or through registerPackedShortHeaderPacket / appendOneShortHeaderPacket),
// and registerPackedShortHeaderPacket itself calls SentPacket on every path.
func c14EverySendIsCharged(c *Ctx) {
	const R = "C14.6"
	spI := c.obj(ah, "SentPacketHandler", "SentPacket")
	reg := c.obj("", "Conn", "registerPackedShortHeaderPacket")
	app := c.obj("", "Conn", "appendOneShortHeaderPacket")
	sq := c.fld("", "Conn", "sendQueue")
	cn := c.fld("", "Conn", "conn")
	spc := c.obj("", "Conn", "sendPackedCoalescedPacket")
	charged := OrIP(CallsTo(spI), CallsTo(reg), CallsTo(app), CallsTo(spc))
	// sendPackedCoalescedPacket registers each long header packet in its loop and the short header packet in its
	// branch before the one Send at its end (whether the loop body runs is a matter of the packet's content)
	spcF := c.fn("", "Conn", "sendPackedCoalescedPacket")
	c.Floor(R, "SentPacket registrations in sendPackedCoalescedPacket (long header loop, short header branch)", countInstr(spcF, CallsTo(spI)), 2)
	regF := c.fn("", "Conn", "registerPackedShortHeaderPacket")
	c.cut(R, "charged:registerPackedShortHeaderPacket registers every packet", &Cut{Fn: regF, Target: isReturn, Barrier: CallsTo(spI), NoInline: true}, "no return without SentPacket")
	appF := c.fn("", "Conn", "appendOneShortHeaderPacket")
	c.cut(R, "charged:appendOneShortHeaderPacket registers every packet it appends", &Cut{Fn: appF, Target: func(in ssa.Instruction) bool {
		r, ok := in.(*ssa.Return)
		return ok && IsNil()(retResults(r)[1])
	}, Barrier: CallsTo(reg), NoInline: true}, "no error-free return without registration")
	n := 0
	for _, f := range c.P.ScopeFuncs() {
		if f.Pkg == nil || f.Pkg.Pkg.Name() != "quic" || f.Signature.Recv() == nil {
			continue
		}
		if nt := namedOf(f.Signature.Recv().Type()); nt == nil || nt.Obj().Name() != "Conn" {
			continue
		}
		sites := findInstrs(f, func(in ssa.Instruction) bool {
			cl, ok := in.(ssa.CallInstruction)
			if !ok || in.Parent() != f || f == spcF {
				return false
			}
			cc := cl.Common()
			var recv ssa.Value
			name := ""
			if cc.IsInvoke() {
				recv, name = cc.Value, cc.Method.Name()
			} else if sc := cc.StaticCallee(); sc != nil && sc.Signature.Recv() != nil && len(cc.Args) > 0 {
				recv, name = cc.Args[0], sc.Name()
			}
			if recv == nil {
				return false
			}
			return (name == "Send" && Load(sq)(recv)) || (name == "Write" && Load(cn)(recv))
		})
		for k, s := range sites {
			s := s
			n++
			c.cut(R, fmt.Sprintf("charged:%s hands a datagram to the network only after charging it#%d", f.Name(), k+1), &Cut{Fn: f, NoInline: true,
				Target: func(in ssa.Instruction) bool { return in == s }, Barrier: charged},
				"bytes that leave without passing SentPacket are not counted in bytesSent: before address validation they are sent on top of the 3x budget")
		}
	}
	c.Floor(R, "send sites in methods of Conn", n, 5)
}

// C13.12: an Initial packet built from the spec travels alone. appendInitialPacket re-frames the payload, pads it
// to the spec's sizes and zero-pads the datagram behind the packet — after the coalescing sizes were computed. In
// uPacketPacker.PackCoalescedPacket therefore (a) nothing is appended to the buffer after appendInitialPacket, and
// (b) no Handshake / 0-RTT / 1-RTT payload is taken out of the queues on a path that goes on to appendInitialPacket
// (it would be dropped, or — before the repair — written behind the padding, overrunning the packet buffer).
func c13SpecInitialTravelsAlone(c *Ctx) {
	const R = "C13.12"
	f := c.fn("", "uPacketPacker", "PackCoalescedPacket")
	aip := c.obj("", "uPacketPacker", "appendInitialPacket")
	alh := c.obj("", "packetPacker", "appendLongHeaderPacket")
	ash := c.obj("", "packetPacker", "appendShortHeaderPacket")
	mgc := c.obj("", "packetPacker", "maybeGetCryptoPacket")
	mgs := c.obj("", "packetPacker", "maybeGetShortHeaderPacket")
	mga := c.obj("", "packetPacker", "maybeGetAppDataPacketFor0RTT")
	hs := c.konst("internal/protocol", "EncryptionHandshake")
	c.Floor(R, "calls of appendInitialPacket in uPacketPacker.PackCoalescedPacket", countInstr(f, CallsTo(aip)), 1)
	later := OrIP(CallsTo(alh), CallsTo(ash))
	c.Floor(R, "other packets appended in uPacketPacker.PackCoalescedPacket", countInstr(f, later), 3)
	c.cut(R, "alone:nothing is appended behind a spec-built Initial packet", &Cut{Fn: f, Start: CallsTo(aip), Target: later, NoInline: true},
		"the datagram was zero-padded to UDPDatagramMinSize behind the Initial packet: a packet appended there is unreachable for the peer and can overrun the packet buffer (panic in the run loop)")
	pops := func(in ssa.Instruction) bool {
		if CallsTo(mgs)(in) || CallsTo(mga)(in) {
			return true
		}
		if !CallsTo(mgc)(in) {
			return false
		}
		// (recv, maxPacketSize, encLevel, …)
		as := in.(ssa.CallInstruction).Common().Args
		return len(as) > 2 && types.Identical(as[2].Type(), hs.Type()) && ConstOf(hs)(as[2])
	}
	c.Floor(R, "payloads of other encryption levels taken in uPacketPacker.PackCoalescedPacket", countInstr(f, pops), 3)
	c.cut(R, "alone:no other payload is taken when the Initial packet is built from the spec", &Cut{Fn: f, Start: pops, Target: CallsTo(aip), NoInline: true, TrackFlags: true},
		"frames popped for a packet that is then not (or not validly) written are lost to retransmission bookkeeping")
}

// C09.17: lost ClientHello ranges that are not adjacent are retransmitted as they are. MarshalInitialPacketPayload
// re-frames through the spec's builder only what reassembles into one contiguous slice; on the failure edge of
// ReassembleCRYPTOFrames it must still serialise the frames (Frame.Append) instead of returning the error, which
// would tear the connection down with the lost ranges never resent.
func c09NonContiguousRetransmission(c *Ctx) {
	const R = "C09.17"
	f := c.fn("", "uPacketPacker", "MarshalInitialPacketPayload")
	var reasm *ssa.Call
	eachInstr(f, func(in ssa.Instruction) {
		if cl, ok := in.(*ssa.Call); ok && cl.Call.StaticCallee() != nil && cl.Call.StaticCallee().Name() == "ReassembleCRYPTOFrames" {
			reasm = cl
		}
	})
	if !c.Check(reasm != nil, R, "anchor:MarshalInitialPacketPayload reassembles the packet's CRYPTO frames", "-", "call of clienthellod.ReassembleCRYPTOFrames") {
		return
	}
	// the failure edge: err != nil on the call's second result
	var starts []*ssa.BasicBlock
	for _, b := range f.Blocks {
		ifi, ok := b.Instrs[len(b.Instrs)-1].(*ssa.If)
		if !ok {
			continue
		}
		isErr := func(v ssa.Value) bool {
			ex, ok := v.(*ssa.Extract)
			return ok && ex.Tuple == ssa.Value(reasm) && ex.Index == 1
		}
		for s := 0; s < 2; s++ {
			if EdgeImplies(ifi, s, Rel{Op: token.NEQ, X: isErr, Y: IsNil()}, false) {
				starts = append(starts, b.Succs[s])
			}
		}
	}
	c.Floor(R, "failure edges of ReassembleCRYPTOFrames", len(starts), 1)
	if len(starts) == 0 {
		return
	}
	serialises := func(in ssa.Instruction) bool {
		cl, ok := in.(ssa.CallInstruction)
		if !ok {
			return false
		}
		cc := cl.Common()
		if cc.IsInvoke() && cc.Method.Name() == "Append" {
			return true
		}
		// or a helper of this package whose body does (appendFramesVerbatim)
		if sc := cc.StaticCallee(); sc != nil && sc.Pkg == f.Pkg && sc.Signature.Recv() == nil && len(sc.Blocks) > 0 {
			found := false
			eachInstr(sc, func(x ssa.Instruction) {
				if y, ok := x.(ssa.CallInstruction); ok && y.Common().IsInvoke() && y.Common().Method.Name() == "Append" {
					found = true
				}
			})
			return found
		}
		return false
	}
	c.cut(R, "verbatim:frames that do not reassemble are still serialised", &Cut{Fn: f, StartBlocks: starts, Target: isReturn, Barrier: serialises},
		"two non-adjacent lost Initial datagrams put two separate CRYPTO ranges into one retransmission packet; refusing it ends the connection and the ClientHello is never completed")
}

// storesFieldIn: f (or a closure it defers / declares) stores to field fld.
func storesField(f *ssa.Function, fld *types.Var) bool {
	found := false
	eachInstr(f, func(in ssa.Instruction) {
		if st, ok := in.(*ssa.Store); ok && fieldOfAddress(st.Addr) == fld {
			found = true
		}
	})
	return found
}

// C10.11: the plan index advances once per Initial datagram whichever frame builder is in use: in
// MarshalInitialPacketPayload every return beyond the flight-planned branch has passed the increment of
// initialDatagramIdx (directly, or as a deferred closure). InitialPackets[i] and the per-datagram builders are indexed
// by it; with a nil / pass-through / plain builder it used to stay 0 and every datagram got InitialPackets[0].
func c10PlanIndexAdvances(c *Ctx) {
	const R = "C10.11"
	f := c.fn("", "uPacketPacker", "MarshalInitialPacketPayload")
	idx := c.fld("", "uPacketPacker", "initialDatagramIdx")
	fp := c.fld("", "uPacketPacker", "flightPlanned")
	advances := func(in ssa.Instruction) bool {
		switch x := in.(type) {
		case *ssa.Store:
			return fieldOfAddress(x.Addr) == idx
		case *ssa.Defer:
			if mc, ok := x.Call.Value.(*ssa.MakeClosure); ok {
				return storesField(mc.Fn.(*ssa.Function), idx)
			}
		}
		return false
	}
	c.Floor(R, "increments of initialDatagramIdx in MarshalInitialPacketPayload", countInstr(f, advances), 1)
	c.cut(R, "advance:every datagram built outside a planned flight advances the plan index", &Cut{Fn: f, Target: isReturn, Barrier: advances, NoInline: true,
		Edge: EdgeRel(BoolTrue(Load(fp)), false)},
		"InitialPackets[1..] (CRYPTO split, exact packet size, PN length list position) are never applied for a nil, empty or plain frame builder: every datagram is laid out as datagram 0")
}

// C10.12: QUICRandomFrames measures what it will send: every call of QUICFrames.build in buildInternal passes the
// function's own baseOffset (the dry run that sizes the PADDING included) — the varint of a CRYPTO offset grows at 64
// and 16384, so a dry run at offset 0 undercounts every datagram after the first.
func c10DryRunUsesRealOffset(c *Ctx) {
	const R = "C10.12"
	f := c.fn("", "QUICRandomFrames", "buildInternal")
	build := c.obj("", "QUICFrames", "build")
	n := 0
	eachInstr(f, func(in ssa.Instruction) {
		if !CallsTo(build)(in) {
			return
		}
		n++
		as := in.(ssa.CallInstruction).Common().Args
		c.Check(len(as) == 3 && ParamV("baseOffset")(as[2]), R, fmt.Sprintf("offset:build #%d in buildInternal is given the datagram's base offset", n), c.P.InstrPos(in),
			"the frame list is measured and serialised at the same CRYPTO offsets, so PADDING brings the payload to exactly Length")
	})
	c.Floor(R, "calls of QUICFrames.build in buildInternal", n, 2)
}

// C10.13: the per-packet packet-number-length list counts from the packet number the Initial space really starts at:
// both are taken from InitialPacketSpec.initialPN() (which maps out-of-range values to 0).
func c10PNLengthListBase(c *Ctx) {
	const R = "C10.13"
	f := c.funcVar("", "newUClientConnection")
	ipn := c.obj("", "InitialPacketSpec", "initialPN")
	n := 0
	eachInstr(f, func(in ssa.Instruction) {
		cl, ok := in.(*ssa.Call)
		if !ok || cl.Call.StaticCallee() == nil || cl.Call.StaticCallee().Name() != "SetInitialPacketNumberLengths" {
			return
		}
		n++
		c.Check(len(cl.Call.Args) >= 2 && CallTo(ipn, -1)(cl.Call.Args[1]), R, "origin:the PN-length list is based at initialPN()", c.P.InstrPos(in),
			"a raw InitPacketNumber above 2^62-1 (space seeded with 0) would make every packet look like it is past the end of the list, or before its start")
	})
	c.Floor(R, "SetInitialPacketNumberLengths calls in newUClientConnection", n, 1)
}

// C05.12: the server's 0-RTT read keys live until 3 PTO after the handshake completed — not before it has: in both
// Get1RTTOpener copies the store zeroRTTOpener = nil lies beyond the "handshakeCompleteTime is set" edge.
// (time.Since(zero time) is always > 3 PTO: one early or junk short-header datagram dropped the keys.)
func c05ZeroRTTKeysKeptUntilHandshakeComplete(c *Ctx) {
	const R = "C05.12"
	n := 0
	for _, recv := range []string{"cryptoSetup", "uCryptoSetup"} {
		f := c.fn(hsk, recv, "Get1RTTOpener")
		zo := c.fld(hsk, recv, "zeroRTTOpener")
		hct := c.fld(hsk, recv, "handshakeCompleteTime")
		drops := func(in ssa.Instruction) bool {
			st, ok := in.(*ssa.Store)
			return ok && fieldOfAddress(st.Addr) == zo && IsNil()(st.Val)
		}
		n += countInstr(f, drops)
		isZero := func(v ssa.Value) bool {
			cl, ok := v.(*ssa.Call)
			if !ok || cl.Call.StaticCallee() == nil || cl.Call.StaticCallee().Name() != "IsZero" || len(cl.Call.Args) != 1 {
				return false
			}
			return Load(hct)(cl.Call.Args[0])
		}
		c.cut(R, "kept:"+recv+".Get1RTTOpener drops the 0-RTT keys only after the handshake completed", &Cut{Fn: f, Target: drops, NoInline: true,
			Edge: EdgeRel(BoolTrue(isZero), true)},
			"a reordered 1-RTT packet or a junk short-header datagram before handshake completion discards the 0-RTT opener; the client's 0-RTT packets still in flight can no longer be opened")
	}
	c.Floor(R, "places that drop the 0-RTT opener in Get1RTTOpener", n, 2)
}

// C05.13: every packet that is sealed has a header-protection sample inside it: each function that calls
// encryptPacket compares the payload with 4 - packetNumberLen (and pads) on every path to that call — the long header,
// short header and spec-built Initial copies agree.
func c05SampleInsidePacket(c *Ctx) {
	const R = "C05.13"
	enc := c.obj("", "packetPacker", "encryptPacket")
	n := 0
	for _, cs := range c.P.CallSites(enc) {
		if cs.Kind != "call" {
			continue
		}
		f := cs.Fn
		n++
		// a comparison one of whose operands is 4 - x
		minCheck := func(in ssa.Instruction) bool {
			b, ok := in.(*ssa.BinOp)
			if !ok || !isCmp(b.Op) {
				return false
			}
			isFourMinus := func(v ssa.Value) bool {
				v = stripConv(v)
				s, ok := v.(*ssa.BinOp)
				return ok && s.Op == token.SUB && ConstI(4)(s.X)
			}
			return isFourMinus(b.X) || isFourMinus(b.Y)
		}
		site := cs.Instr
		c.cut(R, "sample:"+f.Name()+" checks payload ≥ 4 - packet number length before sealing", &Cut{Fn: f, NoInline: true,
			Target: func(in ssa.Instruction) bool { return in == site }, Barrier: minCheck},
			"RFC 9001 §5.4.2: with fewer than 4 bytes of packet number + payload the 16-byte sample is taken from stale buffer bytes past the packet; the peer can never open it (PING-only Initial PTO probe of a flight-builder spec)")
	}
	c.Floor(R, "callers of encryptPacket", n, 3)
}

// C19.11: the response writer does not emit connection-specific fields: every WriteField in writeHeader's loop over
// the handler's header map lies beyond the EqualFold tests for connection, proxy-connection, transfer-encoding,
// upgrade and keep-alive — the same set the request writer drops and parseHeaders rejects (writers and parser agree).
func c19ResponseWriterDropsConnectionSpecific(c *Ctx) {
	const R = "C19.11"
	f := c.fn("http3", "responseWriter", "writeHeader")
	hdr := c.fld("http3", "responseWriter", "header")
	// WriteField calls inside the range over w.header: those whose Name operand is not a constant
	inLoop := func(in ssa.Instruction) bool {
		cl, ok := in.(*ssa.Call)
		if !ok || cl.Call.StaticCallee() == nil || cl.Call.StaticCallee().Name() != "WriteField" {
			return false
		}
		fieldConst := false
		eachInstr(f, func(x ssa.Instruction) {
			st, ok := x.(*ssa.Store)
			if !ok {
				return
			}
			fa, ok := st.Addr.(*ssa.FieldAddr)
			if !ok || len(cl.Call.Args) < 2 {
				return
			}
			if u, ok := cl.Call.Args[1].(*ssa.UnOp); ok && u.X == fa.X && fa.Field == 0 {
				if _, isC := st.Val.(*ssa.Const); isC {
					fieldConst = true
				}
			}
		})
		return !fieldConst
	}
	_ = hdr
	c.Floor(R, "WriteField calls for the handler's fields in writeHeader", countInstr(f, inLoop), 1)
	for _, name := range []string{"connection", "proxy-connection", "transfer-encoding", "upgrade", "keep-alive"} {
		name := name
		isFold := func(cl *ssa.Call) bool {
			if cl.Call.StaticCallee() == nil || cl.Call.StaticCallee().Name() != "EqualFold" || len(cl.Call.Args) != 2 {
				return false
			}
			for _, a := range cl.Call.Args {
				if k, ok := a.(*ssa.Const); ok && k.Value != nil && k.Value.Kind() == constant.String && constant.StringVal(k.Value) == name {
					return true
				}
			}
			return false
		}
		fold := func(v ssa.Value) bool {
			cl, ok := v.(*ssa.Call)
			if !ok {
				return false
			}
			if isFold(cl) {
				return true
			}
			// or a predicate of this package (shared with the request writer) whose body makes that comparison
			if sc := cl.Call.StaticCallee(); sc != nil && sc.Pkg == f.Pkg && len(sc.Blocks) > 0 && sc.Signature.Results().Len() == 1 {
				found := false
				eachInstr(sc, func(x ssa.Instruction) {
					if y, ok := x.(*ssa.Call); ok && isFold(y) {
						found = true
					}
				})
				return found
			}
			return false
		}
		c.cut(R, "strip:the response writer does not send "+name, &Cut{Fn: f, Target: inLoop, NoInline: true, Edge: EdgeRel(BoolTrue(fold), true)},
			"a handler's w.Header().Set(\"Connection\", \"close\") goes on the wire; this package's own parseHeaders rejects the response as malformed and the client resets the stream (H3_MESSAGE_ERROR)")
	}
}

// C19.12: a Content-Length field that was seen is validated as a number, whatever its value: in parseHeaders every
// path from the place the field's value is captured to a successful return passes strconv.ParseUint (an empty value
// used to skip the check: the emptiness of the captured string doubled as "not seen").
func c19ContentLengthAlwaysValidated(c *Ctx) {
	const R = "C19.12"
	f := c.fn("http3", "", "parseHeaders")
	captured := func(in ssa.Instruction) bool {
		// the block that takes the first content-length value: a φ-free marker is the comparison of the previous value
		// with the new one (contradicting lengths) — the capture is its sibling branch; use the switch on the name
		b, ok := in.(*ssa.BinOp)
		if !ok || b.Op != token.EQL {
			return false
		}
		k, ok := b.Y.(*ssa.Const)
		return ok && k.Value != nil && k.Value.Kind() == constant.String && constant.StringVal(k.Value) == "content-length"
	}
	var starts []*ssa.BasicBlock
	eachInstr(f, func(in ssa.Instruction) {
		if !captured(in) {
			return
		}
		blk := in.Block()
		if ifi, ok := blk.Instrs[len(blk.Instrs)-1].(*ssa.If); ok && ifi.Cond == in.(ssa.Value) {
			starts = append(starts, blk.Succs[0])
		}
	})
	c.Floor(R, "places where parseHeaders recognises a content-length field", len(starts), 1)
	if len(starts) == 0 {
		return
	}
	okReturn := func(in ssa.Instruction) bool {
		r, ok := in.(*ssa.Return)
		return ok && IsNil()(retResults(r)[len(retResults(r))-1])
	}
	parses := func(in ssa.Instruction) bool {
		cl, ok := in.(*ssa.Call)
		return ok && cl.Call.StaticCallee() != nil && cl.Call.StaticCallee().Name() == "ParseUint"
	}
	c.cut(R, "numeric:a content-length field that was seen is parsed as a number before the section is accepted", &Cut{Fn: f, StartBlocks: starts, Target: okReturn, Barrier: parses, TrackFlags: true, NoInline: true},
		"content-length: \"\" (also twice) is accepted with ContentLength -1 and the field dropped, while every other non-numeric value is rejected")
}

// C08.9: a duration read from a peer-controlled varint saturates instead of wrapping: in readNumericTransportParameter
// every multiplication time.Duration(val) * unit is dominated by a comparison of val with a constant (the unit's
// overflow bound, or the parameter's own maximum). C08.10: max_idle_timeout = 0 means "no timeout" like omission: the
// store lies beyond val > 0.
func c08DurationsSaturate(c *Ctx) {
	const R = "C08.9"
	f := c.fn("internal/wire", "TransportParameters", "readNumericTransportParameter")
	root := func(v ssa.Value) ssa.Value {
		for d := 0; d < 6; d++ {
			switch x := v.(type) {
			case *ssa.Convert:
				v = x.X
				continue
			case *ssa.BinOp:
				if x.Op == token.SHL || x.Op == token.MUL {
					if _, isC := x.X.(*ssa.Const); isC {
						v = x.Y
					} else {
						v = x.X
					}
					continue
				}
			}
			break
		}
		return v
	}
	check := func(g *ssa.Function, floor int) {
		n := 0
		eachInstr(g, func(in ssa.Instruction) {
			m, ok := in.(*ssa.BinOp)
			if !ok || m.Op != token.MUL {
				return
			}
			nt := namedOf(m.Type())
			if nt == nil || nt.Obj().Name() != "Duration" {
				return
			}
			var src ssa.Value
			for _, pr := range [][2]ssa.Value{{m.X, m.Y}, {m.Y, m.X}} {
				if _, isC := pr[1].(*ssa.Const); isC {
					if cv, ok := pr[0].(*ssa.Convert); ok {
						src = cv.X
					}
				}
			}
			if src == nil {
				return
			}
			n++
			// clamped operand: min(val, K)
			guarded := MinMaxOf("min", Any(), func(v ssa.Value) bool { _, ok := stripConv(v).(*ssa.Const); return ok })(src)
			rt := root(src)
			for d := m.Block(); d != nil && d.Idom() != nil; d = d.Idom() {
				id := d.Idom()
				ifi, ok := id.Instrs[len(id.Instrs)-1].(*ssa.If)
				if !ok || len(d.Preds) != 1 {
					continue
				}
				if b, ok := ifi.Cond.(*ssa.BinOp); ok && isCmp(b.Op) && b.Op != token.EQL && b.Op != token.NEQ {
					if b.X == rt || b.Y == rt {
						guarded = true
					}
				}
			}
			c.Check(guarded, R, fmt.Sprintf("saturate:duration multiplication #%d in %s is bounded", n, g.Name()), c.P.InstrPos(in),
				"time.Duration(v)*unit (and a preceding shift) wrap modulo 2^64; testing the sign of the product catches only wraps that land in [2^63, 2^64): a huge max_idle_timeout becomes negative (clamped to 5 s), a huge min_ack_delay / ACK delay becomes a few ns")
		})
		c.Floor(R, "duration multiplications in "+g.Name(), n, floor)
	}
	check(f, 3)
	check(c.fn("internal/wire", "", "parseAckFrame"), 1)
	check(c.fn("internal/wire", "", "parseAckFrequencyFrame"), 1)
	mit := c.fld("internal/wire", "TransportParameters", "MaxIdleTimeout")
	parsedVarint := func(v ssa.Value) bool {
		ex, ok := stripConv(v).(*ssa.Extract)
		if !ok || ex.Index != 0 {
			return false
		}
		cl, ok := ex.Tuple.(*ssa.Call)
		return ok && cl.Call.StaticCallee() != nil && cl.Call.StaticCallee().Name() == "Parse" && cl.Call.StaticCallee().Pkg != nil && cl.Call.StaticCallee().Pkg.Pkg.Name() == "quicvarint"
	}
	stores := func(in ssa.Instruction) bool {
		st, ok := in.(*ssa.Store)
		return ok && fieldOfAddress(st.Addr) == mit
	}
	c.Floor("C08.10", "stores of MaxIdleTimeout in readNumericTransportParameter", countInstr(f, stores), 1)
	c.cut("C08.10", "zero:max_idle_timeout 0 is not turned into the minimum timeout", &Cut{Fn: f, Target: stores, NoInline: true,
		Edge: OrEdge(EdgeRel(Rel{Op: token.GTR, X: parsedVarint, Y: ConstI(0)}, false), EdgeRel(Rel{Op: token.NEQ, X: parsedVarint, Y: ConstI(0)}, false))},
		"RFC 9000 §18.2: an explicit 0 means no idle timeout, like omitting the parameter; clamping it to MinRemoteIdleTimeout gives the peer the shortest timeout we accept, and parse → marshal → parse turns 0 into 5 s")
}

// C20.9: "one reduction per window of packets" rests on comparing packet numbers: OnCongestionEvent cuts the window
// only if the lost packet number is above largestSentAtLastCutback, which OnPacketSent keeps as "the last packet
// number sent". Packet numbers are per packet-number space; the comparison means something only if every packet number
// the controller is given comes from one space. Each call site in the sent-packet handler that hands the controller a
// packet number (OnPacketSent, OnPacketAcked, OnCongestionEvent) must lie beyond a test that selects one encryption
// level — or the controller must not compare numbers (RFC 9002 delimits recovery by send time).
func c20OneNumberSpaceForTheController(c *Ctx) {
	const R = "C20.9"
	n := 0
	for _, m := range []string{"OnPacketSent", "OnPacketAcked", "OnCongestionEvent"} {
		obj := c.obj(cong, "SendAlgorithm", m)
		for _, cs := range c.P.CallSites(obj) {
			if cs.Kind == "value" || cs.Fn.Pkg == nil || cs.Fn.Pkg.Pkg.Name() != "ackhandler" {
				continue
			}
			if _, ok := cs.Instr.(ssa.CallInstruction); !ok || !cs.Instr.(ssa.CallInstruction).Common().IsInvoke() {
				continue
			}
			n++
			one := false
			for d := cs.Instr.Block(); d != nil && d.Idom() != nil; d = d.Idom() {
				id := d.Idom()
				ifi, ok := id.Instrs[len(id.Instrs)-1].(*ssa.If)
				if !ok || len(d.Preds) != 1 {
					continue
				}
				if b, ok := ifi.Cond.(*ssa.BinOp); ok && (b.Op == token.EQL || b.Op == token.NEQ) {
					for _, v := range []ssa.Value{b.X, b.Y} {
						if nt := namedOf(v.Type()); nt != nil && nt.Obj().Name() == "EncryptionLevel" {
							if _, isC := v.(*ssa.Const); isC && ((b.Op == token.EQL) == (id.Succs[0] == d)) {
								one = true
							}
						}
					}
				}
			}
			c.Check(one, R, fmt.Sprintf("space:%s gives the congestion controller packet numbers of one space only (%s)", rootFn(cs.Fn).Name(), m), c.P.InstrPos(cs.Instr),
				"the controller's once-per-window guard compares the lost packet number with the last packet number sent in ANY space: after Handshake probes (small numbers) every lost 1-RTT packet is above the marker and cuts the window again")
		}
	}
	c.Floor(R, "call sites handing packet numbers to the congestion controller", n, 4)
}

// C19.13: a malformed trailer section gets the stream error a malformed message gets: in Stream.Read, the failure edge of
// the trailer parser passes CancelRead and CancelWrite with H3_MESSAGE_ERROR before the error is returned.
func c19MalformedTrailersResetStream(c *Ctx) {
	const R = "C19.13"
	f := c.fn("http3", "Stream", "Read")
	pt := c.fld("http3", "Stream", "parseTrailer")
	me := c.konst("http3", "ErrCodeMessageError")
	var call *ssa.Call
	eachInstr(f, func(in ssa.Instruction) {
		if cl, ok := in.(*ssa.Call); ok && cl.Call.StaticCallee() == nil && !cl.Call.IsInvoke() && Load(pt)(cl.Call.Value) {
			call = cl
		}
	})
	if !c.Check(call != nil, R, "anchor:Stream.Read hands a HEADERS frame after the body to the trailer parser", "-", "call through Stream.parseTrailer") {
		return
	}
	var starts []*ssa.BasicBlock
	for _, b := range f.Blocks {
		ifi, ok := b.Instrs[len(b.Instrs)-1].(*ssa.If)
		if !ok {
			continue
		}
		for s := 0; s < 2; s++ {
			if EdgeImplies(ifi, s, Rel{Op: token.NEQ, X: func(v ssa.Value) bool { return v == ssa.Value(call) }, Y: IsNil()}, false) {
				starts = append(starts, b.Succs[s])
			}
		}
	}
	if !c.Check(len(starts) > 0, R, "shape:the trailer parser's error is tested in Stream.Read", c.P.InstrPos(call), "an `if err != nil` on the parser's result (returning it untested leaves the stream open)") {
		return
	}
	for _, m := range []string{"CancelRead", "CancelWrite"} {
		m := m
		cancels := func(in ssa.Instruction) bool {
			cl, ok := in.(ssa.CallInstruction)
			if !ok {
				return false
			}
			cc := cl.Common()
			name := ""
			if cc.IsInvoke() {
				name = cc.Method.Name()
			} else if sc := cc.StaticCallee(); sc != nil {
				name = sc.Name()
			}
			if name != m {
				return false
			}
			for _, a := range cc.Args {
				if ConstOf(me)(a) {
					return true
				}
			}
			return false
		}
		c.cut(R, "reset:a malformed trailer section is answered with "+m+"(H3_MESSAGE_ERROR)", &Cut{Fn: f, StartBlocks: starts, Target: isReturn, Barrier: cancels, NoInline: true},
			"RFC 9114 §4.1.2: malformed requests or responses are stream errors of type H3_MESSAGE_ERROR; a handler that drains the body got a clean response although the trailers carried a pseudo-header")
	}
}

// C06.10: an ACK is validated against both ends of what was sent in the space: ReceivedAck processes the ranges only
// beyond `LargestAcked() > largestSent` (false edge, C06.3) AND `LowestAcked() < firstPN` (false edge), and firstPN is
// the number the space's generator starts with (spaces need not start at 0: Chrome parrots start the Initial space at
// 1, a connection recreated after Version Negotiation continues at the next number, ResetForRetry starts a new space).
func c06AckLowerBound(c *Ctx) {
	const R = "C06.10"
	f := c.fn(ah, "sentPacketHandler", "ReceivedAck")
	first := c.fld(ah, "packetNumberSpace", "firstPN")
	low := c.obj("internal/wire", "AckFrame", "LowestAcked")
	proc := c.obj(ah, "sentPacketHandler", "detectAndRemoveAckedPackets")
	c.Floor(R, "ReceivedAck processes the acknowledged ranges", countInstr(f, CallsTo(proc)), 1)
	c.cut(R, "lower:ReceivedAck rejects an ACK below the first packet number of the space", &Cut{Fn: f, Target: CallsTo(proc), NoInline: true,
		Edge: EdgeRel(Rel{Op: token.LSS, X: CallTo(low, -1), Y: Load(first)}, true)},
		"an ACK for a packet number that was never sent is a PROTOCOL_VIOLATION: with InitPacketNumber 1 (Chrome parrots) ACK{0-3} was accepted and acknowledged packets 1-3")
	ctor := c.fn(ah, "", "newPacketNumberSpace")
	ws := c.checkWriters(R, first, c.set([3]string{ah, "", "newPacketNumberSpace"}), 1)
	for _, w := range ws[funcObj(ctor)] {
		c.Check(ParamV("initialPN")(w.Val), R, "origin:firstPN is the number the generator starts with", c.P.InstrPos(w.Instr), "the same initialPN that seeds the packet number generator")
	}
}

// C17.20: a UDP socket the package opens itself is closed on every error return of the function that opened it: in
// each function of the root package that calls net.ListenUDP (or the listenUDP wrapper), every path from the call to
// a return with a non-nil error passes Close on that socket or Close on the Transport that took it over. (The
// wrapper itself returns the socket.) Until a Transport owns the socket nobody else can release it.
func c17OpenedSocketClosedOnError(c *Ctx) {
	const R = "C17.20"
	trClose := c.obj("", "Transport", "Close")
	n := 0
	for _, f := range c.P.ScopeFuncs() {
		if f.Pkg == nil || f.Pkg.Pkg.Name() != "quic" || f.Parent() != nil {
			continue
		}
		var opens []*ssa.Call
		eachInstr(f, func(in ssa.Instruction) {
			cl, ok := in.(*ssa.Call)
			if !ok || in.Parent() != f {
				return
			}
			sc := cl.Call.StaticCallee()
			if sc == nil {
				return
			}
			if (sc.Name() == "ListenUDP" && sc.Pkg != nil && sc.Pkg.Pkg.Path() == "net") || (sc.Name() == "listenUDP" && sc.Pkg == f.Pkg) {
				opens = append(opens, cl)
			}
		})
		for _, op := range opens {
			op := op
			// the wrapper that returns the socket to its caller is not an owner
			returnsSocket := false
			eachInstr(f, func(in ssa.Instruction) {
				if r, ok := in.(*ssa.Return); ok {
					for _, v := range retResults(r) {
						if v == ssa.Value(op) {
							returnsSocket = true
						}
						if ex, ok := v.(*ssa.Extract); ok && ex.Tuple == ssa.Value(op) && ex.Index == 0 {
							returnsSocket = true
						}
					}
				}
			})
			if returnsSocket {
				continue
			}
			n++
			sock := func(v ssa.Value) bool {
				v = stripConv(v)
				if mi, ok := v.(*ssa.MakeInterface); ok {
					v = mi.X
				}
				// promoted method of an embedded struct: (*net.conn).Close(&sock.conn)
				if fa, ok := v.(*ssa.FieldAddr); ok {
					v = fa.X
				}
				ex, ok := v.(*ssa.Extract)
				return ok && ex.Tuple == ssa.Value(op) && ex.Index == 0
			}
			closes := func(in ssa.Instruction) bool {
				cl, ok := in.(ssa.CallInstruction)
				if !ok {
					return false
				}
				cc := cl.Common()
				if CallsTo(trClose)(in) {
					return true
				}
				name := ""
				var recv ssa.Value
				if cc.IsInvoke() {
					name, recv = cc.Method.Name(), cc.Value
				} else if sc := cc.StaticCallee(); sc != nil && len(cc.Args) > 0 {
					name, recv = sc.Name(), cc.Args[0]
				}
				return name == "Close" && recv != nil && sock(recv)
			}
			errReturn := func(in ssa.Instruction) bool {
				r, ok := in.(*ssa.Return)
				if !ok {
					return false
				}
				rs := retResults(r)
				return len(rs) > 0 && !IsNil()(rs[len(rs)-1])
			}
			// paths start on the success edge of the open (err == nil)
			var starts []*ssa.BasicBlock
			for _, b := range f.Blocks {
				ifi, ok := b.Instrs[len(b.Instrs)-1].(*ssa.If)
				if !ok {
					continue
				}
				isErr := func(v ssa.Value) bool {
					ex, ok := v.(*ssa.Extract)
					return ok && ex.Tuple == ssa.Value(op) && ex.Index == 1
				}
				for s := 0; s < 2; s++ {
					if EdgeImplies(ifi, s, Rel{Op: token.EQL, X: isErr, Y: IsNil()}, false) {
						starts = append(starts, b.Succs[s])
					}
				}
			}
			if !c.Check(len(starts) > 0, R, "shape:"+f.Name()+" tests the error of opening the socket", c.P.InstrPos(op), "if err != nil after ListenUDP") {
				continue
			}
			c.cut(R, "release:"+f.Name()+" closes the socket it opened on every error return", &Cut{Fn: f, StartBlocks: starts, Target: errReturn, Barrier: closes, NoInline: true},
				"an address that does not resolve, a nil tls.Config or a failing Listen returned an error and left the UDP socket (and its port) open for the life of the process")
		}
	}
	c.Floor(R, "functions of the root package that open a UDP socket and own it", n, 4)
}

// C04.8 (also C01.14): once handling a frame of a packet failed, no later frame of that packet is handled (the packet
// is only parsed on, for the qlog): every handler call in handleFrames — stream, ACK, datagram and the less common
// frames — lies beyond the false edge of the "skip handling" flag. A later frame handled after a failure overwrites
// the recorded error with its own (nil) result: the FLOW_CONTROL_ERROR of the first STREAM frame is lost and the
// connection stays open.
func skipHandlingGuardsEveryHandler(c *Ctx, R string) {
	f := c.fn("", "Conn", "handleFrames")
	// the flag: a boolean φ with a constant-true input that at least three branches test
	var flag *ssa.Phi
	eachInstr(f, func(in ssa.Instruction) {
		ph, ok := in.(*ssa.Phi)
		if !ok || in.Parent() != f {
			return
		}
		if b, isB := ph.Type().Underlying().(*types.Basic); !isB || b.Kind() != types.Bool {
			return
		}
		hasTrue := false
		for _, e := range ph.Edges {
			if isConstBool(e, true) {
				hasTrue = true
			}
		}
		n := 0
		if ph.Referrers() != nil {
			for _, r := range *ph.Referrers() {
				if _, ok := r.(*ssa.If); ok {
					n++
				}
			}
		}
		if hasTrue && n >= 3 && flag == nil {
			flag = ph
		}
	})
	if !c.Check(flag != nil, R, "anchor:handleFrames keeps a skip-handling flag that its frame branches test", "-", "boolean φ set to true after a handler error, tested by ≥ 3 branches") {
		return
	}
	handlers := OrIP(CallsTo(c.obj("", "streamsMap", "HandleStreamFrame")), CallsTo(c.obj("", "Conn", "handleAckFrame")),
		CallsTo(c.obj("", "Conn", "handleDatagramFrame")), CallsTo(c.obj("", "Conn", "handleFrame")))
	c.Floor(R, "frame handler calls in handleFrames", countInstr(f, handlers), 4)
	c.cut(R, "skip:no frame is handled after an earlier frame of the packet failed", &Cut{Fn: f, Target: handlers, NoInline: true,
		Edge: EdgeRel(BoolTrue(func(v ssa.Value) bool { return v == ssa.Value(flag) }), true)},
		"with a tracer attached the loop keeps parsing after an error; a handler run then replaces the recorded error with its own result")
}

// C17.21: the keep-alive PING leaves early enough for the peer: nextKeepAliveTime is lastPacketReceivedTime +
// max(keepAliveInterval, 1.5·PTO) — the floor is PTO·3/2 (a larger floor lets the peer's idle timer win at large RTTs).
func c17KeepAliveFloor(c *Ctx) {
	const R = "C17.21"
	f := c.fn("", "Conn", "nextKeepAliveTime")
	kai := c.fld("", "Conn", "keepAliveInterval")
	pto := c.obj("internal/utils", "RTTStats", "PTO")
	n := 0
	eachInstr(f, func(in ssa.Instruction) {
		cl, ok := in.(*ssa.Call)
		if !ok || builtinName(&cl.Call) != "max" {
			return
		}
		n++
		okv := MinMaxOf("max", Load(kai), BinV(token.QUO, BinV(token.MUL, CallTo(pto, -1), ConstI(3)), ConstI(2)))(cl)
		c.Check(okv, R, "shape:keep-alive interval = max(configured interval, PTO·3/2)", c.P.InstrPos(in), "the PING must be sent before 2·PTO short of the idle timeout so that it (or a retransmission) reaches the peer in time")
	})
	c.Floor(R, "max() in nextKeepAliveTime", n, 1)
}

// C18.12: the client asks for gzip transparently only if the application did not set Accept-Encoding itself (and no
// Range, not HEAD, compression not disabled): requestedGzip = true lies beyond Header.Get("Accept-Encoding") == "".
func c18TransparentGzipOnlyWithoutAcceptEncoding(c *Ctx) {
	const R = "C18.12"
	f := c.fn("http3", "RequestStream", "sendRequestHeader")
	rg := c.fld("http3", "RequestStream", "requestedGzip")
	sets := func(in ssa.Instruction) bool {
		st, ok := in.(*ssa.Store)
		return ok && fieldOfAddress(st.Addr) == rg && isConstBool(st.Val, true)
	}
	c.Floor(R, "places where sendRequestHeader decides to request gzip", countInstr(f, sets), 1)
	get := func(name string) VP {
		return func(v ssa.Value) bool {
			cl, ok := v.(*ssa.Call)
			if !ok || cl.Call.StaticCallee() == nil || cl.Call.StaticCallee().Name() != "Get" || len(cl.Call.Args) != 2 {
				return false
			}
			k, ok := cl.Call.Args[1].(*ssa.Const)
			return ok && k.Value != nil && k.Value.Kind() == constant.String && strings.EqualFold(constant.StringVal(k.Value), name)
		}
	}
	for _, h := range []string{"Accept-Encoding", "Range"} {
		c.cut(R, "own:gzip is requested only when the request carries no "+h, &Cut{Fn: f, Target: sets, NoInline: true,
			Edge: EdgeRel(Rel{Op: token.EQL, X: get(h), Y: func(v ssa.Value) bool { return isEmptyStringConst(v) }}, false)},
			"an application that sets its own Accept-Encoding gets a second gzip value sent and a transparently decompressed body (Content-Encoding / Content-Length removed) it did not ask for")
	}
}

// C06.11: the two places that throw packets away wholesale keep bytes in flight in step. QueueProbePacket: every path
// from DeclareLost to the return passes removeFromBytesInFlight, and that call comes before
// queueFramesForRetransmission (which clears the packet's frames — afterwards the packet no longer looks
// ack-eliciting). ResetForRetry: every return has passed bytesInFlight = 0.
func c06WholesaleRemovalKeepsBytesInFlight(c *Ctx) {
	const R = "C06.11"
	q := c.fn(ah, "sentPacketHandler", "QueueProbePacket")
	dl := c.obj(ah, "sentPacketHistory", "DeclareLost")
	rm := c.obj(ah, "sentPacketHandler", "removeFromBytesInFlight")
	qf := c.obj(ah, "sentPacketHandler", "queueFramesForRetransmission")
	c.Floor(R, "DeclareLost in QueueProbePacket", countInstr(q, CallsTo(dl)), 1)
	c.cut(R, "probe:a packet queued as probe leaves bytes in flight", &Cut{Fn: q, Start: CallsTo(dl), Target: isReturn, Barrier: CallsTo(rm), NoInline: true},
		"the packet is declared lost and its frames are retransmitted in a new packet: its bytes must leave bytes_in_flight, unconditionally")
	c.cut(R, "probe:bytes in flight are released before the frames are cleared", &Cut{Fn: q, Start: CallsTo(dl), Target: CallsTo(qf), Barrier: CallsTo(rm), NoInline: true},
		"queueFramesForRetransmission empties the packet's frame lists; a test for ack-elicitingness after it is always false")
	r := c.fn(ah, "sentPacketHandler", "ResetForRetry")
	bif := c.fld(ah, "sentPacketHandler", "bytesInFlight")
	zero := func(in ssa.Instruction) bool {
		st, ok := in.(*ssa.Store)
		return ok && fieldOfAddress(st.Addr) == bif && ConstI(0)(st.Val)
	}
	c.Floor(R, "bytesInFlight = 0 in ResetForRetry", countInstr(r, zero), 1)
	c.cut(R, "retry:ResetForRetry zeroes bytes in flight on every path", &Cut{Fn: r, Target: isReturn, Barrier: zero, NoInline: true},
		"both packet-number spaces are replaced and every frame is reported lost: whatever was in flight is gone, also when a PTO fired before the Retry")
}

// C01.13: a DATAGRAM frame the connection sends carries its length: SendDatagram builds the frame with
// DataLenPresent = true. The packer puts the DATAGRAM frame before STREAM and control frames; without a length the
// receiver takes the rest of the packet for datagram payload (the datagram is altered, the STREAM frames are
// acknowledged but never processed).
func c01DatagramFramesCarryTheirLength(c *Ctx) {
	const R = "C01.13"
	f := c.fn("", "Conn", "SendDatagram")
	dlp := c.fld("internal/wire", "DatagramFrame", "DataLenPresent")
	add := c.obj("", "datagramQueue", "Add")
	sets := func(in ssa.Instruction) bool {
		st, ok := in.(*ssa.Store)
		return ok && fieldOfAddress(st.Addr) == dlp && isConstBool(st.Val, true)
	}
	c.Floor(R, "frames queued by SendDatagram", countInstr(f, CallsTo(add)), 1)
	c.cut(R, "length:SendDatagram queues frames with DataLenPresent", &Cut{Fn: f, Target: CallsTo(add), Barrier: sets, NoInline: true},
		"a DATAGRAM frame without length extends to the end of the packet, and the packer serialises other frames after it")
}

// dependsOnReadCount: a branch that dominates b compares the byte count returned by a Read call (the last bytes of a
// body usually arrive together with the FIN: (n > 0, io.EOF) — an early end must be reported whatever n is).
func dependsOnReadCount(b *ssa.BasicBlock) bool {
	isCount := func(v ssa.Value) bool {
		ex, ok := stripConv(v).(*ssa.Extract)
		if !ok || ex.Index != 0 {
			return false
		}
		cl, ok := ex.Tuple.(*ssa.Call)
		if !ok {
			return false
		}
		if cl.Call.IsInvoke() {
			return cl.Call.Method.Name() == "Read"
		}
		return cl.Call.StaticCallee() != nil && cl.Call.StaticCallee().Name() == "Read"
	}
	for d := b; d != nil && d.Idom() != nil; d = d.Idom() {
		id := d.Idom()
		ifi, ok := id.Instrs[len(id.Instrs)-1].(*ssa.If)
		if !ok || len(d.Preds) != 1 {
			continue
		}
		if bo, ok := ifi.Cond.(*ssa.BinOp); ok && (isCount(bo.X) || isCount(bo.Y)) {
			return true
		}
	}
	return false
}

// C15.10 (also C04.9): a Config that comes from the application is normalised before its limits are advertised and
// enforced: every call of populateConfig in the root package is dominated by a call of validateConfig on the same
// value (whose error, if any, was handled). validateConfig clips the stream limits to 2^60 and the windows to the
// varint maximum; the per-client Config of GetConfigForClient used to skip it (limit 2^61: every handshake fails;
// MaxInt64: TransportParameters.Marshal panics on the run goroutine and kills the server process).
func configValidatedBeforeUse(c *Ctx, R string) {
	pop := c.obj("", "", "populateConfig")
	val := c.obj("", "", "validateConfig")
	n := 0
	for _, cs := range c.P.CallSites(pop) {
		cl, ok := cs.Instr.(*ssa.Call)
		if !ok || cs.Kind != "call" || len(cl.Call.Args) != 1 {
			continue
		}
		n++
		arg := cl.Call.Args[0]
		f := cs.Fn
		site := cs.Instr
		validated := func(in ssa.Instruction) bool {
			v, ok := in.(*ssa.Call)
			return ok && CallsTo(val)(in) && len(v.Call.Args) == 1 && v.Call.Args[0] == arg
		}
		c.cut(R, "validated:"+rootFn(f).Name()+" normalises the Config before it populates it", &Cut{Fn: f, NoInline: true,
			Target: func(in ssa.Instruction) bool { return in == site }, Barrier: validated},
			"the documented clipping (stream limits to 2^60, windows to the varint maximum, packet size) and the version check live in validateConfig; a Config that bypasses it is advertised and enforced raw")
	}
	c.Floor(R, "populateConfig call sites", n, 4)
}

// C18.13: a frame after the trailing HEADERS frame is an invalid frame sequence and gets the connection error the
// other invalid sequences get: in Stream.Read every return on the parsedTrailer edge (DATA after trailers, HEADERS after
// trailers) passes conn.CloseWithError(H3_FRAME_UNEXPECTED), like the unexpected-frame-type branch next to it.
func c18FramesAfterTrailersCloseConnection(c *Ctx) {
	const R = "C18.13"
	f := c.fn("http3", "Stream", "Read")
	ptf := c.fld("http3", "Stream", "parsedTrailer")
	fu := c.konst("http3", "ErrCodeFrameUnexpected")
	starts := edgeSuccs(f, BoolTrue(Load(ptf)))
	c.Floor(R, "tests of parsedTrailer in Stream.Read", len(starts), 2)
	if len(starts) == 0 {
		return
	}
	closes := func(in ssa.Instruction) bool {
		cl, ok := in.(ssa.CallInstruction)
		if !ok {
			return false
		}
		cc := cl.Common()
		name := ""
		if cc.IsInvoke() {
			name = cc.Method.Name()
		} else if sc := cc.StaticCallee(); sc != nil {
			name = sc.Name()
		}
		if name != "CloseWithError" {
			return false
		}
		for _, a := range cc.Args {
			if ConstOf(fu)(a) {
				return true
			}
		}
		return false
	}
	c.cut(R, "close:a DATA or HEADERS frame after the trailers closes the connection with H3_FRAME_UNEXPECTED", &Cut{Fn: f, StartBlocks: starts, Target: isReturn, Barrier: closes, NoInline: true},
		"RFC 9114 §4.1: an invalid sequence of frames is a connection error; returning a plain error to the body reader lets the handler answer 200 and keeps the connection open")
}

// C18.14: a request with an explicitly empty body (http.NoBody) has content length 0, like one with a nil body:
// actualContentLength compares Request.Body with http.NoBody (the x/net/http2 original does; the copy had lost it), so
// POST / PUT / PATCH with NoBody send content-length: 0.
func c18NoBodyIsLengthZero(c *Ctx) {
	const R = "C18.14"
	f := c.fn("http3", "", "actualContentLength")
	found := false
	eachInstr(f, func(in ssa.Instruction) {
		b, ok := in.(*ssa.BinOp)
		if !ok || (b.Op != token.EQL && b.Op != token.NEQ) {
			return
		}
		for _, v := range []ssa.Value{b.X, b.Y} {
			v = stripConv(v)
			if mi, ok := v.(*ssa.MakeInterface); ok {
				v = mi.X
			}
			if u, ok := v.(*ssa.UnOp); ok && u.Op == token.MUL {
				if g, ok := u.X.(*ssa.Global); ok && g.Name() == "NoBody" && g.Pkg != nil && g.Pkg.Pkg.Path() == "net/http" {
					found = true
				}
			}
		}
	})
	c.Check(found, R, "nobody:actualContentLength treats http.NoBody like a nil body", c.P.Pos(f.Pos()),
		"without it a POST with an explicitly empty body is sent without content-length: 0 and the server sees ContentLength -1")
}

// C18.15: the frame parser does not silently swallow a frame type it knows: every case of ParseNext's switch over the
// frame type either returns the frame (so that the caller's default branch can reject it where it is forbidden) or
// closes the connection. CANCEL_PUSH, PUSH_PROMISE and MAX_PUSH_ID are recognised, logged and then skipped like
// unknown types — also on request streams, where RFC 9114 §7.2.3/5/7 demand H3_FRAME_UNEXPECTED.
func c18KnownFrameTypesAreNotSkipped(c *Ctx) {
	const R = "C18.15"
	obj := c.obj("http3", "frameParser", "ParseNext")
	fd, pk := c.P.FuncDecl(obj)
	if !c.Check(fd != nil, R, "anchor:frameParser.ParseNext", "-", "declaration") {
		return
	}
	n := 0
	ast.Inspect(fd.Body, func(nd ast.Node) bool {
		sw, ok := nd.(*ast.SwitchStmt)
		if !ok || sw.Tag == nil {
			return true
		}
		for _, cc := range sw.Body.List {
			cl := cc.(*ast.CaseClause)
			if len(cl.List) == 0 {
				continue
			}
			var labels []string
			allConst := true
			for _, e := range cl.List {
				tv, ok := pk.TypesInfo.Types[e]
				if !ok || tv.Value == nil {
					allConst = false
					break
				}
				labels = append(labels, tv.Value.ExactString())
			}
			if !allConst {
				continue
			}
			n++
			handled := false
			ast.Inspect(cl, func(x ast.Node) bool {
				switch y := x.(type) {
				case *ast.ReturnStmt:
					handled = true
				case *ast.CallExpr:
					if se, ok := y.Fun.(*ast.SelectorExpr); ok && se.Sel.Name == "closeConn" {
						handled = true
					}
				}
				return true
			})
			c.Check(handled, R, "known:frame type "+strings.Join(labels, ",")+" is returned to the caller or rejected", c.P.Pos(cl.Pos()),
				"a recognised frame type that is skipped like an unknown one never reaches the request stream's `unexpected frame` branch")
		}
		return true
	})
	c.Floor(R, "frame-type cases in ParseNext", n, 6)
}

// C07.10: packets that were buffered until their keys arrived are acknowledged like any others: in Conn.run, every path
// from the place the buffered packets were processed back to the blocking select passes triggerSending or arms an
// immediate send (pacingDeadline = deadlineSendImmediately). The `continue` that follows their processing used to go
// straight back to waiting: Initial / Handshake trackers have no ACK alarm, and the second ack-eliciting 1-RTT packet
// cancels it (ackQueued), so nothing sent the ACK (or the CRYPTO data those packets produced) until a PTO.
func c07BufferedPacketsTriggerSending(c *Ctx) {
	const R = "C07.10"
	f := c.fn("", "Conn", "run")
	hop := c.obj("", "Conn", "handleOnePacket")
	ts := c.obj("", "Conn", "triggerSending")
	pd := c.fld("", "Conn", "pacingDeadline")
	dsi, err := c.P.Object("", "deadlineSendImmediately")
	if err != nil {
		panic(anchorErr{err})
	}
	arms := func(in ssa.Instruction) bool {
		if CallsTo(ts)(in) {
			return true
		}
		st, ok := in.(*ssa.Store)
		if !ok || fieldOfAddress(st.Addr) != pd {
			return false
		}
		u, ok := st.Val.(*ssa.UnOp)
		if !ok || u.Op != token.MUL {
			return false
		}
		g, ok := u.X.(*ssa.Global)
		return ok && g.Object() == dsi
	}
	waits := func(in ssa.Instruction) bool { s, ok := in.(*ssa.Select); return ok && s.Blocking }
	// the processing of buffered packets: the handleOnePacket call inside the loop over the queue (not the one in handlePackets)
	n := countInstr(f, func(in ssa.Instruction) bool { return CallsTo(hop)(in) && in.Parent() == f })
	c.Floor(R, "buffered packets processed in run", n, 1)
	// paths start where the loop has established that at least one buffered packet was processed: the true edge of the
	// boolean φ that collects handleOnePacket's "processed" results
	var starts []*ssa.BasicBlock
	for _, b := range f.Blocks {
		ifi, ok := b.Instrs[len(b.Instrs)-1].(*ssa.If)
		if !ok {
			continue
		}
		ph, ok := ifi.Cond.(*ssa.Phi)
		if !ok {
			continue
		}
		fromProcessed := false
		for _, e := range ph.Edges {
			if isConstBool(e, true) {
				fromProcessed = true
			}
		}
		// the φ lives in the loop over the queue: its block must be reachable from the handleOnePacket call
		reach := false
		eachInstr(f, func(in ssa.Instruction) {
			if CallsTo(hop)(in) && in.Parent() == f && instrReaches(in, ifi) {
				reach = true
			}
		})
		if fromProcessed && reach && ph.Comment == "processedUndecryptablePacket" || (fromProcessed && reach && len(starts) == 0 && token.IsIdentifier(ph.Comment) && strings.Contains(strings.ToLower(ph.Comment), "processed")) {
			starts = append(starts, b.Succs[0])
		}
	}
	if !c.Check(len(starts) > 0, R, "anchor:run tests whether a buffered packet was processed", "-", "boolean collected from handleOnePacket's results") {
		return
	}
	c.cut(R, "ack:after buffered packets were processed the run loop sends before it waits again", &Cut{Fn: f, NoInline: true,
		StartBlocks: starts, Target: waits, Barrier: arms},
		"the ACK for buffered Initial / Handshake packets is due immediately and for 1-RTT packets within max_ack_delay; no timer covers it when the connection is congestion limited")
}

// C07.11: an ACK-only datagram covers every packet number space that has an ACK queued: in PackCoalescedPacket (both
// packers) the next space is consulted in ack-only mode whether or not an earlier space already contributed — a
// condition `onlyAck && size == 0` packs the ACK of exactly one space per wake-up, and the others have no timer.
func c07AckOnlyCoversAllSpaces(c *Ctx) {
	const R = "C07.11"
	n := 0
	for _, recv := range []string{"packetPacker", "uPacketPacker"} {
		obj := c.obj("", recv, "PackCoalescedPacket")
		fd, _ := c.P.FuncDecl(obj)
		if fd == nil {
			c.Bad(R, "anchor:"+recv+".PackCoalescedPacket", "-", "no declaration")
			continue
		}
		k := 0
		ast.Inspect(fd.Body, func(nd ast.Node) bool {
			be, ok := nd.(*ast.BinaryExpr)
			if !ok || be.Op != token.LAND {
				return true
			}
			id, ok := be.X.(*ast.Ident)
			if !ok || id.Name != "onlyAck" {
				return true
			}
			cmp, ok := be.Y.(*ast.BinaryExpr)
			if !ok || cmp.Op != token.EQL {
				return true
			}
			if x, ok := cmp.X.(*ast.Ident); ok && x.Name == "size" {
				k++
				n++
				c.Bad(R, fmt.Sprintf("allspaces:%s.PackCoalescedPacket consults the next space in ack-only mode regardless of what is packed already#%d", recv, k), c.P.Pos(be.Pos()),
					"`onlyAck && size == 0`: once one space contributed its ACK the other spaces are skipped; the caller sends a single ack-only packet per wake-up")
			}
			return true
		})
		if k == 0 {
			c.OK(R, "allspaces:"+recv+".PackCoalescedPacket consults the next space in ack-only mode regardless of what is packed already", c.P.Pos(fd.Pos()), "no `onlyAck && size == 0` condition")
		}
	}
	_ = n
}
