package main

import (
	"go/token"
	"go/types"

	"golang.org/x/tools/go/ssa"
)

func init() { register("C07", runC07) }

func runC07(c *Ctx) {
	c.Clause("C07.1 received ranges are written only by the history's three maintainers; every ACK range built comes from an interval the history yields, iterated from the highest range downwards")
	c.Clause("C07.2 packets below the deleted threshold are never recorded and always count as duplicates; forget-below thresholds are monotone")
	c.Clause("C07.3 duplicate test dominates frame handling for both header forms; the trackers refuse packets that are not new; per-level dispatch tables agree")
	c.Clause("C07.4 ACK timing structure: an ack-eliciting 1-RTT packet leaves with an ACK queued or the alarm set to rcvTime+maxAckDelay; Initial/Handshake ACKs are not gated; the four immediate-ACK triggers exist")
	c.Clause("C07.5 decision predicates of the forget-below pruning and of the gap-reveal / gap-fill ACK triggers (isMissing, hasNewMissingPackets, DeleteBelow trim and whole-range deletion) have the frozen shapes")
	c.Clause("C07.6 GetAckFrame decides alarm expiry on ackAlarm, the field GetAlarmTimeout reports")
	c.Clause("C07.7 the connection's run-loop timer folds in the ACK alarm on every path that is not hard-blocked (an armed alarm that the timer ignores never fires)")
	c.Clause("C07.9 every payload serialiser (stock appendPacketPayload, spec MarshalInitialPacketPayload) writes the ACK frame that was dequeued into the payload")
	c.Clause("C07.8 whenever ranges are removed from the front of the received-packet history (DeleteBelow, pruning beyond MaxNumAckRanges) the duplicate threshold deletedBelow is raised on the same path: what was forgotten counts as potentially duplicate")
	c.Clause("C07.10 after buffered (formerly undecryptable) packets were processed the run loop triggers sending before it waits again; C07.11 an ack-only datagram consults every packet number space")
	c.NotCovered("interval-list algebra (merge/insert/prune correctness), HighestMissingUpTo")
	c.NotCovered("that ranges are disjoint and include the largest received, as a value-level fact")

	c.rule("C07.1", func() { c07Ranges(c) })
	c.rule("C07.2", func() { c07Thresholds(c) })
	c.rule("C07.3", func() { c07Duplicates(c, "C07.3") })
	c.rule("C07.4", func() { c07Timing(c) })
	c.rule("C07.5", func() { c07Predicates(c) })
	c.rule("C07.6", func() { c07AlarmAgreement(c) })
	c.rule("C07.7", func() { timerFold(c, "C07.7", false, true) })
	c.rule("C07.8", func() { c07ForgettingRaisesThreshold(c) })
	c.rule("C07.9", func() { c07DequeuedAckIsSerialised(c) })
	c.rule("C07.10", func() { c07BufferedPacketsTriggerSending(c) })
	c.rule("C07.11", func() { c07AckOnlyCoversAllSpaces(c) })
}

func c07Ranges(c *Ctx) {
	const R = "C07.1"
	ranges := c.fld(ah, "receivedPacketHistory", "ranges")
	c.checkWriters(R, ranges, c.set([3]string{ah, "receivedPacketHistory", "addToRanges"}, [3]string{ah, "receivedPacketHistory", "DeleteBelow"}, [3]string{ah, "receivedPacketHistory", "ReceivedPacket"}), 6)

	// AckRange literals outside internal/wire
	tn := c.named("internal/wire", "AckRange")
	smallest := c.fld("internal/wire", "AckRange", "Smallest")
	largest := c.fld("internal/wire", "AckRange", "Largest")
	start := c.fld(ah, "interval", "Start")
	end := c.fld(ah, "interval", "End")
	backward := c.obj(ah, "receivedPacketHistory", "Backward")
	allowed := c.set([3]string{ah, "receivedPacketTracker", "GetAckFrame"})
	n := 0
	for _, f := range c.P.ScopeFuncs() {
		if funcPkgPath(f) == pkgPathOf("internal/wire") {
			continue
		}
		eachInstr(f, func(in ssa.Instruction) {
			al, ok := in.(*ssa.Alloc)
			if !ok || namedOf(al.Type()) == nil || namedOf(al.Type()).Obj() != tn {
				return
			}
			if _, isPtr := al.Type().Underlying().(*types.Pointer); !isPtr {
				return
			}
			if _, isStruct := al.Type().Underlying().(*types.Pointer).Elem().Underlying().(*types.Struct); !isStruct {
				return
			}
			if al.Comment != "complit" {
				return // a local variable of that type, not a constructed range
			}
			n++
			if !c.Check(allowed.has(f), R, "site:AckRange literal@"+funcName(rootFn(f)), c.P.InstrPos(in), "ACK ranges are built only from the received-packet history") {
				return
			}
			c.FuncsSet[funcName(f)] = true
			// field provenance: Smallest <- yielded interval.Start ; Largest <- yielded interval.End
			for _, pr := range []struct{ dst, src *types.Var }{{smallest, start}, {largest, end}} {
				found := false
				for _, r := range *al.Referrers() {
					fa, ok := r.(*ssa.FieldAddr)
					if !ok || fieldOfAddr(fa) != pr.dst {
						continue
					}
					for _, rr := range *fa.Referrers() {
						st, ok := rr.(*ssa.Store)
						if !ok {
							continue
						}
						found = true
						sf, base := loadedField(st.Val)
						okv := sf == pr.src && isYieldParam(base, f)
						c.Check(okv, R, "origin:AckRange."+pr.dst.Name()+"=yielded interval."+pr.src.Name(), c.P.InstrPos(st),
							"the range bound is the corresponding bound of an interval yielded by the history iterator")
					}
				}
				c.Check(found, R, "origin:AckRange."+pr.dst.Name()+" set", c.P.InstrPos(in), "both bounds are set")
			}
			// f is the yield closure of a range over packetHistory.Backward()
			par := f.Parent()
			okIter := false
			if par != nil {
				eachInstr(par, func(pi ssa.Instruction) {
					cl, ok := pi.(*ssa.Call)
					if !ok {
						return
					}
					// t = Backward(); t(closure)
					if inner, ok := cl.Call.Value.(*ssa.Call); ok && calleeObj(&inner.Call) == backward {
						for _, a := range cl.Call.Args {
							if mc, ok := a.(*ssa.MakeClosure); ok && mc.Fn == f {
								okIter = true
							}
						}
					}
				})
			}
			c.Check(okIter, R, "origin:ranges iterated with history.Backward()", c.P.InstrPos(in), "the ACK ranges are produced by iterating the history from the highest range downwards")
		})
	}
	c.Floor(R, "AckRange literals outside wire", n, 1)

	// Backward yields h.ranges[i] for i from len-1 downwards
	bw := c.fn(ah, "receivedPacketHistory", "Backward")
	ny := 0
	for _, a := range bw.AnonFuncs {
		c.FuncsSet[funcName(a)] = true
		eachInstr(a, func(in ssa.Instruction) {
			cl, ok := in.(*ssa.Call)
			if !ok {
				return
			}
			if p, ok := cl.Call.Value.(*ssa.Parameter); !ok || p.Name() != "yield" {
				return
			}
			ny++
			arg := cl.Call.Args[0]
			u, ok := arg.(*ssa.UnOp)
			var ia *ssa.IndexAddr
			if ok {
				ia, _ = u.X.(*ssa.IndexAddr)
			}
			okElem := ia != nil && Load(ranges)(ia.X)
			c.Check(okElem, R, "shape:Backward yields ranges[i]", c.P.InstrPos(in), "the iterator yields elements of the stored ranges")
			if okElem {
				// index is a φ whose entry edge is len(ranges)-1 and whose back edge is i-1
				ph, ok := ia.Index.(*ssa.Phi)
				okDesc := false
				if ok && len(ph.Edges) == 2 {
					a0 := BinV(token.SUB, LenOf(Load(ranges)), ConstI(1))
					dec := BinV(token.SUB, func(v ssa.Value) bool { return v == ph }, ConstI(1))
					okDesc = (a0(ph.Edges[0]) && dec(ph.Edges[1])) || (a0(ph.Edges[1]) && dec(ph.Edges[0]))
				}
				c.Check(okDesc, R, "shape:Backward descends from len-1", c.P.InstrPos(in), "iteration starts at the highest range and descends")
			}
		})
	}
	c.Floor(R, "yield calls in Backward", ny, 1)
}

// isYieldParam: base is (the address of / a copy of) a parameter of the yield closure f.
func isYieldParam(base ssa.Value, f *ssa.Function) bool {
	base = stripConv(base)
	switch x := base.(type) {
	case *ssa.Parameter:
		return x.Parent() == f
	case *ssa.Alloc:
		// param spilled into a local: single store of the parameter
		if x.Referrers() == nil {
			return false
		}
		for _, r := range *x.Referrers() {
			if st, ok := r.(*ssa.Store); ok && st.Addr == x {
				if p, ok := st.Val.(*ssa.Parameter); ok && p.Parent() == f {
					return true
				}
			}
		}
	}
	return false
}

func c07Thresholds(c *Ctx) {
	const R = "C07.2"
	deletedBelow := c.fld(ah, "receivedPacketHistory", "deletedBelow")
	rp := c.fn(ah, "receivedPacketHistory", "ReceivedPacket")
	add := c.obj(ah, "receivedPacketHistory", "addToRanges")
	below := Rel{Op: token.LSS, X: ParamV("p"), Y: Load(deletedBelow)}
	c.cut(R, "guard:packets below deletedBelow are not recorded", &Cut{Fn: rp, Target: CallsTo(add), Edge: EdgeRel(below, true)},
		"addToRanges is only reached for p >= deletedBelow")
	c.Floor(R, "addToRanges calls", countInstr(rp, CallsTo(add)), 1)
	c.cut(R, "guard:below deletedBelow → not new", &Cut{Fn: rp,
		Target: func(i ssa.Instruction) bool {
			r, ok := i.(*ssa.Return)
			return ok && !isConstBool(retResults(r)[0], false)
		}, Edge: EdgeRel(below, true)}, "with the p >= deletedBelow edge removed, only `return false` remains")

	ws := c.checkWriters(R, deletedBelow, c.set([3]string{ah, "receivedPacketHistory", "DeleteBelow"}, [3]string{ah, "", "newReceivedPacketHistory"}, [3]string{ah, "receivedPacketHistory", "ReceivedPacket"}), 2)
	// a store in ReceivedPacket (the pruning of old ranges) only ever raises the threshold: max(deletedBelow, …)
	for _, w := range ws[funcObj(rp)] {
		okMax := false
		if cl, isCall := stripConv(w.Val).(*ssa.Call); isCall && builtinName(&cl.Call) == "max" {
			for _, a := range cl.Call.Args {
				if Load(deletedBelow)(a) {
					okMax = true
				}
			}
		}
		c.Check(okMax, R, "shape:deletedBelow raised by pruning = max(deletedBelow, …)", c.P.InstrPos(w.Instr), "the threshold only moves up")
	}
	db := c.fn(ah, "receivedPacketHistory", "DeleteBelow")
	for _, w := range ws[funcObj(db)] {
		c.Check(ParamV("p")(w.Val), R, "shape:deletedBelow=p", c.P.InstrPos(w.Instr), "threshold stored as given")
		c.cut(R, "guard:deletedBelow monotone", &Cut{Fn: db, Target: func(i ssa.Instruction) bool { return i == w.Instr }, Edge: EdgeRel(below, true)},
			"the threshold only moves up")
	}
	ipd := c.fn(ah, "receivedPacketHistory", "IsPotentiallyDuplicate")
	c.cut(R, "guard:below deletedBelow → duplicate", &Cut{Fn: ipd,
		Target: func(i ssa.Instruction) bool {
			r, ok := i.(*ssa.Return)
			return ok && !isConstBool(retResults(r)[0], true)
		}, Edge: EdgeRel(below, true)}, "a packet number below the forgotten threshold is always treated as a duplicate")
	// in-range test uses both bounds inclusive
	st := c.fld(ah, "interval", "Start")
	en := c.fld(ah, "interval", "End")
	nTrue := 0
	eachInstr(ipd, func(i ssa.Instruction) {
		r, ok := i.(*ssa.Return)
		if !ok || !isConstBool(retResults(r)[0], true) {
			return
		}
		b := r.Block()
		if dominatedByEdge(b, below, false) {
			return
		}
		nTrue++
		ok1 := dominatedByEdge(b, Rel{Op: token.LEQ, X: ParamV("p"), Y: Load(en)}, false)
		ok2 := dominatedByEdge(b, Rel{Op: token.GEQ, X: ParamV("p"), Y: Load(st)}, false)
		c.Check(ok1 && ok2, R, "shape:duplicate iff Start<=p<=End", c.P.InstrPos(i), "a packet inside a recorded range (bounds inclusive) is a duplicate")
	})
	c.Floor(R, "in-range duplicate returns", nTrue, 1)

	ignoreBelow := c.fld(ah, "appDataReceivedPacketTracker", "ignoreBelow")
	ib := c.fn(ah, "appDataReceivedPacketTracker", "IgnoreBelow")
	iws := c.checkWriters(R, ignoreBelow, c.set([3]string{ah, "appDataReceivedPacketTracker", "IgnoreBelow"}), 1)
	dbObj := c.obj(ah, "receivedPacketHistory", "DeleteBelow")
	for _, w := range iws[funcObj(ib)] {
		c.Check(ParamV("pn")(w.Val), R, "shape:ignoreBelow=pn", c.P.InstrPos(w.Instr), "threshold stored as given")
		c.cut(R, "guard:ignoreBelow monotone", &Cut{Fn: ib, Target: func(i ssa.Instruction) bool { return i == w.Instr },
			Edge: EdgeRel(Rel{Op: token.GTR, X: ParamV("pn"), Y: Load(ignoreBelow)}, false)}, "the threshold only moves up")
		c.cut(R, "pair:ignoreBelow→DeleteBelow", &Cut{Fn: ib, Start: func(i ssa.Instruction) bool { return i == w.Instr }, Target: isReturn,
			Barrier: CallsToArgs(dbObj, ParamV("pn"))}, "raising the threshold prunes the history to the same value")
	}
}

func c07Duplicates(c *Ctx, R string) {
	dup := c.obj(ah, "ReceivedPacketHandler", "IsPotentiallyDuplicate")
	notDup := EdgeRel(BoolTrue(CallTo(dup, -1)), true)
	for _, pr := range [][2]string{{"handleShortHeaderPacket", "handleUnpackedShortHeaderPacket"}, {"handleLongHeaderPacket", "handleUnpackedLongHeaderPacket"}} {
		f := c.fn("", "Conn", pr[0])
		h := c.obj("", "Conn", pr[1])
		c.Floor(R, "calls of "+pr[1], countInstr(f, CallsTo(h)), 1)
		c.cut(R, "guard:duplicate test before frame handling@"+pr[0], &Cut{Fn: f, Target: CallsTo(h), Edge: notDup},
			"an unpacked packet reaches frame handling only on the IsPotentiallyDuplicate()==false edge")
		// who may call the unpacked-packet handler
		c.checkCallers(R, h, c.set([3]string{"", "Conn", pr[0]}), 1)
	}
	// handleFrames reachable only from the two unpacked-packet handlers
	hf := c.obj("", "Conn", "handleFrames")
	c.checkCallers(R, hf, c.set([3]string{"", "Conn", "handleUnpackedShortHeaderPacket"}, [3]string{"", "Conn", "handleUnpackedLongHeaderPacket"}), 2)

	// tracker refuses non-new packets
	tr := c.fn(ah, "receivedPacketTracker", "ReceivedPacket")
	hrp := c.obj(ah, "receivedPacketHistory", "ReceivedPacket")
	c.cut(R, "guard:tracker records only new packets", &Cut{Fn: tr, Target: ReturnsMaybeNilErr(0), Edge: EdgeRel(BoolTrue(CallTo(hrp, -1)), false)},
		"ReceivedPacket returns success only if the history reported the packet as new")

	// dispatch tables of ReceivedPacketHandler
	ini := c.fld(ah, "ReceivedPacketHandler", "initialPackets")
	hs := c.fld(ah, "ReceivedPacketHandler", "handshakePackets")
	app := c.fld(ah, "ReceivedPacketHandler", "appDataPackets")
	kI := c.konst("internal/protocol", "EncryptionInitial")
	kH := c.konst("internal/protocol", "EncryptionHandshake")
	k0 := c.konst("internal/protocol", "Encryption0RTT")
	k1 := c.konst("internal/protocol", "Encryption1RTT")
	table := map[*types.Var][]types.Object{ini: {kI}, hs: {kH}, app: {k0, k1}}
	for _, m := range []string{"ReceivedPacket", "GetAckFrame", "IsPotentiallyDuplicate"} {
		f := c.fn(ah, "ReceivedPacketHandler", m)
		nd := 0
		eachInstr(f, func(in ssa.Instruction) {
			cl, ok := in.(*ssa.Call)
			if !ok || cl.Call.IsInvoke() || len(cl.Call.Args) == 0 {
				return
			}
			recv := cl.Call.Args[0]
			var fld *types.Var
			if g, _ := loadedField(recv); g != nil {
				fld = g
			} else if fa, ok := recv.(*ssa.FieldAddr); ok {
				fld = fieldOfAddr(fa)
				// promoted through embedded struct: &h.appDataPackets.receivedPacketTracker
				if inner, ok := fa.X.(*ssa.FieldAddr); ok && table[fld] == nil {
					fld = fieldOfAddr(inner)
				}
			}
			ks, ok := table[fld]
			if !ok {
				return
			}
			nd++
			var edges []func(*ssa.If, int) bool
			for _, k := range ks {
				edges = append(edges, EdgeRel(Rel{Op: token.EQL, X: ParamV("encLevel"), Y: ConstOf(k)}, false))
			}
			c.cut(R, "dispatch:"+m+"→"+fld.Name(), &Cut{Fn: f, Target: func(i ssa.Instruction) bool { return i == in }, Edge: OrEdge(edges...)},
				"the tracker of a number space is used only for packets of that space's encryption level(s)")
		})
		c.Floor(R, "dispatch sites in "+m, nd, 3)
	}
}

func c07Timing(c *Ctx) {
	const R = "C07.4"
	rp := c.fn(ah, "appDataReceivedPacketTracker", "ReceivedPacket")
	cnt := c.fld(ah, "appDataReceivedPacketTracker", "ackElicitingPacketsReceivedSinceLastAck")
	ackQueued := c.fld(ah, "appDataReceivedPacketTracker", "ackQueued")
	ackAlarm := c.fld(ah, "appDataReceivedPacketTracker", "ackAlarm")
	maxAckDelay := c.fld(ah, "appDataReceivedPacketTracker", "maxAckDelay")
	timeAdd := c.obj("internal/monotime", "Time", "Add")
	alarmSet := func(i ssa.Instruction) bool {
		st, ok := i.(*ssa.Store)
		if !ok || fieldOfAddress(st.Addr) != ackAlarm {
			return false
		}
		cl, ok := stripConv(st.Val).(*ssa.Call)
		if !ok || calleeObj(&cl.Call) != timeAdd || len(cl.Call.Args) != 2 {
			return false
		}
		return ParamV("rcvTime")(cl.Call.Args[0]) && Load(maxAckDelay)(cl.Call.Args[1])
	}
	c.Floor(R, "ack-eliciting counter increments", countInstr(rp, StoresTo(cnt)), 1)
	c.cut(R, "post:ack-eliciting packet → ACK queued or alarm=rcvTime+maxAckDelay", &Cut{Fn: rp, Start: StoresTo(cnt), Target: isReturn, Barrier: alarmSet,
		Edge: EdgeRel(BoolTrue(Load(ackQueued)), false)}, "every ack-eliciting application-data packet leaves with an ACK queued or the ACK alarm at most max_ack_delay away")
	// the counter increment itself is reached for every ack-eliciting new packet
	c.cut(R, "guard:counter increment reached unless !ackEliciting or error", &Cut{Fn: rp, Target: ReturnsMaybeNilErr(0), Barrier: StoresTo(cnt),
		Edge: EdgeRel(BoolTrue(ParamV("ackEliciting")), true)}, "only non-ack-eliciting packets return before the ACK bookkeeping")
	// ackQueued set on shouldQueueACK
	sq := c.obj(ah, "appDataReceivedPacketTracker", "shouldQueueACK")
	c.cut(R, "pair:shouldQueueACK()==true → ackQueued=true", &Cut{Fn: rp, Start: CallsTo(sq), Target: isReturn,
		Barrier: func(i ssa.Instruction) bool {
			st, ok := i.(*ssa.Store)
			return ok && fieldOfAddress(st.Addr) == ackQueued && isConstBool(st.Val, true)
		}, Edge: EdgeRel(BoolTrue(CallTo(sq, -1)), true)}, "a positive queuing decision queues the ACK")
	c.Floor(R, "shouldQueueACK calls", countInstr(rp, CallsTo(sq)), 1)

	// shouldQueueACK: four triggers
	sf := c.fn(ah, "appDataReceivedPacketTracker", "shouldQueueACK")
	hnm := c.obj(ah, "appDataReceivedPacketTracker", "hasNewMissingPackets")
	pba := c.konst(ah, "packetsBeforeAck")
	ce := c.konst("internal/protocol", "ECNCE")
	c.Check(constInt(pba) == 2, R, "const:packetsBeforeAck==2", "-", "an ACK is due on the second ack-eliciting packet")
	triggers := []struct {
		name string
		r    Rel
	}{
		{"wasMissing", BoolTrue(ParamV("wasMissing"))},
		{"count>=packetsBeforeAck", Rel{Op: token.GEQ, X: Load(cnt), Y: ConstOf(pba)}},
		{"hasNewMissingPackets", BoolTrue(CallTo(hnm, -1))},
		{"ECN-CE", Rel{Op: token.EQL, X: ParamV("ecn"), Y: ConstOf(ce)}},
	}
	for _, t := range triggers {
		// on the trigger's true edge, only `return true` is reachable
		tr := t
		// find the If
		found := false
		for _, b := range sf.Blocks {
			ifi, ok := b.Instrs[len(b.Instrs)-1].(*ssa.If)
			if !ok {
				continue
			}
			for s := 0; s < 2; s++ {
				if EdgeImplies(ifi, s, tr.r, false) {
					found = true
					// from successor s, every return is true
					okAll := true
					seen := map[*ssa.BasicBlock]bool{}
					var walk func(x *ssa.BasicBlock)
					walk = func(x *ssa.BasicBlock) {
						if seen[x] {
							return
						}
						seen[x] = true
						for _, in := range x.Instrs {
							if r, ok := in.(*ssa.Return); ok && !isConstBool(retResults(r)[0], true) {
								okAll = false
							}
						}
						for _, su := range x.Succs {
							walk(su)
						}
					}
					walk(b.Succs[s])
					c.Check(okAll, R, "trigger:"+tr.name+" → immediate ACK", c.P.InstrPos(ifi), "this condition always queues an ACK")
				}
			}
		}
		c.Check(found, R, "trigger:"+tr.name+" present", c.P.Pos(sf.Pos()), "the immediate-ACK trigger exists in shouldQueueACK")
	}

	// Initial/Handshake: hasNewAck set for every ack-eliciting packet; GetAckFrame nil only when !hasNewAck
	tr := c.fn(ah, "receivedPacketTracker", "ReceivedPacket")
	hasNewAck := c.fld(ah, "receivedPacketTracker", "hasNewAck")
	c.cut(R, "post:Initial/Handshake ack-eliciting → hasNewAck", &Cut{Fn: tr, Target: ReturnsMaybeNilErr(0),
		Barrier: func(i ssa.Instruction) bool {
			st, ok := i.(*ssa.Store)
			return ok && fieldOfAddress(st.Addr) == hasNewAck && isConstBool(st.Val, true)
		}, Edge: EdgeRel(BoolTrue(ParamV("ackEliciting")), true)}, "every ack-eliciting packet makes an ACK available immediately")
	ga := c.fn(ah, "receivedPacketTracker", "GetAckFrame")
	c.cut(R, "guard:GetAckFrame nil only without new ack-eliciting packets", &Cut{Fn: ga,
		Target: func(i ssa.Instruction) bool {
			r, ok := i.(*ssa.Return)
			return ok && IsNil()(retResults(r)[0])
		}, Edge: EdgeRel(BoolTrue(Load(hasNewAck)), true)}, "with hasNewAck set, an ACK frame is produced")
	// appData GetAckFrame: nil only if (onlyIfQueued ∧ ¬ackQueued ∧ alarm not due) or nothing new
	aga := c.fn(ah, "appDataReceivedPacketTracker", "GetAckFrame")
	inner := c.obj(ah, "receivedPacketTracker", "GetAckFrame")
	nilRet := func(i ssa.Instruction) bool {
		r, ok := i.(*ssa.Return)
		return ok && IsNil()(retResults(r)[0])
	}
	c.cut(R, "guard:1-RTT ACK withheld only when onlyIfQueued", &Cut{Fn: aga, Target: nilRet, Barrier: CallsTo(inner),
		Edge: EdgeRel(BoolTrue(ParamV("onlyIfQueued")), false)}, "before consulting the history, nil is returned only on the onlyIfQueued==true edge")
	c.cut(R, "guard:1-RTT ACK withheld only when not queued", &Cut{Fn: aga, Target: nilRet, Barrier: CallsTo(inner),
		Edge: EdgeRel(BoolTrue(Load(ackQueued)), true)}, "before consulting the history, nil is returned only on the ackQueued==false edge")
	after := c.obj("internal/monotime", "Time", "After")
	isZero := c.obj("internal/monotime", "Time", "IsZero")
	c.Floor(R, "alarm tests in GetAckFrame", countInstr(aga, CallsTo(after))+countInstr(aga, CallsTo(isZero)), 2)
	// due alarm → ACK: the nil return before inner call is dominated by IsZero()||After(now)
	eachInstr(aga, func(i ssa.Instruction) {
		r, ok := i.(*ssa.Return)
		if !ok || !IsNil()(retResults(r)[0]) {
			return
		}
		if (&Cut{Fn: aga, Target: func(x ssa.Instruction) bool { return x == i }, Barrier: CallsTo(inner)}).Run() == nil {
			return // after inner call
		}
		// reachable only via IsZero true edge or After(now) true edge
		w := (&Cut{Fn: aga, Target: func(x ssa.Instruction) bool { return x == i },
			Edge: OrEdge(EdgeRel(BoolTrue(CallTo(isZero, -1)), false), EdgeRel(BoolTrue(CallTo(after, -1, ParamV("now"))), false))}).Run()
		c.Check(w == nil, R, "guard:due alarm releases the ACK", c.P.InstrPos(i), "the withheld path requires the alarm to be unset or after now")
	})
	// the level dispatch does not pass onlyIfQueued for Initial/Handshake: by signature
	sig := inner.Type().(*types.Signature)
	c.Check(sig.Params().Len() == 0, R, "shape:Initial/Handshake GetAckFrame takes no onlyIfQueued", "-", "Initial and Handshake ACKs cannot be deferred")
}

// c07Predicates freezes the small decision predicates whose off-by-one / sign variants
// keep every sampled test green (seeded changes C07-1..3).
func c07Predicates(c *Ctx) {
	const R = "C07.5"
	ranges := c.fld(ah, "receivedPacketHistory", "ranges")
	st := c.fld(ah, "interval", "Start")
	en := c.fld(ah, "interval", "End")
	db := c.fn(ah, "receivedPacketHistory", "DeleteBelow")
	isDel := func(i ssa.Instruction) bool {
		s, ok := i.(*ssa.Store)
		if !ok || fieldOfAddress(s.Addr) != ranges {
			return false
		}
		cl, ok := s.Val.(*ssa.Call)
		if !ok {
			return false
		}
		o := calleeObj(&cl.Call)
		return o != nil && o.Name() == "Delete" && o.Pkg().Path() == "slices"
	}
	c.Floor(R, "whole-range deletion in DeleteBelow", countInstr(db, isDel), 1)
	whole := edgeSuccs(db, Rel{Op: token.LSS, X: Load(en), Y: ParamV("p")})
	c.Floor(R, "range.End < p edges", len(whole), 1)
	// the deletion is decided by a test `idx >= 0` after the scan; every exit reached from a
	// "whole range below p" edge must go through that test (no early return inside the scan)
	idxTest := func(i ssa.Instruction) bool {
		ifi, ok := i.(*ssa.If)
		if !ok {
			return false
		}
		bo, ok := condCore(ifi.Cond).(*ssa.BinOp)
		if !ok || bo.Op != token.GEQ || !ConstI(0)(bo.Y) {
			return false
		}
		_, isPhi := bo.X.(*ssa.Phi)
		return isPhi && reachesInstr(ifi.Block().Succs[0], isDel)
	}
	c.Floor(R, "idx >= 0 test guarding the deletion", countInstr(db, idxTest), 1)
	c.cut(R, "prune:ranges entirely below the threshold are deleted", &Cut{Fn: db, StartBlocks: whole, Target: isReturn, Barrier: idxTest},
		"once a range lies wholly below the forget threshold every exit goes through the deletion decision (no early return skips it)")
	// trim: p > Start && p <= End → Start = p
	for _, in := range findInstrs(db, func(i ssa.Instruction) bool {
		s, ok := i.(*ssa.Store)
		if !ok {
			return false
		}
		fa, ok := s.Addr.(*ssa.FieldAddr)
		return ok && fieldOfAddr(fa) == st
	}) {
		site := in
		c.Check(ParamV("p")(in.(*ssa.Store).Val), R, "shape:trimmed range starts at p", c.P.InstrPos(in), "a straddling range is cut to start at the threshold")
		c.cut(R, "guard:trim only when Start < p", &Cut{Fn: db, Target: func(i ssa.Instruction) bool { return i == site }, Edge: EdgeRel(Rel{Op: token.GTR, X: ParamV("p"), Y: Load(st)}, false)}, "a range starting exactly at the threshold is left alone (and the scan stops there)")
		c.cut(R, "guard:trim only when p <= End", &Cut{Fn: db, Target: func(i ssa.Instruction) bool { return i == site }, Edge: EdgeRel(Rel{Op: token.LEQ, X: ParamV("p"), Y: Load(en)}, false)}, "only a range containing the threshold is trimmed")
	}
	// isMissing
	im := c.fn(ah, "appDataReceivedPacketTracker", "isMissing")
	ignoreBelow := c.fld(ah, "appDataReceivedPacketTracker", "ignoreBelow")
	lastAck := c.fld(ah, "receivedPacketTracker", "lastAck")
	largestAcked := c.obj("internal/wire", "AckFrame", "LargestAcked")
	acks := c.obj("internal/wire", "AckFrame", "AcksPacket")
	notFalse := func(i ssa.Instruction) bool {
		r, ok := i.(*ssa.Return)
		return ok && !isConstBool(retResults(r)[0], false)
	}
	c.cut(R, "isMissing:needs a previous ACK", &Cut{Fn: im, Target: notFalse, Edge: EdgeRel(Rel{Op: token.NEQ, X: Load(lastAck), Y: IsNil()}, false)}, "nothing was reported missing before the first ACK")
	c.cut(R, "isMissing:p >= ignoreBelow", &Cut{Fn: im, Target: notFalse, Edge: EdgeRel(Rel{Op: token.GEQ, X: ParamV("p"), Y: Load(ignoreBelow)}, false)}, "a packet AT the ignore threshold can still fill a reported gap (only packets below it are ignored)")
	// the non-constant result is p < LargestAcked() && !AcksPacket(p)
	okShape := false
	eachInstr(im, func(i ssa.Instruction) {
		r, ok := i.(*ssa.Return)
		if !ok || isConstBool(retResults(r)[0], false) {
			return
		}
		ph, ok := retResults(r)[0].(*ssa.Phi)
		if !ok {
			return
		}
		hasNot := false
		for _, e := range ph.Edges {
			if u, ok := e.(*ssa.UnOp); ok && u.Op == token.NOT && CallTo(acks, -1, ParamV("p"))(u.X) {
				hasNot = true
			}
		}
		// the φ is reached through the p < LargestAcked() edge
		lt := len(edgeSuccs(im, Rel{Op: token.LSS, X: ParamV("p"), Y: CallTo(largestAcked, -1)})) >= 1
		okShape = hasNot && lt
	})
	c.Check(okShape, R, "isMissing:p < lastAck.LargestAcked() && !lastAck.AcksPacket(p)", c.P.Pos(im.Pos()), "a packet was reported missing iff it is below the last ACK's largest and not covered by it")
	// hasNewMissingPackets: highestMissing > LargestAcked() - reorderingThreshold
	hn := c.fn(ah, "appDataReceivedPacketTracker", "hasNewMissingPackets")
	rt := c.konst(ah, "reorderingThreshold")
	hmu := c.obj(ah, "receivedPacketHistory", "HighestMissingUpTo")
	lo := c.fld(ah, "appDataReceivedPacketTracker", "largestObserved")
	okRet := false
	eachInstr(hn, func(i ssa.Instruction) {
		r, ok := i.(*ssa.Return)
		if !ok {
			return
		}
		if BinV(token.GTR, CallTo(hmu, -1), BinV(token.SUB, CallTo(largestAcked, -1), ConstOf(rt)))(retResults(r)[0]) {
			okRet = true
		}
	})
	c.Check(okRet, R, "hasNewMissingPackets:highestMissing > LargestAcked()-reorderingThreshold", c.P.Pos(hn.Pos()), "a gap directly above the last ACK's largest acknowledged is new")
	for _, in := range findInstrs(hn, CallsTo(hmu)) {
		c.Check(BinV(token.SUB, Load(lo), ConstOf(rt))(in.(ssa.CallInstruction).Common().Args[1]), R, "hasNewMissingPackets:HighestMissingUpTo(largestObserved-reorderingThreshold)", c.P.InstrPos(in), "gaps are looked for below the largest observed packet")
	}
	c.cut(R, "hasNewMissingPackets:already reported gaps are not new", &Cut{Fn: hn, Target: func(i ssa.Instruction) bool {
		r, ok := i.(*ssa.Return)
		return ok && !isConstBool(retResults(r)[0], false)
	}, Edge: EdgeRel(Rel{Op: token.GEQ, X: CallTo(hmu, -1), Y: CallTo(largestAcked, -1)}, false)}, "a gap below the last ACK's largest acknowledged was already reported")
	c.Check(constInt(rt) == 1, R, "const:reorderingThreshold==1", "-", "a single out-of-order packet reveals a gap")
}

func reachesInstr(b *ssa.BasicBlock, p IP) bool {
	seen := map[*ssa.BasicBlock]bool{}
	var walk func(*ssa.BasicBlock) bool
	walk = func(x *ssa.BasicBlock) bool {
		if seen[x] {
			return false
		}
		seen[x] = true
		for _, in := range x.Instrs {
			if p(in) {
				return true
			}
		}
		for _, s := range x.Succs {
			if walk(s) {
				return true
			}
		}
		return false
	}
	return walk(b)
}
