package main

import (
	"fmt"
	"go/token"
	"go/types"

	"golang.org/x/tools/go/ssa"
)

const ah = "internal/ackhandler"

func init() { register("C06", runC06) }

func runC06(c *Ctx) {
	c.Clause("C06.1 bytesInFlight / includedInBytesInFlight / numOutstanding: who may write, store shapes, flag pairing")
	c.Clause("C06.2 OnAcked only from detectAndRemoveAckedPackets, OnLost only from queueFramesForRetransmission/detectLostPathProbes; frames cleared after OnLost; every retransmission queuing is paired with DeclareLost (or a replaced space); every OnAcked iteration is followed by history.Remove")
	c.Clause("C06.3 ACK for unsent / skipped packet numbers is PROTOCOL_VIOLATION before any packet is treated as acknowledged")
	c.Clause("C06.4 loss-detection timer is re-armed after every event that changes what is outstanding; lossDetectionTime cancels only on its two documented conditions")
	c.Clause("C06.11 QueueProbePacket releases the packet's bytes in flight unconditionally and before its frames are cleared; ResetForRetry zeroes bytes in flight on every path")
	c.Clause("C06.8 the anti-deadlock probe of OnLossDetectionTimeout fires under exactly the condition getPTOTimeAndSpace arms the timer with; C06.9 the client marks the server's address validation complete only on a Handshake ACK or when the Handshake keys are dropped; C06.10 an ACK whose lowest acknowledged number is below the first number of the space is rejected")
	c.Clause("C06.7 SentPacket: a packet counted in flight records its send time as the space's last ack-eliciting send time, and the timer is re-armed before returning")
	c.Clause("C06.6 no loop that ranges over an iterator of the sent-packet / lost-packet / received-packet histories calls a method that compacts the iterated slice in place")
	c.Clause("C06.5 the positional sent-packet history stores a placeholder for a skipped number exactly when it is non-empty, the condition under which firstPacketNumber is not re-based")
	c.NotCovered("the sum invariant bytesInFlight = Σ outstanding sizes over histories")
	c.NotCovered("timer values and PTO arithmetic")
	c.NotCovered("exactly-once over interleavings of Retry/0-RTT rejection with ACK processing")

	c.rule("C06.1", func() { c06Accounts(c) })
	c.rule("C06.2", func() { c06Callbacks(c) })
	c.rule("C06.3", func() { c06AckValidation(c) })
	c.rule("C06.4", func() { c06Timer(c) })
	c.rule("C06.5", func() { c06PositionalHistory(c) })
	c.rule("C06.6", func() { c06NoRemovalWhileIterating(c) })
	c.rule("C06.7", func() { c06SentPacketBookkeeping(c) })
	c.rule("C06.8", func() { c06AntiDeadlockArmAndFireAgree(c) })
	c.rule("C06.9", func() { c06ClientValidationOnlyOnHandshakeAck(c) })
	c.rule("C06.10", func() { c06AckLowerBound(c) })
	c.rule("C06.11", func() { c06WholesaleRemovalKeepsBytesInFlight(c) })
}

// ifaceCallSites: invoke calls of an interface method plus static calls of concrete
// methods implementing it.
func (c *Ctx) ifaceCallSites(m *types.Func) []CallSite {
	sites := c.P.CallSites(m)
	recvIface, _ := m.Type().(*types.Signature).Recv().Type().Underlying().(*types.Interface)
	if recvIface == nil {
		return sites
	}
	seen := map[ssa.Instruction]bool{}
	for _, s := range sites {
		seen[s.Instr] = true
	}
	for _, f := range c.P.ScopeFuncs() {
		eachInstr(f, func(in ssa.Instruction) {
			ci, ok := in.(ssa.CallInstruction)
			if !ok || seen[in] || ci.Common().IsInvoke() {
				return
			}
			o := calleeObj(ci.Common())
			if o == nil || o.Name() != m.Name() {
				return
			}
			sig := o.Type().(*types.Signature)
			if sig.Recv() == nil {
				return
			}
			if implementsLoose(sig.Recv().Type(), recvIface) {
				seen[in] = true
				sites = append(sites, CallSite{f, in, "static-impl"})
			}
		})
	}
	return sites
}

func c06Accounts(c *Ctx) {
	const R = "C06.1"
	bif := c.fld(ah, "sentPacketHandler", "bytesInFlight")
	flag := c.fld(ah, "packet", "includedInBytesInFlight")
	length := c.fld(ah, "packet", "Length")
	sp := c.fn(ah, "sentPacketHandler", "SentPacket")
	rm := c.fn(ah, "sentPacketHandler", "removeFromBytesInFlight")
	rr := c.fn(ah, "sentPacketHandler", "ResetForRetry")

	ws := c.checkWriters(R, bif, c.set([3]string{ah, "sentPacketHandler", "SentPacket"}, [3]string{ah, "sentPacketHandler", "removeFromBytesInFlight"}, [3]string{ah, "sentPacketHandler", "ResetForRetry"}), 3)
	for _, w := range ws[funcObj(sp)] {
		c.Check(BinV(token.ADD, Load(bif), ParamV("size"))(w.Val), R, "shape:bytesInFlight+=size", c.P.InstrPos(w.Instr), "in-flight bytes grow by the sent packet's size")
		c.cut(R, "pair:bytesInFlight+=size→flag=true", &Cut{Fn: sp, Start: func(i ssa.Instruction) bool { return i == w.Instr }, Target: isReturn,
			Barrier: func(i ssa.Instruction) bool {
				st, ok := i.(*ssa.Store)
				return ok && fieldOfAddress(st.Addr) == flag && isConstBool(st.Val, true)
			}}, "a packet counted in flight is flagged as counted")
		// only for ack-eliciting packets
		isAE := c.obj(ah, "packet", "IsAckEliciting")
		c.cut(R, "guard:only ack-eliciting packets are counted", &Cut{Fn: sp, Target: func(i ssa.Instruction) bool { return i == w.Instr },
			Edge: EdgeRel(BoolTrue(CallTo(isAE, -1)), false)}, "bytes in flight counts ack-eliciting packets only")
	}
	for _, w := range ws[funcObj(rm)] {
		c.Check(BinV(token.SUB, Load(bif), Load(length))(w.Val), R, "shape:bytesInFlight-=p.Length", c.P.InstrPos(w.Instr), "in-flight bytes shrink by the packet's recorded length")
		c.cut(R, "guard:removal only when flagged", &Cut{Fn: rm, Target: func(i ssa.Instruction) bool { return i == w.Instr },
			Edge: EdgeRel(BoolTrue(Load(flag)), false)}, "a packet is subtracted only if it was counted")
		c.cut(R, "pair:bytesInFlight-=→flag=false", &Cut{Fn: rm, Start: func(i ssa.Instruction) bool { return i == w.Instr }, Target: isReturn,
			Barrier: func(i ssa.Instruction) bool {
				st, ok := i.(*ssa.Store)
				return ok && fieldOfAddress(st.Addr) == flag && isConstBool(st.Val, false)
			}}, "after subtracting, the flag is cleared so it cannot be subtracted twice")
	}
	for _, w := range ws[funcObj(rr)] {
		c.Check(ConstI(0)(w.Val), R, "shape:ResetForRetry bytesInFlight=0", c.P.InstrPos(w.Instr), "Retry discards everything in flight")
	}
	c.checkWriters(R, flag, c.set([3]string{ah, "sentPacketHandler", "SentPacket"}, [3]string{ah, "sentPacketHandler", "removeFromBytesInFlight"}, [3]string{ah, "", "getPacket"}), 3)
	lw := c.checkWriters(R, length, c.set([3]string{ah, "sentPacketHandler", "SentPacket"}, [3]string{ah, "", "getPacket"}), 2)
	for _, w := range lw[funcObj(sp)] {
		c.Check(ParamV("size")(w.Val), R, "shape:p.Length=size", c.P.InstrPos(w.Instr), "the recorded length is the size that was added to bytes in flight")
	}

	// numOutstanding
	no := c.fld(ah, "sentPacketHistory", "numOutstanding")
	packets := c.fld(ah, "sentPacketHistory", "packets")
	outstanding := c.obj(ah, "packet", "Outstanding")
	nws := c.checkWriters(R, no, c.set([3]string{ah, "sentPacketHistory", "SentPacket"}, [3]string{ah, "sentPacketHistory", "Remove"}, [3]string{ah, "sentPacketHistory", "DeclareLost"}), 3)
	hsp := c.fn(ah, "sentPacketHistory", "SentPacket")
	for _, w := range nws[funcObj(hsp)] {
		c.Check(BinV(token.ADD, Load(no), ConstI(1))(w.Val), R, "shape:numOutstanding++", c.P.InstrPos(w.Instr), "one more outstanding packet")
		c.cut(R, "guard:numOutstanding++ under Outstanding()", &Cut{Fn: hsp, Target: func(i ssa.Instruction) bool { return i == w.Instr },
			Edge: EdgeRel(BoolTrue(CallTo(outstanding, -1)), false)}, "only outstanding packets are counted")
	}
	for _, name := range []string{"Remove", "DeclareLost"} {
		f := c.fn(ah, "sentPacketHistory", name)
		for _, w := range nws[funcObj(f)] {
			c.Check(BinV(token.SUB, Load(no), ConstI(1))(w.Val), R, "shape:numOutstanding--@"+name, c.P.InstrPos(w.Instr), "one less outstanding packet")
			c.cut(R, "guard:numOutstanding-- under Outstanding()@"+name, &Cut{Fn: f, Target: func(i ssa.Instruction) bool { return i == w.Instr },
				Edge: EdgeRel(BoolTrue(CallTo(outstanding, -1)), false)}, "only outstanding packets are uncounted")
			c.cut(R, "pair:numOutstanding--→packets[idx]=nil@"+name, &Cut{Fn: f, Start: func(i ssa.Instruction) bool { return i == w.Instr }, Target: isReturn,
				Barrier: func(i ssa.Instruction) bool {
					st, ok := i.(*ssa.Store)
					if !ok {
						return false
					}
					_, isIdx := st.Addr.(*ssa.IndexAddr)
					return isIdx && fieldOfAddress(st.Addr) == packets && IsNil()(st.Val)
				}}, "an uncounted packet is removed from the history, so it cannot be uncounted again")
		}
	}
}

func isConstBool(v ssa.Value, want bool) bool {
	k, ok := v.(*ssa.Const)
	if !ok || k.Value == nil {
		return false
	}
	s := k.Value.String()
	return (s == "true") == want && (s == "true" || s == "false")
}

func c06Callbacks(c *Ctx) {
	const R = "C06.2"
	onAcked := c.obj(ah, "FrameHandler", "OnAcked")
	onLost := c.obj(ah, "FrameHandler", "OnLost")
	darap := [3]string{ah, "sentPacketHandler", "detectAndRemoveAckedPackets"}
	qffr := [3]string{ah, "sentPacketHandler", "queueFramesForRetransmission"}
	dlpp := [3]string{ah, "sentPacketHandler", "detectLostPathProbes"}

	check := func(m *types.Func, allowed fnSet, min int) []CallSite {
		sites := c.ifaceCallSites(m)
		for _, s := range sites {
			o := funcObj(rootFn(s.Fn))
			c.Check(o != nil && allowed[o], R, "caller-of:"+m.Name()+"@"+funcName(rootFn(s.Fn)), c.P.InstrPos(s.Instr), "frame callbacks are fired only by loss recovery's two resolution paths")
		}
		c.Count("call_sites", len(sites))
		c.Floor(R, "call sites of "+m.Name(), len(sites), min)
		return sites
	}
	check(onAcked, c.set(darap), 2)
	check(onLost, c.set(qffr, dlpp), 3)

	// frames cleared after OnLost
	q := c.fn(qffr[0], qffr[1], qffr[2])
	frames := c.fld(ah, "packet", "Frames")
	sframes := c.fld(ah, "packet", "StreamFrames")
	for _, fld := range []*types.Var{frames, sframes} {
		f := fld
		c.cut(R, "post:queueFramesForRetransmission clears "+f.Name(), &Cut{Fn: q, Target: isReturn,
			Barrier: func(i ssa.Instruction) bool {
				st, ok := i.(*ssa.Store)
				return ok && fieldOfAddress(st.Addr) == f && IsNil()(st.Val)
			}}, "a packet whose frames were queued for retransmission has no frames left (a second loss declaration cannot re-queue them)")
	}

	// every caller of queueFramesForRetransmission declares the packet lost first, or replaces the space
	qObj := c.obj(qffr[0], qffr[1], qffr[2])
	declareLost := c.obj(ah, "sentPacketHistory", "DeclareLost")
	callers := c.checkCallers(R, qObj, c.set(
		[3]string{ah, "sentPacketHandler", "detectLostPackets"}, [3]string{ah, "sentPacketHandler", "QueueProbePacket"},
		[3]string{ah, "sentPacketHandler", "MigratedPath"}, [3]string{ah, "sentPacketHandler", "ResetForRetry"}), 4)
	initialPackets := c.fld(ah, "sentPacketHandler", "initialPackets")
	appDataPackets := c.fld(ah, "sentPacketHandler", "appDataPackets")
	for _, s := range callers {
		root := rootFn(s.Fn)
		if root.Name() == "ResetForRetry" {
			for _, fld := range []*types.Var{initialPackets, appDataPackets} {
				f := fld
				newSpace := c.obj(ah, "", "newPacketNumberSpace")
				c.cut(R, "pair:ResetForRetry replaces "+f.Name(), &Cut{Fn: root, Target: isReturn,
					Barrier: func(i ssa.Instruction) bool {
						st, ok := i.(*ssa.Store)
						return ok && fieldOfAddress(st.Addr) == f && CallTo(newSpace, -1)(st.Val)
					}}, "after re-queuing every frame the whole number space is replaced")
			}
			continue
		}
		site := s.Instr
		c.cut(R, "pair:DeclareLost before queueFramesForRetransmission@"+root.Name(), &Cut{Fn: s.Fn, Target: func(i ssa.Instruction) bool { return i == site },
			Barrier: CallsTo(declareLost)}, "frames are re-queued only for a packet that was removed from the history in the same step")
	}

	// a packet declared lost leaves bytes-in-flight and has its frames re-queued, unless it is a
	// path probe (tracked separately) or not ack-eliciting (never counted, nothing to re-queue)
	rmBIF := c.obj(ah, "sentPacketHandler", "removeFromBytesInFlight")
	isProbe := c.fld(ah, "packet", "isPathProbePacket")
	isAE := c.obj(ah, "packet", "IsAckEliciting")
	nDL := 0
	for _, name := range []string{"detectLostPackets", "QueueProbePacket", "MigratedPath"} {
		root := c.fn(ah, "sentPacketHandler", name)
		for _, f := range withAnon(root) {
			if countInstr(f, CallsTo(declareLost)) == 0 {
				continue
			}
			nDL++
			c.FuncsSet[funcName(f)] = true
			exempt := OrEdge(EdgeRel(BoolTrue(Load(isProbe)), false), EdgeRel(BoolTrue(CallTo(isAE, -1)), true))
			c.cut(R, "pair:DeclareLost ⇒ removed from bytes in flight@"+name, &Cut{Fn: f, Start: CallsTo(declareLost), Target: isReturn, Barrier: CallsTo(rmBIF), Edge: exempt},
				"a packet taken out of the history as lost no longer counts as in flight (path probes and non-ack-eliciting packets excepted)")
			c.cut(R, "pair:DeclareLost ⇒ frames re-queued@"+name, &Cut{Fn: f, Start: CallsTo(declareLost), Target: isReturn, Barrier: CallsTo(qObj), Edge: exempt},
				"the frames of a packet declared lost are reported lost (path probes and non-ack-eliciting packets excepted)")
		}
	}
	c.Floor(R, "functions declaring packets lost", nDL, 3)

	// OnAcked iteration followed by history.Remove before the next acked packet is fetched
	d := c.fn(darap[0], darap[1], darap[2])
	remove := c.obj(ah, "sentPacketHistory", "Remove")
	acked := c.fld(ah, "sentPacketHandler", "ackedPackets")
	nextFetch := func(i ssa.Instruction) bool {
		ia, ok := i.(*ssa.IndexAddr)
		if !ok {
			return false
		}
		f, _ := loadedField(ia.X)
		return f == acked
	}
	c.Floor(R, "fetch of next acked packet", countInstr(d, nextFetch), 1)
	c.cut(R, "pair:OnAcked→history.Remove per packet", &Cut{Fn: d, Start: CallsTo(onAcked), Target: OrIP(nextFetch, ReturnsMaybeNilErr(2)),
		Barrier: CallsTo(remove)}, "a packet whose frames were reported acknowledged is removed from the history before the next one is handled")
	// the call argument of Remove is the packet number of the iterated element
	c.Floor(R, "history.Remove calls", countInstr(d, CallsTo(remove)), 1)
}

func c06AckValidation(c *Ctx) {
	const R = "C06.3"
	ra := c.fn(ah, "sentPacketHandler", "ReceivedAck")
	largestSent := c.fld(ah, "packetNumberSpace", "largestSent")
	largestAcked := c.obj("internal/wire", "AckFrame", "LargestAcked")
	pv := c.konst("internal/qerr", "ProtocolViolation")
	okEdge := EdgeRel(Rel{Op: token.LEQ, X: CallTo(largestAcked, -1), Y: Load(largestSent)}, false)
	// cutting the "in range" edge, only the PROTOCOL_VIOLATION return remains
	c.cut(R, "guard:ack of unsent packet → PROTOCOL_VIOLATION", &Cut{Fn: ra,
		Target: func(i ssa.Instruction) bool {
			if isReturn(i) {
				return !ReturnsErrCode(pv)(i)
			}
			if _, ok := i.(ssa.CallInstruction); ok {
				o := calleeObj(i.(ssa.CallInstruction).Common())
				// anything with an effect other than reading the ACK / number space
				if o != nil && (o == largestAcked || o.Name() == "getPacketNumberSpace") {
					return false
				}
				if builtinName(i.(ssa.CallInstruction).Common()) != "" {
					return false
				}
				return true
			}
			_, isStore := i.(*ssa.Store)
			if isStore {
				st := i.(*ssa.Store)
				if _, ok := st.Addr.(*ssa.Alloc); ok {
					return false // local slots / literal construction
				}
				if fa, ok := st.Addr.(*ssa.FieldAddr); ok {
					if _, isAlloc := fa.X.(*ssa.Alloc); isAlloc {
						return false
					}
				}
				return true
			}
			return false
		},
		Edge: okEdge}, "an ACK whose largest acknowledged exceeds the largest sent has no effect other than PROTOCOL_VIOLATION")
	c.Floor(R, "PROTOCOL_VIOLATION exits in ReceivedAck", countInstr(ra, ReturnsErrCode(pv)), 1)

	// skipped packets: in detectAndRemoveAckedPackets every path to OnAcked, for 1-RTT, runs the SkippedPackets loop
	d := c.fn(ah, "sentPacketHandler", "detectAndRemoveAckedPackets")
	onAcked := c.obj(ah, "FrameHandler", "OnAcked")
	skipped := c.obj(ah, "sentPacketHistory", "SkippedPackets")
	oneRTT := c.konst("internal/protocol", "Encryption1RTT")
	var iterCall ssa.Value
	for _, in := range findInstrs(d, CallsTo(skipped)) {
		iterCall, _ = in.(ssa.Value)
	}
	c.Check(iterCall != nil, R, "site:SkippedPackets iterated", c.P.Pos(d.Pos()), "the skipped packet numbers are consulted")
	if iterCall == nil {
		return
	}
	callsIter := func(i ssa.Instruction) bool {
		cl, ok := i.(*ssa.Call)
		return ok && cl.Call.Value == iterCall
	}
	c.cut(R, "guard:skipped-packet check precedes OnAcked (1-RTT)", &Cut{Fn: d, Target: CallsTo(onAcked), Barrier: callsIter,
		Edge: EdgeRel(Rel{Op: token.NEQ, X: ParamV("encLevel"), Y: ConstOf(oneRTT)}, false)},
		"for application data, ACK ranges are checked against skipped packet numbers before any frame is reported acknowledged")
	// after the iterator call, continuing (not returning) requires the loop to have finished without a hit:
	// the yield closure: AcksPacket true edge stores a PROTOCOL_VIOLATION error and returns false
	acks := c.obj("internal/wire", "AckFrame", "AcksPacket")
	var yield *ssa.Function
	for _, g := range helperRegion(d) {
		for _, a := range g.AnonFuncs {
			if countInstr(a, CallsTo(acks)) > 0 {
				yield = a
			}
		}
	}
	c.Check(yield != nil, R, "site:AcksPacket in skipped loop", c.P.Pos(d.Pos()), "the loop body tests ack.AcksPacket(p)")
	if yield == nil {
		return
	}
	c.FuncsSet[funcName(yield)] = true
	storesPV := func(i ssa.Instruction) bool {
		st, ok := i.(*ssa.Store)
		if !ok || !isErrorType(st.Val.Type()) {
			return false
		}
		_, k, ok := errLiteral(st.Val)
		return ok && k != nil && constEq(k, pv)
	}
	c.cut(R, "guard:AcksPacket(skipped) → PROTOCOL_VIOLATION", &Cut{Fn: yield,
		Target: func(i ssa.Instruction) bool {
			r, ok := i.(*ssa.Return)
			return ok && !isConstBool(r.Results[0], true) // leaving the loop
		},
		Barrier: storesPV,
		Edge:    EdgeRel(BoolTrue(CallTo(acks, -1)), true)},
		"on the AcksPacket(skipped)==true edge the loop is left only with a PROTOCOL_VIOLATION stored as the result")
	c.cut(R, "guard:AcksPacket true never continues", &Cut{Fn: yield,
		Target: func(i ssa.Instruction) bool {
			r, ok := i.(*ssa.Return)
			return ok && isConstBool(r.Results[0], true)
		},
		Edge: EdgeRel(BoolTrue(CallTo(acks, -1)), true)}, "the loop continues only on the AcksPacket()==false edge")
}

func constEq(k interface{ String() string }, o types.Object) bool {
	return k.String() == o.(*types.Const).Val().String()
}

func c06Timer(c *Ctx) {
	const R = "C06.4"
	set := c.obj(ah, "sentPacketHandler", "setLossDetectionTimer")
	barrier := CallsTo(set)
	post := func(name string, start IP, target IP, why string) {
		f := c.fn(ah, "sentPacketHandler", name)
		if target == nil {
			target = isReturn
		}
		n := 1
		if start != nil {
			n = countInstr(f, start)
		}
		c.Floor(R, "anchor in "+name, n, 1)
		c.cut(R, "post:"+name+"→setLossDetectionTimer", &Cut{Fn: f, Start: start, Target: target, Barrier: barrier, DeferBarrier: true}, why)
	}
	hsp := c.obj(ah, "sentPacketHistory", "SentPacket")
	hspp := c.obj(ah, "sentPacketHistory", "SentPathProbePacket")
	pcav := c.fld(ah, "sentPacketHandler", "peerCompletedAddressValidation")
	isAE := c.obj(ah, "packet", "IsAckEliciting")
	// SentPacket: after recording an ack-eliciting packet (or any packet while the peer has not completed address validation)
	{
		f := c.fn(ah, "sentPacketHandler", "SentPacket")
		c.cut(R, "post:SentPacket(ack-eliciting)→setLossDetectionTimer", &Cut{Fn: f, Start: CallsTo(hsp, hspp), Target: isReturn, Barrier: barrier,
			Edge: OrEdge(
				// the only exit without re-arming: non-ack-eliciting packet while the peer completed address validation
				func(ifi *ssa.If, s int) bool {
					return EdgeImplies(ifi, s, BoolTrue(Load(pcav)), false) && dominatedByEdge(ifi.Block(), BoolTrue(CallTo(isAE, -1)), true)
				})},
			"after a packet is recorded the timer is re-armed, except for a non-ack-eliciting packet once the peer completed address validation")
		c.Floor(R, "history.SentPacket calls in SentPacket", countInstr(f, CallsTo(hsp, hspp)), 2)
	}
	dlp := c.obj(ah, "sentPacketHandler", "detectLostPackets")
	post("ReceivedAck", CallsTo(dlp), nil, "an ACK that newly acknowledged packets (loss detection ran) re-arms the timer")
	{
		f := c.fn(ah, "sentPacketHandler", "DropPackets")
		gpns := c.obj(ah, "sentPacketHandler", "getPacketNumberSpace")
		c.cut(R, "post:DropPackets→setLossDetectionTimer", &Cut{Fn: f, Target: isReturn, Barrier: barrier,
			Edge: EdgeRel(Rel{Op: token.EQL, X: CallTo(gpns, -1), Y: IsNil()}, false)},
			"dropping a number space re-arms the timer (unless the space was already dropped)")
	}
	post("MigratedPath", nil, nil, "path migration re-arms the timer")
	pav := c.fld(ah, "sentPacketHandler", "peerAddressValidated")
	post("ReceivedPacket", StoresTo(pav), nil, "address validation re-arms the timer")
	post("OnLossDetectionTimeout", nil, nil, "a fired alarm always computes the next one (deferred)")
	// ReceivedBytes: when the amplification limit is lifted
	{
		f := c.fn(ah, "sentPacketHandler", "ReceivedBytes")
		lim := c.obj(ah, "sentPacketHandler", "isAmplificationLimited")
		br := c.fld(ah, "sentPacketHandler", "bytesReceived")
		c.Floor(R, "isAmplificationLimited calls in ReceivedBytes", countInstr(f, CallsTo(lim)), 2)
		c.cut(R, "post:ReceivedBytes(limit lifted)→setLossDetectionTimer", &Cut{Fn: f, Start: StoresTo(br), Target: isReturn, Barrier: barrier,
			Edge: OrEdge(EdgeRel(BoolTrue(CallTo(lim, -1)), false), // still limited
				func(ifi *ssa.If, s int) bool { // was not limited before
					cl, ok := stripConv(condCore(ifi.Cond)).(*ssa.Call)
					if !ok || calleeObj(&cl.Call) != lim {
						return false
					}
					// the call before the store: polarity false
					return EdgeImplies(ifi, s, BoolTrue(Same(cl)), true) && !reachableFromStore(f, br, cl)
				})},
			"when received bytes lift the amplification limit the timer is re-armed")
	}

	// lossDetectionTime: zero alarm only on documented conditions
	ldt := c.fn(ah, "sentPacketHandler", "lossDetectionTime")
	lim := c.obj(ah, "sentPacketHandler", "isAmplificationLimited")
	hocp := c.obj(ah, "sentPacketHandler", "hasOutstandingCryptoPackets")
	hop := c.obj(ah, "sentPacketHistory", "HasOutstandingPackets")
	gpto := c.obj(ah, "sentPacketHandler", "getPTOTimeAndSpace")
	c.Floor(R, "calls in lossDetectionTime", countInstr(ldt, CallsTo(lim, hocp, hop, gpto)), 4)
	// every zero-alarm return is (a) under isAmplificationLimited()==true, (b) under
	// peerCompletedAddressValidation ∧ ¬hasOutstandingCryptoPackets ∧ ¬HasOutstandingPackets, or (c) after the PTO computation
	nz := 0
	eachInstr(ldt, func(i ssa.Instruction) {
		r, ok := i.(*ssa.Return)
		if !ok || !isZeroAlarm(retResults(r)[0]) {
			return
		}
		nz++
		b := r.Block()
		a := dominatedByEdge(b, BoolTrue(CallTo(lim, -1)), false)
		bb := dominatedByEdge(b, BoolTrue(Load(pcav)), false) && dominatedByEdge(b, BoolTrue(CallTo(hocp, -1)), true) && dominatedByEdge(b, BoolTrue(CallTo(hop, -1)), true)
		cc := (&Cut{Fn: ldt, Target: func(x ssa.Instruction) bool { return x == i }, Barrier: CallsTo(gpto)}).Run() == nil
		c.Check(a || bb || cc, R, fmt.Sprintf("guard:zero alarm #%d only when nothing outstanding / amplification-limited / no PTO", nz), c.P.InstrPos(i),
			"the alarm is cancelled only when the peer completed address validation and nothing is outstanding, when amplification-limited, or when neither loss time, PTO nor path-probe time exists")
	})
	c.Floor(R, "zero-alarm returns in lossDetectionTime", nz, 3)
}

func condCore(v ssa.Value) ssa.Value {
	for {
		if u, ok := v.(*ssa.UnOp); ok && u.Op == token.NOT {
			v = u.X
			continue
		}
		return v
	}
}

// reachableFromStore: is instruction `to` reachable from a store to field f within fn?
func reachableFromStore(fn *ssa.Function, f *types.Var, to ssa.Instruction) bool {
	q := &Cut{Fn: fn, Start: StoresTo(f), Target: func(i ssa.Instruction) bool { return i == to }}
	return q.Run() != nil
}

// reachesCall: does any path from block b reach a call to fn?
func reachesCall(b *ssa.BasicBlock, fn *types.Func) bool {
	seen := map[*ssa.BasicBlock]bool{}
	var walk func(*ssa.BasicBlock) bool
	m := CallsTo(fn)
	walk = func(x *ssa.BasicBlock) bool {
		if seen[x] {
			return false
		}
		seen[x] = true
		for _, in := range x.Instrs {
			if m(in) {
				return true
			}
		}
		for _, s := range x.Succs {
			if walk(s) {
				return true
			}
		}
		return false
	}
	return walk(b)
}

// dominatedByEdge: block b is only reachable through an edge establishing r (or ¬r).
func dominatedByEdge(b *ssa.BasicBlock, r Rel, neg bool) bool {
	for d := b; d != nil && d.Idom() != nil; d = d.Idom() {
		id := d.Idom()
		ifi, ok := id.Instrs[len(id.Instrs)-1].(*ssa.If)
		if !ok {
			continue
		}
		for s := 0; s < 2; s++ {
			if id.Succs[s] == d && len(d.Preds) == 1 && EdgeImplies(ifi, s, r, neg) {
				return true
			}
		}
	}
	return false
}

func isZeroAlarm(v ssa.Value) bool {
	v = stripConv(v)
	if k, ok := v.(*ssa.Const); ok {
		return k.Value == nil // zero value of struct
	}
	// load of a fresh zero Alloc
	if u, ok := v.(*ssa.UnOp); ok && u.Op == token.MUL {
		if al, ok := u.X.(*ssa.Alloc); ok {
			if al.Referrers() == nil {
				return true
			}
			for _, r := range *al.Referrers() {
				switch r.(type) {
				case *ssa.Store, *ssa.FieldAddr:
					return false
				}
			}
			return true
		}
	}
	return false
}
