package main

import (
	"fmt"
	"go/ast"
	"go/constant"
	"go/token"
	"sort"
	"strings"

	"golang.org/x/tools/go/packages"
)

// C08.11: the long-header packet-type bits are decoded by the table they are encoded with, for each QUIC version.
// Header.parseLongHeader (bits → type), ExtendedHeader.Append (type → bits) and Is0RTTPacket (bits of the 0-RTT type)
// each carry one table per version; the tables are extracted from the syntax (switch over the type bits / over h.Type,
// one switch per version branch, in the same branch order) and must be inverse to each other. QUIC v2 permutes the
// codes, and nothing in the pinned tests sends 0-RTT over v2.
func c08LongHeaderTypeTables(c *Ctx) {
	const R = "C08.11"
	constVal := func(pk *packages.Package, e ast.Expr) (string, bool) {
		tv, ok := pk.TypesInfo.Types[e]
		if !ok || tv.Value == nil {
			return "", false
		}
		if tv.Value.Kind() == constant.Int {
			return tv.Value.ExactString(), true
		}
		return "", false
	}
	typeName := func(pk *packages.Package, e ast.Expr) (string, bool) {
		var id *ast.Ident
		switch x := e.(type) {
		case *ast.SelectorExpr:
			id = x.Sel
		case *ast.Ident:
			id = x
		}
		if id == nil || !strings.HasPrefix(id.Name, "PacketType") {
			return "", false
		}
		return id.Name, true
	}
	// decode tables: switches whose cases are integer constants and whose bodies assign a PacketType constant
	dec := c.obj("internal/wire", "Header", "parseLongHeader")
	fd, pk := c.P.FuncDecl(dec)
	var decT []map[string]string // bits → type
	if fd != nil {
		ast.Inspect(fd.Body, func(n ast.Node) bool {
			sw, ok := n.(*ast.SwitchStmt)
			if !ok || sw.Tag == nil {
				return true
			}
			t := map[string]string{}
			for _, cc := range sw.Body.List {
				cl := cc.(*ast.CaseClause)
				if len(cl.List) != 1 || len(cl.Body) != 1 {
					continue
				}
				bits, ok1 := constVal(pk, cl.List[0])
				as, ok2 := cl.Body[0].(*ast.AssignStmt)
				if !ok1 || !ok2 || len(as.Rhs) != 1 {
					continue
				}
				if _, isType := typeName(pk, cl.List[0]); isType {
					continue
				}
				if tn, ok := typeName(pk, as.Rhs[0]); ok {
					t[bits] = tn
				}
			}
			if len(t) >= 3 {
				decT = append(decT, t)
			}
			return true
		})
	}
	enc := c.obj("internal/wire", "ExtendedHeader", "Append")
	fe, pke := c.P.FuncDecl(enc)
	var encT []map[string]string // type → bits
	if fe != nil {
		ast.Inspect(fe.Body, func(n ast.Node) bool {
			sw, ok := n.(*ast.SwitchStmt)
			if !ok || sw.Tag == nil {
				return true
			}
			t := map[string]string{}
			for _, cc := range sw.Body.List {
				cl := cc.(*ast.CaseClause)
				if len(cl.List) != 1 || len(cl.Body) != 1 {
					continue
				}
				tn, ok1 := typeName(pke, cl.List[0])
				as, ok2 := cl.Body[0].(*ast.AssignStmt)
				if !ok1 || !ok2 || len(as.Rhs) != 1 {
					continue
				}
				if bits, ok := constVal(pke, as.Rhs[0]); ok {
					t[tn] = bits
				}
			}
			if len(t) >= 3 {
				encT = append(encT, t)
			}
			return true
		})
	}
	if !c.Check(len(decT) == 2 && len(encT) == 2, R, "tables:one decode and one encode table per supported version", "-",
		fmt.Sprintf("found %d decode tables in parseLongHeader and %d encode tables in ExtendedHeader.Append (expected 2 and 2: QUIC v2, then v1)", len(decT), len(encT))) {
		return
	}
	show := func(m map[string]string) string {
		var ks []string
		for k, v := range m {
			ks = append(ks, k+"→"+v)
		}
		sort.Strings(ks)
		return strings.Join(ks, " ")
	}
	// each decode table has its inverse among the encode tables (one each; the order of the version branches is free)
	used := map[int]bool{}
	for i := 0; i < 2; i++ {
		match := -1
		for j := 0; j < 2; j++ {
			if used[j] || len(decT[i]) != 4 || len(encT[j]) != 4 {
				continue
			}
			inv := true
			for bits, tn := range decT[i] {
				if encT[j][tn] != bits {
					inv = false
				}
			}
			if inv {
				match = j
			}
		}
		if match >= 0 {
			used[match] = true
		}
		c.Check(match >= 0, R, fmt.Sprintf("inverse:long-header type table #%d decodes what an encode table writes", i+1), c.P.Pos(fd.Pos()),
			fmt.Sprintf("decode {%s}; encode tables {%s} and {%s}: a code decoded as another type than the one it was written for turns every packet of that type into a different (undecryptable) one", show(decT[i]), show(encT[0]), show(encT[1])))
	}
	// Is0RTTPacket: the constants compared with the type bits, per version branch, are the 0-RTT codes of the two
	// encode tables (as a set: the function orders its cases by version constant)
	z := c.obj("internal/wire", "", "Is0RTTPacket")
	fz, pkz := c.P.FuncDecl(z)
	var codes []string
	if fz != nil {
		ast.Inspect(fz.Body, func(n ast.Node) bool {
			be, ok := n.(*ast.BinaryExpr)
			if !ok || be.Op != token.EQL {
				return true
			}
			if _, isShift := be.X.(*ast.BinaryExpr); !isShift {
				return true
			}
			if v, ok := constVal(pkz, be.Y); ok {
				codes = append(codes, v)
			}
			return true
		})
	}
	sort.Strings(codes)
	want := []string{encT[0]["PacketType0RTT"], encT[1]["PacketType0RTT"]}
	sort.Strings(want)
	c.Check(strings.Join(codes, ",") == strings.Join(want, ","), R, "agree:Is0RTTPacket tests the 0-RTT codes of the encode tables", c.P.Pos(fz.Pos()),
		fmt.Sprintf("Is0RTTPacket compares with {%s}, the encoders write {%s}", strings.Join(codes, ","), strings.Join(want, ",")))
}
