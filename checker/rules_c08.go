package main

// C08 — wire codecs: tables, length-prediction agreement, range validations, bounded connection-ID lengths.

import (
	"fmt"
	"go/constant"
	"go/token"
	"go/types"
	"sort"
	"strings"

	"golang.org/x/tools/go/ssa"
)

func init() { register("C08", runC08) }

const wirePkg = "internal/wire"

func runC08(c *Ctx) {
	c.Clause("C08.1 frame-type tables agree: declared FrameType constants ↔ ParseLessCommonFrame cases (+ the STREAM/ACK/DATAGRAM fast paths) ↔ ParseType validity ↔ concrete wire.Frame types ↔ (*Conn).handleFrame type switch ↔ the type byte each Append writes; no hole in 0x01..0x1e; per-encryption-level allow/deny lists equal the reference table")
	c.Clause("C08.2 Append ↔ Length agreement per frame type: the multiset of varint-encoded operands, the multiset of appended variable-length data, and the fields that decide whether an optional part is written are the same on both sides (exceptions frozen with reasons)")
	c.Clause("C08.3 every protocol.ParseConnectionID(b[:n]) in the parsers has n bounded by MaxConnIDLen through a comparison on that same n; quicvarint Len/Append/Parse agree on the four size classes")
	c.Clause("C08.4 range validations are present on every success path: stream counts, ack_delay_exponent, max_ack_delay, active_connection_id_limit, max_udp_payload_size, connection-ID lengths, perspective-forbidden parameters, duplicate-parameter scan over every adjacent pair, Retire Prior To ≤ Sequence Number, reliable size ≤ final size, missing required parameters")
	c.Clause("C08.5 transport-parameter tables: every ID Marshal writes is handled by unmarshal; unmarshal's numeric case list equals readNumericTransportParameter's")
	c.NotCovered("decode(encode(x)) == x and re-encoding stability (value-level)")
	c.Clause("C08.6 totality of the parse side: every index, slice, computed-size allocation, explicit panic, unchecked type assertion and integer division in the functions reachable from the parse entry points of internal/wire, quicvarint and the token / session-ticket decoders of internal/handshake is either a bounds check the Go compiler's prove pass removed, or follows from a length fact established for that very slice (dominating comparison, quicvarint.Parse's error-free edge, construction, checked caller contract), or is a frozen exception with its reason")
	c.Clause("C08.7 the frame parser resets its reused AckFrame (all fields) before parsing into it")
	c.Clause("C08.9 durations read from transport-parameter, ACK and ACK_FREQUENCY varints are bounded before the unit multiplication (no int64 wrap); C08.10 max_idle_timeout 0 is kept as 0 (no timeout), not raised to the minimum; C08.11 the long-header type-bit tables of parseLongHeader, ExtendedHeader.Append and Is0RTTPacket are inverse / agree per QUIC version")
	c.Clause("C08.8 on the parse side every subtraction of wire-derived values is dominated by a comparison that bounds the subtrahend by that very minuend (ACK range arithmetic)")
	c.NotCovered("fixed-width byte counts in Append vs Length; totality of the writers (Append on frames built by this endpoint) and of the logging helpers")
	c.NotCovered("encoding/asn1 itself (tokens) and the AEAD layer around tokens and session tickets")

	c.rule("C08.1", func() { c08Tables(c) })
	c.rule("C08.2", func() { c08Len(c) })
	c.rule("C08.3", func() { c08ConnIDBounds(c); c08Varint(c) })
	c.rule("C08.4", func() { c08Validations(c) })
	c.rule("C08.5", func() { c08Params(c) })
	c.rule("C08.6", func() { c08Bounds(c) })
	c.rule("C08.7", func() { c08AckFrameReset(c) })
	c.rule("C08.8", func() { c08GuardedSubtractions(c) })
	c.rule("C08.9", func() { c08DurationsSaturate(c) })
	c.rule("C08.11", func() { c08LongHeaderTypeTables(c) })
}

// ---- helpers ----

func constU64(v ssa.Value) (uint64, bool) {
	k, ok := stripConv(v).(*ssa.Const)
	if !ok || k.Value == nil || k.Value.Kind() != constant.Int {
		return 0, false
	}
	u, ok := constant.Uint64Val(k.Value)
	return u, ok
}

// eqConstsOn: constants K for which the function compares (==) the value matching on with K.
func eqConstsOn(f *ssa.Function, on VP) map[uint64][]*ssa.BinOp {
	out := map[uint64][]*ssa.BinOp{}
	eachInstr(f, func(in ssa.Instruction) {
		b, ok := in.(*ssa.BinOp)
		if !ok || b.Op != token.EQL {
			return
		}
		if on(b.X) {
			if k, ok := constU64(b.Y); ok {
				out[k] = append(out[k], b)
			}
		} else if on(b.Y) {
			if k, ok := constU64(b.X); ok {
				out[k] = append(out[k], b)
			}
		}
	})
	return out
}

func keysU64(m map[uint64]bool) []uint64 {
	var ks []uint64
	for k := range m {
		ks = append(ks, k)
	}
	sort.Slice(ks, func(i, j int) bool { return ks[i] < ks[j] })
	return ks
}

func hexList(ks []uint64) string {
	var s []string
	for _, k := range ks {
		s = append(s, fmt.Sprintf("%#x", k))
	}
	return "{" + strings.Join(s, ",") + "}"
}

func setEq(a, b map[uint64]bool) bool {
	if len(a) != len(b) {
		return false
	}
	for k := range a {
		if !b[k] {
			return false
		}
	}
	return true
}

// appendedFirst: the values written by the first append(s) of an Append method, i.e. those whose
// destination slice is the parameter b itself.
func appendedFirst(f *ssa.Function) []ssa.Value {
	var out []ssa.Value
	eachInstr(f, func(in ssa.Instruction) {
		cl, ok := in.(*ssa.Call)
		if !ok || len(cl.Call.Args) < 2 {
			return
		}
		if _, isP := cl.Call.Args[0].(*ssa.Parameter); !isP {
			return
		}
		if builtinName(&cl.Call) == "append" {
			out = append(out, varargElems(cl.Call.Args[1])...)
			return
		}
		if o := calleeObj(&cl.Call); o != nil && o.Name() == "Append" && o.Pkg() != nil && strings.HasSuffix(o.Pkg().Path(), "/quicvarint") {
			out = append(out, cl.Call.Args[1])
		}
	})
	return out
}

// varargElems: the elements of a variadic argument slice built for append(b, x, y).
func varargElems(v ssa.Value) []ssa.Value {
	sl, ok := v.(*ssa.Slice)
	if !ok {
		return nil
	}
	al, ok := sl.X.(*ssa.Alloc)
	if !ok || al.Referrers() == nil {
		return nil
	}
	var out []ssa.Value
	for _, r := range *al.Referrers() {
		ia, ok := r.(*ssa.IndexAddr)
		if !ok || ia.Referrers() == nil {
			continue
		}
		for _, r2 := range *ia.Referrers() {
			if st, ok := r2.(*ssa.Store); ok && st.Addr == ssa.Value(ia) {
				out = append(out, st.Val)
			}
		}
	}
	return out
}

// baseConsts: constant leaves of a type-byte value; XOR/OR with flag constants keeps the base.
func baseConsts(v ssa.Value, out map[uint64]bool, flags *bool, seen map[ssa.Value]bool) bool {
	v = stripConv(v)
	if seen[v] {
		return true
	}
	seen[v] = true
	if k, ok := constU64(v); ok {
		out[k] = true
		return true
	}
	switch x := v.(type) {
	case *ssa.Phi:
		for _, e := range x.Edges {
			if !baseConsts(e, out, flags, seen) {
				return false
			}
		}
		return true
	case *ssa.BinOp:
		if x.Op == token.XOR || x.Op == token.OR {
			if _, ok := constU64(x.Y); ok {
				*flags = true
				return baseConsts(x.X, out, flags, seen)
			}
		}
	}
	return false
}

// ---- C08.1 ----

func c08Tables(c *Ctx) {
	const R = "C08.1"
	ftT := c.named(wirePkg, "FrameType")
	// declared constants
	declared := map[uint64]string{}
	wp := ftT.Pkg()
	for _, name := range wp.Scope().Names() {
		k, ok := wp.Scope().Lookup(name).(*types.Const)
		if !ok || !types.Identical(k.Type(), ftT.Type()) {
			continue
		}
		u, _ := constant.Uint64Val(k.Val())
		declared[u] = name
	}
	c.Floor(R, "declared FrameType constants", len(declared), 25)
	decl := map[uint64]bool{}
	for k := range declared {
		decl[k] = true
	}
	val := func(name string) uint64 { return uint64(constInt(c.konst(wirePkg, name))) }
	fast := map[uint64]bool{val("FrameTypeAck"): true, val("FrameTypeAckECN"): true, val("FrameTypeDatagramNoLength"): true, val("FrameTypeDatagramWithLength"): true}

	// parser cases
	plc := c.fn(wirePkg, "FrameParser", "ParseLessCommonFrame")
	cases := map[uint64]bool{}
	caseCmp := eqConstsOn(plc, ParamV("frameType"))
	for k := range caseCmp {
		cases[k] = true
	}
	want := map[uint64]bool{}
	for k := range decl {
		if !fast[k] {
			want[k] = true
		}
	}
	c.Check(setEq(cases, want), R, "table:ParseLessCommonFrame cases = declared types minus the fast paths", c.P.Pos(plc.Pos()),
		fmt.Sprintf("cases %s; declared minus ACK/DATAGRAM %s", hexList(keysU64(cases)), hexList(keysU64(want))))
	// no hole in the RFC 9000 range
	hole := []uint64{}
	for v := uint64(1); v <= 0x1e; v++ {
		if !decl[v] && !(v >= 8 && v <= 0xf) {
			hole = append(hole, v)
		}
	}
	c.Check(len(hole) == 0, R, "table:every type in 0x01..0x1e is declared or a STREAM type", "-", "a hole would pass ParseType and end in the parser's default case: "+hexList(hole))
	// isValidRFC9000: t <= HANDSHAKE_DONE
	iv := c.fn(wirePkg, "FrameType", "isValidRFC9000")
	okIV := false
	eachInstr(iv, func(in ssa.Instruction) {
		if b, ok := in.(*ssa.BinOp); ok && b.Op == token.LEQ {
			if k, ok := constU64(b.Y); ok && k == val("FrameTypeHandshakeDone") {
				okIV = true
			}
		}
	})
	c.Check(okIV, R, "shape:isValidRFC9000 is t <= HANDSHAKE_DONE", c.P.Pos(iv.Pos()), "the RFC 9000 range ends at 0x1e")
	// stream range
	isf := c.fn(wirePkg, "FrameType", "IsStreamFrameType")
	lo, hi := false, false
	eachInstr(isf, func(in ssa.Instruction) {
		if b, ok := in.(*ssa.BinOp); ok {
			if k, ok := constU64(b.Y); ok {
				if b.Op == token.GEQ && k == 8 {
					lo = true
				}
				if b.Op == token.LEQ && k == 0xf {
					hi = true
				}
			}
		}
	})
	c.Check(lo && hi, R, "shape:IsStreamFrameType is 0x08 <= t <= 0x0f", c.P.Pos(isf.Pos()), "RFC 9000 §19.8")
	// extension types are admitted by ParseType
	pt := c.fn(wirePkg, "FrameParser", "ParseType")
	admitted := map[uint64]bool{}
	for k := range eqConstsOn(pt, Any()) {
		admitted[k] = true
	}
	for k := range eqConstsOn(c.fn(wirePkg, "FrameType", "IsDatagramFrameType"), Any()) {
		admitted[k] = true
	}
	for k := range decl {
		if k > 0x1e {
			c.Check(admitted[k], R, fmt.Sprintf("table:extension type %s is admitted by ParseType", declared[k]), c.P.Pos(pt.Pos()), "a declared type above 0x1e that ParseType never admits is dead; one admitted but undeclared is unparseable")
		}
	}
	// dispatcher: the four parse entry points are all used by the connection
	hf := c.fn("", "Conn", "handleFrames")
	for _, m := range []string{"ParseStreamFrame", "ParseAckFrame", "ParseDatagramFrame", "ParseLessCommonFrame", "ParseType"} {
		c.Check(countInstr(hf, CallsTo(c.obj(wirePkg, "FrameParser", m))) >= 1, R, "dispatch:handleFrames calls FrameParser."+m, c.P.Pos(hf.Pos()), "every frame class has its parse entry point on the receive path")
	}

	// case → struct, and Append type bytes
	frameIface := c.named(wirePkg, "Frame").Type().Underlying().(*types.Interface)
	impl := map[string]*types.Named{}
	for _, name := range wp.Scope().Names() {
		tn, ok := wp.Scope().Lookup(name).(*types.TypeName)
		if !ok {
			continue
		}
		n, ok := tn.Type().(*types.Named)
		if !ok {
			continue
		}
		if _, isStruct := n.Underlying().(*types.Struct); !isStruct {
			continue
		}
		if types.Implements(types.NewPointer(n), frameIface) {
			impl[name] = n
		}
	}
	c.Floor(R, "concrete wire.Frame types", len(impl), 22)
	parsedAs := map[string]map[uint64]bool{}
	for k, cmps := range caseCmp {
		for _, cmp := range cmps {
			// the true successor of the If using cmp
			if cmp.Referrers() == nil {
				continue
			}
			for _, r := range *cmp.Referrers() {
				ifi, ok := r.(*ssa.If)
				if !ok {
					continue
				}
				body := ifi.Block().Succs[0]
				for _, in := range body.Instrs {
					var t types.Type
					switch x := in.(type) {
					case *ssa.Call:
						if sc := x.Call.StaticCallee(); sc != nil && sc.Signature.Results().Len() > 0 {
							t = sc.Signature.Results().At(0).Type()
						}
					case *ssa.Alloc:
						t = x.Type()
					}
					if n := namedOf(t); n != nil && impl[n.Obj().Name()] != nil {
						if parsedAs[n.Obj().Name()] == nil {
							parsedAs[n.Obj().Name()] = map[uint64]bool{}
						}
						parsedAs[n.Obj().Name()][k] = true
					}
				}
			}
		}
	}
	parsedAs["AckFrame"] = map[uint64]bool{val("FrameTypeAck"): true, val("FrameTypeAckECN"): true}
	parsedAs["DatagramFrame"] = map[uint64]bool{val("FrameTypeDatagramNoLength"): true, val("FrameTypeDatagramWithLength"): true}
	parsedAs["StreamFrame"] = map[uint64]bool{8: true}
	for _, name := range sortedKeys(impl) {
		f := c.P.SSA.FuncValue(methodOf(impl[name], "Append"))
		if f == nil {
			c.Bad(R, "type-byte:"+name, "-", "no Append method body")
			continue
		}
		c.FuncsSet[funcName(f)] = true
		firsts := appendedFirst(f)
		written := map[uint64]bool{}
		flags := false
		ok := len(firsts) > 0
		for _, v := range firsts {
			if !baseConsts(v, written, &flags, map[ssa.Value]bool{}) {
				ok = false
			}
		}
		pa := parsedAs[name]
		sub := true
		for k := range written {
			if !pa[k] {
				sub = false
			}
		}
		full := flags || setEq(written, pa)
		c.Check(ok && sub && full && len(pa) > 0, R, "type-byte:"+name+".Append writes the type(s) that parse into "+name, c.P.Pos(f.Pos()),
			fmt.Sprintf("Append writes %s (flag bits: %v); parser cases for this struct %s", hexList(keysU64(written)), flags, hexList(keysU64(pa))))
	}
	// handleFrame's type switch
	h := c.fn("", "Conn", "handleFrame")
	handled := map[string]bool{}
	eachInstr(h, func(in ssa.Instruction) {
		if ta, ok := in.(*ssa.TypeAssert); ok {
			if n := namedOf(ta.AssertedType); n != nil && n.Obj().Pkg() == wp {
				handled[n.Obj().Name()] = true
			}
		}
	})
	// the ACK-frequency extension is switched off at the only place the parser is created
	ackFreqOff := true
	nfp := c.obj(wirePkg, "", "NewFrameParser")
	nSites := 0
	for _, cs := range c.P.CallSites(nfp) {
		nSites++
		ci, isCall := cs.Instr.(ssa.CallInstruction)
		if !isCall {
			ackFreqOff = false
			continue
		}
		args := ci.Common().Args
		if len(args) != 3 || !isConstBool(args[2], false) {
			ackFreqOff = false
		}
	}
	c.Floor(R, "NewFrameParser call sites", nSites, 1)
	for _, name := range sortedKeys(impl) {
		switch name {
		case "StreamFrame", "AckFrame", "DatagramFrame":
			continue // dispatched before handleFrame (fast paths, checked above)
		case "AckFrequencyFrame", "ImmediateAckFrame":
			c.Check(handled[name] || ackFreqOff, R, "handler:"+name+" is handled or never parsed", c.P.Pos(h.Pos()), "exception: the parser is created with supportsAckFrequency == false at every call site, so these types are rejected by ParseType")
			continue
		}
		c.Check(handled[name], R, "handler:handleFrame has a case for *"+name, c.P.Pos(h.Pos()), "a frame type that parses but has no handler case is answered with an internal error")
	}
	c08EncLevels(c)
}

func sortedKeys[V any](m map[string]V) []string {
	var ks []string
	for k := range m {
		ks = append(ks, k)
	}
	sort.Strings(ks)
	return ks
}

func methodOf(n *types.Named, name string) *types.Func {
	for i := 0; i < n.NumMethods(); i++ {
		if n.Method(i).Name() == name {
			return n.Method(i)
		}
	}
	return nil
}

// c08EncLevels extracts, per encryption level, the list of frame types isAllowedAtEncLevel compares against
// and the verdict returned on a match.
func c08EncLevels(c *Ctx) {
	const R = "C08.1"
	f := c.fn(wirePkg, "FrameType", "isAllowedAtEncLevel")
	lvl := func(name string) uint64 { return uint64(constInt(c.konst("internal/protocol", name))) }
	levelName := map[uint64]string{lvl("EncryptionInitial"): "Initial", lvl("EncryptionHandshake"): "Handshake", lvl("Encryption0RTT"): "0-RTT", lvl("Encryption1RTT"): "1-RTT"}
	isLevelCmp := func(b *ssa.BasicBlock) (uint64, bool) {
		ifi, ok := b.Instrs[len(b.Instrs)-1].(*ssa.If)
		if !ok {
			return 0, false
		}
		bo, ok := ifi.Cond.(*ssa.BinOp)
		if !ok || bo.Op != token.EQL || !ParamV("encLevel")(bo.X) {
			return 0, false
		}
		return constU64(bo.Y)
	}
	type entry struct {
		verdict bool
		types   map[uint64]bool
	}
	got := map[string]*entry{}
	for k, cmps := range eqConstsOn(f, ParamV("t")) {
		for _, cmp := range cmps {
			// verdict on the match edge
			var verdict, haveV bool
			if cmp.Referrers() != nil {
				for _, r := range *cmp.Referrers() {
					if ifi, ok := r.(*ssa.If); ok {
						for _, in := range ifi.Block().Succs[0].Instrs {
							if ret, ok := in.(*ssa.Return); ok {
								if isConstBool(retResults(ret)[0], true) {
									verdict, haveV = true, true
								} else if isConstBool(retResults(ret)[0], false) {
									verdict, haveV = false, true
								}
							}
						}
					}
				}
			}
			if !haveV {
				c.Bad(R, "enc-level:verdict", c.P.InstrPos(cmp), "a frame-type comparison whose match edge does not return a constant")
				continue
			}
			// which levels lead here
			seen := map[*ssa.BasicBlock]bool{}
			var up func(b, from *ssa.BasicBlock)
			up = func(b, from *ssa.BasicBlock) {
				if seen[b] {
					return
				}
				seen[b] = true
				if l, ok := isLevelCmp(b); ok && from != nil {
					if b.Succs[0] == from {
						nm := levelName[l]
						if got[nm] == nil {
							got[nm] = &entry{verdict: verdict, types: map[uint64]bool{}}
						}
						if got[nm].verdict != verdict {
							c.Bad(R, "enc-level:mixed verdicts for "+nm, c.P.InstrPos(cmp), "allow- and deny-entries in one level's list")
						}
						got[nm].types[k] = true
					}
					return
				}
				for _, p := range b.Preds {
					up(p, b)
				}
			}
			up(cmp.Block(), nil)
		}
	}
	val := func(name string) uint64 { return uint64(constInt(c.konst(wirePkg, name))) }
	mk := func(names ...string) map[uint64]bool {
		m := map[uint64]bool{}
		for _, n := range names {
			m[val(n)] = true
		}
		return m
	}
	// reference (RFC 9000 §12.4 Table 3 as implemented upstream: in 0-RTT CONNECTION_CLOSE of type 0x1c is refused as well,
	// HANDSHAKE_DONE is left to its handler, which rejects it for a server)
	ihAllow := mk("FrameTypeCrypto", "FrameTypeAck", "FrameTypeAckECN", "FrameTypeConnectionClose", "FrameTypePing")
	zDeny := mk("FrameTypeCrypto", "FrameTypeAck", "FrameTypeAckECN", "FrameTypeConnectionClose", "FrameTypeNewToken", "FrameTypePathResponse", "FrameTypeRetireConnectionID")
	for _, l := range []string{"Initial", "Handshake"} {
		e := got[l]
		c.Check(e != nil && e.verdict && setEq(e.types, ihAllow), R, "enc-level:"+l+" allows exactly CRYPTO, ACK, CONNECTION_CLOSE(0x1c), PING", c.P.Pos(f.Pos()),
			"RFC 9000 §12.4/§17.2: "+describeEntry(e != nil, func() string { return fmt.Sprintf("verdict %v list %s", e.verdict, hexList(keysU64(e.types))) }))
	}
	e := got["0-RTT"]
	c.Check(e != nil && !e.verdict && setEq(e.types, zDeny), R, "enc-level:0-RTT refuses exactly CRYPTO, ACK, CONNECTION_CLOSE(0x1c), NEW_TOKEN, PATH_RESPONSE, RETIRE_CONNECTION_ID", c.P.Pos(f.Pos()),
		"RFC 9000 §12.4: "+describeEntry(e != nil, func() string { return fmt.Sprintf("verdict %v list %s", e.verdict, hexList(keysU64(e.types))) }))
	c.Check(got["1-RTT"] == nil, R, "enc-level:1-RTT has no per-type list", c.P.Pos(f.Pos()), "everything is allowed in 1-RTT packets")
	// ParseType consults the table before returning a type
	pt := c.fn(wirePkg, "FrameParser", "ParseType")
	allowed := c.obj(wirePkg, "FrameType", "isAllowedAtEncLevel")
	c.cut(R, "gate:ParseType returns a type only past isAllowedAtEncLevel", &Cut{Fn: pt, Target: func(in ssa.Instruction) bool {
		r, ok := in.(*ssa.Return)
		if !ok {
			return false
		}
		rs := retResults(r)
		return len(rs) == 3 && IsNil()(rs[2])
	}, Edge: EdgeRel(BoolTrue(CallTo(allowed, -1)), false)}, "a frame type that is not allowed at the packet's encryption level is a FRAME_ENCODING_ERROR")
}

func describeEntry(ok bool, f func() string) string {
	if !ok {
		return "no list found"
	}
	return f()
}

// ---- C08.2 ----

// termKey canonicalises the operand of a varint encoding: the set of fields / calls it is computed from.
func termKey(v ssa.Value, depth int, atoms map[string]bool) {
	if depth > 8 || v == nil {
		return
	}
	v = stripConv(v)
	switch x := v.(type) {
	case *ssa.Const:
		return
	case *ssa.BinOp:
		termKey(x.X, depth+1, atoms)
		termKey(x.Y, depth+1, atoms)
		return
	case *ssa.Phi:
		for _, e := range x.Edges {
			termKey(e, depth+1, atoms)
		}
		return
	case *ssa.Extract:
		sub := map[string]bool{}
		termKey(x.Tuple, depth+1, sub)
		for a := range sub {
			atoms[fmt.Sprintf("%s#%d", a, x.Index)] = true
		}
		return
	case *ssa.Call:
		if b := builtinName(&x.Call); b == "len" {
			sub := map[string]bool{}
			termKey(x.Call.Args[0], depth+1, sub)
			for a := range sub {
				atoms["len("+a+")"] = true
			}
			return
		} else if b == "min" || b == "max" {
			for _, a := range x.Call.Args {
				termKey(a, depth+1, atoms)
			}
			return
		}
		if o := calleeObj(&x.Call); o != nil {
			// small accessor on the frame itself: name it; otherwise name + argument atoms
			sub := map[string]bool{}
			args := x.Call.Args
			if sig := o.Type().(*types.Signature); sig.Recv() != nil && len(args) > 0 {
				// receiver other than the frame itself (e.g. f.ConnectionID.Len()): keep its fields
				if _, isParam := stripConv(args[0]).(*ssa.Parameter); !isParam {
					termKey(args[0], depth+1, sub)
				}
				args = args[1:]
			}
			for _, a := range args {
				termKey(a, depth+1, sub)
			}
			s := "call:" + o.Name()
			if len(sub) > 0 {
				s += "(" + strings.Join(sortedSet(sub), ",") + ")"
			}
			atoms[s] = true
			return
		}
	case *ssa.UnOp:
		if x.Op == token.MUL {
			if f, _ := loadedField(x); f != nil {
				atoms[f.Name()] = true
				return
			}
			// element of a field slice / local
			if ia, ok := x.X.(*ssa.IndexAddr); ok {
				termKey(ia.X, depth+1, atoms)
				return
			}
			if fa, ok := x.X.(*ssa.FieldAddr); ok {
				atoms[fieldOfAddr(fa).Name()] = true
				termKey(fa.X, depth+1, atoms)
				return
			}
		}
		termKey(x.X, depth+1, atoms)
		return
	case *ssa.IndexAddr:
		termKey(x.X, depth+1, atoms)
		return
	case *ssa.FieldAddr:
		atoms[fieldOfAddr(x).Name()] = true
		return
	case *ssa.Slice:
		termKey(x.X, depth+1, atoms)
		return
	case *ssa.Parameter:
		if x.Name() != "f" && x.Name() != "h" && x.Name() != "b" {
			atoms["param:"+x.Name()] = true
		}
		return
	}
}

func sortedSet(m map[string]bool) []string {
	var s []string
	for k := range m {
		s = append(s, k)
	}
	sort.Strings(s)
	return s
}

func keyOf(v ssa.Value) string {
	a := map[string]bool{}
	termKey(v, 0, a)
	return "{" + strings.Join(sortedSet(a), ",") + "}"
}

// sizingCondFields: fields read by the branch conditions that decide whether a size-changing instruction runs.
func sizingCondFields(f *ssa.Function, sizing func(ssa.Instruction) bool) map[string]bool {
	out := map[string]bool{}
	condAtoms := func(v ssa.Value) map[string]bool {
		a := map[string]bool{}
		var walk func(v ssa.Value, d int)
		seen := map[ssa.Value]bool{}
		walk = func(v ssa.Value, d int) {
			if d > 8 || seen[v] {
				return
			}
			seen[v] = true
			if p, ok := v.(*ssa.Phi); ok {
				// short-circuit boolean: conditions of the blocks feeding the φ
				for i, e := range p.Edges {
					walk(e, d+1)
					pred := p.Block().Preds[i]
					if ifi, ok := pred.Instrs[len(pred.Instrs)-1].(*ssa.If); ok {
						walk(ifi.Cond, d+1)
					}
					// and the conditions on the way from the φ's dominator
					for x := pred; x != nil && x != p.Block().Idom(); x = x.Idom() {
						if ifi, ok := x.Instrs[len(x.Instrs)-1].(*ssa.If); ok {
							walk(ifi.Cond, d+1)
						}
					}
					if id := p.Block().Idom(); id != nil {
						if ifi, ok := id.Instrs[len(id.Instrs)-1].(*ssa.If); ok {
							walk(ifi.Cond, d+1)
						}
					}
				}
				return
			}
			termKey(v, 0, a)
		}
		walk(v, 0)
		return a
	}
	// blocks holding a sizing instruction
	sizingBlocks := map[*ssa.BasicBlock]bool{}
	for _, x := range f.Blocks {
		for _, in := range x.Instrs {
			if sizing(in) {
				sizingBlocks[x] = true
			}
		}
	}
	// isErrExit: the block returns a non-nil error (such exits do not count: nothing is written / predicted)
	isErrExit := func(x *ssa.BasicBlock) bool {
		for _, in := range x.Instrs {
			if r, ok := in.(*ssa.Return); ok {
				rs := retResults(r)
				if len(rs) >= 1 && isErrorType(rs[len(rs)-1].Type()) && !IsNil()(rs[len(rs)-1]) {
					return true
				}
			}
		}
		return false
	}
	reaches := func(from, to *ssa.BasicBlock) bool {
		seen := map[*ssa.BasicBlock]bool{}
		work := []*ssa.BasicBlock{from}
		for len(work) > 0 {
			x := work[len(work)-1]
			work = work[:len(work)-1]
			if x == to {
				return true
			}
			if seen[x] {
				continue
			}
			seen[x] = true
			work = append(work, x.Succs...)
		}
		return false
	}
	// okExitAvoiding: a successful return is reachable from `from` without entering `avoid`
	okExitAvoiding := func(from, avoid *ssa.BasicBlock) bool {
		seen := map[*ssa.BasicBlock]bool{}
		work := []*ssa.BasicBlock{from}
		for len(work) > 0 {
			x := work[len(work)-1]
			work = work[:len(work)-1]
			if x == avoid || seen[x] {
				continue
			}
			seen[x] = true
			if len(x.Succs) == 0 {
				if !isErrExit(x) {
					if _, isRet := x.Instrs[len(x.Instrs)-1].(*ssa.Return); isRet {
						return true
					}
				}
				continue
			}
			work = append(work, x.Succs...)
		}
		return false
	}
	for _, b := range f.Blocks {
		ifi, ok := b.Instrs[len(b.Instrs)-1].(*ssa.If)
		if !ok {
			continue
		}
		// control dependence on successful paths: from one successor the sizing instruction is inevitable,
		// from the other a successful return is reachable without it
		controls := false
		for sb := range sizingBlocks {
			for i := 0; i < 2; i++ {
				if sb != b && reaches(b.Succs[i], sb) && !okExitAvoiding(b.Succs[i], sb) && okExitAvoiding(b.Succs[1-i], sb) {
					controls = true
				}
			}
		}
		if !controls {
			continue
		}
		for a := range condAtoms(ifi.Cond) {
			out[a] = true
		}
	}
	return out
}

// lenRewrites: documented differences between the operands Append encodes and the operands Length counts,
// as rewrites applied to Append's operand list before the comparison ("" drops the operand).
var lenRewrites = map[string][][2]string{
	// Append spells the largest acknowledged and the first range through LargestAcked()/encodeAckRange(0), Length
	// through AckRanges[0]; Append encodes the range count as a varint, Length counts it as one byte (at most 64
	// ranges are ever encoded, so the count fits a 1-byte varint).
	"AckFrame": {{"{call:LargestAcked}", "{Largest}"}, {"{call:encodeAckRange#1}", "{Largest,Smallest}"}, {"{len(AckRanges)}", ""}},
}

func c08Len(c *Ctx) {
	const R = "C08.2"
	frameIface := c.named(wirePkg, "Frame").Type().Underlying().(*types.Interface)
	wp := c.named(wirePkg, "Frame").Pkg()
	vAppend := c.obj("quicvarint", "", "Append")
	vLen := c.obj("quicvarint", "", "Len")
	n := 0
	for _, name := range wp.Scope().Names() {
		tn, ok := wp.Scope().Lookup(name).(*types.TypeName)
		if !ok {
			continue
		}
		nt, ok := tn.Type().(*types.Named)
		if !ok {
			continue
		}
		if _, isStruct := nt.Underlying().(*types.Struct); !isStruct || !types.Implements(types.NewPointer(nt), frameIface) {
			continue
		}
		app := c.P.SSA.FuncValue(methodOf(nt, "Append"))
		ln := c.P.SSA.FuncValue(methodOf(nt, "Length"))
		if app == nil || ln == nil {
			c.Bad(R, "len:"+name, "-", "Append/Length bodies not found")
			continue
		}
		n++
		c.FuncsSet[funcName(app)] = true
		c.FuncsSet[funcName(ln)] = true
		var aTerms, lTerms, aData, lData []string
		isSizingA := func(in ssa.Instruction) bool {
			cl, ok := in.(*ssa.Call)
			if !ok {
				return false
			}
			if !(builtinName(&cl.Call) == "append" || calleeObj(&cl.Call) == vAppend) {
				return false
			}
			// the frame-type code written first has the same size whichever alternative is chosen
			if _, isP := cl.Call.Args[0].(*ssa.Parameter); isP {
				vals := varargElems(cl.Call.Args[1])
				if calleeObj(&cl.Call) == vAppend {
					vals = []ssa.Value{cl.Call.Args[1]}
				}
				allK := len(vals) > 0
				for _, v := range vals {
					if _, isK := constU64(v); !isK {
						allK = false
					}
				}
				if allK {
					return false
				}
			}
			return true
		}
		eachInstr(app, func(in ssa.Instruction) {
			cl, ok := in.(*ssa.Call)
			if !ok {
				return
			}
			if calleeObj(&cl.Call) == vAppend {
				if _, isK := constU64(cl.Call.Args[1]); !isK {
					aTerms = append(aTerms, keyOf(cl.Call.Args[1]))
				}
			}
			if builtinName(&cl.Call) == "append" && len(cl.Call.Args) == 2 {
				if len(varargElems(cl.Call.Args[1])) == 0 {
					// append(b, s...)
					k := keyOf(cl.Call.Args[1])
					if t, ok := cl.Call.Args[1].Type().Underlying().(*types.Slice); ok && t != nil {
						if sl, ok := cl.Call.Args[1].(*ssa.Slice); ok {
							if _, isArr := derefType(sl.X.Type()).Underlying().(*types.Array); isArr {
								return // fixed-width array: not compared
							}
						}
					}
					aData = append(aData, k)
				}
			}
		})
		isSizingL := func(in ssa.Instruction) bool {
			switch x := in.(type) {
			case *ssa.Call:
				return calleeObj(&x.Call) == vLen
			case *ssa.BinOp:
				return x.Op == token.ADD
			}
			return false
		}
		eachInstr(ln, func(in ssa.Instruction) {
			cl, ok := in.(*ssa.Call)
			if !ok {
				return
			}
			if calleeObj(&cl.Call) == vLen {
				if _, isK := constU64(cl.Call.Args[0]); !isK {
					lTerms = append(lTerms, keyOf(cl.Call.Args[0]))
				}
			}
		})
		// data terms in Length: len(x) / DataLen() operands of the sum that are not inside a Len call
		var sumLeaves func(v ssa.Value, d int)
		seenL := map[ssa.Value]bool{}
		sumLeaves = func(v ssa.Value, d int) {
			v = stripConv(v)
			if d > 10 || seenL[v] {
				return
			}
			seenL[v] = true
			switch x := v.(type) {
			case *ssa.BinOp:
				if x.Op == token.ADD {
					sumLeaves(x.X, d+1)
					sumLeaves(x.Y, d+1)
				}
			case *ssa.Phi:
				for _, e := range x.Edges {
					sumLeaves(e, d+1)
				}
			case *ssa.Call:
				if calleeObj(&x.Call) == vLen {
					return
				}
				if builtinName(&x.Call) == "len" {
					lData = append(lData, keyOf(x.Call.Args[0]))
					return
				}
				if o := calleeObj(&x.Call); o != nil && o.Name() == "DataLen" {
					lData = append(lData, "{Data}")
				} else if o != nil && o.Name() == "Len" && len(x.Call.Args) == 1 {
					lData = append(lData, keyOf(x.Call.Args[0]))
				}
			}
		}
		eachInstr(ln, func(in ssa.Instruction) {
			if r, ok := in.(*ssa.Return); ok {
				sumLeaves(retResults(r)[0], 0)
			}
		})
		// normalise DataLen() ↔ len(Data)
		norm := func(xs []string) []string {
			var out []string
			for _, x := range xs {
				x = strings.ReplaceAll(x, "call:DataLen", "len(Data)")
				out = append(out, x)
			}
			sort.Strings(out)
			return out
		}
		aTerms, lTerms = norm(aTerms), norm(lTerms)
		for i := range aData {
			aData[i] = strings.ReplaceAll(aData[i], "call:DataLen", "len(Data)")
			aData[i] = strings.NewReplacer("call:Bytes(", "", ")", "").Replace(aData[i])
			if !strings.HasPrefix(aData[i], "{") {
				aData[i] = "{" + aData[i]
			}
			if !strings.HasSuffix(aData[i], "}") {
				aData[i] += "}"
			}
		}
		sort.Strings(aData)
		sort.Strings(lData)
		condA := sortedSet(sizingCondFields(app, isSizingA))
		condL := sortedSet(sizingCondFields(ln, isSizingL))
		// conditions on the data being non-empty (error returns) are not sizing conditions of Length
		detail := fmt.Sprintf("varint operands Append %v / Length %v; data Append %v / Length %v; deciding fields Append %v / Length %v", aTerms, lTerms, aData, lData, condA, condL)
		if rw, ok := lenRewrites[name]; ok {
			for _, r := range rw {
				for i, t := range aTerms {
					if t == r[0] {
						if r[1] == "" {
							aTerms = append(aTerms[:i:i], aTerms[i+1:]...)
						} else {
							aTerms[i] = r[1]
						}
						break
					}
				}
			}
			sort.Strings(aTerms)
			detail += fmt.Sprintf("; after the documented rewrites Append %v", aTerms)
		}
		agree := eqStr(aTerms, lTerms) && eqData(aData, lData) && subsetStr(condL, condA) && subsetStr(condA, condL)
		c.Check(agree, R, "len:"+name+" Append and Length account for the same parts", c.P.Pos(ln.Pos()), detail)
	}
	c.Floor(R, "frame types with Append and Length", n, 22)
	c08HeaderLen(c)
}

func derefType(t types.Type) types.Type {
	if p, ok := t.Underlying().(*types.Pointer); ok {
		return p.Elem()
	}
	return t
}

func eqStr(a, b []string) bool {
	if len(a) != len(b) {
		return false
	}
	for i := range a {
		if a[i] != b[i] {
			return false
		}
	}
	return true
}

// eqData: appended data {X} corresponds to a length term {len(X)} or {X}.
func eqData(a, l []string) bool {
	if len(a) != len(l) {
		return false
	}
	na := []string{}
	for _, x := range a {
		na = append(na, strings.NewReplacer("len(", "", ")", "").Replace(x))
	}
	nl := []string{}
	for _, x := range l {
		nl = append(nl, strings.NewReplacer("len(", "", ")", "").Replace(x))
	}
	sort.Strings(na)
	sort.Strings(nl)
	return eqStr(na, nl)
}

func subsetStr(a, b []string) bool {
	m := map[string]bool{}
	for _, x := range b {
		m[x] = true
	}
	for _, x := range a {
		if !m[x] {
			return false
		}
	}
	return true
}

// c08HeaderLen: long-header writer vs GetLength, short header writer vs ShortHeaderLen: same deciding fields.
func c08HeaderLen(c *Ctx) {
	const R = "C08.2"
	vAppend := c.obj("quicvarint", "", "Append")
	vLen := c.obj("quicvarint", "", "Len")
	app := c.fn(wirePkg, "ExtendedHeader", "Append")
	gl := c.fn(wirePkg, "ExtendedHeader", "GetLength")
	isSizingA := func(in ssa.Instruction) bool {
		cl, ok := in.(*ssa.Call)
		if !ok {
			return false
		}
		o := calleeObj(&cl.Call)
		return builtinName(&cl.Call) == "append" || o == vAppend || (o != nil && (o.Name() == "AppendWithLen" || o.Name() == "appendPacketNumber"))
	}
	isSizingL := func(in ssa.Instruction) bool {
		switch x := in.(type) {
		case *ssa.Call:
			return calleeObj(&x.Call) == vLen
		case *ssa.BinOp:
			return x.Op == token.ADD
		}
		return false
	}
	a := sortedSet(sizingCondFields(app, isSizingA))
	l := sortedSet(sizingCondFields(gl, isSizingL))
	// Append additionally switches on the packet type for the type byte and on the version for its bit pattern
	c.Check(subsetStr(l, a), R, "len:ExtendedHeader.GetLength decides its optional parts by fields Append also consults", c.P.Pos(gl.Pos()),
		fmt.Sprintf("deciding fields Append %v / GetLength %v", a, l))
	// the token: written ⇔ counted
	tok := c.fld(wirePkg, "Header", "Token")
	usesTok := func(f *ssa.Function) bool {
		u := false
		eachInstr(f, func(in ssa.Instruction) {
			if fa, ok := in.(*ssa.FieldAddr); ok && fieldOfAddr(fa) == tok {
				u = true
			}
		})
		return u
	}
	c.Check(usesTok(app) && usesTok(gl), R, "len:Initial token written and counted", c.P.Pos(gl.Pos()), "both the writer and the length prediction consult Header.Token")
}

// ---- C08.3 ----

// connIDLenExceptions: callers whose length is not peer-controlled.
var connIDLenExceptions = map[string]string{
	"wire.ParseConnectionID#short": "short-header length is the endpoint's own configured connection-ID length (validated at Transport.init)",
}

func c08ConnIDBounds(c *Ctx) {
	const R = "C08.3"
	pc := c.obj("internal/protocol", "", "ParseConnectionID")
	maxLen := c.konst("internal/protocol", "MaxConnIDLen")
	maxV := uint64(constInt(maxLen))
	isMax := func(v ssa.Value) bool {
		k, ok := constU64(v)
		return ok && k <= maxV
	}
	n := 0
	for _, cs := range c.P.CallSites(pc) {
		f := cs.Fn
		pk := funcPkgPath(f)
		if pk != modPath+"/"+wirePkg {
			continue
		}
		call := cs.Instr
		ci, isCall := cs.Instr.(ssa.CallInstruction)
		if !isCall {
			continue
		}
		arg := ci.Common().Args[0]
		sl, ok := arg.(*ssa.Slice)
		name := funcName(f)
		if !ok {
			// a whole slice from elsewhere (own override value): only u_transport_parameters
			c.Check(strings.Contains(name, "PopulateFromUQUIC"), R, "bound:"+name+" connection ID from the dialer's own spec", c.P.InstrPos(call), "exception: the value comes from the local QUICSpec, not from the peer")
			continue
		}
		n++
		// length = High - Low
		var ln ssa.Value = sl.High
		if sl.Low != nil {
			if b, ok := stripConv(sl.High).(*ssa.BinOp); ok && b.Op == token.ADD {
				// data[k : k+n]
				if _, isK := constU64(b.X); isK {
					ln = b.Y
				} else if _, isK := constU64(b.Y); isK {
					ln = b.X
				}
			}
		}
		if ln == nil {
			c.Bad(R, "bound:"+name, c.P.InstrPos(call), "ParseConnectionID on an unbounded slice")
			continue
		}
		if p, isP := stripConv(ln).(*ssa.Parameter); isP && p.Name() == "shortHeaderConnIDLen" {
			c.OK(R, "bound:"+name+" short-header length", c.P.InstrPos(call), "exception: "+connIDLenExceptions["wire.ParseConnectionID#short"])
			continue
		}
		ok2 := boundedBy(ln, isMax, call.Block(), 0)
		c.Check(ok2, R, fmt.Sprintf("bound:%s connection-ID length #%d <= MaxConnIDLen", name, countSite(name)), c.P.InstrPos(call),
			"protocol.ParseConnectionID panics on more than 20 bytes: the length taken from the wire must be compared with MaxConnIDLen (that same value, not another one) before the call")
	}
	c.Floor(R, "ParseConnectionID calls on wire-controlled lengths", n, 8)
}

var siteCounter = map[string]int{}

func countSite(name string) int {
	siteCounter[name]++
	return siteCounter[name]
}

func c08Varint(c *Ctx) {
	const R = "C08.3"
	qv := "quicvarint"
	ref := map[int64]uint64{1: 63, 2: 16383, 4: 1073741823, 8: 4611686018427387903}
	for n, want := range ref {
		k := c.konst(qv, fmt.Sprintf("maxVarInt%d", n))
		u, _ := constant.Uint64Val(k.(*types.Const).Val())
		c.Check(u == want, R, fmt.Sprintf("const:maxVarInt%d", n), "-", fmt.Sprintf("RFC 9000 §16: %d-byte varints hold up to %d", n, want))
	}
	// Len: on i <= maxVarIntN returns N
	lenF := c.fn(qv, "", "Len")
	got := map[uint64]int64{}
	for _, b := range lenF.Blocks {
		ifi, ok := b.Instrs[len(b.Instrs)-1].(*ssa.If)
		if !ok {
			continue
		}
		bo, ok := ifi.Cond.(*ssa.BinOp)
		if !ok || bo.Op != token.LEQ {
			continue
		}
		k, ok := constU64(bo.Y)
		if !ok {
			continue
		}
		for _, in := range b.Succs[0].Instrs {
			if r, ok := in.(*ssa.Return); ok {
				if v, ok := constU64(retResults(r)[0]); ok {
					got[k] = int64(v)
				}
			}
		}
	}
	okLen := len(got) == 4
	for n, th := range ref {
		if got[th] != n {
			okLen = false
		}
	}
	c.Check(okLen, R, "table:Len thresholds", c.P.Pos(lenF.Pos()), fmt.Sprintf("value ≤ threshold → size: %v", got))
	// Append: on i <= maxVarIntN appends N bytes with prefix bits
	appF := c.fn(qv, "", "Append")
	gotA := map[uint64]int{}
	for _, b := range appF.Blocks {
		ifi, ok := b.Instrs[len(b.Instrs)-1].(*ssa.If)
		if !ok {
			continue
		}
		bo, ok := ifi.Cond.(*ssa.BinOp)
		if !ok || bo.Op != token.LEQ {
			continue
		}
		k, ok := constU64(bo.Y)
		if !ok {
			continue
		}
		for _, in := range b.Succs[0].Instrs {
			if cl, ok := in.(*ssa.Call); ok && builtinName(&cl.Call) == "append" {
				if sl, ok := cl.Call.Args[1].(*ssa.Slice); ok {
					if al, ok := sl.X.(*ssa.Alloc); ok {
						if arr, ok := derefType(al.Type()).Underlying().(*types.Array); ok {
							gotA[k] = int(arr.Len())
						}
					}
				}
			}
		}
	}
	okApp := len(gotA) == 4
	for n, th := range ref {
		if gotA[th] != int(n) {
			okApp = false
		}
	}
	c.Check(okApp, R, "table:Append sizes per threshold", c.P.Pos(appF.Pos()), fmt.Sprintf("value ≤ threshold → bytes appended: %v", gotA))
	// Parse: prefix k → length 2^k, guarded by len(b) < 2^k
	parseF := c.fn(qv, "", "Parse")
	gotP := map[uint64]uint64{}
	for _, b := range parseF.Blocks {
		ifi, ok := b.Instrs[len(b.Instrs)-1].(*ssa.If)
		if !ok {
			continue
		}
		bo, ok := ifi.Cond.(*ssa.BinOp)
		if !ok || bo.Op != token.EQL {
			continue
		}
		k, ok := constU64(bo.Y)
		if !ok {
			continue
		}
		// lengths returned in the region of the true successor (until the next return)
		seen := map[*ssa.BasicBlock]bool{}
		var walk func(x *ssa.BasicBlock)
		walk = func(x *ssa.BasicBlock) {
			if seen[x] {
				return
			}
			seen[x] = true
			for _, in := range x.Instrs {
				if r, ok := in.(*ssa.Return); ok {
					rs := retResults(r)
					if len(rs) == 3 && IsNil()(rs[2]) {
						if v, ok := constU64(rs[1]); ok {
							gotP[k] = v
						}
					}
					return
				}
			}
			for _, s := range x.Succs {
				walk(s)
			}
		}
		walk(b.Succs[0])
	}
	okP := gotP[0] == 1 && gotP[1] == 2 && gotP[2] == 4 && len(gotP) >= 3
	c.Check(okP, R, "table:Parse length per 2-bit prefix", c.P.Pos(parseF.Pos()), fmt.Sprintf("prefix → bytes consumed: %v (prefix 3 is the remaining case: 8)", gotP))
}

// ---- C08.4 ----

func c08Validations(c *Ctx) {
	const R = "C08.4"
	okRet := func(k int) IP {
		return func(in ssa.Instruction) bool {
			r, ok := in.(*ssa.Return)
			if !ok {
				return false
			}
			rs := retResults(r)
			return len(rs) > k && IsNil()(rs[k])
		}
	}
	maxSC := ConstOf(c.konst("internal/protocol", "MaxStreamCount"))
	// frames
	for _, fn := range []string{"parseMaxStreamsFrame", "parseStreamsBlockedFrame"} {
		f := c.fn(wirePkg, "", fn)
		c.cut(R, "range:"+fn+" stream count <= MaxStreamCount", &Cut{Fn: f, Target: okRet(2), Edge: EdgeRel(Rel{Op: token.LEQ, X: Any(), Y: maxSC}, false)},
			"RFC 9000 §19.11/§19.14: a stream count above 2^60 is a FRAME_ENCODING_ERROR")
	}
	ncid := c.fn(wirePkg, "", "parseNewConnectionIDFrame")
	c.cut(R, "range:NEW_CONNECTION_ID Retire Prior To <= Sequence Number", &Cut{Fn: ncid, Target: okRet(2), Edge: func(ifi *ssa.If, s int) bool {
		bo, ok := ifi.Cond.(*ssa.BinOp)
		if !ok {
			return false
		}
		// ret > seq false edge (both are results of quicvarint.Parse)
		_, x := stripConv(bo.X).(*ssa.Extract)
		_, y := stripConv(bo.Y).(*ssa.Extract)
		return x && y && ((bo.Op == token.GTR && s == 1) || (bo.Op == token.LEQ && s == 0))
	}}, "RFC 9000 §19.15")
	c.cut(R, "range:NEW_CONNECTION_ID length != 0", &Cut{Fn: ncid, Target: okRet(2), Edge: EdgeRel(Rel{Op: token.NEQ, X: Any(), Y: ConstI(0)}, false)}, "RFC 9000 §19.15: zero-length connection IDs are invalid here")
	rs := c.fn(wirePkg, "", "parseResetStreamFrame")
	c.cut(R, "range:RESET_STREAM_AT reliable size <= final size", &Cut{Fn: rs, Target: okRet(2), Edge: func(ifi *ssa.If, s int) bool {
		bo, ok := ifi.Cond.(*ssa.BinOp)
		if !ok {
			return false
		}
		_, xPhi := stripConv(bo.X).(*ssa.Phi)
		_, yEx := stripConv(bo.Y).(*ssa.Extract)
		return xPhi && yEx && ((bo.Op == token.GTR && s == 1) || (bo.Op == token.LEQ && s == 0))
	}}, "draft-ietf-quic-reliable-stream-reset: reliable size above final size is a FRAME_ENCODING_ERROR")
	// transport parameters: numeric
	rn := c.fn(wirePkg, "TransportParameters", "readNumericTransportParameter")
	tp := func(field string) *types.Var { return c.fld(wirePkg, "TransportParameters", field) }
	type numRule struct {
		field string
		edge  func(*ssa.If, int) bool
		why   string
	}
	val := ParamOrExtract()
	rules := []numRule{
		{"MaxBidiStreamNum", EdgeRel(Rel{Op: token.LEQ, X: Any(), Y: maxSC}, false), "initial_max_streams_bidi <= 2^60"},
		{"MaxUniStreamNum", EdgeRel(Rel{Op: token.LEQ, X: Any(), Y: maxSC}, false), "initial_max_streams_uni <= 2^60"},
		{"MaxUDPPayloadSize", EdgeRel(Rel{Op: token.GEQ, X: val, Y: ConstI(1200)}, false), "max_udp_payload_size >= 1200"},
		{"AckDelayExponent", EdgeRel(Rel{Op: token.LEQ, X: val, Y: ConstOf(c.konst("internal/protocol", "MaxAckDelayExponent"))}, false), "ack_delay_exponent <= 20"},
		{"MaxAckDelay", EdgeRel(Rel{Op: token.LEQ, X: val, Y: Any()}, false), "max_ack_delay < 2^14 ms"},
		{"ActiveConnectionIDLimit", EdgeRel(Rel{Op: token.GEQ, X: val, Y: ConstI(2)}, false), "active_connection_id_limit >= 2"},
	}
	for _, r := range rules {
		fld := tp(r.field)
		stores := findInstrs(rn, StoresTo(fld))
		c.Floor(R, "stores of "+r.field+" in readNumericTransportParameter", len(stores), 1)
		for _, st := range stores {
			st := st
			// from the store, every path to a nil return passes the validation edge — or the validation dominates the store
			dom := false
			for d := st.Block(); d != nil && d.Idom() != nil; d = d.Idom() {
				id := d.Idom()
				if ifi, ok := id.Instrs[len(id.Instrs)-1].(*ssa.If); ok {
					for s := 0; s < 2; s++ {
						if id.Succs[s] == d && len(d.Preds) == 1 && r.edge(ifi, s) {
							dom = true
						}
					}
				}
			}
			after := (&Cut{Fn: rn, Start: func(in ssa.Instruction) bool { return in == st }, Target: okRet(0), Edge: r.edge}).Run() == nil
			c.Check(dom || after, R, "range:"+r.why, c.P.InstrPos(st), "RFC 9000 §18.2: the value is accepted only past this comparison")
		}
	}
	// unmarshal: perspective-forbidden parameters, connection-ID lengths, required parameters, duplicates
	um := c.fn(wirePkg, "TransportParameters", "unmarshal")
	client := ConstOf(c.konst("internal/protocol", "PerspectiveClient"))
	notClient := EdgeRel(Rel{Op: token.NEQ, X: ParamV("sentBy"), Y: client}, false)
	for _, field := range []string{"PreferredAddress", "StatelessResetToken", "OriginalDestinationConnectionID", "RetrySourceConnectionID"} {
		fld := tp(field)
		var target IP
		if field == "PreferredAddress" {
			target = CallsTo(c.obj(wirePkg, "TransportParameters", "readPreferredAddress"))
		} else {
			target = StoresTo(fld)
		}
		c.Floor(R, "acceptance sites of "+field, countInstr(um, target), 1)
		c.cut(R, "forbidden:client must not send "+field, &Cut{Fn: um, Target: target, Edge: notClient}, "RFC 9000 §18.2: server-only parameter; accepted only on the sentBy != client edge")
	}
	// duplicate scan
	c08DupScan(c, um)
	// required parameters
	for _, what := range []string{"original_destination_connection_id (from a server)", "initial_source_connection_id"} {
		_ = what
	}
	nReq := 0
	for _, b := range um.Blocks {
		ifi, ok := b.Instrs[len(b.Instrs)-1].(*ssa.If)
		if !ok {
			continue
		}
		// !readX → error
		if cell, ok := condCore(ifi.Cond).(*ssa.Phi); ok && cell != nil {
			if strings.HasPrefix(cell.Comment, "read") {
				nReq++
			}
		}
	}
	c.Check(nReq >= 2, R, "required:missing ODCID / ISCID are errors", c.P.Pos(um.Pos()), fmt.Sprintf("%d tests of the read-flags before the success return", nReq))
	// long header: both connection-ID lengths (see C08.3) and token length
	plh := c.fn(wirePkg, "Header", "parseLongHeader")
	n := 0
	eachInstr(plh, func(in ssa.Instruction) {
		if ms, ok := in.(*ssa.MakeSlice); ok {
			n++
			ln := stripConv(ms.Len)
			okB := dominatedByUpper(ms.Block(), ln, Any()) || isLenOrSubGuarded(ln, ms.Block())
			if sb, ok := ln.(*ssa.BinOp); ok && sb.Op == token.SUB {
				// len(b) - K with a dominating positivity test
				if cl, ok := stripConv(sb.X).(*ssa.Call); ok && builtinName(&cl.Call) == "len" && dominatedByCmpOn(ms.Block(), ln, token.GTR) {
					okB = true
				}
			}
			c.Check(okB, R, fmt.Sprintf("bound:parseLongHeader token allocation #%d", n), c.P.InstrPos(in), "a token length from the wire is compared with the remaining bytes before make([]byte, n)")
		}
	})
	c.Floor(R, "token allocations in parseLongHeader", n, 2)
}

// ParamOrExtract matches the parsed value (an Extract of quicvarint.Parse or a conversion of it).
func ParamOrExtract() VP {
	return func(v ssa.Value) bool {
		_, ok := stripConv(v).(*ssa.Extract)
		return ok
	}
}

// c08DupScan: the duplicate-parameter scan compares every adjacent pair of the sorted IDs.
func c08DupScan(c *Ctx, um *ssa.Function) {
	const R = "C08.4"
	// find the comparison ids[i+d1] == ids[i+d2]
	type idx struct {
		phi *ssa.Phi
		off int64
	}
	indexOf := func(v ssa.Value) (idx, bool) {
		u, ok := stripConv(v).(*ssa.UnOp)
		if !ok || u.Op != token.MUL {
			return idx{}, false
		}
		ia, ok := u.X.(*ssa.IndexAddr)
		if !ok {
			return idx{}, false
		}
		i := stripConv(ia.Index)
		if p, ok := i.(*ssa.Phi); ok {
			return idx{p, 0}, true
		}
		if b, ok := i.(*ssa.BinOp); ok {
			if p, ok := stripConv(b.X).(*ssa.Phi); ok {
				if k, ok := constU64(b.Y); ok {
					if b.Op == token.ADD {
						return idx{p, int64(k)}, true
					}
					if b.Op == token.SUB {
						return idx{p, -int64(k)}, true
					}
				}
			}
		}
		return idx{}, false
	}
	found := false
	detail := "no adjacent-pair comparison found"
	// the scan may live in a private helper called only from unmarshal
	eachRegion := func(fn func(ssa.Instruction)) {
		for _, g := range c.region(um) {
			eachInstr(g, fn)
		}
	}
	eachRegion(func(in ssa.Instruction) {
		bo, ok := in.(*ssa.BinOp)
		if !ok || bo.Op != token.EQL {
			return
		}
		a, ok1 := indexOf(bo.X)
		b, ok2 := indexOf(bo.Y)
		if !ok1 || !ok2 || a.phi != b.phi {
			return
		}
		dmin, dmax := a.off, b.off
		if dmin > dmax {
			dmin, dmax = dmax, dmin
		}
		// loop: φ(init, i+1); bound: i < len(ids) + kB
		var init int64 = -1
		for _, e := range a.phi.Edges {
			if k, ok := constU64(e); ok {
				init = int64(k)
			}
		}
		var kB int64
		haveB := false
		if a.phi.Referrers() != nil {
			for _, r := range *a.phi.Referrers() {
				cmp, ok := r.(*ssa.BinOp)
				if !ok || cmp.Op != token.LSS || stripConv(cmp.X) != ssa.Value(a.phi) {
					continue
				}
				y := stripConv(cmp.Y)
				if cl, ok := y.(*ssa.Call); ok && builtinName(&cl.Call) == "len" {
					kB, haveB = 0, true
				} else if sb, ok := y.(*ssa.BinOp); ok {
					if cl, ok := stripConv(sb.X).(*ssa.Call); ok && builtinName(&cl.Call) == "len" {
						if k, ok := constU64(sb.Y); ok {
							if sb.Op == token.SUB {
								kB, haveB = -int64(k), true
							} else if sb.Op == token.ADD {
								kB, haveB = int64(k), true
							}
						}
					}
				}
			}
		}
		if init < 0 || !haveB {
			return
		}
		found = true
		first := init + dmin       // index of the first element compared
		lastOff := kB - 1 + dmax   // last element compared = len + lastOff
		adjacent := dmax-dmin == 1 // adjacent pairs
		ok3 := first == 0 && lastOff == -1 && adjacent
		detail = fmt.Sprintf("loop from i=%d while i < len%+d comparing ids[i%+d] with ids[i%+d]: covers elements %d … len%+d", init, kB, a.off, b.off, first, lastOff)
		c.Check(ok3, R, "dup:the duplicate scan compares every adjacent pair of the sorted parameter IDs", c.P.InstrPos(in), "RFC 9000 §7.4: a parameter sent twice is a TRANSPORT_PARAMETER_ERROR, wherever its ID sorts; "+detail)
	})
	if !found {
		c.Bad(R, "dup:the duplicate scan compares every adjacent pair of the sorted parameter IDs", c.P.Pos(um.Pos()), detail)
	}
	// and it is on every success path
	c.cut(R, "dup:the scan is reached on every success path", &Cut{Fn: um, Target: func(in ssa.Instruction) bool {
		r, ok := in.(*ssa.Return)
		return ok && IsNil()(retResults(r)[0])
	}, Barrier: func(in ssa.Instruction) bool {
		cl, ok := in.(*ssa.Call)
		if !ok {
			return false
		}
		o := calleeObj(&cl.Call)
		return o != nil && o.Name() == "SortFunc"
	}}, "no early success return skips the duplicate check")
}

// ---- C08.5 ----

func c08Params(c *Ctx) {
	const R = "C08.5"
	idT := c.named(wirePkg, "transportParameterID")
	isID := func(v ssa.Value) (uint64, bool) {
		k, ok := v.(*ssa.Const)
		if !ok || k.Value == nil || !types.Identical(k.Type(), idT.Type()) {
			// conversions uint64(id) are constant-folded: accept uint64 constants passed as parameter IDs by position
			return 0, false
		}
		u, ok := constant.Uint64Val(k.Value)
		return u, ok
	}
	declared := map[uint64]string{}
	wp := idT.Pkg()
	for _, name := range wp.Scope().Names() {
		if k, ok := wp.Scope().Lookup(name).(*types.Const); ok && types.Identical(k.Type(), idT.Type()) {
			u, _ := constant.Uint64Val(k.Val())
			declared[u] = name
		}
	}
	c.Floor(R, "declared transport parameter IDs", len(declared), 19)
	um := c.fn(wirePkg, "TransportParameters", "unmarshal")
	rn := c.fn(wirePkg, "TransportParameters", "readNumericTransportParameter")
	handled := map[uint64]bool{}
	for k := range eqConstsOn(um, Any()) {
		if _, ok := declared[k]; ok {
			handled[k] = true
		}
	}
	numeric := map[uint64]bool{}
	for k := range eqConstsOn(rn, ParamV("paramID")) {
		numeric[k] = true
	}
	// which of unmarshal's cases lead to readNumericTransportParameter
	numCases := map[uint64]bool{}
	rnObj := c.obj(wirePkg, "TransportParameters", "readNumericTransportParameter")
	for k, cmps := range eqConstsOn(um, Any()) {
		if _, ok := declared[k]; !ok {
			continue
		}
		for _, cmp := range cmps {
			if cmp.Referrers() == nil {
				continue
			}
			for _, r := range *cmp.Referrers() {
				if ifi, ok := r.(*ssa.If); ok {
					for _, in := range ifi.Block().Succs[0].Instrs {
						if CallsTo(rnObj)(in) {
							numCases[k] = true
						}
					}
				}
			}
		}
	}
	c.Check(setEq(numCases, numeric), R, "table:numeric cases of unmarshal = cases of readNumericTransportParameter", c.P.Pos(rn.Pos()),
		fmt.Sprintf("unmarshal routes %s to the numeric reader, which has cases %s (a missing case ends in its BUG default)", hexList(keysU64(numCases)), hexList(keysU64(numeric))))
	// IDs written by Marshal / MarshalForSessionTicket
	for _, mn := range []string{"Marshal", "MarshalForSessionTicket"} {
		m := c.fn(wirePkg, "TransportParameters", mn)
		written := map[uint64]bool{}
		mv := c.obj(wirePkg, "TransportParameters", "marshalVarintParam")
		va := c.obj("quicvarint", "", "Append")
		eachInstr(m, func(in ssa.Instruction) {
			cl, ok := in.(*ssa.Call)
			if !ok {
				return
			}
			switch calleeObj(&cl.Call) {
			case mv:
				if u, ok := isID(cl.Call.Args[2]); ok {
					written[u] = true
				}
			case va:
				// uint64(xParameterID) is folded to a uint64 constant: identify by value when the next varint is a length
				if u, ok := constU64(cl.Call.Args[1]); ok {
					if _, isDecl := declared[u]; isDecl && u != 0 && u != 16 && u != 1 {
						written[u] = true
					}
				}
			}
		})
		miss := []uint64{}
		for k := range written {
			if !handled[k] {
				miss = append(miss, k)
			}
		}
		c.Check(len(miss) == 0 && len(written) >= 8, R, "table:every ID "+mn+" writes has an unmarshal case", c.P.Pos(m.Pos()),
			fmt.Sprintf("written %s; handled %s; unhandled %s", hexList(keysU64(written)), hexList(keysU64(handled)), hexList(miss)))
	}
	// every declared ID has an unmarshal case (otherwise it is silently skipped by the default case)
	for k, name := range declared {
		c.Check(handled[k], R, "table:unmarshal has a case for "+name, c.P.Pos(um.Pos()), "a declared parameter without a case is skipped as unknown")
	}
}

// ---- C08.6 ----

// bndWireExceptions: sites of the parse side that the length-fact rules cannot discharge, with the reason each is safe.
var bndWireExceptions = map[string]string{
	"(internal/wire.FrameType).isAllowedAtEncLevel#panic#1": "default case of a switch over the packet's encryption level, a value of the receive path's own enum (Initial/Handshake/0-RTT/1-RTT), not taken from the wire",
	"internal/protocol.ParseConnectionID#panic#1":           "panics on more than 20 bytes; C08.3 shows that every caller in the parsers bounds the length by MaxConnIDLen first",
	"internal/wire.GetStreamFrame#assert#1":                 "sync.Pool whose New function and every Put store *StreamFrame",
	"internal/wire.ParseVersionNegotiationPacket#index[v]#1":   "versions has len(b)/4 elements and i counts the loop's iterations, each of which consumes 4 bytes of a b whose length was tested to be a positive multiple of 4 (modular arithmetic, outside the engine's domain)",
	"internal/wire.ParseVersionNegotiationPacket#slice[:4]#1":   "b[:4] inside `for len(b) > 0` with len(b)%4 == 0 established before the loop and preserved by b = b[4:]",
	"internal/wire.ParseVersionNegotiationPacket#slice[4:]#1":   "b[4:] inside the same loop (see slice2)",
}

func c08Bounds(c *Ctx) {
	const R = "C08.6"
	roots, missing := bndWireRoots(c.P)
	for _, m := range missing {
		c.Bad(R, "root:"+m, "-", "parse entry point not found")
	}
	inPkg := func(pk string) bool {
		return pk == modPath+"/internal/wire" || pk == modPath+"/quicvarint" || pk == modPath+"/internal/protocol"
	}
	fns := c.P.reachStatic(roots, inPkg)
	c.Floor(R, "functions reachable from the parse entry points", len(fns), 50)
	unp, err := compilerUnproven(c.P.RepoDir, c.P.GOARCH, []string{"./internal/wire/", "./quicvarint/", "./internal/protocol/"})
	if err != nil {
		c.Err(R, "compiler bounds-check listing", err)
		return
	}
	// the listing must be alive: an empty listing would make every site "proven"
	c.Floor(R, "bounds checks the compiler could not remove (listing alive)", len(unp), 60)
	sites := c.P.bndSites(fns, unp, bndWireExceptions)
	c.Floor(R, "index/slice/make/panic/assert/div sites on the parse side", len(sites), 120)
	cnt := map[string]int{}
	usedEx := map[string]bool{}
	for _, s := range sites {
		c.FuncsSet[funcName(s.Fn)] = true
		cnt[s.How]++
		key := s.Expr
		if i := strings.Index(key, " ("); i > 0 {
			key = key[:i]
		}
		if s.How == "X" {
			usedEx[key] = true
		}
		how := map[string]string{"P": "compiler-proven", "F": "length fact", "X": "exception", "": "undischarged"}[s.How]
		c.Check(s.OK, R, "bnd:"+key, c.P.InstrPos(s.Instr), fmt.Sprintf("%s — %s: %s", s.Expr, how, s.Why))
	}
	c.Count("C08.6 discharged by the compiler's prove pass", cnt["P"])
	c.Count("C08.6 discharged by length facts", cnt["F"])
	c.Count("C08.6 frozen exceptions", cnt["X"])
	for k := range bndWireExceptions {
		c.Check(usedEx[k], R, "exception-live:"+k, "-", "a frozen exception that no longer matches a site must be removed from the table")
	}
	// the token and session-ticket decoders (own AEAD-protected formats, decoded with encoding/asn1 / quicvarint)
	var hroots []*ssa.Function
	for _, r := range [][3]string{{"internal/handshake", "TokenGenerator", "DecodeToken"}, {"internal/handshake", "sessionTicket", "Unmarshal"}, {"internal/handshake", "tokenProtector", "DecodeToken"}} {
		f, err := c.P.Func1(r[0], r[1], r[2])
		if err != nil {
			c.Bad(R, "root:"+r[1]+"."+r[2], "-", "decode entry point not found")
			continue
		}
		hroots = append(hroots, f)
	}
	hfns := c.P.reachStatic(hroots, func(pk string) bool { return pk == modPath+"/internal/handshake" })
	hunp, err := compilerUnproven(c.P.RepoDir, c.P.GOARCH, []string{"./internal/handshake/"})
	if err != nil {
		c.Err(R, "compiler bounds-check listing (handshake)", err)
		return
	}
	c.Floor(R, "bounds checks the compiler could not remove in internal/handshake (listing alive)", len(hunp), 10)
	hs := c.P.bndSites(hfns, hunp, nil)
	c.Floor(R, "sites in the token / session ticket decoders", len(hs), 4)
	for _, st := range hs {
		c.FuncsSet[funcName(st.Fn)] = true
		key := st.Expr
		if i := strings.Index(key, " ("); i > 0 {
			key = key[:i]
		}
		c.Check(st.OK, R, "bnd:"+key, c.P.InstrPos(st.Instr), fmt.Sprintf("%s — %s", st.Expr, st.Why))
	}
	// parameter contracts are established at every call site
	for fnName, pc := range paramContracts {
		var fn *ssa.Function
		for _, f := range fns {
			if funcName(f) == fnName {
				fn = f
			}
		}
		if fn == nil {
			c.Bad(R, "contract:"+fnName, "-", "function with a parameter contract not found on the parse side")
			continue
		}
		si, ni := -1, -1
		for i, q := range fn.Params {
			if q.Name() == pc.slice {
				si = i
			}
			if q.Name() == pc.atLeast {
				ni = i
			}
		}
		ok, why := c.P.callersEstablish(fn, si, ni, 0, 0)
		c.Check(si >= 0 && ni >= 0 && ok, R, "contract:"+fnName+" len("+pc.slice+") >= "+pc.atLeast+" at every call site", c.P.Pos(fn.Pos()), why)
	}
}
