package main

// C12 — ORG: what a connection advertises and what it enforces must have the same origin.

import (
	"fmt"
	"go/constant"
	"go/token"
	"go/types"
	"sort"
	"strings"

	"golang.org/x/tools/go/ssa"
)

func init() { register("C12", runC12) }

func runC12(c *Ctx) {
	c.Clause("C12.1 for every connection constructor (server, plain client, spec client default branch, spec client spec branch) each advertised own transport parameter (stream/connection windows, stream counts, active_connection_id_limit, max_datagram_frame_size, max_idle_timeout, max_ack_delay) has the same origin (Config field or constant) as the operand that enforces it")
	c.Clause("C12.2 the spec hook for the connection-ID limit is wired to the limit the manager enforces")
	c.NotCovered("that a peer at the boundary is actually served; auto-tuned windows")
	c.NotCovered("own-record completeness for parameters that have no receive-side enforcement (max_udp_payload_size, ack_delay_exponent, max_ack_delay)")

	c.rule("C12.1", func() { c12Origins(c) })
	c.rule("C12.2", func() { c12Hook(c) })
}

// origin describes where a value comes from: "Config.X", "const <v>", "spec", or "?".
func (c *Ctx) origin(v ssa.Value, depth int) string {
	if depth > 6 || v == nil {
		return "?"
	}
	v = stripConv(v)
	if k, ok := v.(*ssa.Const); ok {
		if k.Value == nil {
			return "zero"
		}
		if k.Value.Kind() == constant.Int {
			return "const " + k.Value.ExactString()
		}
		return "const " + k.Value.String()
	}
	if f, base := loadedField(v); f != nil {
		// field of *Config reached through some path
		if n := namedOf(fieldOwner(f, c)); n != nil && n.Obj().Name() == "Config" && n.Obj().Pkg().Path() == modPath {
			return "Config." + f.Name()
		}
		_ = base
		return "field " + f.Name()
	}
	return "?"
}

// fieldOwner finds the struct type declaring the field (by scanning the module's named types).
var fieldOwnerCache = map[*types.Var]types.Type{}

func fieldOwner(f *types.Var, c *Ctx) types.Type {
	if t, ok := fieldOwnerCache[f]; ok {
		return t
	}
	for _, pk := range c.P.Pkgs {
		if !InRepo(pk.PkgPath) {
			continue
		}
		sc := pk.Types.Scope()
		for _, name := range sc.Names() {
			tn, ok := sc.Lookup(name).(*types.TypeName)
			if !ok {
				continue
			}
			st, ok := tn.Type().Underlying().(*types.Struct)
			if !ok {
				continue
			}
			for i := 0; i < st.NumFields(); i++ {
				if st.Field(i).Origin() == f {
					fieldOwnerCache[f] = tn.Type()
					return tn.Type()
				}
			}
		}
	}
	fieldOwnerCache[f] = nil
	return nil
}

type c12Row struct {
	name     string   // transport parameter
	fields   []string // TransportParameters field(s)
	enforced string   // origin of the enforcing operand (computed)
	where    string
}

func c12Origins(c *Ctx) {
	const R = "C12.1"
	// ---- enforcement side, extracted from the code
	pre := c.fn("", "Conn", "preSetup")
	nfc := c.fn("", "Conn", "newFlowController")
	atp := c.fn("", "Conn", "applyTransportParameters")
	cidAdd := c.fn("", "connIDManager", "Add")
	argOrigin := func(fn *ssa.Function, callee *types.Func, idx int) (string, string) {
		for _, in := range findInstrs(fn, CallsTo(callee)) {
			args := in.(ssa.CallInstruction).Common().Args
			if idx < len(args) {
				return c.origin(args[idx], 0), c.P.InstrPos(in)
			}
		}
		return "?", c.P.Pos(fn.Pos())
	}
	ncfc := c.obj(fc, "", "NewConnectionFlowController")
	nsfc := c.obj(fc, "", "NewStreamFlowController")
	nsm := c.obj("", "", "newStreamsMap")
	nfp := c.obj("internal/wire", "", "NewFrameParser")
	rows := []*c12Row{
		{name: "initial_max_data", fields: []string{"InitialMaxData"}},
		{name: "initial_max_stream_data_bidi_local", fields: []string{"InitialMaxStreamDataBidiLocal"}},
		{name: "initial_max_stream_data_bidi_remote", fields: []string{"InitialMaxStreamDataBidiRemote"}},
		{name: "initial_max_stream_data_uni", fields: []string{"InitialMaxStreamDataUni"}},
		{name: "initial_max_streams_bidi", fields: []string{"MaxBidiStreamNum"}},
		{name: "initial_max_streams_uni", fields: []string{"MaxUniStreamNum"}},
		{name: "active_connection_id_limit", fields: []string{"ActiveConnectionIDLimit"}},
		{name: "max_datagram_frame_size", fields: []string{"MaxDatagramFrameSize"}},
		{name: "max_idle_timeout", fields: []string{"MaxIdleTimeout"}},
		{name: "max_ack_delay", fields: []string{"MaxAckDelay"}},
	}
	rows[0].enforced, rows[0].where = argOrigin(pre, ncfc, 0)
	for i := 1; i <= 3; i++ {
		rows[i].enforced, rows[i].where = argOrigin(nfc, nsfc, 2)
	}
	rows[4].enforced, rows[4].where = argOrigin(pre, nsm, 4)
	rows[5].enforced, rows[5].where = argOrigin(pre, nsm, 5)
	// connection ID limit: the constant compared with len(queue) in connIDManager.Add
	rows[6].enforced, rows[6].where = "?", c.P.Pos(cidAdd.Pos())
	var cidLimitField *types.Var
	queue := c.fld("", "connIDManager", "queue")
	eachInstr(cidAdd, func(i ssa.Instruction) {
		bo, ok := i.(*ssa.BinOp)
		if !ok || !isCmp(bo.Op) {
			return
		}
		if LenOf(Load(queue))(bo.X) {
			rows[6].enforced, rows[6].where = c.origin(bo.Y, 0), c.P.InstrPos(i)
			// the limit may be read through an accessor returning the stored (advertised) limit or the default constant
			if cl, ok := stripConv(bo.Y).(*ssa.Call); ok {
				if sc := cl.Call.StaticCallee(); sc != nil && sc.Blocks != nil {
					var konst string
					eachInstr(sc, func(x ssa.Instruction) {
						r, ok := x.(*ssa.Return)
						if !ok {
							return
						}
						v := stripConv(retResults(r)[0])
						if o := c.origin(v, 0); strings.HasPrefix(o, "const ") {
							konst = o
						} else if f, _ := loadedField(v); f != nil {
							cidLimitField = f
						}
					})
					if konst != "" {
						rows[6].enforced = konst
					}
				}
			}
		}
	})
	// where the stored limit comes from: the hook's parameter
	hookStoresLimit := false
	hookFn := c.fn("", "connIDManager", "SetConnectionIDLimit")
	if cidLimitField != nil {
		for _, in := range findInstrs(hookFn, StoresTo(cidLimitField)) {
			if _, isP := stripConv(in.(*ssa.Store).Val).(*ssa.Parameter); isP {
				hookStoresLimit = true
			}
		}
	}
	hookObj := c.obj("", "connIDManager", "SetConnectionIDLimit")
	rows[7].enforced, rows[7].where = argOrigin(pre, nfp, 0)
	// idle timeout: the store `c.idleTimeout = c.config.MaxIdleTimeout`
	idle := c.fld("", "Conn", "idleTimeout")
	rows[8].enforced, rows[8].where = "?", c.P.Pos(atp.Pos())
	for _, in := range findInstrs(atp, StoresTo(idle)) {
		if o := c.origin(in.(*ssa.Store).Val, 0); o != "?" && rows[8].enforced == "?" {
			rows[8].enforced, rows[8].where = o, c.P.InstrPos(in)
		}
	}
	// max_ack_delay: the delay the application-data ACK tracker is constructed with
	rows[9].enforced, rows[9].where = "?", "-"
	if nt, err := c.P.Func1(ah, "", "newAppDataReceivedPacketTracker"); err == nil {
		mad := c.fld(ah, "appDataReceivedPacketTracker", "maxAckDelay")
		for _, in := range findInstrs(nt, StoresTo(mad)) {
			rows[9].enforced, rows[9].where = c.origin(in.(*ssa.Store).Val, 0), c.P.InstrPos(in)
		}
	}
	for _, r := range rows {
		c.Check(r.enforced != "?", R, "enforced-origin:"+r.name, r.where, "the operand enforcing "+r.name+" comes from "+r.enforced)
	}

	// ---- advertised side, per constructor and TransportParameters literal
	tpT := c.named("internal/wire", "TransportParameters")
	populate := c.obj("internal/wire", "TransportParameters", "PopulateFromUQUIC")
	populateFn := c.fn("internal/wire", "TransportParameters", "PopulateFromUQUIC")
	handled := map[string]bool{}
	eachInstr(populateFn, func(i ssa.Instruction) {
		if f := storedField(i); f != nil {
			handled[f.Name()] = true
		}
	})
	maxActive := c.konst("internal/protocol", "MaxActiveConnectionIDs")
	cfgDatagrams := "Config.EnableDatagrams"
	nLit := 0
	for _, ctor := range []string{"newConnection", "newClientConnection", "newUClientConnection"} {
		fn := c.funcVar("", ctor)
		lit := 0
		eachInstr(fn, func(i ssa.Instruction) {
			al, ok := i.(*ssa.Alloc)
			if !ok || al.Comment != "complit" || namedOf(al.Type()) == nil || namedOf(al.Type()).Obj() != tpT {
				return
			}
			lit++
			nLit++
			// is this literal later filled from the spec?
			fromSpec := false
			if al.Referrers() != nil {
				for _, r := range *al.Referrers() {
					if ci, ok := r.(ssa.CallInstruction); ok && calleeObj(ci.Common()) == populate {
						fromSpec = true
					}
				}
			}
			// the literal may be stored into a variable first: look for Populate on loads of the cell it is stored in
			if !fromSpec {
				eachInstr(fn, func(x ssa.Instruction) {
					ci, ok := x.(ssa.CallInstruction)
					if !ok || calleeObj(ci.Common()) != populate {
						return
					}
					if dominatedByBlock(x.Block(), al.Block()) {
						fromSpec = true
					}
				})
			}
			branch := "config"
			if fromSpec {
				branch = "spec"
			}
			tag := fmt.Sprintf("%s[%s]", ctor, branch)
			for _, r := range rows {
				fname := r.fields[0]
				fld := c.fld("internal/wire", "TransportParameters", fname)
				adv := "?"
				switch {
				case fromSpec && handled[fname]:
					adv = "spec"
				case fromSpec:
					adv = "not set"
				default:
					if v := allocFieldVal(al, fld); v != nil && fname != "MaxDatagramFrameSize" {
						adv = c.origin(v, 0)
					} else if fname == "MaxDatagramFrameSize" {
						// set after the literal under `if s.config.EnableDatagrams`
						cfgEd := c.fld("", "Config", "EnableDatagrams")
						eachInstr(fn, func(x ssa.Instruction) {
							st, ok := x.(*ssa.Store)
							if !ok || fieldOfAddress(st.Addr) != fld {
								return
							}
							if dominatedByEdge(st.Block(), BoolTrue(Load(cfgEd)), false) || dominatedByEdge(st.Block(), BoolTrue(Load(cfgEd)), true) {
								adv = cfgDatagrams
							}
						})
					}
				}
				want := r.enforced
				if fname == "ActiveConnectionIDLimit" && hookStoresLimit {
					// the constructor hands the advertised limit to the manager, which enforces the stored value
					tpLimit := c.fld("internal/wire", "TransportParameters", "ActiveConnectionIDLimit")
					eachInstr(fn, func(x ssa.Instruction) {
						ci, ok := x.(ssa.CallInstruction)
						if !ok || calleeObj(ci.Common()) != hookObj {
							return
						}
						args := ci.Common().Args
						if len(args) == 2 && Load(tpLimit)(args[1]) && dominatedByBlock(x.Block(), al.Block()) && fromSpec {
							want = adv
						}
					})
				}
				ok2 := adv == want
				if fname == "MaxAckDelay" && strings.HasPrefix(adv, "const ") && strings.HasPrefix(want, "const ") {
					// a promise, not a limit: what is advertised may exceed what is enforced (timer granularity), never the reverse
					var a, w int64
					fmt.Sscan(strings.TrimPrefix(adv, "const "), &a)
					fmt.Sscan(strings.TrimPrefix(want, "const "), &w)
					ok2 = a >= w
				}
				if fname == "ActiveConnectionIDLimit" && adv == "const "+maxActive.(*types.Const).Val().ExactString() && want == adv {
					ok2 = true
				}
				c.Check(ok2, R, "org:"+tag+":"+r.name, c.P.InstrPos(i),
					fmt.Sprintf("%s advertises %s from %q but enforces it from %q (%s): a peer using the advertised value to the full is answered with a local error unless both come from the same source", tag, r.name, adv, want, r.where))
			}
		})
		c.Floor(R, "TransportParameters literals in "+ctor, lit, 1)
	}
	c.Floor(R, "own transport parameter literals", nLit, 4)
	_ = sort.Strings
	_ = token.ADD
}

// c12Hook: SetConnectionIDLimit stores its argument where Add reads the limit from.
func c12Hook(c *Ctx) {
	const R = "C12.2"
	f := c.fn("", "connIDManager", "SetConnectionIDLimit")
	uses := 0
	if len(f.Params) > 1 && f.Params[1].Referrers() != nil {
		uses = len(*f.Params[1].Referrers())
	}
	c.Check(uses > 0, R, "hook:SetConnectionIDLimit uses its argument", c.P.Pos(f.Pos()),
		"newUClientConnection passes the advertised active_connection_id_limit to this hook; it drops the value, so the manager keeps enforcing the constant")
	// the limit the manager enforces is this endpoint's OWN advertised value: the hook is called only where the own
	// parameters are built, never with the peer's parameters
	ctor := c.funcVar("", "newUClientConnection")
	obj := c.obj("", "connIDManager", "SetConnectionIDLimit")
	peer := c.fld("", "Conn", "peerParams")
	n := 0
	for _, cs := range c.P.CallSites(obj) {
		n++
		inCtor := cs.Fn == ctor || rootFn(cs.Fn) == rootFn(ctor) && cs.Fn.Parent() == ctor.Parent()
		fromPeer := false
		if ci, ok := cs.Instr.(ssa.CallInstruction); ok && len(ci.Common().Args) == 2 {
			if _, base := loadedField(stripConv(ci.Common().Args[1])); base != nil {
				if Load(peer)(base) {
					fromPeer = true
				}
			}
		}
		c.Check(inCtor && !fromPeer, R, "hook:SetConnectionIDLimit is called with the own advertised limit only@"+funcName(cs.Fn), c.P.InstrPos(cs.Instr),
			"active_connection_id_limit bounds what the PEER may issue to this endpoint: the enforced value is the one this endpoint advertised, not the one the peer advertised (that one bounds connIDGenerator)")
	}
	c.Floor(R, "SetConnectionIDLimit call sites", n, 1)
}
