package main

import (
	"fmt"
	"go/token"

	"golang.org/x/tools/go/ssa"
)

const fc = "internal/flowcontrol"

func init() { register("C04", runC04) }

func runC04(c *Ctx) {
	c.Clause("C04.1 the length of new stream data popped is upper-bounded by flowController.SendWindowSize() along popNewOrRetransmittedStreamFrame→popNewStreamFrame→popNewStreamFrameWithoutBuffer→getDataForWriting, and writeOffset advances together with AddBytesSent by the same DataLen")
	c.Clause("C04.2 stream send window = min(stream, connection); AddBytesSent forwards to both; base SendWindowSize shape")
	c.Clause("C04.3 who-may-write and store shape of receiveWindow, receiveWindowSize, sendWindow, highestReceived; violation check post-dominates every highestReceived store")
	c.Clause("C04.4 checkFlowControlViolation is highestReceived > receiveWindow")
	c.Clause("C04.5 every change of stream-level bytesRead is accompanied by exactly one connection.AddBytesRead of the same delta; Abandon is called on each early-termination path of the receive stream")
	c.Clause("C04.6 MAX_STREAM_DATA / MAX_DATA frames are built from GetWindowUpdate only for a non-zero value")
	c.Clause("C04.7 the final size of a RESET_STREAM(_AT) the send stream queues is its write offset (what flow control admitted)")
	c.Clause("C04.6 lastBlockedAt written only on the newly-blocked path; *_BLOCKED frames are only built under IsNewlyBlocked()==true")
	c.Clause("C04.7 MAX_DATA / MAX_STREAM_DATA values come from GetWindowUpdate at frame creation")
	c.Clause("C04.9 every Config is passed through validateConfig (receive windows clipped to the varint maximum) before populateConfig")
	c.Clause("C04.8 no frame of a packet is handled after an earlier frame of it failed (the recorded FLOW_CONTROL_ERROR cannot be overwritten by a later frame's result)")
	c.NotCovered("arithmetic of window auto-tuning")
	c.NotCovered("credit conservation as a sum over histories")
	c.NotCovered("that retransmitted bytes are not double counted at the byte level")

	c.rule("C04.1", func() { c04UpperBound(c) })
	c.rule("C04.1", func() { c04InitialSendWindow(c) })
	c.rule("C04.2", func() { c04SendWindow(c) })
	c.rule("C04.3", func() { c04ReceiveSide(c) })
	c.rule("C04.5", func() { c04BytesRead(c) })
	c.rule("C04.6", func() { c04NoZeroWindowUpdateFrame(c) })
	c.rule("C04.7", func() { c04ResetFinalSizeWithinCredit(c) })
	c.rule("C04.5", func() { c04AbandonInReadLoop(c) })
	c.rule("C04.6", func() { c04Blocked(c) })
	c.rule("C04.7", func() { c04WindowUpdates(c) })
	c.rule("C04.8", func() { skipHandlingGuardsEveryHandler(c, "C04.8") })
	c.rule("C04.9", func() { configValidatedBeforeUse(c, "C04.9") })
}

func c04UpperBound(c *Ctx) {
	const R = "C04.1"
	swsI := c.obj(fc, "StreamFlowController", "SendWindowSize")
	popNOR := c.fn("", "SendStream", "popNewOrRetransmittedStreamFrame")
	popNew := c.obj("", "SendStream", "popNewStreamFrame")
	popNewFn := c.fn("", "SendStream", "popNewStreamFrame")
	woBuf := c.obj("", "SendStream", "popNewStreamFrameWithoutBuffer")
	woBufFn := c.fn("", "SendStream", "popNewStreamFrameWithoutBuffer")
	getData := c.obj("", "SendStream", "getDataForWriting")
	getDataFn := c.fn("", "SendStream", "getDataForWriting")
	sfData := c.fld("internal/wire", "StreamFrame", "Data")
	dataLen := c.obj("internal/wire", "StreamFrame", "DataLen")
	writeOffset := c.fld("", "SendStream", "writeOffset")
	addSent := c.obj(fc, "StreamFlowController", "AddBytesSent")

	// (a) maxDataLen argument of popNewStreamFrame ≤ SendWindowSize()
	calls := findInstrs(popNOR, CallsTo(popNew))
	c.Floor(R, "calls of popNewStreamFrame", len(calls), 1)
	for _, in := range calls {
		call := in.(ssa.CallInstruction).Common()
		arg := call.Args[2]
		ok := boundedBy(arg, CallTo(swsI, -1), in.Block(), 0)
		c.Check(ok, R, "ub:popNewStreamFrame.maxDataLen≤SendWindowSize()", c.P.InstrPos(in),
			"the data-length budget handed to popNewStreamFrame must have flowController.SendWindowSize() in its upper-bound set on every path (min/φ/conversion provenance)")
	}
	// also: every path to that call passes the `maxDataLen == 0 → return` test (blocked streams send nothing)
	c.cut(R, "guard:SendWindowSize()==0→return", &Cut{Fn: popNOR, Target: CallsTo(popNew),
		Edge: EdgeRel(Rel{Op: token.NEQ, X: CallTo(swsI, -1), Y: ConstI(0)}, false)},
		"popNewStreamFrame is only reached past SendWindowSize() != 0")

	// (b) popNewStreamFrame: buffered-frame branch
	nextFrame := c.fld("", "SendStream", "nextFrame")
	bounded := func(at *ssa.BasicBlock) VP {
		return func(v ssa.Value) bool { return boundedBy(v, ParamV("maxDataLen"), at, 0) }
	}
	nRet := 0
	eachInstr(popNewFn, func(in ssa.Instruction) {
		r, ok := in.(*ssa.Return)
		if !ok || len(r.Results) == 0 {
			return
		}
		v := retResults(r)[0]
		if k, isK := v.(*ssa.Const); isK && k.Value == nil {
			return // returns no frame
		}
		if f, _ := loadedField(v); f == nextFrame {
			nRet++
			// every path from the load to this return: truncating store, or edge DataLen(v) <= bounded
			q := &Cut{Fn: popNewFn,
				Start:  func(i ssa.Instruction) bool { x, ok := i.(ssa.Value); return ok && x == v },
				Target: func(i ssa.Instruction) bool { return i == in },
				Barrier: func(i ssa.Instruction) bool {
					st, ok := i.(*ssa.Store)
					if !ok {
						return false
					}
					fa, ok := st.Addr.(*ssa.FieldAddr)
					if !ok || fieldOfAddr(fa) != sfData || fa.X != v {
						return false
					}
					sl, ok := st.Val.(*ssa.Slice)
					return ok && sl.Low == nil && sl.High != nil && bounded(st.Block())(sl.High)
				},
				Edge: func(ifi *ssa.If, s int) bool {
					return EdgeImplies(ifi, s, Rel{Op: token.LEQ, X: CallTo(dataLen, -1, nil), Y: bounded(ifi.Block())}, false) &&
						callOnValue(ifi.Cond, v)
				},
			}
			c.cut(R, "ub:popNewStreamFrame.bufferedFrame≤maxDataLen", q,
				"the buffered frame returned is either truncated to a length bounded by maxDataLen or known to have DataLen() ≤ such a length")
		}
	})
	c.Floor(R, "returns of the buffered frame", nRet, 1)
	for _, in := range findInstrs(popNewFn, CallsTo(woBuf)) {
		call := in.(ssa.CallInstruction).Common()
		c.Check(boundedBy(call.Args[3], ParamV("maxDataLen"), in.Block(), 0), R, "ub:popNewStreamFrameWithoutBuffer.sendWindow≤maxDataLen", c.P.InstrPos(in),
			"send window argument must be bounded by popNewStreamFrame's maxDataLen")
	}
	c.Floor(R, "calls of popNewStreamFrameWithoutBuffer", countInstr(popNewFn, CallsTo(woBuf)), 1)
	for _, in := range findInstrs(woBufFn, CallsTo(getData)) {
		call := in.(ssa.CallInstruction).Common()
		c.Check(boundedBy(call.Args[2], ParamV("sendWindow"), in.Block(), 0), R, "ub:getDataForWriting.maxBytes≤sendWindow", c.P.InstrPos(in),
			"byte budget handed to getDataForWriting must be bounded by the send window")
	}
	c.Floor(R, "calls of getDataForWriting", countInstr(woBufFn, CallsTo(getData)), 1)
	nSt := 0
	eachInstr(getDataFn, func(in ssa.Instruction) {
		st, ok := in.(*ssa.Store)
		if !ok || fieldOfAddress(st.Addr) != sfData {
			return
		}
		nSt++
		sl, isSl := st.Val.(*ssa.Slice)
		ok = isSl && sl.Low == nil && sl.High != nil && boundedBy(sl.High, ParamV("maxBytes"), st.Block(), 0)
		c.Check(ok, R, fmt.Sprintf("ub:getDataForWriting.f.Data#%d≤maxBytes", nSt), c.P.InstrPos(in),
			"each length given to the new frame's data is bounded by maxBytes (directly, or by a dominating len(dataForWriting) <= maxBytes edge)")
	})
	c.Floor(R, "stores to StreamFrame.Data in getDataForWriting", nSt, 2)

	// (c) PAIR: writeOffset += f.DataLen()  <->  flowController.AddBytesSent(f.DataLen())
	ws := c.checkWriters(R, writeOffset, c.set([3]string{"", "SendStream", "popNewOrRetransmittedStreamFrame"}), 1)
	for _, sites := range ws {
		for _, w := range sites {
			if rootFn(w.Fn) != popNOR {
				continue
			}
			var frame ssa.Value
			okShape := BinV(token.ADD, Load(writeOffset), func(v ssa.Value) bool {
				cl, ok := stripConv(v).(*ssa.Call)
				if !ok || calleeObj(&cl.Call) != dataLen {
					return false
				}
				frame = cl.Call.Args[0]
				return true
			})(w.Val)
			c.Check(okShape, R, "shape:writeOffset+=f.DataLen()", c.P.InstrPos(w.Instr), "writeOffset advances by the DataLen of the popped frame")
			if okShape {
				// the frame is the result of popNewStreamFrame
				c.Check(CallTo(popNew, 0)(frame), R, "shape:f=popNewStreamFrame()", c.P.InstrPos(w.Instr), "the frame whose length is accounted is the one popNewStreamFrame returned")
				sameFrameArg := func(v ssa.Value) bool {
					cl, ok := stripConv(v).(*ssa.Call)
					return ok && calleeObj(&cl.Call) == dataLen && cl.Call.Args[0] == frame
				}
				c.cut(R, "pair:writeOffset→AddBytesSent", &Cut{Fn: popNOR, Start: func(i ssa.Instruction) bool { return i == w.Instr }, Target: isReturn,
					Barrier: CallsToArgs(addSent, sameFrameArg)}, "after advancing writeOffset every path reports the same length to the flow controller")
				c.cut(R, "pair:AddBytesSent→writeOffset", &Cut{Fn: popNOR, Target: CallsTo(addSent), Barrier: func(i ssa.Instruction) bool { return i == w.Instr }},
					"AddBytesSent is only reached after writeOffset advanced")
			}
		}
	}
	c.Floor(R, "calls of AddBytesSent in popNewOrRetransmittedStreamFrame", countInstr(popNOR, CallsTo(addSent)), 1)
	// AddBytesSent on the stream flow controller is called nowhere else in the root package
	c.checkCallers(R, addSent, c.set([3]string{"", "SendStream", "popNewOrRetransmittedStreamFrame"}, [3]string{fc, "streamFlowController", "AddBytesSent"}), 1)
}

// callOnValue: the comparison's call operand has v as receiver.
func callOnValue(cond ssa.Value, v ssa.Value) bool {
	for {
		if u, ok := cond.(*ssa.UnOp); ok && u.Op == token.NOT {
			cond = u.X
			continue
		}
		break
	}
	b, ok := cond.(*ssa.BinOp)
	if !ok {
		return false
	}
	for _, side := range []ssa.Value{b.X, b.Y} {
		if cl, ok := stripConv(side).(*ssa.Call); ok && len(cl.Call.Args) > 0 && cl.Call.Args[0] == v {
			return true
		}
	}
	return false
}

func c04SendWindow(c *Ctx) {
	const R = "C04.2"
	baseSWS := c.obj(fc, "baseFlowController", "SendWindowSize")
	connSWS := c.obj(fc, "connectionFlowControllerI", "SendWindowSize")
	sSWS := c.fn(fc, "streamFlowController", "SendWindowSize")
	c.returnsAll(R, "shape:stream.SendWindowSize=min(base,conn)", sSWS, 0,
		MinMaxOf("min", CallTo(baseSWS, -1), CallTo(connSWS, -1)),
		"stream send window is the minimum of the stream-level and the connection-level window")

	bytesSent := c.fld(fc, "baseFlowController", "bytesSent")
	sendWindow := c.fld(fc, "baseFlowController", "sendWindow")
	bSWS := c.fn(fc, "baseFlowController", "SendWindowSize")
	// returns 0 on bytesSent > sendWindow, else sendWindow - bytesSent
	eachInstr(bSWS, func(in ssa.Instruction) {
		r, ok := in.(*ssa.Return)
		if !ok {
			return
		}
		okv := ConstI(0)(retResults(r)[0]) || BinV(token.SUB, Load(sendWindow), Load(bytesSent))(retResults(r)[0])
		c.Check(okv, R, "shape:base.SendWindowSize", c.P.InstrPos(in), "returns 0 or sendWindow - bytesSent")
	})
	c.cut(R, "guard:base.SendWindowSize underflow", &Cut{Fn: bSWS,
		Target: func(in ssa.Instruction) bool {
			b, ok := in.(*ssa.BinOp)
			return ok && b.Op == token.SUB
		},
		Edge: EdgeRel(Rel{Op: token.LEQ, X: Load(bytesSent), Y: Load(sendWindow)}, false)},
		"the subtraction is only reached when bytesSent <= sendWindow")

	// AddBytesSent forwards n to both levels
	sABS := c.fn(fc, "streamFlowController", "AddBytesSent")
	baseABS := c.obj(fc, "baseFlowController", "AddBytesSent")
	connABS := c.obj(fc, "connectionFlowControllerI", "AddBytesSent")
	c.cut(R, "pair:stream.AddBytesSent→base", &Cut{Fn: sABS, Target: isReturn, Barrier: CallsToArgs(baseABS, ParamV("n"))}, "stream-level accounting on all paths")
	c.cut(R, "pair:stream.AddBytesSent→connection", &Cut{Fn: sABS, Target: isReturn, Barrier: CallsToArgs(connABS, ParamV("n"))}, "connection-level accounting on all paths")
	bABS := c.fn(fc, "baseFlowController", "AddBytesSent")
	ws := c.checkWriters(R, bytesSent, c.set([3]string{fc, "baseFlowController", "AddBytesSent"}, [3]string{fc, "connectionFlowController", "Reset"}), 2)
	for _, w := range ws[funcObj(bABS)] {
		c.Check(BinV(token.ADD, Load(bytesSent), ParamV("n"))(w.Val), R, "shape:bytesSent+=n", c.P.InstrPos(w.Instr), "bytesSent grows by exactly n")
	}
}

func c04ReceiveSide(c *Ctx) {
	const R = "C04.3"
	receiveWindow := c.fld(fc, "baseFlowController", "receiveWindow")
	receiveWindowSize := c.fld(fc, "baseFlowController", "receiveWindowSize")
	bytesRead := c.fld(fc, "baseFlowController", "bytesRead")
	sendWindow := c.fld(fc, "baseFlowController", "sendWindow")
	highestReceived := c.fld(fc, "baseFlowController", "highestReceived")
	ctorS := [3]string{fc, "", "NewStreamFlowController"}
	ctorC := [3]string{fc, "", "NewConnectionFlowController"}

	// receiveWindow
	ws := c.checkWriters(R, receiveWindow, c.set(ctorS, ctorC, [3]string{fc, "baseFlowController", "getWindowUpdate"}), 3)
	gwu := c.fn(fc, "baseFlowController", "getWindowUpdate")
	for _, w := range ws[funcObj(gwu)] {
		c.Check(BinV(token.ADD, Load(bytesRead), Load(receiveWindowSize))(w.Val), R, "shape:receiveWindow=bytesRead+receiveWindowSize", c.P.InstrPos(w.Instr),
			"the advertised limit is only ever set to consumed bytes plus the current window")
	}
	// the value returned (and advertised) by getWindowUpdate is the stored limit or 0
	eachInstr(gwu, func(in ssa.Instruction) {
		if r, ok := in.(*ssa.Return); ok {
			c.Check(ConstI(0)(retResults(r)[0]) || Load(receiveWindow)(retResults(r)[0]) || BinV(token.ADD, Load(bytesRead), Load(receiveWindowSize))(retResults(r)[0]),
				R, "shape:getWindowUpdate returns receiveWindow|0", c.P.InstrPos(in), "advertised value equals the stored limit")
		}
	})

	// receiveWindowSize: grows only
	ws = c.checkWriters(R, receiveWindowSize, c.set(ctorS, ctorC, [3]string{fc, "baseFlowController", "maybeAdjustWindowSize"}, [3]string{fc, "connectionFlowController", "EnsureMinimumWindowSize"}), 4)
	for _, fnName := range [][3]string{{fc, "baseFlowController", "maybeAdjustWindowSize"}, {fc, "connectionFlowController", "EnsureMinimumWindowSize"}} {
		f := c.fn(fnName[0], fnName[1], fnName[2])
		for _, w := range ws[funcObj(f)] {
			val := w.Val
			grow := OrEdge(
				EdgeRel(Rel{Op: token.GTR, X: Same(val), Y: Load(receiveWindowSize)}, false),
				EdgeRel(Rel{Op: token.GTR, X: BinV(token.SUB, Same(val), Load(receiveWindowSize)), Y: ConstI(0)}, false))
			c.cut(R, "guard:receiveWindowSize grows only@"+fnName[2], &Cut{Fn: f, Target: func(i ssa.Instruction) bool { return i == w.Instr }, Edge: grow},
				"the window size is only replaced by a strictly larger value")
		}
	}

	// sendWindow: monotone
	ws = c.checkWriters(R, sendWindow, c.set(ctorS, [3]string{fc, "baseFlowController", "UpdateSendWindow"}, [3]string{fc, "connectionFlowController", "Reset"}), 3)
	usw := c.fn(fc, "baseFlowController", "UpdateSendWindow")
	for _, w := range ws[funcObj(usw)] {
		c.Check(ParamV("offset")(w.Val), R, "shape:sendWindow=offset", c.P.InstrPos(w.Instr), "the peer's limit is stored as received")
		c.cut(R, "guard:sendWindow monotone", &Cut{Fn: usw, Target: func(i ssa.Instruction) bool { return i == w.Instr },
			Edge: EdgeRel(Rel{Op: token.GTR, X: ParamV("offset"), Y: Load(sendWindow)}, false)}, "a MAX_*DATA frame can only raise the send window (reordered/duplicate ones are ignored)")
	}

	// highestReceived
	ws = c.checkWriters(R, highestReceived, c.set([3]string{fc, "streamFlowController", "UpdateHighestReceived"}, [3]string{fc, "connectionFlowController", "IncrementHighestReceived"}), 2)
	check := c.obj(fc, "baseFlowController", "checkFlowControlViolation")
	fce := c.konst("internal/qerr", "FlowControlError")
	fse := c.konst("internal/qerr", "FinalSizeError")
	for _, spec := range [][3]string{{fc, "streamFlowController", "UpdateHighestReceived"}, {fc, "connectionFlowController", "IncrementHighestReceived"}} {
		f := c.fn(spec[0], spec[1], spec[2])
		for _, w := range ws[funcObj(f)] {
			c.cut(R, "post:highestReceived→violation check@"+spec[2], &Cut{Fn: f,
				Start:  func(i ssa.Instruction) bool { return i == w.Instr },
				Target: ReturnOtherThan(ReturnsErrCode(fce)),
				Edge:   EdgeRel(BoolTrue(CallTo(check, -1)), true)},
				"after raising highestReceived every return either is FLOW_CONTROL_ERROR or lies on the checkFlowControlViolation()==false edge")
		}
	}
	uhr := c.fn(fc, "streamFlowController", "UpdateHighestReceived")
	for _, w := range ws[funcObj(uhr)] {
		c.Check(ParamV("offset")(w.Val), R, "shape:highestReceived=offset", c.P.InstrPos(w.Instr), "stream-level highest offset is the received offset")
		c.cut(R, "guard:highestReceived monotone", &Cut{Fn: uhr, Target: func(i ssa.Instruction) bool { return i == w.Instr },
			Edge: EdgeRel(Rel{Op: token.GEQ, X: ParamV("offset"), Y: Load(highestReceived)}, false)}, "highestReceived is only raised")
		// the connection-level increment is offset - old highestReceived, and is passed on
		inc := c.obj(fc, "connectionFlowControllerI", "IncrementHighestReceived")
		n := 0
		for _, in := range findInstrs(uhr, CallsTo(inc)) {
			n++
			arg := in.(ssa.CallInstruction).Common().Args[0]
			c.Check(BinV(token.SUB, ParamV("offset"), Load(highestReceived))(arg), R, "shape:increment=offset-highestReceived", c.P.InstrPos(in), "connection-level accounting receives exactly the stream's increase")
			// the subtraction must be computed before the store
			if b, ok := stripConv(arg).(*ssa.BinOp); ok {
				c.cut(R, "order:increment computed before store", &Cut{Fn: uhr, Start: func(i ssa.Instruction) bool { return i == w.Instr },
					Target: func(i ssa.Instruction) bool { return i == ssa.Instruction(b) }}, "old value is read before it is overwritten")
			}
		}
		c.Floor(R, "calls of connection.IncrementHighestReceived", n, 1)
	}
	ihr := c.fn(fc, "connectionFlowController", "IncrementHighestReceived")
	for _, w := range ws[funcObj(ihr)] {
		c.Check(BinV(token.ADD, Load(highestReceived), ParamV("increment"))(w.Val), R, "shape:conn.highestReceived+=increment", c.P.InstrPos(w.Instr), "connection-level highest offset grows by the increment")
	}
	// final size rules: three FINAL_SIZE_ERROR exits
	nFSE := countInstr(uhr, ReturnsErrCode(fse))
	c.Floor(R, "FINAL_SIZE_ERROR exits in UpdateHighestReceived", nFSE, 3)
	rfo := c.fld(fc, "streamFlowController", "receivedFinalOffset")
	// store highestReceived only when not (receivedFinalOffset && offset > highestReceived): the check precedes
	c.cut(R, "guard:final size known → offset beyond it rejected", &Cut{Fn: uhr,
		Target: StoresTo(highestReceived),
		Edge: OrEdge(EdgeRel(BoolTrue(Load(rfo)), true),
			EdgeRel(Rel{Op: token.LEQ, X: ParamV("offset"), Y: Load(highestReceived)}, false))},
		"with a known final size, highestReceived cannot be raised")

	// C04.4
	cf := c.fn(fc, "baseFlowController", "checkFlowControlViolation")
	c.returnsAll("C04.4", "shape:checkFlowControlViolation", cf, 0, BinV(token.GTR, Load(highestReceived), Load(receiveWindow)),
		"the first byte beyond the advertised limit is the violation (highestReceived > receiveWindow, not >=)")
}

func c04BytesRead(c *Ctx) {
	const R = "C04.5"
	bytesRead := c.fld(fc, "baseFlowController", "bytesRead")
	highestReceived := c.fld(fc, "baseFlowController", "highestReceived")
	ws := c.checkWriters(R, bytesRead, c.set([3]string{fc, "baseFlowController", "addBytesRead"}, [3]string{fc, "streamFlowController", "Abandon"}), 2)
	abr := c.fn(fc, "baseFlowController", "addBytesRead")
	for _, w := range ws[funcObj(abr)] {
		c.Check(BinV(token.ADD, Load(bytesRead), ParamV("n"))(w.Val), R, "shape:bytesRead+=n", c.P.InstrPos(w.Instr), "consumed bytes are added as given")
	}
	sABR := c.fn(fc, "streamFlowController", "AddBytesRead")
	baseABR := c.obj(fc, "baseFlowController", "addBytesRead")
	connABR := c.obj(fc, "connectionFlowControllerI", "AddBytesRead")
	c.cut(R, "pair:stream.AddBytesRead→base", &Cut{Fn: sABR, Target: isReturn, Barrier: CallsToArgs(baseABR, ParamV("n"))}, "stream-level consumption recorded on all paths")
	c.cut(R, "pair:stream.AddBytesRead→connection", &Cut{Fn: sABR, Target: isReturn, Barrier: CallsToArgs(connABR, ParamV("n"))}, "connection-level credit returned on all paths")
	c.Check(countInstr(sABR, CallsTo(connABR)) == 1 && countInstr(sABR, CallsTo(baseABR)) == 1, R, "once:stream.AddBytesRead", c.P.Pos(sABR.Pos()), "exactly one call each (credit returned exactly once)")

	ab := c.fn(fc, "streamFlowController", "Abandon")
	for _, w := range ws[funcObj(ab)] {
		c.Check(Load(highestReceived)(w.Val), R, "shape:Abandon bytesRead=highestReceived", c.P.InstrPos(w.Instr), "abandoning marks everything received as consumed")
		calls := findInstrs(ab, CallsTo(connABR))
		c.Check(len(calls) == 1, R, "once:Abandon→connection.AddBytesRead", c.P.Pos(ab.Pos()), "exactly one hand-back of the unread bytes")
		for _, in := range calls {
			arg := in.(ssa.CallInstruction).Common().Args[0]
			okArg := BinV(token.SUB, Load(highestReceived), Load(bytesRead))(arg)
			c.Check(okArg, R, "shape:unread=highestReceived-bytesRead", c.P.InstrPos(in), "the credit handed back is what was received but not read")
			if b, ok := stripConv(arg).(*ssa.BinOp); ok {
				c.cut(R, "order:unread computed before bytesRead store", &Cut{Fn: ab, Start: func(i ssa.Instruction) bool { return i == w.Instr },
					Target: func(i ssa.Instruction) bool { return i == ssa.Instruction(b) }}, "the difference is taken before bytesRead is overwritten (second Abandon is then a no-op)")
			}
			// reached on unread > 0; and not reachable-around: after the store, every path to return passes the call or the unread<=0 edge
			c.cut(R, "pair:Abandon store→hand-back", &Cut{Fn: ab, Start: func(i ssa.Instruction) bool { return i == w.Instr }, Target: isReturn,
				Barrier: func(i ssa.Instruction) bool { return i == in },
				Edge:    EdgeRel(Rel{Op: token.LEQ, X: Same(arg), Y: ConstI(0)}, false)}, "unread bytes are handed back unless there are none")
		}
	}

	// receive stream: Abandon on each early-termination path
	abI := c.obj(fc, "StreamFlowController", "Abandon")
	isNC := c.obj("", "ReceiveStream", "isNewlyCompleted")
	// every sibling that can complete the receive side (calls isNewlyCompleted) abandons on completion;
	// the list of siblings is taken from the code, the exceptions are frozen with their reason
	completionExceptions := map[string]string{
		"Read": "completion after Read means the error (io.EOF or the reset error) was read: at EOF every byte was consumed, and readImpl abandons as soon as a remote cancellation becomes effective (checked below)",
		"Peek": "Peek never completes a stream by itself; same argument as Read",
	}
	nSib := 0
	for _, cs := range c.P.CallSites(isNC) {
		f := rootFn(cs.Fn)
		m := f.Name()
		if f.Signature.Recv() == nil {
			continue
		}
		if n := namedOf(f.Signature.Recv().Type()); n == nil || n.Obj().Name() != "ReceiveStream" {
			continue
		}
		nSib++
		if why, ok := completionExceptions[m]; ok {
			c.OK(R, "abandon-on-completion@"+m, c.P.InstrPos(cs.Instr), "exception: "+why)
			continue
		}
		// past the isNewlyCompleted()==true edge every path to return calls Abandon
		q := &Cut{Fn: f, Target: isReturn, Barrier: CallsTo(abI),
			Edge: EdgeRel(BoolTrue(CallTo(isNC, -1)), true)}
		c.cut(R, "abandon-on-completion@"+m, q, "when the receive side completes here, unread bytes are returned to the connection window (a stream cancelled locally may be completed by any later frame that reveals the final size)")
	}
	c.Floor(R, "receive-stream methods that can complete the stream", nSib, 4)
	// remote reset: Abandon once reliable data was read
	hrs := c.fn("", "ReceiveStream", "handleResetStreamFrameImpl")
	readPos := c.fld("", "ReceiveStream", "readPos")
	reliableSize := c.fld("", "ReceiveStream", "reliableSize")
	uhrI := c.obj(fc, "StreamFlowController", "UpdateHighestReceived")
	c.cut(R, "abandon-on-reset", &Cut{Fn: hrs, Start: CallsTo(uhrI), Target: ReturnsMaybeNilErr(0), Barrier: CallsTo(abI),
		Edge: EdgeRel(Rel{Op: token.LSS, X: Load(readPos), Y: Load(reliableSize)}, false)},
		"a RESET_STREAM whose final size was accepted abandons the stream unless reliable data is still unread")
	ri := c.fn("", "ReceiveStream", "readImpl")
	irce := c.obj("", "ReceiveStream", "isRemoteCancellationEffective")
	c.Floor(R, "Abandon call in readImpl", countInstr(ri, CallsTo(abI)), 1)
	c.Floor(R, "isRemoteCancellationEffective tests in readImpl", countInstr(ri, CallsTo(irce)), 4)
	// AddBytesRead in readImpl carries the copied length
	abrI := c.obj(fc, "StreamFlowController", "AddBytesRead")
	for _, in := range findInstrs(ri, CallsTo(abrI)) {
		var isCopy VP
		isCopy = func(v ssa.Value) bool {
			cl, ok := stripConv(v).(*ssa.Call)
			if ok && builtinName(&cl.Call) == "copy" {
				return true
			}
			return throughParam(v, isCopy)
		}
		c.Check(isCopy(in.(ssa.CallInstruction).Common().Args[0]), R, "shape:AddBytesRead(copy(...))", c.P.InstrPos(in), "the consumed amount reported is the number of bytes copied to the caller")
	}
	c.checkCallers(R, abrI, c.set([3]string{"", "ReceiveStream", "readImpl"}), 1)
}

func c04Blocked(c *Ctx) {
	const R = "C04.6"
	lastBlockedAt := c.fld(fc, "baseFlowController", "lastBlockedAt")
	sendWindow := c.fld(fc, "baseFlowController", "sendWindow")
	ws := c.checkWriters(R, lastBlockedAt, c.set([3]string{fc, "baseFlowController", "IsNewlyBlocked"}, [3]string{fc, "connectionFlowController", "Reset"}), 2)
	inb := c.fn(fc, "baseFlowController", "IsNewlyBlocked")
	sws := c.obj(fc, "baseFlowController", "SendWindowSize")
	for _, w := range ws[funcObj(inb)] {
		c.Check(Load(sendWindow)(w.Val), R, "shape:lastBlockedAt=sendWindow", c.P.InstrPos(w.Instr), "the limit at which BLOCKED was reported is remembered")
		c.cut(R, "guard:window exhausted", &Cut{Fn: inb, Target: func(i ssa.Instruction) bool { return i == w.Instr },
			Edge: EdgeRel(Rel{Op: token.EQL, X: CallTo(sws, -1), Y: ConstI(0)}, false)}, "blocked only when the send window is exhausted")
		c.cut(R, "guard:once per limit", &Cut{Fn: inb, Target: func(i ssa.Instruction) bool { return i == w.Instr },
			Edge: EdgeRel(Rel{Op: token.NEQ, X: Load(sendWindow), Y: Load(lastBlockedAt)}, false)}, "blocked reported at most once per limit")
	}
	// returns true only after the store
	c.cut(R, "pair:true result ↔ store", &Cut{Fn: inb, Target: func(i ssa.Instruction) bool {
		r, ok := i.(*ssa.Return)
		if !ok {
			return false
		}
		k, isK := retResults(r)[0].(*ssa.Const)
		return !(isK && k.Value != nil && k.Value.String() == "false")
	}, Barrier: StoresTo(lastBlockedAt)}, "a true result is only returned after remembering the limit")

	// frame construction sites
	for _, spec := range []struct {
		frame  string
		fn     [3]string
		method [3]string
		tuple  int
	}{
		{"StreamDataBlockedFrame", [3]string{"", "SendStream", "popNewOrRetransmittedStreamFrame"}, [3]string{fc, "StreamFlowController", "IsNewlyBlocked"}, -1},
		{"DataBlockedFrame", [3]string{"", "framer", "Append"}, [3]string{fc, "ConnectionFlowController", "IsNewlyBlocked"}, 0},
	} {
		tn := c.named("internal/wire", spec.frame)
		m := c.obj(spec.method[0], spec.method[1], spec.method[2])
		allowed := c.set(spec.fn)
		n := 0
		for _, f := range c.P.ScopeFuncs() {
			if funcPkgPath(f) == pkgPathOf("internal/wire") {
				continue // the parser builds frames from the wire
			}
			eachInstr(f, func(in ssa.Instruction) {
				al, ok := in.(*ssa.Alloc)
				if !ok || namedOf(al.Type()) == nil || namedOf(al.Type()).Obj() != tn {
					return
				}
				n++
				if !c.Check(allowed.has(f), R, "site:"+spec.frame+"@"+funcName(rootFn(f)), c.P.InstrPos(in), "BLOCKED frames are built only where IsNewlyBlocked is consulted") {
					return
				}
				c.cut(R, "guard:"+spec.frame+" under IsNewlyBlocked", &Cut{Fn: f, Target: func(i ssa.Instruction) bool { return i == in },
					Edge: EdgeRel(BoolTrue(CallTo(m, spec.tuple)), false)}, "the frame is only built on the IsNewlyBlocked()==true edge")
			})
		}
		c.Floor(R, spec.frame+" construction sites", n, 1)
	}
}

// c04InitialSendWindow: the initial send window of a new stream is the peer's limit for that kind of stream.
func c04InitialSendWindow(c *Ctx) {
	const R = "C04.1"
	f := c.fn("", "Conn", "newFlowController")
	nsfc := c.obj(fc, "", "NewStreamFlowController")
	tp := "internal/wire"
	uni := c.fld(tp, "TransportParameters", "InitialMaxStreamDataUni")
	remote := c.fld(tp, "TransportParameters", "InitialMaxStreamDataBidiRemote")
	local := c.fld(tp, "TransportParameters", "InitialMaxStreamDataBidiLocal")
	persp := c.fld("", "Conn", "perspective")
	initBy := c.obj("internal/protocol", "StreamID", "InitiatedBy")
	calls := findInstrs(f, CallsTo(nsfc))
	c.Floor(R, "NewStreamFlowController calls", len(calls), 1)
	own := Rel{Op: token.EQL, X: CallTo(initBy, -1), Y: Load(persp)}
	for _, in := range calls {
		arg := in.(ssa.CallInstruction).Common().Args[4]
		ph, ok := arg.(*ssa.Phi)
		if !c.Check(ok, R, "shape:initial send window selected by stream kind", c.P.InstrPos(in), "the window is chosen per stream type and initiator") {
			continue
		}
		seen := map[string]bool{}
		var walk func(v ssa.Value, pred *ssa.BasicBlock)
		walk = func(v ssa.Value, pred *ssa.BasicBlock) {
			if p2, ok := v.(*ssa.Phi); ok {
				for k, e := range p2.Edges {
					walk(e, p2.Block().Preds[k])
				}
				return
			}
			blk := pred
			if in2, ok := v.(ssa.Instruction); ok {
				blk = in2.Block()
			}
			switch {
			case Load(remote)(v):
				seen["remote"] = true
				c.Check(blockOnEdge(blk, own) || dominatedByEdge(blk, own, false), R, "select:self-initiated bidi stream → peer's initial_max_stream_data_bidi_remote", c.P.InstrPos(in), "a stream we open is 'remote' from the peer's point of view")
			case Load(local)(v):
				seen["local"] = true
				c.Check(dominatedByEdge(blk, own, true) || func() bool {
					// entered through the != edge
					return len(blk.Preds) == 1 && !blockOnEdge(blk, own)
				}(), R, "select:peer-initiated bidi stream → peer's initial_max_stream_data_bidi_local", c.P.InstrPos(in), "a stream the peer opened is 'local' from its point of view")
			case Load(uni)(v):
				seen["uni"] = true
			default:
				c.Bad(R, "select:unknown initial send window source", c.P.InstrPos(in), "unexpected value")
			}
		}
		walk(ph, nil)
		c.Check(seen["remote"] && seen["local"] && seen["uni"], R, "select:all three peer limits used", c.P.InstrPos(in), "uni / bidi-local / bidi-remote")
	}
}

func c04WindowUpdates(c *Ctx) {
	const R = "C04.7"
	for _, spec := range []struct {
		frame, field string
		fn           [3]string
		method       [3]string
	}{
		{"MaxDataFrame", "MaximumData", [3]string{"", "Conn", "maybeSendWindowUpdates"}, [3]string{fc, "ConnectionFlowController", "GetWindowUpdate"}},
		{"MaxStreamDataFrame", "MaximumStreamData", [3]string{"", "ReceiveStream", "getControlFrame"}, [3]string{fc, "StreamFlowController", "GetWindowUpdate"}},
	} {
		tn := c.named("internal/wire", spec.frame)
		fld := c.fld("internal/wire", spec.frame, spec.field)
		m := c.obj(spec.method[0], spec.method[1], spec.method[2])
		n := 0
		for _, f := range c.P.ScopeFuncs() {
			if funcPkgPath(f) == pkgPathOf("internal/wire") {
				continue
			}
			eachInstr(f, func(in ssa.Instruction) {
				al, ok := in.(*ssa.Alloc)
				if !ok || namedOf(al.Type()) == nil || namedOf(al.Type()).Obj() != tn {
					return
				}
				n++
				// find the store to the limit field of this alloc
				found := false
				for _, r := range *al.Referrers() {
					fa, ok := r.(*ssa.FieldAddr)
					if !ok || fieldOfAddr(fa) != fld {
						continue
					}
					for _, rr := range *fa.Referrers() {
						if st, ok := rr.(*ssa.Store); ok {
							found = true
							c.Check(CallTo(m, -1)(st.Val), R, "origin:"+spec.frame+"."+spec.field+"=GetWindowUpdate()@"+funcName(rootFn(f)), c.P.InstrPos(st),
								"the advertised limit is the flow controller's window update computed when the frame is created")
						}
					}
				}
				c.Check(found, R, "origin:"+spec.frame+" sets "+spec.field+"@"+funcName(rootFn(f)), c.P.InstrPos(in), "the frame's limit field is set")
			})
		}
		c.Floor(R, spec.frame+" construction sites", n, 1)
	}
}
