package main

// LOCK — lockset analysis: which mutex fields are held at each instruction.
//
// Intra-procedural forward dataflow over the SSA CFG; the lattice element is the set of mutex fields
// (identified by their *types.Var) that are held on EVERY path to the point (intersection at joins).
// `defer m.Unlock()` keeps m held until the function returns. A method whose every call site in the module
// holds m is summarised "entered with m held" (fixpoint over the call graph, Min et al.).

import (
	"go/types"
	"sort"

	"golang.org/x/tools/go/ssa"
)

type lockSet map[*types.Var]bool

func (a lockSet) clone() lockSet {
	b := lockSet{}
	for k := range a {
		b[k] = true
	}
	return b
}

func (a lockSet) equal(b lockSet) bool {
	if len(a) != len(b) {
		return false
	}
	for k := range a {
		if !b[k] {
			return false
		}
	}
	return true
}

func intersect(a, b lockSet) lockSet {
	c := lockSet{}
	for k := range a {
		if b[k] {
			c[k] = true
		}
	}
	return c
}

// mutexOp classifies a call as Lock/Unlock (incl. RLock/RUnlock) on a mutex that is a struct field.
func mutexOp(in ssa.Instruction) (field *types.Var, op string) {
	ci, ok := in.(ssa.CallInstruction)
	if !ok {
		return nil, ""
	}
	o := calleeObj(ci.Common())
	if o == nil || o.Pkg() == nil || o.Pkg().Path() != "sync" || len(ci.Common().Args) == 0 {
		return nil, ""
	}
	switch o.Name() {
	case "Lock", "RLock":
		op = "lock"
	case "Unlock", "RUnlock":
		op = "unlock"
	default:
		return nil, ""
	}
	fa, ok := ci.Common().Args[0].(*ssa.FieldAddr)
	if !ok {
		return nil, ""
	}
	return fieldOfAddr(fa), op
}

type lockInfo struct {
	// held before each instruction
	At map[ssa.Instruction]lockSet
}

// locksIn computes the lockset before every instruction of f, given the set held on entry.
func locksIn(f *ssa.Function, entry lockSet) *lockInfo {
	info := &lockInfo{At: map[ssa.Instruction]lockSet{}}
	if len(f.Blocks) == 0 {
		return info
	}
	in := map[*ssa.BasicBlock]lockSet{}
	in[f.Blocks[0]] = entry.clone()
	work := []*ssa.BasicBlock{f.Blocks[0]}
	seen := map[*ssa.BasicBlock]bool{}
	for len(work) > 0 {
		b := work[0]
		work = work[1:]
		cur := in[b].clone()
		for _, instr := range b.Instrs {
			info.At[instr] = cur.clone()
			if fld, op := mutexOp(instr); fld != nil {
				if _, isDefer := instr.(*ssa.Defer); isDefer {
					continue // released at return: stays held for the rest of the function
				}
				if _, isGo := instr.(*ssa.Go); isGo {
					continue
				}
				if op == "lock" {
					cur[fld] = true
				} else {
					delete(cur, fld)
				}
			}
		}
		for _, s := range b.Succs {
			old, ok := in[s]
			var nw lockSet
			if !ok {
				nw = cur.clone()
			} else {
				nw = intersect(old, cur)
			}
			if !ok || !nw.equal(old) || !seen[s] {
				in[s] = nw
				if !ok || !nw.equal(old) || !seen[s] {
					seen[s] = true
					work = append(work, s)
				}
			}
		}
	}
	return info
}

// fieldAccess is one load or store of a struct field.
type fieldAccess struct {
	Fn    *ssa.Function
	Instr ssa.Instruction
	Field *types.Var
	Write bool
	Held  lockSet
}

// lockAnalysis runs the lockset dataflow over all scope functions with entry summaries.
func (p *Prog) lockAnalysis(inScope func(string) bool) []fieldAccess {
	var fns []*ssa.Function
	for _, f := range p.ScopeFuncs() {
		if inScope(funcPkgPath(f)) {
			fns = append(fns, f)
		}
	}
	entry := map[*ssa.Function]lockSet{}
	// call sites per callee (static calls only; closures inherit nothing)
	type site struct {
		caller *ssa.Function
		instr  ssa.Instruction
	}
	callers := map[*ssa.Function][]site{}
	for _, f := range fns {
		eachInstr(f, func(in ssa.Instruction) {
			ci, ok := in.(ssa.CallInstruction)
			if !ok {
				return
			}
			if _, isGo := in.(*ssa.Go); isGo {
				return
			}
			if _, isDefer := in.(*ssa.Defer); isDefer {
				return
			}
			if sc := ci.Common().StaticCallee(); sc != nil && sc.Blocks != nil {
				callers[sc] = append(callers[sc], site{f, in})
			}
		})
	}
	infos := map[*ssa.Function]*lockInfo{}
	for iter := 0; iter < 6; iter++ {
		for _, f := range fns {
			e := entry[f]
			if e == nil {
				e = lockSet{}
			}
			infos[f] = locksIn(f, e)
		}
		changed := false
		for _, f := range fns {
			// unexported functions/methods only; exported ones can be called from anywhere
			if f.Object() == nil || f.Object().Exported() || f.Parent() != nil {
				continue
			}
			cs := callers[f]
			if len(cs) == 0 {
				continue
			}
			var common lockSet
			for _, s := range cs {
				h := infos[s.caller].At[s.instr]
				if common == nil {
					common = h.clone()
				} else {
					common = intersect(common, h)
				}
			}
			// a function used as a value (callback) may be called without the lock
			if usedAsValue(f) {
				common = lockSet{}
			}
			if !common.equal(entryOr(entry[f])) {
				entry[f] = common
				changed = true
			}
		}
		if !changed {
			break
		}
	}
	var out []fieldAccess
	for _, f := range fns {
		info := infos[f]
		eachInstr(f, func(in ssa.Instruction) {
			switch x := in.(type) {
			case *ssa.Store:
				if fa, ok := x.Addr.(*ssa.FieldAddr); ok {
					out = append(out, fieldAccess{f, in, fieldOfAddr(fa), true, info.At[in]})
				}
			case *ssa.UnOp:
				if fa, ok := x.X.(*ssa.FieldAddr); ok {
					out = append(out, fieldAccess{f, in, fieldOfAddr(fa), false, info.At[in]})
				}
			case *ssa.MapUpdate:
				if u, ok := x.Map.(*ssa.UnOp); ok {
					if fa, ok := u.X.(*ssa.FieldAddr); ok {
						out = append(out, fieldAccess{f, in, fieldOfAddr(fa), true, info.At[in]})
					}
				}
			}
		})
	}
	sort.SliceStable(out, func(i, j int) bool { return out[i].Field.Name() < out[j].Field.Name() })
	return out
}

func entryOr(l lockSet) lockSet {
	if l == nil {
		return lockSet{}
	}
	return l
}

func usedAsValue(f *ssa.Function) bool {
	refs := f.Referrers()
	if refs == nil {
		return false
	}
	for _, r := range *refs {
		ci, ok := r.(ssa.CallInstruction)
		if !ok {
			return true
		}
		if ci.Common().Value != ssa.Value(f) {
			return true // passed as an argument
		}
	}
	return false
}
