package main

import (
	"go/token"
	"go/types"

	"golang.org/x/tools/go/ssa"
)

func init() { register("C13", runC13) }

type namedEdge struct {
	name string
	e    func(*ssa.If, int) bool
}

// passAll: every path to target passes each guard edge (one cut per guard).
func (c *Ctx) passAll(rule, what string, fn *ssa.Function, target IP, guards []namedEdge, why string) {
	c.Floor(rule, "targets: "+what, countInstr(fn, target), 1)
	for _, g := range guards {
		c.cut(rule, "guard:"+what+" beyond "+g.name, &Cut{Fn: fn, Target: target, Edge: g.e}, why+" ("+g.name+")")
	}
}

func runC13(c *Ctx) {
	c.Clause("C13.1 Retry: every state change lies beyond all five rejections (server, packet already received, unchanged SCID, Retry already received, integrity tag mismatch); the tag is computed over the packet minus its last 16 bytes with the current destination connection ID and the header's version")
	c.Clause("C13.2 Version Negotiation: recreation/destroy only beyond server / first-packet / Retry-processed / already-negotiated / parse-error / offered-version-listed rejections")
	c.Clause("C13.3 peer transport parameters are stored only after connection-ID authentication (ISCID, ODCID, Retry SCID both ways); unexpected-SCID Initials, client-side 0-RTT and wrong-version long headers are dropped before unpacking")
	c.Clause("C13.4 run loop: the blocking select has close and timer cases; handshake timeout and idle checks reach destroyImpl")
	c.Clause("C13.5 0-RTT rejection resets streams map, framer, connection flow controller and sent-packet state")
	c.Clause("C13.6 ResetForRetry requeues the outstanding 0-RTT packets on every path")
	c.Clause("C13.12 a spec-built Initial packet travels alone: nothing is appended behind it and no other payload is taken on a path that builds it")
	c.Clause("C13.11 PopulateFromUQUIC stores nothing of the connection into the shared spec's transport-parameter slice (a spec serves many connections, incl. the re-dial after Version Negotiation)")
	c.Clause("C13.10 DropPackets(0-RTT): every packet taken out of bytes in flight is also removed from the history")
	c.Clause("C13.9 every change of Conn.handshakeDestConnID (Retry, first Handshake packet, corrupted first Initial) is followed by connIDManager.ChangeInitialConnID")
	c.Clause("C13.8 PackCoalescedPacket is called only on the !handshakeConfirmed edge (the repository's stated precondition)")
	c.Clause("C13.7 the functions that first touch a received datagram (transport, server, connection, unpacker entry points) have no out-of-bounds index/slice and no peer-reachable explicit panic: compiler-proven, length fact, or one of 5 frozen exceptions")
	c.NotCovered("convergence of both endpoints; exactly-once delivery of accepted 0-RTT data")
	c.NotCovered("timing of the handshake timeouts")

	c.rule("C13.1", func() { c13Retry(c) })
	c.rule("C13.2", func() { c13VN(c) })
	c.rule("C13.3", func() { c13TP(c) })
	c.rule("C13.4", func() { c13Run(c) })
	c.rule("C13.5", func() { c13ZeroRTT(c) })
	c.rule("C13.6", func() { c13RetryRequeues0RTT(c) })
	c.rule("C13.7", func() { c13ReceiveBounds(c) })
	c.rule("C13.8", func() { c13CoalescedOnlyBeforeConfirmation(c) })
	c.rule("C13.9", func() { c01HandshakeDestConnIDPair(c, "C13.9") })
	c.rule("C13.10", func() { c13Rejected0RTTRemoved(c) })
	c.rule("C13.11", func() { c13SpecNotWrittenPerConnection(c) })
	c.rule("C13.12", func() { c13SpecInitialTravelsAlone(c) })
}

func c13Retry(c *Ctx) {
	const R = "C13.1"
	f := c.fn("", "Conn", "handleRetryPacket")
	persp := c.fld("", "Conn", "perspective")
	rfp := c.fld("", "Conn", "receivedFirstPacket")
	rr := c.fld("", "Conn", "receivedRetry")
	hdc := c.fld("", "Conn", "handshakeDestConnID")
	rsc := c.fld("", "Conn", "retrySrcConnID")
	srv := c.konst("internal/protocol", "PerspectiveServer")
	scid := c.fld("internal/wire", "Header", "SrcConnectionID")
	ver := c.fld("internal/wire", "Header", "Version")
	get := c.obj("", "connIDManager", "Get")
	beq := c.obj("bytes", "", "Equal")
	tagFn := c.obj(hsk, "", "GetRetryIntegrityTag")
	resetForRetry := c.obj(ah, "SentPacketHandler", "ResetForRetry")
	changeCID := c.obj("", "cryptoStreamHandler", "ChangeConnectionID")
	setToken := c.obj("", "packer", "SetToken")
	changeInit := c.obj("", "connIDManager", "ChangeInitialConnID")

	effects := OrIP(StoresTo(rr, hdc, rsc), CallsTo(resetForRetry, changeCID, setToken, changeInit))
	guards := []namedEdge{
		{"not server", EdgeRel(Rel{Op: token.EQL, X: Load(persp), Y: ConstOf(srv)}, true)},
		{"no packet received yet", EdgeRel(BoolTrue(Load(rfp)), true)},
		{"SCID changed", EdgeRel(Rel{Op: token.EQL, X: Load(scid), Y: CallTo(get, -1)}, true)},
		{"no Retry received yet", EdgeRel(BoolTrue(Load(rr)), true)},
		{"integrity tag matches", EdgeRel(BoolTrue(CallTo(beq, -1)), false)},
	}
	c.passAll(R, "Retry state changes", f, effects, guards, "a Retry takes effect only when none of the rejection conditions holds")
	c.Floor(R, "Retry effects", countInstr(f, effects), 7)
	// valid-Retry result only after the state change
	c.cut(R, "pair:true result ⇒ Retry applied", &Cut{Fn: f, Target: func(i ssa.Instruction) bool {
		r, ok := i.(*ssa.Return)
		return ok && !isConstBool(retResults(r)[0], false)
	}, Barrier: StoresTo(rr)}, "`true` is returned only after the Retry was applied")
	// tag computation operands
	for _, in := range findInstrs(f, CallsTo(tagFn)) {
		a := in.(ssa.CallInstruction).Common().Args
		sl, ok := a[0].(*ssa.Slice)
		ok = ok && ParamV("data")(sl.X) && sl.Low == nil && sl.High != nil && BinV(token.SUB, LenOf(ParamV("data")), ConstI(16))(sl.High)
		c.Check(ok, R, "shape:tag over data[:len-16]", c.P.InstrPos(in), "the integrity tag covers the Retry packet without its trailing tag")
		c.Check(CallTo(get, -1)(a[1]), R, "shape:tag uses current destination connection ID", c.P.InstrPos(in), "the ODCID input of the tag is the connection ID the client used")
		c.Check(Load(ver)(a[2]), R, "shape:tag uses the header's version", c.P.InstrPos(in), "version-specific key/nonce")
	}
	c.Floor(R, "GetRetryIntegrityTag calls", countInstr(f, CallsTo(tagFn)), 1)
	for _, in := range findInstrs(f, CallsTo(beq)) {
		a := in.(ssa.CallInstruction).Common().Args
		isTail := func(v ssa.Value) bool {
			sl, ok := v.(*ssa.Slice)
			return ok && ParamV("data")(sl.X) && sl.High == nil && sl.Low != nil && BinV(token.SUB, LenOf(ParamV("data")), ConstI(16))(sl.Low)
		}
		isTag := func(v ssa.Value) bool {
			sl, ok := v.(*ssa.Slice)
			if !ok {
				return false
			}
			if CallTo(tagFn, -1)(sl.X) {
				return sl.Low == nil && sl.High == nil
			}
			// slice of a local holding the tag call's result
			al, ok := sl.X.(*ssa.Alloc)
			if !ok || al.Referrers() == nil {
				return false
			}
			for _, r := range *al.Referrers() {
				if st, ok := r.(*ssa.Store); ok && st.Addr == al && CallTo(tagFn, -1)(st.Val) {
					return true
				}
			}
			return false
		}
		c.Check((isTail(a[0]) && isTag(a[1])) || (isTail(a[1]) && isTag(a[0])), R, "shape:bytes.Equal(data[len-16:], tag)", c.P.InstrPos(in), "the received tag is compared with the computed one, all 16 bytes")
	}
	// who may call handleRetryPacket
	c.checkCallers(R, c.obj("", "Conn", "handleRetryPacket"), c.set([3]string{"", "Conn", "handleLongHeaderPacket"}), 1)
}

func c13VN(c *Ctx) {
	const R = "C13.2"
	f := c.fn("", "Conn", "handleVersionNegotiationPacket")
	persp := c.fld("", "Conn", "perspective")
	rfp := c.fld("", "Conn", "receivedFirstPacket")
	vn := c.fld("", "Conn", "versionNegotiated")
	version := c.fld("", "Conn", "version")
	srv := c.konst("internal/protocol", "PerspectiveServer")
	parse := c.obj("internal/wire", "", "ParseVersionNegotiationPacket")
	destroy := c.obj("", "Conn", "destroyImpl")
	recreate := c.named("", "errCloseForRecreating")
	contains := func(v ssa.Value) bool {
		cl, ok := stripConv(v).(*ssa.Call)
		if !ok {
			return false
		}
		o := calleeObj(&cl.Call)
		return o != nil && o.Name() == "Contains" && o.Pkg().Path() == "slices" && CallTo(parse, 2)(cl.Call.Args[0]) && Load(version)(cl.Call.Args[1])
	}
	effects := OrIP(CallsTo(destroy), func(i ssa.Instruction) bool {
		al, ok := i.(*ssa.Alloc)
		return ok && namedOf(al.Type()) != nil && namedOf(al.Type()).Obj() == recreate
	})
	guards := []namedEdge{
		{"not server", EdgeRel(Rel{Op: token.EQL, X: Load(persp), Y: ConstOf(srv)}, true)},
		{"no packet received yet", EdgeRel(BoolTrue(Load(rfp)), true)},
		{"no Retry processed yet", EdgeRel(BoolTrue(Load(c.fld("", "Conn", "receivedRetry"))), true)},
		{"version not yet negotiated", EdgeRel(BoolTrue(Load(vn)), true)},
		{"packet parsed", EdgeRel(Rel{Op: token.EQL, X: CallTo(parse, 3), Y: IsNil()}, false)},
		{"offered version not listed", EdgeRel(BoolTrue(contains), true)},
	}
	c.passAll(R, "VN effects", f, effects, guards, "a Version Negotiation packet changes the outcome only when none of the rejection conditions holds")
	c.Floor(R, "VN effects", countInstr(f, effects), 2)
	// any non-nil error return is the recreation error
	c.cut(R, "pair:error result ⇒ recreation", &Cut{Fn: f, Target: func(i ssa.Instruction) bool {
		r, ok := i.(*ssa.Return)
		return ok && !IsNil()(retResults(r)[0])
	}, Barrier: func(i ssa.Instruction) bool {
		al, ok := i.(*ssa.Alloc)
		return ok && namedOf(al.Type()) != nil && namedOf(al.Type()).Obj() == recreate
	}}, "the only error this handler returns is the recreation request")
}

func c13TP(c *Ctx) {
	const R = "C13.3"
	f := c.fn("", "Conn", "handleTransportParameters")
	pp := c.fld("", "Conn", "peerParams")
	check := c.obj("", "Conn", "checkTransportParameters")
	apply := c.obj("", "Conn", "applyTransportParameters")
	tpe := c.konst("internal/qerr", "TransportParameterError")
	okEdge := EdgeRel(Rel{Op: token.EQL, X: CallTo(check, -1, ParamV("params")), Y: IsNil()}, false)
	c.passAll(R, "peerParams store / apply", f, OrIP(StoresTo(pp), CallsTo(apply)), []namedEdge{{"connection IDs authenticated", okEdge}},
		"the peer's parameters are adopted only after checkTransportParameters succeeded")
	c.cut(R, "guard:authentication failure → TRANSPORT_PARAMETER_ERROR", &Cut{Fn: f, Target: ReturnOtherThan(ReturnsErrCode(tpe)), Edge: okEdge},
		"with the success edge removed only TRANSPORT_PARAMETER_ERROR remains")
	// who may write peerParams
	c.checkWriters(R, pp, c.set([3]string{"", "Conn", "handleTransportParameters"}, [3]string{"", "Conn", "restoreTransportParameters"}), 2)

	ck := c.fn("", "Conn", "checkTransportParameters")
	persp := c.fld("", "Conn", "perspective")
	srv := c.konst("internal/protocol", "PerspectiveServer")
	hdc := c.fld("", "Conn", "handshakeDestConnID")
	odc := c.fld("", "Conn", "origDestConnID")
	rsc := c.fld("", "Conn", "retrySrcConnID")
	tp := "internal/wire"
	iscid := c.fld(tp, "TransportParameters", "InitialSourceConnectionID")
	odcid := c.fld(tp, "TransportParameters", "OriginalDestinationConnectionID")
	rscid := c.fld(tp, "TransportParameters", "RetrySourceConnectionID")
	success := ReturnsMaybeNilErr(0)
	isServer := EdgeRel(Rel{Op: token.EQL, X: Load(persp), Y: ConstOf(srv)}, false)
	deref := func(fl *types.Var) VP {
		return func(v ssa.Value) bool {
			u, ok := stripConv(v).(*ssa.UnOp)
			return ok && u.Op == token.MUL && Load(fl)(u.X)
		}
	}
	c.Floor(R, "success returns of checkTransportParameters", countInstr(ck, success), 2)
	c.cut(R, "auth:initial_source_connection_id", &Cut{Fn: ck, Target: success, Edge: EdgeRel(Rel{Op: token.EQL, X: Load(iscid), Y: Load(hdc)}, false)},
		"success requires initial_source_connection_id == the peer's handshake connection ID")
	c.cut(R, "auth:original_destination_connection_id (client)", &Cut{Fn: ck, Target: success, Edge: OrEdge(isServer, EdgeRel(Rel{Op: token.EQL, X: Load(odcid), Y: Load(odc)}, false))},
		"a client additionally requires original_destination_connection_id == the first destination connection ID")
	c.cut(R, "auth:retry_source_connection_id present and equal after Retry (client)", &Cut{Fn: ck, Target: success,
		Edge: OrEdge(isServer, EdgeRel(Rel{Op: token.EQL, X: Load(rsc), Y: IsNil()}, false), EdgeRel(Rel{Op: token.EQL, X: deref(rscid), Y: deref(rsc)}, false))},
		"after a Retry, success requires retry_source_connection_id to equal the Retry's source connection ID")
	c.cut(R, "auth:retry_source_connection_id absent without Retry (client)", &Cut{Fn: ck, Target: success,
		Edge: OrEdge(isServer, EdgeRel(Rel{Op: token.NEQ, X: Load(rsc), Y: IsNil()}, false), EdgeRel(Rel{Op: token.EQL, X: Load(rscid), Y: IsNil()}, false))},
		"without a Retry, success requires retry_source_connection_id to be absent")
	// deref guarded by presence
	c.cut(R, "auth:missing retry_source_connection_id rejected before use", &Cut{Fn: ck, Target: func(i ssa.Instruction) bool {
		u, ok := i.(*ssa.UnOp)
		return ok && u.Op == token.MUL && Load(rscid)(u.X)
	}, Edge: EdgeRel(Rel{Op: token.NEQ, X: Load(rscid), Y: IsNil()}, false)}, "the parameter is dereferenced only when present")

	// handleLongHeaderPacket drops
	lh := c.fn("", "Conn", "handleLongHeaderPacket")
	unpack := c.obj("", "unpacker", "UnpackLongHeader")
	rfp := c.fld("", "Conn", "receivedFirstPacket")
	typ := c.fld("internal/wire", "Header", "Type")
	scid := c.fld("internal/wire", "Header", "SrcConnectionID")
	tInitial := c.konst("internal/protocol", "PacketTypeInitial")
	t0RTT := c.konst("internal/protocol", "PacketType0RTT")
	tRetry := c.konst("internal/protocol", "PacketTypeRetry")
	cli := c.konst("internal/protocol", "PerspectiveClient")
	c.Floor(R, "UnpackLongHeader calls", countInstr(lh, CallsTo(unpack)), 1)
	c.cut(R, "drop:Initial with unexpected SCID after first packet", &Cut{Fn: lh, Target: CallsTo(unpack), Edge: OrEdge(
		EdgeRel(BoolTrue(Load(rfp)), true),
		EdgeRel(Rel{Op: token.NEQ, X: Load(typ), Y: ConstOf(tInitial)}, false),
		EdgeRel(Rel{Op: token.EQL, X: Load(scid), Y: Load(hdc)}, false))},
		"once a packet was processed, an Initial whose source connection ID differs is never unpacked")
	c.cut(R, "drop:0-RTT on the client", &Cut{Fn: lh, Target: CallsTo(unpack), Edge: OrEdge(
		EdgeRel(Rel{Op: token.NEQ, X: Load(persp), Y: ConstOf(cli)}, false),
		EdgeRel(Rel{Op: token.NEQ, X: Load(typ), Y: ConstOf(t0RTT)}, false))}, "a client never unpacks 0-RTT packets")
	c.cut(R, "dispatch:Retry never unpacked as a protected packet", &Cut{Fn: lh, Target: CallsTo(unpack),
		Edge: EdgeRel(Rel{Op: token.NEQ, X: Load(typ), Y: ConstOf(tRetry)}, false)}, "Retry packets go to handleRetryPacket only")
	// wrong-version long header dropped in handleOnePacket before handleLongHeaderPacket
	hop := c.fn("", "Conn", "handleOnePacket")
	ver := c.fld("internal/wire", "Header", "Version")
	cver := c.fld("", "Conn", "version")
	lhObj := c.obj("", "Conn", "handleLongHeaderPacket")
	c.Floor(R, "handleLongHeaderPacket calls", countInstr(hop, CallsTo(lhObj)), 1)
	c.cut(R, "drop:long header of another version", &Cut{Fn: hop, Target: CallsTo(lhObj), Edge: EdgeRel(Rel{Op: token.EQL, X: Load(ver), Y: Load(cver)}, false)},
		"a long-header packet of a different version is never handled")
	parsePkt := c.obj("internal/wire", "", "ParsePacket")
	c.cut(R, "drop:unparseable long header", &Cut{Fn: hop, Target: CallsTo(lhObj), Edge: EdgeRel(Rel{Op: token.EQL, X: CallTo(parsePkt, 3), Y: IsNil()}, false)},
		"a long-header packet that failed to parse is never handled")
	c.checkCallers(R, lhObj, c.set([3]string{"", "Conn", "handleOnePacket"}), 1)
	// idle-timer bookkeeping happens only for packets that passed decryption AND the duplicate
	// gate: it lives in the two handleUnpacked*Packet functions (which are only reached past
	// IsPotentiallyDuplicate()==false, see C07.3 / C01.1), so replayed packets cannot defer timeouts
	for _, fn := range []string{"lastPacketReceivedTime", "keepAlivePingSent"} {
		fld := c.fld("", "Conn", fn)
		allowed := c.set([3]string{"", "Conn", "preSetup"}, [3]string{"", "Conn", "handleUnpackedLongHeaderPacket"}, [3]string{"", "Conn", "handleUnpackedShortHeaderPacket"}, [3]string{"", "Conn", "run"})
		c.checkWriters(R, fld, allowed, 3)
	}
	dup := c.obj(ah, "ReceivedPacketHandler", "IsPotentiallyDuplicate")
	for _, pr := range [][2]string{{"handleShortHeaderPacket", "handleUnpackedShortHeaderPacket"}, {"handleLongHeaderPacket", "handleUnpackedLongHeaderPacket"}} {
		g := c.fn("", "Conn", pr[0])
		h := c.obj("", "Conn", pr[1])
		c.cut(R, "gate:"+pr[1]+" only for non-duplicates", &Cut{Fn: g, Target: CallsTo(h), Edge: EdgeRel(BoolTrue(CallTo(dup, -1)), true)}, "timer bookkeeping and frame handling happen only for new packets")
	}
}

func c13Run(c *Ctx) {
	const R = "C13.4"
	run := c.fn("", "Conn", "run")
	closeChan := c.fld("", "Conn", "closeChan")
	timer := c.fld("", "Conn", "timer")
	n := 0
	eachInstr(run, func(i ssa.Instruction) {
		sel, ok := i.(*ssa.Select)
		if !ok || !sel.Blocking {
			return
		}
		n++
		hasClose, hasTimer := false, false
		for _, st := range sel.States {
			if Load(closeChan)(st.Chan) {
				hasClose = true
			}
			if f, base := loadedField(st.Chan); f != nil && f.Name() == "C" && Load(timer)(base) {
				hasTimer = true
			}
		}
		c.Check(hasClose, R, "wait:blocking select has closeChan case", c.P.InstrPos(i), "the run loop's wait can always be ended by closing")
		c.Check(hasTimer, R, "wait:blocking select has timer case", c.P.InstrPos(i), "the run loop's wait can always be ended by the deadline timer")
	})
	c.Floor(R, "blocking selects in run", n, 1)
	// timeouts reach destroyImpl with the right errors
	destroy := c.obj("", "Conn", "destroyImpl")
	errHT, _ := c.P.Object("internal/qerr", "ErrHandshakeTimeout")
	errIT, _ := c.P.Object("internal/qerr", "ErrIdleTimeout")
	want := map[types.Object]bool{errHT: false, errIT: false}
	for _, in := range findInstrs(run, CallsTo(destroy)) {
		arg := in.(ssa.CallInstruction).Common().Args[1]
		eachOperandGlobal(arg, func(g *ssa.Global) {
			if _, ok := want[g.Object()]; ok {
				want[g.Object()] = true
			}
		})
	}
	c.Check(errHT != nil && want[errHT], R, "timeout:handshake timeout → destroyImpl(ErrHandshakeTimeout)", c.P.Pos(run.Pos()), "the handshake deadline ends the connection")
	c.Check(errIT != nil && want[errIT], R, "timeout:idle timeout → destroyImpl(ErrIdleTimeout)", c.P.Pos(run.Pos()), "the idle deadlines end the connection")
	// the handshake-timeout comparison: now.Sub(creationTime) >= handshakeTimeout under !handshakeComplete
	hc := c.fld("", "Conn", "handshakeComplete")
	ct := c.fld("", "Conn", "creationTime")
	sub := c.obj("internal/monotime", "Time", "Sub")
	hto := c.obj("", "Config", "handshakeTimeout")
	nh := 0
	for _, b := range run.Blocks {
		ifi, ok := b.Instrs[len(b.Instrs)-1].(*ssa.If)
		if !ok {
			continue
		}
		if EdgeImplies(ifi, 0, Rel{Op: token.GEQ, X: CallTo(sub, -1, Load(ct)), Y: CallTo(hto, -1)}, false) {
			nh++
			c.Check(dominatedByEdge(b, BoolTrue(Load(hc)), true), R, "timeout:handshake timeout only before completion", c.P.InstrPos(ifi), "the handshake deadline applies until the handshake completes")
			// true edge reaches destroyImpl
			c.Check(reachesCall(b.Succs[0], destroy), R, "timeout:handshake deadline edge reaches destroyImpl", c.P.InstrPos(ifi), "deadline exceeded ends the connection")
		}
	}
	c.Floor(R, "handshake-timeout comparison", nh, 1)
	// doDial: every select outcome returns
	for _, spec := range [][2]string{{"Transport", "doDial"}, {"UTransport", "doDial"}} {
		f := c.fn("", spec[0], spec[1])
		ns, nCtx := 0, 0
		eachInstr(f, func(i ssa.Instruction) {
			sel, ok := i.(*ssa.Select)
			if !ok || !sel.Blocking {
				return
			}
			ns++
			hasCtx := false
			for _, st := range sel.States {
				if cl, ok := st.Chan.(*ssa.Call); ok && cl.Call.IsInvoke() && cl.Call.Method.Name() == "Done" {
					hasCtx = true
				}
			}
			if hasCtx {
				nCtx++
			}
			// not inside a loop: the select cannot be reached from itself
			c.cut(R, "wait:"+spec[0]+".doDial waits once", &Cut{Fn: f, Start: func(x ssa.Instruction) bool { return x == i }, Target: func(x ssa.Instruction) bool { return x == i }},
				"every outcome of the wait returns from doDial")
		})
		c.Floor(R, "blocking selects in "+spec[0]+".doDial", ns, 1)
		c.Floor(R, "selects with a ctx.Done case in "+spec[0]+".doDial", nCtx, 1)
	}
}

func eachOperandGlobal(v ssa.Value, fn func(*ssa.Global)) {
	seen := map[ssa.Value]bool{}
	var walk func(ssa.Value, int)
	walk = func(x ssa.Value, d int) {
		if x == nil || seen[x] || d > 6 {
			return
		}
		seen[x] = true
		if g, ok := x.(*ssa.Global); ok {
			fn(g)
			return
		}
		if in, ok := x.(ssa.Instruction); ok {
			for _, op := range in.Operands(nil) {
				if *op != nil {
					walk(*op, d+1)
				}
			}
		}
	}
	walk(v, 0)
}

func c13ZeroRTT(c *Ctx) {
	const R = "C13.5"
	f := c.fn("", "Conn", "dropEncryptionLevel")
	z := c.konst("internal/protocol", "Encryption0RTT")
	reset := c.obj("", "streamsMap", "ResetFor0RTT")
	rej := c.obj("", "framer", "Handle0RTTRejection")
	fcr := c.obj(fc, "ConnectionFlowController", "Reset")
	drop := c.obj(ah, "SentPacketHandler", "DropPackets")
	// on the encLevel == 0-RTT edge every path to return passes the three resets; DropPackets on all paths
	c.cut(R, "pair:drop level → sentPacketHandler.DropPackets", &Cut{Fn: f, Target: isReturn, Barrier: CallsToArgs(drop, ParamV("encLevel"))}, "packets of the dropped level are discarded from loss recovery")
	for _, m := range []*types.Func{reset, rej, fcr} {
		mm := m
		sb := edgeSuccs(f, Rel{Op: token.EQL, X: ParamV("encLevel"), Y: ConstOf(z)})
		c.Floor(R, "encLevel==0-RTT edges", len(sb), 1)
		c.cut(R, "pair:0-RTT rejected → "+m.Name(), &Cut{Fn: f, StartBlocks: sb, Target: isReturn, Barrier: CallsTo(mm)}, "from the encLevel == 0-RTT edge every exit has reset this component")
		c.Floor(R, "calls of "+m.Name(), countInstr(f, CallsTo(mm)), 1)
	}
	// ResetFor0RTT closes the old maps with Err0RTTRejected and re-initialises them
	rf := c.fn("", "streamsMap", "ResetFor0RTT")
	cwe := c.obj("", "streamsMap", "CloseWithError")
	init := c.obj("", "streamsMap", "initMaps")
	c.cut(R, "pair:ResetFor0RTT closes streams", &Cut{Fn: rf, Target: isReturn, Barrier: CallsTo(cwe)}, "streams opened for 0-RTT are failed")
	c.cut(R, "pair:ResetFor0RTT re-initialises maps", &Cut{Fn: rf, Target: isReturn, Barrier: CallsTo(init)}, "fresh maps for 1-RTT")
	c.cut(R, "order:close before re-initialise", &Cut{Fn: rf, Target: CallsTo(init), Barrier: CallsTo(cwe)}, "the old maps are closed, not the new ones")
}
