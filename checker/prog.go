package main

// Loading of /repo as a type-checked program plus SSA and call graph.
// Nothing in /repo is executed: go/packages runs `go list` (the pinned
// toolchain, offline) and the type checker; go/ssa builds the IR.

import (
	"fmt"
	"go/ast"
	"go/token"
	"go/types"
	"os"
	"os/exec"
	"path/filepath"
	"sort"
	"strings"

	"golang.org/x/tools/go/callgraph"
	"golang.org/x/tools/go/callgraph/cha"
	"golang.org/x/tools/go/callgraph/vta"
	"golang.org/x/tools/go/packages"
	"golang.org/x/tools/go/ssa"
	"golang.org/x/tools/go/ssa/ssautil"
)

const modPath = "github.com/refraction-networking/uquic"

// Prog is the loaded program.
type Prog struct {
	callSiteCache map[*types.Func][]CallSite
	RepoDir string
	Fset    *token.FileSet
	Pkgs    map[string]*packages.Package // by import path, all (deps included)
	Roots   []*packages.Package
	SSA     *ssa.Program
	SSAPkg  map[string]*ssa.Package

	allFuncs map[*ssa.Function]bool
	cg       *callgraph.Graph
	cgKind   string
	GOARCH   string
	GOOS     string
}

// toolchainShim makes sure that the `go` found through PATH is a toolchain that can
// parse /repo/go.mod (the image's default go cannot); go/packages resolves `go`
// through the process PATH, not through Config.Env.
func toolchainShim() (string, error) {
	cands := []string{"/usr/local/bin/go1.26.8", "/opt/veriftools/go1.26.8/bin/go", "/usr/local/bin/go1.26"}
	var tool string
	for _, c := range cands {
		if _, err := os.Stat(c); err == nil {
			tool = c
			break
		}
	}
	if tool == "" {
		if p, err := exec.LookPath("go1.26.8"); err == nil {
			tool = p
		} else if p, err := exec.LookPath("go"); err == nil {
			return filepath.Dir(p), nil
		} else {
			return "", fmt.Errorf("no go toolchain found")
		}
	}
	exe, _ := os.Executable()
	dir := filepath.Join(filepath.Dir(exe), ".goshim")
	if err := os.MkdirAll(dir, 0o755); err != nil {
		dir = filepath.Join(os.TempDir(), fmt.Sprintf("uqcheck-goshim-%d", os.Getuid()))
		if err := os.MkdirAll(dir, 0o755); err != nil {
			return "", err
		}
	}
	link := filepath.Join(dir, "go")
	if cur, err := os.Readlink(link); err != nil || cur != tool {
		os.Remove(link)
		if err := os.Symlink(tool, link); err != nil && !os.IsExist(err) {
			return "", err
		}
	}
	return dir, nil
}

// LoadOpts controls loading.
type LoadOpts struct {
	RepoDir string
	GOARCH  string
	GOOS    string
	Overlay map[string][]byte
}

// LoadProgram loads the module at RepoDir.
func LoadProgram(o LoadOpts) (*Prog, error) {
	shim, err := toolchainShim()
	if err != nil {
		return nil, err
	}
	os.Setenv("PATH", shim+string(os.PathListSeparator)+os.Getenv("PATH"))
	os.Setenv("GOTOOLCHAIN", "local")
	os.Unsetenv("GOWORK")
	// an experiment of another toolchain (e.g. GOEXPERIMENT=synctest for go1.24 test runs) must not leak into the analysis
	os.Unsetenv("GOEXPERIMENT")
	env := append(os.Environ(),
		"GOFLAGS=-mod=mod", "GOPROXY=off", "GOSUMDB=off", "GOTOOLCHAIN=local", "GOWORK=off", "CGO_ENABLED=0")
	if o.GOARCH != "" {
		env = append(env, "GOARCH="+o.GOARCH)
	}
	if o.GOOS != "" {
		env = append(env, "GOOS="+o.GOOS)
	}
	fset := token.NewFileSet()
	cfg := &packages.Config{
		Mode: packages.NeedName | packages.NeedFiles | packages.NeedCompiledGoFiles | packages.NeedImports |
			packages.NeedDeps | packages.NeedTypes | packages.NeedSyntax | packages.NeedTypesInfo |
			packages.NeedTypesSizes | packages.NeedModule,
		Dir:     o.RepoDir,
		Env:     env,
		Fset:    fset,
		Tests:   false,
		Overlay: o.Overlay,
	}
	patterns := []string{
		modPath,
		modPath + "/http3/...",
		modPath + "/internal/...",
		modPath + "/quicvarint",
		modPath + "/qlog",
		modPath + "/qlogwriter/...",
		modPath + "/logging",
	}
	roots, err := packages.Load(cfg, patterns...)
	if err != nil {
		return nil, fmt.Errorf("packages.Load: %w", err)
	}
	if len(roots) == 0 {
		return nil, fmt.Errorf("no packages loaded from %s", o.RepoDir)
	}
	p := &Prog{RepoDir: o.RepoDir, Fset: fset, Pkgs: map[string]*packages.Package{}, Roots: roots, GOARCH: o.GOARCH, GOOS: o.GOOS}
	var errs []string
	packages.Visit(roots, nil, func(pk *packages.Package) {
		p.Pkgs[pk.PkgPath] = pk
		loadedPkgPaths[pk.PkgPath] = true
		for _, e := range pk.Errors {
			errs = append(errs, pk.PkgPath+": "+e.Error())
		}
	})
	if len(errs) > 0 {
		sort.Strings(errs)
		if len(errs) > 20 {
			errs = errs[:20]
		}
		return nil, fmt.Errorf("type/load errors (the tree must type-check):\n  %s", strings.Join(errs, "\n  "))
	}
	if p.Pkgs[modPath] == nil {
		return nil, fmt.Errorf("root package %s not loaded", modPath)
	}
	prog, _ := ssautil.AllPackages(roots, ssa.InstantiateGenerics)
	prog.Build()
	p.SSA = prog
	p.SSAPkg = map[string]*ssa.Package{}
	for _, sp := range prog.AllPackages() {
		p.SSAPkg[sp.Pkg.Path()] = sp
	}
	gProg = p
	return p, nil
}

// InRepo reports whether a package path belongs to the repository under analysis.
func InRepo(path string) bool {
	return path == modPath || strings.HasPrefix(path, modPath+"/")
}

// InScope: repository code that rules quantify over (mocks and test helpers excluded).
func InScope(path string) bool {
	if !InRepo(path) {
		return false
	}
	rel := strings.TrimPrefix(path, modPath)
	for _, ex := range []string{"/internal/mocks", "/internal/testdata", "/internal/testutils", "/testutils", "/integrationtests", "/example", "/interop", "/fuzzing"} {
		if strings.HasPrefix(rel, ex) {
			return false
		}
	}
	return true
}

func (p *Prog) AllFuncs() map[*ssa.Function]bool {
	if p.allFuncs == nil {
		p.allFuncs = ssautil.AllFunctions(p.SSA)
	}
	return p.allFuncs
}

// ScopeFuncs returns all functions (incl. anonymous and instantiations) whose package is in scope, sorted.
func (p *Prog) ScopeFuncs() []*ssa.Function {
	var out []*ssa.Function
	for f := range p.AllFuncs() {
		if f.Blocks == nil {
			continue
		}
		pk := funcPkgPath(f)
		if pk == "" || !InScope(pk) {
			continue
		}
		if isWrapper(f) {
			continue
		}
		out = append(out, f)
	}
	sort.Slice(out, func(i, j int) bool {
		if out[i].String() != out[j].String() {
			return out[i].String() < out[j].String()
		}
		return out[i].Pos() < out[j].Pos()
	})
	return out
}

func funcPkgPath(f *ssa.Function) string {
	for g := f; g != nil; g = g.Parent() {
		if g.Pkg != nil {
			return g.Pkg.Pkg.Path()
		}
		if o := g.Origin(); o != nil && o.Pkg != nil {
			return o.Pkg.Pkg.Path()
		}
		if g.Object() != nil && g.Object().Pkg() != nil {
			return g.Object().Pkg().Path()
		}
	}
	return ""
}

// CallGraph returns the call graph (CHA for quick, VTA for thorough).
func (p *Prog) CallGraph(kind string) *callgraph.Graph {
	if p.cg != nil && p.cgKind == kind {
		return p.cg
	}
	g := cha.CallGraph(p.SSA)
	if kind == "vta" {
		g = vta.CallGraph(p.AllFuncs(), g)
	}
	p.cg, p.cgKind = g, kind
	return g
}

// ---- anchors ----

func pkgPathOf(short string) string {
	if short == "" || short == "." || short == "quic" {
		return modPath
	}
	if strings.HasPrefix(short, "github.com/") || strings.HasPrefix(short, "golang.org/") || !strings.Contains(short, "/") && isStdlib(short) {
		return short
	}
	if loadedPkgPaths[short] && !loadedPkgPaths[modPath+"/"+short] {
		return short
	}
	return modPath + "/" + short
}

var loadedPkgPaths = map[string]bool{}

func isStdlib(s string) bool {
	switch s {
	case "sync", "time", "bytes", "errors", "context", "slices", "strings", "fmt", "io", "net", "sort", "math", "strconv":
		return true
	}
	return false
}

// Named looks up a named type "pkg.Type".
func (p *Prog) Named(pkg, name string) (*types.TypeName, error) {
	pp := p.Pkgs[pkgPathOf(pkg)]
	if pp == nil {
		return nil, fmt.Errorf("unresolved anchor: package %q not loaded", pkg)
	}
	o := pp.Types.Scope().Lookup(name)
	tn, ok := o.(*types.TypeName)
	if !ok {
		return nil, fmt.Errorf("unresolved anchor: type %s.%s", pkg, name)
	}
	return tn, nil
}

// Field looks up a struct field "pkg.Type.field" (the types.Var of the generic origin for generic types).
func (p *Prog) Field(pkg, typ, field string) (*types.Var, error) {
	tn, err := p.Named(pkg, typ)
	if err != nil {
		return nil, err
	}
	st, ok := tn.Type().Underlying().(*types.Struct)
	if !ok {
		return nil, fmt.Errorf("unresolved anchor: %s.%s is not a struct", pkg, typ)
	}
	for i := 0; i < st.NumFields(); i++ {
		if st.Field(i).Name() == field {
			return st.Field(i), nil
		}
	}
	return nil, fmt.Errorf("unresolved anchor: field %s.%s.%s", pkg, typ, field)
}

// Object looks up a package-level object (const, var, func).
func (p *Prog) Object(pkg, name string) (types.Object, error) {
	pp := p.Pkgs[pkgPathOf(pkg)]
	if pp == nil {
		return nil, fmt.Errorf("unresolved anchor: package %q not loaded", pkg)
	}
	o := pp.Types.Scope().Lookup(name)
	if o == nil {
		return nil, fmt.Errorf("unresolved anchor: %s.%s", pkg, name)
	}
	return o, nil
}

// FuncObj looks up a function or method's types.Func. recv=="" for package-level functions.
func (p *Prog) FuncObj(pkg, recv, name string) (*types.Func, error) {
	if recv == "" {
		o, err := p.Object(pkg, name)
		if err != nil {
			return nil, err
		}
		f, ok := o.(*types.Func)
		if !ok {
			return nil, fmt.Errorf("unresolved anchor: %s.%s is not a func", pkg, name)
		}
		return f, nil
	}
	tn, err := p.Named(pkg, recv)
	if err != nil {
		return nil, err
	}
	if it, ok := tn.Type().Underlying().(*types.Interface); ok {
		for i := 0; i < it.NumMethods(); i++ {
			if it.Method(i).Name() == name {
				return it.Method(i), nil
			}
		}
		return nil, fmt.Errorf("unresolved anchor: interface method %s.%s.%s", pkg, recv, name)
	}
	named, ok := tn.Type().(*types.Named)
	if !ok {
		return nil, fmt.Errorf("unresolved anchor: %s.%s not a named type", pkg, recv)
	}
	for i := 0; i < named.NumMethods(); i++ {
		if named.Method(i).Name() == name {
			return named.Method(i), nil
		}
	}
	return nil, fmt.Errorf("unresolved anchor: method %s.(%s).%s", pkg, recv, name)
}

// Funcs returns the SSA functions for a declared function/method: one for non-generic
// code, one per instantiation for generic code (the generic template itself is skipped
// when instantiations exist).
func (p *Prog) Funcs(pkg, recv, name string) ([]*ssa.Function, error) {
	obj, err := p.FuncObj(pkg, recv, name)
	if err != nil {
		return nil, err
	}
	base := p.SSA.FuncValue(obj)
	if base == nil {
		return nil, fmt.Errorf("unresolved anchor: no SSA function for %s", obj.FullName())
	}
	if base.TypeParams().Len() == 0 && len(recvTypeParams(obj)) == 0 {
		if base.Blocks == nil {
			return nil, fmt.Errorf("unresolved anchor: %s has no body", obj.FullName())
		}
		return []*ssa.Function{base}, nil
	}
	var out []*ssa.Function
	for f := range p.AllFuncs() {
		if f.Origin() == base && f.Blocks != nil {
			out = append(out, f)
		}
	}
	sort.Slice(out, func(i, j int) bool { return out[i].String() < out[j].String() })
	if len(out) == 0 {
		return nil, fmt.Errorf("unresolved anchor: generic %s has no instantiation", obj.FullName())
	}
	return out, nil
}

func recvTypeParams(f *types.Func) []*types.TypeParam {
	sig := f.Type().(*types.Signature)
	var out []*types.TypeParam
	if sig.RecvTypeParams() != nil {
		for i := 0; i < sig.RecvTypeParams().Len(); i++ {
			out = append(out, sig.RecvTypeParams().At(i))
		}
	}
	return out
}

// Func1 returns exactly one SSA function.
func (p *Prog) Func1(pkg, recv, name string) (*ssa.Function, error) {
	fs, err := p.Funcs(pkg, recv, name)
	if err != nil {
		return nil, err
	}
	if len(fs) != 1 {
		return nil, fmt.Errorf("anchor %s.%s.%s: expected 1 function, got %d", pkg, recv, name, len(fs))
	}
	return fs[0], nil
}

// Pos renders a position relative to the repo.
func (p *Prog) Pos(pos token.Pos) string {
	if !pos.IsValid() {
		return "-"
	}
	ps := p.Fset.Position(pos)
	rel, err := filepath.Rel(p.RepoDir, ps.Filename)
	if err != nil || strings.HasPrefix(rel, "..") {
		rel = ps.Filename
	}
	return fmt.Sprintf("%s:%d", rel, ps.Line)
}

// InstrPos gives the best position for an instruction (falls back to the function).
func (p *Prog) InstrPos(in ssa.Instruction) string {
	if in.Pos().IsValid() {
		return p.Pos(in.Pos())
	}
	if v, ok := in.(ssa.Value); ok {
		_ = v
	}
	// look at operands for a position
	for _, op := range in.Operands(nil) {
		if *op != nil && (*op).Pos().IsValid() {
			if _, isParam := (*op).(*ssa.Parameter); !isParam {
				return p.Pos((*op).Pos())
			}
		}
	}
	if in.Parent() != nil {
		return p.Pos(in.Parent().Pos()) + " (in " + in.Parent().Name() + ")"
	}
	return "-"
}

// FileOf returns the *ast.File and package containing pos.
func (p *Prog) FileOf(pos token.Pos) (*ast.File, *packages.Package) {
	for _, pk := range p.Pkgs {
		if !InRepo(pk.PkgPath) {
			continue
		}
		for _, f := range pk.Syntax {
			if f.Pos() <= pos && pos <= f.End() {
				return f, pk
			}
		}
	}
	return nil, nil
}

// FuncDecl returns the AST declaration for a function object.
func (p *Prog) FuncDecl(obj *types.Func) (*ast.FuncDecl, *packages.Package) {
	pk := p.Pkgs[obj.Pkg().Path()]
	if pk == nil {
		return nil, nil
	}
	for _, f := range pk.Syntax {
		for _, d := range f.Decls {
			if fd, ok := d.(*ast.FuncDecl); ok && pk.TypesInfo.Defs[fd.Name] == obj {
				return fd, pk
			}
		}
	}
	return nil, nil
}

// isWrapper: compiler-synthesised forwarding functions (promoted-method wrappers, bound
// method closures, thunks). Their bodies only forward to the declared method and are
// not program text; call-site and writer enumeration skips them.
func isWrapper(f *ssa.Function) bool {
	s := f.Synthetic
	return strings.HasPrefix(s, "wrapper") || strings.HasPrefix(s, "bound") || strings.HasPrefix(s, "thunk")
}

// gProg is the program under analysis (set by LoadProgram); used by value matchers that look through
// the parameters of private helpers.
var gProg *Prog
