package main

// SSA helpers: callee resolution, value patterns, field identity.

import (
	"go/constant"
	"go/token"
	"go/types"
	"strings"

	"golang.org/x/tools/go/ssa"
)

// originFunc maps an instantiation / wrapper to the declared function object.
func funcObj(f *ssa.Function) *types.Func {
	if f == nil {
		return nil
	}
	if o := f.Origin(); o != nil {
		f = o
	}
	if obj, ok := f.Object().(*types.Func); ok {
		return obj.Origin()
	}
	return nil
}

// calleeObj returns the declared function or interface method a call refers to
// (nil for calls of function values and builtins).
func calleeObj(c *ssa.CallCommon) *types.Func {
	if c.IsInvoke() {
		return c.Method.Origin()
	}
	if f := c.StaticCallee(); f != nil {
		// bound-method and thunk wrappers keep Object()==nil; go through their name-less synthetic origin
		if o := funcObj(f); o != nil {
			return o
		}
	}
	// method value called immediately or closure: look through MakeClosure of a $bound wrapper
	if mc, ok := c.Value.(*ssa.MakeClosure); ok {
		if fn, ok := mc.Fn.(*ssa.Function); ok {
			return boundTarget(fn)
		}
	}
	return nil
}

// boundTarget: for a synthetic "$bound"/"$thunk" wrapper returns the wrapped method.
func boundTarget(fn *ssa.Function) *types.Func {
	if fn == nil {
		return nil
	}
	if o := funcObj(fn); o != nil {
		return o
	}
	if fn.Synthetic != "" && len(fn.Blocks) > 0 {
		for _, b := range fn.Blocks {
			for _, in := range b.Instrs {
				if ci, ok := in.(ssa.CallInstruction); ok {
					if o := calleeObj(ci.Common()); o != nil {
						return o
					}
				}
			}
		}
	}
	return nil
}

func builtinName(c *ssa.CallCommon) string {
	if b, ok := c.Value.(*ssa.Builtin); ok {
		return b.Name()
	}
	return ""
}

// fieldOfAddr returns the field addressed by a FieldAddr (origin var).
func fieldOfAddr(fa *ssa.FieldAddr) *types.Var {
	t := fa.X.Type()
	if p, ok := t.Underlying().(*types.Pointer); ok {
		t = p.Elem()
	}
	st, ok := t.Underlying().(*types.Struct)
	if !ok {
		return nil
	}
	return st.Field(fa.Field).Origin()
}

func fieldOfField(f *ssa.Field) *types.Var {
	st, ok := f.X.Type().Underlying().(*types.Struct)
	if !ok {
		return nil
	}
	return st.Field(f.Field).Origin()
}

// stripConv removes value-preserving conversions.
func stripConv(v ssa.Value) ssa.Value {
	for {
		switch x := v.(type) {
		case *ssa.Convert:
			v = x.X
		case *ssa.ChangeType:
			v = x.X
		case *ssa.ChangeInterface:
			v = x.X
		default:
			return v
		}
	}
}

// loadedField: if v is a load of a struct field (through pointer or by value) returns the field.
func loadedField(v ssa.Value) (*types.Var, ssa.Value) {
	v = stripConv(v)
	switch x := v.(type) {
	case *ssa.UnOp:
		if x.Op == token.MUL {
			if fa, ok := x.X.(*ssa.FieldAddr); ok {
				return fieldOfAddr(fa), fa.X
			}
		}
	case *ssa.Field:
		return fieldOfField(x), x.X
	}
	return nil, nil
}

// VP is a value pattern.
type VP func(v ssa.Value) bool

func Any() VP { return func(ssa.Value) bool { return true } }

// Load matches a load of the given field (any base object).
func Load(f *types.Var) VP {
	var vp VP
	vp = func(v ssa.Value) bool {
		g, _ := loadedField(v)
		if g != nil && g == f.Origin() {
			return true
		}
		return throughParam(v, vp)
	}
	return vp
}

// throughParam: v is a parameter of an unexported function (a helper) and the argument passed for it at every
// static call site matches vp — so that extracting a few lines into a private helper does not hide a value.
func throughParam(v ssa.Value, vp VP) bool {
	prm, ok := stripConv(v).(*ssa.Parameter)
	if !ok || gProg == nil {
		return false
	}
	fn := prm.Parent()
	obj := funcObj(fn)
	if obj == nil || obj.Exported() || fn.Parent() != nil {
		return false
	}
	idx := -1
	for i, q := range fn.Params {
		if q == prm {
			idx = i
		}
	}
	if idx < 0 {
		return false
	}
	sites := gProg.CallSites(obj)
	if len(sites) == 0 {
		return false
	}
	for _, cs := range sites {
		ci, ok := cs.Instr.(ssa.CallInstruction)
		if !ok || ci.Common().IsInvoke() || cs.Kind == "value" || idx >= len(ci.Common().Args) {
			return false
		}
		if cs.Fn == fn {
			continue // recursion
		}
		if !vp(ci.Common().Args[idx]) {
			return false
		}
	}
	return true
}

// LoadPath matches a load of field path f1.f2...fn (e.g. c.config.X).
func LoadPath(fs ...*types.Var) VP {
	return func(v ssa.Value) bool {
		for i := len(fs) - 1; i >= 0; i-- {
			g, base := loadedField(v)
			if g == nil || g != fs[i].Origin() {
				return false
			}
			v = base
			if i > 0 {
				// base is either a pointer loaded from a field, or the address of an embedded struct field
				if fa, ok := stripConv(v).(*ssa.FieldAddr); ok {
					// address of embedded struct: emulate load
					if fieldOfAddr(fa) != fs[i-1].Origin() {
						return false
					}
					v = fa.X
					i--
				}
			}
		}
		return true
	}
}

// ParamV matches the i-th parameter of the enclosing function (receiver is 0 for methods).
func ParamV(name string) VP {
	return func(v ssa.Value) bool {
		v = stripConv(v)
		if p, ok := v.(*ssa.Parameter); ok {
			return p.Name() == name
		}
		// parameter spilled to a heap cell because a closure (e.g. a range-over-func
		// body) captures it: `t0 = new T (name); *t0 = name; ... *t0`
		if u, ok := v.(*ssa.UnOp); ok && u.Op == token.MUL {
			return isParamCell(u.X, name)
		}
		return false
	}
}

// isParamCell: v is the cell (Alloc, or a closure's free variable bound to it) holding
// the named parameter, and the parameter is its only stored value.
func isParamCell(v ssa.Value, name string) bool {
	switch x := v.(type) {
	case *ssa.Alloc:
		if x.Comment != name || x.Referrers() == nil {
			return false
		}
		n := 0
		okStore := false
		for _, r := range *x.Referrers() {
			if st, ok := r.(*ssa.Store); ok && st.Addr == x {
				n++
				if p, ok := st.Val.(*ssa.Parameter); ok && p.Name() == name {
					okStore = true
				}
			}
		}
		return n == 1 && okStore
	case *ssa.FreeVar:
		// find binding in parent's MakeClosure
		fn := x.Parent()
		idx := -1
		for i, fv := range fn.FreeVars {
			if fv == x {
				idx = i
			}
		}
		if idx < 0 || fn.Parent() == nil {
			return false
		}
		found := false
		okAll := true
		eachInstr(fn.Parent(), func(in ssa.Instruction) {
			if mc, ok := in.(*ssa.MakeClosure); ok && mc.Fn == fn && idx < len(mc.Bindings) {
				found = true
				if !isParamCell(mc.Bindings[idx], name) {
					okAll = false
				}
			}
		})
		return found && okAll
	}
	return false
}

// ConstI matches an integer constant with the given value.
func ConstI(n int64) VP {
	return func(v ssa.Value) bool {
		c, ok := stripConv(v).(*ssa.Const)
		if !ok || c.Value == nil || c.Value.Kind() != constant.Int {
			return false
		}
		x, exact := constant.Int64Val(c.Value)
		return exact && x == n
	}
}

// ConstOf matches a constant equal to the value of a named constant object.
func ConstOf(obj types.Object) VP {
	cv := obj.(*types.Const).Val()
	return func(v ssa.Value) bool {
		c, ok := stripConv(v).(*ssa.Const)
		if !ok || c.Value == nil {
			return false
		}
		return constant.Compare(c.Value, token.EQL, cv)
	}
}

func IsNil() VP {
	return func(v ssa.Value) bool {
		c, ok := v.(*ssa.Const)
		return ok && c.Value == nil
	}
}

// CallTo matches the result of a call to fn (or a tuple extract of it: idx>=0).
func CallTo(fn *types.Func, idx int, args ...VP) VP {
	return func(v ssa.Value) bool {
		v = stripConv(v)
		if ex, ok := v.(*ssa.Extract); ok {
			if idx >= 0 && ex.Index != idx {
				return false
			}
			v = ex.Tuple
		}
		c, ok := v.(*ssa.Call)
		if !ok {
			return false
		}
		if calleeObj(&c.Call) != fn.Origin() {
			return false
		}
		return matchArgs(&c.Call, args)
	}
}

func matchArgs(c *ssa.CallCommon, args []VP) bool {
	as := c.Args
	if !c.IsInvoke() && c.StaticCallee() != nil && c.StaticCallee().Signature.Recv() != nil && len(as) > 0 {
		as = as[1:] // drop receiver
	}
	for i, a := range args {
		if a == nil {
			continue
		}
		if i >= len(as) || !a(as[i]) {
			return false
		}
	}
	return true
}

// LenOf matches len(x).
func LenOf(x VP) VP {
	return func(v ssa.Value) bool {
		c, ok := stripConv(v).(*ssa.Call)
		if !ok || builtinName(&c.Call) != "len" {
			return false
		}
		return x(c.Call.Args[0])
	}
}

// BinV matches a binary operation (commutative ops are tried both ways).
func BinV(op token.Token, x, y VP) VP {
	return func(v ssa.Value) bool {
		b, ok := stripConv(v).(*ssa.BinOp)
		if !ok || b.Op != op {
			return false
		}
		if x(b.X) && y(b.Y) {
			return true
		}
		if op == token.ADD || op == token.MUL || op == token.AND || op == token.OR || op == token.XOR {
			return x(b.Y) && y(b.X)
		}
		return false
	}
}

// MinMaxOf matches the builtin min/max with the two operand patterns in any order.
func MinMaxOf(name string, x, y VP) VP {
	return func(v ssa.Value) bool {
		c, ok := stripConv(v).(*ssa.Call)
		if !ok || builtinName(&c.Call) != name || len(c.Call.Args) != 2 {
			return false
		}
		a, b := c.Call.Args[0], c.Call.Args[1]
		return x(a) && y(b) || x(b) && y(a)
	}
}

// Rel is a relational predicate pattern: X Op Y.
type Rel struct {
	Op   token.Token // EQL NEQ LSS LEQ GTR GEQ ; or ILLEGAL for "boolean value X is true"
	X, Y VP
}

// BoolTrue is the predicate "boolean value matching x is true".
func BoolTrue(x VP) Rel { return Rel{Op: token.ILLEGAL, X: x} }

func negOp(op token.Token) token.Token {
	switch op {
	case token.EQL:
		return token.NEQ
	case token.NEQ:
		return token.EQL
	case token.LSS:
		return token.GEQ
	case token.GEQ:
		return token.LSS
	case token.GTR:
		return token.LEQ
	case token.LEQ:
		return token.GTR
	}
	return token.ILLEGAL
}

func swapOp(op token.Token) token.Token {
	switch op {
	case token.LSS:
		return token.GTR
	case token.GTR:
		return token.LSS
	case token.LEQ:
		return token.GEQ
	case token.GEQ:
		return token.LEQ
	}
	return op
}

func isCmp(op token.Token) bool {
	switch op {
	case token.EQL, token.NEQ, token.LSS, token.LEQ, token.GTR, token.GEQ:
		return true
	}
	return false
}

// EdgeImplies reports whether taking successor succ (0=true,1=false) of the If
// establishes exactly the predicate r (modulo commutation and negation).
// neg=true asks for the negation of r.
func EdgeImplies(ifi *ssa.If, succ int, r Rel, neg bool) bool {
	cond := ifi.Cond
	pol := succ == 0
	if neg {
		pol = !pol
	}
	for {
		if u, ok := cond.(*ssa.UnOp); ok && u.Op == token.NOT {
			cond = u.X
			pol = !pol
			continue
		}
		break
	}
	if r.Op == token.ILLEGAL {
		// boolean predicate; also accept `x == true` / `x != false` forms
		if b, ok := cond.(*ssa.BinOp); ok && (b.Op == token.EQL || b.Op == token.NEQ) {
			if c, ok := b.Y.(*ssa.Const); ok && c.Value != nil && c.Value.Kind() == constant.Bool {
				cv := constant.BoolVal(c.Value)
				want := pol
				if b.Op == token.NEQ {
					want = !want
				}
				return r.X(b.X) && cv == want
			}
		}
		return pol && r.X(cond)
	}
	b, ok := cond.(*ssa.BinOp)
	if !ok || !isCmp(b.Op) {
		return false
	}
	eff := b.Op
	if !pol {
		eff = negOp(eff)
	}
	if eff == r.Op && r.X(b.X) && r.Y(b.Y) {
		return true
	}
	if swapOp(eff) == r.Op && r.X(b.Y) && r.Y(b.X) {
		return true
	}
	return false
}

// ---- misc ----

func isErrorType(t types.Type) bool {
	return types.Identical(t, types.Universe.Lookup("error").Type())
}

func namedOf(t types.Type) *types.Named {
	for {
		switch x := t.(type) {
		case *types.Pointer:
			t = x.Elem()
		case *types.Named:
			return x
		case *types.Alias:
			t = types.Unalias(x)
		default:
			return nil
		}
	}
}

func typeIs(t types.Type, pkgSuffix, name string) bool {
	n := namedOf(t)
	if n == nil || n.Obj().Pkg() == nil {
		return false
	}
	return n.Obj().Name() == name && (n.Obj().Pkg().Path() == pkgSuffix || strings.HasSuffix(n.Obj().Pkg().Path(), "/"+pkgSuffix))
}

func funcName(f *ssa.Function) string {
	if f == nil {
		return "?"
	}
	s := f.String()
	s = strings.ReplaceAll(s, modPath+"/", "")
	s = strings.ReplaceAll(s, modPath+".", "quic.")
	s = strings.ReplaceAll(s, modPath, "quic")
	return s
}

func eachInstr(f *ssa.Function, fn func(in ssa.Instruction)) {
	for _, b := range f.Blocks {
		for _, in := range b.Instrs {
			fn(in)
		}
	}
}

// withAnon returns f and all its (transitively) nested anonymous functions.
func withAnon(f *ssa.Function) []*ssa.Function {
	out := []*ssa.Function{f}
	for _, a := range f.AnonFuncs {
		out = append(out, withAnon(a)...)
	}
	return out
}

// retResults returns the result operands of a return, looking through go/ssa's
// defer spilling (`*slot = v; rundefers; t = *slot; return t`): when a result is a load
// of a local result slot and the same block stores to that slot before the rundefers,
// the stored value is returned instead.
// cutRetCtx: while a Cut evaluates a predicate, the values that the inlined helpers returned on the current path;
// a function that returns a helper's result (`return c.check(x)`) is then judged by what the helper returned.
var cutRetCtx *retInfo

func resolveHelperResult(v ssa.Value) ssa.Value {
	if cutRetCtx == nil {
		return v
	}
	switch x := v.(type) {
	case *ssa.Call:
		if rs := cutRetCtx.lookup(x); len(rs) == 1 {
			return rs[0]
		}
	case *ssa.Extract:
		if cl, ok := x.Tuple.(*ssa.Call); ok {
			if rs := cutRetCtx.lookup(cl); rs != nil && x.Index < len(rs) {
				return rs[x.Index]
			}
		}
	}
	return v
}

func retResults(r *ssa.Return) []ssa.Value {
	out := retResults0(r)
	if cutRetCtx != nil {
		// `return helper(x)` with several results: the tuple itself is returned
		if len(r.Results) == 1 {
			// single value
		}
		for i := range out {
			// a result that this function already tested (`if err != nil { return err }`) keeps its own identity:
			// the dominating test says more than the helper's return expression
			if dominatedByNonNilEdge(out[i], r.Block()) {
				continue
			}
			out[i] = resolveHelperResult(out[i])
		}
	}
	return out
}

func retResults0(r *ssa.Return) []ssa.Value {
	out := make([]ssa.Value, len(r.Results))
	for i, res := range r.Results {
		out[i] = res
		u, ok := res.(*ssa.UnOp)
		if !ok || u.Op != token.MUL {
			continue
		}
		al, ok := u.X.(*ssa.Alloc)
		if !ok {
			continue
		}
		// last store to al in this block before the load
		b := r.Block()
		var last ssa.Value
		for _, in := range b.Instrs {
			if in == ssa.Instruction(u) {
				break
			}
			if st, ok := in.(*ssa.Store); ok && st.Addr == al {
				last = st.Val
			}
		}
		if last != nil {
			out[i] = last
			continue
		}
		// unique store in the whole function (named result assigned once)
		if al.Referrers() != nil {
			var only ssa.Value
			n := 0
			for _, ref := range *al.Referrers() {
				if st, ok := ref.(*ssa.Store); ok && st.Addr == al {
					n++
					only = st.Val
				}
			}
			if n == 1 {
				out[i] = only
			}
		}
	}
	return out
}
