package main

import (
	"fmt"
	"go/constant"
	"go/token"
	"go/types"
	"strings"

	"golang.org/x/tools/go/ssa"
)

type anchorErr struct{ err error }

// rule runs one rule body; an unresolved anchor or engine panic fails the rule.
func (c *Ctx) rule(id string, body func()) {
	defer func() {
		if r := recover(); r != nil {
			if ae, ok := r.(anchorErr); ok {
				c.Err(id, "anchor", ae.err)
				return
			}
			panic(r)
		}
	}()
	body()
}

func (c *Ctx) fn(pkg, recv, name string) *ssa.Function {
	f, err := c.P.Func1(pkg, recv, name)
	if err != nil {
		panic(anchorErr{err})
	}
	c.FuncsSet[funcName(f)] = true
	return f
}

func (c *Ctx) fns(pkg, recv, name string) []*ssa.Function {
	fs, err := c.P.Funcs(pkg, recv, name)
	if err != nil {
		panic(anchorErr{err})
	}
	for _, f := range fs {
		c.FuncsSet[funcName(f)] = true
	}
	return fs
}

func (c *Ctx) obj(pkg, recv, name string) *types.Func {
	o, err := c.P.FuncObj(pkg, recv, name)
	if err != nil {
		panic(anchorErr{err})
	}
	return o.Origin()
}

func (c *Ctx) fld(pkg, typ, field string) *types.Var {
	v, err := c.P.Field(pkg, typ, field)
	if err != nil {
		panic(anchorErr{err})
	}
	return v.Origin()
}

func (c *Ctx) konst(pkg, name string) types.Object {
	o, err := c.P.Object(pkg, name)
	if err != nil {
		panic(anchorErr{err})
	}
	if _, ok := o.(*types.Const); !ok {
		panic(anchorErr{fmt.Errorf("unresolved anchor: %s.%s is not a constant", pkg, name)})
	}
	return o
}

func (c *Ctx) named(pkg, name string) *types.TypeName {
	tn, err := c.P.Named(pkg, name)
	if err != nil {
		panic(anchorErr{err})
	}
	return tn
}

func constInt(o types.Object) int64 {
	v, _ := constant.Int64Val(constant.ToInt(o.(*types.Const).Val()))
	return v
}

// ---- transport-error literals ----

// errLiteral recognises `&qerr.TransportError{ErrorCode: X, ...}` (possibly wrapped in
// MakeInterface) and returns the type name and the constant error code.
func errLiteral(v ssa.Value) (typeName string, code constant.Value, ok bool) {
	v = stripConv(v)
	if mi, isMI := v.(*ssa.MakeInterface); isMI {
		v = mi.X
	}
	al, isAlloc := v.(*ssa.Alloc)
	if !isAlloc {
		return "", nil, false
	}
	n := namedOf(al.Type())
	if n == nil {
		return "", nil, false
	}
	typeName = n.Obj().Name()
	if al.Referrers() == nil {
		return typeName, nil, true
	}
	for _, r := range *al.Referrers() {
		fa, isFA := r.(*ssa.FieldAddr)
		if !isFA {
			continue
		}
		f := fieldOfAddr(fa)
		if f == nil || f.Name() != "ErrorCode" || fa.Referrers() == nil {
			continue
		}
		for _, rr := range *fa.Referrers() {
			if st, isSt := rr.(*ssa.Store); isSt && st.Addr == fa {
				if k, isK := stripConv(st.Val).(*ssa.Const); isK {
					code = k.Value
				}
			}
		}
	}
	return typeName, code, true
}

// ReturnsErrCode: a return whose last (error) result is a TransportError /
// StreamLimit... literal with the given code constant.
func ReturnsErrCode(code types.Object) IP {
	cv := code.(*types.Const).Val()
	return func(in ssa.Instruction) bool {
		r, ok := in.(*ssa.Return)
		if !ok || len(r.Results) == 0 {
			return false
		}
		for _, res := range retResults(r) {
			if !isErrorType(res.Type()) {
				continue
			}
			if _, k, ok := errLiteral(res); ok && k != nil && constant.Compare(k, token.EQL, cv) {
				return true
			}
		}
		return false
	}
}

// ReturnOtherThan: a return that is not one matched by the given predicate.
func ReturnOtherThan(p IP) IP {
	return func(in ssa.Instruction) bool {
		return isReturn(in) && !p(in)
	}
}

// ---- upper bound provenance (UB) ----

// boundedBy: is v ≤ some value matching `by`, by construction, at block b?
// Rules: v itself matches; v = min(a, b) with a or b bounded; φ with all edges
// bounded; conversions preserve; a dominating edge v <= w / v < w with w bounded.
func boundedBy(v ssa.Value, by VP, at *ssa.BasicBlock, depth int) bool {
	if depth > 8 {
		return false
	}
	v = stripConv(v)
	if by(v) {
		return true
	}
	switch x := v.(type) {
	case *ssa.Call:
		if builtinName(&x.Call) == "min" {
			for _, a := range x.Call.Args {
				if boundedBy(a, by, x.Block(), depth+1) {
					return true
				}
			}
		}
	case *ssa.Phi:
		for i, e := range x.Edges {
			if !boundedBy(e, by, x.Block().Preds[i], depth+1) {
				return false
			}
		}
		return len(x.Edges) > 0
	}
	// dominating comparison v <= w or v < w, w bounded
	for d := at; d != nil && d.Idom() != nil; d = d.Idom() {
		id := d.Idom()
		ifi, ok := id.Instrs[len(id.Instrs)-1].(*ssa.If)
		if !ok {
			continue
		}
		for s := 0; s < 2; s++ {
			if id.Succs[s] != d || len(d.Preds) != 1 {
				continue
			}
			same := func(x ssa.Value) bool { return sameValue(stripConv(x), v) }
			w := func(x ssa.Value) bool { return boundedBy(x, by, id, depth+1) }
			if EdgeImplies(ifi, s, Rel{Op: token.LEQ, X: same, Y: w}, false) || EdgeImplies(ifi, s, Rel{Op: token.LSS, X: same, Y: w}, false) {
				return true
			}
		}
	}
	return false
}

// sameValue: identical SSA value, or two loads of the same field path / len of the
// same field path (go/ssa does no CSE). Intervening stores are not tracked here; callers
// use this only where the compared loads sit in the same straight-line region.
func sameValue(a, b ssa.Value) bool {
	a, b = stripConv(a), stripConv(b)
	if a == b {
		return true
	}
	if ca, ok := a.(*ssa.Call); ok {
		if cb, ok := b.(*ssa.Call); ok {
			if bn := builtinName(&ca.Call); bn != "" && bn == builtinName(&cb.Call) && len(ca.Call.Args) == len(cb.Call.Args) {
				for i := range ca.Call.Args {
					if !sameValue(ca.Call.Args[i], cb.Call.Args[i]) {
						return false
					}
				}
				return true
			}
			// same pure accessor on the same receiver
			oa, ob := calleeObj(&ca.Call), calleeObj(&cb.Call)
			if oa != nil && oa == ob && len(ca.Call.Args) == len(cb.Call.Args) && (len(ca.Call.Args) <= 1) {
				if ca.Call.IsInvoke() != cb.Call.IsInvoke() {
					return false
				}
				if ca.Call.IsInvoke() {
					return sameValue(ca.Call.Value, cb.Call.Value)
				}
				if len(ca.Call.Args) == 1 {
					return sameValue(ca.Call.Args[0], cb.Call.Args[0])
				}
			}
		}
	}
	// two loads of the same local cell (variables captured by closures live in cells)
	if ua, ok := a.(*ssa.UnOp); ok && ua.Op == token.MUL {
		if ub, ok := b.(*ssa.UnOp); ok && ub.Op == token.MUL {
			if _, isAlloc := ua.X.(*ssa.Alloc); isAlloc && ua.X == ub.X {
				return true
			}
			if _, isFV := ua.X.(*ssa.FreeVar); isFV && ua.X == ub.X {
				return true
			}
		}
	}
	fa, ba := loadedField(a)
	fb, bb := loadedField(b)
	if fa != nil && fa == fb {
		return sameBase(ba, bb)
	}
	return false
}

func sameBase(a, b ssa.Value) bool {
	a, b = stripConv(a), stripConv(b)
	if a == b {
		return true
	}
	// both are FieldAddr of the same field on the same base (embedded struct)
	if x, ok := a.(*ssa.FieldAddr); ok {
		if y, ok := b.(*ssa.FieldAddr); ok {
			return fieldOfAddr(x) == fieldOfAddr(y) && sameBase(x.X, y.X)
		}
	}
	return sameValue(a, b)
}

// Same returns a pattern matching values equal (by sameValue) to v.
func Same(v ssa.Value) VP { return func(x ssa.Value) bool { return sameValue(x, v) } }

func short(s string) string {
	s = strings.ReplaceAll(s, modPath+"/", "")
	s = strings.ReplaceAll(s, modPath, "quic")
	return s
}

// writerNames lists the declared functions containing write sites.
func writerNames(ws []WriteSite) []string {
	seen := map[string]bool{}
	var out []string
	for _, w := range ws {
		n := funcName(rootFn(w.Fn))
		if !seen[n] {
			seen[n] = true
			out = append(out, n)
		}
	}
	return out
}

// checkWriters: WMW rule — every write site of the field lies in an allowed function.
// Returns the sites grouped by root function object.
func (c *Ctx) checkWriters(rule string, field *types.Var, allowed fnSet, min int) map[*types.Func][]WriteSite {
	ws := c.P.Writers(field)
	by := map[*types.Func][]WriteSite{}
	name := field.Name()
	n := 0
	for _, w := range ws {
		o := funcObj(rootFn(w.Fn))
		n++
		// a private helper whose every caller is an allowed writer writes on their behalf
		if o != nil && !allowed[o] {
			if host := c.helperOf(rootFn(w.Fn), allowed, 0); host != nil {
				by[host] = append(by[host], w)
				// a helper shared by several call sites stands for that many writes (de-duplicated code)
				if ho := funcObj(rootFn(w.Fn)); ho != nil {
					if k := len(c.P.CallSites(ho)); k > 1 {
						n += k - 1
					}
				}
				c.OK(rule, fmt.Sprintf("writer-of:%s@%s", name, funcName(rootFn(w.Fn))), c.P.InstrPos(w.Instr),
					fmt.Sprintf("%s of field %s in %s, a private helper called only from the allowed writer %s", w.Kind, name, funcName(rootFn(w.Fn)), host.Name()))
				continue
			}
		}
		by[o] = append(by[o], w)
		c.Check(o != nil && allowed[o], rule, fmt.Sprintf("writer-of:%s@%s", name, funcName(rootFn(w.Fn))), c.P.InstrPos(w.Instr),
			fmt.Sprintf("%s of field %s in %s; allowed writers are frozen in the rule table", w.Kind, name, funcName(rootFn(w.Fn))))
	}
	c.Count("store_sites", n)
	c.Floor(rule, "writes of "+name, n, min)
	return by
}

// checkCallers: who-may-call rule.
func (c *Ctx) checkCallers(rule string, target *types.Func, allowed fnSet, min int) []CallSite {
	cs := c.P.CallSites(target)
	for _, s := range cs {
		o := funcObj(rootFn(s.Fn))
		if o != nil && !allowed[o] {
			if host := c.helperOf(rootFn(s.Fn), allowed, 0); host != nil {
				c.OK(rule, fmt.Sprintf("caller-of:%s@%s", target.Name(), funcName(rootFn(s.Fn))), c.P.InstrPos(s.Instr),
					fmt.Sprintf("%s of %s in %s, a private helper called only from the allowed caller %s", s.Kind, target.FullName(), funcName(rootFn(s.Fn)), host.Name()))
				continue
			}
		}
		c.Check(o != nil && allowed[o], rule, fmt.Sprintf("caller-of:%s@%s", target.Name(), funcName(rootFn(s.Fn))), c.P.InstrPos(s.Instr),
			fmt.Sprintf("%s of %s in %s; allowed callers are frozen in the rule table", s.Kind, target.FullName(), funcName(rootFn(s.Fn))))
	}
	c.Count("call_sites", len(cs))
	c.Floor(rule, "call sites of "+target.Name(), len(cs), min)
	return cs
}

func (c *Ctx) set(specs ...[3]string) fnSet {
	s, err := c.P.FnSet(specs...)
	if err != nil {
		panic(anchorErr{err})
	}
	return s
}

// cut runs a Cut and records the obligation.
func (c *Ctx) cut(rule, construct string, q *Cut, why string) bool {
	c.FuncsSet[funcName(q.Fn)] = true
	w := q.Run()
	pos := c.P.Pos(q.Fn.Pos())
	if w != nil {
		pos = c.P.InstrPos(w.Target)
	}
	detail := why
	if w != nil {
		detail = why + " — VIOLATED: in " + funcName(q.Fn) + " a path " + w.String(c.P) + " without passing the required guard/effect"
	}
	return c.Check(w == nil, rule, construct, pos, detail)
}

// returnsAll: every return of fn has result idx matching pat.
func (c *Ctx) returnsAll(rule, construct string, fn *ssa.Function, idx int, pat VP, why string) bool {
	c.FuncsSet[funcName(fn)] = true
	n := 0
	ok := true
	var badPos string
	eachInstr(fn, func(in ssa.Instruction) {
		if r, isR := in.(*ssa.Return); isR {
			n++
			if idx >= len(r.Results) || !pat(retResults(r)[idx]) {
				ok = false
				badPos = c.P.InstrPos(in)
			}
		}
	})
	if n == 0 {
		ok = false
	}
	pos := c.P.Pos(fn.Pos())
	if !ok && badPos != "" {
		pos = badPos
	}
	return c.Check(ok, rule, construct, pos, why)
}

// helperOf: fn is an unexported function that is only ever called (statically, never used as a value or through an
// interface) from functions of the allowed set — or from other such helpers. Returns one allowed host, or nil.
func (c *Ctx) helperOf(fn *ssa.Function, allowed fnSet, depth int) *types.Func {
	obj := funcObj(fn)
	if obj == nil || obj.Exported() || fn.Parent() != nil || depth > 2 {
		return nil
	}
	sites := c.P.CallSites(obj)
	if len(sites) == 0 {
		return nil
	}
	var host *types.Func
	for _, cs := range sites {
		if cs.Kind == "value" || cs.Kind == "invoke" {
			return nil
		}
		caller := rootFn(cs.Fn)
		co := funcObj(caller)
		if co == nil {
			return nil
		}
		if allowed[co] {
			host = co
			continue
		}
		if caller == fn {
			continue
		}
		// only direct callers count: following the call chain further up would accept any function that is
		// eventually reached from a broad allowed writer such as the run loop
		return nil
	}
	return host
}

// region: fn plus the private helpers that are called only from inside the region (extract-method neighbours).
func (c *Ctx) region(fn *ssa.Function) []*ssa.Function {
	obj := funcObj(fn)
	out := []*ssa.Function{fn}
	if obj == nil {
		return out
	}
	allowed := fnSet{obj: true}
	seen := map[*ssa.Function]bool{fn: true}
	for i := 0; i < len(out); i++ {
		eachInstr(out[i], func(in ssa.Instruction) {
			ci, ok := in.(ssa.CallInstruction)
			if !ok {
				return
			}
			sc := ci.Common().StaticCallee()
			if sc == nil || seen[sc] || sc.Blocks == nil || funcPkgPath(sc) != funcPkgPath(fn) {
				return
			}
			if c.helperOf(sc, allowed, 0) != nil {
				seen[sc] = true
				out = append(out, sc)
				if o := funcObj(sc); o != nil {
					allowed[o] = true
				}
			}
		})
	}
	return out
}
