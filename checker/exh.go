package main

// EXH — switch exhaustiveness inside the functions a property's rules analyse: a `switch` whose tag has a named
// integer type with declared constants (encryption level, perspective, stream type, packet type, send mode …) and
// no `default` clause names every declared constant of that type. Deleting one case from such a switch compiles,
// silently does nothing for that value, and is exactly the kind of edit tests keyed to the common values miss.
// Switches that are deliberately partial today are frozen exceptions below (function + type), one reason each.

import (
	"fmt"
	"go/ast"
	"go/constant"
	"go/types"
	"sort"
	"strings"

	"golang.org/x/tools/go/packages"
	"golang.org/x/tools/go/ssa"
)

type enumSwitch struct {
	Fn       string // enclosing function (funcName form when resolvable, else pkg.func)
	Pos      string
	Type     string
	Missing  []string
	Covered  []string
	Default  bool
	NumConst int
	NoLint   bool // carries the repository's own `//nolint:exhaustive` annotation
}

// enumConsts: the declared constants of a named integer type, by value (aliases with the same value collapse).
func enumConsts(t *types.Named) map[string][]string {
	out := map[string][]string{}
	obj := t.Obj()
	if obj.Pkg() == nil {
		return out
	}
	sc := obj.Pkg().Scope()
	for _, n := range sc.Names() {
		c, ok := sc.Lookup(n).(*types.Const)
		if !ok || !types.Identical(c.Type(), t) {
			continue
		}
		k := c.Val().ExactString()
		out[k] = append(out[k], n)
	}
	return out
}

func (p *Prog) enumSwitches(pkFilter func(string) bool) []enumSwitch {
	var out []enumSwitch
	var pks []*packages.Package
	for _, pk := range p.Pkgs {
		if InRepo(pk.PkgPath) && pkFilter(pk.PkgPath) {
			pks = append(pks, pk)
		}
	}
	sort.Slice(pks, func(i, j int) bool { return pks[i].PkgPath < pks[j].PkgPath })
	for _, pk := range pks {
		for _, file := range pk.Syntax {
			if strings.HasSuffix(p.Fset.Position(file.Pos()).Filename, "_test.go") {
				continue
			}
			for _, d := range file.Decls {
				fd, ok := d.(*ast.FuncDecl)
				if !ok || fd.Body == nil {
					continue
				}
				fobj, _ := pk.TypesInfo.Defs[fd.Name].(*types.Func)
				name := fd.Name.Name
				if fobj != nil {
					if f := p.SSA.FuncValue(fobj); f != nil {
						name = funcName(f)
					}
				}
				ast.Inspect(fd.Body, func(n ast.Node) bool {
					sw, ok := n.(*ast.SwitchStmt)
					if !ok || sw.Tag == nil {
						return true
					}
					tv, ok := pk.TypesInfo.Types[sw.Tag]
					if !ok {
						return true
					}
					nt, ok := types.Unalias(tv.Type).(*types.Named)
					if !ok {
						return true
					}
					if b, ok := nt.Underlying().(*types.Basic); !ok || b.Info()&types.IsInteger == 0 {
						return true
					}
					if nt.Obj().Pkg() == nil || !InRepo(nt.Obj().Pkg().Path()) {
						return true
					}
					consts := enumConsts(nt)
					if len(consts) < 2 {
						return true
					}
					covered := map[string]bool{}
					hasDefault := false
					nonConst := false
					for _, cc := range sw.Body.List {
						cl := cc.(*ast.CaseClause)
						if cl.List == nil {
							hasDefault = true
						}
						for _, e := range cl.List {
							if v := pk.TypesInfo.Types[e].Value; v != nil {
								covered[constant.ToInt(v).ExactString()] = true
							} else {
								nonConst = true
							}
						}
					}
					if nonConst {
						return true
					}
					nolint := false
					swLine := p.Fset.Position(sw.Pos()).Line
					for _, cg := range file.Comments {
						for _, cm := range cg.List {
							ln := p.Fset.Position(cm.Pos()).Line
							if (ln == swLine || ln == swLine-1) && strings.Contains(cm.Text, "nolint:exhaustive") {
								nolint = true
							}
						}
					}
					es := enumSwitch{NoLint: nolint, Fn: name, Pos: p.Pos(sw.Pos()), Type: nt.Obj().Pkg().Name() + "." + nt.Obj().Name(), Default: hasDefault, NumConst: len(consts)}
					for k, ns := range consts {
						sort.Strings(ns)
						if covered[k] {
							es.Covered = append(es.Covered, ns[0])
						} else {
							es.Missing = append(es.Missing, ns[0])
						}
					}
					sort.Strings(es.Covered)
					sort.Strings(es.Missing)
					out = append(out, es)
					return true
				})
			}
		}
	}
	return out
}

func init() {
	explorations["switch"] = func(p *Prog) {
		ss := p.enumSwitches(func(string) bool { return true })
		nd, full := 0, 0
		for _, s := range ss {
			tag := "default"
			if !s.Default {
				tag = "NO-DEFAULT"
				if s.NoLint {
					tag = "NOLINT"
				}
				nd++
				if len(s.Missing) == 0 {
					full++
				}
			}
			fmt.Printf("%-10s %-34s %-60s %-28s covered=%d/%d missing=%v\n", tag, s.Pos, s.Fn, s.Type, len(s.Covered), s.NumConst, s.Missing)
		}
		fmt.Printf("switches over module enum types: %d; without default: %d, of which exhaustive: %d\n", len(ss), nd, full)
	}
}

// exhPartial: the deliberately partial switches (annotated `//nolint:exhaustive` in the repository, reason quoted) and
// the constants they name today. A partial switch must keep naming at least these (more is fine).
var exhPartial = map[string][][]string{
	"(*quic.Conn).dropEncryptionLevel|protocol.EncryptionLevel":                {{"Encryption0RTT", "EncryptionInitial"}},                        // only Initial and 0-RTT need special treatment
	"(*quic.Conn).sendPackets|ackhandler.SendMode":                             {{"SendAny", "SendPacingLimited"}},                               // only need to handle pacing-related events here
	"(*quic.packetPacker).maybeGetCryptoPacket|protocol.EncryptionLevel":       {{"EncryptionHandshake", "EncryptionInitial"}},                   // Initial and Handshake are the only two encryption levels here
	"(*quic.packetPacker).getLongHeader|protocol.EncryptionLevel":              {{"Encryption0RTT", "EncryptionHandshake", "EncryptionInitial"}}, // 1-RTT packets are not long header packets
	"(*quic.retransmissionQueue).HasData|protocol.EncryptionLevel":             {{"Encryption1RTT", "EncryptionHandshake", "EncryptionInitial"}}, // 0-RTT data is retransmitted in 1-RTT packets
	"(*quic.retransmissionQueue).GetFrame|protocol.EncryptionLevel":            {{"Encryption1RTT", "EncryptionHandshake", "EncryptionInitial"}}, // 0-RTT data is retransmitted in 1-RTT packets
	"(*internal/ackhandler.ecnTracker).HandleNewlyAcked|protocol.ECN":          {{"ECT0", "ECT1"}},                                               // we only ever send ECT(0) and ECT(1)
	"(*internal/ackhandler.receivedPacketTracker).ReceivedPacket|protocol.ECN": {{"ECNCE", "ECT0", "ECT1"}},                                      // only need to count ECT(0), ECT(1) and ECN-CE
	"(*internal/wire.ExtendedHeader).Append|protocol.PacketType":               {{"PacketTypeInitial", "PacketTypeRetry"}},                       // only Retry and Initial carry a token
	"internal/wire.parseMaxStreamsFrame|wire.FrameType":                        {{"FrameTypeBidiMaxStreams", "FrameTypeUniMaxStreams"}},          // only called with the two MAX_STREAMS types
	"internal/wire.parseStreamsBlockedFrame|wire.FrameType":                    {{"FrameTypeBidiStreamBlocked", "FrameTypeUniStreamBlocked"}},    // only called with the two STREAMS_BLOCKED types
}

var enumSwitchCache []enumSwitch

// exhDiscipline: rule Cxx.X over the functions the property's rules analyse (and their private helpers).
func exhDiscipline(c *Ctx) {
	R := c.Prop + ".X"
	if c.P == nil || c.P.SSA == nil {
		return
	}
	if enumSwitchCache == nil {
		enumSwitchCache = c.P.enumSwitches(func(string) bool { return true })
		if enumSwitchCache == nil {
			enumSwitchCache = []enumSwitch{}
		}
	}
	if scopeFuncByName == nil {
		scopeFuncByName = map[string]*ssa.Function{}
		for _, f := range c.P.ScopeFuncs() {
			if _, dup := scopeFuncByName[funcName(f)]; !dup {
				scopeFuncByName[funcName(f)] = f
			}
		}
	}
	region := map[string]string{} // function name → analysed function it belongs to
	var names []string
	for k := range c.FuncsSet {
		names = append(names, k)
	}
	if c.Tier == "thorough" {
		have := map[string]bool{}
		for _, k := range names {
			have[k] = true
		}
		for _, k := range anchoredFuncs(c) {
			if !have[k] {
				names = append(names, k)
			}
		}
	}
	sort.Strings(names)
	for _, name := range names {
		f := scopeFuncByName[name]
		if f == nil {
			continue
		}
		for _, g := range helperRegion(f) {
			if _, ok := region[funcName(g)]; !ok {
				region[funcName(g)] = name
			}
		}
	}
	byKey := map[string][]enumSwitch{}
	n := 0
	perFn := map[string]int{}
	for _, s := range enumSwitchCache {
		host, ok := region[s.Fn]
		if !ok {
			continue
		}
		key := host + "|" + s.Type
		byKey[key] = append(byKey[key], s)
		if s.Fn != host {
			byKey[s.Fn+"|"+s.Type] = append(byKey[s.Fn+"|"+s.Type], s)
		}
		if s.Default || s.NoLint {
			continue
		}
		n++
		perFn[key]++
		c.Check(len(s.Missing) == 0, R, fmt.Sprintf("exhaustive:%s over %s#%d", host, s.Type, perFn[key]), s.Pos,
			fmt.Sprintf("a switch without default (and without the repository's nolint:exhaustive annotation) names every declared constant of %s; missing: %v — for a missing value the switch silently does nothing", s.Type, s.Missing))
	}
	// deliberately partial switches keep naming at least what they name today
	var pkeys []string
	for k := range exhPartial {
		pkeys = append(pkeys, k)
	}
	sort.Strings(pkeys)
	for _, key := range pkeys {
		host := key[:strings.Index(key, "|")]
		if _, analysed := region[host]; !analysed {
			continue
		}
		if len(byKey[key]) == 0 {
			// the function no longer switches over this type (e.g. the switch became an if-chain): there is no
			// partial switch left to keep its cases — exhaustiveness is a property of switches
			continue
		}
		for i, want := range exhPartial[key] {
			ok := false
			for _, s := range byKey[key] {
				have := map[string]bool{}
				for _, x := range s.Covered {
					have[x] = true
				}
				all := true
				for _, w := range want {
					if !have[w] {
						all = false
					}
				}
				if all {
					ok = true
				}
			}
			n++
			c.Check(ok, R, fmt.Sprintf("partial:%s#%d names at least %v", key, i+1, want), "-",
				"a deliberately partial switch (nolint:exhaustive in the repository) keeps the cases it has today")
		}
	}
	c.Count(R+" enum switches", n)
}
