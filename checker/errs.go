package main

// ERR — error discipline inside the functions a property's rules analyse: every error value that a call returns there
// is read (compared, returned, passed on, stored). A call whose error result is not taken, or is taken and never read
// (`_, err = f()` followed by another assignment), drops the error: whatever the callee refused — a malformed frame, a
// limit violation, a failed write — is then treated as success. Exceptions are frozen below: callee families whose
// error this code base ignores by convention, and single sites confirmed by reading, one reason each.

import (
	"encoding/json"
	"fmt"
	"os"
	"path/filepath"
	"sort"
	"strings"

	"golang.org/x/tools/go/ssa"
)

// errIgnoredCallees: the callee's error is conventionally ignored in this code base (≥ 3 sites, confirmed by reading).
var errIgnoredCallees = []struct{ match, reason string }{
	{".CloseWithError", "closing is best effort: the error of a close that races with another close is not actionable"},
	{".Close", "closing is best effort"},
	{".SetReadDeadline", "deadline setters on an open socket / stream fail only after close"},
	{".SetWriteDeadline", "deadline setters fail only after close"},
	{".SetDeadline", "deadline setters fail only after close"},
	{"crypto/rand.Read", "crypto/rand.Read never returns an error (it aborts the program instead, Go ≥ 1.24)"},
	{"(*bytes.Buffer).Write", "bytes.Buffer writes never fail"},
	{"fmt.Fprint", "diagnostic output"},
}

// errIgnoredSites: function → callee, confirmed by reading.
var errIgnoredSites = map[string]string{
	"(*quic.Conn).handleUnpackError→internal/wire.ParseConnectionID":                                       "the parsed connection ID is used only in a qlog event for a packet that is dropped anyway",
	"(*internal/ackhandler.sentPacketHandler).DropPackets→(*internal/ackhandler.sentPacketHistory).Remove": "removes the packets it is iterating over; Remove fails only for a packet number that is not in the history",
	"(*quic.Conn).applyTransportParameters→(*quic.connIDGenerator).SetMaxActiveConnIDs":                    "fails only when the connection ID generator (random source) fails; as upstream",
	"(*quic.Conn).applyTransportParameters→(*quic.connIDManager).AddFromPreferredAddress":                  "the preferred-address connection ID is added only to be retired (no migration); as upstream",
	"(*quic.baseServer).handleInitialImpl→(*quic.Conn).run":                                                "go statement: run's error reaches callers through the connection context's cause, not the return value",
	"(*http3.Server).handleConn→(*quic.SendStream).Write":                                                  "GOAWAY on graceful shutdown is best effort (`_, _ =`); Write returns once the connection is closed",
	"(*quic.Transport).Close→(*quic.Transport).init":                                                       "init(false) only waits for a concurrent initialisation; its error went to the caller that initialised",
	"(*quic.Transport).runSendQueue→invoke (github.com/refraction-networking/uquic.rawConn).WritePacket":   "CONNECTION_CLOSE retransmissions and stateless resets are fire-and-forget",
	"(*quic.statelessResetter).GetStatelessResetToken→invoke (io.Writer).Write":                            "hash.Hash.Write never returns an error",
	"http3.ListenAndServeTLS→(*http3.Server).SetQUICHeaders":                                               "the Alt-Svc header is advisory; fails only while the QUIC listener is not up yet",
	"(*http3.frameParser).ParseNext→field closeConn":                                                       "closing the connection is best effort; the parse error is returned right after",
	"(*http3.responseWriter).WriteHeader→(*http3.responseWriter).writeHeader":                              "http.ResponseWriter.WriteHeader has no error result; a failed 1xx write surfaces on the next write",
	"(*http3.requestWriter).encodeHeaders→(*github.com/quic-go/qpack.Encoder).WriteField":                  "the encoder writes into a bytes.Buffer: cannot fail",
	// sites outside the analysed functions, reached by the thorough tier (all functions of the anchored files)
	"(*quic.Conn).handleHandshakeComplete→(*quic.baseCryptoStream).Write":                    "the 1-RTT crypto stream's Write only appends to a buffer (the scrambling Initial stream is the one that can fail)",
	"(*quic.Conn).restoreTransportParameters→(*quic.connIDGenerator).SetMaxActiveConnIDs":    "fails only when the connection ID generator (random source) fails; as upstream",
	"(*quic.Conn).sendPackets→(*quic.Transport).WriteTo":                                     "path probe packets are best effort: a lost probe is retried by the path manager's timer",
	"(*quic.baseServer).cleanupZeroRTTQueues→internal/wire.ParseVersion":                     "the version is used only in a qlog event for a packet that is dropped anyway",
	"(*quic.baseServer).handle0RTTPacket→internal/wire.ParseVersion":                         "the version is used only in a qlog event for a packet that is dropped anyway",
	"http3.ConfigureTLSConfig→(*github.com/refraction-networking/utls.Config).DecryptTicket": "called only for its side effect of initialising the session ticket keys (golang/go#60506); `_, _ =` in the source",
}

var scopeFuncByName map[string]*ssa.Function

// gVerifDir is where properties.jsonl lives (set by main).
var gVerifDir string

// anchorPatterns: the anchors.files patterns of a property (exact paths, globs, directory prefixes).
func anchorPatterns(prop string) []string {
	data, err := os.ReadFile(filepath.Join(gVerifDir, "properties.jsonl"))
	if err != nil {
		return nil
	}
	for _, line := range strings.Split(string(data), "\n") {
		var d struct {
			ID      string `json:"id"`
			Anchors struct {
				Files []string `json:"files"`
			} `json:"anchors"`
		}
		if json.Unmarshal([]byte(line), &d) == nil && d.ID == prop {
			return d.Anchors.Files
		}
	}
	return nil
}

func matchesAnchor(rel string, pats []string) bool {
	for _, p := range pats {
		if p == rel {
			return true
		}
		if strings.HasSuffix(p, "/") && strings.HasPrefix(rel, p) {
			return true
		}
		if ok, _ := filepath.Match(p, rel); ok {
			return true
		}
	}
	return false
}

// anchoredFuncs: the top-level functions declared in the files the property is anchored in (thorough tier).
func anchoredFuncs(c *Ctx) []string {
	pats := anchorPatterns(c.Prop)
	if len(pats) == 0 {
		return nil
	}
	var out []string
	for _, f := range c.P.ScopeFuncs() {
		if f.Parent() != nil || f.Pos() == 0 {
			continue
		}
		file := c.P.Fset.Position(f.Pos()).Filename
		rel, err := filepath.Rel(c.P.RepoDir, file)
		if err != nil || strings.HasSuffix(rel, "_test.go") {
			continue
		}
		if matchesAnchor(filepath.ToSlash(rel), pats) {
			out = append(out, funcName(f))
		}
	}
	return out
}

func errDiscipline(c *Ctx) {
	R := c.Prop + ".E"
	if c.P == nil || c.P.SSA == nil {
		return
	}
	if scopeFuncByName == nil {
		scopeFuncByName = map[string]*ssa.Function{}
		for _, f := range c.P.ScopeFuncs() {
			if _, dup := scopeFuncByName[funcName(f)]; !dup {
				scopeFuncByName[funcName(f)] = f
			}
		}
	}
	var names []string
	seenName := map[string]bool{}
	for k := range c.FuncsSet {
		names = append(names, k)
		seenName[k] = true
	}
	if c.Tier == "thorough" {
		// thorough tier: every function declared in the files the property is anchored in
		for _, k := range anchoredFuncs(c) {
			if !seenName[k] {
				seenName[k] = true
				names = append(names, k)
			}
		}
	}
	sort.Strings(names)
	calls, fns := 0, 0
	for _, name := range names {
		f := scopeFuncByName[name]
		if f == nil || f.Parent() != nil {
			continue
		}
		fns++
		perCallee := map[string]int{}
		nCalls := 0
		bad := 0
		for _, g := range withAnon(f) {
			nCalls += countErrCalls(g)
			for _, d := range droppedErrors(g) {
				perCallee[d.Calee]++
				construct := fmt.Sprintf("error-read:%s→%s#%d", name, d.Calee, perCallee[d.Calee])
				if why := errException(name, d.Calee); why != "" {
					c.OK(R, construct, c.P.InstrPos(d.Call), "exception: "+why)
					continue
				}
				bad++
				c.Bad(R, construct, c.P.InstrPos(d.Call), "the error returned by "+d.Calee+" is "+d.Kind+" in "+funcName(g)+": a refusal by the callee is treated as success")
			}
		}
		calls += nCalls
		if bad == 0 && nCalls > 0 {
			c.OK(R, "errors-read:"+name, c.P.Pos(f.Pos()), fmt.Sprintf("%d error-returning calls, every error value is read or a listed exception", nCalls))
		}
	}
	c.Count(R+" functions", fns)
	c.Count(R+" error-returning calls", calls)
}

func errException(fn, callee string) string {
	if r, ok := errIgnoredSites[fn+"→"+callee]; ok {
		return r
	}
	for _, e := range errIgnoredCallees {
		if strings.HasSuffix(callee, e.match) || strings.Contains(callee, e.match+"$") || (strings.HasSuffix(e.match, "Write") || strings.HasSuffix(e.match, "Fprint")) && strings.Contains(callee, e.match) {
			return e.reason
		}
	}
	return ""
}

func countErrCalls(fn *ssa.Function) int {
	n := 0
	for _, b := range fn.Blocks {
		for _, in := range b.Instrs {
			ci, ok := in.(ssa.CallInstruction)
			if !ok {
				continue
			}
			res := ci.Common().Signature().Results()
			for i := 0; i < res.Len(); i++ {
				if res.At(i).Type() == errorType {
					n++
					break
				}
			}
		}
	}
	return n
}
