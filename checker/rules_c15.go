package main

import (
	"go/token"
	"go/types"

	"golang.org/x/tools/go/ssa"
)

func init() { register("C15", runC15) }

func runC15(c *Ctx) {
	c.Clause("C15.1 incoming streams: creation only beyond id<=maxStream (else STREAM_LIMIT_ERROR), maxStream written only by constructor/deleteStream after the map delete with the credit formula and paired MAX_STREAMS, deletion deferred for unaccepted streams")
	c.Clause("C15.2 outgoing streams: openStream only beyond nextStream<=maxStream after the latest lock acquisition, IDs advance by 4 in openStream only, STREAMS_BLOCKED once per limit, FIFO queue discipline")
	c.Clause("C15.3 direction/initiator dispatch: each per-type map is consulted only for IDs of its initiator; never-opened local streams raise STREAM_STATE_ERROR")
	c.Clause("C15.5 AcceptStream advances nextStreamToAccept by 4 exactly once per returned stream")
	c.Clause("C15.10 every Config is passed through validateConfig (stream limits clipped to 2^60) before populateConfig, the per-client Config of GetConfigForClient included")
	c.Clause("C15.8 the accept wake-up channel (signalled with a non-blocking send) has room for its token; C15.9 every refused OpenStream and every queued OpenStreamSync calls maybeSendBlockedFrame unconditionally")
	c.Clause("C15.6 the stream maps' state is accessed under their mutex; C15.7 AcceptStream re-signals newStreamChan when the next stream is already open (one token, several waiters)")
	c.Clause("all rules are evaluated for every instantiation of the generic maps")
	c.NotCovered("the counting bound over completion orders; fairness timing of OpenStreamSync wake-ups")

	c.rule("C15.1", func() { c15Incoming(c) })
	c.rule("C15.2", func() { c15Outgoing(c) })
	c.rule("C15.3", func() { c15Dispatch(c) })
	c.rule("C15.5", func() { c15Accept(c) })
	c.rule("C15.6", func() { c15Guarded(c) })
	c.rule("C15.7", func() { c15AcceptPassesWakeupOn(c) })
	c.rule("C15.8", func() { c15SignalChannelsBuffered(c) })
	c.rule("C15.9", func() { c15BlockedFrameForEveryBlockedOpen(c) })
	c.rule("C15.10", func() { configValidatedBeforeUse(c, "C15.10") })
}

// callsFieldFunc: call of a function value loaded from the given struct field.
func callsFieldFunc(f *types.Var) IP {
	return func(in ssa.Instruction) bool {
		ci, ok := in.(ssa.CallInstruction)
		if !ok || ci.Common().IsInvoke() {
			return false
		}
		return Load(f)(ci.Common().Value)
	}
}

func instName(f *ssa.Function) string {
	ta := f.TypeArgs()
	if len(ta) == 0 {
		return ""
	}
	s := "["
	for i, t := range ta {
		if i > 0 {
			s += ","
		}
		s += types.TypeString(t, func(p *types.Package) string { return "" })
	}
	return s + "]"
}

func c15Incoming(c *Ctx) {
	const R = "C15.1"
	T := "incomingStreamsMap"
	maxStream := c.fld("", T, "maxStream")
	streams := c.fld("", T, "streams")
	newStream := c.fld("", T, "newStream")
	nsto := c.fld("", T, "nextStreamToOpen")
	nsta := c.fld("", T, "nextStreamToAccept")
	mns := c.fld("", T, "maxNumStreams")
	qms := c.fld("", T, "queueMaxStreamID")
	sle := c.konst("internal/qerr", "StreamLimitError")
	overLimit := Rel{Op: token.GTR, X: ParamV("id"), Y: Load(maxStream)}

	goos := c.fns("", T, "GetOrOpenStream")
	c.Floor(R, "instantiations of GetOrOpenStream", len(goos), 2)
	for _, f := range goos {
		in := instName(f)
		creates := OrIP(callsFieldFunc(newStream), func(i ssa.Instruction) bool {
			mu, ok := i.(*ssa.MapUpdate)
			return ok && Load(streams)(mu.Map)
		})
		c.Floor(R, "stream creation sites"+in, countInstr(f, creates), 2)
		c.cut(R, "guard:stream created only for id<=maxStream"+in, &Cut{Fn: f, Target: creates, Edge: EdgeRel(overLimit, true)},
			"a new incoming stream is created only past the false edge of id > maxStream")
		c.cut(R, "guard:id>maxStream → STREAM_LIMIT_ERROR"+in, &Cut{Fn: f, Target: ReturnOtherThan(ReturnsErrCode(sle)), Edge: EdgeRel(overLimit, true)},
			"with the within-limit edge removed only the STREAM_LIMIT_ERROR return remains")
		// lower IDs are opened implicitly: the loop starts at nextStreamToOpen and nextStreamToOpen = id+4
		for _, in2 := range findInstrs(f, StoresTo(nsto)) {
			c.Check(BinV(token.ADD, ParamV("id"), ConstI(4))(in2.(*ssa.Store).Val), R, "shape:nextStreamToOpen=id+4"+in, c.P.InstrPos(in2), "the highest opened stream advances past the requested one")
		}
	}
	c.checkWriters(R, nsto, c.set([3]string{"", "", "newIncomingStreamsMap"}, [3]string{"", T, "GetOrOpenStream"}), 2)

	ws := c.checkWriters(R, maxStream, c.set([3]string{"", "", "newIncomingStreamsMap"}, [3]string{"", T, "deleteStream"}), 2)
	dels := c.fns("", T, "deleteStream")
	maxSID := c.konst("internal/protocol", "MaxStreamID")
	for _, f := range dels {
		in := instName(f)
		isDelete := func(i ssa.Instruction) bool {
			cl, ok := i.(*ssa.Call)
			return ok && builtinName(&cl.Call) == "delete" && Load(streams)(cl.Call.Args[0])
		}
		c.Floor(R, "map delete"+in, countInstr(f, isDelete), 1)
		c.cut(R, "guard:deletion deferred until accepted"+in, &Cut{Fn: f, Target: isDelete,
			Edge: EdgeRel(Rel{Op: token.LSS, X: ParamV("id"), Y: Load(nsta)}, false)}, "a stream not yet accepted is only marked, not deleted (no credit is re-issued for it)")
		for _, w := range ws[funcObj(f)] {
			if w.Fn != f {
				continue
			}
			site := w.Instr
			c.cut(R, "order:credit only after delete"+in, &Cut{Fn: f, Target: func(i ssa.Instruction) bool { return i == site }, Barrier: isDelete},
				"the limit is raised only after the completed stream left the map")
			shape := BinV(token.ADD, Load(nsto), BinV(token.MUL, ConstI(4), BinV(token.SUB, BinV(token.SUB, Load(mns), LenOf(Load(streams))), ConstI(1))))
			c.Check(shape(w.Val), R, "shape:maxStream=nextStreamToOpen+4*(maxNumStreams-len(streams)-1)"+in, c.P.InstrPos(site), "new credit = configured limit minus streams still open, counted from the highest opened stream")
			c.cut(R, "guard:credit only if limit exceeds open streams"+in, &Cut{Fn: f, Target: func(i ssa.Instruction) bool { return i == site },
				Edge: EdgeRel(Rel{Op: token.GTR, X: Load(mns), Y: LenOf(Load(streams))}, false)}, "no underflow of the credit computation")
			c.cut(R, "guard:maxStream<=MaxStreamID"+in, &Cut{Fn: f, Target: func(i ssa.Instruction) bool { return i == site },
				Edge: EdgeRel(Rel{Op: token.LEQ, X: Same(w.Val), Y: ConstOf(maxSID)}, false)}, "never beyond the maximum stream ID")
			c.cut(R, "pair:maxStream raised→MAX_STREAMS queued"+in, &Cut{Fn: f, Start: func(i ssa.Instruction) bool { return i == site }, Target: isReturn,
				Barrier: callsFieldFunc(qms)}, "every raise of the limit is announced to the peer")
		}
		// MAX_STREAMS frames only here, with MaxStreamNum from m.maxStream
		for _, i := range findInstrs(f, callsFieldFunc(qms)) {
			c.cut(R, "pair:MAX_STREAMS only after raising maxStream"+in, &Cut{Fn: f, Target: func(x ssa.Instruction) bool { return x == i }, Barrier: StoresTo(maxStream)},
				"MAX_STREAMS is only sent for a freshly raised limit")
		}
	}
	c.Floor(R, "instantiations of deleteStream", len(dels), 2)
}

func c15Outgoing(c *Ctx) {
	const R = "C15.2"
	T := "outgoingStreamsMap"
	nextStream := c.fld("", T, "nextStream")
	maxStream := c.fld("", T, "maxStream")
	blockedSent := c.fld("", T, "blockedSent")
	openQueue := c.fld("", T, "openQueue")
	streams := c.fld("", T, "streams")
	newStream := c.fld("", T, "newStream")
	qsb := c.fld("", T, "queueStreamIDBlocked")
	openStream := c.obj("", T, "openStream")
	lock := c.obj("sync", "RWMutex", "Lock")
	over := Rel{Op: token.GTR, X: Load(nextStream), Y: Load(maxStream)}

	c.checkCallers(R, openStream, c.set([3]string{"", T, "OpenStream"}, [3]string{"", T, "OpenStreamSync"}), 3)
	for _, name := range []string{"OpenStream", "OpenStreamSync"} {
		for _, f := range c.fns("", T, name) {
			in := instName(f)
			c.cut(R, "guard:openStream beyond nextStream<=maxStream since last Lock@"+name+in, &Cut{Fn: f, Start: CallsTo(lock), Target: CallsTo(openStream),
				Edge: EdgeRel(over, true)}, "after each acquisition of the mutex a stream is opened only past the false edge of nextStream > maxStream")
			c.Floor(R, "Lock calls in "+name+in, countInstr(f, CallsTo(lock)), 1)
		}
	}
	// OpenStream: also not while OpenStreamSync callers are queued
	for _, f := range c.fns("", T, "OpenStream") {
		c.cut(R, "guard:OpenStream yields to queued OpenStreamSync"+instName(f), &Cut{Fn: f, Target: CallsTo(openStream),
			Edge: EdgeRel(Rel{Op: token.LEQ, X: LenOf(Load(openQueue)), Y: ConstI(0)}, false)}, "waiting callers are served first")
	}
	for _, f := range c.fns("", T, "OpenStreamSync") {
		in := instName(f)
		// immediate path only with an empty queue
		firstLock := true
		_ = firstLock
		// FIFO: after openStream in the wake-up path the head is removed: store openQueue = openQueue[1:]
		pop := func(i ssa.Instruction) bool {
			st, ok := i.(*ssa.Store)
			if !ok || fieldOfAddress(st.Addr) != openQueue {
				return false
			}
			sl, ok := st.Val.(*ssa.Slice)
			return ok && Load(openQueue)(sl.X) && sl.Low != nil && ConstI(1)(sl.Low) && sl.High == nil
		}
		c.Floor(R, "queue pop openQueue[1:]"+in, countInstr(f, pop), 1)
		// every path that enqueued and then opened a stream pops the head before returning
		enq := func(i ssa.Instruction) bool {
			st, ok := i.(*ssa.Store)
			if !ok || fieldOfAddress(st.Addr) != openQueue {
				return false
			}
			cl, ok := st.Val.(*ssa.Call)
			return ok && builtinName(&cl.Call) == "append"
		}
		c.Floor(R, "enqueue"+in, countInstr(f, enq), 1)
		mu := c.obj("", T, "maybeUnblockOpenSync")
		c.cut(R, "pair:woken opener pops head and wakes next"+in, &Cut{Fn: f, Start: enq, Target: func(i ssa.Instruction) bool {
			if !isReturn(i) {
				return false
			}
			// returns after an openStream call
			return (&Cut{Fn: f, Start: enq, Target: func(x ssa.Instruction) bool { return x == i }, Barrier: CallsTo(openStream)}).Run() == nil
		}, Barrier: pop}, "a queued opener that obtains a stream removes itself from the head of the queue")
		c.cut(R, "pair:pop→maybeUnblockOpenSync"+in, &Cut{Fn: f, Start: pop, Target: isReturn, Barrier: CallsTo(mu)}, "after leaving the queue the next waiter is signalled")
		// cancellation path also signals the next waiter
		delFunc := func(i ssa.Instruction) bool {
			st, ok := i.(*ssa.Store)
			if !ok || fieldOfAddress(st.Addr) != openQueue {
				return false
			}
			cl, ok := st.Val.(*ssa.Call)
			if !ok {
				return false
			}
			o := calleeObj(&cl.Call)
			return o != nil && o.Name() == "DeleteFunc"
		}
		if n := countInstr(f, delFunc); n > 0 {
			c.cut(R, "pair:cancelled opener→maybeUnblockOpenSync"+in, &Cut{Fn: f, Start: delFunc, Target: isReturn, Barrier: CallsTo(mu)}, "a cancelled waiter hands the wake-up on")
		}
		c.Floor(R, "cancel removal"+in, countInstr(f, delFunc), 1)
	}
	ws := c.checkWriters(R, nextStream, c.set([3]string{"", "", "newOutgoingStreamsMap"}, [3]string{"", T, "openStream"}), 2)
	for _, f := range c.fns("", T, "openStream") {
		in := instName(f)
		for _, w := range ws[funcObj(f)] {
			if w.Fn != f {
				continue
			}
			c.Check(BinV(token.ADD, Load(nextStream), ConstI(4))(w.Val), R, "shape:nextStream+=4"+in, c.P.InstrPos(w.Instr), "IDs of one type and initiator are 4 apart and strictly increasing")
			site := w.Instr
			// newStream(nextStream) and the map insert happen before the increment
			c.cut(R, "order:stream created with the pre-increment ID"+in, &Cut{Fn: f, Start: func(i ssa.Instruction) bool { return i == site }, Target: OrIP(callsFieldFunc(newStream), func(i ssa.Instruction) bool {
				mu, ok := i.(*ssa.MapUpdate)
				return ok && Load(streams)(mu.Map)
			})}, "creation and registration use the ID before it is advanced")
		}
		for _, i := range findInstrs(f, callsFieldFunc(newStream)) {
			c.Check(Load(nextStream)(i.(ssa.CallInstruction).Common().Args[0]), R, "shape:newStream(nextStream)"+in, c.P.InstrPos(i), "the stream gets the next ID")
		}
		for _, i := range findInstrs(f, func(i ssa.Instruction) bool { mu, ok := i.(*ssa.MapUpdate); return ok && Load(streams)(mu.Map) }) {
			c.Check(Load(nextStream)(i.(*ssa.MapUpdate).Key), R, "shape:streams[nextStream]=s"+in, c.P.InstrPos(i), "registered under the same ID")
		}
	}

	// STREAMS_BLOCKED once per limit
	bws := c.checkWriters(R, blockedSent, c.set([3]string{"", T, "maybeSendBlockedFrame"}, [3]string{"", T, "SetMaxStream"}), 2)
	for _, f := range c.fns("", T, "maybeSendBlockedFrame") {
		in := instName(f)
		c.cut(R, "guard:STREAMS_BLOCKED only if not yet sent"+in, &Cut{Fn: f, Target: callsFieldFunc(qsb), Edge: EdgeRel(BoolTrue(Load(blockedSent)), true)}, "at most one STREAMS_BLOCKED per limit")
		c.cut(R, "pair:STREAMS_BLOCKED→blockedSent=true"+in, &Cut{Fn: f, Start: callsFieldFunc(qsb), Target: isReturn, Barrier: func(i ssa.Instruction) bool {
			st, ok := i.(*ssa.Store)
			return ok && fieldOfAddress(st.Addr) == blockedSent && isConstBool(st.Val, true)
		}}, "sending is remembered")
		c.Floor(R, "STREAMS_BLOCKED send"+in, countInstr(f, callsFieldFunc(qsb)), 1)
	}
	// queueStreamIDBlocked is called nowhere else
	nq := 0
	for _, f := range c.P.ScopeFuncs() {
		eachInstr(f, func(i ssa.Instruction) {
			if callsFieldFunc(qsb)(i) {
				nq++
				c.Check(rootFn(f).Name() == "maybeSendBlockedFrame", R, "site:queueStreamIDBlocked@"+funcName(rootFn(f)), c.P.InstrPos(i), "STREAMS_BLOCKED frames originate only from maybeSendBlockedFrame")
			}
		})
	}
	c.Floor(R, "queueStreamIDBlocked call sites", nq, 2)
	mws := c.checkWriters(R, maxStream, c.set([3]string{"", "", "newOutgoingStreamsMap"}, [3]string{"", T, "SetMaxStream"}), 2)
	for _, f := range c.fns("", T, "SetMaxStream") {
		in := instName(f)
		raise := EdgeRel(Rel{Op: token.GTR, X: ParamV("id"), Y: Load(maxStream)}, false)
		for _, w := range mws[funcObj(f)] {
			if w.Fn != f {
				continue
			}
			site := w.Instr
			c.Check(ParamV("id")(w.Val), R, "shape:maxStream=id"+in, c.P.InstrPos(site), "the peer's limit as received")
			c.cut(R, "guard:maxStream monotone"+in, &Cut{Fn: f, Target: func(i ssa.Instruction) bool { return i == site }, Edge: raise}, "MAX_STREAMS can only raise the limit")
		}
		for _, w := range bws[funcObj(f)] {
			if w.Fn != f {
				continue
			}
			site := w.Instr
			c.cut(R, "guard:blockedSent cleared only by a higher limit"+in, &Cut{Fn: f, Target: func(i ssa.Instruction) bool { return i == site }, Edge: raise}, "a duplicate or lower MAX_STREAMS does not re-enable STREAMS_BLOCKED")
		}
		mu := c.obj("", T, "maybeUnblockOpenSync")
		c.cut(R, "pair:limit raised→waiter signalled"+in, &Cut{Fn: f, Start: StoresTo(maxStream), Target: isReturn, Barrier: CallsTo(mu), DeferBarrier: true}, "new credit wakes the head of the queue")
	}
	// maybeUnblockOpenSync signals index 0
	for _, f := range c.fns("", T, "maybeUnblockOpenSync") {
		in := instName(f)
		n := 0
		eachInstr(f, func(i ssa.Instruction) {
			var ch ssa.Value
			switch x := i.(type) {
			case *ssa.Send:
				ch = x.Chan
			case *ssa.Select:
				for _, st := range x.States {
					if st.Dir == types.SendOnly {
						ch = st.Chan
					}
				}
			}
			if ch == nil {
				return
			}
			n++
			u, ok := ch.(*ssa.UnOp)
			var ia *ssa.IndexAddr
			if ok {
				ia, _ = u.X.(*ssa.IndexAddr)
			}
			c.Check(ia != nil && Load(openQueue)(ia.X) && ConstI(0)(ia.Index), R, "shape:signal openQueue[0]"+in, c.P.InstrPos(i), "the longest-waiting caller is woken")
			c.cut(R, "guard:signal only with credit"+in, &Cut{Fn: f, Target: func(x ssa.Instruction) bool { return x == i }, Edge: EdgeRel(over, true)}, "a waiter is only woken when a stream can be opened")
		})
		c.Floor(R, "signal sites"+in, n, 1)
	}
}

func c15Dispatch(c *Ctx) {
	const R = "C15.3"
	sse := c.konst("internal/qerr", "StreamStateError")
	persp := c.fld("", "streamsMap", "perspective")
	initBy := c.obj("internal/protocol", "StreamID", "InitiatedBy")
	own := Rel{Op: token.EQL, X: CallTo(initBy, -1), Y: Load(persp)}
	fields := map[string]bool{"outgoingBidiStreams": true, "outgoingUniStreams": true, "incomingBidiStreams": false, "incomingUniStreams": false}
	for _, name := range []string{"getSendStream", "getReceiveStream", "DeleteStream"} {
		f := c.fn("", "streamsMap", name)
		n := 0
		eachInstr(f, func(i ssa.Instruction) {
			cl, ok := i.(*ssa.Call)
			if !ok || cl.Call.IsInvoke() || len(cl.Call.Args) == 0 {
				return
			}
			fld, _ := loadedField(cl.Call.Args[0])
			if fld == nil {
				return
			}
			outgoing, known := fields[fld.Name()]
			if !known {
				return
			}
			n++
			c.cut(R, "dispatch:"+name+"→"+fld.Name(), &Cut{Fn: f, Target: func(x ssa.Instruction) bool { return x == i }, Edge: EdgeRel(own, !outgoing)},
				"the outgoing maps are consulted only for IDs this endpoint initiates, the incoming maps only for the peer's")
			// unidirectional direction discipline
			if name == "getSendStream" {
				c.Check(fld.Name() != "incomingUniStreams", R, "dispatch:getSendStream never uses incomingUniStreams", c.P.InstrPos(i), "a peer-initiated unidirectional stream has no send side")
			}
			if name == "getReceiveStream" {
				c.Check(fld.Name() != "outgoingUniStreams", R, "dispatch:getReceiveStream never uses outgoingUniStreams", c.P.InstrPos(i), "a locally initiated unidirectional stream has no receive side")
			}
		})
		c.Floor(R, "dispatch sites in "+name, n, 3)
		if name != "DeleteStream" {
			c.Floor(R, "STREAM_STATE_ERROR exits in "+name, countInstr(f, ReturnsErrCode(sse)), 1)
		}
	}
	// outgoing.GetStream: id >= nextStream → STREAM_STATE_ERROR
	nextStream := c.fld("", "outgoingStreamsMap", "nextStream")
	streams := c.fld("", "outgoingStreamsMap", "streams")
	for _, f := range c.fns("", "outgoingStreamsMap", "GetStream") {
		in := instName(f)
		opened := Rel{Op: token.LSS, X: ParamV("id"), Y: Load(nextStream)}
		c.cut(R, "guard:never-opened local stream → STREAM_STATE_ERROR"+in, &Cut{Fn: f, Target: ReturnOtherThan(ReturnsErrCode(sse)), Edge: EdgeRel(opened, false)},
			"with the id < nextStream edge removed only STREAM_STATE_ERROR remains")
		c.cut(R, "guard:lookup only for opened IDs"+in, &Cut{Fn: f, Target: func(i ssa.Instruction) bool {
			l, ok := i.(*ssa.Lookup)
			return ok && Load(streams)(l.X)
		}, Edge: EdgeRel(opened, false)}, "the map is consulted only for IDs that were opened")
	}
}

func c15Accept(c *Ctx) {
	const R = "C15.5"
	T := "incomingStreamsMap"
	nsta := c.fld("", T, "nextStreamToAccept")
	streams := c.fld("", T, "streams")
	ws := c.checkWriters(R, nsta, c.set([3]string{"", "", "newIncomingStreamsMap"}, [3]string{"", T, "AcceptStream"}), 2)
	for _, f := range c.fns("", T, "AcceptStream") {
		in := instName(f)
		var sites []ssa.Instruction
		for _, w := range ws[funcObj(f)] {
			if w.Fn == f {
				sites = append(sites, w.Instr)
				c.Check(BinV(token.ADD, Load(nsta), ConstI(4))(w.Val), R, "shape:nextStreamToAccept+=4"+in, c.P.InstrPos(w.Instr), "accept order is ID order")
			}
		}
		c.Check(len(sites) == 1, R, "once:single advance site"+in, c.P.Pos(f.Pos()), "exactly one place advances the accept cursor")
		if len(sites) != 1 {
			continue
		}
		site := sites[0]
		is := func(i ssa.Instruction) bool { return i == site }
		c.cut(R, "once:advance not in a loop"+in, &Cut{Fn: f, Start: is, Target: is}, "the cursor cannot advance twice in one call")
		c.cut(R, "pair:stream returned ⇒ cursor advanced"+in, &Cut{Fn: f, Target: func(i ssa.Instruction) bool {
			r, ok := i.(*ssa.Return)
			return ok && !IsNil()(retResults(r)[0])
		}, Barrier: is}, "every return that hands out a stream has advanced the cursor")
		// the stream returned is the entry looked up under the cursor: the lookup key is the loaded cursor
		nl := 0
		eachInstr(f, func(i ssa.Instruction) {
			l, ok := i.(*ssa.Lookup)
			if !ok || !Load(streams)(l.X) {
				return
			}
			nl++
			c.Check(onlyFrom(l.Index, func(v ssa.Value) bool { return Load(nsta)(v) }, 0), R, "shape:lookup streams[nextStreamToAccept]"+in, c.P.InstrPos(i), "the accepted stream is the one at the cursor")
		})
		c.Floor(R, "cursor lookups"+in, nl, 1)
		// advance only after a successful lookup (ok == true)
		c.cut(R, "guard:advance only when the stream exists"+in, &Cut{Fn: f, Target: is, Edge: func(ifi *ssa.If, s int) bool {
			ex, ok := condCore(ifi.Cond).(*ssa.Extract)
			if !ok || ex.Index != 1 {
				return false
			}
			l, ok := ex.Tuple.(*ssa.Lookup)
			return ok && Load(streams)(l.X) && EdgeImplies(ifi, s, BoolTrue(func(v ssa.Value) bool { return v == ex }), false)
		}}, "the cursor moves only past a stream that exists")
	}
}
