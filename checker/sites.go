package main

// WMW — who may write a field; call-site enumeration — who may call a function.

import (
	"go/token"
	"go/types"
	"sort"

	"golang.org/x/tools/go/ssa"
)

// WriteSite is one write access to a struct field.
type WriteSite struct {
	Fn    *ssa.Function
	Instr ssa.Instruction
	Kind  string    // store | mapupdate | elemstore | addr-escape
	Val   ssa.Value // stored value for direct stores
}

// rootFn returns the outermost enclosing declared function (closures are attributed to
// the function that contains them).
func rootFn(f *ssa.Function) *ssa.Function {
	for f.Parent() != nil {
		f = f.Parent()
	}
	return f
}

// Writers enumerates every write to the field in scope functions (and, if extra is
// given, in those too).
func (p *Prog) Writers(field *types.Var) []WriteSite {
	field = field.Origin()
	var out []WriteSite
	for _, f := range p.ScopeFuncs() {
		if f.Synthetic != "" && f.Parent() == nil && funcObj(f) == nil {
			continue
		}
		eachInstr(f, func(in ssa.Instruction) {
			switch x := in.(type) {
			case *ssa.Store:
				if fa, ok := x.Addr.(*ssa.FieldAddr); ok && fieldOfAddr(fa) == field {
					out = append(out, WriteSite{f, in, "store", x.Val})
				} else if fieldOfAddress(x.Addr) == field {
					out = append(out, WriteSite{f, in, "elemstore", x.Val})
				}
			case *ssa.MapUpdate:
				if g, _ := loadedField(x.Map); g == field {
					out = append(out, WriteSite{f, in, "mapupdate", x.Value})
				}
			case *ssa.Call:
				// delete(m.f, k), clear(m.f)
				if bn := builtinName(&x.Call); bn == "delete" || bn == "clear" {
					if g, _ := loadedField(x.Call.Args[0]); g == field {
						out = append(out, WriteSite{f, in, "mapupdate", nil})
					}
				}
			case *ssa.FieldAddr:
				if fieldOfAddr(x) != field {
					return
				}
				// address escapes: any referrer that is not a load, a store *to* it, or
				// a FieldAddr/IndexAddr further into it used the same way
				if addrEscapes(x, 0) {
					out = append(out, WriteSite{f, in, "addr-escape", nil})
				}
			}
		})
	}
	sort.SliceStable(out, func(i, j int) bool {
		if out[i].Fn.String() != out[j].Fn.String() {
			return out[i].Fn.String() < out[j].Fn.String()
		}
		return out[i].Instr.Pos() < out[j].Instr.Pos()
	})
	return out
}

func addrEscapes(v ssa.Value, depth int) bool {
	refs := v.Referrers()
	if refs == nil {
		return false
	}
	for _, r := range *refs {
		switch x := r.(type) {
		case *ssa.UnOp:
			if x.Op == token.MUL {
				continue
			}
			return true
		case *ssa.Store:
			if x.Addr == v {
				continue
			}
			return true // address stored somewhere
		case *ssa.FieldAddr:
			if depth < 4 && !addrEscapes(x, depth+1) {
				continue
			}
			return true
		case *ssa.IndexAddr:
			if depth < 4 && !addrEscapes(x, depth+1) {
				continue
			}
			return true
		case *ssa.DebugRef:
			continue
		case ssa.CallInstruction:
			// method call on the field's address: e.g. c.mutex.Lock(), c.timer.Reset():
			// this is how sync/atomic/time-typed fields are used; it is a use, not a plain
			// store. Reported as escape so rules decide per field.
			return true
		default:
			return true
		}
	}
	return false
}

// CallSite is one reference to a function.
type CallSite struct {
	Fn    *ssa.Function // containing function
	Instr ssa.Instruction
	Kind  string // call | defer | go | invoke | value
}

// CallSites enumerates, over scope functions, every static call of target, every
// interface invoke that may dispatch to it (the receiver type implements the
// interface and the method name matches), and every use of it as a function value.
func (p *Prog) CallSites(target *types.Func) []CallSite {
	target = target.Origin()
	if p.callSiteCache == nil {
		p.callSiteCache = map[*types.Func][]CallSite{}
	}
	if cs, ok := p.callSiteCache[target]; ok {
		return cs
	}
	out := p.callSites(target)
	p.callSiteCache[target] = out
	return out
}

func (p *Prog) callSites(target *types.Func) []CallSite {
	var recvT types.Type
	if sig := target.Type().(*types.Signature); sig.Recv() != nil {
		recvT = sig.Recv().Type()
	}
	var out []CallSite
	for _, f := range p.ScopeFuncs() {
		if f.Synthetic != "" && f.Parent() == nil && funcObj(f) == nil {
			continue // wrappers
		}
		eachInstr(f, func(in ssa.Instruction) {
			if ci, ok := in.(ssa.CallInstruction); ok {
				c := ci.Common()
				kind := "call"
				switch in.(type) {
				case *ssa.Defer:
					kind = "defer"
				case *ssa.Go:
					kind = "go"
				}
				if c.IsInvoke() {
					if c.Method.Name() == target.Name() && recvT != nil {
						if it, ok := c.Value.Type().Underlying().(*types.Interface); ok {
							if c.Method.Origin() == target || implementsLoose(recvT, it) {
								out = append(out, CallSite{f, in, "invoke"})
							}
						}
					}
				} else if o := calleeObj(c); o == target {
					out = append(out, CallSite{f, in, kind})
				}
			}
			// function-value uses
			for _, op := range in.Operands(nil) {
				if *op == nil {
					continue
				}
				if fn, ok := (*op).(*ssa.Function); ok {
					if ci, ok := in.(ssa.CallInstruction); ok && ci.Common().Value == fn {
						continue // the callee position
					}
					if boundTarget(fn) == target {
						out = append(out, CallSite{f, in, "value"})
					}
				}
			}
		})
	}
	sort.SliceStable(out, func(i, j int) bool {
		if out[i].Fn.String() != out[j].Fn.String() {
			return out[i].Fn.String() < out[j].Fn.String()
		}
		return out[i].Instr.Pos() < out[j].Instr.Pos()
	})
	return out
}

// implementsLoose: T or *T implements it (generic receivers: compare method sets by name when instantiation unknown).
func implementsLoose(recv types.Type, it *types.Interface) bool {
	if types.Implements(recv, it) {
		return true
	}
	if _, isPtr := recv.(*types.Pointer); !isPtr {
		if types.Implements(types.NewPointer(recv), it) {
			return true
		}
	}
	// generic receiver: fall back to name-based method-set inclusion
	if n := namedOf(recv); n != nil && n.TypeParams().Len() > 0 {
		ms := types.NewMethodSet(types.NewPointer(n))
		for i := 0; i < it.NumMethods(); i++ {
			if ms.Lookup(it.Method(i).Pkg(), it.Method(i).Name()) == nil {
				return false
			}
		}
		return true
	}
	return false
}

// fnSet helps with allowed-writer/caller sets keyed by declared function.
type fnSet map[*types.Func]bool

func (s fnSet) has(f *ssa.Function) bool {
	o := funcObj(rootFn(f))
	return o != nil && s[o]
}

func (p *Prog) FnSet(specs ...[3]string) (fnSet, error) {
	s := fnSet{}
	for _, sp := range specs {
		o, err := p.FuncObj(sp[0], sp[1], sp[2])
		if err != nil {
			return nil, err
		}
		s[o.Origin()] = true
	}
	return s, nil
}
