package main

import (
	"fmt"
	"sort"
	"strings"

	"golang.org/x/tools/go/ssa"
)

// explorations are diagnostic listings used while building rule tables (not checks).
var explorations = map[string]func(p *Prog){
	"nil": func(p *Prog) {
		us := p.nilUses(func(string) bool { return true })
		bad := 0
		byPkg := map[string][2]int{}
		for _, u := range us {
			k := funcPkgPath(u.Fn)
			c := byPkg[k]
			c[0]++
			if !u.OK {
				c[1]++
				bad++
				fmt.Printf("UNGUARDED %s %s in %s: %s (%s)\n", u.Kind, p.InstrPos(u.Instr), funcName(u.Fn), instrString(u.Instr), u.Why)
			}
			byPkg[k] = c
		}
		var ks []string
		for k := range byPkg {
			ks = append(ks, k)
		}
		sort.Strings(ks)
		for _, k := range ks {
			fmt.Printf("%-70s uses=%d unguarded=%d\n", k, byPkg[k][0], byPkg[k][1])
		}
		fmt.Printf("total uses=%d unguarded=%d\n", len(us), bad)
	},
}

func init() {
	explorations["sib-ppc"] = func(p *Prog) {
		for _, recv := range []string{"packetPacker", "uPacketPacker"} {
			f, err := p.Func1("", recv, "PackCoalescedPacket")
			if err != nil {
				fmt.Println(err)
				return
			}
			o := &sibOpts{Rename: uRename}
			var es []string
			for e := range summarize(f, o, 0, nil, map[*ssa.Function]bool{}) {
				es = append(es, e)
			}
			sort.Strings(es)
			fmt.Println("==", recv)
			for _, e := range es {
				if strings.Contains(e, "maybeGetCryptoPacket") {
					fmt.Println("  ", e)
				}
			}
		}
	}
}

func init() {
	explorations["wait"] = func(p *Prog) {
		ws := p.waitSites(func(pk string) bool { return pk == modPath || pk == modPath+"/http3" })
		for _, w := range ws {
			fmt.Printf("%-9s %-34s %-58s %s\n", w.Kind, p.InstrPos(w.Instr), funcName(w.Fn), strings.Join(w.Classes, "  "))
		}
		fmt.Println("sites:", len(ws))
	}
}
