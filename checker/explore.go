package main

import (
	"fmt"
	"go/ast"
	"go/types"
	"sort"
	"strings"

	"golang.org/x/tools/go/ssa"
)

// explorations are diagnostic listings used while building rule tables (not checks).
var explorations = map[string]func(p *Prog){
	"nil": func(p *Prog) {
		us := p.nilUses(func(string) bool { return true })
		bad := 0
		byPkg := map[string][2]int{}
		for _, u := range us {
			k := funcPkgPath(u.Fn)
			c := byPkg[k]
			c[0]++
			if !u.OK {
				c[1]++
				bad++
				fmt.Printf("UNGUARDED %s %s in %s: %s (%s)\n", u.Kind, p.InstrPos(u.Instr), funcName(u.Fn), instrString(u.Instr), u.Why)
			}
			byPkg[k] = c
		}
		var ks []string
		for k := range byPkg {
			ks = append(ks, k)
		}
		sort.Strings(ks)
		for _, k := range ks {
			fmt.Printf("%-70s uses=%d unguarded=%d\n", k, byPkg[k][0], byPkg[k][1])
		}
		fmt.Printf("total uses=%d unguarded=%d\n", len(us), bad)
	},
}

func init() {
	explorations["sib-ppc"] = func(p *Prog) {
		for _, recv := range []string{"packetPacker", "uPacketPacker"} {
			f, err := p.Func1("", recv, "PackCoalescedPacket")
			if err != nil {
				fmt.Println(err)
				return
			}
			o := &sibOpts{Rename: uRename}
			var es []string
			for e := range summarize(f, o, 0, nil, map[*ssa.Function]bool{}) {
				es = append(es, e)
			}
			sort.Strings(es)
			fmt.Println("==", recv)
			for _, e := range es {
				if strings.Contains(e, "maybeGetCryptoPacket") {
					fmt.Println("  ", e)
				}
			}
		}
	}
}

func init() {
	explorations["wait"] = func(p *Prog) {
		ws := p.waitSites(func(pk string) bool { return pk == modPath || pk == modPath+"/http3" })
		for _, w := range ws {
			fmt.Printf("%-9s %-34s %-58s %s\n", w.Kind, p.InstrPos(w.Instr), funcName(w.Fn), strings.Join(w.Classes, "  "))
		}
		fmt.Println("sites:", len(ws))
	}
}

func init() {
	explorations["bnd"] = func(p *Prog) {
		roots, missing := bndWireRoots(p)
		for _, m := range missing {
			fmt.Println("MISSING ROOT", m)
		}
		inPkg := func(pk string) bool {
			return pk == modPath+"/internal/wire" || pk == modPath+"/quicvarint" || pk == modPath+"/internal/protocol"
		}
		fns := p.reachStatic(roots, inPkg)
		unp, err := compilerUnproven(p.RepoDir, p.GOARCH, []string{"./internal/wire/", "./quicvarint/", "./internal/protocol/"})
		if err != nil {
			fmt.Println(err)
			return
		}
		sites := p.bndSites(fns, unp, nil)
		cnt := map[string]int{}
		for _, s := range sites {
			if s.OK {
				cnt[s.How]++
				if s.How == "F" {
					fmt.Printf("F   %-38s %s: %s\n", p.InstrPos(s.Instr), s.Expr, s.Why)
				}
			} else {
				cnt["open"]++
				fmt.Printf("OPEN %-38s %s: %s\n", p.InstrPos(s.Instr), s.Expr, s.Why)
			}
		}
		fmt.Printf("functions=%d sites=%d %v unproven-by-compiler=%d\n", len(fns), len(sites), cnt, len(unp))
	}
}

func init() {
	explorations["bnd2"] = func(p *Prog) {
		type scope struct {
			name  string
			roots [][3]string
			pkgs  []string
			build []string
		}
		scopes := []scope{
			{"handshake", [][3]string{{"internal/handshake", "TokenGenerator", "DecodeToken"}, {"internal/handshake", "sessionTicket", "Unmarshal"}, {"internal/handshake", "tokenProtector", "DecodeToken"}}, []string{"/internal/handshake"}, []string{"./internal/handshake/"}},
			{"http3", [][3]string{{h3, "frameParser", "ParseNext"}, {h3, "", "ParseCapsule"}, {h3, "", "parseHeaders"}, {h3, "", "parseTrailers"}, {h3, "rawConn", "receiveDatagrams"}, {h3, "", "parseSettingsFrame"}}, []string{"/http3"}, []string{"./http3/"}},
			{"unpacker", [][3]string{{"", "packetUnpacker", "UnpackLongHeader"}, {"", "packetUnpacker", "UnpackShortHeader"}, {"", "Transport", "maybeHandleStatelessReset"}, {"", "Conn", "handleOnePacket"}, {"", "Conn", "handleRetryPacket"}, {"", "Conn", "handleVersionNegotiationPacket"}, {"", "Conn", "handleShortHeaderPacket"}, {"", "Conn", "handleLongHeaderPacket"}, {"", "closedLocalConn", "handlePacket"}, {"", "baseServer", "handlePacketImpl"}, {"", "baseServer", "handleInitialImpl"}, {"", "baseServer", "handle0RTTPacket"}, {"", "Transport", "handlePacket"}}, []string{"NONE"}, []string{"."}},
			{"unpack-private", [][3]string{{"", "packetUnpacker", "unpackLongHeaderPacket"}, {"", "packetUnpacker", "unpackShortHeaderPacket"}, {"", "packetUnpacker", "unpackShortHeader"}, {"", "packetUnpacker", "unpackLongHeader"}, {"", "packetUnpacker", "UnpackLongHeader"}, {"", "packetUnpacker", "UnpackShortHeader"}}, []string{"NONE"}, []string{"."}},
			{"hp", [][3]string{{"internal/handshake", "aesHeaderProtector", "apply"}, {"internal/handshake", "chachaHeaderProtector", "apply"}, {"internal/handshake", "longHeaderOpener", "Open"}, {"internal/handshake", "updatableAEAD", "Open"}, {"internal/handshake", "updatableAEAD", "open"}, {"internal/handshake", "longHeaderSealer", "Seal"}, {"internal/handshake", "updatableAEAD", "Seal"}, {"internal/handshake", "", "GetRetryIntegrityTag"}}, []string{"NONE"}, []string{"./internal/handshake/"}},
			{"sni", [][3]string{{"", "", "findSNIAndECH"}, {"", "initialCryptoStream", "Write"}, {"", "initialCryptoStream", "PopCryptoFrame"}}, []string{""}, []string{"."}},
			{"uquic-builders", [][3]string{{"", "QUICFrames", "Build"}, {"", "QUICFrames", "BuildForDatagram"}, {"", "QUICRandomFrames", "Build"}, {"", "QUICFlightFrames", "BuildFlight"}, {"", "QUICRandomFlightFrames", "BuildFlight"}, {"", "uPacketPacker", "MarshalInitialPacketPayload"}, {"", "uPacketPacker", "planInitialFlight"}, {"", "uPacketPacker", "plannedInitialPayload"}}, []string{""}, []string{"."}},
		}
		for _, sc := range scopes {
			var roots []*ssa.Function
			for _, r := range sc.roots {
				f, err := p.Func1(r[0], r[1], r[2])
				if err != nil {
					fmt.Println("MISSING", r)
					continue
				}
				roots = append(roots, f)
			}
			inPkg := func(pk string) bool {
				for _, s := range sc.pkgs {
					if pk == modPath+s {
						return true
					}
				}
				return false
			}
			fns := p.reachStatic(roots, inPkg)
			if len(sc.pkgs) == 1 && sc.pkgs[0] == "NONE" {
				fns = nil
				for _, r := range roots {
					fns = append(fns, withAnon(r)...)
				}
			}
			unp, err := compilerUnproven(p.RepoDir, p.GOARCH, sc.build)
			if err != nil {
				fmt.Println(err)
				continue
			}
			sites := p.bndSites(fns, unp, nil)
			cnt := map[string]int{}
			for _, s := range sites {
				if s.OK {
					cnt[s.How]++
				} else {
					cnt["open"]++
					fmt.Printf("OPEN %-34s %s: %s\n", p.InstrPos(s.Instr), s.Expr, s.Why)
				}
			}
			fmt.Printf("== %s functions=%d sites=%d %v unproven-by-compiler=%d\n", sc.name, len(fns), len(sites), cnt, len(unp))
		}
	}
}

func init() {
	explorations["lock"] = func(p *Prog) {
		acc := p.lockAnalysis(func(pk string) bool {
			return pk == modPath || pk == modPath+"/http3" || pk == modPath+"/internal/flowcontrol"
		})
		// group by field: owner struct's mutex fields
		type stat struct {
			under, total int
			by           map[*types.Var]int
			free         []string
		}
		stats := map[*types.Var]*stat{}
		for _, a := range acc {
			owner := fieldOwnerAny(p, a.Field)
			if owner == nil {
				continue
			}
			st, _ := owner.Underlying().(*types.Struct)
			if st == nil {
				continue
			}
			var mus []*types.Var
			for i := 0; i < st.NumFields(); i++ {
				if typeIs(st.Field(i).Type(), "sync", "Mutex") || typeIs(st.Field(i).Type(), "sync", "RWMutex") {
					mus = append(mus, st.Field(i))
				}
			}
			if len(mus) == 0 || typeIs(a.Field.Type(), "sync", "Mutex") || typeIs(a.Field.Type(), "sync", "RWMutex") {
				continue
			}
			s := stats[a.Field]
			if s == nil {
				s = &stat{by: map[*types.Var]int{}}
				stats[a.Field] = s
			}
			s.total++
			held := false
			for _, m := range mus {
				if a.Held[m] {
					s.by[m]++
					held = true
				}
			}
			if held {
				s.under++
			} else {
				w := "r"
				if a.Write {
					w = "W"
				}
				s.free = append(s.free, w+" "+funcName(a.Fn)+" "+p.InstrPos(a.Instr))
			}
		}
		var fs []*types.Var
		for f := range stats {
			fs = append(fs, f)
		}
		sort.Slice(fs, func(i, j int) bool {
			oi, oj := fieldOwnerAny(p, fs[i]), fieldOwnerAny(p, fs[j])
			if oi.String() != oj.String() {
				return oi.String() < oj.String()
			}
			return fs[i].Name() < fs[j].Name()
		})
		for _, f := range fs {
			s := stats[f]
			if s.under == 0 {
				continue
			}
			fmt.Printf("%-60s %-28s under=%d/%d\n", fieldOwnerAny(p, f).String(), f.Name(), s.under, s.total)
			if s.under < s.total {
				for _, x := range s.free {
					fmt.Printf("      unlocked: %s\n", x)
				}
			}
		}
	}
}

var ownerAnyCache = map[*types.Var]types.Type{}

func fieldOwnerAny(p *Prog, f *types.Var) types.Type {
	if t, ok := ownerAnyCache[f]; ok {
		return t
	}
	for _, pk := range p.Pkgs {
		if !InRepo(pk.PkgPath) {
			continue
		}
		sc := pk.Types.Scope()
		for _, name := range sc.Names() {
			tn, ok := sc.Lookup(name).(*types.TypeName)
			if !ok {
				continue
			}
			st, ok := tn.Type().Underlying().(*types.Struct)
			if !ok {
				continue
			}
			for i := 0; i < st.NumFields(); i++ {
				if st.Field(i).Origin() == f.Origin() {
					ownerAnyCache[f] = tn.Type()
					return tn.Type()
				}
			}
		}
	}
	ownerAnyCache[f] = nil
	return nil
}

// errUse classifies what happens to the error a call returns.
type errDrop struct {
	Fn    *ssa.Function
	Call  ssa.CallInstruction
	Kind  string // "discarded" (no result taken), "unread" (taken, never read)
	Calee string
}

var errorType = types.Universe.Lookup("error").Type()

// droppedErrors lists, in fn, the calls whose error result is never read.
func droppedErrors(fn *ssa.Function) []errDrop {
	var out []errDrop
	realRefs := func(v ssa.Value) int {
		rs := v.Referrers()
		if rs == nil {
			return 0
		}
		n := 0
		for _, r := range *rs {
			if _, dbg := r.(*ssa.DebugRef); dbg {
				continue
			}
			n++
		}
		return n
	}
	for _, b := range fn.Blocks {
		for _, in := range b.Instrs {
			ci, ok := in.(ssa.CallInstruction)
			if !ok {
				continue
			}
			sig := ci.Common().Signature()
			res := sig.Results()
			ei := -1
			for i := 0; i < res.Len(); i++ {
				if types.Identical(res.At(i).Type(), errorType) {
					ei = i
				}
			}
			if ei < 0 {
				continue
			}
			name := "?"
			if g := ci.Common().StaticCallee(); g != nil {
				name = funcName(g)
			} else if ci.Common().IsInvoke() {
				name = "invoke " + ci.Common().Method.FullName()
			} else if fl, _ := loadedField(stripConv(ci.Common().Value)); fl != nil {
				name = "field " + fl.Name()
			} else {
				name = "func value"
			}
			cl, isCall := in.(*ssa.Call)
			if !isCall {
				// go / defer: the error cannot be read
				out = append(out, errDrop{fn, ci, "discarded (" + strings.ToLower(fmt.Sprintf("%T", in)[5:]) + ")", name})
				continue
			}
			if res.Len() == 1 {
				if realRefs(cl) == 0 {
					out = append(out, errDrop{fn, ci, "discarded", name})
				}
				continue
			}
			found := false
			unread := false
			if rs := cl.Referrers(); rs != nil {
				for _, r := range *rs {
					if ex, ok := r.(*ssa.Extract); ok && ex.Index == ei {
						found = true
						if realRefs(ex) == 0 {
							unread = true
						}
					}
				}
			}
			if !found {
				out = append(out, errDrop{fn, ci, "discarded", name})
			} else if unread {
				out = append(out, errDrop{fn, ci, "unread", name})
			}
		}
	}
	return out
}

func init() {
	explorations["errs"] = func(p *Prog) {
		n := 0
		byCallee := map[string]int{}
		for _, f := range p.ScopeFuncs() {
			for _, d := range droppedErrors(f) {
				n++
				byCallee[d.Calee]++
				fmt.Printf("%-10s %-40s %-60s %s\n", d.Kind, p.InstrPos(d.Call), funcName(f), d.Calee)
			}
		}
		fmt.Println("dropped:", n)
		var ks []string
		for k := range byCallee {
			ks = append(ks, k)
		}
		sort.Slice(ks, func(i, j int) bool { return byCallee[ks[i]] > byCallee[ks[j]] })
		for _, k := range ks {
			fmt.Printf("  %4d %s\n", byCallee[k], k)
		}
	}
}

func init() {
	explorations["anchored"] = func(p *Prog) {
		// every top-level function declared in a file some property is anchored in, with its size
		for i := 1; i <= 20; i++ {
			prop := fmt.Sprintf("C%02d", i)
			c := NewCtx(p, prop, "thorough")
			for _, name := range anchoredFuncs(c) {
				f := scopeFuncByNameInit(p)[name]
				n := 0
				if f != nil {
					for _, g := range withAnon(f) {
						for _, b := range g.Blocks {
							n += len(b.Instrs)
						}
					}
				}
				fmt.Printf("%s\t%s\t%d\n", prop, name, n)
			}
		}
	}
}

func scopeFuncByNameInit(p *Prog) map[string]*ssa.Function {
	if scopeFuncByName == nil {
		scopeFuncByName = map[string]*ssa.Function{}
		for _, f := range p.ScopeFuncs() {
			if _, dup := scopeFuncByName[funcName(f)]; !dup {
				scopeFuncByName[funcName(f)] = f
			}
		}
	}
	return scopeFuncByName
}

func init() {
	explorations["rangemut"] = func(p *Prog) {
		// range over a selector (x.f) whose body assigns to the same selector
		for _, pk := range p.Pkgs {
			if !InRepo(pk.PkgPath) {
				continue
			}
			for _, file := range pk.Syntax {
				if strings.HasSuffix(p.Fset.Position(file.Pos()).Filename, "_test.go") {
					continue
				}
				ast.Inspect(file, func(n ast.Node) bool {
					rs, ok := n.(*ast.RangeStmt)
					if !ok {
						return true
					}
					sel := types.ExprString(rs.X)
					if !strings.Contains(sel, ".") {
						return true
					}
					ast.Inspect(rs.Body, func(m ast.Node) bool {
						as, ok := m.(*ast.AssignStmt)
						if !ok {
							return true
						}
						for _, l := range as.Lhs {
							if types.ExprString(l) == sel {
								fmt.Printf("%s: range %s; body assigns it at %s\n", p.Pos(rs.Pos()), sel, p.Pos(as.Pos()))
							}
						}
						return true
					})
					return true
				})
			}
		}
	}
}
