package main

import (
	"fmt"
	"go/constant"
	"go/token"
	"go/types"

	"golang.org/x/tools/go/ssa"
)

const cong = "internal/congestion"
const hsk = "internal/handshake"

func init() {
	register("C14", runC14)
	register("C20", runC20)
}

func runC14(c *Ctx) {
	c.Clause("C14.1 isAmplificationLimited = ¬peerAddressValidated ∧ bytesSent ≥ 3·bytesReceived; every SendMode other than SendNone lies beyond its false edge; triggerSending packs nothing under SendNone")
	c.Clause("C14.2 bytesSent/bytesReceived/peerAddressValidated: who may write, store shapes, validation only on a server Handshake packet or from the constructor flag")
	c.Clause("C14.3 the address-validated flag given to a new server connection is validateToken's result (or false); validateToken's address and age checks each return false; Retry connection IDs are taken from the token only for Retry tokens")
	c.Clause("C14.4 DecodeToken has no fallback: AEAD failure, ASN.1 failure and trailing bytes are errors; the protector returns aead.Open's result as is")
	c.Clause("C14.5 the budget counts real datagram sizes: ReceivedBytes gets the dequeued datagram's Size() = len(data); every SentPacket size in the root package is a packet's recorded length, which is len(raw) of the slice by which the packet buffer grew")
	c.Clause("C14.6 every sendQueue.Send / conn.Write in a method of Conn is preceded by the registration of the packet with the sent-packet handler (the charge against the budget)")
	c.NotCovered("the running 3x inequality over arrival/loss histories and the '+ one packet' slack")
	c.NotCovered("cryptographic strength of token sealing")

	c.rule("C14.1", func() { c14Limit(c) })
	c.rule("C14.2", func() { c14Counters(c) })
	c.rule("C14.3", func() { c14Server(c) })
	c.rule("C14.3", func() { c14Encode(c) })
	c.rule("C14.4", func() { c14Token(c) })
	c.rule("C14.5", func() { c14AccountingOrigins(c) })
	c.rule("C14.6", func() { c14EverySendIsCharged(c) })
}

func c14Limit(c *Ctx) {
	const R = "C14.1"
	ial := c.fn(ah, "sentPacketHandler", "isAmplificationLimited")
	pav := c.fld(ah, "sentPacketHandler", "peerAddressValidated")
	bs := c.fld(ah, "sentPacketHandler", "bytesSent")
	br := c.fld(ah, "sentPacketHandler", "bytesReceived")
	af := c.konst(ah, "amplificationFactor")
	c.Check(constInt(af) == 3, R, "const:amplificationFactor==3", "-", "RFC 9000 §8: three times the bytes received")
	n := 0
	eachInstr(ial, func(i ssa.Instruction) {
		r, ok := i.(*ssa.Return)
		if !ok {
			return
		}
		n++
		v := retResults(r)[0]
		if isConstBool(v, false) {
			c.Check(dominatedByEdge(r.Block(), BoolTrue(Load(pav)), false), R, "shape:unlimited only when validated", c.P.InstrPos(i), "`false` is returned only on the peerAddressValidated edge")
			return
		}
		ok = BinV(token.GEQ, Load(bs), BinV(token.MUL, ConstOf(af), Load(br)))(v)
		c.Check(ok, R, "shape:bytesSent>=3*bytesReceived", c.P.InstrPos(i), "the limit predicate")
	})
	c.Floor(R, "returns of isAmplificationLimited", n, 2)

	sm := c.fn(ah, "sentPacketHandler", "SendMode")
	ialObj := c.obj(ah, "sentPacketHandler", "isAmplificationLimited")
	sendNone := c.konst(ah, "SendNone")
	c.cut(R, "guard:SendMode≠SendNone beyond ¬isAmplificationLimited", &Cut{Fn: sm,
		Target: func(i ssa.Instruction) bool {
			r, ok := i.(*ssa.Return)
			return ok && !ConstOf(sendNone)(retResults(r)[0])
		}, Edge: EdgeRel(BoolTrue(CallTo(ialObj, -1)), true)}, "any mode that permits sending is returned only on the not-limited edge")

	// triggerSending: under SendNone no packing function is reached
	ts := c.fn("", "Conn", "triggerSending")
	smI := c.obj(ah, "SentPacketHandler", "SendMode")
	packers := []*types.Func{c.obj("", "Conn", "sendPackets"), c.obj("", "Conn", "maybeSendAckOnlyPacket"), c.obj("", "Conn", "sendProbePacket")}
	// remove every edge establishing mode != SendNone... i.e. follow only mode == SendNone and default-less fallthrough
	c.cut(R, "guard:no packing under SendNone", &Cut{Fn: ts, Target: CallsTo(packers...),
		Edge: func(ifi *ssa.If, s int) bool {
			// an edge that establishes sendMode == K for K != SendNone
			b, ok := condCore(ifi.Cond).(*ssa.BinOp)
			if !ok || b.Op != token.EQL || !CallTo(smI, -1)(b.X) {
				return false
			}
			return s == 0 && !ConstOf(sendNone)(b.Y)
		}}, "with all `mode == K≠SendNone` edges removed, no packing call is reachable")
	c.Floor(R, "packing calls in triggerSending", countInstr(ts, CallsTo(packers...)), 4)
}

func c14Counters(c *Ctx) {
	const R = "C14.2"
	bs := c.fld(ah, "sentPacketHandler", "bytesSent")
	br := c.fld(ah, "sentPacketHandler", "bytesReceived")
	pav := c.fld(ah, "sentPacketHandler", "peerAddressValidated")
	sp := c.fn(ah, "sentPacketHandler", "SentPacket")
	ws := c.checkWriters(R, bs, c.set([3]string{ah, "sentPacketHandler", "SentPacket"}), 1)
	for _, w := range ws[funcObj(sp)] {
		c.Check(BinV(token.ADD, Load(bs), ParamV("size"))(w.Val), R, "shape:bytesSent+=size", c.P.InstrPos(w.Instr), "every sent packet's size is counted")
		c.cut(R, "guard:bytesSent counted for every packet", &Cut{Fn: sp, Target: isReturn, Barrier: func(i ssa.Instruction) bool { return i == w.Instr }},
			"no return of SentPacket is reachable without counting the bytes (probe packets, non-ack-eliciting packets included)")
	}
	rb := c.fn(ah, "sentPacketHandler", "ReceivedBytes")
	ws = c.checkWriters(R, br, c.set([3]string{ah, "sentPacketHandler", "ReceivedBytes"}), 1)
	for _, w := range ws[funcObj(rb)] {
		c.Check(BinV(token.ADD, Load(br), ParamV("n"))(w.Val), R, "shape:bytesReceived+=n", c.P.InstrPos(w.Instr), "received bytes are counted as given")
	}
	// each datagram's bytes are reported exactly once: where it is taken from the receive queue,
	// not where a (possibly replayed) packet is handled
	rbI := c.obj(ah, "SentPacketHandler", "ReceivedBytes")
	c.checkCallers(R, rbI, c.set([3]string{"", "Conn", "handlePackets"}), 1)
	hp := c.fn("", "Conn", "handlePackets")
	hop := c.obj("", "Conn", "handleOnePacket")
	c.cut(R, "pair:dequeued datagram counted before it is handled", &Cut{Fn: hp, Target: CallsTo(hop), Barrier: CallsTo(rbI)}, "every datagram taken from the receive queue is counted towards the amplification budget")
	c.cut(R, "once:no second count for the same datagram", &Cut{Fn: hp, Start: CallsTo(rbI), Target: CallsTo(rbI), Barrier: CallsTo(hop)}, "one count per handled datagram")
	ws = c.checkWriters(R, pav, c.set([3]string{ah, "", "NewSentPacketHandler"}, [3]string{ah, "sentPacketHandler", "ReceivedPacket"}), 2)
	rp := c.fn(ah, "sentPacketHandler", "ReceivedPacket")
	persp := c.fld(ah, "sentPacketHandler", "perspective")
	srv := c.konst("internal/protocol", "PerspectiveServer")
	hsL := c.konst("internal/protocol", "EncryptionHandshake")
	for _, w := range ws[funcObj(rp)] {
		c.cut(R, "guard:validated only on Handshake packet", &Cut{Fn: rp, Target: func(i ssa.Instruction) bool { return i == w.Instr },
			Edge: EdgeRel(Rel{Op: token.EQL, X: ParamV("l"), Y: ConstOf(hsL)}, false)}, "only a successfully processed Handshake packet validates the address")
		c.cut(R, "guard:validated only as server", &Cut{Fn: rp, Target: func(i ssa.Instruction) bool { return i == w.Instr },
			Edge: EdgeRel(Rel{Op: token.EQL, X: Load(persp), Y: ConstOf(srv)}, false)}, "server side only")
	}
	ctor := c.fn(ah, "", "NewSentPacketHandler")
	cli := c.konst("internal/protocol", "PerspectiveClient")
	for _, w := range ws[funcObj(ctor)] {
		// value: pers == client || clientAddressValidated  (φ of true and the parameter)
		okv := false
		if ph, ok := w.Val.(*ssa.Phi); ok && len(ph.Edges) == 2 {
			okv = (isConstBool(ph.Edges[0], true) && ParamV("clientAddressValidated")(ph.Edges[1])) || (isConstBool(ph.Edges[1], true) && ParamV("clientAddressValidated")(ph.Edges[0]))
			// the `true` edge is the pers==client edge
			var ifi *ssa.If
			for _, p := range ph.Block().Preds {
				if x, ok := p.Instrs[len(p.Instrs)-1].(*ssa.If); ok {
					ifi = x
				}
			}
			okv = okv && ifi != nil && (EdgeImplies(ifi, 0, Rel{Op: token.EQL, X: ParamV("pers"), Y: ConstOf(cli)}, false))
		}
		c.Check(okv, R, "shape:peerAddressValidated=(client||clientAddressValidated)", c.P.InstrPos(w.Instr), "a server starts unvalidated unless the caller vouches for the address")
	}
}

func c14Server(c *Ctx) {
	const R = "C14.3"
	hi := c.fn("", "baseServer", "handleInitialImpl")
	vt := c.obj("", "baseServer", "validateToken")
	newConn := c.fld("", "baseServer", "newConn")
	n := 0
	eachInstr(hi, func(i ssa.Instruction) {
		cl, ok := i.(*ssa.Call)
		if !ok || !Load(newConn)(cl.Call.Value) {
			return
		}
		n++
		// find the bool argument that is the address-validated flag: position from the field's signature
		sig := newConn.Type().Underlying().(*types.Signature)
		idx := -1
		for k := 0; k < sig.Params().Len(); k++ {
			if b, ok := sig.Params().At(k).Type().Underlying().(*types.Basic); ok && b.Kind() == types.Bool {
				idx = k
			}
		}
		if !c.Check(idx >= 0, R, "shape:newConn has a bool parameter", c.P.InstrPos(i), "address-validated flag parameter") {
			return
		}
		arg := cl.Call.Args[idx]
		okv := onlyFrom(arg, func(v ssa.Value) bool { return isConstBool(v, false) || CallTo(vt, -1)(v) }, 0)
		c.Check(okv, R, "origin:clientAddressValidated=validateToken()|false", c.P.InstrPos(i), "the flag that lifts the amplification limit is validateToken's verdict on this packet's address, or false")
	})
	c.Floor(R, "newConn calls in handleInitialImpl", n, 1)
	// validateToken is given the packet's remote address
	for _, in := range findInstrs(hi, CallsTo(vt)) {
		a := in.(ssa.CallInstruction).Common().Args[2]
		f, _ := loadedField(a)
		c.Check(f != nil && f.Name() == "remoteAddr", R, "origin:validateToken(addr=p.remoteAddr)", c.P.InstrPos(in), "the token is validated against the address the packet came from")
	}
	// connection IDs from the token only for Retry tokens
	isRetry := c.fld(hsk, "Token", "IsRetryToken")
	odcid := c.fld(hsk, "Token", "OriginalDestConnectionID")
	rscid := c.fld(hsk, "Token", "RetrySrcConnectionID")
	nl := 0
	eachInstr(hi, func(i ssa.Instruction) {
		var f *types.Var
		switch x := i.(type) {
		case *ssa.UnOp:
			f, _ = loadedField(x)
		case *ssa.FieldAddr:
			f = fieldOfAddr(x)
		}
		if f != odcid && f != rscid {
			return
		}
		nl++
		c.cut(R, "guard:"+f.Name()+" read only for Retry tokens", &Cut{Fn: hi, Target: func(x ssa.Instruction) bool { return x == i },
			Edge: EdgeRel(BoolTrue(Load(isRetry)), false)}, "connection IDs are taken from the token only under tok.IsRetryToken")
	})
	c.Floor(R, "reads of token connection IDs", nl, 2)

	v := c.fn("", "baseServer", "validateToken")
	vra := c.obj(hsk, "Token", "ValidateRemoteAddr")
	c.cut(R, "guard:address check", &Cut{Fn: v, Target: func(i ssa.Instruction) bool {
		r, ok := i.(*ssa.Return)
		return ok && !isConstBool(retResults(r)[0], false)
	}, Edge: EdgeRel(BoolTrue(CallToArgs0(vra, ParamV("addr"))), false)}, "`true` is only reachable on the ValidateRemoteAddr(addr)==true edge")
	c.cut(R, "guard:nil token", &Cut{Fn: v, Target: func(i ssa.Instruction) bool {
		r, ok := i.(*ssa.Return)
		return ok && !isConstBool(retResults(r)[0], false)
	}, Edge: EdgeRel(Rel{Op: token.NEQ, X: ParamV("token"), Y: IsNil()}, false)}, "`true` is only reachable for a non-nil token")
	// two age comparisons, each leading to false
	since := c.obj("time", "", "Since")
	sent := c.fld(hsk, "Token", "SentTime")
	na := 0
	for _, b := range v.Blocks {
		ifi, ok := b.Instrs[len(b.Instrs)-1].(*ssa.If)
		if !ok {
			continue
		}
		bo, ok := condCore(ifi.Cond).(*ssa.BinOp)
		if !ok || bo.Op != token.GTR || !CallTo(since, -1, Load(sent))(bo.X) {
			continue
		}
		na++
		// true edge → return false only
		okAll := true
		seen := map[*ssa.BasicBlock]bool{}
		var walk func(x *ssa.BasicBlock)
		walk = func(x *ssa.BasicBlock) {
			if seen[x] {
				return
			}
			seen[x] = true
			for _, in := range x.Instrs {
				if r, ok := in.(*ssa.Return); ok && !isConstBool(retResults(r)[0], false) {
					okAll = false
				}
			}
			for _, s := range x.Succs {
				walk(s)
			}
		}
		walk(b.Succs[0])
		c.Check(okAll, R, "guard:token age exceeded → invalid", c.P.InstrPos(ifi), "an expired token never validates")
		c.Check(dominatedByEdge(b, BoolTrue(Load(isRetry)), false) || dominatedByEdge(b, BoolTrue(Load(isRetry)), true), R, "guard:age limit selected by token kind", c.P.InstrPos(ifi), "each age limit applies to its token kind")
	}
	c.Floor(R, "age checks in validateToken", na, 2)
	// Token.ValidateRemoteAddr compares encodings with bytes.Equal
	vraFn := c.fn(hsk, "Token", "ValidateRemoteAddr")
	beq := c.obj("bytes", "", "Equal")
	enc := c.obj(hsk, "", "encodeRemoteAddr")
	era := c.fld(hsk, "Token", "encodedRemoteAddr")
	c.returnsAll(R, "shape:ValidateRemoteAddr=bytes.Equal(encode(addr),stored)", vraFn, 0, func(v ssa.Value) bool {
		cl, ok := v.(*ssa.Call)
		if !ok || calleeObj(&cl.Call) != beq {
			return false
		}
		a, b := cl.Call.Args[0], cl.Call.Args[1]
		m := func(x, y ssa.Value) bool { return CallTo(enc, -1, ParamV("addr"))(x) && Load(era)(y) }
		return m(a, b) || m(b, a)
	}, "the address check is an exact comparison with the address the token was issued for")
}

// CallToArgs0 matches a call of fn with args (receiver dropped) — value pattern form.
func CallToArgs0(fn *types.Func, args ...VP) VP { return CallTo(fn, -1, args...) }

// onlyFrom: v is built only from values accepted by ok, through φ and conversions.
func onlyFrom(v ssa.Value, ok func(ssa.Value) bool, depth int) bool {
	if depth > 10 {
		return false
	}
	v = stripConv(v)
	if ok(v) {
		return true
	}
	switch x := v.(type) {
	case *ssa.Phi:
		for _, e := range x.Edges {
			if e == v {
				continue
			}
			if !onlyFrom(e, ok, depth+1) {
				return false
			}
		}
		return true
	case *ssa.UnOp:
		// load of a local cell: all stores must qualify
		if al, isAl := x.X.(*ssa.Alloc); isAl && x.Op == token.MUL && al.Referrers() != nil {
			n := 0
			for _, r := range *al.Referrers() {
				if st, isSt := r.(*ssa.Store); isSt && st.Addr == al {
					n++
					if !onlyFrom(st.Val, ok, depth+1) {
						return false
					}
				}
			}
			// zero value of bool is false
			return n > 0 || true
		}
	}
	return false
}

// c14Encode: the address bound into a token is the whole address.
func c14Encode(c *Ctx) {
	const R = "C14.3"
	f := c.fn(hsk, "", "encodeRemoteAddr")
	ipF := c.fld("net", "UDPAddr", "IP")
	n := 0
	eachInstr(f, func(i ssa.Instruction) {
		r, ok := i.(*ssa.Return)
		if !ok {
			return
		}
		n++
		cl, ok := retResults(r)[0].(*ssa.Call)
		if !ok || builtinName(&cl.Call) != "append" {
			c.Bad(R, "shape:encodeRemoteAddr returns prefix+address", c.P.InstrPos(i), "unexpected return shape")
			return
		}
		arg := stripConv(cl.Call.Args[1])
		// either the UDP address's IP field itself, or []byte(addr.String())
		okv := Load(ipF)(arg)
		if sc, isCall := arg.(*ssa.Call); isCall && sc.Call.IsInvoke() && sc.Call.Method.Name() == "String" {
			okv = ParamV("remoteAddr")(sc.Call.Value)
		}
		if cv, isConv := cl.Call.Args[1].(*ssa.Convert); isConv {
			if sc, isCall := cv.X.(*ssa.Call); isCall && sc.Call.IsInvoke() && sc.Call.Method.Name() == "String" {
				okv = ParamV("remoteAddr")(sc.Call.Value)
			}
		}
		c.Check(okv, R, fmt.Sprintf("shape:token binds the unmodified address #%d", n), c.P.InstrPos(i), "the bytes bound into (and compared with) a token are the complete IP / address string, not a prefix or normalisation of it")
	})
	c.Floor(R, "returns of encodeRemoteAddr", n, 2)
	// both token constructors and the validator use encodeRemoteAddr
	enc := c.obj(hsk, "", "encodeRemoteAddr")
	c.checkCallers(R, enc, c.set([3]string{hsk, "TokenGenerator", "NewRetryToken"}, [3]string{hsk, "TokenGenerator", "NewToken"}, [3]string{hsk, "Token", "ValidateRemoteAddr"}), 3)
}

func c14Token(c *Ctx) {
	const R = "C14.4"
	dt := c.fn(hsk, "TokenGenerator", "DecodeToken")
	pdt := c.obj(hsk, "tokenProtector", "DecodeToken")
	unm := c.obj("encoding/asn1", "", "Unmarshal")
	nonNilTok := func(i ssa.Instruction) bool {
		r, ok := i.(*ssa.Return)
		return ok && !IsNil()(retResults(r)[0])
	}
	c.Floor(R, "returns of a token", countInstr(dt, nonNilTok), 1)
	c.cut(R, "guard:token only after protector success", &Cut{Fn: dt, Target: nonNilTok,
		Edge: EdgeRel(Rel{Op: token.EQL, X: CallTo(pdt, 1), Y: IsNil()}, false)}, "a *Token is returned only on the err==nil edge of tokenProtector.DecodeToken")
	c.cut(R, "guard:token only after asn1 success", &Cut{Fn: dt, Target: nonNilTok,
		Edge: EdgeRel(Rel{Op: token.EQL, X: CallTo(unm, 1), Y: IsNil()}, false)}, "… and on the err==nil edge of asn1.Unmarshal")
	c.cut(R, "guard:token only without trailing bytes", &Cut{Fn: dt, Target: nonNilTok,
		Edge: EdgeRel(Rel{Op: token.EQL, X: LenOf(CallTo(unm, 0)), Y: ConstI(0)}, false)}, "… and with no bytes left over")
	// data decoded is the protector's output
	for _, in := range findInstrs(dt, CallsTo(unm)) {
		c.Check(CallTo(pdt, 0)(in.(ssa.CallInstruction).Common().Args[0]), R, "origin:asn1 input is the opened token", c.P.InstrPos(in), "only authenticated bytes are parsed")
	}
	// Retry IDs copied only for retry tokens
	// protector: length guard, then aead.Open result returned as is
	p := c.fn(hsk, "tokenProtector", "DecodeToken")
	nonce := c.konst(hsk, "tokenNonceSize")
	openOK := func(v ssa.Value) bool {
		cl, ok := stripConv(v).(*ssa.Call)
		if ex, isEx := stripConv(v).(*ssa.Extract); isEx {
			cl, ok = ex.Tuple.(*ssa.Call)
		}
		return ok && cl.Call.IsInvoke() && cl.Call.Method.Name() == "Open"
	}
	nOpen := 0
	eachInstr(p, func(i ssa.Instruction) {
		r, ok := i.(*ssa.Return)
		if !ok {
			return
		}
		res := retResults(r)
		if IsNil()(res[0]) {
			return // error path
		}
		nOpen++
		c.Check(openOK(res[0]) && openOK(res[1]), R, "shape:protector returns aead.Open()", c.P.InstrPos(i), "the plaintext and error are exactly AEAD Open's results")
	})
	c.Floor(R, "AEAD Open returns", nOpen, 1)
	c.cut(R, "guard:token length ≥ nonce size", &Cut{Fn: p, Target: func(i ssa.Instruction) bool {
		sl, ok := i.(*ssa.Slice)
		return ok && ParamV("p")(sl.X)
	}, Edge: EdgeRel(Rel{Op: token.GEQ, X: LenOf(ParamV("p")), Y: ConstOf(nonce)}, false)}, "slicing the nonce off is only reached for tokens at least as long as the nonce")
}

// ---------------- C20 ----------------

func runC20(c *Ctx) {
	c.Clause("C20.1 congestionWindow: who may write; on the ACK path every store is an increase or max(window, min(max, ·)), under isCwndLimited and below the maximum; not in recovery")
	c.Clause("C20.2 OnCongestionEvent: one reduction per window of packets (largestSentAtLastCutback guard and update), clamp to the two-packet minimum")
	c.Clause("C20.3 CanSend = bytesInFlight < window; SendAny/SendPacingLimited only beyond CanSend")
	c.Clause("C20.4 pacer: overflow guards dominate the multiplication; Budget capped by maxBurstSize; 5/4 bandwidth factor")
	c.Clause("C20.5 isCwndLimited applies the half-window shortcut in slow start only; SetMaxDatagramSize evaluates the at-minimum test before storing the new size")
	c.Clause("C20.8 the pacer turns exactly the elapsed time into budget (no floor on the elapsed time)")
	c.Clause("C20.7 the ECN tracker (whose verdict triggers a congestion event) is consulted only for ACKs that advance the largest acknowledged, before that value is updated (the repository's stated precondition)")
	c.Clause("C20.6 probe credit, which bypasses the congestion check in SendMode, is written only by the timeout / ACK / send / drop paths and is reset by every processed ACK")
	c.Clause("C20.9 the packet numbers compared by the once-per-window guard come from one packet-number space")
	c.Clause("C20.10 the multiplicative-decrease factors (renoBeta, beta, betaLastMax) lie strictly between 0 and 1, and every reduction in OnCongestionEvent is the window times such a factor or the cubic's after-loss window (itself the window times beta()); the number of emulated connections in beta() is the constant ≥ 1 (its setter has no caller)")
	c.Clause("C20.11 the window a connection starts with (and returns to when the path changes) lies between the two-packet minimum and the maximum: minCongestionWindowPackets ≤ initialCongestionWindow ≤ MaxCongestionWindowPackets, NewCubicSender scales it by the datagram size it also installs, only the constructor writes the initial value")
	c.NotCovered("the numeric inequalities over event histories")
	c.NotCovered("cubic curve arithmetic beyond the sign of the decrease factors, and hybrid slow start")

	c.rule("C20.1", func() { c20Growth(c) })
	c.rule("C20.2", func() { c20Reduction(c) })
	c.rule("C20.9", func() { c20OneNumberSpaceForTheController(c) })
	c.rule("C20.3", func() { c20Gating(c) })
	c.rule("C20.4", func() { c20Pacer(c) })
	c.rule("C20.5", func() { c20AppLimitedAndMTU(c) })
	c.rule("C20.6", func() { c20ProbeCredit(c) })
	c.rule("C20.7", func() { c20ECNOnlyForAdvancingAcks(c) })
	c.rule("C20.8", func() { c20PacerElapsedTime(c) })
	c.rule("C20.10", func() { c20DecreaseFactors(c) })
	c.rule("C20.11", func() { c20InitialWindow(c) })
}

func c20InitialWindow(c *Ctx) {
	const R = "C20.11"
	minPk := c.konst(cong, "minCongestionWindowPackets")
	ini := c.konst(cong, "initialCongestionWindow")
	mcw := c.konst("internal/protocol", "MaxCongestionWindowPackets")
	c.Check(constInt(minPk) <= constInt(ini), R, "const:minCongestionWindowPackets<=initialCongestionWindow", c.P.Pos(ini.Pos()), "a connection does not start below the two-packet floor")
	c.Check(constInt(ini) <= constInt(mcw), R, "const:initialCongestionWindow<=MaxCongestionWindowPackets", c.P.Pos(ini.Pos()), "a connection does not start above the maximum window")
	ctor := c.fn(cong, "", "NewCubicSender")
	inner := c.obj(cong, "", "newCubicSender")
	sig := inner.Type().(*types.Signature)
	idx := map[string]int{}
	for i := 0; i < sig.Params().Len(); i++ {
		idx[sig.Params().At(i).Name()] = i
	}
	want := map[string]VP{
		"initialMaxDatagramSize":     ParamV("initialMaxDatagramSize"),
		"initialCongestionWindow":    BinV(token.MUL, ConstOf(ini), ParamV("initialMaxDatagramSize")),
	}
	calls := findInstrs(ctor, CallsTo(inner))
	c.Floor(R, "NewCubicSender→newCubicSender", len(calls), 1)
	for _, in := range calls {
		args := in.(ssa.CallInstruction).Common().Args
		for _, name := range []string{"initialMaxDatagramSize", "initialCongestionWindow"} {
			i, has := idx[name]
			c.Check(has && i < len(args) && want[name](args[i]), R, "arg:newCubicSender("+name+")", c.P.InstrPos(in),
				"the initial window is the constant times the datagram size the sender is created with, so initial ≥ 2 × datagram size and ≤ maximum follow from the constants")
		}
	}
	only := c.set([3]string{cong, "", "newCubicSender"})
	c.checkWriters(R, c.fld(cong, "cubicSender", "initialCongestionWindow"), only, 1)
}

// constFrac reports whether v is a floating-point constant strictly between 0 and 1.
func constFrac(v ssa.Value) bool {
	k, ok := stripConv(v).(*ssa.Const)
	if !ok || k.Value == nil {
		return false
	}
	f := constant.ToFloat(k.Value)
	if f.Kind() != constant.Float {
		return false
	}
	return constant.Compare(f, token.GTR, constant.MakeInt64(0)) && constant.Compare(f, token.LSS, constant.MakeInt64(1))
}

func c20DecreaseFactors(c *Ctx) {
	const R = "C20.10"
	for _, n := range []string{"renoBeta", "beta", "betaLastMax"} {
		k := c.konst(cong, n).(*types.Const)
		f := constant.ToFloat(k.Val())
		ok := f.Kind() == constant.Float && constant.Compare(f, token.GTR, constant.MakeInt64(0)) && constant.Compare(f, token.LSS, constant.MakeInt64(1))
		c.Check(ok, R, "const:0<"+n+"<1", c.P.Pos(k.Pos()), "a backoff factor of 1 or more does not shrink the window on loss; 0 or less collapses it below the minimum before the clamp")
	}
	// beta() = (N-1+beta)/N stays in (0,1) only for N ≥ 1: N comes from the constant, the setter has no caller
	nc := c.konst(cong, "defaultNumConnections")
	c.Check(constInt(nc) >= 1, R, "const:defaultNumConnections>=1", c.P.Pos(nc.Pos()), "with N = 0 the N-connection beta divides by zero and the after-loss window is no longer a fraction of the window")
	c.checkWriters(R, c.fld(cong, "Cubic", "numConnections"), c.set([3]string{cong, "", "NewCubic"}, [3]string{cong, "Cubic", "SetNumConnections"}), 2)
	c.checkCallers(R, c.obj(cong, "Cubic", "SetNumConnections"), c.set(), 0)
	cw := c.fld(cong, "cubicSender", "congestionWindow")
	oce := c.fn(cong, "cubicSender", "OnCongestionEvent")
	minCW := c.obj(cong, "cubicSender", "minCongestionWindow")
	afterLoss := c.obj(cong, "Cubic", "CongestionWindowAfterPacketLoss")
	betaM := c.obj(cong, "Cubic", "beta")
	isScaled := func(v ssa.Value, factor func(ssa.Value) bool) bool {
		b, ok := stripConv(v).(*ssa.BinOp)
		if !ok || b.Op != token.MUL {
			return false
		}
		return factor(b.X) || factor(b.Y)
	}
	n := 0
	for _, in := range findInstrs(oce, StoresTo(cw)) {
		st := in.(*ssa.Store)
		if CallTo(minCW, -1)(st.Val) {
			continue
		}
		n++
		ok := CallTo(afterLoss, -1)(st.Val) || (isScaled(st.Val, constFrac) && isScaled(st.Val, func(v ssa.Value) bool { return Load(cw)(stripConv(v)) }))
		c.Check(ok, R, "shape:reduction is window × factor", c.P.InstrPos(in), "on loss the new window is the old one times a factor in (0,1), or the cubic's after-loss window")
	}
	c.Floor(R, "reductions in OnCongestionEvent", n, 2)
	c.returnsAll(R, "shape:CongestionWindowAfterPacketLoss = window × beta()", c.fn(cong, "Cubic", "CongestionWindowAfterPacketLoss"), 0, func(v ssa.Value) bool {
		return isScaled(v, CallTo(betaM, -1)) && isScaled(v, func(x ssa.Value) bool { _, isP := stripConv(x).(*ssa.Parameter); return isP })
	}, "the after-loss window is the current window times the N-connection beta")
}

func c20Growth(c *Ctx) {
	const R = "C20.1"
	cw := c.fld(cong, "cubicSender", "congestionWindow")
	mds := c.fld(cong, "cubicSender", "maxDatagramSize")
	ws := c.checkWriters(R, cw, c.set(
		[3]string{cong, "", "newCubicSender"}, [3]string{cong, "cubicSender", "OnCongestionEvent"}, [3]string{cong, "cubicSender", "maybeIncreaseCwnd"},
		[3]string{cong, "cubicSender", "OnRetransmissionTimeout"}, [3]string{cong, "cubicSender", "OnConnectionMigration"}, [3]string{cong, "cubicSender", "SetMaxDatagramSize"}), 8)
	mi := c.fn(cong, "cubicSender", "maybeIncreaseCwnd")
	maxCW := c.obj(cong, "cubicSender", "maxCongestionWindow")
	limited := c.obj(cong, "cubicSender", "isCwndLimited")
	for _, w := range ws[funcObj(mi)] {
		// cw + maxDatagramSize, or max(cw, min(maximum, cubic estimate)): never below the old value. A bare
		// min(maximum, estimate) is not enough: the cubic estimate can be lower than the window (a smaller MinRTT sample
		// moves the evaluation point of the curve back; the cube overflows int64 after ~25 s) — findings/audit/C20-2, C20-3
		okv := BinV(token.ADD, Load(cw), Load(mds))(w.Val) || MinMaxOf("max", Load(cw), MinMaxOf("min", CallTo(maxCW, -1), Any()))(w.Val)
		c.Check(okv, R, "shape:ack-path store is cw+maxDatagramSize or max(cw, min(max,·))", c.P.InstrPos(w.Instr), "acknowledgements never shrink the window and never push it beyond the maximum by more than one packet")
		site := w.Instr
		c.cut(R, "guard:growth only when cwnd-limited", &Cut{Fn: mi, Target: func(i ssa.Instruction) bool { return i == site },
			Edge: EdgeRel(BoolTrue(CallTo(limited, -1, ParamV("priorInFlight"))), false)}, "the window grows only while the sender is window-limited")
		c.cut(R, "guard:growth only below the maximum", &Cut{Fn: mi, Target: func(i ssa.Instruction) bool { return i == site },
			Edge: EdgeRel(Rel{Op: token.LSS, X: Load(cw), Y: CallTo(maxCW, -1)}, false)}, "no growth at or above the maximum window")
	}
	c.Floor(R, "stores in maybeIncreaseCwnd", len(ws[funcObj(mi)]), 3)
	miObj := c.obj(cong, "cubicSender", "maybeIncreaseCwnd")
	c.checkCallers(R, miObj, c.set([3]string{cong, "cubicSender", "OnPacketAcked"}), 1)
	opa := c.fn(cong, "cubicSender", "OnPacketAcked")
	inRec := c.obj(cong, "cubicSender", "InRecovery")
	c.cut(R, "guard:no growth in recovery", &Cut{Fn: opa, Target: CallsTo(miObj), Edge: EdgeRel(BoolTrue(CallTo(inRec, -1)), true)}, "acks during recovery do not grow the window")
	// OnPacketAcked itself writes nothing to the window
	// maxCongestionWindow = maxDatagramSize * MaxCongestionWindowPackets
	mcw := c.konst("internal/protocol", "MaxCongestionWindowPackets")
	c.returnsAll(R, "shape:maxCongestionWindow", c.fn(cong, "cubicSender", "maxCongestionWindow"), 0, BinV(token.MUL, Load(mds), ConstOf(mcw)), "maximum window = packets × datagram size")
}

func c20Reduction(c *Ctx) {
	const R = "C20.2"
	cw := c.fld(cong, "cubicSender", "congestionWindow")
	mds := c.fld(cong, "cubicSender", "maxDatagramSize")
	lsalc := c.fld(cong, "cubicSender", "largestSentAtLastCutback")
	lspn := c.fld(cong, "cubicSender", "largestSentPacketNumber")
	oce := c.fn(cong, "cubicSender", "OnCongestionEvent")
	minCW := c.obj(cong, "cubicSender", "minCongestionWindow")
	minPk := c.konst(cong, "minCongestionWindowPackets")
	c.Check(constInt(minPk) == 2, R, "const:minCongestionWindowPackets==2", "-", "floor of two full-size packets")
	c.returnsAll(R, "shape:minCongestionWindow", c.fn(cong, "cubicSender", "minCongestionWindow"), 0, BinV(token.MUL, Load(mds), ConstOf(minPk)), "minimum window = 2 × datagram size")
	stores := findInstrs(oce, StoresTo(cw))
	c.Floor(R, "window stores in OnCongestionEvent", len(stores), 3)
	clamp := func(i ssa.Instruction) bool {
		st, ok := i.(*ssa.Store)
		return ok && fieldOfAddress(st.Addr) == cw && CallTo(minCW, -1)(st.Val)
	}
	c.Floor(R, "clamp store", countInstr(oce, clamp), 1)
	for _, in := range stores {
		site := in
		c.cut(R, "guard:one reduction per window of packets", &Cut{Fn: oce, Target: func(i ssa.Instruction) bool { return i == site },
			Edge: EdgeRel(Rel{Op: token.GTR, X: ParamV("packetNumber"), Y: Load(lsalc)}, false)}, "losses of packets sent before the last cutback do not reduce the window again")
		if clamp(in) {
			continue
		}
		c.cut(R, "post:reduction→clamp to minimum", &Cut{Fn: oce, Start: func(i ssa.Instruction) bool { return i == site }, Target: isReturn, Barrier: clamp,
			Edge: EdgeRel(Rel{Op: token.GEQ, X: Load(cw), Y: CallTo(minCW, -1)}, false)}, "after a reduction the window is at least the minimum (clamped or tested)")
		c.cut(R, "post:reduction→largestSentAtLastCutback updated", &Cut{Fn: oce, Start: func(i ssa.Instruction) bool { return i == site }, Target: isReturn,
			Barrier: func(i ssa.Instruction) bool {
				st, ok := i.(*ssa.Store)
				return ok && fieldOfAddress(st.Addr) == lsalc && Load(lspn)(st.Val)
			}}, "the recovery epoch is recorded so the next reduction waits for newer packets")
	}
	// the packet number reported with a congestion event is that of a lost / acknowledged packet,
	// never the largest sent one (which would start a new recovery epoch on every event)
	oceI := c.obj(cong, "SendAlgorithm", "OnCongestionEvent")
	largestAckedM := c.obj("internal/wire", "AckFrame", "LargestAcked")
	sites := c.checkCallers(R, oceI, c.set([3]string{ah, "sentPacketHandler", "ReceivedAck"}, [3]string{ah, "sentPacketHandler", "detectLostPackets"}), 2)
	for _, s := range sites {
		ci, ok := s.Instr.(ssa.CallInstruction)
		if !ok || len(ci.Common().Args) == 0 {
			continue
		}
		a := ci.Common().Args[0]
		okArg := CallTo(largestAckedM, -1)(a)
		if p, isP := stripConv(a).(*ssa.Parameter); isP && p.Parent() == s.Fn && s.Fn.Parent() != nil {
			okArg = true // the packet number yielded by the history iteration
		}
		if u, isU := stripConv(a).(*ssa.UnOp); isU {
			// loop variable spilled to a cell inside the yield closure
			if al, isAl := u.X.(*ssa.Alloc); isAl && s.Fn.Parent() != nil && isYieldParam(al, s.Fn) {
				okArg = true
			}
		}
		c.Check(okArg, R, "origin:OnCongestionEvent(packetNumber)@"+funcName(rootFn(s.Fn)), c.P.InstrPos(s.Instr),
			"the congestion event names the lost packet (or the ACK's largest acknowledged), so that losses within one window count as one event")
	}
}

func c20Gating(c *Ctx) {
	const R = "C20.3"
	cw := c.fld(cong, "cubicSender", "congestionWindow")
	gcw := c.obj(cong, "cubicSender", "GetCongestionWindow")
	c.returnsAll(R, "shape:GetCongestionWindow", c.fn(cong, "cubicSender", "GetCongestionWindow"), 0, Load(cw), "the window reported is the stored window")
	c.returnsAll(R, "shape:CanSend=bytesInFlight<window", c.fn(cong, "cubicSender", "CanSend"), 0, BinV(token.LSS, ParamV("bytesInFlight"), CallTo(gcw, -1)), "new data only while bytes in flight are strictly below the window")
	sm := c.fn(ah, "sentPacketHandler", "SendMode")
	canSend := c.obj(cong, "SendAlgorithm", "CanSend")
	bif := c.fld(ah, "sentPacketHandler", "bytesInFlight")
	sendAny := c.konst(ah, "SendAny")
	sendPL := c.konst(ah, "SendPacingLimited")
	c.cut(R, "guard:SendAny/SendPacingLimited beyond CanSend(bytesInFlight)", &Cut{Fn: sm,
		Target: func(i ssa.Instruction) bool {
			r, ok := i.(*ssa.Return)
			return ok && (ConstOf(sendAny)(retResults(r)[0]) || ConstOf(sendPL)(retResults(r)[0]))
		}, Edge: EdgeRel(BoolTrue(CallTo(canSend, -1, Load(bif))), false)}, "modes that release new ack-eliciting data are returned only on the CanSend(bytesInFlight)==true edge")
	c.Floor(R, "SendAny returns", countInstr(sm, func(i ssa.Instruction) bool {
		r, ok := i.(*ssa.Return)
		return ok && ConstOf(sendAny)(retResults(r)[0])
	}), 1)
	hpb := c.obj(cong, "SendAlgorithm", "HasPacingBudget")
	c.cut(R, "guard:SendAny beyond HasPacingBudget", &Cut{Fn: sm,
		Target: func(i ssa.Instruction) bool {
			r, ok := i.(*ssa.Return)
			return ok && ConstOf(sendAny)(retResults(r)[0])
		}, Edge: EdgeRel(BoolTrue(CallTo(hpb, -1)), false)}, "unrestricted sending requires pacing budget")
}

func c20Pacer(c *Ctx) {
	const R = "C20.4"
	tsb := c.fn(cong, "pacer", "timeScaledBandwidth")
	isMul := func(i ssa.Instruction) bool {
		b, ok := i.(*ssa.BinOp)
		if !ok || b.Op != token.MUL {
			return false
		}
		return ParamV("ns")(b.X) || ParamV("ns")(b.Y)
	}
	c.Floor(R, "bw*ns multiplication", countInstr(tsb, isMul), 1)
	adj := c.fld(cong, "pacer", "adjustedBandwidth")
	bwCall := func(v ssa.Value) bool {
		cl, ok := stripConv(v).(*ssa.Call)
		return ok && Load(adj)(cl.Call.Value)
	}
	c.cut(R, "guard:bw==0→0", &Cut{Fn: tsb, Target: isMul, Edge: EdgeRel(Rel{Op: token.NEQ, X: bwCall, Y: ConstI(0)}, false)}, "no division by / multiplication with a zero bandwidth")
	c.cut(R, "guard:overflow clamp", &Cut{Fn: tsb, Target: isMul,
		Edge: EdgeRel(Rel{Op: token.LEQ, X: ParamV("ns"), Y: BinV(token.QUO, Any(), bwCall)}, false)}, "bw*ns is only computed when ns <= MaxUint64/bw")
	bud := c.fn(cong, "pacer", "Budget")
	mbs := c.obj(cong, "pacer", "maxBurstSize")
	c.returnsAll(R, "shape:Budget capped by maxBurstSize", bud, 0, func(v ssa.Value) bool {
		return CallTo(mbs, -1)(v) || MinMaxOf("min", CallTo(mbs, -1), Any())(v)
	}, "the budget never exceeds one burst")
	// overflow clamp of the addition
	bals := c.fld(cong, "pacer", "budgetAtLastSent")
	nCl := 0
	for _, b := range bud.Blocks {
		if ifi, ok := b.Instrs[len(b.Instrs)-1].(*ssa.If); ok {
			if EdgeImplies(ifi, 0, Rel{Op: token.LSS, X: BinV(token.ADD, Load(bals), Any()), Y: Load(bals)}, false) {
				nCl++
			}
		}
	}
	c.Floor(R, "wrap-around test budget < budgetAtLastSent", nCl, 1)
	// 5/4 factor in the adjusted bandwidth closure
	np := c.fn(cong, "", "newPacer")
	n54 := 0
	for _, a := range np.AnonFuncs {
		eachInstr(a, func(i ssa.Instruction) {
			if r, ok := i.(*ssa.Return); ok {
				n54++
				c.Check(BinV(token.QUO, BinV(token.MUL, Any(), ConstI(5)), ConstI(4))(retResults(r)[0]), R, "const:pacing rate = 5/4 × bandwidth", c.P.InstrPos(i), "the 1.25 factor")
			}
		})
	}
	c.Floor(R, "adjusted bandwidth closure returns", n54, 1)
	hp := c.fn(cong, "cubicSender", "HasPacingBudget")
	budObj := c.obj(cong, "pacer", "Budget")
	mds := c.fld(cong, "cubicSender", "maxDatagramSize")
	c.returnsAll(R, "shape:HasPacingBudget", hp, 0, BinV(token.GEQ, CallTo(budObj, -1), Load(mds)), "a packet is released only with budget for a full datagram")
	// SentPacket: budget never negative
	spf := c.fn(cong, "pacer", "SentPacket")
	ws := c.checkWriters(R, bals, c.set([3]string{cong, "pacer", "SentPacket"}, [3]string{cong, "", "newPacer"}), 3)
	for _, w := range ws[funcObj(spf)] {
		okv := ConstI(0)(w.Val) || BinV(token.SUB, CallTo(budObj, -1), ParamV("size"))(w.Val)
		c.Check(okv, R, "shape:budgetAtLastSent=0|budget-size", c.P.InstrPos(w.Instr), "the remaining budget is the budget minus the packet, floored at zero")
		if !ConstI(0)(w.Val) {
			site := w.Instr
			c.cut(R, "guard:budget-size only when size<budget", &Cut{Fn: spf, Target: func(i ssa.Instruction) bool { return i == site },
				Edge: EdgeRel(Rel{Op: token.LSS, X: ParamV("size"), Y: CallTo(budObj, -1)}, false)}, "no underflow of the budget")
		}
	}
}
