package main

import (
	"go/token"
	"go/types"

	"golang.org/x/tools/go/ssa"
)

func init() { register("C03", runC03) }

func runC03(c *Ctx) {
	c.Clause("C03.1 release callbacks are linear: a queued entry's DoneCb is called only after the entry left the queue; when push releases the caller's buffer it stores a private copy (made before the release) with a nil callback; Pop hands the callback over together with removing the entry; the receive stream calls the current frame's callback only at the two hand-over points")
	c.Clause("C03.2 STREAM data is queued, and RESET_STREAM state recorded, only after the flow controller accepted the (final) offset; the offsets handed to the flow controller and to the sorter come from the same frame")
	c.Clause("C03.3 final-size contradictions are FINAL_SIZE_ERROR, window overruns FLOW_CONTROL_ERROR, too many gaps an error before anything is stored")
	c.Clause("C03.4 CRYPTO data is queued only within MaxCryptoStreamOffset and before the stream finished; Finish refuses while data is pending")
	c.Clause("C03.6 a frame popped from the receive queue is marked last only if the stream was not reset by the peer (no io.EOF after RESET_STREAM)")
	c.Clause("C03.8 a reset frame that changes the reliable size wakes a blocked reader (unless cancelled locally)")
	c.Clause("C03.7 a STREAM frame that flow control accepted is queued for the reader unless the stream was cancelled locally, and every successful push wakes the reader")
	c.NotCovered("gap-list algebra and overlap cutting (byte-level reassembly correctness)")
	c.NotCovered("Peek, EOF exactly at the final size")

	c.rule("C03.1", func() { c03Linear(c) })
	c.rule("C03.2", func() { c03Receive(c) })
	c.rule("C03.3", func() { c03Errors(c) })
	c.rule("C03.4", func() { c03Crypto(c) })
	c.rule("C03.6", func() { c03LastFrameNotAfterReset(c) })
	c.rule("C03.7", func() { c03AcceptedDataIsQueued(c) })
	c.rule("C03.8", func() { c03ReliableSizeChangeWakesReader(c) })
}

// callsValue: call of a function value matching pat.
func callsValue(pat VP) IP {
	return func(i ssa.Instruction) bool {
		cl, ok := i.(ssa.CallInstruction)
		return ok && !cl.Common().IsInvoke() && cl.Common().StaticCallee() == nil && builtinName(cl.Common()) == "" && pat(cl.Common().Value)
	}
}

func dominatedByBlock(b, by *ssa.BasicBlock) bool {
	for d := b; d != nil; d = d.Idom() {
		if d == by {
			return true
		}
	}
	return false
}

func c03Linear(c *Ctx) {
	const R = "C03.1"
	push := c.fn("", "frameSorter", "push")
	queue := c.fld("", "frameSorter", "queue")
	entData := c.fld("", "frameSorterEntry", "Data")
	entCb := c.fld("", "frameSorterEntry", "DoneCb")
	isQueuePut := func(i ssa.Instruction) bool {
		mu, ok := i.(*ssa.MapUpdate)
		return ok && Load(queue)(mu.Map)
	}
	isQueueDel := func(i ssa.Instruction) bool {
		cl, ok := i.(*ssa.Call)
		return ok && builtinName(&cl.Call) == "delete" && Load(queue)(cl.Call.Args[0])
	}
	puts := findInstrs(push, isQueuePut)
	c.Check(len(puts) == 1, R, "once:single store into the queue in push", c.P.Pos(push.Pos()), "one insertion point")
	releases := findInstrs(push, callsValue(ParamV("doneCb")))
	c.Floor(R, "release of the caller's buffer in push", len(releases), 1)
	if len(puts) == 1 {
		mu := puts[0].(*ssa.MapUpdate)
		// the stored entry: a struct built in a local; find the field values
		var dataV, cbV ssa.Value
		if u, ok := mu.Value.(*ssa.UnOp); ok {
			if al, ok := u.X.(*ssa.Alloc); ok {
				dataV = allocFieldVal(al, entData)
				cbV = allocFieldVal(al, entCb)
			}
		}
		if c.Check(dataV != nil && cbV != nil, R, "shape:queue entry literal", c.P.InstrPos(mu), "entry built from Data and DoneCb") {
			for _, rel := range releases {
				rb := rel.Block()
				// callback stored is nil on every φ edge coming through the release
				okCb := phiEdgesVia(cbV, rb, func(v ssa.Value) bool { return IsNil()(v) }, func(v ssa.Value) bool { return ParamV("doneCb")(v) || IsNil()(v) })
				c.Check(okCb, R, "linear:callback not stored after it was called", c.P.InstrPos(rel), "on paths through the release the queued callback is nil (never called twice)")
				var copyOK bool
				okData := phiEdgesVia(dataV, rb, func(v ssa.Value) bool {
					ms, ok := v.(*ssa.MakeSlice)
					if !ok {
						return false
					}
					// copy(ms, ...) happens on every path before the release
					isCopy := func(x ssa.Instruction) bool {
						cl, ok := x.(*ssa.Call)
						return ok && builtinName(&cl.Call) == "copy" && cl.Call.Args[0] == ssa.Value(ms)
					}
					if (&Cut{Fn: push, Target: func(x ssa.Instruction) bool { return x == rel }, Barrier: isCopy}).Run() == nil {
						copyOK = true
					}
					return true
				}, func(v ssa.Value) bool { return true })
				c.Check(okData && copyOK, R, "linear:released buffer replaced by a copy made before the release", c.P.InstrPos(rel), "the data queued after releasing the caller's buffer is a private make+copy taken before the release")
			}
		}
		// nothing stored on duplicate / too-many-gaps exits: from the store every return is nil
		c.cut(R, "linear:error exits store nothing", &Cut{Fn: push, Start: isQueuePut, Target: func(i ssa.Instruction) bool {
			r, ok := i.(*ssa.Return)
			return ok && !IsNil()(retResults(r)[0])
		}}, "an error return means the data was not queued (the caller still owns the buffer)")
	}
	// entries replaced / deleted: callback called only after the entry left the queue
	for _, name := range []string{"push", "deleteConsecutive"} {
		f := c.fn("", "frameSorter", name)
		old := findInstrs(f, callsValue(Load(entCb)))
		c.Floor(R, "callbacks of dequeued entries in "+name, len(old), 1)
		for _, in := range old {
			site := in
			c.cut(R, "linear:entry callback only after delete@"+name, &Cut{Fn: f, Target: func(i ssa.Instruction) bool { return i == site }, Barrier: isQueueDel}, "an entry's buffer is released only once the entry is no longer queued")
			// guarded by != nil
			c.cut(R, "nil:entry callback guarded@"+name, &Cut{Fn: f, Target: func(i ssa.Instruction) bool { return i == site }, Edge: EdgeRel(Rel{Op: token.NEQ, X: Load(entCb), Y: IsNil()}, false)}, "entries without a callback (copies, CRYPTO data) are skipped")
		}
	}
	// Pop: hands over callback with removal
	pop := c.fn("", "frameSorter", "Pop")
	c.cut(R, "linear:Pop returns a callback only after removing the entry", &Cut{Fn: pop, Target: func(i ssa.Instruction) bool {
		r, ok := i.(*ssa.Return)
		return ok && !IsNil()(retResults(r)[2])
	}, Barrier: isQueueDel}, "ownership of the buffer moves to the caller together with the data")
	readPos := c.fld("", "frameSorter", "readPos")
	for _, in := range findInstrs(pop, StoresTo(readPos)) {
		c.Check(BinV(token.ADD, Load(readPos), LenOf(Load(entData)))(in.(*ssa.Store).Val), R, "shape:readPos+=len(entry.Data)", c.P.InstrPos(in), "the read position advances by exactly what was handed out")
	}
	c.checkWriters(R, readPos, c.set([3]string{"", "frameSorter", "Pop"}), 1)
	c.checkWriters(R, queue, c.set([3]string{"", "", "newFrameSorter"}, [3]string{"", "frameSorter", "push"}, [3]string{"", "frameSorter", "deleteConsecutive"}, [3]string{"", "frameSorter", "Pop"}), 5)
	// Push: duplicate → release, success
	pu := c.fn("", "frameSorter", "Push")
	dup, err := c.P.Object("", "errDuplicateStreamData")
	if err != nil {
		panic(anchorErr{err})
	}
	isDup := func(v ssa.Value) bool {
		u, ok := v.(*ssa.UnOp)
		if !ok {
			return false
		}
		g, ok := u.X.(*ssa.Global)
		return ok && g.Object() == dup
	}
	pushObj := c.obj("", "frameSorter", "push")
	for _, in := range findInstrsLocal(pu, callsValue(ParamV("doneCb"))) {
		site := in
		c.cut(R, "linear:Push releases only duplicates", &Cut{Fn: pu, NoInline: true, Target: func(i ssa.Instruction) bool { return i == site },
			Edge: EdgeRel(Rel{Op: token.EQL, X: CallTo(pushObj, -1), Y: isDup}, false)}, "the wrapper releases the buffer only when push reported a duplicate (and therefore stored nothing)")
	}
	c.Floor(R, "duplicate release in Push", len(findInstrsLocal(pu, callsValue(ParamV("doneCb")))), 1)
	// push returns errDuplicateStreamData only before storing
	// receive stream
	cfd := c.fld("", "ReceiveStream", "currentFrameDone")
	cf := c.fld("", "ReceiveStream", "currentFrame")
	c.checkWriters(R, cfd, c.set([3]string{"", "ReceiveStream", "dequeueNextFrame"}), 1)
	nCalls := 0
	for _, f := range c.P.ScopeFuncs() {
		eachInstr(f, func(i ssa.Instruction) {
			if callsValue(Load(cfd))(i) {
				nCalls++
				n := rootFn(f).Name()
				c.Check(n == "dequeueNextFrame" || n == "readImpl", R, "site:currentFrameDone called@"+funcName(rootFn(f)), c.P.InstrPos(i), "the current frame's buffer is released only at the two hand-over points")
			}
		})
	}
	c.Floor(R, "currentFrameDone call sites", nCalls, 2)
	dq := c.fn("", "ReceiveStream", "dequeueNextFrame")
	popObj := c.obj("", "frameSorter", "Pop")
	c.cut(R, "linear:released frame is replaced before return", &Cut{Fn: dq, Start: callsValue(Load(cfd)), Target: isReturn, Barrier: func(i ssa.Instruction) bool {
		st, ok := i.(*ssa.Store)
		return ok && fieldOfAddress(st.Addr) == cfd && CallTo(popObj, 2)(st.Val)
	}}, "after releasing the old frame the callback slot is overwritten with the next frame's (so it cannot be called twice)")
	c.cut(R, "linear:old frame released before it is replaced", &Cut{Fn: dq, Target: StoresTo(cf), Barrier: callsValue(Load(cfd)), Edge: EdgeRel(Rel{Op: token.EQL, X: Load(cfd), Y: IsNil()}, false)},
		"the previous frame's buffer is released (if it has a callback) before the slot is reused")
	ri := c.fn("", "ReceiveStream", "readImpl")
	for _, in := range findInstrs(ri, callsValue(Load(cfd))) {
		site := in
		c.cut(R, "linear:last frame dropped before its buffer is released", &Cut{Fn: ri, Target: func(i ssa.Instruction) bool { return i == site }, Barrier: func(i ssa.Instruction) bool {
			st, ok := i.(*ssa.Store)
			return ok && fieldOfAddress(st.Addr) == cf && IsNil()(st.Val)
		}}, "the stream stops referencing the data before the buffer goes back to the pool")
		// and every byte of it was copied: readPosInFrame >= len(currentFrame) edge
		rpif := c.fld("", "ReceiveStream", "readPosInFrame")
		c.cut(R, "linear:released only when fully read", &Cut{Fn: ri, Target: func(i ssa.Instruction) bool { return i == site },
			Edge: EdgeRel(Rel{Op: token.GEQ, X: Load(rpif), Y: LenOf(Load(cf))}, false)}, "never recycled while bytes from it are undelivered")
	}
	// dequeueNextFrame is only called when the current frame is exhausted
	dqObj := c.obj("", "ReceiveStream", "dequeueNextFrame")
	rpif := c.fld("", "ReceiveStream", "readPosInFrame")
	for _, name := range []string{"readImpl", "peekImpl"} {
		f := c.fn("", "ReceiveStream", name)
		for _, in := range findInstrs(f, CallsTo(dqObj)) {
			site := in
			c.cut(R, "linear:next frame dequeued only when the current one is exhausted@"+name, &Cut{Fn: f, Target: func(i ssa.Instruction) bool { return i == site },
				Edge: OrEdge(EdgeRel(Rel{Op: token.EQL, X: Load(cf), Y: IsNil()}, false), EdgeRel(Rel{Op: token.GEQ, X: Load(rpif), Y: LenOf(Load(cf))}, false))},
				"the current frame is released only after all of it was read (or there is none)")
		}
		c.Floor(R, "dequeueNextFrame calls in "+name, countInstr(f, CallsTo(dqObj)), 2)
	}
}

// phiEdgesVia: v is a φ (possibly nested) whose edges arriving through block `via`
// (predecessor is via or dominated by it) satisfy onVia, and whose other edges satisfy
// other. A non-φ value must satisfy `other` (no path through via stores something else).
func phiEdgesVia(v ssa.Value, via *ssa.BasicBlock, onVia, other func(ssa.Value) bool) bool {
	p, ok := v.(*ssa.Phi)
	if !ok {
		return false
	}
	seenVia := false
	for k, e := range p.Edges {
		pred := p.Block().Preds[k]
		if dominatedByBlock(pred, via) {
			seenVia = true
			if !onVia(e) {
				return false
			}
		} else if inner, isPhi := e.(*ssa.Phi); isPhi {
			_ = inner
			if !other(e) {
				return false
			}
		} else if !other(e) {
			return false
		}
	}
	return seenVia
}

func c03Receive(c *Ctx) {
	const R = "C03.2"
	hs := c.fn("", "ReceiveStream", "handleStreamFrameImpl")
	uhr := c.obj(fc, "StreamFlowController", "UpdateHighestReceived")
	push := c.obj("", "frameSorter", "Push")
	fOff := c.fld("internal/wire", "StreamFrame", "Offset")
	fData := c.fld("internal/wire", "StreamFrame", "Data")
	fFin := c.fld("internal/wire", "StreamFrame", "Fin")
	dataLen := c.obj("internal/wire", "StreamFrame", "DataLen")
	putBack := c.obj("internal/wire", "StreamFrame", "PutBack")
	finalOffset := c.fld("", "ReceiveStream", "finalOffset")
	accepted := EdgeRel(Rel{Op: token.EQL, X: CallTo(uhr, -1), Y: IsNil()}, false)
	c.passAll(R, "frameQueue.Push / finalOffset", hs, OrIP(CallsTo(push), StoresTo(finalOffset)), []namedEdge{{"flow controller accepted the offset", accepted}},
		"data is queued and the final offset recorded only after UpdateHighestReceived succeeded")
	maxOff := BinV(token.ADD, Load(fOff), CallTo(dataLen, -1))
	for _, in := range findInstrs(hs, CallsTo(uhr)) {
		a := in.(ssa.CallInstruction).Common().Args
		c.Check(maxOff(a[0]) && Load(fFin)(a[1]), R, "shape:UpdateHighestReceived(Offset+DataLen, Fin)", c.P.InstrPos(in), "the flow controller sees the frame's end offset and FIN bit")
	}
	for _, in := range findInstrs(hs, CallsTo(push)) {
		a := in.(ssa.CallInstruction).Common().Args
		okCb := false
		if mc, ok := a[3].(*ssa.MakeClosure); ok {
			if fn, ok := mc.Fn.(*ssa.Function); ok && boundTarget(fn) == putBack {
				okCb = true
			}
		}
		c.Check(Load(fData)(a[1]) && Load(fOff)(a[2]) && okCb, R, "shape:Push(frame.Data, frame.Offset, frame.PutBack)", c.P.InstrPos(in), "the sorter receives this frame's data at this frame's offset with this frame's release callback")
	}
	for _, in := range findInstrs(hs, StoresTo(finalOffset)) {
		site := in
		c.Check(maxOff(in.(*ssa.Store).Val), R, "shape:finalOffset=Offset+DataLen", c.P.InstrPos(in), "the final size is the FIN frame's end")
		c.cut(R, "guard:finalOffset only from a FIN frame", &Cut{Fn: hs, Target: func(i ssa.Instruction) bool { return i == site }, Edge: EdgeRel(BoolTrue(Load(fFin)), false)}, "only a frame with FIN fixes the final size")
	}
	hr := c.fn("", "ReceiveStream", "handleResetStreamFrameImpl")
	rFinal := c.fld("internal/wire", "ResetStreamFrame", "FinalSize")
	cancelledRemotely := c.fld("", "ReceiveStream", "cancelledRemotely")
	reliableSize := c.fld("", "ReceiveStream", "reliableSize")
	cancelErr := c.fld("", "ReceiveStream", "cancelErr")
	c.passAll(R, "RESET_STREAM state", hr, StoresTo(finalOffset, cancelledRemotely, reliableSize, cancelErr), []namedEdge{{"flow controller accepted the final size", accepted}},
		"a RESET_STREAM takes effect only after its final size was accepted")
	for _, in := range findInstrs(hr, CallsTo(uhr)) {
		a := in.(ssa.CallInstruction).Common().Args
		c.Check(Load(rFinal)(a[0]) && isConstBool(a[1], true), R, "shape:UpdateHighestReceived(FinalSize, true)", c.P.InstrPos(in), "the reset's final size is checked as final")
	}
	c.checkWriters(R, finalOffset, c.set([3]string{"", "", "newReceiveStream"}, [3]string{"", "ReceiveStream", "handleStreamFrameImpl"}, [3]string{"", "ReceiveStream", "handleResetStreamFrameImpl"}), 3)
}

func c03Errors(c *Ctx) {
	const R = "C03.3"
	uhr := c.fn(fc, "streamFlowController", "UpdateHighestReceived")
	fse := c.konst("internal/qerr", "FinalSizeError")
	fce := c.konst("internal/qerr", "FlowControlError")
	rfo := c.fld(fc, "streamFlowController", "receivedFinalOffset")
	hr := c.fld(fc, "baseFlowController", "highestReceived")
	c.Floor(R, "FINAL_SIZE_ERROR exits", countInstr(uhr, ReturnsErrCode(fse)), 3)
	c.Floor(R, "FLOW_CONTROL_ERROR exits", countInstr(uhr, ReturnsErrCode(fce)), 1)
	success := ReturnsMaybeNilErr(0)
	// with a known final size: a different final size, or an offset beyond it, never succeeds
	c.cut(R, "final:known final size, larger offset rejected", &Cut{Fn: uhr, Target: success,
		Edge: OrEdge(EdgeRel(BoolTrue(Load(rfo)), true), EdgeRel(Rel{Op: token.LEQ, X: ParamV("offset"), Y: Load(hr)}, false))}, "success with a known final size requires offset <= final size")
	c.cut(R, "final:known final size, differing final size rejected", &Cut{Fn: uhr, Target: success,
		Edge: OrEdge(EdgeRel(BoolTrue(Load(rfo)), true), EdgeRel(BoolTrue(ParamV("final")), true), EdgeRel(Rel{Op: token.EQL, X: ParamV("offset"), Y: Load(hr)}, false))}, "a second final size must equal the first")
	c.cut(R, "final:final size below data already received rejected", &Cut{Fn: uhr, Target: success,
		Edge: OrEdge(EdgeRel(BoolTrue(ParamV("final")), true), EdgeRel(Rel{Op: token.GEQ, X: ParamV("offset"), Y: Load(hr)}, false), EdgeRel(Rel{Op: token.EQL, X: ParamV("offset"), Y: Load(hr)}, false))}, "a final size smaller than an offset already seen is an error")
	// receivedFinalOffset set whenever final
	ws := c.checkWriters(R, rfo, c.set([3]string{fc, "streamFlowController", "UpdateHighestReceived"}), 1)
	for _, w := range ws[funcObj(uhr)] {
		site := w.Instr
		c.Check(isConstBool(w.Val, true), R, "shape:receivedFinalOffset=true", c.P.InstrPos(site), "only ever set")
		c.cut(R, "guard:final flag set only for final offsets", &Cut{Fn: uhr, Target: func(i ssa.Instruction) bool { return i == site }, Edge: EdgeRel(BoolTrue(ParamV("final")), false)}, "set on the final==true edge")
	}
	c.cut(R, "final:final offset is remembered", &Cut{Fn: uhr, Target: success, Barrier: StoresTo(rfo), Edge: EdgeRel(BoolTrue(ParamV("final")), true)}, "every successful return for a final offset has set the flag")
	// sorter: too many gaps
	push := c.fn("", "frameSorter", "push")
	maxGaps := c.konst("internal/protocol", "MaxStreamFrameSorterGaps")
	queue := c.fld("", "frameSorter", "queue")
	lenM := func(v ssa.Value) bool {
		cl, ok := stripConv(v).(*ssa.Call)
		if !ok {
			return false
		}
		o := calleeObj(&cl.Call)
		return o != nil && o.Name() == "Len"
	}
	c.cut(R, "gaps:store only within MaxStreamFrameSorterGaps", &Cut{Fn: push, Target: func(i ssa.Instruction) bool {
		mu, ok := i.(*ssa.MapUpdate)
		return ok && Load(queue)(mu.Map)
	}, Edge: EdgeRel(Rel{Op: token.LEQ, X: lenM, Y: ConstOf(maxGaps)}, false)}, "data is queued only while the gap list is within its limit")
	c.Check(constInt(maxGaps) > 0, R, "const:MaxStreamFrameSorterGaps>0", "-", "limit is set")
}

func c03Crypto(c *Ctx) {
	const R = "C03.4"
	h := c.fn("", "baseCryptoStream", "HandleCryptoFrame")
	push := c.obj("", "frameSorter", "Push")
	maxOff := c.konst("internal/protocol", "MaxCryptoStreamOffset")
	finished := c.fld("", "baseCryptoStream", "finished")
	highest := c.fld("", "baseCryptoStream", "highestOffset")
	cOff := c.fld("internal/wire", "CryptoFrame", "Offset")
	cData := c.fld("internal/wire", "CryptoFrame", "Data")
	cbe := c.konst("internal/qerr", "CryptoBufferExceeded")
	pv := c.konst("internal/qerr", "ProtocolViolation")
	end := BinV(token.ADD, Load(cOff), LenOf(Load(cData)))
	c.passAll(R, "crypto queue.Push", h, CallsTo(push), []namedEdge{
		{"within MaxCryptoStreamOffset", EdgeRel(Rel{Op: token.LEQ, X: end, Y: ConstOf(maxOff)}, false)},
		{"stream not finished", EdgeRel(BoolTrue(Load(finished)), true)},
	}, "CRYPTO data is buffered only within the offset cap and before the encryption level changed")
	c.Floor(R, "CRYPTO_BUFFER_EXCEEDED exits", countInstr(h, ReturnsErrCode(cbe)), 1)
	c.Floor(R, "PROTOCOL_VIOLATION exits", countInstr(h, ReturnsErrCode(pv)), 1)
	// after finish: data beyond the highest offset is a violation
	c.cut(R, "finished:new data after finish rejected", &Cut{Fn: h, StartBlocks: edgeSuccs(h, BoolTrue(Load(finished))), Target: ReturnsMaybeNilErr(0),
		Edge: EdgeRel(Rel{Op: token.LEQ, X: end, Y: Load(highest)}, false)}, "after the stream finished only retransmissions of old data are tolerated")
	for _, in := range findInstrs(h, CallsTo(push)) {
		a := in.(ssa.CallInstruction).Common().Args
		c.Check(Load(cData)(a[1]) && Load(cOff)(a[2]) && IsNil()(a[3]), R, "shape:Push(f.Data, f.Offset, nil)", c.P.InstrPos(in), "CRYPTO data is queued at its own offset")
	}
	ws := c.checkWriters(R, highest, c.set([3]string{"", "baseCryptoStream", "HandleCryptoFrame"}), 1)
	for _, w := range ws[funcObj(h)] {
		c.Check(MinMaxOf("max", Load(highest), end)(w.Val), R, "shape:highestOffset=max(highestOffset,end)", c.P.InstrPos(w.Instr), "monotone")
	}
	fin := c.fn("", "baseCryptoStream", "Finish")
	hasMore := c.obj("", "frameSorter", "HasMoreData")
	c.cut(R, "finish:refused while data is pending", &Cut{Fn: fin, Target: StoresTo(finished), Edge: EdgeRel(BoolTrue(CallTo(hasMore, -1)), true)}, "the level cannot change with unread CRYPTO data")
	c.checkWriters(R, finished, c.set([3]string{"", "baseCryptoStream", "Finish"}), 1)
	_ = types.Typ
}
