package main

// NIL — optional dependency discipline: a method call on a value of one of the repo's
// optional kinds (*slog.Logger, qlogwriter.Recorder) must be dominated by a `!= nil`
// test of the same value.

import (
	"go/token"
	"go/types"
	"strings"

	"golang.org/x/tools/go/ssa"
)

type nilUse struct {
	Fn    *ssa.Function
	Instr ssa.Instruction
	Recv  ssa.Value
	Kind  string
	OK    bool
	Why   string
}

func isOptionalKind(t types.Type) string {
	if typeIs(t, "log/slog", "Logger") {
		if _, ok := t.Underlying().(*types.Pointer); ok || true {
			return "*slog.Logger"
		}
	}
	if n := namedOf(t); n != nil && n.Obj().Pkg() != nil && strings.HasSuffix(n.Obj().Pkg().Path(), "/qlogwriter") && n.Obj().Name() == "Recorder" {
		return "qlogwriter.Recorder"
	}
	return ""
}

// nilUses enumerates method calls on optional-kind values in functions of the given packages.
func (p *Prog) nilUses(pkgFilter func(string) bool) []nilUse {
	var out []nilUse
	for _, f := range p.ScopeFuncs() {
		if !pkgFilter(funcPkgPath(f)) {
			continue
		}
		eachInstr(f, func(in ssa.Instruction) {
			ci, ok := in.(ssa.CallInstruction)
			if !ok {
				return
			}
			c := ci.Common()
			var recv ssa.Value
			if c.IsInvoke() {
				recv = c.Value
			} else if sc := c.StaticCallee(); sc != nil && sc.Signature.Recv() != nil && len(c.Args) > 0 {
				recv = c.Args[0]
			} else {
				return
			}
			kind := isOptionalKind(recv.Type())
			if kind == "" {
				return
			}
			u := nilUse{Fn: f, Instr: in, Recv: recv, Kind: kind}
			u.OK, u.Why = nonNilAt(recv, in.Block(), 0)
			out = append(out, u)
		})
	}
	return out
}

// nonNilAt: the receiver cannot be nil here: dominating != nil test on the same value
// (same field path), a value built non-nil, a φ whose edges are all non-nil at their
// predecessors, or a closure's free variable / parameter whose every binding is non-nil
// at the point of closure creation.
func nonNilAt(v ssa.Value, b *ssa.BasicBlock, depth int) (bool, string) {
	if depth > 6 {
		return false, "depth"
	}
	v0 := v
	v = stripConvKeepIface(v)
	if provablyNonNil(v, b, map[ssa.Value]bool{}) {
		return true, "guarded or constructed"
	}
	switch x := v.(type) {
	case *ssa.Phi:
		for i, e := range x.Edges {
			pred := x.Block().Preds[i]
			// edge-sensitive: the predecessor branches on `e != nil` and this is the non-nil edge
			if ifi, isIf := pred.Instrs[len(pred.Instrs)-1].(*ssa.If); isIf {
				if si := succIndex(pred, x.Block()); si >= 0 && EdgeImplies(ifi, si, Rel{Op: token.NEQ, X: func(v ssa.Value) bool { return v == e || sameValue(v, e) }, Y: IsNil()}, false) {
					continue
				}
			}
			if ok, _ := nonNilAt(e, pred, depth+1); !ok {
				return false, "φ edge may be nil"
			}
		}
		return true, "all φ edges non-nil"
	case *ssa.Call:
		// constructors returning a fresh logger / recorder
		if o := calleeObj(&x.Call); o != nil && o.Pkg() != nil {
			switch o.Pkg().Path() + "." + o.Name() {
			case "log/slog.New", "log/slog.Default", "log/slog.With":
				return true, "constructed"
			}
			if o.Name() == "With" || o.Name() == "WithGroup" {
				return true, "derived logger"
			}
		}
	case *ssa.FreeVar:
		fn := x.Parent()
		idx := -1
		for i, fv := range fn.FreeVars {
			if fv == x {
				idx = i
			}
		}
		if idx < 0 || fn.Parent() == nil {
			return false, "unbound free variable"
		}
		found := false
		all := true
		eachInstr(fn.Parent(), func(in ssa.Instruction) {
			if mc, ok := in.(*ssa.MakeClosure); ok && mc.Fn == fn && idx < len(mc.Bindings) {
				found = true
				if ok, _ := nonNilAt(mc.Bindings[idx], in.Block(), depth+1); !ok {
					all = false
				}
			}
		})
		if found && all {
			return true, "captured non-nil"
		}
		return false, "captured value may be nil"
	case *ssa.UnOp:
		// load of a captured variable cell: *fv where fv's bound cell only ever holds non-nil
		if x.Op == token.MUL {
			if fv, ok := x.X.(*ssa.FreeVar); ok {
				_ = fv
			}
		}
	}
	_ = v0
	return false, "no dominating != nil test on this value"
}

func stripConvKeepIface(v ssa.Value) ssa.Value {
	for {
		switch x := v.(type) {
		case *ssa.ChangeType:
			v = x.X
		default:
			return v
		}
	}
}
