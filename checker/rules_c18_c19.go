package main

import (
	"fmt"
	"go/constant"
	"go/token"
	"go/types"
	"sort"
	"strings"

	"golang.org/x/tools/go/ssa"
)

const h3 = "http3"

func init() {
	register("C18", runC18)
	register("C19", runC19)
}

func runC18(c *Ctx) {
	c.Clause("C18.1 every method call on an optional *slog.Logger / qlogwriter.Recorder in http3 is dominated by a != nil test of the same value (parameters: at every call site)")
	c.Clause("C18.2 body.Read brackets the stream read with Content-Length checks, caps the read to the remaining length; a violation cancels both directions with H3_MESSAGE_ERROR")
	c.Clause("C18.3 frame parser: reserved types {2,6,8,9} close the connection with H3_FRAME_UNEXPECTED and return an error, unknown types are skipped; DATA-frame length accounting in Stream.Read; the handler runs under recover")
	c.Clause("C18.4 allocations sized by a peer-supplied frame length are preceded by a limit comparison")
	c.Clause("C18.5 every index, slice, computed-size allocation, explicit panic, unchecked assertion and integer division reachable from the HTTP/3 frame, SETTINGS, capsule, field-section and datagram parsers is compiler-proven or follows from a length fact on that very slice")
	c.Clause("C18.6 the client reads the request body only through the cancelingReader wrapper")
	c.Clause("C18.7 http3 state shared between request goroutines (server listeners / closed flag, transport client map, tracked streams, stream-ID watermarks) is accessed under its owner's mutex")
	c.Clause("C18.8 responseWriter.Write counts and limit-checks every byte before accepting it, HEAD included")
	c.Clause("C18.11 every rawConn is created with a handler that keeps reading the peer's control stream after SETTINGS")
	c.Clause("C18.10 a body that ends before its declared Content-Length is io.ErrUnexpectedEOF on the reading side, and a request body whose length differs from ContentLength is refused on the sending side")
	c.Clause("C18.9 decoded header and trailer fields accumulate under repeated names")
	c.Clause("C18.13 frames after the trailing HEADERS frame close the connection with H3_FRAME_UNEXPECTED; C18.14 http.NoBody has content length 0; C18.15 the frame parser returns or rejects every frame type it knows")
	c.Clause("C18.12 the client requests gzip transparently only when the request carries neither Accept-Encoding nor Range; C18.10 (tightened) the short-body error does not depend on the byte count of the last read")
	c.NotCovered("end-to-end equality of what the handler sees and what the client sent")
	c.NotCovered("behaviour under packet loss (delegated to the QUIC layer properties)")

	c.rule("C18.1", func() { c18Nil(c) })
	c.rule("C18.2", func() { c18Body(c) })
	c.rule("C18.3", func() { c18Frames(c) })
	c.rule("C18.4", func() { c18Alloc(c) })
	c.rule("C18.5", func() { c18Bounds(c) })
	c.rule("C18.6", func() { c18BodyThroughCancelingReader(c) })
	c.rule("C18.7", func() { c18Guarded(c) })
	c.rule("C18.8", func() { c18WriteAccounting(c) })
	c.rule("C18.9", func() { c18FieldsAccumulate(c) })
	c.rule("C18.10", func() { c18ShortBodies(c) })
	c.rule("C18.11", func() { c18ControlStreamReadOn(c) })
	c.rule("C18.12", func() { c18TransparentGzipOnlyWithoutAcceptEncoding(c) })
	c.rule("C18.13", func() { c18FramesAfterTrailersCloseConnection(c) })
	c.rule("C18.14", func() { c18NoBodyIsLengthZero(c) })
	c.rule("C18.15", func() { c18KnownFrameTypesAreNotSkipped(c) })
}

func c18Nil(c *Ctx) {
	const R = "C18.1"
	us := c.P.nilUses(func(p string) bool { return p == pkgPathOf(h3) })
	n := 0
	perFn := map[string]int{}
	for _, u := range us {
		ok, why := u.OK, u.Why
		if !ok {
			// a parameter of an unexported helper: every call site must pass a non-nil value
			if prm, isP := stripConvKeepIface(u.Recv).(*ssa.Parameter); isP {
				ok, why = c.paramNonNilAtAllCallSites(prm)
			}
		}
		n++
		fnm := funcName(u.Fn)
		perFn[fnm]++
		c.FuncsSet[fnm] = true
		c.Check(ok, R, fmt.Sprintf("nil:%s@%s#%d", u.Kind, fnm, perFn[fnm]), c.P.InstrPos(u.Instr),
			fmt.Sprintf("method call on optional %s must be guarded by a != nil test (%s): %s", u.Kind, why, instrString(u.Instr)))
	}
	c.Floor(R, "optional-dependency uses in http3", n, 25)
}

func (c *Ctx) paramNonNilAtAllCallSites(prm *ssa.Parameter) (bool, string) {
	fn := prm.Parent()
	obj := funcObj(fn)
	if obj == nil {
		return false, "parameter of an anonymous function"
	}
	if obj.Exported() {
		return false, "parameter of an exported function: callers are not known"
	}
	idx := -1
	for i, p := range fn.Params {
		if p == prm {
			idx = i
		}
	}
	sites := c.P.CallSites(obj)
	if len(sites) == 0 {
		return false, "no call sites"
	}
	for _, s := range sites {
		ci, ok := s.Instr.(ssa.CallInstruction)
		if !ok || s.Kind == "value" || s.Kind == "invoke" {
			return false, "used as a value / through an interface"
		}
		args := ci.Common().Args
		if idx >= len(args) {
			return false, "argument mismatch"
		}
		if ok, _ := nonNilAt(args[idx], s.Instr.Block(), 0); !ok {
			return false, "call site " + c.P.InstrPos(s.Instr) + " may pass nil"
		}
	}
	return true, fmt.Sprintf("non-nil at all %d call sites", len(sites))
}

func c18Body(c *Ctx) {
	const R = "C18.2"
	rd := c.fn(h3, "body", "Read")
	check := c.obj(h3, "body", "checkContentLengthViolation")
	sread := c.obj(h3, "Stream", "Read")
	remaining := c.fld(h3, "body", "remainingContentLength")
	hasCL := c.fld(h3, "body", "hasContentLength")
	c.Floor(R, "Content-Length checks in body.Read", countInstr(rd, CallsTo(check)), 2)
	c.Floor(R, "stream reads in body.Read", countInstr(rd, CallsTo(sread)), 1)
	c.cut(R, "guard:read only after a passed Content-Length check", &Cut{Fn: rd, Target: CallsTo(sread),
		Edge: EdgeRel(Rel{Op: token.EQL, X: CallTo(check, -1), Y: IsNil()}, false)}, "no byte is read from a body that already violated its Content-Length")
	c.cut(R, "post:read followed by a Content-Length check", &Cut{Fn: rd, Start: CallsTo(sread), Target: isReturn, Barrier: CallsTo(check)}, "after every read the length is re-checked (too much data is reported, not passed on silently)")
	// each check's error is propagated: from the err != nil edge only error returns are reachable
	nProp := 0
	for _, in := range findInstrs(rd, CallsTo(check)) {
		cl, ok := in.(*ssa.Call)
		if !ok {
			continue
		}
		sb := edgeSuccs(rd, Rel{Op: token.NEQ, X: func(v ssa.Value) bool { return v == ssa.Value(cl) }, Y: IsNil()})
		if !c.Check(len(sb) >= 1, R, fmt.Sprintf("propagate:check #%d result is tested", nProp+1), c.P.InstrPos(in), "the violation error is examined") {
			continue
		}
		nProp++
		c.cut(R, fmt.Sprintf("propagate:check #%d error is returned", nProp), &Cut{Fn: rd, StartBlocks: sb, Target: ReturnsMaybeNilErr(1)},
			"a detected Content-Length violation is reported to the reader, never swallowed")
	}
	// accounting
	ws := c.checkWriters(R, remaining, c.set([3]string{h3, "", "newBody"}, [3]string{h3, "body", "Read"}), 2)
	for _, w := range ws[funcObj(rd)] {
		ok := BinV(token.SUB, Load(remaining), CallTo(sread, 0))(w.Val)
		c.Check(ok, R, "shape:remainingContentLength-=n", c.P.InstrPos(w.Instr), "the remaining length shrinks by what was read")
		site := w.Instr
		c.cut(R, "order:accounting before the second check", &Cut{Fn: rd, Start: CallsTo(sread), Target: CallsTo(check), Barrier: func(i ssa.Instruction) bool { return i == site }}, "the post-read check sees the updated remaining length")
	}
	// cap: the buffer handed to the stream is b[:min(len(b), remaining)] when a length was declared
	for _, in := range findInstrs(rd, CallsTo(sread)) {
		arg := in.(ssa.CallInstruction).Common().Args[1]
		okCap := onlyFrom(arg, func(v ssa.Value) bool {
			if ParamV("b")(v) {
				return true
			}
			sl, ok := v.(*ssa.Slice)
			return ok && sl.Low == nil && sl.High != nil && MinMaxOf("min", LenOf(ParamV("b")), Load(remaining))(sl.High)
		}, 0)
		c.Check(okCap, R, "shape:read buffer capped to remaining length", c.P.InstrPos(in), "never more than the declared Content-Length is read into the caller's buffer")
		// the uncapped variant only without a declared length
		if ph, ok := arg.(*ssa.Phi); ok {
			for k, e := range ph.Edges {
				if ParamV("b")(e) {
					pred := ph.Block().Preds[k]
					ifi, isIf := pred.Instrs[len(pred.Instrs)-1].(*ssa.If)
					c.Check(isIf && EdgeImplies(ifi, succIndex(pred, ph.Block()), BoolTrue(Load(hasCL)), true), R, "guard:uncapped read only without Content-Length", c.P.InstrPos(in), "the full buffer is used only when no length was declared")
				}
			}
		}
	}
	// enforcement is armed for every declared length, including 0
	nb := c.fn(h3, "", "newBody")
	for _, in := range findInstrs(nb, StoresTo(hasCL)) {
		site := in
		c.Check(isConstBool(in.(*ssa.Store).Val, true), R, "shape:hasContentLength=true", c.P.InstrPos(in), "armed")
		c.cut(R, "guard:Content-Length enforcement armed iff contentLength >= 0", &Cut{Fn: nb, Target: func(i ssa.Instruction) bool { return i == site },
			Edge: EdgeRel(Rel{Op: token.GEQ, X: ParamV("contentLength"), Y: ConstI(0)}, false)}, "a declared length of 0 is enforced too (-1 means undeclared)")
		c.cut(R, "guard:every declared length arms enforcement", &Cut{Fn: nb, Target: isReturn, Barrier: func(i ssa.Instruction) bool { return i == site },
			Edge: EdgeRel(Rel{Op: token.LSS, X: ParamV("contentLength"), Y: ConstI(0)}, false)}, "only the undeclared (-1) case skips arming")
	}
	c.Floor(R, "hasContentLength stores in newBody", countInstr(nb, StoresTo(hasCL)), 1)
	// the length enforced on a response is the one parsed from its headers, before any cosmetic rewrite
	rr := c.fn(h3, "RequestStream", "ReadResponse")
	upd := c.obj(h3, "", "updateResponseFromHeaders")
	nrb := c.obj(h3, "", "newResponseBody")
	respCL := c.fld("net/http", "Response", "ContentLength")
	c.Floor(R, "newResponseBody calls", countInstr(rr, CallsTo(nrb)), 1)
	for _, in := range findInstrs(rr, CallsTo(nrb)) {
		arg := in.(ssa.CallInstruction).Common().Args[1]
		// the parsed Content-Length, or "undeclared" (-1) for responses that carry a Content-Length without content
		// (HEAD, 304): every value flowing in is one of the two
		okOrigin := Load(respCL)(arg)
		if ph, isPhi := arg.(*ssa.Phi); isPhi && !okOrigin {
			okOrigin = true
			for _, e := range ph.Edges {
				if !(Load(respCL)(e) || ConstI(-1)(e)) {
					okOrigin = false
				}
			}
		}
		c.Check(okOrigin, R, "origin:response body limit = parsed Content-Length", c.P.InstrPos(in), "the enforced length is the response's Content-Length (or none, for responses without content)")
	}
	c.cut(R, "order:response body limit taken before Content-Length is rewritten", &Cut{Fn: rr, Start: CallsTo(upd), Target: StoresTo(respCL), Barrier: CallsTo(nrb)},
		"no store to Response.ContentLength happens between parsing the headers and fixing the body limit (the 1xx/204/CONNECT rewrite to 0 is cosmetic)")
	ck := c.fn(h3, "body", "checkContentLengthViolation")
	msgErr := c.konst(h3, "ErrCodeMessageError")
	c.Check(constInt(msgErr) == 0x10e, R, "const:H3_MESSAGE_ERROR==0x10e", "-", "RFC 9114 §8.1")
	cr := c.obj(h3, "datagramStream", "CancelRead")
	cw := c.obj(h3, "datagramStream", "CancelWrite")
	for _, m := range []*types.Func{cr, cw} {
		calls := findInstrs(ck, CallsTo(m))
		c.Floor(R, m.Name()+" in checkContentLengthViolation", len(calls), 1)
		for _, in := range calls {
			c.Check(ConstOf(msgErr)(in.(ssa.CallInstruction).Common().Args[0]), R, "const:"+m.Name()+"(H3_MESSAGE_ERROR)", c.P.InstrPos(in), "a length violation resets the stream with H3_MESSAGE_ERROR")
		}
	}
	hasMore := c.obj(h3, "Stream", "hasMoreData")
	c.cut(R, "guard:no violation reported without a declared length or while within it", &Cut{Fn: ck, Target: func(i ssa.Instruction) bool {
		r, ok := i.(*ssa.Return)
		return ok && !IsNil()(retResults(r)[0])
	}, Edge: EdgeRel(BoolTrue(Load(hasCL)), false)}, "an error requires a declared Content-Length")
	c.cut(R, "guard:violation detected when more was received or data remains at zero", &Cut{Fn: ck, Target: func(i ssa.Instruction) bool {
		r, ok := i.(*ssa.Return)
		return ok && IsNil()(retResults(r)[0])
	}, Edge: OrEdge(EdgeRel(BoolTrue(Load(hasCL)), true),
		EdgeRel(Rel{Op: token.NEQ, X: Load(remaining), Y: ConstI(0)}, false),
		EdgeRel(BoolTrue(CallTo(hasMore, -1)), true))}, "success requires: no declared length, or remaining ≠ 0, or no more data")
	c.cut(R, "guard:negative remaining is a violation", &Cut{Fn: ck, Target: func(i ssa.Instruction) bool {
		r, ok := i.(*ssa.Return)
		return ok && IsNil()(retResults(r)[0])
	}, Edge: OrEdge(EdgeRel(BoolTrue(Load(hasCL)), true), EdgeRel(Rel{Op: token.GEQ, X: Load(remaining), Y: ConstI(0)}, false))}, "success requires remaining ≥ 0 when a length was declared")
}

func succIndex(from, to *ssa.BasicBlock) int {
	for i, s := range from.Succs {
		if s == to {
			return i
		}
	}
	return -1
}

// switchConsts collects the constants a value is compared with (==) in a function,
// mapping each to the successor block of the equal edge.
func switchConsts(fn *ssa.Function, tag VP) map[int64]*ssa.BasicBlock {
	out := map[int64]*ssa.BasicBlock{}
	for _, b := range fn.Blocks {
		if len(b.Instrs) == 0 {
			continue
		}
		ifi, ok := b.Instrs[len(b.Instrs)-1].(*ssa.If)
		if !ok {
			continue
		}
		bo, ok := ifi.Cond.(*ssa.BinOp)
		if !ok || bo.Op != token.EQL || !tag(bo.X) {
			continue
		}
		k, ok := bo.Y.(*ssa.Const)
		if !ok || k.Value == nil || k.Value.Kind() != constant.Int {
			continue
		}
		v, _ := constant.Int64Val(k.Value)
		out[v] = b.Succs[0]
	}
	return out
}

func c18Frames(c *Ctx) {
	const R = "C18.3"
	pn := c.fn(h3, "frameParser", "ParseNext")
	closeConn := c.fld(h3, "frameParser", "closeConn")
	vread := c.obj("quicvarint", "", "Read")
	// the frame type is the first varint read
	var typeVal ssa.Value
	for _, in := range findInstrs(pn, CallsTo(vread)) {
		if typeVal == nil {
			if cl, ok := in.(*ssa.Call); ok && cl.Referrers() != nil {
				for _, r := range *cl.Referrers() {
					if ex, ok := r.(*ssa.Extract); ok && ex.Index == 0 {
						typeVal = ex
					}
				}
			}
		}
	}
	if !c.Check(typeVal != nil, R, "site:frame type read", c.P.Pos(pn.Pos()), "the frame type varint is read") {
		return
	}
	cases := switchConsts(pn, func(v ssa.Value) bool { return v == typeVal })
	var ks []int64
	for k := range cases {
		ks = append(ks, k)
	}
	sort.Slice(ks, func(i, j int) bool { return ks[i] < ks[j] })
	want := []int64{0, 1, 2, 3, 4, 5, 6, 7, 8, 9, 0xd}
	c.Check(fmt.Sprint(ks) == fmt.Sprint(want), R, "table:frame types handled", c.P.Pos(pn.Pos()), fmt.Sprintf("switch cases %v, RFC 9114 §7.2 types %v", ks, want))
	fue := c.konst(h3, "ErrCodeFrameUnexpected")
	c.Check(constInt(fue) == 0x105, R, "const:H3_FRAME_UNEXPECTED==0x105", "-", "RFC 9114 §8.1")
	isCopyN := func(i ssa.Instruction) bool {
		ci, ok := i.(ssa.CallInstruction)
		if !ok {
			return false
		}
		o := calleeObj(ci.Common())
		return o != nil && o.Pkg() != nil && o.Pkg().Path() == "io" && o.Name() == "CopyN"
	}
	c.Floor(R, "payload skip (io.CopyN)", countInstr(pn, isCopyN), 1)
	isClose := func(i ssa.Instruction) bool {
		return callsFieldFunc(closeConn)(i) && ConstOf(fue)(i.(ssa.CallInstruction).Common().Args[0])
	}
	for _, k := range []int64{2, 6, 8, 9} {
		sb := cases[k]
		if sb == nil {
			continue
		}
		c.cut(R, fmt.Sprintf("reserved:type %d → closeConn(H3_FRAME_UNEXPECTED)", k), &Cut{Fn: pn, StartBlocks: []*ssa.BasicBlock{sb}, Target: OrIP(isReturn, isCopyN), Barrier: isClose},
			"a reserved frame type closes the connection before anything else")
		c.cut(R, fmt.Sprintf("reserved:type %d → error, never skipped", k), &Cut{Fn: pn, StartBlocks: []*ssa.BasicBlock{sb}, Target: OrIP(isCopyN, func(i ssa.Instruction) bool {
			r, ok := i.(*ssa.Return)
			return ok && !provablyNonNil(retResults(r)[1], r.Block(), map[ssa.Value]bool{})
		})}, "a reserved frame type is never skipped and never yields a frame")
	}
	// unknown types (no case matches) reach the skip: the chain of all != edges leads to CopyN without returning
	c.cut(R, "unknown:types fall through to the skip", &Cut{Fn: pn, Start: func(i ssa.Instruction) bool {
		// start after the length varint (second Read)
		return false
	}, StartBlocks: defaultBlocks(pn, typeVal), Target: isReturn, Barrier: isCopyN}, "an unknown frame type is skipped, not rejected")

	// Stream.Read: DATA length accounting
	sr := c.fn(h3, "Stream", "Read")
	brif := c.fld(h3, "Stream", "bytesRemainingInFrame")
	dlen := c.fld(h3, "dataFrame", "Length")
	ws := c.checkWriters(R, brif, c.set([3]string{h3, "Stream", "Read"}), 2)
	nSet, nSub := 0, 0
	for _, w := range ws[funcObj(sr)] {
		switch {
		case Load(dlen)(w.Val):
			nSet++
		case BinV(token.SUB, Load(brif), Any())(w.Val):
			nSub++
		default:
			c.Bad(R, "shape:bytesRemainingInFrame store", c.P.InstrPos(w.Instr), "unexpected store shape")
		}
	}
	c.Check(nSet == 1 && nSub == 1, R, "shape:bytesRemainingInFrame = frame length, then -= n", c.P.Pos(sr.Pos()), "DATA payload accounting")
	// read is capped to the remaining frame bytes: reads with the full buffer only on the remaining >= len(b) edge
	nRd := 0
	eachInstr(sr, func(i ssa.Instruction) {
		ci, ok := i.(*ssa.Call)
		if !ok || !ci.Call.IsInvoke() || ci.Call.Method.Name() != "Read" {
			return
		}
		nRd++
		a := ci.Call.Args[0]
		if sl, ok := a.(*ssa.Slice); ok {
			c.Check(sl.Low == nil && sl.High != nil && Load(brif)(sl.High), R, "shape:read b[:bytesRemainingInFrame]", c.P.InstrPos(i), "never read beyond the current DATA frame")
		} else {
			c.cut(R, "guard:full-buffer read only within the frame", &Cut{Fn: sr, Target: func(x ssa.Instruction) bool { return x == i },
				Edge: EdgeRel(Rel{Op: token.GEQ, X: Load(brif), Y: LenOf(ParamV("b"))}, false)}, "the whole buffer is used only when the frame has at least that many bytes left")
		}
	})
	c.Floor(R, "underlying reads in Stream.Read", nRd, 2)
	// new frame is parsed only when the previous one is exhausted
	parseNext := c.obj(h3, "frameParser", "ParseNext")
	c.cut(R, "guard:next frame parsed only at a frame boundary", &Cut{Fn: sr, Target: CallsTo(parseNext), Edge: EdgeRel(Rel{Op: token.EQL, X: Load(brif), Y: ConstI(0)}, false)}, "frame headers are only looked for between frames")

	// handler under recover
	hrs := c.fn(h3, "RawServerConn", "handleRequestStream")
	flush := c.obj(h3, "responseWriter", "Flush")
	flushTr := c.obj(h3, "responseWriter", "flushTrailers")
	c.cut(R, "order:response flushed before trailers", &Cut{Fn: hrs, Target: CallsTo(flushTr), Barrier: CallsTo(flush)}, "trailers are only sent after the header and body were flushed (a trailer section before HEADERS is not a response)")
	c.Floor(R, "flushTrailers calls in handleRequestStream", countInstr(hrs, CallsTo(flushTr)), 1)
	found, guarded := 0, 0
	for _, f := range withAnon(hrs) {
		eachInstr(f, func(i ssa.Instruction) {
			ci, ok := i.(ssa.CallInstruction)
			if !ok || !ci.Common().IsInvoke() || ci.Common().Method.Name() != "ServeHTTP" {
				return
			}
			found++
			// a defer in the same function, executed before the call, whose closure calls recover()
			q := &Cut{Fn: f, Target: func(x ssa.Instruction) bool { return x == i }, Barrier: func(x ssa.Instruction) bool {
				d, ok := x.(*ssa.Defer)
				if !ok {
					return false
				}
				mc, ok := d.Call.Value.(*ssa.MakeClosure)
				if !ok {
					return false
				}
				fn := mc.Fn.(*ssa.Function)
				rec := false
				eachInstr(fn, func(y ssa.Instruction) {
					if cl, ok := y.(*ssa.Call); ok && builtinName(&cl.Call) == "recover" {
						rec = true
					}
				})
				return rec
			}}
			if q.Run() == nil {
				guarded++
			}
		})
	}
	c.Check(found >= 1 && found == guarded, R, "recover:handler.ServeHTTP runs under a deferred recover", c.P.Pos(hrs.Pos()), "a panicking handler cannot take the server down")
}

// defaultBlocks: blocks reached when every `tag == K` comparison fails (the switch default).
func defaultBlocks(fn *ssa.Function, tag ssa.Value) []*ssa.BasicBlock {
	isCase := func(b *ssa.BasicBlock) bool {
		if len(b.Instrs) == 0 {
			return false
		}
		ifi, ok := b.Instrs[len(b.Instrs)-1].(*ssa.If)
		if !ok {
			return false
		}
		bo, ok := ifi.Cond.(*ssa.BinOp)
		return ok && bo.Op == token.EQL && bo.X == tag
	}
	var out []*ssa.BasicBlock
	for _, b := range fn.Blocks {
		if isCase(b) && !isCase(b.Succs[1]) {
			out = append(out, b.Succs[1])
		}
	}
	return out
}

func c18Alloc(c *Ctx) {
	const R = "C18.4"
	hlen := c.fld(h3, "headersFrame", "Length")
	n := 0
	for _, f := range c.P.ScopeFuncs() {
		if funcPkgPath(f) != pkgPathOf(h3) {
			continue
		}
		eachInstr(f, func(i ssa.Instruction) {
			ms, ok := i.(*ssa.MakeSlice)
			if !ok {
				return
			}
			l := stripConv(ms.Len)
			if _, isConst := l.(*ssa.Const); isConst {
				return
			}
			// peer-controlled: loaded from a frame's Length field or a parameter named l of the settings/goaway parsers
			peer := Load(hlen)(l)
			if p, isP := l.(*ssa.Parameter); isP && p.Name() == "l" {
				peer = true
			}
			if !peer {
				return
			}
			n++
			c.FuncsSet[funcName(f)] = true
			same := Same(l)
			c.cut(R, "bound:make([]byte, peer length)@"+funcName(rootFn(f)), &Cut{Fn: f, Target: func(x ssa.Instruction) bool { return x == i },
				Edge: OrEdge(EdgeRel(Rel{Op: token.LEQ, X: same, Y: Any()}, false), EdgeRel(Rel{Op: token.LSS, X: same, Y: Any()}, false))},
				"an allocation sized by a peer-supplied length is only reached past an upper-bound comparison of that length")
		})
	}
	c.Floor(R, "peer-sized allocations in http3", n, 4)
}

// ---------------- C19 ----------------

func runC19(c *Ctx) {
	c.Clause("C19.1 parseHeaders/parseTrailers: between two decoded fields every path passes the size check and name/value validation; regular fields pass validateRegularHeaderField before being added; pseudo-fields after a regular field, unknown, duplicate or of the wrong kind are errors; Content-Length is parsed with ParseUint(…,10,63)")
	c.Clause("C19.2 validation helpers have the expected tests; request construction rules (CONNECT / extended CONNECT / ordinary) and missing :status are errors")
	c.Clause("C19.3 writer ↔ parser tables: connection-specific names the parser rejects are exactly those the request writer drops; pseudo-header names the writers emit are known to the parser and of the right kind; writers lower-case every name")
	c.Clause("C19.4 error mapping on the server: too large → 431 + H3_EXCESSIVE_LOAD, QPACK failure → QPACK_DECOMPRESSION_FAILED, otherwise H3_MESSAGE_ERROR")
	c.Clause("C19.5 Stream.Read marks the trailer section as consumed whether or not parsing it succeeds; DATA and HEADERS after trailers are errors")
	c.Clause("C19.6 in the request and response writers no pseudo-header emission is reachable from a regular-field emission")
	c.Clause("C19.7 the response writer tests the Trailer: prefix on the key as set by the handler, not on the lower-cased name")
	c.Clause("C19.8 parseHeaders does not use the emptiness of a stored value as its not-seen-yet marker (duplicate pseudo-headers, Content-Length)")
	c.Clause("C19.11 the response writer drops connection, proxy-connection, transfer-encoding, upgrade and keep-alive like the request writer (and like parseHeaders rejects them); C19.12 a content-length field that was seen is always validated as a number, the empty value included; C19.13 a trailer section that does not parse resets the stream with H3_MESSAGE_ERROR (both directions)")
	c.Clause("C19.10 an empty Request.Method is written as GET")
	c.Clause("C19.9 the request writer classifies a request as Extended CONNECT only for method CONNECT and a non-empty protocol, the condition the parser uses")
	c.NotCovered("httpguts predicates themselves; semantic equality of decoded fields")

	c.rule("C19.1", func() { c19Parse(c) })
	c.rule("C19.2", func() { c19Helpers(c) })
	c.rule("C19.3", func() { c19Tables(c) })
	c.rule("C19.4", func() { c19ErrorMap(c) })
	c.rule("C19.5", func() { c19TrailerOnce(c) })
	c.rule("C19.6", func() { c19PseudoFirst(c) })
	c.rule("C19.7", func() { c19TrailerPrefixBeforeLower(c) })
	c.rule("C19.8", func() { c19NoEmptinessAsSeenMarker(c) })
	c.rule("C19.9", func() { c19ExtendedConnectAgreement(c) })
	c.rule("C19.10", func() { c19EmptyMethodIsGET(c) })
	c.rule("C19.11", func() { c19ResponseWriterDropsConnectionSpecific(c) })
	c.rule("C19.12", func() { c19ContentLengthAlwaysValidated(c) })
	c.rule("C19.13", func() { c19MalformedTrailersResetStream(c) })
}

// callsParam: call of the function-typed parameter with the given name.
func callsParam(name string) IP {
	return func(i ssa.Instruction) bool {
		cl, ok := i.(*ssa.Call)
		return ok && !cl.Call.IsInvoke() && ParamV(name)(cl.Call.Value)
	}
}

func c19Parse(c *Ctx) {
	const R = "C19.1"
	vnv := c.obj(h3, "", "validateHeaderFieldNameAndValue")
	vreg := c.obj(h3, "", "validateRegularHeaderField")
	vtr := c.obj(h3, "", "validateTrailerHeaderField")
	httpHeader := "net/http"
	addM := c.obj(httpHeader, "Header", "Add")
	isPseudo := c.obj("github.com/quic-go/qpack", "HeaderField", "IsPseudo")
	tooLarge, err := c.P.Object(h3, "errHeaderTooLarge")
	if err != nil {
		panic(anchorErr{err})
	}
	hfName := c.fld("github.com/quic-go/qpack", "HeaderField", "Name")
	hfValue := c.fld("github.com/quic-go/qpack", "HeaderField", "Value")
	for _, name := range []string{"parseHeaders", "parseTrailers"} {
		f := c.fn(h3, "", name)
		next := callsParam("decodeFn")
		c.Floor(R, "decodeFn calls in "+name, countInstr(f, next), 1)
		per := func(what string, edge func(*ssa.If, int) bool, why string) {
			c.cut(R, "field:"+name+" "+what, &Cut{Fn: f, Start: next, Target: OrIP(next, CallsTo(addM)), Edge: edge}, why)
		}
		// name AND value: len(Name)+len(Name) has the same shape (round-6 seed C19-2)
		per("size limit checked for every field", EdgeRel(Rel{Op: token.GEQ, X: BinV(token.SUB, Any(), BinV(token.ADD, BinV(token.ADD, LenOf(Load(hfName)), LenOf(Load(hfValue))), ConstI(32))), Y: ConstI(0)}, false),
			"every decoded field is charged name+value+32 against the limit before the next one is read")
		per("name/value validated for every field", EdgeRel(Rel{Op: token.EQL, X: CallTo(vnv, -1), Y: IsNil()}, false), "every field passes lower-case name and value validation")
		// size violation → errHeaderTooLarge
		nTL := 0
		eachInstr(f, func(i ssa.Instruction) {
			r, ok := i.(*ssa.Return)
			if !ok {
				return
			}
			res := retResults(r)
			e := res[len(res)-1]
			if u, ok := e.(*ssa.UnOp); ok {
				if g, ok := u.X.(*ssa.Global); ok && g.Object() == tooLarge {
					nTL++
				}
			}
		})
		c.Floor(R, "errHeaderTooLarge exits in "+name, nTL, 1)
		// field added only after regular-field validation
		v := vreg
		if name == "parseTrailers" {
			v = vtr
		}
		c.cut(R, "field:"+name+" added only after regular-field validation", &Cut{Fn: f, Start: next, Target: CallsTo(addM), Edge: EdgeRel(Rel{Op: token.EQL, X: CallTo(v, -1), Y: IsNil()}, false)},
			"a field reaches the http.Header only past its validator")
		c.Floor(R, "Header.Add in "+name, countInstr(f, CallsTo(addM)), 1)
		c.cut(R, "field:"+name+" pseudo-fields never added as regular fields", &Cut{Fn: f, Start: next, Target: CallsTo(addM), Edge: EdgeRel(BoolTrue(CallTo(isPseudo, -1)), true)},
			"only non-pseudo fields are added")
	}
	// parseTrailers: pseudo → error
	pt := c.fn(h3, "", "parseTrailers")
	c.cut(R, "trailers:pseudo-field rejected", &Cut{Fn: pt, StartBlocks: edgeSuccs(pt, BoolTrue(CallTo(isPseudo, -1))), Target: OrIP(callsParam("decodeFn"), ReturnsMaybeNilErr(1))}, "a pseudo-header in a trailer section is an error")

	ph := c.fn(h3, "", "parseHeaders")
	// pseudo-field name table
	names := map[string]bool{}
	eachInstr(ph, func(i ssa.Instruction) {
		bo, ok := i.(*ssa.BinOp)
		if !ok || bo.Op != token.EQL {
			return
		}
		if s, ok := constString(bo.Y); ok && strings.HasPrefix(s, ":") {
			names[s] = true
		}
	})
	var got []string
	for k := range names {
		got = append(got, k)
	}
	sort.Strings(got)
	wantP := []string{":authority", ":method", ":path", ":protocol", ":scheme", ":status"}
	c.Check(strings.Join(got, ",") == strings.Join(wantP, ","), R, "table:pseudo-header names known to the parser", c.P.Pos(ph.Pos()), fmt.Sprintf("got %v want %v", got, wantP))
	// from the IsPseudo()==true edge: next field is only read past (a) no regular header yet, (b) not duplicate, (c) kind matches
	sb := edgeSuccs(ph, BoolTrue(CallTo(isPseudo, -1)))
	c.Floor(R, "IsPseudo edges in parseHeaders", len(sb), 1)
	next := callsParam("decodeFn")
	// (a) readFirstRegularHeader is a φ of false (entry) and true (after a regular field); the test must be passed on its false edge
	isPhiBool := func(v ssa.Value) bool {
		p, ok := v.(*ssa.Phi)
		return ok && types.Identical(p.Type(), types.Typ[types.Bool])
	}
	c.cut(R, "pseudo:not after a regular field", &Cut{Fn: ph, StartBlocks: sb, Target: OrIP(next, isReturnNilErrLast), Edge: func(ifi *ssa.If, s int) bool {
		p, ok := condCore(ifi.Cond).(*ssa.Phi)
		if !ok || !isPhiBool(p) {
			return false
		}
		// the φ that becomes true after validateRegularHeaderField succeeded: one edge is const true coming from a block after that call
		// loop-carried flag: every edge is false (entry), true (set) or the φ itself (unchanged)
		hasTrue, hasFalse := false, false
		for _, e := range p.Edges {
			switch {
			case isConstBool(e, true):
				hasTrue = true
			case isConstBool(e, false):
				hasFalse = true
			case e == ssa.Value(p):
			default:
				return false
			}
		}
		return hasTrue && hasFalse && EdgeImplies(ifi, s, BoolTrue(func(v ssa.Value) bool { return v == p }), true)
	}}, "a pseudo-header after a regular field is an error")
	// (b) duplicate: the next field is read only past the false edge of a test of a per-pseudo-header "seen" marker
	// (an element of a local bool array / map), and the marker is set on the way. What the marker must NOT be — the
	// emptiness of the stored value — is rule C19.8.
	isSeenAddr := func(a ssa.Value) bool {
		ia, ok := a.(*ssa.IndexAddr)
		if !ok {
			return false
		}
		et := derefType(ia.X.Type())
		switch t := et.Underlying().(type) {
		case *types.Array:
			return types.Identical(t.Elem(), types.Typ[types.Bool])
		case *types.Slice:
			return types.Identical(t.Elem(), types.Typ[types.Bool])
		}
		return false
	}
	isSeenLoad := func(v ssa.Value) bool {
		switch x := v.(type) {
		case *ssa.UnOp:
			return x.Op == token.MUL && isSeenAddr(x.X)
		case *ssa.Lookup:
			if m, ok := x.X.Type().Underlying().(*types.Map); ok {
				return types.Identical(m.Elem(), types.Typ[types.Bool])
			}
		case *ssa.Extract:
			if lk, ok := x.Tuple.(*ssa.Lookup); ok {
				if m, ok := lk.X.Type().Underlying().(*types.Map); ok {
					return types.Identical(m.Elem(), types.Typ[types.Bool]) && x.Index == 0
				}
			}
		}
		return false
	}
	c.cut(R, "pseudo:duplicates rejected", &Cut{Fn: ph, StartBlocks: sb, Target: OrIP(next, isReturnNilErrLast), Edge: func(ifi *ssa.If, s int) bool {
		v := condCore(ifi.Cond)
		return isSeenLoad(v) && EdgeImplies(ifi, s, BoolTrue(func(x ssa.Value) bool { return x == v }), true)
	}}, "each pseudo-header may appear once: the next field is read only on the not-seen-before edge of a per-field marker")
	marksSeen := func(i ssa.Instruction) bool {
		switch x := i.(type) {
		case *ssa.Store:
			return isSeenAddr(x.Addr) && isConstBool(x.Val, true)
		case *ssa.MapUpdate:
			return isConstBool(x.Value, true)
		}
		return false
	}
	c.cut(R, "pseudo:occurrence recorded", &Cut{Fn: ph, StartBlocks: sb, Target: OrIP(next, isReturnNilErrLast), Barrier: marksSeen},
		"a pseudo-header that was accepted is marked as seen before the next field is read")
	// (c) kind: request side rejects response pseudo-headers and vice versa — two tests on the isRequest parameter
	c.cut(R, "pseudo:kind checked against isRequest", &Cut{Fn: ph, StartBlocks: sb, Target: OrIP(next, isReturnNilErrLast), Edge: func(ifi *ssa.If, s int) bool {
		return EdgeImplies(ifi, s, BoolTrue(ParamV("isRequest")), false) || EdgeImplies(ifi, s, BoolTrue(ParamV("isRequest")), true)
	}}, "request and response pseudo-headers are told apart")
	nKind := 0
	for _, b := range ph.Blocks {
		if ifi, ok := b.Instrs[len(b.Instrs)-1].(*ssa.If); ok && ParamV("isRequest")(condCore(ifi.Cond)) {
			nKind++
		}
	}
	c.Floor(R, "isRequest tests", nKind, 2)
	// Content-Length
	parseUint := c.obj("strconv", "", "ParseUint")
	np := 0
	for _, in := range findInstrs(ph, CallsTo(parseUint)) {
		np++
		a := in.(ssa.CallInstruction).Common().Args
		c.Check(ConstI(10)(a[1]) && ConstI(63)(a[2]), R, "shape:Content-Length parsed with ParseUint(s,10,63)", c.P.InstrPos(in), "decimal, non-negative, fits int64")
	}
	c.Floor(R, "ParseUint calls", np, 1)
	c.cut(R, "guard:Content-Length set only if numeric", &Cut{Fn: ph, Start: CallsTo(parseUint), Target: isReturnNilErrLast, Edge: EdgeRel(Rel{Op: token.EQL, X: CallTo(parseUint, 1), Y: IsNil()}, false)}, "a non-numeric Content-Length is an error")
	// contradicting content lengths
	nCL := 0
	eachInstr(ph, func(i ssa.Instruction) {
		bo, ok := i.(*ssa.BinOp)
		if ok && bo.Op == token.NEQ && types.Identical(bo.X.Type(), types.Typ[types.String]) {
			if _, isPhi := bo.X.(*ssa.Phi); isPhi {
				nCL++
			}
		}
	})
	c.Floor(R, "differing duplicate Content-Length test", nCL, 1)
}

func isReturnNilErrLast(i ssa.Instruction) bool {
	r, ok := i.(*ssa.Return)
	if !ok || len(r.Results) == 0 {
		return false
	}
	res := retResults(r)
	return !provablyNonNil(res[len(res)-1], r.Block(), map[ssa.Value]bool{})
}

func c19Helpers(c *Ctx) {
	const R = "C19.2"
	vnv := c.fn(h3, "", "validateHeaderFieldNameAndValue")
	toLower := c.obj("strings", "", "ToLower")
	vhv := c.obj("golang.org/x/net/http/httpguts", "", "ValidHeaderFieldValue")
	vhn := c.obj("golang.org/x/net/http/httpguts", "", "ValidHeaderFieldName")
	vth := c.obj("golang.org/x/net/http/httpguts", "", "ValidTrailerHeader")
	ok0 := ReturnsMaybeNilErr(0)
	nameF := c.fld("github.com/quic-go/qpack", "HeaderField", "Name")
	valF := c.fld("github.com/quic-go/qpack", "HeaderField", "Value")
	c.cut(R, "helper:name is lower-case", &Cut{Fn: vnv, Target: ok0, Edge: EdgeRel(Rel{Op: token.EQL, X: CallTo(toLower, -1, Load(nameF)), Y: Load(nameF)}, false)}, "success requires ToLower(name) == name")
	c.cut(R, "helper:value is valid", &Cut{Fn: vnv, Target: ok0, Edge: EdgeRel(BoolTrue(CallTo(vhv, -1, Load(valF))), false)}, "success requires a valid field value")
	vreg := c.fn(h3, "", "validateRegularHeaderField")
	c.cut(R, "helper:regular name is a token", &Cut{Fn: vreg, Target: ok0, Edge: EdgeRel(BoolTrue(CallTo(vhn, -1, Load(nameF))), false)}, "success requires a valid field name")
	contains := func(v ssa.Value) bool {
		cl, ok := stripConv(v).(*ssa.Call)
		if !ok {
			return false
		}
		o := calleeObj(&cl.Call)
		if o == nil || o.Name() != "Contains" || o.Pkg().Path() != "slices" {
			return false
		}
		sl, ok := cl.Call.Args[0].(*ssa.Slice)
		if !ok {
			return false
		}
		g, ok := sl.X.(*ssa.Global)
		return ok && g.Name() == "invalidHeaderFields" && Load(nameF)(cl.Call.Args[1])
	}
	c.cut(R, "helper:connection-specific names rejected", &Cut{Fn: vreg, Target: ok0, Edge: EdgeRel(BoolTrue(contains), true)}, "success requires the name not to be connection-specific")
	// te: trailers only
	nTE := 0
	eachInstr(vreg, func(i ssa.Instruction) {
		bo, ok := i.(*ssa.BinOp)
		if !ok {
			return
		}
		if s, ok := constString(bo.Y); ok && (s == "te" || s == "trailers") {
			nTE++
		}
	})
	c.Floor(R, "TE: trailers test", nTE, 2)
	vtr := c.fn(h3, "", "validateTrailerHeaderField")
	vregO := c.obj(h3, "", "validateRegularHeaderField")
	c.cut(R, "helper:trailer passes regular validation", &Cut{Fn: vtr, Target: ok0, Edge: EdgeRel(Rel{Op: token.EQL, X: CallTo(vregO, -1), Y: IsNil()}, false)}, "trailers obey the regular-field rules")
	c.cut(R, "helper:trailer name allowed in trailers", &Cut{Fn: vtr, Target: ok0, Edge: EdgeRel(BoolTrue(CallTo(vth, -1, Load(nameF))), false)}, "forbidden trailer names are rejected")

	// request construction
	rfh := c.fn(h3, "", "requestFromHeaders")
	hT := "header"
	path := c.fld(h3, hT, "Path")
	auth := c.fld(h3, hT, "Authority")
	method := c.fld(h3, hT, "Method")
	scheme := c.fld(h3, hT, "Scheme")
	proto := c.fld(h3, hT, "Protocol")
	reqAlloc := func(i ssa.Instruction) bool {
		al, ok := i.(*ssa.Alloc)
		return ok && typeIs(al.Type(), "net/http", "Request")
	}
	c.Floor(R, "http.Request construction", countInstr(rfh, reqAlloc), 1)
	emptyStr := func(f *types.Var) Rel {
		return Rel{Op: token.EQL, X: func(v ssa.Value) bool { return Load(f)(v) }, Y: func(v ssa.Value) bool { s, ok := constString(v); return ok && s == "" }}
	}
	lenZero := func(f *types.Var) Rel { return Rel{Op: token.EQL, X: LenOf(Load(f)), Y: ConstI(0)} }
	neither := func(f *types.Var) func(*ssa.If, int) bool {
		// an edge establishing "f is non-empty", in either spelling
		return OrEdge(EdgeRel(emptyStr(f), true), EdgeRel(lenZero(f), true))
	}
	// :authority is required in all three request forms
	c.cut(R, "request::authority required", &Cut{Fn: rfh, Target: reqAlloc, Edge: neither(auth)}, "no request is built without :authority")
	// ordinary / extended CONNECT need :path; plain CONNECT forbids it: a request with empty :path is built only when method == CONNECT
	connect := func(v ssa.Value) bool { s, ok := constString(v); return ok && s == "CONNECT" }
	isConnectEdge := EdgeRel(Rel{Op: token.EQL, X: Load(method), Y: connect}, false)
	_ = isConnectEdge
	c.cut(R, "request::method required for ordinary requests", &Cut{Fn: rfh, Target: reqAlloc, Edge: OrEdge(neither(method), phiBoolTrueEdge)}, "ordinary requests need :method (CONNECT is itself a method)")
	c.cut(R, "request::protocol only with extended CONNECT", &Cut{Fn: rfh, Target: reqAlloc, Edge: OrEdge(EdgeRel(lenZero(proto), false), EdgeRel(Rel{Op: token.LEQ, X: LenOf(Load(proto)), Y: ConstI(0)}, false), EdgeRel(emptyStr(proto), false), phiBoolTrueEdge)}, ":protocol without extended CONNECT is an error")
	_ = scheme
	_ = path
	nErr := countInstr(rfh, func(i ssa.Instruction) bool {
		r, ok := i.(*ssa.Return)
		if !ok {
			return false
		}
		res := retResults(r)
		cl, ok := res[1].(*ssa.Call)
		if !ok {
			return false
		}
		o := calleeObj(&cl.Call)
		return o != nil && o.Pkg() != nil && o.Pkg().Path() == "errors" && o.Name() == "New"
	})
	c.Floor(R, "request-form error exits", nErr, 4)
	urf := c.fn(h3, "", "updateResponseFromHeaders")
	status := c.fld(h3, hT, "Status")
	c.cut(R, "response::status required", &Cut{Fn: urf, Target: ReturnsMaybeNilErr(0), Edge: neither(status)}, "a response without :status is an error")
	atoi := c.obj("strconv", "", "Atoi")
	c.cut(R, "response::status numeric", &Cut{Fn: urf, Target: ReturnsMaybeNilErr(0), Edge: EdgeRel(Rel{Op: token.EQL, X: CallTo(atoi, 1), Y: IsNil()}, false)}, "a non-numeric :status is an error")
}

// phiBoolTrueEdge: an edge on which a boolean φ / derived boolean local (isConnect,
// isExtendedConnected) is true — used where a request form exempts a field.
func phiBoolTrueEdge(ifi *ssa.If, s int) bool {
	v := condCore(ifi.Cond)
	switch v.(type) {
	case *ssa.Phi, *ssa.BinOp:
		if bo, ok := v.(*ssa.BinOp); ok {
			if str, ok := constString(bo.Y); !ok || str != "CONNECT" {
				return false
			}
		}
		return EdgeImplies(ifi, s, BoolTrue(func(x ssa.Value) bool { return x == v }), false) || (func() bool {
			bo, ok := v.(*ssa.BinOp)
			return ok && bo.Op == token.EQL && s == 0
		})()
	}
	return false
}

func c19Tables(c *Ctx) {
	const R = "C19.3"
	// parser's connection-specific table
	invalid := c.stringArrayVar(h3, "invalidHeaderFields")
	sort.Strings(invalid)
	c.Check(len(invalid) >= 5, R, "table:invalidHeaderFields size", "-", fmt.Sprintf("%v", invalid))
	// writer's skip list: EqualFold chain in encodeHeaders' closure(s) that leads to `continue`
	eh := c.fn(h3, "requestWriter", "encodeHeaders")
	equalFold := c.obj("strings", "", "EqualFold")
	folds := map[string]bool{}
	for _, f := range withAnon(eh) {
		for _, in := range findInstrs(f, CallsTo(equalFold)) {
			if s, ok := constString(in.(ssa.CallInstruction).Common().Args[1]); ok {
				folds[s] = true
			}
		}
	}
	var missing []string
	for _, n := range invalid {
		if !folds[n] {
			missing = append(missing, n)
		}
	}
	c.Check(len(missing) == 0, R, "table:parser-rejected names ⊆ names the request writer drops", c.P.Pos(eh.Pos()),
		fmt.Sprintf("names rejected by the parser but not skipped by the writer: %v (writer skips %v)", missing, keys(folds)))
	// pseudo-headers emitted by writers ⊆ parser table, of the right kind
	reqPseudo := map[string]bool{}
	for _, f := range withAnon(eh) {
		eachInstr(f, func(i ssa.Instruction) {
			for _, op := range i.Operands(nil) {
				if *op == nil {
					continue
				}
				if s, ok := constString(*op); ok && strings.HasPrefix(s, ":") && len(s) > 1 && !strings.Contains(s, "/") && !strings.Contains(s, " ") {
					reqPseudo[s] = true
				}
			}
		})
	}
	parserReq := map[string]bool{":authority": true, ":method": true, ":path": true, ":scheme": true, ":protocol": true}
	for _, k := range keys(reqPseudo) {
		c.Check(parserReq[k], R, "table:request writer pseudo-header "+k+" accepted for requests", c.P.Pos(eh.Pos()), "every pseudo-header the request writer emits is a request pseudo-header known to the parser")
	}
	c.Check(reqPseudo[":authority"] && reqPseudo[":method"] && reqPseudo[":path"] && reqPseudo[":scheme"], R, "table:request writer emits the mandatory pseudo-headers", c.P.Pos(eh.Pos()), ":authority, :method, :path, :scheme")
	wh := c.fn(h3, "responseWriter", "writeHeader")
	rspPseudo := map[string]bool{}
	eachInstr(wh, func(i ssa.Instruction) {
		for _, op := range i.Operands(nil) {
			if *op == nil {
				continue
			}
			if s, ok := constString(*op); ok && strings.HasPrefix(s, ":") && len(s) > 1 {
				rspPseudo[s] = true
			}
		}
	})
	c.Check(len(rspPseudo) == 1 && rspPseudo[":status"], R, "table:response writer emits exactly :status", c.P.Pos(wh.Pos()), fmt.Sprintf("%v", keys(rspPseudo)))
	// lower-casing: every WriteField in the writers receives a Name that is a ToLower result or a constant lower-case literal
	writeField := c.obj("github.com/quic-go/qpack", "Encoder", "WriteField")
	toLower := c.obj("strings", "", "ToLower")
	nameF := c.fld("github.com/quic-go/qpack", "HeaderField", "Name")
	nWF := 0
	for _, root := range []*ssa.Function{eh, wh, c.fn(h3, "", "writeTrailers")} {
		for _, f := range withAnon(root) {
			for _, in := range findInstrs(f, CallsTo(writeField)) {
				nWF++
				arg := in.(ssa.CallInstruction).Common().Args[1]
				// struct literal: local alloc with Name stored
				var nameVal ssa.Value
				if u, ok := arg.(*ssa.UnOp); ok {
					if al, ok := u.X.(*ssa.Alloc); ok {
						nameVal = allocFieldVal(al, nameF)
					}
				}
				ok := nameVal != nil && onlyFrom(nameVal, func(v ssa.Value) bool {
					if CallTo(toLower, -1)(v) {
						return true
					}
					s, isK := constString(v)
					return isK && s == strings.ToLower(s)
				}, 0)
				c.Check(ok, R, "lower:"+funcName(rootFn(f))+" writes lower-case names", c.P.InstrPos(in), "the parser rejects names that are not lower-case, so writers must lower-case them")
			}
		}
	}
	c.Floor(R, "WriteField call sites", nWF, 4)
}

func keys(m map[string]bool) []string {
	var out []string
	for k := range m {
		out = append(out, k)
	}
	sort.Strings(out)
	return out
}

func c19ErrorMap(c *Ctx) {
	const R = "C19.4"
	hrs := c.fn(h3, "RawServerConn", "handleRequestStream")
	excessive := c.konst(h3, "ErrCodeExcessiveLoad")
	qpackFail := c.konst(h3, "ErrCodeQPACKDecompressionFailed")
	msgErr := c.konst(h3, "ErrCodeMessageError")
	c.Check(constInt(excessive) == 0x107 && constInt(qpackFail) == 0x200 && constInt(msgErr) == 0x10e, R, "const:H3 error codes", "-", "RFC 9114 §8.1 / RFC 9204 §6")
	reject := c.obj(h3, "RawServerConn", "rejectWithHeaderFieldsTooLarge")
	rfh := c.obj(h3, "", "requestFromHeaders")
	// after requestFromHeaders failed: errors.Is(err, errHeaderTooLarge) → CancelRead(EXCESSIVE_LOAD)+431; else code φ(MESSAGE_ERROR, QPACK) selected by errors.As
	n431 := countInstr(hrs, CallsTo(reject))
	c.Floor(R, "431 rejections", n431, 2)
	for _, in := range findInstrs(hrs, CallsTo(reject)) {
		site := in
		c.cut(R, "map:431 preceded by CancelRead(H3_EXCESSIVE_LOAD)", &Cut{Fn: hrs, Target: func(i ssa.Instruction) bool { return i == site }, Barrier: func(i ssa.Instruction) bool {
			ci, ok := i.(ssa.CallInstruction)
			if !ok || !ci.Common().IsInvoke() && calleeObj(ci.Common()) == nil {
				return false
			}
			name := ""
			if ci.Common().IsInvoke() {
				name = ci.Common().Method.Name()
			} else if o := calleeObj(ci.Common()); o != nil {
				name = o.Name()
			}
			if name != "CancelRead" {
				return false
			}
			a := ci.Common().Args
			return len(a) > 0 && ConstOf(excessive)(a[len(a)-1])
		}}, "too-large field sections stop the client with H3_EXCESSIVE_LOAD before the 431 is sent")
	}
	// the error code used for the other failures
	found := false
	eachInstr(hrs, func(i ssa.Instruction) {
		p, ok := i.(*ssa.Phi)
		if !ok || len(p.Edges) != 2 {
			return
		}
		a, b := p.Edges[0], p.Edges[1]
		if (ConstOf(msgErr)(a) && ConstOf(qpackFail)(b)) || (ConstOf(msgErr)(b) && ConstOf(qpackFail)(a)) {
			found = true
		}
	})
	c.Check(found, R, "map:other failures → H3_MESSAGE_ERROR unless QPACK error", c.P.Pos(hrs.Pos()), "error code is QPACK_DECOMPRESSION_FAILED for *qpackError and H3_MESSAGE_ERROR otherwise")
	// the handler is only reached when requestFromHeaders succeeded
	c.cut(R, "guard:handler only for well-formed requests", &Cut{Fn: hrs, Target: func(i ssa.Instruction) bool {
		_, ok := i.(*ssa.MakeClosure)
		if !ok {
			return false
		}
		mc := i.(*ssa.MakeClosure)
		fn := mc.Fn.(*ssa.Function)
		has := false
		eachInstr(fn, func(y ssa.Instruction) {
			if ci, ok := y.(ssa.CallInstruction); ok && ci.Common().IsInvoke() && ci.Common().Method.Name() == "ServeHTTP" {
				has = true
			}
		})
		return has
	}, Edge: EdgeRel(Rel{Op: token.EQL, X: CallTo(rfh, 1), Y: IsNil()}, false)}, "a malformed request never reaches the handler")
}
