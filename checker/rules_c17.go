package main

import (
	"fmt"
	"go/token"
	"go/types"
	"sort"
	"strings"

	"golang.org/x/tools/go/ssa"
)

func init() { register("C17", runC17) }

func runC17(c *Ctx) {
	c.Clause("C17.1 every blocking wait in the root package and http3 (select without default, bare receive/send, WaitGroup.Wait) waits on at least one channel that a caller supplied (ctx), or that is closed / signalled by a function reachable from the shutdown roots (post-loop part of Conn.run and its defers, setCloseError, Transport.close, baseServer.close, http3 close paths), or that is closed by the deferred close of a goroutine whose own waits are so covered; documented exceptions are frozen with reasons")
	c.Clause("C17.2 single recorded cause: closeErr is only written by CompareAndSwap(nil, ·); the context is cancelled with run's result; handleCloseError fans the same error out to streams and datagram queue")
	c.Clause("C17.3 the peer is informed where due: the non-remote, non-immediate, first-packet-sent close path reaches sendConnectionClose")
	c.Clause("C17.4 resources: the post-loop part of run closes crypto setup, send queue, handles the close error and stops the timer; every time.NewTimer result is stopped (deferred or on the exit path) or owned by a field that is; dial cancellation waits for the run goroutine")
	c.Clause("C17.5 idle timeout = start + max(idleTimeout, 3·PTO), checked with !now.Before(·); keep-alive interval shape")
	c.Clause("C17.6 while Transport.mutex is held no function is called that can block on connection / server teardown (which itself needs that mutex)")
	c.Clause("C17.7 the closed-connection stand-in retransmits CONNECTION_CLOSE with exponential back-off: the packet counter is incremented atomically per packet and the retransmission is reached only when the count is a power of two; the remote-close stand-in ignores packets; ReplaceWithClosed picks the local stand-in exactly when a CONNECTION_CLOSE packet exists")
	c.NotCovered("promptness; leak-freedom as such; timeout accuracy")
	c.Clause("C17.8 no lost wake-up on streams: every method that writes a field which the blocking loops of Read/Peek/Write test in their branch conditions calls signalRead/signalWrite on every path after the store (in itself or in the private callers that wrap it); conditional-signalling sites are frozen exceptions with reasons")
	c.Clause("C17.17 handleCloseError sends no CONNECTION_CLOSE and installs no closed stand-in when the cause is a stateless reset or a recreation after Version Negotiation; C17.18 every deletion from the handler map is followed by the empty-map test that stops a closed single-use transport")
	c.Clause("C17.21 the keep-alive interval is max(configured interval, PTO·3/2)")
	c.Clause("C17.20 DialAddr / DialAddrEarly / ListenAddr / ListenAddrEarly close the UDP socket they opened on every error return")
	c.Clause("C17.19 every struct-field channel that is signalled with a non-blocking send is created with capacity ≥ 1 (one-slot token: no lost wake-up between check and park)")
	c.Clause("C17.16 a blocked Write that is woken re-checks shutdownErr and resetErr before it buffers data in nextFrame (closeForShutdown / CancelWrite discard that frame before waking the writer)")
	c.Clause("C17.15 handleNewConn refuses (CONNECTION_REFUSED) the handshaking connection when the listener is closed (both the early and the non-early wait) and when the accept queue is full")
	c.Clause("C17.14 datagramQueue.Add queues a datagram only after consulting the closed channel (SendDatagram after the connection ended returns the cause)")
	c.Clause("C17.13 every return of Conn.run passes handleCloseError, and the send queue's goroutine is started before run can wait for it")
	c.Clause("C17.12 a short-header packet that carries STREAM frames restarts the idle timer's first-ack-eliciting-after-idle mark (the idle timeout must not fire while the endpoint is still sending data)")
	c.Clause("C17.11 SendStream / ReceiveStream call back into the connection (streamSender) only after releasing their own mutex (the repository's stated rule; lock-order inversion with the framer / streams map otherwise)")
	c.Clause("C17.10 datagram queue: every queued datagram signals rcvd, every Pop signals sent, CloseWithError records the error and then closes closed on every path, and both blocking waits listen on closed")
	c.Clause("C17.9 every mutex acquired in the root package, http3, flowcontrol, ackhandler, handshake and utils is released (Unlock or deferred Unlock) on every path to return")
	c.NotCovered("lost wake-ups outside the stream Read/Write loops (stream maps, datagram queue use closed channels / 1-slot channels)")

	c.rule("C17.1", func() { c17Waits(c) })
	c.rule("C17.2", func() { c17Cause(c) })
	c.rule("C17.3", func() { c17Peer(c) })
	c.rule("C17.4", func() { c17Resources(c) })
	c.rule("C17.5", func() { c17Idle(c) })
	c.rule("C17.6", func() { c17NoWaitUnderTransportMutex(c) })
	c.rule("C17.7", func() { c17ClosedStandIn(c) })
	c.rule("C17.8", func() { c17NoLostWakeup(c) })
	c.rule("C17.9", func() { c17LockPairing(c) })
	c.rule("C17.10", func() { c17DatagramQueueWakeups(c) })
	c.rule("C17.11", func() { c17CallbacksOutsideStreamMutex(c, "C17.11") })
	c.rule("C17.12", func() { c17IdleRestartCountsStreamFrames(c, "C17.12") })
	c.rule("C17.13", func() { c17RunSingleExit(c) })
	c.rule("C17.14", func() { c17NoDatagramAfterClose(c) })
	c.rule("C17.15", func() { c17ServerRefusesOnClose(c) })
	c.rule("C17.16", func() { c17WokenWriteRechecksTermination(c) })
	c.rule("C17.17", func() { c17NoCloseFrameAfterStatelessReset(c) })
	c.rule("C17.18", func() { c17LastHandlerStopsListening(c) })
	c.rule("C17.19", func() { c17SignalChannelsBuffered(c) })
	c.rule("C17.20", func() { c17OpenedSocketClosedOnError(c) })
	c.rule("C17.21", func() { c17KeepAliveFloor(c) })
}

// waitExceptions: blocking sites that are not woken by a shutdown-reachable signal, with the reason why that is right.
var waitExceptions = map[string]string{
	"ReceiveStream.readOnce": "1-slot semaphore serialising concurrent Read/Peek calls: a sender blocks only while another call of the same method is running, and that call's deferred receive releases it",
	"SendStream.writeOnce":   "1-slot semaphore serialising concurrent Write calls (same pattern as readOnce)",
}

// ctxOnlyExceptions: root-package waits that only the caller's context (or an unrelated event) ends.
var ctxOnlyExceptions = map[string]string{
	"(*quic.Path).Probe": "path probing is not one of the calls the property lists (stream, accept, open, datagram, Dial, Accept); Probe ends with its context, with validation or with Path.Close, and nothing on the connection's close path signals it — recorded as not covered, not as holding",
}

func c17Waits(c *Ctx) {
	const R = "C17.1"
	inScope := func(pk string) bool { return pk == modPath || pk == modPath+"/http3" }
	sites := c.P.waitSites(inScope)
	c.Floor(R, "blocking sites", len(sites), 50)
	signals := c.P.signalSites()
	// context fields and their cancel functions
	ctxCancel := map[string]*types.Var{}
	for _, spec := range [][3]string{{"", "Conn", "ctxCancel"}, {"", "SendStream", "ctxCancel"}} {
		if v, err := c.P.Field(spec[0], spec[1], spec[2]); err == nil {
			ctxCancel[spec[1]+".ctx"] = v.Origin()
		}
	}
	// shutdown roots
	run := c.fn("", "Conn", "run")
	var rootFns []*ssa.Function
	var rootInstrs []ssa.Instruction
	// blocks of run from which the main blocking select is no longer reachable
	var mainSel ssa.Instruction
	eachInstr(run, func(i ssa.Instruction) {
		if s, ok := i.(*ssa.Select); ok && s.Blocking {
			mainSel = i
		}
	})
	if mainSel != nil {
		for _, b := range run.Blocks {
			if !reachesInstr(b, func(i ssa.Instruction) bool { return i == mainSel }) {
				rootInstrs = append(rootInstrs, b.Instrs...)
			}
		}
	}
	eachInstr(run, func(i ssa.Instruction) {
		if d, ok := i.(*ssa.Defer); ok {
			rootInstrs = append(rootInstrs, d)
		}
	})
	for _, spec := range [][3]string{
		{"", "Conn", "setCloseError"}, {"", "Conn", "handleCloseError"}, {"", "Transport", "close"}, {"", "Transport", "Close"}, {"", "baseServer", "close"},
		{"", "sendQueue", "Close"}, {h3, "Server", "Close"}, {h3, "Server", "Shutdown"}, {h3, "rawConn", "CloseWithError"}, {h3, "ClientConn", "CloseWithError"},
	} {
		if f, err := c.P.Func1(spec[0], spec[1], spec[2]); err == nil {
			rootFns = append(rootFns, f)
		}
	}
	reach := c.P.reachFrom(rootFns, rootInstrs)
	c.Count("functions reachable from shutdown roots", len(reach))
	c.Floor(R, "shutdown-reachable functions", len(reach), 40)

	// goroutine-exit closers: field closed by a deferred close / unconditional close in a function
	deferredClosers := map[string][]*ssa.Function{}
	for _, f := range c.P.ScopeFuncs() {
		if !inScope(funcPkgPath(f)) {
			continue
		}
		eachInstr(f, func(i ssa.Instruction) {
			d, ok := i.(*ssa.Defer)
			if !ok {
				return
			}
			if builtinName(&d.Call) == "close" {
				if k := classField(chanClass(d.Call.Args[0], 0)); k != "" {
					deferredClosers[k] = append(deferredClosers[k], f)
				}
				return
			}
			// defer of a function (or closure) that itself closes / sends on the channel
			var callee *ssa.Function
			if sc := d.Call.StaticCallee(); sc != nil {
				callee = sc
			}
			if callee == nil {
				return
			}
			for k, fs := range signals {
				for _, sf := range fs {
					if sf == callee {
						deferredClosers[k] = append(deferredClosers[k], f)
					}
				}
			}
		})
	}

	var okClass func(cls string, fn *ssa.Function, depth int) (bool, string)
	isCallerCtx := func(cl string) bool {
		return strings.Contains(cl, "ctx.Done(param:") || strings.Contains(cl, "ctx.Done(call:Context)")
	}
	siteOK := func(w waitSite, depth int) (bool, string) {
		var reasons []string
		hasCtx := false
		for _, cl := range w.Classes {
			if isCallerCtx(cl) {
				hasCtx = true
				continue
			}
			if ok, why := okClass(cl, w.Fn, depth); ok {
				return true, cl + ": " + why
			} else {
				reasons = append(reasons, cl+": "+why)
			}
		}
		if hasCtx {
			// a caller-supplied context ends the wait only if the caller cancels it: in the root package
			// (the property's anchors) that is accepted only for the frozen exceptions below
			if why, ok := ctxOnlyExceptions[funcName(rootFn(w.Fn))]; ok {
				return true, "caller context only — exception: " + why
			}
			if funcPkgPath(w.Fn) != modPath {
				return true, "caller-supplied context (http3 layer, outside the property's anchors: accepted)"
			}
			reasons = append(reasons, "the caller's context alone does not end the wait when the connection ends")
		}
		return false, strings.Join(reasons, "; ")
	}
	fnWaits := map[*ssa.Function][]waitSite{}
	for _, w := range sites {
		fnWaits[rootFn(w.Fn)] = append(fnWaits[rootFn(w.Fn)], w)
	}
	okClass = func(cls string, fn *ssa.Function, depth int) (bool, string) {
		if depth > 3 {
			return false, "recursion depth"
		}
		raw := strings.TrimPrefix(strings.TrimPrefix(cls, "<-"), "->")
		// compound classes (φ / var): any component
		if strings.HasPrefix(raw, "phi(") || strings.HasPrefix(raw, "var(") {
			inner := raw[strings.Index(raw, "(")+1 : len(raw)-1]
			for _, part := range splitTop(inner) {
				if ok, why := okClass(part, fn, depth); ok {
					return true, why
				}
			}
		}
		if raw == "local-make" || strings.HasPrefix(raw, "freevar:") {
			// a local channel: some closure of the enclosing function (a goroutine body) sends on / closes it
			root := rootFn(fn)
			for _, a := range withAnon(root) {
				sends := false
				eachInstr(a, func(i ssa.Instruction) {
					switch x := i.(type) {
					case *ssa.Send:
						if c := chanClass(x.Chan, 0); strings.HasPrefix(c, "freevar:") || c == "local-make" || strings.HasPrefix(c, "var(") {
							sends = true
						}
					case ssa.CallInstruction:
						if builtinName(x.Common()) == "close" {
							sends = true
						}
					}
				})
				if sends && a != fn {
					return true, "signalled by a goroutine started in " + funcName(root)
				}
			}
			// stored into a container (slice field) that is signalled on shutdown
			stored := ""
			eachInstr(root, func(i ssa.Instruction) {
				if st, ok := i.(*ssa.Store); ok {
					if f := fieldOfAddress(st.Addr); f != nil {
						if cl, ok := st.Val.(*ssa.Call); ok && builtinName(&cl.Call) == "append" {
							stored = f.Name()
						}
					}
				}
			})
			if stored != "" {
				for k, fs := range signals {
					if strings.HasSuffix(k, "."+stored) {
						for _, f := range fs {
							if reach[f] || reach[rootFn(f)] {
								return true, "queued in " + k + ", whose elements are closed by " + funcName(f)
							}
						}
					}
				}
			}
			return false, "local channel with no signalling goroutine"
		}
		k := classField(raw)
		if k == "" {
			return false, "unclassified channel"
		}
		if strings.HasPrefix(k, "ctx:") {
			cf := ctxCancel[strings.TrimPrefix(k, "ctx:")]
			if cf == nil {
				return false, "context field without a known cancel function"
			}
			for _, f := range c.P.cancelSites(cf) {
				if reach[f] || reach[rootFn(f)] {
					return true, "context cancelled by " + funcName(f)
				}
			}
			return false, "cancel function not called on the shutdown path"
		}
		for _, f := range signals[k] {
			if reach[f] || reach[rootFn(f)] {
				return true, "signalled by " + funcName(f) + " (shutdown-reachable)"
			}
		}
		// closed by the deferred close of a goroutine body whose own waits are covered
		for _, g := range deferredClosers[k] {
			all := true
			n := 0
			for _, w := range fnWaits[rootFn(g)] {
				n++
				if ok, _ := siteOK(w, depth+1); !ok {
					all = false
				}
			}
			if all {
				return true, fmt.Sprintf("closed by the deferred close in %s, whose %d own waits end on shutdown (or which returns when its socket/resource is closed)", funcName(g), n)
			}
		}
		if _, ok := waitExceptions[k]; ok {
			return true, "exception: " + waitExceptions[k]
		}
		return false, "no shutdown-reachable close/send for " + k
	}

	perFn := map[string]int{}
	for _, w := range sites {
		fnm := funcName(w.Fn)
		perFn[fnm]++
		c.FuncsSet[fnm] = true
		var ok bool
		var why string
		switch {
		case w.Kind == "waitgroup":
			ok, why = c17WaitGroup(c, w)
		case w.Kind == "send" && c17BufferedOnce(w):
			ok, why = true, "single send by a goroutine started once on a channel made with capacity >= 1: cannot block"
		default:
			ok, why = siteOK(w, 0)
		}
		c.Check(ok, R, fmt.Sprintf("wait:%s#%d(%s)", fnm, perFn[fnm], w.Kind), c.P.InstrPos(w.Instr),
			fmt.Sprintf("blocking %s on [%s] must be ended by the shutdown path: %s", w.Kind, strings.Join(w.Classes, ", "), why))
	}
}

// splitTop splits "a|b|phi(c|d)" at top-level bars.
func splitTop(s string) []string {
	var out []string
	depth, start := 0, 0
	for i, r := range s {
		switch r {
		case '(':
			depth++
		case ')':
			depth--
		case '|':
			if depth == 0 {
				out = append(out, s[start:i])
				start = i + 1
			}
		}
	}
	out = append(out, s[start:])
	return out
}

func c17Cause(c *Ctx) {
	const R = "C17.2"
	closeErr := c.fld("", "Conn", "closeErr")
	// methods invoked on the atomic pointer field
	used := map[string][]string{}
	for _, f := range c.P.ScopeFuncs() {
		eachInstr(f, func(i ssa.Instruction) {
			ci, ok := i.(ssa.CallInstruction)
			if !ok || len(ci.Common().Args) == 0 {
				return
			}
			fa, ok := ci.Common().Args[0].(*ssa.FieldAddr)
			if !ok || fieldOfAddr(fa) != closeErr {
				return
			}
			if o := calleeObj(ci.Common()); o != nil {
				used[o.Name()] = append(used[o.Name()], funcName(rootFn(f)))
			}
		})
	}
	var ms []string
	for k := range used {
		ms = append(ms, k)
	}
	sort.Strings(ms)
	okM := true
	for _, m := range ms {
		if m != "CompareAndSwap" && m != "Load" {
			okM = false
		}
	}
	c.Check(okM && len(used["CompareAndSwap"]) >= 1, R, "once:closeErr written only by CompareAndSwap", "-", fmt.Sprintf("methods used on Conn.closeErr: %v (a Store/Swap would let a later cause overwrite the first)", ms))
	sce := c.fn("", "Conn", "setCloseError")
	for _, i := range findInstrs(sce, func(i ssa.Instruction) bool {
		ci, ok := i.(ssa.CallInstruction)
		if !ok {
			return false
		}
		o := calleeObj(ci.Common())
		return o != nil && o.Name() == "CompareAndSwap"
	}) {
		a := i.(ssa.CallInstruction).Common().Args
		c.Check(IsNil()(a[1]) && ParamV("e")(a[2]), R, "shape:CompareAndSwap(nil, e)", c.P.InstrPos(i), "only the first cause is recorded")
	}
	c.checkCallers(R, c.obj("", "Conn", "handleCloseError"), c.set([3]string{"", "Conn", "run"}), 1)
	// run: deferred ctxCancel(err)
	run := c.fn("", "Conn", "run")
	cancel := c.fld("", "Conn", "ctxCancel")
	okDefer := false
	eachInstr(run, func(i ssa.Instruction) {
		d, ok := i.(*ssa.Defer)
		if !ok {
			return
		}
		if mc, ok := d.Call.Value.(*ssa.MakeClosure); ok {
			fn := mc.Fn.(*ssa.Function)
			eachInstr(fn, func(x ssa.Instruction) {
				if callsFieldFunc(cancel)(x) {
					// argument is the named result of run (a free variable cell)
					a := x.(ssa.CallInstruction).Common().Args[0]
					if u, ok := a.(*ssa.UnOp); ok {
						if fv, ok := u.X.(*ssa.FreeVar); ok && fv.Name() == "err" {
							okDefer = true
						}
					}
				}
			})
		}
	})
	c.Check(okDefer, R, "post:run defers ctxCancel(result)", c.P.Pos(run.Pos()), "the connection context is cancelled with the error run returns, on every exit")
	// the deferred cancel is registered before anything can return
	// handleCloseError passes one error value to streams and datagrams
	h := c.fn("", "Conn", "handleCloseError")
	smc := c.obj("", "streamsMap", "CloseWithError")
	dqc := c.obj("", "datagramQueue", "CloseWithError")
	var e1, e2 ssa.Value
	for _, i := range findInstrs(h, CallsTo(smc)) {
		e1 = i.(ssa.CallInstruction).Common().Args[1]
	}
	for _, i := range findInstrs(h, CallsTo(dqc)) {
		e2 = i.(ssa.CallInstruction).Common().Args[1]
	}
	c.Check(e1 != nil && e2 != nil && sameValue(e1, e2), R, "same:streams and datagram queue receive the same error", c.P.Pos(h.Pos()), "every blocked call returns the one recorded cause")
	c.cut(R, "pair:every close path unblocks the streams", &Cut{Fn: h, Target: isReturn, Barrier: CallsTo(smc)}, "streams are closed for shutdown on every path of handleCloseError")
	// the error run returns is the recorded one
	ld := func(i ssa.Instruction) bool {
		ci, ok := i.(ssa.CallInstruction)
		if !ok || len(ci.Common().Args) == 0 {
			return false
		}
		fa, ok := ci.Common().Args[0].(*ssa.FieldAddr)
		o := calleeObj(ci.Common())
		return ok && fieldOfAddr(fa) == closeErr && o != nil && o.Name() == "Load"
	}
	c.Floor(R, "closeErr.Load in run", countInstr(run, ld), 1)
	// every stream map: records the cause, closes each of its streams for shutdown with it, wakes its waiters
	nMaps := 0
	for _, typ := range []string{"incomingStreamsMap", "outgoingStreamsMap"} {
		for _, f := range c.fns("", typ, "CloseWithError") {
			nMaps++
			name := funcName(f)
			ce := c.fld("", typ, "closeErr")
			okStore := false
			for _, in := range findInstrs(f, StoresTo(ce)) {
				if ParamV("err")(in.(*ssa.Store).Val) {
					okStore = true
				}
			}
			c.Check(okStore, R, "fan-out:"+name+" records the cause", c.P.Pos(f.Pos()), "later Open/Accept calls return the recorded cause")
			okCfs := false
			eachInstr(f, func(in ssa.Instruction) {
				ci, ok := in.(ssa.CallInstruction)
				if !ok {
					return
				}
				cm := ci.Common()
				nm := ""
				if cm.IsInvoke() {
					nm = cm.Method.Name()
				} else if o := calleeObj(cm); o != nil {
					nm = o.Name()
				}
				if nm != "closeForShutdown" {
					return
				}
				args := cm.Args
				if !cm.IsInvoke() && len(args) > 0 {
					args = args[1:]
				}
				if len(args) == 1 && ParamV("err")(args[0]) && inCycle(in.Block()) {
					okCfs = true
				}
			})
			c.Check(okCfs, R, "fan-out:"+name+" closes every stream for shutdown with the cause", c.P.Pos(f.Pos()), "a loop over the map's streams calls closeForShutdown(err): blocked Read/Write calls return")
			nClose := countInstr(f, func(in ssa.Instruction) bool {
				cl, ok := in.(*ssa.Call)
				return ok && builtinName(&cl.Call) == "close"
			})
			c.Check(nClose >= 1, R, "fan-out:"+name+" wakes its blocked callers", c.P.Pos(f.Pos()), "the accept channel / every queued open waiter is closed")
		}
	}
	c.Floor(R, "stream map CloseWithError instantiations", nMaps, 4)
	sm := c.fn("", "streamsMap", "CloseWithError")
	for _, fld := range []string{"outgoingBidiStreams", "outgoingUniStreams", "incomingBidiStreams", "incomingUniStreams"} {
		fv := c.fld("", "streamsMap", fld)
		n := 0
		eachInstr(sm, func(in ssa.Instruction) {
			ci, ok := in.(ssa.CallInstruction)
			if !ok || ci.Common().IsInvoke() || len(ci.Common().Args) < 2 {
				return
			}
			if o := calleeObj(ci.Common()); o != nil && o.Name() == "CloseWithError" && Load(fv)(ci.Common().Args[0]) && ParamV("err")(ci.Common().Args[1]) {
				n++
			}
		})
		c.Check(n == 1, R, "fan-out:streamsMap.CloseWithError → "+fld, c.P.Pos(sm.Pos()), "each of the four maps is closed with the cause")
	}
	// stream-level: closeForShutdown records the error under the mutex, then signals
	for _, spec := range []struct{ typ, fld, sig string }{{"SendStream", "shutdownErr", "signalWrite"}, {"ReceiveStream", "closeForShutdownErr", "signalRead"}} {
		f := c.fn("", spec.typ, "closeForShutdown")
		fld := c.fld("", spec.typ, spec.fld)
		sig := c.obj("", spec.typ, spec.sig)
		c.cut(R, "pair:"+spec.typ+".closeForShutdown signals after recording", &Cut{Fn: f, Target: isReturn, Barrier: CallsTo(sig)}, "a blocked call is woken on every path")
		c.cut(R, "order:"+spec.typ+" error recorded before the wake-up", &Cut{Fn: f, Target: CallsTo(sig), Barrier: StoresTo(fld), Edge: func(ifi *ssa.If, s int) bool { return true }}, "the woken caller finds the cause (or the stream was already finished)")
		for _, in := range findInstrs(f, StoresTo(fld)) {
			c.Check(ParamV("err")(in.(*ssa.Store).Val), R, "shape:"+spec.typ+"."+spec.fld+"=err", c.P.InstrPos(in), "the recorded cause is the connection's")
		}
	}
}

func c17Peer(c *Ctx) {
	const R = "C17.3"
	h := c.fn("", "Conn", "handleCloseError")
	send := c.obj("", "Conn", "sendConnectionClose")
	imm := c.fld("", "closeError", "immediate")
	sfp := c.fld("", "Conn", "sentFirstPacket")
	c.Floor(R, "sendConnectionClose calls", countInstr(h, CallsTo(send)), 1)
	// every exit passes sendConnectionClose unless: remote close, immediate, or nothing was sent yet
	isRemote := func(ifi *ssa.If, s int) bool {
		// the isRemoteClose φ (built from applicationErr.Remote / transportErr.Remote)
		p, ok := condCore(ifi.Cond).(*ssa.Phi)
		if !ok {
			return false
		}
		fromRemote := false
		var walk func(v ssa.Value, d int)
		walk = func(v ssa.Value, d int) {
			if d > 6 {
				return
			}
			if ph, ok := v.(*ssa.Phi); ok {
				for _, e := range ph.Edges {
					if e != v {
						walk(e, d+1)
					}
				}
				return
			}
			if f, _ := loadedField(v); f != nil && f.Name() == "Remote" {
				fromRemote = true
			}
		}
		walk(p, 0)
		return fromRemote && EdgeImplies(ifi, s, BoolTrue(func(v ssa.Value) bool { return v == ssa.Value(p) }), false)
	}
	// "immediate" is closeErr.immediate itself, or a local that starts as closeErr.immediate and is raised to true only
	// where the cause was classified as a stateless reset or a recreation after Version Negotiation (nothing is due
	// to the peer in either case, see C17.17)
	silentCauses := []types.Type{types.Unalias(c.named("", "StatelessResetError").Type()), types.Unalias(c.named("", "errCloseForRecreating").Type())}
	isImmediate := func(ifi *ssa.If, s int) bool {
		if EdgeImplies(ifi, s, BoolTrue(Load(imm)), false) {
			return true
		}
		p, ok := condCore(ifi.Cond).(*ssa.Phi)
		if !ok || !EdgeImplies(ifi, s, BoolTrue(func(v ssa.Value) bool { return v == ssa.Value(p) }), false) {
			return false
		}
		sawField := false
		for k, e := range p.Edges {
			if Load(imm)(e) {
				sawField = true
				continue
			}
			if !isConstBool(e, true) {
				return false
			}
			pred := p.Block().Preds[k]
			okc := false
			for d := pred; d != nil && d.Idom() != nil; d = d.Idom() {
				id := d.Idom()
				if t := errorsAsTest(id); t != nil && id.Succs[0] == d && len(d.Preds) == 1 {
					for _, sc := range silentCauses {
						if types.Identical(t, sc) {
							okc = true
						}
					}
					break
				}
			}
			if !okc {
				return false
			}
		}
		return sawField
	}
	c.cut(R, "pair:local, non-immediate close after the first packet → CONNECTION_CLOSE", &Cut{Fn: h, Target: isReturn, Barrier: CallsTo(send),
		Edge: OrEdge(isRemote, isImmediate, EdgeRel(BoolTrue(Load(sfp)), true))},
		"every exit of handleCloseError has sent CONNECTION_CLOSE except for remote closes, immediate destroys (incl. stateless reset / recreation) and a client that never sent a packet")
	// the packet sent carries the recorded error
	smc := c.obj("", "streamsMap", "CloseWithError")
	var e1 ssa.Value
	for _, i := range findInstrs(h, CallsTo(smc)) {
		e1 = i.(ssa.CallInstruction).Common().Args[1]
	}
	for _, i := range findInstrs(h, CallsTo(send)) {
		a := i.(ssa.CallInstruction).Common().Args[1]
		c.Check(e1 != nil && sameValue(a, e1), R, "same:CONNECTION_CLOSE carries the recorded error", c.P.InstrPos(i), "the peer is told the cause the application sees")
	}
}

// timerExceptions: functions whose time.NewTimer is not stopped on every exit, with the reason this is not a leak.
var timerExceptions = map[string]string{
	"(*quic.Path).Probe": "loop-local back-off timer: each iteration stops the previous timer before arming the next; on return the last one is unreferenced and (go.mod: go 1.24, i.e. Go >= 1.23 timer semantics) collected without firing into anything that is read",
}

func c17Resources(c *Ctx) {
	const R = "C17.4"
	run := c.fn("", "Conn", "run")
	closeErr := c.fld("", "Conn", "closeErr")
	loadAfterLoop := func(i ssa.Instruction) bool {
		ci, ok := i.(ssa.CallInstruction)
		if !ok || len(ci.Common().Args) == 0 {
			return false
		}
		fa, ok := ci.Common().Args[0].(*ssa.FieldAddr)
		o := calleeObj(ci.Common())
		if !ok || fieldOfAddr(fa) != closeErr || o == nil || o.Name() != "Load" {
			return false
		}
		// the one whose value is passed to handleCloseError
		return true
	}
	hce := c.obj("", "Conn", "handleCloseError")
	csClose := c.obj("", "cryptoStreamHandler", "Close")
	sqClose := c.obj("", "sender", "Close")
	timer := c.fld("", "Conn", "timer")
	stop := func(i ssa.Instruction) bool {
		ci, ok := i.(ssa.CallInstruction)
		if !ok {
			return false
		}
		o := calleeObj(ci.Common())
		return o != nil && o.Name() == "Stop" && o.Pkg() != nil && o.Pkg().Path() == "time" && len(ci.Common().Args) > 0 && Load(timer)(ci.Common().Args[0])
	}
	// from the handleCloseError call backwards/forwards: the post-loop sequence
	for _, spec := range []struct {
		name string
		b    IP
	}{{"crypto setup closed", CallsTo(csClose)}, {"send queue closed", CallsTo(sqClose)}} {
		c.cut(R, "order:"+spec.name+" before the close error is handled", &Cut{Fn: run, Target: CallsTo(hce), Barrier: spec.b}, "resources are released before the CONNECTION_CLOSE is sent / routing is released")
	}
	c.cut(R, "post:timer stopped after the close error was handled", &Cut{Fn: run, Start: CallsTo(hce), Target: isReturn, Barrier: stop}, "the run-loop timer does not outlive the connection")
	c.Floor(R, "handleCloseError call in run", countInstr(run, CallsTo(hce)), 1)
	_ = loadAfterLoop
	// every time.NewTimer is stopped
	n := 0
	for _, f := range c.P.ScopeFuncs() {
		pk := funcPkgPath(f)
		if pk != modPath && pk != modPath+"/http3" {
			continue
		}
		eachInstr(f, func(i ssa.Instruction) {
			cl, ok := i.(*ssa.Call)
			if !ok {
				return
			}
			o := calleeObj(&cl.Call)
			if o == nil || o.Pkg() == nil || o.Pkg().Path() != "time" || o.Name() != "NewTimer" {
				return
			}
			n++
			c.FuncsSet[funcName(f)] = true
			// stored into a field → owned; else a Stop (deferred or plain) on it follows on every exit
			owned := false
			if cl.Referrers() != nil {
				for _, r := range *cl.Referrers() {
					if st, ok := r.(*ssa.Store); ok {
						if fl := fieldOfAddress(st.Addr); fl != nil {
							owned = true
							// the owning field must be stopped somewhere
							stopped := false
							for _, g := range c.P.ScopeFuncs() {
								eachInstr(g, func(x ssa.Instruction) {
									ci, ok := x.(ssa.CallInstruction)
									if !ok {
										return
									}
									oo := calleeObj(ci.Common())
									if oo != nil && oo.Name() == "Stop" && len(ci.Common().Args) > 0 && Load(fl)(ci.Common().Args[0]) {
										stopped = true
									}
								})
							}
							c.Check(stopped, R, "timer:"+funcName(rootFn(f))+" field timer is stopped somewhere", c.P.InstrPos(i), "a timer kept in a field is stopped when its owner ends")
						}
					}
				}
			}
			if owned {
				return
			}
			isStop := func(x ssa.Instruction) bool {
				ci, ok := x.(ssa.CallInstruction)
				if !ok {
					return false
				}
				oo := calleeObj(ci.Common())
				return oo != nil && oo.Name() == "Stop" && oo.Pkg() != nil && oo.Pkg().Path() == "time"
			}
			if why, ok := timerExceptions[funcName(rootFn(f))]; ok {
				// the re-arm in the loop must still stop the previous timer first
				c.Check(countInstr(f, isStop) >= 1, R, fmt.Sprintf("timer:%s re-arm stops the previous timer", funcName(rootFn(f))), c.P.InstrPos(i), "exception: "+why)
				return
			}
			w := (&Cut{Fn: f, Start: func(x ssa.Instruction) bool { return x == i }, Target: isReturn, Barrier: isStop, DeferBarrier: true}).Run()
			c.Check(w == nil, R, fmt.Sprintf("timer:%s NewTimer#%d stopped on every exit", funcName(rootFn(f)), n), c.P.InstrPos(i), "a deadline timer is stopped (deferred Stop) on every path after it was created")
		})
	}
	c.Floor(R, "time.NewTimer sites", n, 5)
	// routing: every close path releases or replaces the connection's routing entries, and the ID manager is closed
	h := c.fn("", "Conn", "handleCloseError")
	smc := c.obj("", "streamsMap", "CloseWithError")
	rmAll := c.obj("", "connIDGenerator", "RemoveAll")
	rwc := c.obj("", "connIDGenerator", "ReplaceWithClosed")
	c.cut(R, "pair:every close path releases the routing entries", &Cut{Fn: h, Start: CallsTo(smc), Target: isReturn, Barrier: CallsTo(rmAll, rwc)},
		"after the streams were closed, every exit of handleCloseError removes the connection IDs or replaces them by the closed-connection stand-in")
	cimClose := c.obj("", "connIDManager", "Close")
	c.cut(R, "pair:every close path closes the connection ID manager", &Cut{Fn: h, Start: CallsTo(smc), Target: isReturn, Barrier: CallsTo(cimClose), DeferBarrier: true},
		"the active stateless reset token is removed")
	// the stand-in is scheduled for removal
	phm := c.fn("", "packetHandlerMap", "ReplaceWithClosed")
	handlers := c.fld("", "Transport", "handlers")
	okAF := false
	eachInstr(phm, func(in ssa.Instruction) {
		cl, ok := in.(*ssa.Call)
		if !ok {
			return
		}
		o := calleeObj(&cl.Call)
		if o == nil || o.Pkg() == nil || o.Pkg().Path() != "time" || o.Name() != "AfterFunc" {
			return
		}
		if !ParamV("expiry")(cl.Call.Args[0]) {
			return
		}
		for _, g := range funcsOfValue(cl.Call.Args[1]) {
			eachInstr(g, func(x ssa.Instruction) {
				if dc, ok := x.(*ssa.Call); ok && builtinName(&dc.Call) == "delete" && Load(handlers)(dc.Call.Args[0]) && inCycle(x.Block()) {
					okAF = true
				}
			})
		}
	})
	c.Check(okAF, R, "post:closed-connection stand-in is removed after expiry", c.P.Pos(phm.Pos()), "time.AfterFunc(expiry, …) deletes every replaced ID from the routing map")
	// a send queue that is replaced is closed first, and every queue created gets its Run goroutine
	sq := c.fld("", "Conn", "sendQueue")
	sqClose2 := c.obj("", "sender", "Close")
	sqRun := c.obj("", "sender", "Run")
	nsq := c.obj("", "", "newSendQueue")
	nRepl := 0
	for _, f := range c.P.ScopeFuncs() {
		if funcPkgPath(f) != modPath {
			continue
		}
		for _, in := range findInstrsLocal(f, StoresTo(sq)) {
			in := in
			name := funcName(rootFn(f))
			// every new queue is run
			started := false
			for _, g := range withAnon(rootFn(f)) {
				if countInstr(g, CallsTo(sqRun)) > 0 {
					started = true
				}
			}
			if strings.Contains(name, "preSetup") {
				continue // construction: there is no previous queue; Conn.run starts its Run goroutine
			}
			c.Check(started, R, "pair:"+name+" starts Run for the send queue it installs", c.P.InstrPos(in), "a queue without its Run goroutine never sends")
			nRepl++
			w := (&Cut{Fn: f, Target: func(x ssa.Instruction) bool { return x == in }, Barrier: func(x ssa.Instruction) bool {
				ci, ok := x.(ssa.CallInstruction)
				return ok && CallsTo(sqClose2)(x) && len(ci.Common().Args) == 0 && Load(sq)(ci.Common().Value)
			}}).Run()
			c.Check(w == nil, R, "pair:"+name+" closes the send queue it replaces", c.P.InstrPos(in), "the old queue's Run goroutine ends only when Close is called: replaced without it, the goroutine outlives the connection")
		}
	}
	c.Floor(R, "send queue replacements outside construction", nRepl, 1)
	_ = nsq
	// dial cancellation waits for the run goroutine
	for _, t := range []string{"Transport", "UTransport"} {
		f := c.fn("", t, "doDial")
		destroy := c.obj("", "Conn", "destroy")
		// after conn.destroy(nil) every path to return passes a blocking select (waiting for errChan/recreateChan)
		c.cut(R, "pair:"+t+".doDial waits for the run goroutine after cancellation", &Cut{Fn: f, Start: CallsTo(destroy), Target: isReturn, Barrier: func(i ssa.Instruction) bool {
			s, ok := i.(*ssa.Select)
			return ok && s.Blocking
		}}, "Dial does not return before the connection's goroutine has ended")
		c.Floor(R, "destroy call in "+t+".doDial", countInstr(f, CallsTo(destroy)), 1)
	}
}

func c17Idle(c *Ctx) {
	const R = "C17.5"
	f := c.fn("", "Conn", "nextIdleTimeoutTime")
	idle := c.fld("", "Conn", "idleTimeout")
	pto := c.obj("internal/utils", "RTTStats", "PTO")
	start := c.obj("", "Conn", "idleTimeoutStartTime")
	add := c.obj("internal/monotime", "Time", "Add")
	ok := false
	eachInstr(f, func(i ssa.Instruction) {
		r, isR := i.(*ssa.Return)
		if !isR {
			return
		}
		cl, isC := retResults(r)[0].(*ssa.Call)
		if !isC || calleeObj(&cl.Call) != add {
			return
		}
		if CallTo(start, -1)(cl.Call.Args[0]) && MinMaxOf("max", Load(idle), BinV(token.MUL, CallTo(pto, -1), ConstI(3)))(cl.Call.Args[1]) {
			ok = true
		}
	})
	c.Check(ok, R, "shape:nextIdleTimeoutTime=start+max(idleTimeout,3*PTO)", c.P.Pos(f.Pos()), "the idle timeout is at least three PTOs (RFC 9000 §10.1)")
	run := c.fn("", "Conn", "run")
	nit := c.obj("", "Conn", "nextIdleTimeoutTime")
	before := c.obj("internal/monotime", "Time", "Before")
	destroyImpl := c.obj("", "Conn", "destroyImpl")
	okCmp := false
	for _, b := range run.Blocks {
		ifi, isIf := b.Instrs[len(b.Instrs)-1].(*ssa.If)
		if !isIf {
			continue
		}
		// !now.Before(nextIdleTimeoutTime())
		for s := 0; s < 2; s++ {
			if EdgeImplies(ifi, s, BoolTrue(CallTo(before, -1, CallTo(nit, -1))), true) {
				// the edge on which now >= deadline destroys the connection with the idle timeout error
				for _, in := range b.Succs[s].Instrs {
					if CallsTo(destroyImpl)(in) {
						okCmp = true
					}
				}
			}
		}
	}
	c.Check(okCmp, R, "shape:idle check is !now.Before(nextIdleTimeoutTime())", c.P.Pos(run.Pos()), "the timeout fires at, not before, the deadline")
	st := c.fn("", "Conn", "idleTimeoutStartTime")
	lpr := c.fld("", "Conn", "lastPacketReceivedTime")
	okSt := false
	eachInstr(st, func(i ssa.Instruction) {
		if r, isR := i.(*ssa.Return); isR {
			if phiClosureHas(retResults(r)[0], Load(lpr)) {
				okSt = true
			}
		}
	})
	c.Check(okSt, R, "shape:idle period starts at the last received packet (or later first ack-eliciting send)", c.P.Pos(st.Pos()), "the idle timer restarts on received packets")
	ka := c.fn("", "Conn", "nextKeepAliveTime")
	kai := c.fld("", "Conn", "keepAliveInterval")
	okKa := false
	eachInstr(ka, func(i ssa.Instruction) {
		r, isR := i.(*ssa.Return)
		if !isR {
			return
		}
		if cl, isC := retResults(r)[0].(*ssa.Call); isC && calleeObj(&cl.Call) == add && Load(lpr)(cl.Call.Args[0]) && MinMaxOf("max", Load(kai), Any())(cl.Call.Args[1]) {
			okKa = true
		}
	})
	c.Check(okKa, R, "shape:keep-alive = lastPacketReceivedTime + max(keepAliveInterval, ·)", c.P.Pos(ka.Pos()), "keep-alives are scheduled relative to the last received packet")
	// the peer's max_idle_timeout only lowers the timeout when it is present (> 0)
	atp0 := c.fn("", "Conn", "applyTransportParameters")
	peerIdle := c.fld("internal/wire", "TransportParameters", "MaxIdleTimeout")
	nPeer := 0
	for _, in := range findInstrs(atp0, StoresTo(idle)) {
		st := in.(*ssa.Store)
		atoms := map[string]bool{}
		termKey(st.Val, 0, atoms)
		usesPeer := false
		var walk func(v ssa.Value, d int)
		walk = func(v ssa.Value, d int) {
			if d > 6 || v == nil {
				return
			}
			v = stripConv(v)
			if f, base := loadedField(v); f != nil {
				if f == peerIdle {
					if bf, _ := loadedField(base); bf == nil || bf.Name() != "config" {
						usesPeer = true
					}
				}
				return
			}
			switch x := v.(type) {
			case *ssa.Call:
				for _, a := range x.Call.Args {
					walk(a, d+1)
				}
			case *ssa.BinOp:
				walk(x.X, d+1)
				walk(x.Y, d+1)
			case *ssa.Phi:
				for _, e := range x.Edges {
					walk(e, d+1)
				}
			}
		}
		walk(st.Val, 0)
		if !usesPeer {
			continue
		}
		nPeer++
		isPeerIdle := func(v ssa.Value) bool {
			f, base := loadedField(stripConv(v))
			if f != peerIdle {
				return false
			}
			bf, _ := loadedField(base)
			return bf == nil || bf.Name() != "config"
		}
		c.Check(dominatedByEdge(st.Block(), Rel{Op: token.GTR, X: isPeerIdle, Y: ConstI(0)}, false), R, "guard:the peer's max_idle_timeout is used only when present", c.P.InstrPos(in),
			"RFC 9000 §10.1: an absent (zero) max_idle_timeout means the peer does not limit the idle period; taking min() with it sets the timeout to 3 PTO")
	}
	c.Floor(R, "idle timeout stores that use the peer's value", nPeer, 1)
	// keepAliveInterval = min(KeepAlivePeriod, idleTimeout/2)
	atp := c.fn("", "Conn", "applyTransportParameters")
	okI := false
	for _, in := range findInstrs(atp, StoresTo(kai)) {
		if MinMaxOf("min", Any(), BinV(token.QUO, Load(idle), ConstI(2)))(in.(*ssa.Store).Val) {
			okI = true
		}
	}
	c.Check(okI, R, "shape:keepAliveInterval=min(KeepAlivePeriod, idleTimeout/2)", c.P.Pos(atp.Pos()), "keep-alives are sent well within the idle timeout")
}

// resolveFree maps a free variable (or a load of one) to the value bound to it where the closure is made.
func resolveFree(v ssa.Value) ssa.Value {
	for d := 0; d < 4; d++ {
		if u, ok := v.(*ssa.UnOp); ok && u.Op == token.MUL {
			if _, isFv := u.X.(*ssa.FreeVar); isFv {
				v = u.X
			}
		}
		fv, ok := v.(*ssa.FreeVar)
		if !ok {
			return v
		}
		fn := fv.Parent()
		idx := -1
		for i, x := range fn.FreeVars {
			if x == fv {
				idx = i
			}
		}
		if idx < 0 || fn.Parent() == nil {
			return v
		}
		var bound ssa.Value
		eachInstr(fn.Parent(), func(in ssa.Instruction) {
			if mc, ok := in.(*ssa.MakeClosure); ok && mc.Fn == ssa.Value(fn) && idx < len(mc.Bindings) {
				bound = mc.Bindings[idx]
			}
		})
		if bound == nil {
			return v
		}
		v = bound
	}
	return v
}

// wgIdent identifies a WaitGroup operand: a struct field or a local cell.
func wgIdent(v ssa.Value) any {
	v = resolveFree(v)
	if fa, ok := v.(*ssa.FieldAddr); ok {
		return fieldOfAddr(fa)
	}
	if al, ok := v.(*ssa.Alloc); ok {
		return al
	}
	return nil
}

func isWGCall(in ssa.Instruction, name string, id any) bool {
	ci, ok := in.(ssa.CallInstruction)
	if !ok {
		return false
	}
	o := calleeObj(ci.Common())
	if o == nil || o.Pkg() == nil || o.Pkg().Path() != "sync" || o.Name() != name || len(ci.Common().Args) == 0 {
		return false
	}
	sig := o.Type().(*types.Signature)
	if sig.Recv() == nil || !typeIs(sig.Recv().Type(), "sync", "WaitGroup") {
		return false
	}
	return wgIdent(ci.Common().Args[0]) == id
}

// wgAddExceptions: Add calls whose Done is in another function, with the reason.
var wgAddExceptions = map[string]string{
	"(*http3.rawConn).TrackStream": "one count per entry of rawConn.streams, added under streamMx together with the map insert; clearStream calls Done under the same mutex exactly when it deletes the entry",
}

// c17WaitGroup: every Add on the awaited WaitGroup is followed, on every path, by Done (plain or deferred)
// or by the start of a goroutine whose every exit calls Done.
func c17WaitGroup(c *Ctx, w waitSite) (bool, string) {
	id := wgIdent(w.Instr.(*ssa.Call).Call.Args[0])
	if id == nil {
		return false, "WaitGroup operand not identified"
	}
	doneAll := func(fn *ssa.Function) bool {
		n := 0
		eachInstr(fn, func(in ssa.Instruction) {
			if isWGCall(in, "Done", id) {
				n++
			}
		})
		if n == 0 {
			return false
		}
		return (&Cut{Fn: fn, Target: isReturn, Barrier: func(in ssa.Instruction) bool { return isWGCall(in, "Done", id) }, DeferBarrier: true}).Run() == nil
	}
	adds, bad := 0, []string{}
	for _, f := range c.P.ScopeFuncs() {
		for _, in := range findInstrsLocal(f, func(in ssa.Instruction) bool { return isWGCall(in, "Add", id) }) {
			adds++
			if _, ok := wgAddExceptions[funcName(f)]; ok {
				continue
			}
			add := in
			barrier := func(x ssa.Instruction) bool {
				if isWGCall(x, "Done", id) {
					return true
				}
				var fnv ssa.Value
				switch y := x.(type) {
				case *ssa.Go:
					fnv = y.Call.Value
				case *ssa.MakeClosure:
					fnv = y
				}
				for _, g := range funcsOfValue(fnv) {
					if g.Parent() != nil && doneAll(g) {
						return true
					}
				}
				return false
			}
			if wit := (&Cut{Fn: f, Start: func(x ssa.Instruction) bool { return x == add }, Target: isReturn, Barrier: barrier, DeferBarrier: true}).Run(); wit != nil {
				bad = append(bad, c.P.InstrPos(in))
			}
		}
	}
	if adds == 0 {
		return false, "no Add found for the awaited WaitGroup"
	}
	if len(bad) > 0 {
		return false, fmt.Sprintf("Add without a Done on every following path at %v", bad)
	}
	return true, fmt.Sprintf("all %d Add sites are followed by Done (deferred, plain, or in the goroutine started for it) on every path", adds)
}

// c17BufferedOnce: a send on a local channel created with capacity >= 1, where the sending closure is
// started once and sends at most once on it.
func c17BufferedOnce(w waitSite) bool {
	snd, ok := w.Instr.(*ssa.Send)
	if !ok {
		return false
	}
	v := resolveFree(snd.Chan)
	// the binding may be a cell holding the channel
	var mk *ssa.MakeChan
	switch x := v.(type) {
	case *ssa.MakeChan:
		mk = x
	case *ssa.Alloc:
		if x.Referrers() != nil {
			n := 0
			for _, r := range *x.Referrers() {
				if st, ok := r.(*ssa.Store); ok && st.Addr == ssa.Value(x) {
					n++
					mk, _ = st.Val.(*ssa.MakeChan)
				}
			}
			if n != 1 {
				mk = nil
			}
		}
	}
	if mk == nil {
		return false
	}
	k, ok := mk.Size.(*ssa.Const)
	if !ok || k.Int64() < 1 {
		return false
	}
	// one send on this channel in the closure, not in a loop
	fn := w.Fn
	n := 0
	eachInstr(fn, func(in ssa.Instruction) {
		if s2, ok := in.(*ssa.Send); ok && resolveFree(s2.Chan) == v {
			n++
		}
	})
	if n != 1 || inCycle(snd.Block()) || fn.Parent() == nil {
		return false
	}
	// the closure is made once
	once := true
	eachInstr(fn.Parent(), func(in ssa.Instruction) {
		if mc, ok := in.(*ssa.MakeClosure); ok && mc.Fn == ssa.Value(fn) && inCycle(mc.Block()) {
			once = false
		}
	})
	return once
}

func inCycle(b *ssa.BasicBlock) bool {
	seen := map[*ssa.BasicBlock]bool{}
	work := append([]*ssa.BasicBlock(nil), b.Succs...)
	for len(work) > 0 {
		x := work[len(work)-1]
		work = work[:len(work)-1]
		if x == b {
			return true
		}
		if seen[x] {
			continue
		}
		seen[x] = true
		work = append(work, x.Succs...)
	}
	return false
}

// c17NoWaitUnderTransportMutex: connection and server teardown take Transport.mutex (Remove, ReplaceWithClosed, closeServer …);
// a call that waits for that teardown must therefore not be made while the mutex is held.
func c17NoWaitUnderTransportMutex(c *Ctx) {
	const R = "C17.6"
	mu := c.fld("", "Transport", "mutex")
	// functions that can block: contain a blocking wait site (other than provably non-blocking sends), transitively
	inScope := func(pk string) bool { return pk == modPath }
	blocking := map[*ssa.Function]string{}
	for _, w := range c.P.waitSites(inScope) {
		if w.Kind == "send" && c17BufferedOnce(w) {
			continue
		}
		// the 1-slot semaphores of the streams are not teardown waits
		sem := false
		for _, cl := range w.Classes {
			if _, ok := waitExceptions[classField(cl)]; ok {
				sem = true
			}
		}
		if sem {
			continue
		}
		blocking[w.Fn] = c.P.InstrPos(w.Instr)
	}
	c.Floor(R, "functions with a blocking wait", len(blocking), 20)
	// transitive closure over static calls and module-interface invokes (go statements do not block the caller)
	mayBlock := map[*ssa.Function]string{}
	for f, pos := range blocking {
		mayBlock[f] = "waits at " + pos
	}
	byName := map[string][]*ssa.Function{}
	for _, f := range c.P.ScopeFuncs() {
		if f.Signature.Recv() != nil && f.Parent() == nil {
			byName[f.Name()] = append(byName[f.Name()], f)
		}
	}
	calleesOf := func(in ssa.Instruction) []*ssa.Function {
		ci, ok := in.(ssa.CallInstruction)
		if !ok {
			return nil
		}
		if _, isGo := in.(*ssa.Go); isGo {
			return nil
		}
		cm := ci.Common()
		if cm.IsInvoke() {
			n := namedOf(cm.Value.Type())
			if n == nil || n.Obj().Pkg() == nil || !InRepo(n.Obj().Pkg().Path()) {
				return nil
			}
			it, ok := cm.Value.Type().Underlying().(*types.Interface)
			if !ok {
				return nil
			}
			var out []*ssa.Function
			for _, m := range byName[cm.Method.Name()] {
				if implementsLoose(m.Signature.Recv().Type(), it) {
					out = append(out, m)
				}
			}
			return out
		}
		if sc := cm.StaticCallee(); sc != nil && InRepo(funcPkgPath(sc)) {
			return []*ssa.Function{sc}
		}
		return nil
	}
	for changed := true; changed; {
		changed = false
		for _, f := range c.P.ScopeFuncs() {
			if !InRepo(funcPkgPath(f)) || mayBlock[f] != "" {
				continue
			}
			eachInstr(f, func(in ssa.Instruction) {
				if mayBlock[f] != "" {
					return
				}
				if _, isDefer := in.(*ssa.Defer); isDefer {
					return
				}
				for _, g := range calleesOf(in) {
					if why, ok := mayBlock[g]; ok && g != f {
						mayBlock[f] = "calls " + funcName(g) + " (" + short(why) + ")"
						changed = true
						return
					}
				}
			})
		}
	}
	isLock := func(name string) IP {
		return func(in ssa.Instruction) bool {
			ci, ok := in.(ssa.CallInstruction)
			if !ok {
				return false
			}
			if _, isDefer := in.(*ssa.Defer); isDefer {
				return false
			}
			o := calleeObj(ci.Common())
			if o == nil || o.Name() != name || o.Pkg() == nil || o.Pkg().Path() != "sync" || len(ci.Common().Args) == 0 {
				return false
			}
			fa, ok := ci.Common().Args[0].(*ssa.FieldAddr)
			return ok && fieldOfAddr(fa) == mu
		}
	}
	nLock := 0
	for _, f := range c.P.ScopeFuncs() {
		if funcPkgPath(f) != modPath {
			continue
		}
		locks := findInstrsLocal(f, OrIP(isLock("Lock"), isLock("RLock")))
		if len(locks) == 0 {
			continue
		}
		nLock += len(locks)
		c.FuncsSet[funcName(f)] = true
		target := func(in ssa.Instruction) bool {
			for _, g := range calleesOf(in) {
				if _, ok := mayBlock[g]; ok {
					return true
				}
			}
			// a wait site in the function itself
			switch x := in.(type) {
			case *ssa.Select:
				return x.Blocking
			case *ssa.UnOp:
				return x.Op == token.ARROW
			}
			return false
		}
		w := (&Cut{Fn: f, Start: OrIP(isLock("Lock"), isLock("RLock")), Target: target, Barrier: OrIP(isLock("Unlock"), isLock("RUnlock")), NoInline: true}).Run()
		detail := "connection and server teardown need Transport.mutex (Remove, ReplaceWithClosed, closeServer): waiting for them with the mutex held deadlocks Transport.Close and every blocked Accept"
		if w != nil {
			detail += " — " + w.String(c.P)
		}
		c.Check(w == nil, R, "lock:"+funcName(f)+" makes no blocking call while holding Transport.mutex", c.P.Pos(f.Pos()), detail)
	}
	c.Floor(R, "Transport.mutex acquisitions", nLock, 8)
}

func c17ClosedStandIn(c *Ctx) {
	const R = "C17.7"
	h := c.fn("", "closedLocalConn", "handlePacket")
	send := c.fld("", "closedLocalConn", "sendPacket")
	counter := c.fld("", "closedLocalConn", "counter")
	ones := c.obj("math/bits", "", "OnesCount32")
	// n := counter.Add(1)
	var addCall ssa.Value
	eachInstr(h, func(in ssa.Instruction) {
		cl, ok := in.(*ssa.Call)
		if !ok || len(cl.Call.Args) != 2 {
			return
		}
		o := calleeObj(&cl.Call)
		fa, isFA := cl.Call.Args[0].(*ssa.FieldAddr)
		if o != nil && o.Name() == "Add" && isFA && fieldOfAddr(fa) == counter && ConstI(1)(cl.Call.Args[1]) {
			addCall = cl
		}
	})
	c.Check(addCall != nil, R, "count:every packet increments the counter by one, atomically", c.P.Pos(h.Pos()), "concurrent packets for a closed connection are each counted once")
	c.Floor(R, "retransmissions in closedLocalConn.handlePacket", countInstr(h, callsFieldFunc(send)), 1)
	c.cut(R, "backoff:CONNECTION_CLOSE is retransmitted only for the 1st, 2nd, 4th, 8th … packet", &Cut{Fn: h, Target: callsFieldFunc(send),
		Edge: EdgeRel(Rel{Op: token.EQL, X: func(v ssa.Value) bool {
			cl, ok := stripConv(v).(*ssa.Call)
			return ok && calleeObj(&cl.Call) == ones && addCall != nil && stripConv(cl.Call.Args[0]) == addCall
		}, Y: ConstI(1)}, false)},
		"exponential back-off: the retransmission is reached only when the new count has exactly one bit set")
	// the remote-close stand-in does nothing
	r := c.fn("", "closedRemoteConn", "handlePacket")
	nCalls := 0
	eachInstr(r, func(in ssa.Instruction) {
		if _, ok := in.(ssa.CallInstruction); ok {
			nCalls++
		}
	})
	c.Check(nCalls == 0, R, "ignore:packets for a remotely closed connection are absorbed", c.P.Pos(r.Pos()), "delayed packets after the peer's CONNECTION_CLOSE are ignored")
	// ReplaceWithClosed: local stand-in iff a CONNECTION_CLOSE packet is given
	rw := c.fn("", "packetHandlerMap", "ReplaceWithClosed")
	ncl := c.obj("", "", "newClosedLocalConn")
	ncr := c.obj("", "", "newClosedRemoteConn")
	isNilPkt := Rel{Op: token.EQL, X: LenOrNilOf(ParamV("connClosePacket")), Y: Any()}
	_ = isNilPkt
	c.cut(R, "select:local stand-in only with a CONNECTION_CLOSE packet", &Cut{Fn: rw, Target: CallsTo(ncl), Edge: EdgeRel(Rel{Op: token.NEQ, X: ParamV("connClosePacket"), Y: IsNil()}, false)}, "the retransmitting stand-in is installed when this endpoint closed and has a packet to repeat")
	c.cut(R, "select:absorbing stand-in without a packet", &Cut{Fn: rw, Target: CallsTo(ncr), Edge: EdgeRel(Rel{Op: token.EQL, X: ParamV("connClosePacket"), Y: IsNil()}, false)}, "after a remote close nothing is retransmitted")
	c.Floor(R, "stand-in constructors used in ReplaceWithClosed", countInstr(rw, CallsTo(ncl))+countInstr(rw, CallsTo(ncr)), 2)
}

// LenOrNilOf is a placeholder matcher (the packet parameter itself).
func LenOrNilOf(x VP) VP { return x }
