package main

import (
	"fmt"
	"go/constant"
	"go/token"
	"go/types"
	"sort"

	"golang.org/x/tools/go/ssa"
)

func init() {
	register("C09", runC09)
	register("C10", runC10)
	register("C11", runC11)
}

// ---------------- C09 ----------------

func runC09(c *Ctx) {
	c.Clause("C09.1 a planned flight is stored only after validateInitialFlight succeeded; the validator has its five rejections and the per-byte coverage loop; PopAllCryptoData has a single caller")
	c.Clause("C09.2 the only frame-type bytes the builders write are PADDING (0x00), PING (0x01) and CRYPTO (0x06)")
	c.Clause("C09.3 QUICFrames.build: allocation and slicing driven by spec offsets/lengths are bounded by the data length (no panic, no zero-extension)")
	c.Clause("C09.4 absolute ranges: resolve rejects out-of-range offsets and ends; buildAbsolute writes wire offset = start and length = end-start of exactly fullCrypto[start:end] obtained on resolve's success edge")
	c.Clause("C09.5 per-datagram re-framing: wire offset = local offset + baseOffset, data taken from cryptoData[offset-lowest:]; baseOffset is the smallest CRYPTO offset of the popped frames and reaches BuildForDatagram")
	c.NotCovered("that random splits sum to the whole (arithmetic of the random draws); multi-datagram continuity at run time")
	c.Clause("C09.6 every store that takes bytes out of the CRYPTO write buffer advances writeOffset by exactly the bytes removed (or, in scrambled mode, cuts at end once writeOffset == end)")
	c.Clause("C09.8 plannedInitialPayload registers every CRYPTO frame of a planned datagram with the Initial retransmission handler (per-iteration must-pass)")
	c.Clause("C09.9 splitRange clamps the number of frames to the number of bytes of the range")
	c.Clause("C09.10 the flight stored for sending is the value validateInitialFlight accepted; C09.11 unsigned count-minus-constant in the random builders' conditions is guarded against wrap-around")
	c.Clause("C09.12 the scrambler finishes only when every deferred cut is drained; C09.13 cut positions only from found SNI/ECH positions, non-empty SNI cut, comparator handles unused cuts; C09.14 ClientHello parser bounds; C09.15 the per-datagram base offset is the lowest CRYPTO offset, resolve compares resolved end and start; C09.16 the flight builders frame a resolved range only when it is not empty (both users of resolve agree); C09.17 CRYPTO frames of a retransmission that do not reassemble into one slice are serialised as they are")
	c.Clause("C09.7 the scrambler's ECH cut ends inside the ClientHello (bounded by end)")
	c.NotCovered("the upstream anti-DPI scrambler's remaining cut arithmetic (findSNIAndECH, cut ordering in initialCryptoStream.PopCryptoFrame)")

	c.rule("C09.1", func() { c09Flight(c) })
	c.rule("C09.2", func() { c09FrameTypes(c) })
	c.rule("C09.3", func() { c09Bounds(c) })
	c.rule("C09.4", func() { c09Absolute(c) })
	c.rule("C09.5", func() { c09Rebase(c) })
	c.rule("C09.6", func() { c09OffsetAccounting(c) })
	c.rule("C09.7", func() { c09CutBounds(c) })
	c.rule("C09.8", func() { c09PlannedRegistered(c) })
	c.rule("C09.9", func() { c09SplitClamp(c) })
	c.rule("C09.10", func() { c09ValidatedIsSent(c) })
	c.rule("C09.11", func() { c09NoUnsignedWrapInGuards(c) })
	c.rule("C09.12", func() { c09CutsDrainedBeforeFinish(c) })
	c.rule("C09.13", func() { c09CutsFromFoundPositions(c) })
	c.rule("C09.14", func() { c09SNIParserBounds(c) })
	c.rule("C09.15", func() { c09BaseOffsetAndRange(c) })
	c.rule("C09.16", func() { c09NoEmptyCryptoFrame(c) })
	c.rule("C09.17", func() { c09NonContiguousRetransmission(c) })
}

func c09Flight(c *Ctx) {
	const R = "C09.1"
	pf := c.fn("", "uPacketPacker", "planInitialFlight")
	fp := c.fld("", "uPacketPacker", "flightPayloads")
	validate := c.obj("", "", "validateInitialFlight")
	popAll := c.obj("", "initialCryptoStream", "PopAllCryptoData")
	c.passAll(R, "flightPayloads store", pf, StoresTo(fp), []namedEdge{{"validateInitialFlight succeeded", EdgeRel(Rel{Op: token.EQL, X: CallTo(validate, -1), Y: IsNil()}, false)}},
		"a flight plan is adopted only after it was shown to carry the whole ClientHello")
	c.checkWriters(R, fp, c.set([3]string{"", "uPacketPacker", "planInitialFlight"}, [3]string{"", "uPacketPacker", "packPlannedInitial"}), 2)
	c.checkCallers(R, popAll, c.set([3]string{"", "uPacketPacker", "planInitialFlight"}), 1)
	// once the stream was popped, the plan is marked as made on every path (it cannot be planned twice)
	planned := c.fld("", "uPacketPacker", "flightPlanned")
	c.cut(R, "pair:stream consumed ⇒ flightPlanned", &Cut{Fn: pf, Start: CallsTo(popAll), Target: isReturn, Barrier: func(i ssa.Instruction) bool {
		st, ok := i.(*ssa.Store)
		return ok && fieldOfAddress(st.Addr) == planned && isConstBool(st.Val, true)
	}, Edge: EdgeRel(Rel{Op: token.EQL, X: LenOf(CallTo(popAll, -1)), Y: ConstI(0)}, false)}, "after the CRYPTO stream was taken the flight counts as planned (or nothing was taken)")
	// BuildFlight sees exactly the popped data
	vf := c.fn("", "", "validateInitialFlight")
	nErr := countInstr(vf, func(i ssa.Instruction) bool {
		r, ok := i.(*ssa.Return)
		return ok && provablyNonNil(retResults(r)[0], r.Block(), map[ssa.Value]bool{})
	})
	c.Floor(R, "rejections in validateInitialFlight", nErr, 5)
	// the validator is given the length of the data that was popped
	for _, in := range findInstrs(pf, CallsTo(validate)) {
		a := in.(ssa.CallInstruction).Common().Args
		c.Check(LenOf(CallTo(popAll, -1))(a[2]), R, "shape:validated against len(popped CRYPTO data)", c.P.InstrPos(in), "coverage is checked against the real stream length")
	}
	// coverage loop: sent[j] = true stores and a final scan returning an error for an unsent byte
	nMark := countInstr(vf, func(i ssa.Instruction) bool {
		st, ok := i.(*ssa.Store)
		if !ok {
			return false
		}
		_, isIdx := st.Addr.(*ssa.IndexAddr)
		return isIdx && isConstBool(st.Val, true)
	})
	c.Floor(R, "coverage marks in validateInitialFlight", nMark, 1)
	// out-of-stream CRYPTO frames rejected before marking
	c.cut(R, "guard:coverage marks only for frames inside the stream", &Cut{Fn: vf, Target: func(i ssa.Instruction) bool {
		st, ok := i.(*ssa.Store)
		if !ok {
			return false
		}
		_, isIdx := st.Addr.(*ssa.IndexAddr)
		return isIdx && isConstBool(st.Val, true)
	}, Edge: EdgeRel(Rel{Op: token.LEQ, X: BinV(token.ADD, Any(), Any()), Y: ParamV("cryptoLen")}, false)}, "a CRYPTO frame reaching past the end of the stream is rejected, not recorded")
}

func c09FrameTypes(c *Ctx) {
	const R = "C09.2"
	allowed := map[int64]bool{0: true, 1: true, 6: true}
	n := 0
	check := func(f *ssa.Function) {
		c.FuncsSet[funcName(f)] = true
		eachInstr(f, func(i ssa.Instruction) {
			// constants stored into byte arrays (slice literals) and appended constant bytes
			var k *ssa.Const
			switch x := i.(type) {
			case *ssa.Store:
				if _, ok := x.Addr.(*ssa.IndexAddr); ok {
					if kk, ok := x.Val.(*ssa.Const); ok {
						if b, ok := kk.Type().Underlying().(*types.Basic); ok && b.Kind() == types.Uint8 {
							k = kk
						}
					}
				}
			}
			if k == nil || k.Value == nil {
				return
			}
			n++
			v, _ := constant.Int64Val(k.Value)
			c.Check(allowed[v], R, fmt.Sprintf("type-byte:%s writes %#x", funcName(f), v), c.P.InstrPos(i), "Initial packets may only carry PADDING, PING and CRYPTO frames")
		})
	}
	check(c.fn("", "QUICFrames", "build"))
	check(c.fn("", "QUICFrames", "buildAbsolute"))
	check(c.fn("", "QUICFramePing", "Read"))
	c.Floor(R, "constant frame-type bytes", n, 3)
	// the CRYPTO type byte precedes offset and length varints in both builders
	for _, name := range []string{"build", "buildAbsolute"} {
		f := c.fn("", "QUICFrames", name)
		va := c.obj("quicvarint", "", "Append")
		c.Floor(R, "varint appends in "+name, countInstr(f, CallsTo(va)), 2)
	}
}

func c09Bounds(c *Ctx) {
	const R = "C09.3"
	f := c.fn("", "QUICFrames", "build")
	n := 0
	eachInstr(f, func(i ssa.Instruction) {
		switch x := i.(type) {
		case *ssa.MakeSlice:
			if _, isK := stripConv(x.Len).(*ssa.Const); isK {
				return
			}
			n++
			ln := stripConv(x.Len)
			// the length must be known non-negative and within the data: a dominating 0 <= len and lengthOffset+len <= len(cryptoData) (in any spelling)
			nonNeg := dominatedByCmpOn(x.Block(), ln, token.GEQ) || isLenOrSubGuarded(ln, x.Block())
			within := dominatedByUpper(x.Block(), ln, LenOf(ParamV("cryptoData")))
			c.Check(nonNeg && within, R, "bound:CRYPTO frame length within the data", c.P.InstrPos(i),
				"make([]byte, length) with a spec-supplied or computed length: a negative value panics, a value beyond the data zero-extends the ClientHello; both must be excluded by a comparison that dominates the allocation")
		case *ssa.Slice:
			if !ParamV("cryptoData")(x.X) || x.Low == nil {
				return
			}
			n++
			lo := stripConv(x.Low)
			ok := dominatedByUpper(x.Block(), lo, LenOf(ParamV("cryptoData"))) && (dominatedByCmpOn(x.Block(), lo, token.GEQ) || isLenOrSubGuarded(lo, x.Block()))
			c.Check(ok, R, "bound:CRYPTO data offset within the data", c.P.InstrPos(i), "cryptoData[lengthOffset:] with a spec-supplied offset must be dominated by 0 <= lengthOffset <= len(cryptoData)")
		}
	})
	c.Floor(R, "spec-driven allocations/slices in QUICFrames.build", n, 2)
}

// dominatedByCmpOn: some dominating edge establishes `v >= 0` (op GEQ).
func dominatedByCmpOn(b *ssa.BasicBlock, v ssa.Value, op token.Token) bool {
	return dominatedByEdge(b, Rel{Op: op, X: Same(v), Y: ConstI(0)}, false) || dominatedByEdge(b, Rel{Op: token.LSS, X: Same(v), Y: ConstI(0)}, true)
}

// dominatedByUpper: a dominating edge establishes v <= upper, or v+w <= upper / w <= upper - v for some w.
func dominatedByUpper(b *ssa.BasicBlock, v ssa.Value, upper VP) bool {
	same := Same(v)
	withV := func(x ssa.Value) bool {
		if same(x) {
			return true
		}
		bo, ok := stripConv(x).(*ssa.BinOp)
		return ok && bo.Op == token.ADD && (same(bo.X) || same(bo.Y))
	}
	upperMinus := func(x ssa.Value) bool {
		if upper(x) {
			return true
		}
		bo, ok := stripConv(x).(*ssa.BinOp)
		return ok && bo.Op == token.SUB && upper(bo.X)
	}
	return dominatedByEdge(b, Rel{Op: token.LEQ, X: withV, Y: upperMinus}, false) || dominatedByEdge(b, Rel{Op: token.GTR, X: withV, Y: upperMinus}, true)
}

func isLenOrSubGuarded(v ssa.Value, b *ssa.BasicBlock) bool {
	if cl, ok := v.(*ssa.Call); ok && builtinName(&cl.Call) == "len" {
		return true
	}
	return false
}

func c09Absolute(c *Ctx) {
	const R = "C09.4"
	rs := c.fn("", "QUICCryptoRange", "resolve")
	nErr := countInstr(rs, func(i ssa.Instruction) bool {
		r, ok := i.(*ssa.Return)
		return ok && provablyNonNil(retResults(r)[2], r.Block(), map[ssa.Value]bool{})
	})
	c.Floor(R, "error exits of resolve", nErr, 2)
	success := ReturnsMaybeNilErr(2)
	// success requires 0 <= start <= streamLen and start <= end <= streamLen
	for _, g := range []struct {
		name string
		e    func(*ssa.If, int) bool
	}{
		{"start >= 0", EdgeRel(Rel{Op: token.GEQ, X: Any(), Y: ConstI(0)}, false)},
		{"start <= streamLen", EdgeRel(Rel{Op: token.LEQ, X: Any(), Y: ParamV("streamLen")}, false)},
		{"end >= start", func(ifi *ssa.If, s int) bool {
			bo, ok := condCore(ifi.Cond).(*ssa.BinOp)
			if !ok {
				return false
			}
			// the comparison between two non-parameter values (end, start), on its >= edge
			_, p1 := stripConv(bo.X).(*ssa.Parameter)
			_, p2 := stripConv(bo.Y).(*ssa.Parameter)
			if p1 || p2 {
				return false
			}
			if _, k := bo.Y.(*ssa.Const); k {
				return false
			}
			return EdgeImplies(ifi, s, Rel{Op: token.GEQ, X: Any(), Y: Any()}, false) || EdgeImplies(ifi, s, Rel{Op: token.LEQ, X: Any(), Y: Any()}, false)
		}},
	} {
		c.cut(R, "resolve:success requires "+g.name, &Cut{Fn: rs, Target: success, Edge: g.e}, "a range is only resolved when it lies inside the stream")
	}
	nCmp := 0
	for _, b := range rs.Blocks {
		if ifi, ok := b.Instrs[len(b.Instrs)-1].(*ssa.If); ok {
			if EdgeImplies(ifi, 0, Rel{Op: token.GTR, X: Any(), Y: ParamV("streamLen")}, false) {
				nCmp++
			}
		}
	}
	c.Floor(R, "comparisons with streamLen in resolve", nCmp, 2)

	ba := c.fn("", "QUICFrames", "buildAbsolute")
	resolve := c.obj("", "QUICCryptoRange", "resolve")
	va := c.obj("quicvarint", "", "Append")
	n := 0
	eachInstr(ba, func(i ssa.Instruction) {
		sl, ok := i.(*ssa.Slice)
		if !ok || !ParamV("fullCrypto")(sl.X) {
			return
		}
		n++
		okB := sl.Low != nil && sl.High != nil && CallTo(resolve, 0)(sl.Low) && CallTo(resolve, 1)(sl.High)
		c.Check(okB, R, "shape:data = fullCrypto[start:end] from resolve", c.P.InstrPos(i), "the bytes carried are exactly the resolved range")
		c.cut(R, "guard:slice only on resolve's success edge", &Cut{Fn: ba, Target: func(x ssa.Instruction) bool { return x == i },
			Edge: EdgeRel(Rel{Op: token.EQL, X: CallTo(resolve, 2), Y: IsNil()}, false)}, "an unresolvable range is an error, never a slice")
	})
	c.Floor(R, "fullCrypto slices", n, 1)
	// wire offset and length
	var offOK, lenOK bool
	for _, in := range findInstrs(ba, CallsTo(va)) {
		a := in.(ssa.CallInstruction).Common().Args[1]
		if CallTo(resolve, 0)(a) {
			offOK = true
		}
		if BinV(token.SUB, CallTo(resolve, 1), CallTo(resolve, 0))(a) {
			lenOK = true
		}
	}
	c.Check(offOK, R, "shape:wire offset = start", c.P.Pos(ba.Pos()), "the CRYPTO frame's offset is the absolute start of the range")
	c.Check(lenOK, R, "shape:wire length = end-start", c.P.Pos(ba.Pos()), "the CRYPTO frame's length is the size of the range")
	// resolve is given the stream length
	for _, in := range findInstrs(ba, CallsTo(resolve)) {
		a := in.(ssa.CallInstruction).Common().Args
		c.Check(LenOf(ParamV("fullCrypto"))(a[len(a)-1]), R, "shape:resolve(len(fullCrypto))", c.P.InstrPos(in), "ranges are resolved against the whole stream")
	}
}

func c09Rebase(c *Ctx) {
	const R = "C09.5"
	f := c.fn("", "QUICFrames", "build")
	va := c.obj("quicvarint", "", "Append")
	info := c.obj("", "QUICFrame", "CryptoFrameInfo")
	okOff := false
	for _, in := range findInstrs(f, CallsTo(va)) {
		a := in.(ssa.CallInstruction).Common().Args[1]
		if BinV(token.ADD, CallTo(info, 0), ParamV("baseOffset"))(a) {
			okOff = true
		}
	}
	c.Check(okOff, R, "shape:wire offset = frame offset + baseOffset", c.P.Pos(f.Pos()), "CRYPTO frames of later datagrams carry absolute stream offsets")
	// data offset = offset - lowestOffset
	okData := false
	eachInstr(f, func(i ssa.Instruction) {
		sl, ok := i.(*ssa.Slice)
		if !ok || !ParamV("cryptoData")(sl.X) || sl.Low == nil {
			return
		}
		if BinV(token.SUB, CallTo(info, 0), Any())(sl.Low) {
			okData = true
		}
	})
	c.Check(okData, R, "shape:data from cryptoData[offset-lowestOffset:]", c.P.Pos(f.Pos()), "the bytes carried start at the frame's own offset within the slice")
	m := c.fn("", "uPacketPacker", "MarshalInitialPacketPayload")
	bfd := c.obj("", "QUICFrameBuilderEx", "BuildForDatagram")
	idx := c.fld("", "uPacketPacker", "initialDatagramIdx")
	n := 0
	for _, in := range findInstrs(m, CallsTo(bfd)) {
		n++
		a := in.(ssa.CallInstruction).Common().Args
		c.Check(Load(idx)(a[0]), R, "shape:BuildForDatagram(initialDatagramIdx, …)", c.P.InstrPos(in), "the builder is told which datagram it is building")
		// baseOffset argument: φ of the running minimum, reset to 0 when no CRYPTO frame was seen
		ph := a[2]
		c.Check(phiClosureHas(ph, func(v ssa.Value) bool {
			f2, _ := loadedField(v)
			return f2 != nil && f2.Name() == "Offset"
		}), R, "origin:baseOffset = smallest CRYPTO offset popped", c.P.InstrPos(in), "the base offset handed to the builder is taken from the popped CRYPTO frames")
		site := in
		// the increment follows the call, or was deferred before it (a deferred closure that stores the index, in a block
		// that dominates the call: it runs at every return)
		deferred := false
		eachInstr(m, func(i ssa.Instruction) {
			if d, ok := i.(*ssa.Defer); ok {
				if mc, ok := d.Call.Value.(*ssa.MakeClosure); ok && storesField(mc.Fn.(*ssa.Function), idx) && dominatedByBlock(site.Block(), d.Block()) {
					deferred = true
				}
			}
		})
		if deferred {
			c.OK(R, "pair:datagram index advanced after building", c.P.InstrPos(site), "deferred increment dominates the call")
		} else {
			c.cut(R, "pair:datagram index advanced after building", &Cut{Fn: m, Start: func(i ssa.Instruction) bool { return i == site }, Target: isReturn, Barrier: StoresTo(idx)}, "each call builds the next datagram")
		}
	}
	c.Floor(R, "BuildForDatagram calls", n, 1)
}

// ---------------- C10 ----------------

func runC10(c *Ctx) {
	c.Clause("C10.1 every field of InitialPacketSpec / InitialPacketPlan and QUICSpec.UDPDatagramMinSize is read on the dial path (a declared but unread field is silently ignored on the wire); connection-ID lengths are applied before Transport.init / at ID generation, the initial PN reaches the ack handler, PN lengths reach PeekPacketNumber, the token store reaches Config")
	c.Clause("C10.2 every growth of the packet buffer in appendInitialPacketPayload is dominated by a capacity comparison")
	c.Clause("C10.3 spec Initial packets pop exactly the peeked packet number; synthesized tokens draw fresh randomness per Pop past the fixed prefix")
	c.Clause("C10.4 initialPN clamps to the valid packet-number range")
	c.Clause("C10.5 per-index lists (InitialPackets, InitPacketNumberLengths) repeat their last entry beyond the list: index values are the raw index, 0 or len-1")
	c.Clause("C10.6 appendInitialPacket captures the datagram index before the payload builder advances it")
	c.Clause("C10.7 the spec packer reads the CRYPTO write offset of the Initial stream only")
	c.Clause("C10.8 tokenLength = max(ClientTokenLength, len(prefix)); the minimum-UDP-size padding is applied only under PacketSize == 0")
	c.Clause("C10.9 packPlannedInitial advances initialDatagramIdx for every datagram it takes; the single PN length is installed only when the per-packet list is empty")
	c.Clause("C10.10 every non-zero DestConnIDLength of the spec is used for the Initial's destination connection ID; the flight's frame budget is packet size minus long header minus AEAD overhead")
	c.Clause("C10.11 the plan index advances once per Initial datagram for every frame builder; C10.12 QUICRandomFrames measures its frames at the datagram's real base offset; C10.13 the PN-length list is based at initialPN()")
	c.NotCovered("actual sizes / frame counts on the wire; decryptability by a server")
	c.NotCovered("that a re-framed Initial stays within the connection's current maximum packet size (no such comparison exists: see DESIGN H7)")

	c.rule("C10.1", func() { c10Live(c) })
	c.rule("C10.2", func() { c10Buffer(c) })
	c.rule("C10.3", func() { c10NumbersAndTokens(c) })
	c.rule("C10.4", func() { c10InitialPN(c) })
	c.rule("C10.5", func() { c10LastEntryRepeats(c) })
	c.rule("C10.6", func() { c10IndexBeforeMarshal(c) })
	c.rule("C10.7", func() { c10InitialStreamOnly(c) })
	c.rule("C10.8", func() { c10TokenAndPadding(c) })
	c.rule("C10.9", func() { c10PlannedIndexAndPrecedence(c) })
	c.rule("C10.10", func() { c10SpecLengthsAndBudget(c) })
	c.rule("C10.11", func() { c10PlanIndexAdvances(c) })
	c.rule("C10.12", func() { c10DryRunUsesRealOffset(c) })
	c.rule("C10.13", func() { c10PNLengthListBase(c) })
}

func c10Live(c *Ctx) {
	const R = "C10.1"
	// functions on the dial / packing path in which a read counts as "live"
	root := []*ssa.Function{}
	for _, spec := range [][3]string{
		{"", "UTransport", "dial"}, {"", "UTransport", "doDial"}, {"", "uPacketPacker", "PackCoalescedPacket"}, {"", "uPacketPacker", "appendInitialPacketPayload"},
		{"", "uPacketPacker", "planInitialFlight"}, {"", "uPacketPacker", "flightBudgets"}, {"", "uPacketPacker", "MarshalInitialPacketPayload"},
		{"", "InitialPacketSpec", "initialPN"}, {"", "InitialPacketSpec", "getTokenStore"}, {"", "InitialPacketSpec", "planFor"},
		{"", "InitialPacketSpec", "UpdateConfig"},
	} {
		root = append(root, c.fn(spec[0], spec[1], spec[2]))
	}
	root = append(root, c.funcVar("", "newUClientConnection"))
	// tokenLength is a one-line helper of getTokenStore that may be inlined away
	if f, err := c.P.Func1("", "InitialPacketSpec", "tokenLength"); err == nil {
		root = append(root, f)
	}
	reads := func(fld *types.Var) []string {
		var where []string
		for _, r := range root {
			for _, f := range withAnon(r) {
				eachInstr(f, func(i ssa.Instruction) {
					switch x := i.(type) {
					case *ssa.FieldAddr:
						if fieldOfAddr(x) == fld && x.Referrers() != nil {
							for _, rr := range *x.Referrers() {
								if u, ok := rr.(*ssa.UnOp); ok && u.Op == token.MUL {
									where = append(where, funcName(rootFn(f)))
								}
							}
						}
					case *ssa.Field:
						if fieldOfField(x) == fld {
							where = append(where, funcName(rootFn(f)))
						}
					}
				})
			}
		}
		sort.Strings(where)
		return where
	}
	total := 0
	for _, tn := range []string{"InitialPacketSpec", "InitialPacketPlan"} {
		st := c.named("", tn).Type().Underlying().(*types.Struct)
		for i := 0; i < st.NumFields(); i++ {
			fld := st.Field(i)
			w := reads(fld)
			total++
			c.Check(len(w) > 0, R, "live:"+tn+"."+fld.Name(), c.P.Pos(fld.Pos()), fmt.Sprintf("read on the dial path in %v; a field that is declared but never read there is silently ignored on the wire", uniq(w)))
		}
	}
	mins := c.fld("", "QUICSpec", "UDPDatagramMinSize")
	c.Check(len(reads(mins)) > 0, R, "live:QUICSpec.UDPDatagramMinSize", c.P.Pos(mins.Pos()), "read by appendInitialPacketPayload")
	c.Floor(R, "spec fields checked for liveness", total, 12)

	// specific sinks
	d := c.fn("", "UTransport", "dial")
	initM := c.obj("", "Transport", "init")
	cig := c.fld("", "Transport", "ConnectionIDGenerator")
	scl := c.fld("", "InitialPacketSpec", "SrcConnIDLength")
	specF := c.fld("", "UTransport", "QUICSpec")
	c.cut(R, "order:source connection ID generator set before Transport.init", &Cut{Fn: d, Target: CallsTo(initM), Barrier: StoresTo(cig),
		Edge: EdgeRel(Rel{Op: token.EQL, X: Load(specF), Y: IsNil()}, false)}, "init caches the generator; setting it afterwards has no effect")
	// the generator's length is the spec's
	connLen := c.fld("internal/protocol", "DefaultConnectionIDGenerator", "ConnLen")
	okLen := false
	eachInstr(d, func(i ssa.Instruction) {
		st, ok := i.(*ssa.Store)
		if ok && fieldOfAddress(st.Addr) == connLen && Load(scl)(st.Val) {
			okLen = true
		}
	})
	c.Check(okLen, R, "sink:SrcConnIDLength → DefaultConnectionIDGenerator.ConnLen", c.P.Pos(d.Pos()), "the source connection ID has the specified length")
	dd := c.fn("", "UTransport", "doDial")
	genVar, gerr := c.P.Object("", "generateConnectionIDForInitialWithLength")
	if gerr != nil {
		panic(anchorErr{gerr})
	}
	dcl := c.fld("", "InitialPacketSpec", "DestConnIDLength")
	okD := false
	eachInstr(dd, func(i ssa.Instruction) {
		cl, ok := i.(*ssa.Call)
		if !ok {
			return
		}
		if u, ok := cl.Call.Value.(*ssa.UnOp); ok {
			if g, ok := u.X.(*ssa.Global); ok && g.Object() == genVar && Load(dcl)(cl.Call.Args[0]) {
				okD = true
			}
		}
	})
	c.Check(okD, R, "sink:DestConnIDLength → generateConnectionIDForInitialWithLength", c.P.Pos(dd.Pos()), "the destination connection ID has the specified length")
	// initial packet number: dial → doDial → newUClientConnection → NewUAckHandler
	ipn := c.obj("", "InitialPacketSpec", "initialPN")
	doDial := c.obj("", "UTransport", "doDial")
	okPN := false
	for _, in := range findInstrs(d, CallsTo(doDial)) {
		a := in.(ssa.CallInstruction).Common().Args
		if phiClosureHas(a[5], CallTo(ipn, -1)) {
			okPN = true
		}
	}
	c.Check(okPN, R, "sink:InitPacketNumber → doDial(initialPacketNumber)", c.P.Pos(d.Pos()), "the first Initial's packet number is the spec's")
	nuc := c.funcVar("", "newUClientConnection")
	nuah := c.obj(ah, "", "NewUAckHandler")
	okAH := false
	for _, in := range findInstrs(nuc, CallsTo(nuah)) {
		if ParamV("initialPacketNumber")(in.(ssa.CallInstruction).Common().Args[0]) {
			okAH = true
		}
	}
	c.Check(okAH, R, "sink:initialPacketNumber → NewUAckHandler", c.P.Pos(nuc.Pos()), "the Initial packet number space is seeded with it")
	// doDial passes its initialPacketNumber parameter to the constructor
	nucObj, _ := c.P.Object("", "newUClientConnection")
	okPass := false
	eachInstr(dd, func(i ssa.Instruction) {
		cl, ok := i.(*ssa.Call)
		if !ok {
			return
		}
		if u, ok := cl.Call.Value.(*ssa.UnOp); ok {
			if g, ok := u.X.(*ssa.Global); ok && g.Object() == nucObj {
				if ParamV("initialPacketNumber")(cl.Call.Args[9]) {
					okPass = true
				}
			}
		}
	})
	c.Check(okPass, R, "sink:doDial(initialPacketNumber) → newUClientConnection", c.P.Pos(dd.Pos()), "passed through unchanged")
	// PN lengths
	spl := c.obj(ah, "", "SetInitialPacketNumberLengths")
	spl1 := c.obj(ah, "", "SetInitialPacketNumberLength")
	c.Floor(R, "SetInitialPacketNumberLength(s) calls", countInstr(nuc, CallsTo(spl, spl1)), 2)
	pk := c.fn(ah, "uSentPacketHandler", "PeekPacketNumber")
	lens := c.fld(ah, "uSentPacketHandler", "initialPacketNumberLengths")
	len1 := c.fld(ah, "uSentPacketHandler", "initialPacketNumberLength")
	retUses := map[string]bool{}
	eachInstr(pk, func(i ssa.Instruction) {
		r, ok := i.(*ssa.Return)
		if !ok {
			return
		}
		v := retResults(r)[1]
		if Load(len1)(v) {
			retUses["single"] = true
		}
		if u, ok := stripConv(v).(*ssa.UnOp); ok {
			if ia, ok := u.X.(*ssa.IndexAddr); ok && Load(lens)(ia.X) {
				retUses["list"] = true
			}
		}
	})
	c.Check(retUses["single"] && retUses["list"], R, "sink:PN length overrides returned by PeekPacketNumber", c.P.Pos(pk.Pos()), "the header's packet-number length comes from the spec for Initial packets")
	// token store
	uc := c.fn("", "InitialPacketSpec", "UpdateConfig")
	gts := c.obj("", "InitialPacketSpec", "getTokenStore")
	cts := c.fld("", "Config", "TokenStore")
	okTS := false
	for _, in := range findInstrs(uc, StoresTo(cts)) {
		if CallTo(gts, -1)(in.(*ssa.Store).Val) {
			okTS = true
		}
	}
	c.Check(okTS, R, "sink:getTokenStore() → Config.TokenStore", c.P.Pos(uc.Pos()), "the spec's token source is installed")
	quc := c.obj("", "QUICSpec", "UpdateConfig")
	c.Floor(R, "UpdateConfig call in dial", countInstr(d, CallsTo(quc)), 1)
}

func uniq(xs []string) []string {
	var out []string
	for i, x := range xs {
		if i == 0 || x != xs[i-1] {
			out = append(out, x)
		}
	}
	return out
}

func c10Buffer(c *Ctx) {
	const R = "C10.2"
	f := c.fn("", "uPacketPacker", "appendInitialPacketPayload")
	data := c.fld("", "packetBuffer", "Data")
	n := 0
	capOf := func(v ssa.Value) bool {
		cl, ok := stripConv(v).(*ssa.Call)
		return ok && builtinName(&cl.Call) == "cap" && Load(data)(cl.Call.Args[0])
	}
	capTerm := func(v ssa.Value) bool {
		if capOf(v) {
			return true
		}
		bo, ok := stripConv(v).(*ssa.BinOp)
		return ok && bo.Op == token.SUB && capOf(bo.X)
	}
	for _, in := range findInstrs(f, StoresTo(data)) {
		st := in.(*ssa.Store)
		// growth: append(...) or reslice beyond the current length
		grow := false
		if cl, ok := st.Val.(*ssa.Call); ok && builtinName(&cl.Call) == "append" {
			grow = true
		}
		if sl, ok := st.Val.(*ssa.Slice); ok && sl.High != nil {
			grow = true
		}
		if !grow {
			continue
		}
		n++
		site := in
		w := (&Cut{Fn: f, Target: func(i ssa.Instruction) bool { return i == site }, Edge: func(ifi *ssa.If, s int) bool {
			// any edge establishing  X <= cap(buffer.Data)[-k]   (i.e. the failing edge of X > cap…)
			return EdgeImplies(ifi, s, Rel{Op: token.LEQ, X: Any(), Y: capTerm}, false)
		}}).Run()
		c.Check(w == nil, R, fmt.Sprintf("bound:packet buffer growth #%d within capacity", n), c.P.InstrPos(in),
			"buffer.Data is a pooled fixed-capacity buffer; growing it past its capacity reallocates it (the packet is lost and releasing the buffer panics), so each growth must be dominated by a comparison against cap(buffer.Data)")
	}
	c.Floor(R, "growths of buffer.Data", n, 2)
}

func c10NumbersAndTokens(c *Ctx) {
	const R = "C10.3"
	f := c.fn("", "uPacketPacker", "appendInitialPacketPayload")
	pop := c.obj("", "packetNumberManager", "PopPacketNumber")
	hpn := c.fld("internal/wire", "ExtendedHeader", "PacketNumber")
	c.cut(R, "pair:packet returned only if popped == peeked", &Cut{Fn: f, Target: func(i ssa.Instruction) bool {
		r, ok := i.(*ssa.Return)
		return ok && !IsNil()(retResults(r)[0])
	}, Edge: EdgeRel(Rel{Op: token.EQL, X: CallTo(pop, -1), Y: Load(hpn)}, false)}, "the number written into the header is the number consumed from the generator")
	d := c.fn("", "dummyTokenStore", "Pop")
	// fresh randomness per call, past the prefix
	nRand := 0
	eachInstr(d, func(i ssa.Instruction) {
		cl, ok := i.(*ssa.Call)
		if !ok {
			return
		}
		o := calleeObj(&cl.Call)
		if o == nil || o.Pkg() == nil || o.Pkg().Path() != "crypto/rand" || o.Name() != "Read" {
			return
		}
		nRand++
		sl, ok := cl.Call.Args[0].(*ssa.Slice)
		okv := false
		if ok && sl.Low != nil {
			if cp, ok := stripConv(sl.Low).(*ssa.Call); ok && builtinName(&cp.Call) == "copy" {
				pf, _ := loadedField(cp.Call.Args[1])
				okv = pf != nil && pf.Name() == "prefix"
			}
		}
		c.Check(okv, R, "shape:random tail starts after the copied prefix", c.P.InstrPos(i), "token = fixed prefix + fresh random bytes")
	})
	c.Floor(R, "crypto/rand.Read in dummyTokenStore.Pop", nRand, 1)
	tl := c.fld("", "dummyTokenStore", "tokenLength")
	nMk := 0
	eachInstr(d, func(i ssa.Instruction) {
		if ms, ok := i.(*ssa.MakeSlice); ok {
			nMk++
			c.Check(Load(tl)(ms.Len), R, "shape:token length = tokenLength", c.P.InstrPos(i), "token has the specified length; a fresh buffer per Pop")
		}
	})
	c.Floor(R, "token buffer allocation per Pop", nMk, 1)
}

func c10InitialPN(c *Ctx) {
	const R = "C10.4"
	f := c.fn("", "InitialPacketSpec", "initialPN")
	ipn := c.fld("", "InitialPacketSpec", "InitPacketNumber")
	n := 0
	eachInstr(f, func(i ssa.Instruction) {
		r, ok := i.(*ssa.Return)
		if !ok {
			return
		}
		n++
		v := retResults(r)[0]
		if ConstI(0)(v) {
			return
		}
		okv := Load(ipn)(v) && dominatedByEdge(r.Block(), Rel{Op: token.LEQ, X: Load(ipn), Y: func(x ssa.Value) bool {
			k, ok := stripConv(x).(*ssa.Const)
			if !ok || k.Value == nil {
				return false
			}
			u, exact := constant.Uint64Val(k.Value)
			return exact && u == (uint64(1)<<62)-1
		}}, false)
		c.Check(okv, R, "shape:initialPN returns InitPacketNumber only when <= 2^62-1", c.P.InstrPos(i), "packet numbers are at most 2^62-1 (RFC 9000 §17.1)")
	})
	c.Floor(R, "returns of initialPN", n, 2)
}

// ---------------- C11 ----------------

func runC11(c *Ctx) {
	c.Clause("C11.1 order on the one extension object: suppress → (optional) shuffle → read back own view → preset applied")
	c.Clause("C11.2 SuppressQUICTransportParameters: ID() evaluated once per parameter, GREASE routed through IsGREASEQTPID, order-preserving in-place filter; TransportParameterIDs suppresses first and folds GREASE through the same predicate; IsGREASEQTPID is id>=27 ∧ (id-27)%31==0")
	c.Clause("C11.3 PopulateFromUQUIC stores the marshalled spec parameters as the override on every path; Marshal returns the override first")
	c.Clause("C11.4 every built-in QUICID variable has a QUICID2Spec case")
	c.Clause("C11.5 the suppress set is not modified while the list is filtered (duplicates, idempotence)")
	c.Clause("C11.6 ShuffleQUICTransportParameters uses math/rand.Shuffle over the whole list with an element swap, or a Fisher–Yates loop drawing j from [0,i]")
	c.Clause("C11.7 no function of this module calls the caching Len/Read of the spec's transport-parameter extension")
	c.Clause("C11.8 PopulateFromUQUIC stores into the spec's parameter list only past the successful InitialSourceConnectionID assertion and the empty-value test")
	c.Clause("C11.9 in every built-in spec the set of frame types of the Initial flight is the same on every dial (a randomised PING count is never zero on some dials only): the reference fingerprinter hashes that set")
	c.NotCovered("byte equality with uTLS output; the statistical quality of the permutation beyond the algorithm's shape; fingerprint identifier values (the identifiers recorded in the QUICIDs are not reproduced by the fingerprinter version pinned in go.mod, see findings/C11-fingerprint-not-stable)")
	c.NotCovered("effectiveness of per-dial randomisation for a reused spec value (see C02 known findings)")

	c.rule("C11.1", func() { c11Order(c) })
	c.rule("C11.2", func() { c11Suppress(c) })
	c.rule("C11.3", func() { c11Override(c) })
	c.rule("C11.4", func() { c11Table(c) })
	c.rule("C11.5", func() { c11SetReadOnly(c) })
	c.rule("C11.6", func() { c11Shuffle(c) })
	c.rule("C11.7", func() { c11NoEarlyMarshal(c) })
	c.rule("C11.8", func() { c11PlaceholderOnly(c) })
	c.rule("C11.9", func() { c11FramePresenceDeterministic(c) })
}

func c11Order(c *Ctx) {
	const R = "C11.1"
	f := c.funcVar("", "newUClientConnection")
	sup := c.obj("", "", "SuppressQUICTransportParameters")
	shuf := c.obj("", "", "ShuffleQUICTransportParameters")
	pop := c.obj("internal/wire", "TransportParameters", "PopulateFromUQUIC")
	ncs := c.obj(hsk, "", "NewUCryptoSetupClient")
	rnd := c.fld("", "QUICSpec", "RandomizeTransportParameters")
	tpF := c.fld("github.com/refraction-networking/utls", "QUICTransportParametersExtension", "TransportParameters")
	c.Floor(R, "suppress/shuffle/populate/preset calls", countInstr(f, CallsTo(sup, shuf, pop, ncs)), 4)
	c.cut(R, "order:suppress before shuffle", &Cut{Fn: f, Target: CallsTo(shuf), Barrier: CallsTo(sup)}, "the shuffled set is exactly the wire set")
	c.cut(R, "order:suppress before read-back", &Cut{Fn: f, Target: CallsTo(pop), Barrier: CallsTo(sup)}, "the connection's own view is the filtered list")
	chs := c.fld("", "QUICSpec", "ClientHelloSpec")
	c.cut(R, "order:read-back before the preset is applied", &Cut{Fn: f, Target: CallsTo(ncs), Barrier: CallsTo(pop), Edge: OrEdge(EdgeRel(Rel{Op: token.EQL, X: Load(chs), Y: IsNil()}, false),
		// the flag that is only set to true right after the read-back ("tpSet"): its true edge implies the read-back happened
		func(ifi *ssa.If, s int) bool {
			ph, ok := condCore(ifi.Cond).(*ssa.Phi)
			if !ok || !EdgeImplies(ifi, s, BoolTrue(func(v ssa.Value) bool { return v == ssa.Value(ph) }), false) {
				return false
			}
			popBlocks := map[*ssa.BasicBlock]bool{}
			for _, in := range findInstrs(f, CallsTo(pop)) {
				popBlocks[in.Block()] = true
			}
			var okAll func(v ssa.Value, pred *ssa.BasicBlock, d int) bool
			okAll = func(v ssa.Value, pred *ssa.BasicBlock, d int) bool {
				if d > 6 {
					return false
				}
				if p2, isPhi := v.(*ssa.Phi); isPhi {
					for k, e := range p2.Edges {
						if e == ssa.Value(p2) {
							continue
						}
						if !okAll(e, p2.Block().Preds[k], d+1) {
							return false
						}
					}
					return true
				}
				if isConstBool(v, false) {
					return true
				}
				if isConstBool(v, true) {
					for b := range popBlocks {
						if dominatedByBlock(pred, b) {
							return true
						}
					}
				}
				return false
			}
			return okAll(ph, nil, 0)
		})}, "with a ClientHelloSpec, the own parameters are read back before uTLS caches the marshalled bytes")
	c.cut(R, "guard:shuffle only when RandomizeTransportParameters", &Cut{Fn: f, Target: CallsTo(shuf), Edge: EdgeRel(BoolTrue(Load(rnd)), false)}, "spec order is kept unless randomisation is on")
	// when randomisation is on the shuffle precedes the read-back
	c.cut(R, "pair:randomisation on ⇒ shuffled before read-back", &Cut{Fn: f, StartBlocks: edgeSuccs(f, BoolTrue(Load(rnd))), Target: CallsTo(pop), Barrier: CallsTo(shuf)}, "the own view and the wire agree on the order")
	// all on the same extension object
	var ext ssa.Value
	same := true
	for _, in := range findInstrs(f, CallsTo(sup, shuf)) {
		a := in.(ssa.CallInstruction).Common().Args[0]
		if ext == nil {
			ext = a
		} else if a != ext {
			same = false
		}
	}
	for _, in := range findInstrs(f, CallsTo(pop)) {
		a := in.(ssa.CallInstruction).Common().Args[1]
		fl, base := loadedField(a)
		if fl != tpF || base != ext {
			same = false
		}
	}
	c.Check(ext != nil && same, R, "same:suppress, shuffle and read-back act on one extension object", c.P.Pos(f.Pos()), "the object uTLS will serialise")
}

func c11Suppress(c *Ctx) {
	const R = "C11.2"
	f := c.fn("", "", "SuppressQUICTransportParameters")
	idM := c.obj("github.com/refraction-networking/utls", "TransportParameter", "ID")
	isG := c.obj("", "", "IsGREASEQTPID")
	grease := c.konst("", "QTPGrease")
	c.Check(constInt(grease) == 27, R, "const:QTPGrease==27", "-", "RFC 9000 §18.1: 31*N+27")
	c.Check(countInstr(f, CallsTo(idM)) == 1, R, "once:ID() evaluated once per parameter", c.P.Pos(f.Pos()), "ID() of a GREASE parameter draws and memoises a random ID on first use")
	// the only appends to the kept list append the loop element itself
	tpF := c.fld("github.com/refraction-networking/utls", "QUICTransportParametersExtension", "TransportParameters")
	nApp := 0
	eachInstr(f, func(i ssa.Instruction) {
		cl, ok := i.(*ssa.Call)
		if !ok || builtinName(&cl.Call) != "append" {
			return
		}
		nApp++
		// reached only when neither dropped by ID nor by GREASE
		c.cut(R, "guard:kept only if not GREASE-suppressed", &Cut{Fn: f, Target: func(x ssa.Instruction) bool { return x == i },
			Edge: OrEdge(EdgeRel(BoolTrue(CallTo(isG, -1)), true), func(ifi *ssa.If, s int) bool {
				// suppressGREASE false edge: a boolean φ (loop-carried flag) false
				_, isPhi := condCore(ifi.Cond).(*ssa.Phi)
				return isPhi && EdgeImplies(ifi, s, BoolTrue(func(v ssa.Value) bool { return v == condCore(ifi.Cond) }), true)
			})}, "a GREASE parameter is kept only when GREASE is not suppressed")
	})
	c.Check(nApp == 1, R, "filter:single append site (order preserving)", c.P.Pos(f.Pos()), "kept parameters are appended in their original order")
	// kept list reuses the backing array from index 0 (in place) and is stored back
	okInPlace := false
	eachInstr(f, func(i ssa.Instruction) {
		sl, ok := i.(*ssa.Slice)
		if ok && Load(tpF)(sl.X) && sl.High != nil && ConstI(0)(sl.High) && sl.Low == nil {
			okInPlace = true
		}
	})
	c.Check(okInPlace, R, "filter:in place (TransportParameters[:0])", c.P.Pos(f.Pos()), "the extension's own slice is filtered")
	c.cut(R, "post:filtered list stored back", &Cut{Fn: f, StartBlocks: nil, Start: func(i ssa.Instruction) bool {
		sl, ok := i.(*ssa.Slice)
		return ok && Load(tpF)(sl.X)
	}, Target: isReturn, Barrier: StoresTo(tpF)}, "the extension ends up with exactly the kept parameters")
	// IsGREASEQTPID shape
	g := c.fn("", "", "IsGREASEQTPID")
	okG := false
	eachInstr(g, func(i ssa.Instruction) {
		bo, ok := i.(*ssa.BinOp)
		if ok && bo.Op == token.EQL && BinV(token.REM, BinV(token.SUB, ParamV("id"), ConstOf(grease)), ConstI(31))(bo.X) && ConstI(0)(bo.Y) {
			okG = true
		}
	})
	c.Check(okG, R, "shape:IsGREASEQTPID=(id-27)%31==0", c.P.Pos(g.Pos()), "reserved IDs are 31*N+27")
	c.cut(R, "guard:IsGREASEQTPID requires id >= 27", &Cut{Fn: g, Target: func(i ssa.Instruction) bool {
		bo, ok := i.(*ssa.BinOp)
		return ok && bo.Op == token.SUB
	}, Edge: EdgeRel(Rel{Op: token.GEQ, X: ParamV("id"), Y: ConstOf(grease)}, false)}, "no unsigned underflow for small IDs")
	// TransportParameterIDs
	t := c.fn("", "QUICSpec", "TransportParameterIDs")
	sup := c.obj("", "", "SuppressQUICTransportParameters")
	c.cut(R, "order:TransportParameterIDs suppresses before listing", &Cut{Fn: t, Target: CallsTo(idM), Barrier: CallsTo(sup)}, "the reported list is what a dial would send")
	c.Floor(R, "IsGREASEQTPID use in TransportParameterIDs", countInstr(t, CallsTo(isG)), 1)
	sortM := func(i ssa.Instruction) bool {
		cl, ok := i.(*ssa.Call)
		if !ok {
			return false
		}
		o := calleeObj(&cl.Call)
		return o != nil && o.Pkg() != nil && o.Pkg().Path() == "slices" && o.Name() == "Sort"
	}
	c.Floor(R, "canonical ordering (slices.Sort)", countInstr(t, sortM), 1)
}

func c11Override(c *Ctx) {
	const R = "C11.3"
	f := c.fn("internal/wire", "TransportParameters", "PopulateFromUQUIC")
	ov := c.fld("internal/wire", "TransportParameters", "ClientOverride")
	isStore := func(i ssa.Instruction) bool {
		st, ok := i.(*ssa.Store)
		if !ok || fieldOfAddress(st.Addr) != ov {
			return false
		}
		cl, ok := st.Val.(*ssa.Call)
		if !ok {
			return false
		}
		o := calleeObj(&cl.Call)
		return o != nil && o.Name() == "Marshal" && ParamV("quicparams")(cl.Call.Args[0])
	}
	c.cut(R, "post:ClientOverride = quicparams.Marshal() on every path", &Cut{Fn: f, Target: isReturn, Barrier: isStore}, "later marshals reproduce the spec's bytes")
	m := c.fn("internal/wire", "TransportParameters", "Marshal")
	// the first decision in Marshal: if len(ClientOverride) > 0 return it
	okFirst := false
	b0 := m.Blocks[0]
	if ifi, ok := b0.Instrs[len(b0.Instrs)-1].(*ssa.If); ok {
		if EdgeImplies(ifi, 0, Rel{Op: token.GTR, X: LenOf(Load(ov)), Y: ConstI(0)}, false) || EdgeImplies(ifi, 0, Rel{Op: token.NEQ, X: Load(ov), Y: IsNil()}, false) {
			okFirst = true
			// and that edge returns the override
			seen := false
			for _, in := range b0.Succs[0].Instrs {
				if r, ok := in.(*ssa.Return); ok && Load(ov)(retResults(r)[0]) {
					seen = true
				}
			}
			okFirst = seen
		}
	}
	c.Check(okFirst, R, "shape:Marshal returns ClientOverride first", c.P.Pos(m.Pos()), "an override wins over re-encoding the fields")
	c.checkWriters(R, ov, c.set([3]string{"internal/wire", "TransportParameters", "PopulateFromUQUIC"}), 1)
}

func c11Table(c *Ctx) {
	const R = "C11.4"
	pk := c.P.Pkgs[modPath]
	qid := c.named("", "QUICID")
	// all package-level vars of type QUICID and their constant values
	type idv struct{ client, version, fp string }
	vals := map[string]idv{}
	g2s := c.fn("", "", "QUICID2Spec")
	_ = g2s
	sc := pk.Types.Scope()
	var names []string
	for _, n := range sc.Names() {
		v, ok := sc.Lookup(n).(*types.Var)
		if !ok || !types.Identical(v.Type(), qid.Type()) {
			continue
		}
		names = append(names, n)
	}
	sort.Strings(names)
	c.Floor(R, "QUICID variables", len(names), 8)
	// QUICID2Spec compares against globals: collect the globals loaded in comparisons
	cases := map[string]bool{}
	eachInstr(g2s, func(i ssa.Instruction) {
		u, ok := i.(*ssa.UnOp)
		if !ok || u.Op != token.MUL {
			return
		}
		if g, ok := u.X.(*ssa.Global); ok && types.Identical(g.Type().(*types.Pointer).Elem(), qid.Type()) {
			cases[g.Name()] = true
		}
	})
	// aliases (QUICChrome_115 = QUICChrome_115_IPv4) are covered when the variable they are initialised from is a case
	alias := map[string]string{}
	initFn := c.P.SSAPkg[modPath].Func("init")
	eachInstr(initFn, func(i ssa.Instruction) {
		st, ok := i.(*ssa.Store)
		if !ok {
			return
		}
		dst, ok := st.Addr.(*ssa.Global)
		if !ok || !types.Identical(dst.Type().(*types.Pointer).Elem(), qid.Type()) {
			return
		}
		if u, ok := st.Val.(*ssa.UnOp); ok {
			if src, ok := u.X.(*ssa.Global); ok {
				alias[dst.Name()] = src.Name()
			}
		}
	})
	_ = vals
	for _, n := range names {
		target := n
		for k := 0; k < 4 && !cases[target]; k++ {
			if a, ok := alias[target]; ok {
				target = a
			} else {
				break
			}
		}
		c.Check(cases[target], R, "table:"+n+" has a QUICID2Spec case", "-", "every built-in fingerprint ID expands to a spec")
	}
	c.Floor(R, "QUICID2Spec cases", len(cases), 6)
}
