package main

import (
	"bufio"
	"encoding/json"
	"fmt"
	"os"
	"path/filepath"
	"sort"
	"strings"
	"time"
)

// Ob is one obligation: a rule instance applied to one construct of the program.
type Ob struct {
	Key       string `json:"key"`  // rule:construct — stable across line changes
	Rule      string `json:"rule"` // e.g. C04.3
	Construct string `json:"construct"`
	Verdict   string `json:"verdict"` // ok | violation | known-finding
	Pos       string `json:"pos,omitempty"`
	Detail    string `json:"detail,omitempty"`
}

// Ctx collects the obligations of one property run.
type Ctx struct {
	P        *Prog
	Prop     string
	Tier     string
	Obs      []Ob
	seen     map[string]bool
	Counters map[string]int
	FuncsSet map[string]bool
	Clauses  []string // clauses decided
	NotCov   []string // what is not decided
	Trusted  []string
}

func NewCtx(p *Prog, prop, tier string) *Ctx {
	return &Ctx{P: p, Prop: prop, Tier: tier, seen: map[string]bool{}, Counters: map[string]int{}, FuncsSet: map[string]bool{}}
}

func (c *Ctx) add(o Ob) {
	o.Key = o.Rule + ":" + o.Construct
	if c.seen[o.Key+"|"+o.Verdict] {
		return
	}
	c.seen[o.Key+"|"+o.Verdict] = true
	if os.Getenv("UQ_VERBOSE") != "" {
		fmt.Printf("  [%s] %s at %s: %s\n", o.Verdict, o.Key, o.Pos, o.Detail)
	}
	c.Obs = append(c.Obs, o)
}

// OK records a discharged obligation.
func (c *Ctx) OK(rule, construct, pos, detail string) {
	c.add(Ob{Rule: rule, Construct: construct, Verdict: "ok", Pos: pos, Detail: detail})
}

// Bad records a violated obligation.
func (c *Ctx) Bad(rule, construct, pos, detail string) {
	c.add(Ob{Rule: rule, Construct: construct, Verdict: "violation", Pos: pos, Detail: detail})
}

// Check records ok or violation.
func (c *Ctx) Check(ok bool, rule, construct, pos, detail string) bool {
	if ok {
		c.OK(rule, construct, pos, detail)
	} else {
		c.Bad(rule, construct, pos, detail)
	}
	return ok
}

// Err records an engine/anchor error as a violation of the rule (unresolved anchors,
// undecided results and floors all fail the check).
func (c *Ctx) Err(rule, construct string, err error) {
	c.Bad(rule, construct, "-", "checker could not decide: "+err.Error())
}

// Floor fails when fewer than min sites matched.
func (c *Ctx) Floor(rule, what string, got, min int) {
	c.Counters[rule+" "+what] = got
	if got < min {
		c.Bad(rule, "floor:"+what, "-", fmt.Sprintf("matched %d %s, confirmed floor is %d (a rule that matches nothing passes vacuously)", got, what, min))
	} else {
		c.OK(rule, "floor:"+what, "-", fmt.Sprintf("matched %d ≥ %d", got, min))
	}
}

func (c *Ctx) Count(name string, n int) { c.Counters[name] += n }

func (c *Ctx) Clause(s string)     { c.Clauses = append(c.Clauses, s) }
func (c *Ctx) NotCovered(s string) { c.NotCov = append(c.NotCov, s) }

// ---- known findings ----

type Finding struct {
	Status   string `json:"status"` // known | fixed
	Property string `json:"property"`
	Key      string `json:"key"`
	What     string `json:"what"`
	Commit   string `json:"commit,omitempty"`
}

func loadFindings(path string) ([]Finding, error) {
	f, err := os.Open(path)
	if err != nil {
		if os.IsNotExist(err) {
			return nil, nil
		}
		return nil, err
	}
	defer f.Close()
	var out []Finding
	sc := bufio.NewScanner(f)
	sc.Buffer(make([]byte, 1<<20), 1<<20)
	for sc.Scan() {
		line := strings.TrimSpace(sc.Text())
		if line == "" || strings.HasPrefix(line, "#") {
			continue
		}
		var fd Finding
		if err := json.Unmarshal([]byte(line), &fd); err != nil {
			return nil, fmt.Errorf("%s: %v", path, err)
		}
		out = append(out, fd)
	}
	return out, sc.Err()
}

// ---- evidence ----

type evidence struct {
	PropertyID  string         `json:"property_id"`
	Tier        string         `json:"tier"`
	Seed        int            `json:"seed"`
	Level       string         `json:"level"`
	Coverage    map[string]any `json:"coverage"`
	Assumptions []string       `json:"assumptions"`
	WallS       float64        `json:"wall_s"`
	Violations  int            `json:"violations"`
}

// Finish applies known findings, writes evidence (and the violations file), prints the
// verdict lines and returns the exit code.
func (c *Ctx) Finish(verifDir string, start time.Time, seed int, explanation string) int {
	findings, err := loadFindings(filepath.Join(verifDir, "known_findings.jsonl"))
	if err != nil {
		fmt.Printf("ERROR reading known findings: %v\n", err)
		return 2
	}
	known := map[string]Finding{}
	for _, f := range findings {
		if f.Status == "known" && f.Property == c.Prop {
			known[f.Key] = f
		}
	}
	sort.SliceStable(c.Obs, func(i, j int) bool { return c.Obs[i].Key < c.Obs[j].Key })
	var viol []Ob
	nOK, nKnown := 0, 0
	rules := map[string]bool{}
	nontrivial := map[string]bool{}
	for i := range c.Obs {
		o := &c.Obs[i]
		rules[o.Rule] = true
		if !strings.HasPrefix(o.Construct, "floor:") {
			nontrivial[o.Key] = true
		}
		switch o.Verdict {
		case "ok":
			nOK++
		case "violation":
			if f, ok := known[o.Key]; ok {
				o.Verdict = "known-finding"
				nKnown++
				fmt.Printf("KNOWN-FINDING: property=%s %s — %s (%s)\n", c.Prop, o.Key, f.What, o.Pos)
			} else {
				viol = append(viol, *o)
			}
		}
	}
	evDir := filepath.Join(verifDir, "evidence")
	if evidenceDirOverride != "" {
		evDir = evidenceDirOverride
	}
	os.MkdirAll(evDir, 0o755)
	violPath := filepath.Join(evDir, c.Prop+".violations.json")
	os.Remove(violPath)

	samples := []any{}
	// sample: spread over rules
	perRule := map[string]int{}
	for _, o := range c.Obs {
		if perRule[o.Rule] < 3 && len(samples) < 60 {
			perRule[o.Rule]++
			samples = append(samples, o)
		}
	}
	fnNames := make([]string, 0, len(c.FuncsSet))
	for k := range c.FuncsSet {
		fnNames = append(fnNames, k)
	}
	sort.Strings(fnNames)
	cov := map[string]any{
		"explanation":         explanation,
		"clauses_decided":     c.Clauses,
		"not_decided":         c.NotCov,
		"obligations":         len(c.Obs),
		"discharged":          nOK,
		"known_findings":      nKnown,
		"evaluations":         len(c.Obs),
		"distinct_nontrivial": len(nontrivial),
		"rule":                "one obligation per (rule instance, program construct) found in /repo's current source; non-trivial = matched a real construct (floor bookkeeping entries excluded); distinct by key rule:construct",
		"rules_evaluated":     len(rules),
		"functions_analysed":  len(fnNames),
		"functions":           fnNames,
		"counters":            c.Counters,
		"samples":             samples,
		"checker_cmd":         strings.Join(os.Args, " "),
		"trusted_base":        append([]string{"go/types type checker", "golang.org/x/tools go/ssa IR construction", "x/tools call graph (CHA / VTA)", "reference tables in checker (RFC 9000/9001/9369 constants)"}, c.Trusted...),
		"exhaustive":          true,
		"goarch":              c.P.GOARCH,
	}
	ev := evidence{
		PropertyID: c.Prop, Tier: c.Tier, Seed: seed, Level: "other", Coverage: cov,
		Assumptions: []string{
			"static analysis of /repo's current source only; nothing is executed",
			"control flow is over-approximated (infeasible paths count as feasible); an idiom the engine does not know fails the check rather than passing it",
			"structural necessary conditions are decided, not the behaviour itself; see coverage.not_decided",
		},
		WallS: time.Since(start).Seconds(), Violations: len(viol),
	}
	b, _ := json.MarshalIndent(ev, "", " ")
	if err := os.WriteFile(filepath.Join(evDir, c.Prop+".json"), append(b, '\n'), 0o644); err != nil {
		fmt.Printf("ERROR writing evidence: %v\n", err)
		return 2
	}
	fmt.Printf("property=%s tier=%s obligations=%d discharged=%d known=%d violations=%d rules=%d functions=%d wall=%.1fs\n",
		c.Prop, c.Tier, len(c.Obs), nOK, nKnown, len(viol), len(rules), len(fnNames), time.Since(start).Seconds())
	if len(viol) > 0 {
		vb, _ := json.MarshalIndent(map[string]any{"property_id": c.Prop, "violations": viol}, "", " ")
		os.WriteFile(violPath, append(vb, '\n'), 0o644)
		for _, v := range viol {
			fmt.Printf("  violated %s at %s: %s\n", v.Key, v.Pos, v.Detail)
		}
		fmt.Printf("VIOLATION property=%s replay=%s\n", c.Prop, violPath)
		return 1
	}
	return 0
}
