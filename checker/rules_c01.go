package main

import (
	"go/token"
	"go/types"

	"golang.org/x/tools/go/ssa"
)

func init() { register("C01", runC01) }

func runC01(c *Ctx) {
	c.Clause("C01.1 duplicate packets never reach frame handling (both header forms); DATAGRAM frames are delivered from handleFrames only")
	c.Clause("C01.2 undecryptable / unparseable packets are dropped like losses (no connection error, nothing processed)")
	c.Clause("C01.3 a lost STREAM frame is re-queued on its stream and the sender is notified, unless the stream was reset; every STREAM frame handed to loss recovery carries its stream's handler; retransmission-queue frames carry the queue's handler")
	c.Clause("C01.4 DATAGRAM frames are packed without a retransmission handler, and the handler-patching loop of the packer starts exactly at the frames framer.Append added")
	c.Clause("C01.5 received DATAGRAM payloads are copied out of the packet buffer before they are queued")
	c.Clause("C01.11 every change of Conn.handshakeDestConnID is followed by connIDManager.ChangeInitialConnID (what outgoing packets actually carry)")
	c.Clause("C01.12 a short-header packet that carries STREAM frames restarts the idle timer's first-ack-eliciting-after-idle mark")
	c.Clause("C01.10 the streams call back into the connection only after releasing their own mutex (a deadlock between stream and framer stops delivery for good)")
	c.Clause("C01.9 datagram queue wake-ups: a queued datagram signals the blocked Receive, a Pop signals the blocked Add, close releases both with the error already recorded")
	c.Clause("C01.6 the run-loop timer folds in the loss-detection and ACK deadlines whenever the connection can still send probes/ACKs")
	c.Clause("C01.7 lockset analysis: the frozen set of send-stream, receive-stream, framer and datagram-queue fields is only read or written with the owner's mutex held (outside the constructors)")
	c.Clause("C01.8 a send stream that hands out a retransmission reports hasMoreData == true (or computes it from the buffered frame and the unsent data)")
	c.Clause("C01.13 DATAGRAM frames queued by SendDatagram carry their length (DataLenPresent); C01.14 no frame of a packet is handled after an earlier frame of it failed")
	c.NotCovered("prefix/ordering/completeness of the bytes delivered (reassembly is covered structurally by C03)")
	c.NotCovered("that retransmission eventually succeeds; liveness under arbitrary loss")

	c.rule("C01.1", func() { c07Duplicates(c, "C01.1") })
	c.rule("C01.2", func() { c01UnpackErrors(c) })
	c.rule("C01.3", func() { c01Retransmission(c) })
	c.rule("C01.4", func() { c01Packer(c) })
	c.rule("C01.5", func() { c01Datagrams(c) })
	c.rule("C01.6", func() { c01Timer(c) })
	c.rule("C01.7", func() { c01Guarded(c) })
	c.rule("C01.9", func() { datagramQueueWakeups(c, "C01.9") })
	c.rule("C01.10", func() { c17CallbacksOutsideStreamMutex(c, "C01.10") })
	c.rule("C01.11", func() { c01HandshakeDestConnIDPair(c, "C01.11") })
	c.rule("C01.12", func() { c17IdleRestartCountsStreamFrames(c, "C01.12") })
	c.rule("C01.8", func() { c01HasMoreAfterRetransmission(c) })
	c.rule("C01.13", func() { c01DatagramFramesCarryTheirLength(c) })
	c.rule("C01.14", func() { skipHandlingGuardsEveryHandler(c, "C01.14") })
}

func globalIs(v ssa.Value, obj types.Object) bool {
	u, ok := stripConv(v).(*ssa.UnOp)
	if !ok {
		return false
	}
	g, ok := u.X.(*ssa.Global)
	return ok && g.Object() == obj
}

func c01UnpackErrors(c *Ctx) {
	const R = "C01.2"
	f := c.fn("", "Conn", "handleUnpackError")
	decFail, err := c.P.Object(hsk, "ErrDecryptionFailed")
	if err != nil {
		panic(anchorErr{err})
	}
	keysDropped, _ := c.P.Object(hsk, "ErrKeysDropped")
	for _, spec := range []struct {
		name string
		obj  types.Object
	}{{"ErrDecryptionFailed", decFail}, {"ErrKeysDropped", keysDropped}} {
		o := spec.obj
		sb := edgeSuccs(f, Rel{Op: token.EQL, X: ParamV("err"), Y: func(v ssa.Value) bool { return globalIs(v, o) }})
		if !c.Check(len(sb) >= 1, R, "case:"+spec.name+" handled", c.P.Pos(f.Pos()), "the error class has its own case") {
			continue
		}
		c.cut(R, "drop:"+spec.name+" → (false, nil)", &Cut{Fn: f, StartBlocks: sb, Target: func(i ssa.Instruction) bool {
			r, ok := i.(*ssa.Return)
			if !ok {
				return false
			}
			res := retResults(r)
			return !(isConstBool(res[0], false) && IsNil()(res[1]))
		}}, "a packet that fails authentication is dropped silently: not queued, no connection error")
	}
	// header parse errors: errors.As(err, *headerParseError) true edge → (false, nil)
	hpe := c.named("", "headerParseError")
	isAs := func(v ssa.Value) bool {
		cl, ok := stripConv(v).(*ssa.Call)
		if !ok {
			return false
		}
		o := calleeObj(&cl.Call)
		if o == nil || o.Pkg() == nil || o.Pkg().Path() != "errors" || o.Name() != "As" {
			return false
		}
		// target is **headerParseError
		mi, ok := cl.Call.Args[1].(*ssa.MakeInterface)
		if !ok {
			return false
		}
		n := namedOf(mi.X.Type().Underlying().(*types.Pointer).Elem())
		return n != nil && n.Obj() == hpe
	}
	sb := edgeSuccs(f, BoolTrue(isAs))
	if c.Check(len(sb) >= 1, R, "case:headerParseError handled", c.P.Pos(f.Pos()), "header parse errors are recognised") {
		c.cut(R, "drop:headerParseError → (false, nil)", &Cut{Fn: f, StartBlocks: sb, Target: func(i ssa.Instruction) bool {
			r, ok := i.(*ssa.Return)
			if !ok {
				return false
			}
			res := retResults(r)
			return !(isConstBool(res[0], false) && IsNil()(res[1]))
		}}, "a packet whose header cannot be parsed is dropped silently")
	}
	// after an unpack error nothing of the packet is processed: both callers return right after handleUnpackError
	hue := c.obj("", "Conn", "handleUnpackError")
	for _, pr := range [][2]string{{"handleShortHeaderPacket", "handleUnpackedShortHeaderPacket"}, {"handleLongHeaderPacket", "handleUnpackedLongHeaderPacket"}} {
		g := c.fn("", "Conn", pr[0])
		h := c.obj("", "Conn", pr[1])
		c.cut(R, "drop:no frame handling after an unpack error@"+pr[0], &Cut{Fn: g, Start: CallsTo(hue), Target: CallsTo(h)}, "once unpacking failed the packet's payload is never handled")
		c.Floor(R, "handleUnpackError calls in "+pr[0], countInstr(g, CallsTo(hue)), 1)
	}
}

func c01Retransmission(c *Ctx) {
	const R = "C01.3"
	ol := c.fn("", "sendStreamAckHandler", "OnLost")
	rq := c.fld("", "SendStream", "retransmissionQueue")
	resetErr := c.fld("", "SendStream", "resetErr")
	ohsd := c.obj("", "streamSender", "onHasStreamData")
	putBack := c.obj("internal/wire", "StreamFrame", "PutBack")
	requeue := func(i ssa.Instruction) bool {
		st, ok := i.(*ssa.Store)
		if !ok || fieldOfAddress(st.Addr) != rq {
			return false
		}
		cl, ok := st.Val.(*ssa.Call)
		return ok && builtinName(&cl.Call) == "append" && Load(rq)(cl.Call.Args[0])
	}
	c.Floor(R, "re-queue site in OnLost", countInstr(ol, requeue), 1)
	// every exit either re-queued the frame, or lies on a reset edge (resetErr != nil) where the frame was put back
	c.cut(R, "pair:lost frame re-queued unless the stream was reset", &Cut{Fn: ol, Target: isReturn, Barrier: requeue,
		Edge: EdgeRel(Rel{Op: token.NEQ, X: Load(resetErr), Y: IsNil()}, false)}, "without a reset every lost STREAM frame goes back on the retransmission queue")
	c.cut(R, "pair:re-queued ⇒ sender notified", &Cut{Fn: ol, Start: requeue, Target: isReturn, Barrier: CallsTo(ohsd)}, "the packer learns that the stream has data again")
	// frames that are not re-queued are returned to the pool, not leaked, and not both
	c.cut(R, "linear:re-queued frames are not returned to the pool", &Cut{Fn: ol, Start: CallsTo(putBack), Target: requeue}, "a frame put back to the pool is never queued afterwards")
	// the frame appended is the lost frame
	for _, in := range findInstrs(ol, requeue) {
		cl := in.(*ssa.Store).Val.(*ssa.Call)
		okArg := false
		if len(cl.Call.Args) == 2 {
			// append(queue, sf...) lowered to a one-element slice literal: look for a store of the type-asserted frame
			okArg = containsTypeAssertOfParam(cl.Call.Args[1], "f")
		}
		c.Check(okArg, R, "shape:append(retransmissionQueue, lost frame)", c.P.InstrPos(in), "the frame re-queued is the frame reported lost")
	}
	// retransmissions are popped from the head of the queue before new data
	popNOR := c.fn("", "SendStream", "popNewOrRetransmittedStreamFrame")
	mgr := c.obj("", "SendStream", "maybeGetRetransmission")
	popNew := c.obj("", "SendStream", "popNewStreamFrame")
	c.cut(R, "order:retransmissions before new data", &Cut{Fn: popNOR, Target: CallsTo(popNew), Barrier: CallsTo(mgr), Edge: EdgeRel(Rel{Op: token.LEQ, X: LenOf(Load(rq)), Y: ConstI(0)}, false)},
		"new data is only popped when the retransmission queue was consulted (or is empty)")
	mg := c.fn("", "SendStream", "maybeGetRetransmission")
	nHead := 0
	eachInstr(mg, func(i ssa.Instruction) {
		ia, ok := i.(*ssa.IndexAddr)
		if ok && Load(rq)(ia.X) && ConstI(0)(ia.Index) {
			nHead++
		}
	})
	c.Floor(R, "head of retransmission queue read", nHead, 1)

	// every StreamFrame handed to loss recovery has a handler
	tn := c.named(ah, "StreamFrame")
	frameF := c.fld(ah, "StreamFrame", "Frame")
	handlerF := c.fld(ah, "StreamFrame", "Handler")
	n := 0
	for _, f := range c.P.ScopeFuncs() {
		eachInstr(f, func(i ssa.Instruction) {
			al, ok := i.(*ssa.Alloc)
			if !ok || al.Comment != "complit" || namedOf(al.Type()) == nil || namedOf(al.Type()).Obj() != tn {
				return
			}
			fv := allocFieldVal(al, frameF)
			if fv == nil || IsNil()(fv) {
				return // the zero StreamFrame{} returned when there is nothing to send
			}
			n++
			hv := allocFieldVal(al, handlerF)
			c.Check(hv != nil && !IsNil()(hv), R, "handler:StreamFrame literal sets Handler@"+funcName(rootFn(f)), c.P.InstrPos(i), "a STREAM frame without a handler would never be retransmitted")
		})
	}
	c.Floor(R, "ackhandler.StreamFrame literals with a frame", n, 1)
	// popStreamFrame: handler is the stream's own ack handler (conversion of the receiver)
	psf := c.fn("", "SendStream", "popStreamFrame")
	eachInstr(psf, func(i ssa.Instruction) {
		al, ok := i.(*ssa.Alloc)
		if !ok || al.Comment != "complit" || namedOf(al.Type()) == nil || namedOf(al.Type()).Obj() != tn {
			return
		}
		hv := allocFieldVal(al, handlerF)
		if hv == nil {
			return
		}
		okH := false
		if mi, ok := hv.(*ssa.MakeInterface); ok {
			if ct, ok := mi.X.(*ssa.ChangeType); ok {
				if p, ok := ct.X.(*ssa.Parameter); ok && p.Name() == "s" && typeIs(ct.Type(), modPath, "sendStreamAckHandler") {
					okH = true
				}
			}
		}
		if IsNil()(allocFieldVal(al, frameF)) {
			return
		}
		c.Check(okH, R, "handler:popStreamFrame uses this stream's ack handler", c.P.InstrPos(i), "loss of the frame is reported to the stream that sent it")
	})
}

func containsTypeAssertOfParam(v ssa.Value, param string) bool {
	seen := map[ssa.Value]bool{}
	var walk func(x ssa.Value, d int) bool
	walk = func(x ssa.Value, d int) bool {
		if x == nil || seen[x] || d > 8 {
			return false
		}
		seen[x] = true
		if ta, ok := x.(*ssa.TypeAssert); ok {
			if p, ok := ta.X.(*ssa.Parameter); ok && p.Name() == param {
				return true
			}
		}
		switch y := x.(type) {
		case *ssa.Slice:
			return walk(y.X, d+1)
		case *ssa.Alloc:
			if y.Referrers() != nil {
				for _, r := range *y.Referrers() {
					switch z := r.(type) {
					case *ssa.Store:
						if walk(z.Val, d+1) {
							return true
						}
					case *ssa.IndexAddr:
						if z.Referrers() != nil {
							for _, rr := range *z.Referrers() {
								if st, ok := rr.(*ssa.Store); ok && walk(st.Val, d+1) {
									return true
								}
							}
						}
					}
				}
			}
		case *ssa.UnOp:
			return walk(y.X, d+1)
		}
		return false
	}
	return walk(v, 0)
}

func c01Packer(c *Ctx) {
	const R = "C01.4"
	cnp := c.fn("", "packetPacker", "composeNextPacket")
	peek := c.obj("", "datagramQueue", "Peek")
	pop := c.obj("", "datagramQueue", "Pop")
	tn := c.named(ah, "Frame")
	frameF := c.fld(ah, "Frame", "Frame")
	handlerF := c.fld(ah, "Frame", "Handler")
	framesF := c.fld("", "payload", "frames")
	getFrame := c.obj("", "retransmissionQueue", "GetFrame")
	ackH := c.obj("", "retransmissionQueue", "AckHandler")
	nD, nR := 0, 0
	eachInstr(cnp, func(i ssa.Instruction) {
		al, ok := i.(*ssa.Alloc)
		if !ok || al.Comment != "complit" || namedOf(al.Type()) == nil || namedOf(al.Type()).Obj() != tn {
			return
		}
		fv := allocFieldVal(al, frameF)
		hv := allocFieldVal(al, handlerF)
		if fv == nil {
			return
		}
		src := fv
		if mi, ok := src.(*ssa.MakeInterface); ok {
			src = mi.X
		}
		switch {
		case CallTo(peek, -1)(src):
			nD++
			c.Check(hv == nil || IsNil()(hv), R, "handler:DATAGRAM frame packed without a handler", c.P.InstrPos(i), "application datagrams are never retransmitted (delivered at most once)")
			// popped from the queue on the same path
			c.cut(R, "pair:packed DATAGRAM is popped", &Cut{Fn: cnp, Start: func(x ssa.Instruction) bool { return x == i }, Target: isReturn, Barrier: CallsTo(pop)}, "a datagram that was packed leaves the send queue (it is not packed again)")
		case CallTo(getFrame, -1)(stripConv(fv)) || CallTo(getFrame, -1)(src):
			nR++
			c.Check(hv != nil && CallTo(ackH, -1)(hv), R, "handler:retransmitted control frame keeps the queue's handler", c.P.InstrPos(i), "a retransmission that is lost again is re-queued")
		}
	})
	c.Floor(R, "DATAGRAM frame literals in composeNextPacket", nD, 1)
	c.Floor(R, "retransmission frame literals in composeNextPacket", nR, 1)
	// handler patch loop starts where framer.Append started
	appendM := c.obj("", "frameSource", "Append")
	calls := findInstrs(cnp, CallsTo(appendM))
	c.Floor(R, "framer.Append calls", len(calls), 1)
	for _, in := range calls {
		call := in.(ssa.CallInstruction).Common()
		framesArg := call.Args[0]
		// the patch loop: stores to Frame.Handler through pl.frames[i]
		var idx ssa.Value
		eachInstr(cnp, func(x ssa.Instruction) {
			st, ok := x.(*ssa.Store)
			if !ok {
				return
			}
			fa, ok := st.Addr.(*ssa.FieldAddr)
			if !ok || fieldOfAddr(fa) != handlerF {
				return
			}
			if ia, ok := fa.X.(*ssa.IndexAddr); ok && Load(framesF)(ia.X) {
				idx = ia.Index
			}
		})
		if !c.Check(idx != nil, R, "site:handler patch loop", c.P.InstrPos(in), "control frames added by the framer get the retransmission handler") {
			continue
		}
		ph, ok := idx.(*ssa.Phi)
		var initV ssa.Value
		if ok {
			for _, e := range ph.Edges {
				if cl, isCall := stripConv(e).(*ssa.Call); isCall && builtinName(&cl.Call) == "len" {
					initV = cl
				}
			}
		}
		if !c.Check(initV != nil, R, "shape:patch loop starts at a len(frames) snapshot", c.P.InstrPos(in), "loop index initial value is len(pl.frames)") {
			continue
		}
		lenArg := initV.(*ssa.Call).Call.Args[0]
		okSame := Load(framesF)(lenArg) && Load(framesF)(framesArg)
		// no store to pl.frames between the snapshot load and the Append call
		var loadInstr ssa.Instruction
		if u, ok := stripConv(lenArg).(*ssa.UnOp); ok {
			loadInstr = u
		}
		noStore := false
		if loadInstr != nil {
			w := (&Cut{Fn: cnp, Start: func(x ssa.Instruction) bool { return x == loadInstr }, Target: StoresTo(framesF), Barrier: func(x ssa.Instruction) bool { return x == in }}).Run()
			noStore = w == nil
		}
		c.Check(okSame && noStore, R, "shape:patch loop starts at len(frames) as passed to framer.Append", c.P.InstrPos(in),
			"frames appended earlier (ACK, DATAGRAM, retransmissions) keep their handler; a snapshot taken before an earlier append would hand DATAGRAM frames a retransmission handler")
	}
}

func c01Datagrams(c *Ctx) {
	const R = "C01.5"
	h := c.fn("", "datagramQueue", "HandleDatagramFrame")
	rcvQueue := c.fld("", "datagramQueue", "rcvQueue")
	dData := c.fld("internal/wire", "DatagramFrame", "Data")
	n := 0
	for _, in := range findInstrs(h, StoresTo(rcvQueue)) {
		cl, ok := in.(*ssa.Store).Val.(*ssa.Call)
		if !ok || builtinName(&cl.Call) != "append" {
			continue
		}
		n++
		// appended element is a fresh make() that was filled by copy(_, f.Data)
		okCopy := false
		var ms *ssa.MakeSlice
		eachInstr(h, func(x ssa.Instruction) {
			if m, ok := x.(*ssa.MakeSlice); ok && LenOf(Load(dData))(m.Len) {
				ms = m
			}
		})
		if ms != nil {
			isCopy := func(x ssa.Instruction) bool {
				cc, ok := x.(*ssa.Call)
				return ok && builtinName(&cc.Call) == "copy" && cc.Call.Args[0] == ssa.Value(ms) && Load(dData)(cc.Call.Args[1])
			}
			// the appended element is the fresh slice, directly or through the parameter of a private helper that is
			// only called with it (the critical section extracted into a helper)
			isFresh := refersTo(cl.Call.Args[1], ms) || refersToThroughParam(cl.Call.Args[1], ms)
			okCopy = (&Cut{Fn: h, Target: func(x ssa.Instruction) bool { return x == in }, Barrier: isCopy}).Run() == nil && isFresh
		}
		c.Check(okCopy, R, "copy:queued datagram is a private copy of the frame's data", c.P.InstrPos(in), "the payload handed to the application does not alias the packet buffer that is recycled after frame handling")
	}
	c.Floor(R, "receive-queue appends", n, 1)
	c.checkWriters(R, rcvQueue, c.set([3]string{"", "datagramQueue", "HandleDatagramFrame"}, [3]string{"", "datagramQueue", "Receive"}), 2)
	// Receive hands out the head exactly once: the head is removed on the path that returns it
	rc := c.fn("", "datagramQueue", "Receive")
	c.cut(R, "once:received datagram removed from the queue when returned", &Cut{Fn: rc, Target: func(i ssa.Instruction) bool {
		r, ok := i.(*ssa.Return)
		return ok && !IsNil()(retResults(r)[0])
	}, Barrier: func(i ssa.Instruction) bool {
		st, ok := i.(*ssa.Store)
		if !ok || fieldOfAddress(st.Addr) != rcvQueue {
			return false
		}
		sl, ok := st.Val.(*ssa.Slice)
		return ok && Load(rcvQueue)(sl.X) && sl.Low != nil && ConstI(1)(sl.Low)
	}}, "a datagram is delivered to one Receive call only")
	// who delivers datagram frames
	hdf := c.obj("", "datagramQueue", "HandleDatagramFrame")
	c.checkCallers(R, hdf, c.set([3]string{"", "Conn", "handleDatagramFrame"}), 1)
}

// refersToThroughParam: v is built from a parameter of a private helper whose every call site passes x for it.
func refersToThroughParam(v ssa.Value, x ssa.Value) bool {
	found := false
	seen := map[ssa.Value]bool{}
	var walk func(y ssa.Value, d int)
	walk = func(y ssa.Value, d int) {
		if y == nil || seen[y] || d > 8 || found {
			return
		}
		seen[y] = true
		if prm, ok := y.(*ssa.Parameter); ok {
			if throughParam(prm, func(a ssa.Value) bool { return a == x }) {
				found = true
			}
			return
		}
		switch z := y.(type) {
		case *ssa.Slice:
			walk(z.X, d+1)
		case *ssa.Alloc:
			if rs := z.Referrers(); rs != nil {
				for _, r := range *rs {
					switch w := r.(type) {
					case *ssa.Store:
						walk(w.Val, d+1)
					case *ssa.IndexAddr:
						if rs2 := w.Referrers(); rs2 != nil {
							for _, r2 := range *rs2 {
								if st, ok := r2.(*ssa.Store); ok {
									walk(st.Val, d+1)
								}
							}
						}
					}
				}
			}
		case *ssa.UnOp:
			walk(z.X, d+1)
		case *ssa.Convert:
			walk(z.X, d+1)
		case *ssa.ChangeType:
			walk(z.X, d+1)
		}
	}
	walk(v, 0)
	return found
}

// refersTo: v (an append's variadic slice) is built from value x.
func refersTo(v ssa.Value, x ssa.Value) bool {
	seen := map[ssa.Value]bool{}
	var walk func(y ssa.Value, d int) bool
	walk = func(y ssa.Value, d int) bool {
		if y == nil || seen[y] || d > 8 {
			return false
		}
		seen[y] = true
		if y == x {
			return true
		}
		switch z := y.(type) {
		case *ssa.Slice:
			return walk(z.X, d+1)
		case *ssa.Alloc:
			if z.Referrers() != nil {
				for _, r := range *z.Referrers() {
					if ia, ok := r.(*ssa.IndexAddr); ok && ia.Referrers() != nil {
						for _, rr := range *ia.Referrers() {
							if st, ok := rr.(*ssa.Store); ok && walk(st.Val, d+1) {
								return true
							}
						}
					}
					if st, ok := r.(*ssa.Store); ok && walk(st.Val, d+1) {
						return true
					}
				}
			}
		}
		return false
	}
	return walk(v, 0)
}

func c01Timer(c *Ctx) { timerFold(c, "C01.6", true, true) }

// timerFold: the run-loop timer takes the loss-detection timeout and / or the ACK alarm into account unless hard-blocked.
func timerFold(c *Ctx, R string, withLoss, withAck bool) {
	f := c.fn("", "Conn", "maybeResetTimer")
	blocked := c.fld("", "Conn", "blocked")
	hard := c.konst("", "blockModeHardBlocked")
	ldt := c.obj(ah, "SentPacketHandler", "GetLossDetectionTimeout")
	gat := c.obj(ah, "ReceivedPacketHandler", "GetAlarmTimeout")
	timer := c.fld("", "Conn", "timer")
	isReset := func(i ssa.Instruction) bool {
		cl, ok := i.(*ssa.Call)
		if !ok {
			return false
		}
		o := calleeObj(&cl.Call)
		return o != nil && o.Name() == "Reset" && o.Pkg() != nil && o.Pkg().Path() == "time" && Load(timer)(cl.Call.Args[0])
	}
	resets := findInstrs(f, isReset)
	c.Floor(R, "timer.Reset calls in maybeResetTimer", len(resets), 3)
	hardEdge := EdgeRel(Rel{Op: token.EQL, X: Load(blocked), Y: ConstOf(hard)}, false)
	var ms []*types.Func
	if withLoss {
		ms = append(ms, ldt)
	}
	if withAck {
		ms = append(ms, gat)
	}
	for _, m := range ms {
		mm := m
		c.cut(R, "fold:"+m.Name()+" consulted before the timer is set", &Cut{Fn: f, Target: isReset, Barrier: CallsTo(mm), Edge: hardEdge},
			"unless hard-blocked, the timer deadline takes the loss-detection / ACK alarm into account")
		c.Floor(R, m.Name()+" calls", countInstr(f, CallsTo(mm)), 1)
	}
	// and its value can become the deadline: some Reset's deadline φ-closure includes the call result
	until := c.obj("internal/monotime", "", "Until")
	for _, m := range ms {
		okAny := false
		for _, in := range resets {
			arg := in.(*ssa.Call).Call.Args[1]
			cl, ok := arg.(*ssa.Call)
			if !ok || calleeObj(&cl.Call) != until {
				continue
			}
			if phiClosureHas(cl.Call.Args[0], CallTo(m, -1)) {
				okAny = true
			}
		}
		c.Check(okAny, R, "fold:"+m.Name()+" can become the deadline", c.P.Pos(f.Pos()), "the timeout value flows into the deadline given to timer.Reset")
	}
	// every path ends with the timer set
	c.cut(R, "post:timer always re-set", &Cut{Fn: f, Target: isReturn, Barrier: isReset}, "no exit leaves the run-loop timer stale")
}

func phiClosureHas(v ssa.Value, pat VP) bool {
	seen := map[ssa.Value]bool{}
	var walk func(x ssa.Value, d int) bool
	walk = func(x ssa.Value, d int) bool {
		if x == nil || seen[x] || d > 12 {
			return false
		}
		seen[x] = true
		if pat(x) {
			return true
		}
		if p, ok := x.(*ssa.Phi); ok {
			for _, e := range p.Edges {
				if walk(e, d+1) {
					return true
				}
			}
		}
		return false
	}
	return walk(v, 0)
}
