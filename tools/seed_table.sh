#!/bin/bash
# Regenerates seeded/DETECTION.json: for every confirmed seeded change, which property checks report a violation
# that the unchanged tree does not have (tools/seed_eval.sh), with the first reported obligation keys.
# usage: seed_table.sh [seed-dir-name ...]   (default: all)
here=$(cd "$(dirname "$0")/.." && pwd)
out="$here/seeded/DETECTION.json"
tmp=$(mktemp -d /tmp/uqtable.XXXXXX); trap 'rm -rf "$tmp"' EXIT
# one private copy of the checker and one evaluation of the unchanged tree for the whole table
cp "$here/bin/uqcheck" "$tmp/uqcheck"; export UQ_BIN="$tmp/uqcheck"
mkdir -p "$tmp/ev0"; "$UQ_BIN" -property all -repo /repo -verif "$here" -evidence-dir "$tmp/ev0" 2>&1 | grep -E "^  violated" | sed -E 's/ at [^ ]+:[0-9]+.*//' | sort -u > "$tmp/base.txt"; export UQ_BASE="$tmp/base.txt"
seeds=("$@"); [ ${#seeds[@]} -gt 0 ] || seeds=($(cd "$here/seeded" && ls -d */ | tr -d /))
printf '%s\n' "${seeds[@]}" | xargs -P ${SEED_JOBS:-4} -I{} sh -c "SEED_COLS=400 $here/tools/seed_eval.sh $here/seeded/{}/patch.diff > $tmp/{}.out 2>&1"
python3 - "$out" "$tmp" "${seeds[@]}" <<'PY'
import json,sys,os,re
out,tmp,seeds=sys.argv[1],sys.argv[2],sys.argv[3:]
try: d=json.load(open(out))
except Exception: d={}
for s in seeds:
    txt=open(os.path.join(tmp,s+'.out'),errors='replace').read()
    keys=[re.sub(r' at [^ ]+:\d+.*| at -:.*','',l.strip()[len('violated '):]) for l in txt.splitlines() if l.strip().startswith('violated ')]
    props=sorted({k.split('.')[0] for k in keys})
    if "PATCH DOES NOT APPLY" in txt:
        # the code the change edits has been rewritten since (a later fix: commit); keep what was recorded before
        prev=d.get(s,{})
        if prev.get("detected") is None:
            # never evaluated on a tree it applied to (confirmed after the code was rewritten): evaluate it at the newest
            # /repo commit it still applies to
            import subprocess
            r=subprocess.run([os.path.join(os.path.dirname(out),'..','tools','seed_eval_at.sh'),s],capture_output=True,text=True).stdout
            ks=[re.sub(r' at [^ ]+:\d+.*| at -:.*','',l.strip()[len('violated '):]) for l in r.splitlines() if l.strip().startswith('violated ')]
            m=re.search(r'^commit (\w+)',r,re.M)
            prev={"detected": bool(ks), "detected_by_properties": sorted({k.split('.')[0] for k in ks}), "first_keys": ks[:4], "evaluated_at": m.group(1) if m else None}
        d[s]={"detected": prev.get("detected"), "detected_by_properties": prev.get("detected_by_properties",[]), "first_keys": prev.get("first_keys",[]),
              "skipped": "does not apply to the current tree any more; the entry records the last evaluation on a tree it applied to"}
        if prev.get("evaluated_at"): d[s]["evaluated_at"]=prev["evaluated_at"]
        continue
    d[s]={"detected": bool(keys), "detected_by_properties": props, "first_keys": keys[:4]}
    if not keys: d[s]["note"]=txt.strip().splitlines()[-1] if txt.strip() else ""
json.dump(dict(sorted(d.items())),open(out,'w'),indent=1)
print(sum(1 for v in d.values() if v["detected"]),"of",len(d),"seeded changes detected;",sum(1 for v in d.values() if v.get("skipped")),"no longer apply")
PY
