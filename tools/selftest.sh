#!/bin/bash
# Maintainer self-test of the checker (not a property check): build, all quick checks on the unchanged tree,
# then the two regression corpora: every confirmed seeded change must still be reported (seeded/DETECTION.json),
# every behaviour-preserving refactoring must leave all checks silent (benign/RESULTS.json).
here=$(cd "$(dirname "$0")/.." && pwd); cd "$here"
./tools/build.sh || exit 2
./bin/uqcheck -property all -tier quick | grep -E "^property|VIOLATION" 
cp seeded/DETECTION.json /tmp/DETECTION.before.json 2>/dev/null
./tools/seed_table.sh
./tools/benign_table.sh
python3 - <<'PY'
import json
try:
    a=json.load(open('/tmp/DETECTION.before.json')); b=json.load(open('seeded/DETECTION.json'))
    lost=[k for k in a if a[k]["detected"] and not b.get(k,{}).get("detected")]
    print("seeded changes no longer reported:", lost or "none")
except Exception as e: print(e)
r=json.load(open('benign/RESULTS.json'))
print("false alarms on behaviour-preserving patches:", [k for k,v in r.items() if not v["silent"]] or "none")
PY
