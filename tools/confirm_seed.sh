#!/bin/bash
# Confirms a seeded change delivered by a bug-seeding sub-agent, in a scratch worktree of /repo:
#   1. patch applies to HEAD and the tree builds,
#   2. the demonstration FAILS with the change and PASSES without it,
#   3. the pinned baseline suite still passes with only the source change applied.
# On success copies patch.diff, demo files and meta.json (+ confirm.json) to /verif/seeded/<prop>-<k>/.
# usage: confirm_seed.sh <prop> <k>      (reads /tmp/seed/<prop>_out/<k>/)
prop=$1; k=$2
root=${SEED_SRC_ROOT:-/tmp/seed}; tag=${SEED_TAG:-}
src=$root/${prop}_out/$k
wt=/tmp/confirm/${prop}-$tag$k
log=/tmp/confirm/${prop}-$tag$k.log
mkdir -p /tmp/confirm
exec > "$log" 2>&1
export GOFLAGS=-mod=mod GOPROXY=off
git -C /repo worktree remove --force "$wt" 2>/dev/null
git -C /repo worktree add -q --detach "$wt" HEAD || { echo "RESULT worktree-failed"; exit 1; }
cleanup() { git -C /repo worktree remove --force "$wt" 2>/dev/null; }
trap cleanup EXIT
cd "$wt"
demo_cmd=$(python3 -c "import json;print(json.load(open('$src/meta.json'))['demo_cmd'])")
demo_cmd=$(echo "$demo_cmd" | sed "s#\.\./${prop}_out#$root/${prop}_out#g; s#$root/${prop}\b\([^_]\)#$wt\1#g")
# a leading `cp <placeholder>/… . &&` is redundant: the demo files are copied below
demo_cmd=$(echo "$demo_cmd" | sed -E 's#^cp <[A-Za-z0-9_]+>[^&]*&& *##')
# a trailing parenthetical note ("   (end-to-end variant: …)") is not part of the command
demo_cmd=$(echo "$demo_cmd" | sed -E 's#[[:space:]]{2,}\(.*$##')
echo "demo_cmd: $demo_cmd"
# demo files
copy_demo() { if [ -d "$src/demo" ]; then (cd "$src/demo" && find . -type f) | while read f; do mkdir -p "$wt/$(dirname $f)"; cp "$src/demo/$f" "$wt/$f"; done; fi; }
rm_demo() { if [ -d "$src/demo" ]; then (cd "$src/demo" && find . -type f) | while read f; do rm -f "$wt/$f"; done; fi; }
# 2a. without the change
copy_demo
( eval "$demo_cmd" ) > /tmp/confirm/${prop}-$tag$k.demo_without.txt 2>&1; rc_without=$?
# 1. apply
if ! git apply "$src/patch.diff"; then echo "RESULT patch-does-not-apply"; exit 1; fi
if ! go build ./... ; then echo "RESULT does-not-build"; exit 1; fi
# 2b. with the change
( eval "$demo_cmd" ) > /tmp/confirm/${prop}-$tag$k.demo_with.txt 2>&1; rc_with=$?
echo "demo rc without=$rc_without with=$rc_with"
rm_demo
# 3. baseline with only the source change
base=$(/root/seedtools/run_baseline.sh "$wt" | grep -v conda | tail -3)
echo "$base"
ok=1
[ $rc_without -eq 0 ] || ok=0
[ $rc_with -ne 0 ] || ok=0
echo "$base" | grep -q "not passing: 0" || ok=0
if [ $ok -eq 1 ]; then
  dst=/verif/seeded/${prop}-$tag$k
  mkdir -p "$dst"
  cp "$src/patch.diff" "$dst/patch.diff"
  [ -d "$src/demo" ] && cp -r "$src/demo" "$dst/"
  python3 - "$src/meta.json" "$dst/meta.json" "$rc_without" "$rc_with" "$base" "$demo_cmd" <<'PY'
import json,sys
m=json.load(open(sys.argv[1]))
m['confirmed']={'demo_cmd':sys.argv[6],'demo_exit_without_change':int(sys.argv[3]),'demo_exit_with_change':int(sys.argv[4]),
  'baseline_with_change':sys.argv[5].strip().splitlines()[0] if sys.argv[5].strip() else '',
  'how':'tools/confirm_seed.sh: fresh worktree of /repo HEAD; demo run before and after git apply patch.diff; /root/seedtools/run_baseline.sh with only the source change applied'}
json.dump(m,open(sys.argv[2],'w'),indent=1)
PY
  echo "RESULT confirmed"
else
  echo "RESULT NOT-confirmed"
fi
