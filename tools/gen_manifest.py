#!/usr/bin/env python3
"""Generates /verif/MANIFEST.json from the table below (kept as code so that the
claimed set, the techniques and the not_applicable list stay in one place)."""
import json, os, sys

ROOT = os.path.dirname(os.path.dirname(os.path.abspath(__file__)))

# property -> (technique, level text, design ref)
CLAIMED = {}
NOT_APPLICABLE = {}

def claim(pid, technique, text, ref):
    CLAIMED[pid] = (technique, text, ref)

def na(pid, reason):
    NOT_APPLICABLE[pid] = reason

exec(open(os.path.join(ROOT, "tools", "manifest_table.py")).read())

checks = []
for pid in sorted(CLAIMED):
    tech, text, ref = CLAIMED[pid]
    checks.append({
        "property_id": pid,
        "quick_cmd": f"./bin/uqcheck -property {pid} -tier quick",
        "thorough_cmd": f"./tools/thorough.sh {pid}",
        "evidence_file": f"/verif/evidence/{pid}.json",
        "replay_cmd_template": "./bin/uqcheck -explain {path}",
        "engine": "uqcheck",
        "level_claimed": {"category": "other", "text": text, "design_ref": ref},
        "level_note": "Trusted base: go/types, x/tools go/ssa and call-graph construction, the checker's rule tables and RFC reference constants. Control flow is over-approximated (infeasible paths count as feasible), so an unknown idiom fails the check rather than passing it. Decides structural necessary conditions on every path/site of /repo's current source, not the runtime behaviour.",
        "technique": tech,
    })
m = {
    "version": 1,
    "setup_cmd": "./tools/build.sh",
    "hooks": {
        "guard": "verif",
        "enable": "none needed: static analysis of the source, no instrumentation",
        "baseline_off_cmd": "cd /repo && for m in . ./integrationtests/gomodvendor; do (cd $m && go test -mod=mod -json -vet=off -count=1 -timeout 25m ./...); done",
        "source_commits": [],
        "add_only": True,
    },
    "engines": [{
        "name": "uqcheck",
        "path": "checker/",
        "serves_properties": sorted(CLAIMED),
        "kind_free_text": "repository-specific static analyser over go/packages + go/ssa: graph-cut must-pass-through with helper inlining, return-value and boolean-flag sensitivity (CUT), who-may-write/call (WMW), effect pairing (PAIR), extracted-table agreement (TABLE), Append/Length sibling agreement (LEN), upper-bound provenance (UB), constants vs RFC reference (CONST), nil discipline (NIL), sibling/override agreement (SIB), value-origin slicing (ORG), wait-site vs shutdown reachability and no-lost-wake-up (WAIT), bounds obligations discharged by the compiler's prove pass or length facts (BND), lockset / guarded-by / lock pairing (LOCK), error discipline (ERR), switch exhaustiveness (EXH). Thorough tier (tools/thorough.sh): ERR/EXH widened to every function of the anchored files, the same rules re-evaluated for GOARCH=386, GOOS=windows and GOOS=darwin, plus a sensitivity audit (confirmed seeded changes of seeded/ applied to scratch copies of the current tree) and a specificity audit (behaviour-preserving refactorings of benign/)",
    }],
    "checks": checks,
    "not_applicable": [{"property_id": k, "reason": v} for k, v in sorted(NOT_APPLICABLE.items())],
    "notes": "All checks are static analysis of /repo's current working tree (type-checked program + SSA); nothing in /repo is executed. See DESIGN.md.",
}
json.dump(m, open(os.path.join(ROOT, "MANIFEST.json"), "w"), indent=1)
print("claimed", len(checks), "not_applicable", len(NOT_APPLICABLE))
