claim("C04", "SSA graph-cut must-pass-through + who-may-write + store-shape + upper-bound provenance over the flow-control counters",
      "Every path/site structural check of the flow-control mechanism: send length bounded by SendWindowSize() by construction, counters written only by their owners with the expected shapes, violation check post-dominates every highestReceived raise, unread bytes handed back exactly once per abandon path, BLOCKED frames only under IsNewlyBlocked. Decides necessary conditions, not credit conservation over histories.",
      "DESIGN.md §3 C04")
claim("C06", "SSA graph-cut + who-may-write/call + effect pairing over loss-recovery accounting and callbacks",
      "Every-path/every-site structural checks of loss recovery: bytesInFlight/numOutstanding written only by their owners with flag pairing, OnAcked/OnLost fired only from the two resolution paths with frames cleared and history removal paired, ACKs for unsent/skipped numbers rejected before any effect, timer re-armed after every state-changing event. Necessary conditions, not the sum invariant over histories.",
      "DESIGN.md §3 C06")
claim("C07", "SSA graph-cut + provenance of ACK ranges + dispatch-table agreement + trigger table over the received-packet trackers",
      "Every-path structural checks: ACK ranges only from history intervals iterated downwards, forget-below thresholds monotone and honoured, duplicate test dominates frame handling for both header forms, per-level dispatch agrees, ack-eliciting 1-RTT packet leaves with ACK queued or alarm=rcvTime+maxAckDelay, the four immediate-ACK triggers. Interval algebra is not decided.",
      "DESIGN.md §3 C07")
claim("C14", "SSA graph-cut + who-may-write + value-origin slice over amplification limit, address validation and token decoding",
      "Every-path structural checks: limit predicate shape and constant 3, every sending mode beyond the not-limited edge, byte counters written once per packet by their owners, validated flag only from validateToken()/Handshake packet, token decode has no fallback path. The running 3x inequality over histories is not decided.",
      "DESIGN.md §3 C14")
claim("C20", "SSA graph-cut + who-may-write + store-shape over congestion window and pacer guards",
      "Every-path structural checks: ack-path stores only increase or min(max,·) under isCwndLimited and below max, one reduction per epoch with clamp to 2 packets, CanSend shape and gating of SendAny, pacer overflow guards dominate the multiplication, 5/4 factor. Numeric bounds over histories are not decided.",
      "DESIGN.md §3 C20")
claim("C15", "SSA graph-cut + who-may-write + store-shape + dispatch-table rules, evaluated per generic instantiation of the streams maps",
      "Every-path structural checks on all four instantiations: incoming creation only beyond id<=maxStream else STREAM_LIMIT_ERROR, credit re-issued only after deletion of an accepted stream with the limit formula and a paired MAX_STREAMS, openStream only beyond nextStream<=maxStream since the last lock acquisition, IDs +4, STREAMS_BLOCKED once per limit, FIFO head signalling, direction/initiator dispatch with STREAM_STATE_ERROR, accept cursor advanced exactly once. Counting bounds over completion orders are not decided.",
      "DESIGN.md §3 C15")
claim("C13", "SSA graph-cut must-pass-through of every acceptance rule for Retry / Version Negotiation / transport-parameter authentication; select-case tables of the run loop",
      "Every path to a handshake-outcome-changing effect passes each rejection test (Retry: 5, VN: 5, connection-ID authentication: ISCID/ODCID/Retry SCID both ways); wrong-version, unexpected-SCID and client-side 0-RTT packets are dropped before unpacking; run-loop wait has close and timer cases; 0-RTT rejection resets every component. Convergence of both endpoints is not decided.",
      "DESIGN.md §3 C13")
claim("C16", "SSA graph-cut + effect pairing (removal ⇔ RETIRE_CONNECTION_ID / reset-token add-remove) + who-may-write/call + collection-coverage agreement over the connection-ID manager, generator and routing map",
      "Every-path structural checks: issuing bounded by min(peer limit, cap) or one-for-one, Retire's guards, each removal of a peer ID paired with RETIRE_CONNECTION_ID carrying that entry's sequence number, reset tokens added/removed with ID state changes, close path releases routing exactly once and closes the ID manager, stand-ins scheduled for deletion, storage limit error. Routed-set equality over histories is not decided.",
      "DESIGN.md §3 C16")
claim("C05", "constants and labels evaluated from the type-checked program against RFC 9001/9369 reference tables with version-selection cuts; SSA graph-cut on AEAD-open success edges, error-mapping, header-protection sample geometry and key-update gating",
      "Decides: salts, HKDF labels (key/iv/hp/ku/client in/server in/tls13), Retry keys and nonces equal the RFCs and the v2 set is selected exactly on Version2; plaintext leaves the unpackers only past Open()==nil with the header as AD; AEAD failures map to ErrDecryptionFailed; sample offset pn_offset+4..+16 agrees between packer and unpackers; rollKeys gated as RFC 9001 §6 requires; packet numbers only increase and pops are compared with peeks. Seal/open equality and packet-number decoding arithmetic are not decided.",
      "DESIGN.md §3 C05")
claim("C18", "nil-discipline dataflow for optional logger/recorder (Engler contradiction rule, frozen), SSA graph-cut on Content-Length bracketing and frame-type table, bounded-allocation cuts",
      "Decides in http3: no method call on an unset optional logger/recorder on any path; body reads bracketed by Content-Length checks whose errors propagate, capped to the remaining length; reserved frame types close the connection and are never skipped, unknown types skipped; DATA length accounting; handler under recover; peer-sized allocations bounded. End-to-end equality of requests/responses is not decided.",
      "DESIGN.md §3 C18")
claim("C19", "SSA graph-cut between consecutive decoded fields (per-iteration must-pass), extracted pseudo-header / connection-specific name tables compared between parser and writers, error-code mapping",
      "Decides: every decoded field passes size accounting (+32) and name/value validation before the next is read; regular fields are added only past their validator; pseudo-headers unknown / duplicate / after regular / wrong kind are errors with the duplicate test reading the old value; Content-Length via ParseUint(10,63); helper predicates; parser-rejected names ⊆ writer-dropped names; writers lower-case; server error mapping. httpguts itself and semantic equality are not decided.",
      "DESIGN.md §3 C19")
for pid in ["C01","C02","C03","C08","C09","C10","C11","C12","C17"]:
    na(pid, "rules for this property are designed (DESIGN.md §3) but not yet implemented in the checker; not claimed until they are")
