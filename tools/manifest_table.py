claim("C04", "SSA graph-cut must-pass-through + who-may-write + store-shape + upper-bound provenance over the flow-control counters",
      "Every path/site structural check of the flow-control mechanism: send length bounded by SendWindowSize() by construction, counters written only by their owners with the expected shapes, violation check post-dominates every highestReceived raise, unread bytes handed back exactly once per abandon path, BLOCKED frames only under IsNewlyBlocked. Decides necessary conditions, not credit conservation over histories.",
      "DESIGN.md §3 C04")
for pid in ["C01","C02","C03","C05","C06","C07","C08","C09","C10","C11","C12","C13","C14","C15","C16","C17","C18","C19","C20"]:
    na(pid, "rules for this property are designed (DESIGN.md §3) but not yet implemented in the checker; not claimed until they are")
