module mutgen

go 1.24
