// mutgen: generates first-order mutants of named functions in one Go file.
// usage: mutgen -file path/to/file.go -funcs "Recv.Method,Func" -out dir
// Each mutant is written as dir/<n>.go (the whole mutated file) with dir/<n>.txt describing it.
package main

import (
	"bytes"
	"flag"
	"fmt"
	"go/ast"
	"go/parser"
	"go/printer"
	"go/token"
	"os"
	"path/filepath"
	"strings"
)

func recvName(fd *ast.FuncDecl) string {
	if fd.Recv == nil || len(fd.Recv.List) == 0 {
		return ""
	}
	t := fd.Recv.List[0].Type
	if s, ok := t.(*ast.StarExpr); ok {
		t = s.X
	}
	switch x := t.(type) {
	case *ast.Ident:
		return x.Name
	case *ast.IndexExpr:
		if id, ok := x.X.(*ast.Ident); ok {
			return id.Name
		}
	}
	return ""
}

var swap = map[token.Token]token.Token{
	token.LSS: token.LEQ, token.LEQ: token.LSS, token.GTR: token.GEQ, token.GEQ: token.GTR,
	token.EQL: token.NEQ, token.NEQ: token.EQL, token.LAND: token.LOR, token.LOR: token.LAND,
}

func main() {
	file := flag.String("file", "", "")
	funcs := flag.String("funcs", "", "comma separated: Func or Recv.Method; empty = all")
	out := flag.String("out", "", "")
	flag.Parse()
	want := map[string]bool{}
	for _, f := range strings.Split(*funcs, ",") {
		if f != "" {
			want[f] = true
		}
	}
	src, err := os.ReadFile(*file)
	if err != nil {
		fmt.Println(err)
		os.Exit(2)
	}
	os.MkdirAll(*out, 0o755)
	n := 0
	emit := func(desc string, mutate func(f *ast.File) bool) {
		fset := token.NewFileSet()
		f, err := parser.ParseFile(fset, *file, src, parser.ParseComments)
		if err != nil {
			return
		}
		if !mutate(f) {
			return
		}
		var buf bytes.Buffer
		if err := (&printer.Config{Mode: printer.UseSpaces | printer.TabIndent, Tabwidth: 8}).Fprint(&buf, fset, f); err != nil {
			return
		}
		n++
		os.WriteFile(filepath.Join(*out, fmt.Sprintf("%d.go", n)), buf.Bytes(), 0o644)
		os.WriteFile(filepath.Join(*out, fmt.Sprintf("%d.txt", n)), []byte(desc+"\n"), 0o644)
	}
	// enumerate mutation points on a reference parse
	fset0 := token.NewFileSet()
	f0, err := parser.ParseFile(fset0, *file, src, parser.ParseComments)
	if err != nil {
		fmt.Println(err)
		os.Exit(2)
	}
	type point struct {
		fn   string
		kind string
		idx  int // index of the node in a deterministic walk of that function
		line int
	}
	var points []point
	walkFn := func(fd *ast.FuncDecl, visit func(idx int, n ast.Node) bool) {
		i := 0
		ast.Inspect(fd.Body, func(n ast.Node) bool {
			if n == nil {
				return false
			}
			i++
			return visit(i, n)
		})
	}
	for _, d := range f0.Decls {
		fd, ok := d.(*ast.FuncDecl)
		if !ok || fd.Body == nil {
			continue
		}
		name := fd.Name.Name
		if r := recvName(fd); r != "" {
			name = r + "." + name
		}
		if len(want) > 0 && !want[name] {
			continue
		}
		walkFn(fd, func(idx int, n ast.Node) bool {
			line := fset0.Position(n.Pos()).Line
			switch x := n.(type) {
			case *ast.BinaryExpr:
				if _, ok := swap[x.Op]; ok {
					points = append(points, point{name, "op", idx, line})
				}
			case *ast.IfStmt:
				points = append(points, point{name, "negate-if", idx, line})
			case *ast.BlockStmt:
				for si, st := range x.List {
					switch s := st.(type) {
					case *ast.ExprStmt:
						if _, isCall := s.X.(*ast.CallExpr); isCall {
							points = append(points, point{name, fmt.Sprintf("del-stmt:%d", si), idx, fset0.Position(st.Pos()).Line})
						}
					case *ast.AssignStmt:
						if s.Tok != token.DEFINE {
							points = append(points, point{name, fmt.Sprintf("del-stmt:%d", si), idx, fset0.Position(st.Pos()).Line})
						}
					case *ast.IncDecStmt:
						points = append(points, point{name, fmt.Sprintf("del-stmt:%d", si), idx, fset0.Position(st.Pos()).Line})
					}
				}
			}
			return true
		})
	}
	for _, pt := range points {
		pt := pt
		emit(fmt.Sprintf("%s line %d: %s", pt.fn, pt.line, pt.kind), func(f *ast.File) bool {
			done := false
			for _, d := range f.Decls {
				fd, ok := d.(*ast.FuncDecl)
				if !ok || fd.Body == nil {
					continue
				}
				name := fd.Name.Name
				if r := recvName(fd); r != "" {
					name = r + "." + name
				}
				if name != pt.fn {
					continue
				}
				i := 0
				ast.Inspect(fd.Body, func(n ast.Node) bool {
					if n == nil || done {
						return false
					}
					i++
					if i != pt.idx {
						return true
					}
					switch x := n.(type) {
					case *ast.BinaryExpr:
						if pt.kind == "op" {
							x.Op = swap[x.Op]
							done = true
						}
					case *ast.IfStmt:
						if pt.kind == "negate-if" {
							x.Cond = &ast.UnaryExpr{Op: token.NOT, X: &ast.ParenExpr{X: x.Cond}}
							done = true
						}
					case *ast.BlockStmt:
						if strings.HasPrefix(pt.kind, "del-stmt:") {
							var si int
							fmt.Sscanf(pt.kind, "del-stmt:%d", &si)
							if si < len(x.List) {
								x.List = append(x.List[:si:si], x.List[si+1:]...)
								done = true
							}
						}
					}
					return !done
				})
			}
			return done
		})
	}
	fmt.Printf("%d mutants\n", n)
}
