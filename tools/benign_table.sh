#!/bin/bash
# Regenerates benign/RESULTS.json: for every behaviour-preserving patch, the violations (if any) that the checks
# report on the patched tree but not on the unchanged tree. Expected: none.
here=$(cd "$(dirname "$0")/.." && pwd)
tmp=$(mktemp -d /tmp/uqbenign.XXXXXX); trap 'rm -rf "$tmp"' EXIT
# one private copy of the checker and one evaluation of the unchanged tree for the whole table
cp "$here/bin/uqcheck" "$tmp/uqcheck"; export UQ_BIN="$tmp/uqcheck"
mkdir -p "$tmp/ev0"; "$UQ_BIN" -property all -repo /repo -verif "$here" -evidence-dir "$tmp/ev0" 2>&1 | grep -E "^  violated" | sed -E 's/ at [^ ]+:[0-9]+.*//' | sort -u > "$tmp/base.txt"; export UQ_BASE="$tmp/base.txt"
ls "$here"/benign/*.diff | xargs -n1 basename | sed 's/\.diff$//' | xargs -P ${SEED_JOBS:-4} -I{} sh -c "SEED_COLS=300 $here/tools/seed_eval.sh $here/benign/{}.diff > $tmp/{}.out 2>&1"
python3 - "$here/benign/RESULTS.json" "$tmp" <<'PY'
import json,sys,os,glob
out,tmp=sys.argv[1],sys.argv[2]
d={}
for f in sorted(glob.glob(os.path.join(tmp,'*.out'))):
    name=os.path.basename(f)[:-4]
    txt=open(f,errors='replace').read()
    alarms=[l.strip() for l in txt.splitlines() if l.strip().startswith('violated ')]
    d[name]={"silent": not alarms and 'NOT DETECTED' in txt, "false_alarms": alarms[:5], "note": "" if alarms or 'NOT DETECTED' in txt else txt.strip()[-200:]}
json.dump(d,open(out,'w'),indent=1)
print(sum(1 for v in d.values() if v["silent"]),"of",len(d),"behaviour-preserving patches leave every check silent")
PY
