#!/bin/bash
# Applies a behaviour-preserving patch to a scratch copy of /repo and runs every property check on it.
# Any violation that the unchanged tree does not have is a FALSE ALARM of the checker.
# usage: benign_eval.sh <patch.diff>   exit 0 = silent, 1 = false alarm(s) printed
exec "$(dirname "$0")/seed_eval.sh" "$@"
