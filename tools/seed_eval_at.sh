#!/bin/bash
# For a seeded change that no longer applies to /repo's HEAD (a later fix: commit rewrote the code it edits):
# finds the newest /repo commit the patch still applies to, and evaluates the change there with today's checker
# (violations that the unchanged tree at that commit does not have). Prints "<commit>" and the new violations.
# usage: seed_eval_at.sh <seed-dir-name>
here=$(cd "$(dirname "$0")/.." && pwd)
seed=${1:?seed}; patch="$here/seeded/$seed/patch.diff"
d=$(mktemp -d /tmp/uqseedat.XXXXXX); trap 'rm -rf "$d"' EXIT
for c in $(git -C /repo rev-list -n 80 HEAD); do
  rm -rf "$d/repo"; mkdir -p "$d/repo"; git -C /repo archive $c | tar -x -C "$d/repo"
  if (cd "$d/repo" && patch -p1 -s --dry-run < "$patch" >/dev/null 2>&1); then found=$c; break; fi
done
[ -n "$found" ] || { echo "NO COMMIT FOUND"; exit 3; }
echo "commit $(git -C /repo rev-parse --short $found)"
mkdir -p "$d/ev0" "$d/ev"
"$here/bin/uqcheck" -property all -repo "$d/repo" -verif "$here" -evidence-dir "$d/ev0" 2>&1 | grep -E "^  violated" | sed -E 's/ at [^ ]+:[0-9]+.*//' | sort -u > "$d/base.txt"
(cd "$d/repo" && patch -p1 -s --no-backup-if-mismatch < "$patch")
"$here/bin/uqcheck" -property all -repo "$d/repo" -verif "$here" -evidence-dir "$d/ev" 2>&1 | grep -E "^  violated" | while IFS= read -r line; do k=$(echo "$line" | sed -E 's/ at [^ ]+:[0-9]+.*//'); grep -qxF "$k" "$d/base.txt" || echo "$line"; done | cut -c1-300
