#!/usr/bin/env python3
"""Second stage of the mutation analysis: mutants that the checks do not report and the touched package's unit tests
do not kill are run against the wider test suites (root package, integrationtests/self, http3 with
GOEXPERIMENT=synctest, which makes the virtual-time tests runnable: ~30 s in all). What survives that as well is the
list worth reading: equivalent mutants, or behaviour nothing notices.
usage: muttriage.py in.json out.json [--jobs J]"""
import json, os, subprocess, sys, shutil, tempfile, glob, concurrent.futures, threading, re
ROOT = os.path.dirname(os.path.dirname(os.path.abspath(__file__)))
REPO = os.environ.get("UQ_REPO", "/repo")
src, out = sys.argv[1], sys.argv[2]
J = int(sys.argv[sys.argv.index("--jobs") + 1]) if "--jobs" in sys.argv else 4
os.nice(15)
d = json.load(open(src))
surv = [r for r in d["unreported"] if r["status"] == "unreported"]
work = tempfile.mkdtemp(prefix="uqmuttriage.")
lock = threading.Lock()
results = []
try:
    for j in range(J):
        os.makedirs(f"{work}/w{j}/repo")
        subprocess.run(["rsync", "-a", "--exclude", ".git", REPO + "/", f"{work}/w{j}/repo/"], check=True)
    gen_cache = {}
    def mutant_file(rel, desc):
        fn = desc.split(" line ")[0]
        key = (rel, fn)
        with lock:
            if key not in gen_cache:
                o = os.path.join(work, "gen", rel.replace("/", "__") + "__" + re.sub(r"\W", "_", fn))
                subprocess.run([os.path.join(ROOT, "bin", "mutgen"), "-file", os.path.join(REPO, rel), "-funcs", fn, "-out", o], capture_output=True)
                m = {}
                for t in glob.glob(o + "/*.txt"):
                    m[open(t).read().strip()] = t[:-4] + ".go"
                gen_cache[key] = m
        return gen_cache[key].get(desc)
    def run(j, r):
        repo = f"{work}/w{j}/repo"
        mf = mutant_file(r["file"], r["mutant"])
        res = dict(r)
        if not mf:
            res["status"] = "unreported (mutant could not be regenerated)"
            return res
        target = os.path.join(repo, r["file"])
        orig = open(target, "rb").read()
        try:
            shutil.copyfile(mf, target)
            env = dict(os.environ, GOFLAGS="-mod=mod", GOPROXY="off", GOEXPERIMENT="synctest")
            t = subprocess.run(["go", "test", "-mod=mod", "-vet=off", "-count=1", "-timeout", "300s", ".", "./integrationtests/self/", "./http3/"], cwd=repo, env=env, capture_output=True, text=True)
            if t.returncode != 0:
                fails = re.findall(r"^--- FAIL: (\S+)", t.stdout, flags=re.M)[:3]
                res["status"] = "unreported, killed by the wider suites (root, integrationtests/self, http3 under synctest)"
                res["by"] = fails or [l for l in t.stdout.splitlines() if "FAIL" in l or "panic" in l][:2]
            else:
                res["status"] = "survives the checks and every test suite run"
        finally:
            open(target, "wb").write(orig)
        return res
    def worker(j):
        for i, r in enumerate(surv):
            if i % J == j:
                x = run(j, r)
                with lock:
                    results.append(x)
                    if len(results) % 10 == 0:
                        json.dump({"evaluated": len(results), "of": len(surv), "results": results}, open(out, "w"), indent=1)
    with concurrent.futures.ThreadPoolExecutor(max_workers=J) as ex:
        list(ex.map(worker, range(J)))
    import collections
    cnt = collections.Counter(r["status"] for r in results)
    json.dump({"evaluated": len(results), "of": len(surv), "by_status": dict(cnt), "results": sorted(results, key=lambda r: (r["status"], r["file"], r["mutant"]))}, open(out, "w"), indent=1)
    print(dict(cnt))
finally:
    shutil.rmtree(work, ignore_errors=True)
