#!/usr/bin/env python3
"""Mutation analysis of the CHECKER (not of the repository's tests): first-order mutants (relational/boolean operator
swap, negated if-condition, deleted call/assignment/inc-dec statement) of the functions the checks analyse are generated
by bin/mutgen; each mutant that still type-checks is analysed by the property checks that list the function in their
evidence; a mutant is "reported" when a check reports a violation the unchanged tree does not have.
Mutants that are not reported are listed: they are equivalent mutants, mutants the repository's tests kill, or gaps.

usage: mutscore.py [--max-per-func N] [--jobs J] [--filter substring] [--tests] out.json
Everything runs on scratch copies under /tmp that are removed at the end; nothing in /repo is touched or executed
(with --tests the unit tests of the touched package are run in the scratch copy for unreported mutants of the
internal/* and quicvarint packages)."""
import json, glob, os, re, subprocess, sys, shutil, tempfile, collections, concurrent.futures, argparse

ROOT = os.path.dirname(os.path.dirname(os.path.abspath(__file__)))
REPO = os.environ.get("UQ_REPO", "/repo")
MOD = "github.com/refraction-networking/uquic"

os.nice(19)
ap = argparse.ArgumentParser()
ap.add_argument("out")
ap.add_argument("--max-per-func", type=int, default=12)
ap.add_argument("--jobs", type=int, default=8)
ap.add_argument("--filter", default="")
ap.add_argument("--tests", action="store_true")
args = ap.parse_args()

# 1. functions per property from the evidence files
fn_props = collections.defaultdict(set)
for f in sorted(glob.glob(os.path.join(ROOT, "evidence", "C??.json"))):
    ev = json.load(open(f))
    for fn in ev["coverage"].get("functions", []):
        if "$" in fn:
            continue
        fn_props[fn].add(ev["property_id"])

def parse(fn):
    m = re.match(r"^\(\*?([\w/.\-]+)\.(\w+)(?:\[.*\])?\)\.(\w+)$", fn)
    if m:
        return m.group(1), m.group(2), m.group(3)
    m = re.match(r"^([\w/.\-]+)\.(\w+)$", fn)
    if m:
        return m.group(1), "", m.group(2)
    return None

def pkgdir(pk):
    if pk == "quic":
        return ""
    return pk

# 2. locate each function's file
by_file = collections.defaultdict(lambda: {"funcs": set(), "props": set()})
for fn, props in fn_props.items():
    p = parse(fn)
    if not p:
        continue
    pk, recv, name = p
    d = os.path.join(REPO, pkgdir(pk))
    if not os.path.isdir(d):
        continue
    pat = re.compile(r"^func (\([^)]*\b\*?" + re.escape(recv) + r"(\[[^\]]*\])?\) )?" + re.escape(name) + r"[\[(]") if recv else re.compile(r"^func " + re.escape(name) + r"[\[(]")
    for gf in sorted(glob.glob(os.path.join(d, "*.go"))):
        if gf.endswith("_test.go"):
            continue
        for line in open(gf, errors="replace"):
            if pat.match(line):
                rel = os.path.relpath(gf, REPO)
                by_file[rel]["funcs"].add((recv + "." if recv else "") + name)
                by_file[rel]["props"] |= props
                break

files = sorted(k for k in by_file if args.filter in k)
work = tempfile.mkdtemp(prefix="uqmutscore.")
try:
    # private copy of the checker: a rebuild during the run cannot mix versions
    UQ = os.path.join(work, "uqcheck")
    shutil.copyfile(os.path.join(ROOT, "bin", "uqcheck"), UQ)
    os.chmod(UQ, 0o755)
    # 3. generate mutants
    mutants = []  # (rel, idx, desc, props)
    for rel in files:
        out = os.path.join(work, "gen", rel.replace("/", "__"))
        subprocess.run([os.path.join(ROOT, "bin", "mutgen"), "-file", os.path.join(REPO, rel), "-funcs", ",".join(sorted(by_file[rel]["funcs"])), "-out", out], capture_output=True)
        per = collections.defaultdict(list)
        for t in sorted(glob.glob(os.path.join(out, "*.txt")), key=lambda x: int(os.path.basename(x)[:-4])):
            desc = open(t).read().strip()
            per[desc.split(" line ")[0]].append((t[:-4] + ".go", desc))
        for fnname, lst in per.items():
            step = max(1, len(lst) // args.max_per_func)
            for gofile, desc in lst[::step][: args.max_per_func]:
                mutants.append((rel, gofile, desc, sorted(by_file[rel]["props"])))
    print(f"{len(files)} files, {sum(len(by_file[f]['funcs']) for f in files)} functions, {len(mutants)} mutants selected", flush=True)

    # 4. worker copies
    J = args.jobs
    for j in range(J):
        os.makedirs(os.path.join(work, f"w{j}", "repo"), exist_ok=True)
        subprocess.run(["rsync", "-a", "--exclude", ".git", REPO + "/", os.path.join(work, f"w{j}", "repo") + "/"], check=True)
    base = {}
    for pid in sorted({p for m in mutants for p in m[3]}):
        o = subprocess.run([UQ, "-property", pid, "-repo", os.path.join(work, "w0", "repo"), "-verif", ROOT, "-evidence-dir", os.path.join(work, "ev0")], capture_output=True, text=True).stdout
        base[pid] = {re.sub(r" at [^ ]+:\d+.*| at -:.*", "", l.strip()) for l in o.splitlines() if l.strip().startswith("violated ")}

    def run(job):
        j, (rel, gofile, desc, props) = job
        repo = os.path.join(work, f"w{j}", "repo")
        target = os.path.join(repo, rel)
        orig = open(target, "rb").read()
        res = {"file": rel, "mutant": desc, "status": "unreported", "by": []}
        try:
            shutil.copyfile(gofile, target)
            for pid in props:
                o = subprocess.run([UQ, "-property", pid, "-repo", repo, "-verif", ROOT, "-evidence-dir", os.path.join(work, f"ev{j}")], capture_output=True, text=True).stdout
                if "LOAD FAILURE" in o or ".load:" in o:
                    res["status"] = "does not compile"
                    break
                new = [k for k in (re.sub(r" at [^ ]+:\d+.*| at -:.*", "", l.strip()) for l in o.splitlines() if l.strip().startswith("violated ")) if k not in base[pid]]
                if new:
                    res["status"] = "reported"
                    res["by"] = [k[len("violated "):][:110] for k in new[:2]]
                    break
            if res["status"] == "unreported" and args.tests:
                env = dict(os.environ, GOFLAGS="-mod=mod", GOPROXY="off", GOEXPERIMENT="synctest")
                if rel.startswith("internal/") or rel.startswith("quicvarint/"):
                    pk = ["./" + os.path.dirname(rel) + "/"]
                    label = "unreported, killed by the package's unit tests"
                else:
                    # root package and http3: with GOEXPERIMENT=synctest the virtual-time tests run (seconds)
                    pk = [".", "./integrationtests/self/", "./http3/"]
                    label = "unreported, killed by the test suites (root, integrationtests/self, http3 under synctest)"
                t = subprocess.run(["go", "test", "-mod=mod", "-vet=off", "-count=1", "-timeout", "300s"] + pk, cwd=repo, env=env, capture_output=True, text=True)
                if t.returncode != 0:
                    res["status"] = label
        finally:
            open(target, "wb").write(orig)
        return res

    # static assignment of mutants to workers so that a worker's copy is touched by one job at a time
    results = []
    import threading
    lock = threading.Lock()
    def dump(final=False):
        cnt = collections.Counter(r["status"] for r in results)
        summary = {"files": len(files), "mutants_evaluated": len(results), "mutants_selected": len(mutants), "by_status": dict(cnt),
                   "reported_fraction_of_compiling": round(cnt["reported"] / max(1, len(results) - cnt["does not compile"]), 3), "complete": final}
        json.dump({"summary": summary, "unreported": [r for r in results if r["status"].startswith("unreported")],
                   "reported_sample": [r for r in results if r["status"] == "reported"][:60]}, open(args.out, "w"), indent=1)
        return summary
    def worker(j):
        for i, m in enumerate(mutants):
            if i % J == j:
                r = run((j, m))
                with lock:
                    results.append(r)
                    if len(results) % 50 == 0:
                        dump()
    with concurrent.futures.ThreadPoolExecutor(max_workers=J) as ex:
        list(ex.map(worker, range(J)))
    print(json.dumps(dump(final=True)))
    sys.exit(0)
    cnt = collections.Counter(r["status"] for r in results)
    summary = {"files": len(files), "mutants": len(results), "by_status": dict(cnt),
               "reported_fraction_of_compiling": round(cnt["reported"] / max(1, len(results) - cnt["does not compile"]), 3)}
    json.dump({"summary": summary, "unreported": [r for r in results if r["status"].startswith("unreported")],
               "reported_sample": [r for r in results if r["status"] == "reported"][:40]}, open(args.out, "w"), indent=1)
    print(json.dumps(summary))
finally:
    shutil.rmtree(work, ignore_errors=True)
