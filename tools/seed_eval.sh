#!/bin/bash
# Applies a seeded change (patch.diff) to a scratch copy of /repo and runs every property check on it;
# prints only violations that do not already occur on the unchanged tree.
# usage: seed_eval.sh <patch.diff>
# env: UQ_BIN (checker binary to use; the table scripts pass a private copy so that a rebuild cannot mix versions),
#      UQ_BASE (file with the violation keys of the unchanged tree, computed once by the table scripts)
patch=${1:?patch}
bin=${UQ_BIN:-/verif/bin/uqcheck}
d=$(mktemp -d /tmp/uqseed.XXXXXX)
trap 'rm -rf "$d"' EXIT
rsync -a --exclude .git /repo/ "$d/repo/"
mkdir -p "$d/ev0" "$d/ev"
if [ -n "${UQ_BASE:-}" ] && [ -f "$UQ_BASE" ]; then cp "$UQ_BASE" "$d/base.txt"; else
"$bin" -property all -repo "$d/repo" -verif /verif -evidence-dir "$d/ev0" 2>&1 | grep -E "^  violated" | sed -E 's/ at [^ ]+:[0-9]+.*//' | sort -u > "$d/base.txt"; fi
if ! (cd "$d/repo" && patch -p1 -s --no-backup-if-mismatch < "$patch"); then echo "PATCH DOES NOT APPLY"; exit 3; fi
out=$("$bin" -property all -repo "$d/repo" -verif /verif -evidence-dir "$d/ev" 2>&1 | grep -v conda)
if echo "$out" | grep -q "LOAD FAILURE"; then echo "$out" | head -5; exit 4; fi
new=$(echo "$out" | grep -E "^  violated" | while IFS= read -r line; do k=$(echo "$line" | sed -E 's/ at [^ ]+:[0-9]+.*//'); grep -qxF "$k" "$d/base.txt" || echo "$line"; done)
if [ -n "$new" ]; then echo "$new" | cut -c1-${SEED_COLS:-300}; exit 0; else echo "NOT DETECTED by any check"; exit 1; fi
