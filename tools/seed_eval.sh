#!/bin/bash
# Applies a seeded change (patch.diff) to a scratch copy of /repo and runs every property check on it;
# prints only violations that do not already occur on the unchanged tree.
# usage: seed_eval.sh <patch.diff>
patch=${1:?patch}
d=$(mktemp -d /tmp/uqseed.XXXXXX)
trap 'rm -rf "$d"' EXIT
rsync -a --exclude .git /repo/ "$d/repo/"
mkdir -p "$d/ev0" "$d/ev"
/verif/bin/uqcheck -property all -repo "$d/repo" -verif /verif -evidence-dir "$d/ev0" 2>&1 | grep -E "^  violated" | sed -E 's/ at [^ ]+:[0-9]+.*//' | sort -u > "$d/base.txt"
if ! (cd "$d/repo" && patch -p1 -s --no-backup-if-mismatch < "$patch"); then echo "PATCH DOES NOT APPLY"; exit 3; fi
out=$(/verif/bin/uqcheck -property all -repo "$d/repo" -verif /verif -evidence-dir "$d/ev" 2>&1 | grep -v conda)
if echo "$out" | grep -q "LOAD FAILURE"; then echo "$out" | head -5; exit 4; fi
new=$(echo "$out" | grep -E "^  violated" | while IFS= read -r line; do k=$(echo "$line" | sed -E 's/ at [^ ]+:[0-9]+.*//'); grep -qxF "$k" "$d/base.txt" || echo "$line"; done)
if [ -n "$new" ]; then echo "$new" | cut -c1-${SEED_COLS:-300}; exit 0; else echo "NOT DETECTED by any check"; exit 1; fi
