#!/bin/bash
# Applies a seeded change (patch.diff) to a scratch copy of /repo and runs every property check on it.
# usage: seed_eval.sh <patch.diff> ; prints the properties that reported a violation.
patch=${1:?patch}
d=$(mktemp -d /tmp/uqseed.XXXXXX)
trap 'rm -rf "$d"' EXIT
rsync -a --exclude .git /repo/ "$d/repo/"
if ! (cd "$d/repo" && patch -p1 -s --no-backup-if-mismatch < "$patch"); then echo "PATCH DOES NOT APPLY"; exit 3; fi
mkdir -p "$d/ev"
out=$(/verif/bin/uqcheck -property all -repo "$d/repo" -verif /verif -evidence-dir "$d/ev" 2>&1 | grep -v conda)
echo "$out" | grep -E "^  violated|^VIOLATION|LOAD FAILURE" | cut -c1-${SEED_COLS:-330}
if echo "$out" | grep -q "^VIOLATION"; then exit 0; else echo "NOT DETECTED by any check"; exit 1; fi
